"""Gen/MarkerConsts.lean: every literal of kernel selection (C11).

Sources: osaca/semantics/marker_utils.py (COMMENT_MARKER, the two find_marked_kernel_* calls of
find_marked_section, the index arithmetic of find_marked_section, the directive name and int base of
match_bytes, the ISA names and the "-1 -> default" of reduce_to_section), osaca/osaca.py
(get_line_range: separators, indices of the two range ends, the inclusive `+ 1`; inspect: selection by
`line_number in line_range`), osaca/parser/base_parser.py (parse_file: separator, first line number,
blank test).

Everything is located by shape (call of find_marked_section, assignment to the returned names, ...).
A shape that is not found raises TranslateError: a broken tie, never a silent default.
"""
import ast

from translate import TranslateError, generator, parse, find_func, txt, txt_list, HEADER


# ------------------------------------------------------------------ small AST helpers
def _const(node, types, what):
    if isinstance(node, ast.Constant) and isinstance(node.value, types) and not isinstance(node.value, bool):
        return node.value
    if (isinstance(node, ast.UnaryOp) and isinstance(node.op, ast.USub) and isinstance(node.operand, ast.Constant)
            and isinstance(node.operand.value, int) and int in (types if isinstance(types, tuple) else (types,))):
        return -node.operand.value
    raise TranslateError("%s: expected %s literal at line %s" % (what, types, getattr(node, "lineno", "?")))


def _bool(node, what):
    if isinstance(node, ast.Constant) and isinstance(node.value, bool):
        return node.value
    raise TranslateError("%s: expected True/False at line %s" % (what, getattr(node, "lineno", "?")))


def _resolve(node, env):
    """A Name bound to a literal earlier in the same function is replaced by that literal."""
    if isinstance(node, ast.Name) and node.id in env:
        return env[node.id]
    return node


def _local_env(fn):
    env = {}
    for st in fn.body:
        if isinstance(st, ast.Assign) and len(st.targets) == 1 and isinstance(st.targets[0], ast.Name):
            env[st.targets[0].id] = st.value
    return env


def _int_list(node, what):
    if not isinstance(node, (ast.List, ast.Tuple)):
        raise TranslateError("%s: expected list literal at line %s" % (what, getattr(node, "lineno", "?")))
    return [_const(e, int, what) for e in node.elts]


def _str_list(node, what):
    if not isinstance(node, (ast.List, ast.Tuple)):
        raise TranslateError("%s: expected list literal at line %s" % (what, getattr(node, "lineno", "?")))
    return [_const(e, str, what) for e in node.elts]


def _linear(node, what):
    """Linear form {name: coeff, '': constant} of an expression built from names, ints, + and -."""
    if isinstance(node, ast.Name):
        return {node.id: 1}
    if isinstance(node, ast.Constant) and isinstance(node.value, int) and not isinstance(node.value, bool):
        return {"": node.value}
    if isinstance(node, ast.UnaryOp) and isinstance(node.op, ast.USub):
        return {k: -v for k, v in _linear(node.operand, what).items()}
    if isinstance(node, ast.BinOp) and isinstance(node.op, (ast.Add, ast.Sub)):
        a, b = _linear(node.left, what), _linear(node.right, what)
        sign = 1 if isinstance(node.op, ast.Add) else -1
        out = dict(a)
        for k, v in b.items():
            out[k] = out.get(k, 0) + sign * v
        return {k: v for k, v in out.items() if v != 0 or k == ""}
    if isinstance(node, ast.Call) and isinstance(node.func, ast.Name) and node.func.id == "len" and len(node.args) == 1 \
            and isinstance(node.args[0], ast.Name):
        return {"len(%s)" % node.args[0].id: 1}
    raise TranslateError("%s: expression is not linear at line %s" % (what, getattr(node, "lineno", "?")))


def _lean_int(v):
    return "(%d : Int)" % v


def _int_list_lean(vs):
    return "[" + ", ".join(str(v) if v >= 0 else "(%d)" % v for v in vs) + "]"


# ------------------------------------------------------------------ marker_utils.py
def _marker_call(tree, fname, defaults):
    """Arguments of the find_marked_section(...) call inside `fname`, with Names resolved."""
    fn = find_func(tree, fname)
    env = _local_env(fn)
    call = None
    for node in ast.walk(fn):
        if isinstance(node, ast.Call) and isinstance(node.func, ast.Name) and node.func.id == "find_marked_section":
            call = node
    if call is None:
        raise TranslateError("%s: no call of find_marked_section" % fname)
    names = ["lines", "parser", "mov_instr", "mov_reg", "mov_vals", "nop_bytes", "reverse", "comments"]
    args = dict(defaults)
    for i, a in enumerate(call.args):
        args[names[i]] = _resolve(a, env)
    for kw in call.keywords:
        if kw.arg not in names:
            raise TranslateError("%s: unexpected keyword %r" % (fname, kw.arg))
        args[kw.arg] = _resolve(kw.value, env)
    for n in names[2:]:
        if n not in args:
            raise TranslateError("%s: argument %s not given" % (fname, n))
    parser = args["parser"]
    if not (isinstance(parser, ast.Call) and isinstance(parser.func, ast.Name)):
        raise TranslateError("%s: parser argument is not a constructor call" % fname)
    comments = args["comments"]
    if isinstance(comments, ast.Constant) and comments.value is None:
        use_comments = False
    elif isinstance(comments, ast.Name) and comments.id == "COMMENT_MARKER":
        use_comments = True
    else:
        raise TranslateError("%s: comments argument is neither COMMENT_MARKER nor None" % fname)
    vals = _int_list(args["mov_vals"], fname + " mov_vals")
    if len(vals) != 2:
        raise TranslateError("%s: mov_vals must have two entries" % fname)
    return {
        "parser": parser.func.id,
        "mov_instr": _str_list(args["mov_instr"], fname + " mov_instr"),
        "mov_reg": _const(args["mov_reg"], str, fname + " mov_reg"),
        "mov_vals": vals,
        "nop_bytes": _int_list(args["nop_bytes"], fname + " nop_bytes"),
        "reverse": _bool(args["reverse"], fname + " reverse"),
        "comments": use_comments,
    }


def _fms_shape(tree):
    """Index arithmetic and operand indices of find_marked_section."""
    fn = find_func(tree, "find_marked_section")
    # defaults of the signature
    names = [a.arg for a in fn.args.args]
    defaults = {}
    for name, d in zip(names[len(names) - len(fn.args.defaults):], fn.args.defaults):
        defaults[name] = d
    loop = None
    for st in fn.body:
        if isinstance(st, ast.For) and isinstance(st.iter, ast.Call) and getattr(st.iter.func, "id", None) == "enumerate":
            loop = st
    if loop is None or not (isinstance(loop.target, ast.Tuple) and len(loop.target.elts) == 2):
        raise TranslateError("find_marked_section: `for i, line in enumerate(lines)` not found")
    ivar = loop.target.elts[0].id
    # initial values of the two result names (the `return a, b` names)
    ret = [st for st in fn.body if isinstance(st, ast.Return)]
    if not ret or not isinstance(ret[-1].value, ast.Tuple) or len(ret[-1].value.elts) != 2:
        raise TranslateError("find_marked_section: `return start, end` not found")
    sname, ename = [e.id for e in ret[-1].value.elts]
    init = {}
    for st in fn.body:
        if isinstance(st, ast.Assign) and isinstance(st.targets[0], ast.Name) and st.targets[0].id in (sname, ename):
            init[st.targets[0].id] = _const(st.value, int, "initial index")
    if init.get(sname) != init.get(ename) or sname not in init:
        raise TranslateError("find_marked_section: initial indices differ or are missing")
    # assignments inside the loop, split by the enclosing top-level branch (comment branch / mov branch)
    tr = loop.body[0]
    if not isinstance(tr, ast.Try) or not tr.body or not isinstance(tr.body[0], ast.If):
        raise TranslateError("find_marked_section: loop body is not try/if")
    top = tr.body[0]
    if len(top.orelse) != 1 or not isinstance(top.orelse[0], ast.If):
        raise TranslateError("find_marked_section: if/elif of comment and mov branch not found")
    branches = {"comment": top.body, "mov": top.orelse[0].body}

    def assigns(stmts, name):
        out = []
        for st in stmts:
            for node in ast.walk(st):
                if isinstance(node, ast.Assign) and isinstance(node.targets[0], ast.Name) and node.targets[0].id == name:
                    out.append(_linear(node.value, "find_marked_section " + name))
        return out

    res = {}
    for br, stmts in branches.items():
        for nm, key in ((sname, "start"), (ename, "end")):
            a = assigns(stmts, nm)
            if len(a) != 1:
                raise TranslateError("find_marked_section: expected one assignment of %s in the %s branch" % (nm, br))
            res[(br, key)] = a[0]
    # the line_count name: second element of the tuple returned by match_bytes
    lc = None
    for node in ast.walk(top.orelse[0]):
        if isinstance(node, ast.Assign) and isinstance(node.value, ast.Call) and getattr(node.value.func, "id", None) == "match_bytes":
            tgt = node.targets[0]
            if isinstance(tgt, ast.Tuple) and len(tgt.elts) == 2:
                lc = tgt.elts[1].id
            mb = node.value
            # match_bytes(lines, i + 1, nop_bytes): the index argument
            idx = _linear(mb.args[1], "match_bytes index")
            if set(idx) - {ivar, ""} or idx.get(ivar) != 1:
                raise TranslateError("find_marked_section: match_bytes index is not i + k")
            res.setdefault("mb_index", set()).add(idx.get("", 0))
    if lc is None or len(res.get("mb_index", ())) != 1:
        raise TranslateError("find_marked_section: match_bytes call shape not found")
    out = {"init": init[sname], "mb_off": res["mb_index"].pop()}

    def offs(lin, allow_lc, what):
        extra = set(lin) - {ivar, "", lc if allow_lc else ivar}
        if extra or lin.get(ivar) != 1 or (allow_lc and lin.get(lc) != 1):
            raise TranslateError("find_marked_section: %s is not of the expected linear shape: %r" % (what, lin))
        return lin.get("", 0)

    out["start_comment"] = offs(res[("comment", "start")], False, "comment start")
    out["end_comment"] = offs(res[("comment", "end")], False, "comment end")
    out["start_bytes"] = offs(res[("mov", "start")], True, "byte-marker start")
    out["end_bytes"] = offs(res[("mov", "end")], False, "byte-marker end")
    # `len(lines) > i + 1 and lines[i + 1].directive is not None`: look-ahead distance
    look = set()
    for node in ast.walk(top.orelse[0].test):
        if isinstance(node, ast.Subscript) and isinstance(node.value, ast.Name) and node.value.id == names[0]:
            lin = _linear(node.slice, "look-ahead index")
            if set(lin) - {ivar, ""} or lin.get(ivar) != 1:
                raise TranslateError("find_marked_section: look-ahead index is not i + k")
            look.add(lin.get("", 0))
    if len(look) != 1:
        raise TranslateError("find_marked_section: look-ahead `lines[i + 1].directive` not found")
    out["look"] = look.pop()
    # operand indices: line.operands[A if not reverse else B]
    idxs = []
    for node in ast.walk(top.orelse[0]):
        if (isinstance(node, ast.Assign) and isinstance(node.value, ast.Subscript)
                and isinstance(node.value.value, ast.Attribute) and node.value.value.attr == "operands"):
            sl = node.value.slice
            if not (isinstance(sl, ast.IfExp) and isinstance(sl.test, ast.UnaryOp) and isinstance(sl.test.op, ast.Not)
                    and isinstance(sl.test.operand, ast.Name) and sl.test.operand.id == "reverse"):
                raise TranslateError("find_marked_section: operand index is not `a if not reverse else b`")
            idxs.append((node.targets[0].id, _const(sl.body, int, "operand index"), _const(sl.orelse, int, "operand index")))
    if [n for n, _, _ in idxs] != ["source", "destination"]:
        raise TranslateError("find_marked_section: source/destination operand selection not found")
    out["src_idx"], out["src_idx_rev"] = idxs[0][1], idxs[0][2]
    out["dst_idx"], out["dst_idx_rev"] = idxs[1][1], idxs[1][2]
    # which mov_vals index selects start and which selects end
    vals_idx = []
    for node in ast.walk(top.orelse[0]):
        if isinstance(node, ast.Subscript) and isinstance(node.value, ast.Name) and node.value.id == "mov_vals":
            vals_idx.append(_const(node.slice, int, "mov_vals index"))
    if len(vals_idx) != 2:
        raise TranslateError("find_marked_section: expected two uses of mov_vals[k]")
    out["val_idx_start"], out["val_idx_end"] = vals_idx
    return out, defaults


def _match_bytes(tree):
    fn = find_func(tree, "match_bytes")
    name = None
    base = None
    for node in ast.walk(fn):
        if isinstance(node, ast.Compare) and len(node.ops) == 1 and isinstance(node.ops[0], ast.Eq):
            l, r = node.left, node.comparators[0]
            if isinstance(l, ast.Attribute) and l.attr == "name" and isinstance(r, ast.Constant) and isinstance(r.value, str):
                name = r.value
        if isinstance(node, ast.Call) and isinstance(node.func, ast.Name) and node.func.id == "int":
            if len(node.args) == 2:
                base = _const(node.args[1], int, "match_bytes int base")
            elif len(node.args) == 1:
                base = 10
    if name is None or base is None:
        raise TranslateError("match_bytes: directive name comparison or int(x, base) not found")
    if base not in (0, 10):
        raise TranslateError("match_bytes: int base %r is not modelled" % base)
    # prefix comparison  extracted[0:len(byte_list)] == byte_list
    prefix = False
    for node in ast.walk(fn):
        if isinstance(node, ast.Compare) and isinstance(node.left, ast.Subscript) and isinstance(node.left.slice, ast.Slice):
            sl = node.left.slice
            lo = 0 if sl.lower is None else _const(sl.lower, int, "match_bytes slice")
            up = _linear(sl.upper, "match_bytes slice") if sl.upper is not None else None
            if lo == 0 and up is not None and list(up.values()) == [1] and list(up)[0].startswith("len("):
                prefix = True
    if not prefix:
        raise TranslateError("match_bytes: prefix comparison `bytes[0:len(list)] == list` not found")
    # the loop stops once enough bytes are collected:  `... and len(extracted) < len(byte_list)`
    loops = [n for n in ast.walk(fn) if isinstance(n, ast.While)]
    if len(loops) != 1:
        raise TranslateError("match_bytes: expected one while loop")
    bounded = False
    for node in ast.walk(loops[0].test):
        if isinstance(node, ast.Compare) and len(node.ops) == 1 and isinstance(node.ops[0], ast.Lt):
            a, b = _linear(node.left, "match_bytes bound"), _linear(node.comparators[0], "match_bytes bound")
            if list(a.values()) == [1] and list(b.values()) == [1] and list(a)[0].startswith("len(") \
                    and list(b)[0] == "len(%s)" % fn.args.args[2].arg and list(a)[0] != list(b)[0]:
                bounded = True
    if not bounded:
        raise TranslateError("match_bytes: loop is not bounded by `len(extracted) < len(byte_list)` "
                             "(byte lines after a complete marker would be swallowed)")
    # a parameter that is no integer literal means "no marker": try/except (ValueError, TypeError) -> False
    caught = set()
    for node in ast.walk(loops[0]):
        if isinstance(node, ast.Try):
            has_int = any(isinstance(n, ast.Call) and getattr(n.func, "id", None) == "int" for st in node.body for n in ast.walk(st))
            for h in node.handlers:
                returns_false = any(isinstance(n, ast.Return) and isinstance(n.value, ast.Tuple) and n.value.elts
                                    and isinstance(n.value.elts[0], ast.Constant) and n.value.elts[0].value is False
                                    for st in h.body for n in ast.walk(st))
                if has_int and returns_false:
                    t = h.type
                    for e in (t.elts if isinstance(t, ast.Tuple) else [t]):
                        if isinstance(e, ast.Name):
                            caught.add(e.id)
    if not {"ValueError", "TypeError"} <= caught and "Exception" not in caught:
        raise TranslateError("match_bytes: int() of a non-numeric .byte parameter is not mapped to `no marker` "
                             "(caught: %s)" % sorted(caught))
    return name, base


def _reduce(tree):
    fn = find_func(tree, "reduce_to_section")
    isas = []
    for node in ast.walk(fn):
        if isinstance(node, ast.If) and isinstance(node.test, ast.Compare) and isinstance(node.test.left, ast.Name) \
                and node.test.left.id == "isa" and isinstance(node.test.ops[0], ast.Eq):
            isa = _const(node.test.comparators[0], str, "reduce_to_section isa")
            callee = None
            for sub in node.body:
                for n in ast.walk(sub):
                    if isinstance(n, ast.Call) and isinstance(n.func, ast.Name) and n.func.id.startswith("find_marked_kernel"):
                        callee = n.func.id
            if callee is None:
                raise TranslateError("reduce_to_section: branch for %r calls no find_marked_kernel_*" % isa)
            isas.append((isa, callee))
    if len(isas) != 2:
        raise TranslateError("reduce_to_section: expected two ISA branches, got %r" % isas)
    lowered = any(isinstance(n, ast.Attribute) and n.attr == "lower" for n in ast.walk(fn))
    # `if start == -1: start = 0`, `if end == -1: end = len(kernel)`, `return kernel[start:end]`
    dflt = {}
    for node in ast.walk(fn):
        if isinstance(node, ast.If) and isinstance(node.test, ast.Compare) and isinstance(node.test.left, ast.Name) \
                and node.test.left.id in ("start", "end") and isinstance(node.test.ops[0], ast.Eq):
            sentinel = _const(node.test.comparators[0], int, "reduce_to_section sentinel")
            if len(node.body) != 1 or not isinstance(node.body[0], ast.Assign):
                raise TranslateError("reduce_to_section: default assignment not found")
            dflt[node.test.left.id] = (sentinel, _linear(node.body[0].value, "reduce_to_section default"))
    if set(dflt) != {"start", "end"}:
        raise TranslateError("reduce_to_section: start/end defaults not found")
    if dflt["start"][1] != {"": 0} or dflt["end"][1] != {"len(kernel)": 1}:
        raise TranslateError("reduce_to_section: defaults are not 0 / len(kernel): %r" % (dflt,))
    ret = [n for n in ast.walk(fn) if isinstance(n, ast.Return)]
    ok = False
    for r in ret:
        v = r.value
        if isinstance(v, ast.Subscript) and isinstance(v.slice, ast.Slice) and isinstance(v.slice.lower, ast.Name) \
                and isinstance(v.slice.upper, ast.Name) and v.slice.lower.id == "start" and v.slice.upper.id == "end" \
                and v.slice.step is None:
            ok = True
    if not ok:
        raise TranslateError("reduce_to_section: `return kernel[start:end]` not found")
    return isas, lowered, dflt["start"][0], dflt["end"][0]


# ------------------------------------------------------------------ osaca.py / base_parser.py
def _line_range(tree):
    fn = find_func(tree, "get_line_range")
    rep = None
    splits = []
    for node in ast.walk(fn):
        if isinstance(node, ast.Call) and isinstance(node.func, ast.Attribute):
            if node.func.attr == "replace" and len(node.args) == 2:
                rep = (_const(node.args[0], str, "replace"), _const(node.args[1], str, "replace"))
            if node.func.attr == "split" and len(node.args) == 1:
                splits.append(_const(node.args[0], str, "split"))
    if rep is None or len(rep[0]) != 1 or len(rep[1]) != 1:
        raise TranslateError("get_line_range: single-character replace(a, b) not found")
    if len(splits) != 3 or splits[1] != splits[2] or any(len(s) != 1 for s in splits):
        raise TranslateError("get_line_range: expected split(list sep) and two split(range sep): %r" % splits)
    # `"-" in line`
    contains = None
    for node in ast.walk(fn):
        if isinstance(node, ast.If) and isinstance(node.test, ast.Compare) and isinstance(node.test.ops[0], ast.In):
            contains = _const(node.test.left, str, "range test")
    if contains != splits[1]:
        raise TranslateError("get_line_range: range test character differs from the split character")
    # start = int(line.split("-")[A]); end = int(line.split("-")[B]); range(start, end + K)
    idx = {}
    for node in ast.walk(fn):
        if isinstance(node, ast.Assign) and isinstance(node.targets[0], ast.Name) and isinstance(node.value, ast.Call) \
                and getattr(node.value.func, "id", None) == "int" and len(node.value.args) == 1 \
                and isinstance(node.value.args[0], ast.Subscript):
            idx[node.targets[0].id] = _const(node.value.args[0].slice, int, "range end index")
    if set(idx) != {"start", "end"}:
        raise TranslateError("get_line_range: start/end = int(split[k]) not found")
    rng = None
    for node in ast.walk(fn):
        if isinstance(node, ast.Call) and getattr(node.func, "id", None) == "range" and len(node.args) == 2:
            a, b = _linear(node.args[0], "range lower"), _linear(node.args[1], "range upper")
            if a != {"start": 1} or set(b) - {"end", ""} or b.get("end") != 1:
                raise TranslateError("get_line_range: range(start, end + k) not found")
            rng = b.get("", 0)
    if rng is None:
        raise TranslateError("get_line_range: range(...) not found")
    # inspect: `line.line_number in line_range`
    insp = find_func(tree, "inspect")
    sel = False
    for node in ast.walk(insp):
        if isinstance(node, ast.ListComp) and len(node.generators) == 1 and len(node.generators[0].ifs) == 1:
            t = node.generators[0].ifs[0]
            if isinstance(t, ast.Compare) and isinstance(t.ops[0], ast.In) and isinstance(t.left, ast.Attribute) \
                    and t.left.attr == "line_number" and isinstance(node.elt, ast.Name) \
                    and node.elt.id == node.generators[0].target.id:
                sel = True
    if not sel:
        raise TranslateError("inspect: `[line for line in parsed_code if line.line_number in line_range]` not found")
    return rep, splits[0], splits[1], idx["start"], idx["end"], rng


def _parse_file(tree):
    fn = find_func(tree, "parse_file", "BaseParser")
    sep = None
    first = None
    blank = None
    for node in ast.walk(fn):
        if isinstance(node, ast.Call) and isinstance(node.func, ast.Attribute) and node.func.attr == "split" and node.args:
            sep = _const(node.args[0], str, "parse_file split")
        if isinstance(node, ast.Call) and isinstance(node.func, ast.Attribute) and node.func.attr == "parse_line" \
                and len(node.args) == 2:
            lin = _linear(node.args[1], "parse_file line number")
            if set(lin) - {"i", "start_line", ""} or lin.get("i") != 1 or lin.get("start_line") != 1:
                raise TranslateError("parse_file: line number is not i + k + start_line")
            first = lin.get("", 0)
        if isinstance(node, ast.If) and isinstance(node.test, ast.Compare) and isinstance(node.test.ops[0], ast.Eq):
            l = node.test.left
            if isinstance(l, ast.Call) and isinstance(l.func, ast.Attribute) and l.func.attr == "strip" and not l.args \
                    and len(node.body) == 1 and isinstance(node.body[0], ast.Continue):
                blank = _const(node.test.comparators[0], str, "parse_file blank test")
    if sep is None or len(sep) != 1 or first is None or blank != "":
        raise TranslateError("parse_file: split / `line.strip() == \"\"` / parse_line(line, i + k + start_line) not found")
    start_default = None
    names = [a.arg for a in fn.args.args]
    for name, d in zip(names[len(names) - len(fn.args.defaults):], fn.args.defaults):
        if name == "start_line":
            start_default = _const(d, int, "start_line default")
    if start_default is None:
        raise TranslateError("parse_file: start_line default not found")
    return sep, first, start_default


@generator("MarkerConsts", ["osaca/semantics/marker_utils.py", "osaca/osaca.py", "osaca/parser/base_parser.py"])
def gen_markerconsts():
    tm = parse("osaca/semantics/marker_utils.py")
    # COMMENT_MARKER
    cm = None
    for st in tm.body:
        if isinstance(st, ast.Assign) and isinstance(st.targets[0], ast.Name) and st.targets[0].id == "COMMENT_MARKER":
            if not isinstance(st.value, ast.Dict):
                raise TranslateError("COMMENT_MARKER is not a dict literal")
            cm = {_const(k, str, "COMMENT_MARKER"): _const(v, str, "COMMENT_MARKER") for k, v in zip(st.value.keys, st.value.values)}
    if cm is None or set(cm) != {"start", "end"}:
        raise TranslateError("COMMENT_MARKER with keys start/end not found")
    shape, defaults = _fms_shape(tm)
    isas, lowered, sent_s, sent_e = _reduce(tm)
    if sent_s != shape["init"] or sent_e != shape["init"]:
        raise TranslateError("reduce_to_section tests %r/%r but find_marked_section starts from %r" % (sent_s, sent_e, shape["init"]))
    cfg = {}
    for isa, callee in isas:
        cfg[isa] = _marker_call(tm, callee, defaults)
    if set(cfg) != {"x86", "aarch64"}:
        raise TranslateError("reduce_to_section: ISA names %r" % sorted(cfg))
    expect_parser = {"x86": "ParserX86ATT", "aarch64": "ParserAArch64"}
    for isa in cfg:
        if cfg[isa]["parser"] != expect_parser[isa]:
            raise TranslateError("%s uses parser %s" % (isa, cfg[isa]["parser"]))
    dname, base = _match_bytes(tm)
    to = parse("osaca/osaca.py")
    rep, list_sep, range_sep, i_start, i_end, inc = _line_range(to)
    tb = parse("osaca/parser/base_parser.py")
    pf_sep, pf_first, pf_start = _parse_file(tb)

    o = [HEADER, "namespace OsacaVerif.Gen\n"]
    o.append("/-- `COMMENT_MARKER[\"start\"]` = %r -/" % cm["start"])
    o.append("def commentStart : List Nat := %s" % txt(cm["start"]))
    o.append("/-- `COMMENT_MARKER[\"end\"]` = %r -/" % cm["end"])
    o.append("def commentEnd : List Nat := %s\n" % txt(cm["end"]))
    for isa, pfx in (("x86", "x86"), ("aarch64", "a64")):
        c = cfg[isa]
        o.append("/-- arguments of the find_marked_section call for %s -/" % isa)
        o.append("def %sIsaName : List Nat := %s  -- %r" % (pfx, txt(isa), isa))
        o.append("def %sMovInstr : List (List Nat) := %s  -- %s" % (pfx, txt_list(c["mov_instr"]), " ".join(c["mov_instr"])))
        o.append("def %sMovReg : List Nat := %s  -- %s" % (pfx, txt(c["mov_reg"]), c["mov_reg"]))
        o.append("def %sMovVals : List Int := %s" % (pfx, _int_list_lean(c["mov_vals"])))
        o.append("def %sNopBytes : List Int := %s" % (pfx, _int_list_lean(c["nop_bytes"])))
        o.append("def %sReverse : Bool := %s" % (pfx, "true" if c["reverse"] else "false"))
        o.append("def %sComments : Bool := %s\n" % (pfx, "true" if c["comments"] else "false"))
    o.append("/-- `isa = isa.lower()` in reduce_to_section -/")
    o.append("def isaLowered : Bool := %s\n" % ("true" if lowered else "false"))
    o.append("/-- find_marked_section: index arithmetic (offsets added to the loop index `i`) -/")
    o.append("def startOffComment : Nat := %d   -- index_start = i + k        (comment marker)" % shape["start_comment"])
    o.append("def endOffComment : Nat := %d     -- index_end = i + k" % shape["end_comment"])
    o.append("def startOffBytes : Nat := %d     -- index_start = i + k + line_count (byte marker)" % shape["start_bytes"])
    o.append("def endOffBytes : Nat := %d       -- index_end = i + k" % shape["end_bytes"])
    o.append("def lookAhead : Nat := %d         -- lines[i + k].directive is not None" % shape["look"])
    o.append("def matchBytesOff : Nat := %d     -- match_bytes(lines, i + k, nop_bytes)" % shape["mb_off"])
    o.append("def srcIdx : Nat := %d" % shape["src_idx"])
    o.append("def srcIdxRev : Nat := %d" % shape["src_idx_rev"])
    o.append("def dstIdx : Nat := %d" % shape["dst_idx"])
    o.append("def dstIdxRev : Nat := %d" % shape["dst_idx_rev"])
    o.append("def valIdxStart : Nat := %d       -- mov_vals[k] selects the start marker" % shape["val_idx_start"])
    o.append("def valIdxEnd : Nat := %d         -- mov_vals[k] selects the end marker\n" % shape["val_idx_end"])
    o.append("/-- match_bytes: directive name and the base given to int() -/")
    o.append("def byteDirName : List Nat := %s  -- %r" % (txt(dname), dname))
    o.append("def byteIntBase : Nat := %d\n" % base)
    o.append("/-- get_line_range (osaca.py) -/")
    o.append("def lrReplaceFrom : Nat := %d  -- %r" % (ord(rep[0]), rep[0]))
    o.append("def lrReplaceTo : Nat := %d    -- %r" % (ord(rep[1]), rep[1]))
    o.append("def lrListSep : Nat := %d      -- %r" % (ord(list_sep), list_sep))
    o.append("def lrRangeSep : Nat := %d     -- %r" % (ord(range_sep), range_sep))
    o.append("def lrIdxStart : Nat := %d" % i_start)
    o.append("def lrIdxEnd : Nat := %d" % i_end)
    o.append("def lrEndInc : Int := %d       -- range(start, end + k)\n" % inc)
    o.append("/-- BaseParser.parse_file -/")
    o.append("def pfSep : Nat := %d          -- %r" % (ord(pf_sep), pf_sep))
    o.append("def pfFirstLine : Nat := %d    -- parse_line(line, i + k + start_line)" % pf_first)
    o.append("def pfStartLineDefault : Nat := %d\n" % pf_start)
    o.append("end OsacaVerif.Gen\n")
    for k in ("start_comment", "end_comment", "start_bytes", "end_bytes", "look", "mb_off"):
        if shape[k] < 0:
            raise TranslateError("find_marked_section: negative offset %s = %d is not modelled" % (k, shape[k]))
    if inc < -1000 or pf_first < 0 or pf_start < 0:
        raise TranslateError("unexpected constant")
    return "\n".join(o)
