"""Gen/MarkerConsts.lean: every literal of kernel selection (C11).

Sources: osaca/semantics/marker_utils.py (COMMENT_MARKER, the two find_marked_kernel_* calls of
find_marked_section, the index arithmetic of find_marked_section, the directive name and int base of
match_bytes, the ISA names and the "-1 -> default" of reduce_to_section), osaca/osaca.py
(get_line_range: separators, indices of the two range ends, the inclusive `+ 1`; inspect: selection by
`line_number in line_range`), osaca/parser/base_parser.py (parse_file: separator, first line number,
blank test).

Extraction is SEMANTIC, not textual (helpers in astutil_G2.py; purely static, nothing of OSACA is imported
or executed, there is no dynamic fallback):

* every constant goes through a constant-expression evaluator (hex/octal/arithmetic spellings, string
  concatenation, module-level names, tuples vs lists, dict literals in any order);
* every function body is run through a symbolic path enumerator that substitutes local names by what they
  were assigned (hoisted sub-expressions, renamed locals, tuple unpacking, conditional expressions), and
  reports each effect together with the atomic facts of its path, so if/elif vs nested if vs guard clause
  with continue/break/return, `a and b` vs nested tests, `not (x == y)` vs `x != y`, `while a and b` vs
  `while a: if not b: break` all look the same;
* a loop that filters and appends and a list comprehension are read into the same (target, iterable,
  conditions, element) form;
* reduce_to_section is read as a TABLE: for every ISA name the code compares `isa` with (and for one name it
  does not know) and for every combination found / not found of the two indices, the path conditions are evaluated
  (three-valued: what does not evaluate excludes nothing) and the returns that remain must slice the kernel with the
  finder's index or the default accordingly.  if/elif/else, a guard clause raising first and a plain else, `in (..)`,
  De Morgan forms, nested negative tests, conditional expressions, early returns instead of rebinding start/end are
  the same table; an else branch that serves unknown names, swapped finders or another sentinel are not;
* calls of PRIVATE module functions / methods (underscore names) are replaced by the helper's statements before a
  function is read (astutil_G5.inline_helpers), so "extract function" does not show;
* parameters of find_marked_section get their role from how they are USED (compared with normalize_imd(..),
  passed to match_bytes, ...), not from their names; the loop index, the line variable, the names of the
  results are taken from the code.

What is a fact of the behaviour is still insisted on: which comment key / mov value selects start and which
end, every offset, every operand index per `reverse`, comparison operators of the facts that are read (==, <,
is not None, in), the prefix comparison and the bound of match_bytes, the exceptions mapped to "no marker", the
receiver of split / replace.  A shape that cannot be interpreted raises TranslateError: a broken tie, never a
silent default.
"""
import ast
import os
import sys

from translate import TranslateError, generator, parse, find_func, txt, txt_list, HEADER

sys.path.insert(0, os.path.dirname(os.path.abspath(__file__)))
import astutil_G2 as U  # noqa: E402
import astutil_G5 as G5  # noqa: E402
from astutil_G2 import (Paths, State, atoms, ceval, cmp_atom, const_of, dump, fail, is_unpack, linear,  # noqa: E402
                        lin_offset, method_call, name_call, subst, sym, sym_cmp, walk_exprs)


def _func(tree, name, cls=None):
    """the function, with the calls of PRIVATE helpers (underscore names; for a method also static methods of
    its class) replaced by the helper's statements (astutil_G5.inline_helpers, two levels): code moved into a
    helper by an "extract function" refactoring is read as if it still stood in the function.  Public functions
    (find_marked_kernel_*, match_bytes, get_line_range, parse_line, ...) are part of what the model names and
    are never substituted."""
    fn = find_func(tree, name, cls)
    if cls is None:
        res = G5.module_resolver(tree, fn, only=lambda n, f: n.startswith("_") and not n.startswith("__"))
    else:
        cnode = [n for n in ast.walk(tree) if isinstance(n, ast.ClassDef) and n.name == cls][0]
        res = G5.class_resolver([cnode], fn, only=G5.is_private_helper)
    new, used = G5.inline_helpers(fn, res, depth=2)
    return new if used else fn


def _int_list_lean(vs):
    return "[" + ", ".join(str(v) if v >= 0 else "(%d)" % v for v in vs) + "]"


def _is_name(node, name=None):
    return isinstance(node, ast.Name) and (name is None or node.id == name)


def _merge(dst, key, val, what):
    """record a fact; two paths that state it must agree"""
    if val is None:
        return
    if key in dst and dst[key] != val:
        raise TranslateError("%s: inconsistent %s: %r vs %r" % (what, key, dst[key], val))
    dst[key] = val


def _int_seq(v, what):
    if not isinstance(v, (list, tuple)) or any(not isinstance(x, int) or isinstance(x, bool) for x in v):
        raise TranslateError("%s: expected a list of ints, got %r" % (what, v))
    return list(v)


def _str_seq(v, what):
    if not isinstance(v, (list, tuple)) or any(not isinstance(x, str) for x in v):
        raise TranslateError("%s: expected a list of strings, got %r" % (what, v))
    return list(v)


# ------------------------------------------------------------------ loops as (index, element) streams
IDX = ast.Name(id="__idx__", ctx=ast.Load())   # 0-based position in the iterated sequence
I = dump(IDX)


def _indexed_loop(target, it, seq_ok):
    """`for i, x in enumerate(S[, start])` or `for i in range(len(S))`: (bindings {i: __idx__ [+ start],
    x: S[__idx__]}, S).  `seq_ok(S)` says whether S is acceptable."""
    a = name_call(it, "enumerate")
    if a is not None and isinstance(target, ast.Tuple) and len(target.elts) == 2 and all(_is_name(e) for e in target.elts):
        start = None
        if len(a) == 2 and not it.keywords:
            start = a[1]
        elif len(a) == 1 and len(it.keywords) == 1 and it.keywords[0].arg == "start":
            start = it.keywords[0].value
        elif not (len(a) == 1 and not it.keywords):
            return None
        if not seq_ok(a[0]):
            return None
        ivar, xvar = target.elts[0].id, target.elts[1].id
        if ivar == xvar:
            return None
        elem = ast.Subscript(value=a[0], slice=IDX, ctx=ast.Load())
        return {ivar: IDX if start is None else ast.BinOp(left=IDX, op=ast.Add(), right=start), xvar: elem}, a[0]
    a = name_call(it, "range", 1)
    if a is not None and _is_name(target) and not it.keywords:
        b = name_call(a[0], "len", 1)
        if b is not None and seq_ok(b[0]):
            return {target.id: IDX}, b[0]
    return None


# ------------------------------------------------------------------ marker_utils.py: find_marked_section
def _fms_shape(tree, menv):
    """Index arithmetic, operand indices and parameter roles of find_marked_section."""
    what = "find_marked_section"
    fn = _func(tree, what)
    params, defaults = U.func_params(fn)
    env = U.func_env(fn, menv)
    # the statements before the loop, the loop, the return
    loops = [st for st in fn.body if isinstance(st, (ast.For, ast.While))]
    if len(loops) != 1 or not isinstance(loops[0], ast.For):
        raise TranslateError("find_marked_section: expected exactly one top-level for loop")
    loop = loops[0]
    pre = Paths()
    entry = pre.run(fn.body[:fn.body.index(loop)])
    if len(entry) != 1:
        raise TranslateError("find_marked_section: code before the loop branches")
    entry = entry[0]
    post = Paths()
    post.run(fn.body[fn.body.index(loop) + 1:], [State((), {})])
    rets = [e for e in post.events if e.kind == "return"]
    if len(rets) != 1 or not isinstance(rets[0].value, ast.Tuple) or len(rets[0].value.elts) != 2 \
            or not all(_is_name(e) for e in rets[0].value.elts):
        raise TranslateError("find_marked_section: `return start, end` after the loop not found")
    sname, ename = [e.id for e in rets[0].value.elts]
    if sname == ename:
        raise TranslateError("find_marked_section: start and end are the same name")
    init = {}
    for nm in (sname, ename):
        if nm not in entry.binds:
            raise TranslateError("find_marked_section: initial value of %s not found" % nm)
        init[nm] = const_of(entry.binds[nm], env, int, "find_marked_section initial index")
    if init[sname] != init[ename]:
        raise TranslateError("find_marked_section: initial indices differ")
    il = _indexed_loop(loop.target, subst(loop.iter, entry.binds), lambda s: _is_name(s) and s.id in params)
    if il is None:
        raise TranslateError("find_marked_section: `for i, line in enumerate(lines)` not found")
    lbinds, seq = il
    roles = {"lines": seq.id}
    px = Paths()
    px.run(loop.body, [px.loop_entry(loop, entry, lbinds)])

    def line_at(node):
        """k if node is lines[i + k]"""
        if isinstance(node, ast.Subscript) and _is_name(node.value, roles["lines"]) and not isinstance(node.slice, ast.Slice):
            try:
                return lin_offset(linear(node.slice, env, "line index"), [I], "line index")
            except TranslateError:
                return None
        return None

    def line_attr(node, attr):
        """k if node is lines[i + k].attr"""
        if isinstance(node, ast.Attribute) and node.attr == attr:
            return line_at(node.value)
        return None

    def param_of(node, role):
        if not (_is_name(node) and node.id in params):
            return False
        _merge(roles, role, node.id, "find_marked_section parameter roles")
        return True

    res = {}
    events = [e for e in px.events if e.kind == "assign" and e.name in (sname, ename) and not e.in_handler]
    if not events:
        raise TranslateError("find_marked_section: no assignment of the result indices in the loop")
    seen = set()
    for ev in events:
        tgt = "start" if ev.name == sname else "end"
        lin = linear(ev.value, env, "find_marked_section " + ev.name)
        # --- is it a comment marker?   comments[key] == line.comment
        ckey = None
        for at in ev.conds:
            for l, r in sym_cmp(at, ast.Eq):
                if line_attr(l, "comment") == 0 and isinstance(r, ast.Subscript) and param_of(r.value, "comments"):
                    ckey = const_of(r.slice, env, str, "comment marker key")
        # --- or a byte marker?   truth of the first result of match_bytes(lines, i + k, nop_bytes)
        mb = None
        for node, pol in ev.conds:
            if not pol:
                continue
            call = is_unpack(node, 0)
            if call is None and isinstance(node, ast.Subscript) and not isinstance(node.slice, ast.Slice):
                try:
                    if ceval(node.slice, env) == 0:
                        call = node.value
                except TranslateError:
                    pass
            if call is not None and name_call(call, "match_bytes", 3) is not None and not call.keywords:
                mb = call
        if (ckey is None) == (mb is None):
            raise TranslateError("find_marked_section: assignment of %s at line %s is neither on a comment-marker "
                                 "nor on a byte-marker path" % (ev.name, ev.node.lineno))
        if ckey is not None:
            seen.add(("comment", tgt))
            _merge(res, "%s_comment" % tgt, lin_offset(lin, [I], "comment " + tgt), what)
            _merge(res, "%s_key" % tgt, ckey, what)
            continue
        seen.add(("mov", tgt))
        a = mb.args
        if not (_is_name(a[0], roles["lines"]) and param_of(a[2], "nop_bytes")):
            raise TranslateError("find_marked_section: match_bytes is not called as match_bytes(lines, i + k, nop_bytes)")
        _merge(res, "mb_off", lin_offset(linear(a[1], env, "match_bytes index"), [I], "match_bytes index"), what)
        if tgt == "start":
            lcs = [dump(U.unpack_node(mb, 1, 2)), dump(ast.Subscript(value=mb, slice=ast.Constant(value=1), ctx=ast.Load()))]
            lc = [k for k in lin if k in lcs]
            if len(lc) != 1:
                raise TranslateError("find_marked_section: byte-marker start does not add the line count of match_bytes")
            _merge(res, "start_bytes", lin_offset(lin, [I, lc[0]], "byte-marker start"), what)
        else:
            _merge(res, "end_bytes", lin_offset(lin, [I], "byte-marker end"), what)
        # facts of the path: mnemonic in mov_instr, lines[i + k].directive is not None,
        # parser.normalize_imd(SRC) == mov_vals[v], parser.get_full_reg_name(DST) == mov_reg
        src = dst = None
        got = set()
        for at in ev.conds:
            p = cmp_atom(at, ast.In)
            if p is not None and line_attr(p[0], "mnemonic") == 0 and param_of(p[1], "mov_instr"):
                got.add("mnemonic")
            for l, r in sym_cmp(at, ast.IsNot):
                k = line_attr(l, "directive")
                if k is not None and isinstance(r, ast.Constant) and r.value is None:
                    _merge(res, "look", k, what)
                    got.add("look")
            for l, r in sym_cmp(at, ast.Eq):
                m = method_call(l, "normalize_imd", 1)
                if m is not None and isinstance(r, ast.Subscript) and _is_name(r.value) and r.value.id in params:
                    param_of(m[0], "parser")
                    param_of(r.value, "mov_vals")
                    _merge(res, "val_idx_%s" % tgt, const_of(r.slice, env, int, "mov_vals index"), what)
                    src = m[1][0]
                    got.add("imd")
                m = method_call(l, "get_full_reg_name", 1)
                if m is not None and _is_name(r) and r.id in params:
                    param_of(m[0], "parser")
                    param_of(r, "mov_reg")
                    dst = m[1][0]
                    got.add("reg")
        missing = {"mnemonic", "look", "imd", "reg"} - got
        if missing:
            raise TranslateError("find_marked_section: byte-marker %s path lacks the tests %s" % (tgt, sorted(missing)))
        # operand indices per value of `reverse`
        idx = {}
        for key, op in (("src", src), ("dst", dst)):
            if not (isinstance(op, ast.Subscript) and line_attr(op.value, "operands") == 0
                    and not isinstance(op.slice, ast.Slice)):
                raise TranslateError("find_marked_section: %s operand is not line.operands[k]" % key)
            idx[key] = op.slice
        rev = {n.id for op in idx.values() for n in ast.walk(op) if isinstance(n, ast.Name)}
        assumed = {}
        for node, pol in ev.conds:
            if _is_name(node) and node.id in params and node.id != roles.get("comments"):
                rev.add(node.id)
                assumed[node.id] = pol
        if len(rev) != 1 or not rev <= set(params):
            raise TranslateError("find_marked_section: operand indices do not depend on exactly one parameter: %r" % sorted(rev))
        _merge(roles, "reverse", rev.pop(), "find_marked_section parameter roles")
        for r in (False, True):
            if assumed.get(roles["reverse"], r) != r:
                continue
            e2 = env.child({roles["reverse"]: r})
            for key in ("src", "dst"):
                _merge(res, "%s_idx%s" % (key, "_rev" if r else ""), const_of(idx[key], e2, int, "operand index"), what)
    need = {("comment", "start"), ("comment", "end"), ("mov", "start"), ("mov", "end")}
    if seen != need:
        raise TranslateError("find_marked_section: marker paths not found: %s" % sorted(need - seen))
    for k in ("src_idx", "src_idx_rev", "dst_idx", "dst_idx_rev"):
        if k not in res:
            raise TranslateError("find_marked_section: %s not determined" % k)
    for r in ("lines", "parser", "mov_instr", "mov_reg", "mov_vals", "nop_bytes", "reverse", "comments"):
        if r not in roles:
            raise TranslateError("find_marked_section: no parameter plays the role %s" % r)
    if len(set(roles.values())) != len(roles):
        raise TranslateError("find_marked_section: one parameter plays two roles: %r" % roles)
    res["init"] = init[sname]
    return res, roles, params, defaults


def _marker_call(tree, menv, fname, fms):
    """Values of the arguments of the find_marked_section(...) call inside `fname`, by role."""
    _, roles, params, defaults = fms
    fn = _func(tree, fname)
    env = U.func_env(fn, menv)
    px = Paths()
    px.run(fn.body)
    calls = {}
    for ev, n in walk_exprs(px.events):
        if name_call(n, "find_marked_section") is not None:
            calls[dump(n)] = n
    if len(calls) != 1:
        raise TranslateError("%s: expected one call of find_marked_section, found %d" % (fname, len(calls)))
    args = U.bind_call(list(calls.values())[0], params, defaults, fname)
    arg = {role: args[p] for role, p in roles.items()}
    parser = arg["parser"]
    if not (isinstance(parser, ast.Call) and isinstance(parser.func, ast.Name) and not parser.args and not parser.keywords):
        raise TranslateError("%s: parser argument is not a constructor call" % fname)
    comments = const_of(arg["comments"], env, (dict, type(None)), fname + " comments")
    vals = _int_seq(const_of(arg["mov_vals"], env, (list, tuple), fname + " mov_vals"), fname + " mov_vals")
    rev = const_of(arg["reverse"], env, (bool, int), fname + " reverse")
    if rev not in (0, 1):
        raise TranslateError("%s: reverse is not a truth value" % fname)
    return {
        "parser": parser.func.id,
        "mov_instr": _str_seq(const_of(arg["mov_instr"], env, (list, tuple), fname + " mov_instr"), fname + " mov_instr"),
        "mov_reg": const_of(arg["mov_reg"], env, str, fname + " mov_reg"),
        "mov_vals": vals,
        "nop_bytes": _int_seq(const_of(arg["nop_bytes"], env, (list, tuple), fname + " nop_bytes"), fname + " nop_bytes"),
        "reverse": bool(rev),
        "comments": comments,
    }


# ------------------------------------------------------------------ marker_utils.py: match_bytes
def _loop_facts(loop, entry):
    """Facts that hold whenever the body proper of a while loop runs: the conjuncts of the loop condition plus
    the negations of leading `if c: break` guards (hoisted locals in between are substituted).
    Returns (facts, state at the first statement that is not such a guard)."""
    st = Paths().loop_entry(loop, entry)
    test = subst(loop.test, st.binds)
    try:
        always = bool(ceval(test))
    except TranslateError:
        always = None
    if always is False:
        fail("while loop never runs", loop)
    facts = [] if always else atoms(test, True)
    stores = {}
    for n in ast.walk(loop):
        if isinstance(n, ast.Name) and isinstance(n.ctx, ast.Store):
            stores[n.id] = stores.get(n.id, 0) + 1
    for s in loop.body:
        if isinstance(s, ast.Assign) and len(s.targets) == 1 and _is_name(s.targets[0]) and stores.get(s.targets[0].id) == 1:
            st.binds[s.targets[0].id] = subst(s.value, st.binds)
            continue
        if isinstance(s, ast.If) and not s.orelse and [type(x) for x in s.body if not isinstance(x, ast.Pass)] == [ast.Break]:
            facts += atoms(subst(s.test, st.binds), False)
            continue
        break
    return facts, st


def _match_bytes(tree, menv):
    fn = _func(tree, "match_bytes")
    params, _ = U.func_params(fn)
    if len(params) != 3:
        raise TranslateError("match_bytes: expected the parameters (lines, index, byte_list)")
    p_lines, p_index, p_bytes = params
    env = U.func_env(fn, menv)
    loops = [st for st in fn.body if isinstance(st, (ast.While, ast.For))]
    if len(loops) != 1 or not isinstance(loops[0], ast.While) or loops[0].orelse:
        raise TranslateError("match_bytes: expected one while loop")
    loop = loops[0]
    pre = Paths()
    entry = pre.run(fn.body[:fn.body.index(loop)])
    if len(entry) != 1:
        raise TranslateError("match_bytes: code before the loop branches")
    facts, _ = _loop_facts(loop, entry[0])
    # directive name and the bound  len(extracted) < len(byte_list)
    want_name = sym("%s[%s].directive.name" % (p_lines, p_index))
    len_bytes = sym("len(%s)" % p_bytes)
    name = acc = None
    for at in facts:
        for l, r in sym_cmp(at, ast.Eq):
            if dump(l) == want_name:
                name = const_of(r, env, str, "match_bytes directive name")
        p = cmp_atom(at, ast.Lt)
        if p is not None and dump(p[1]) == len_bytes:
            a = name_call(p[0], "len", 1)
            if a is not None and _is_name(a[0]) and a[0].id != p_bytes:
                acc = a[0].id
    if name is None:
        raise TranslateError("match_bytes: the loop does not test `lines[index].directive.name == <name>`")
    if acc is None:
        raise TranslateError("match_bytes: loop is not bounded by `len(extracted) < len(byte_list)` "
                             "(byte lines after a complete marker would be swallowed)")
    # int(x, base)
    bases = set()
    for node in ast.walk(fn):
        if isinstance(node, ast.Call) and _is_name(node.func, "int"):
            kw = {k.arg: k.value for k in node.keywords}
            if len(node.args) == 2 and not kw:
                bases.add(const_of(node.args[1], env, int, "match_bytes int base"))
            elif len(node.args) == 1 and set(kw) == {"base"}:
                bases.add(const_of(kw["base"], env, int, "match_bytes int base"))
            elif len(node.args) == 1 and not kw:
                bases.add(10)
            else:
                fail("match_bytes: call of int() not understood", node)
    if len(bases) != 1:
        raise TranslateError("match_bytes: int(x, base) not found or with several bases: %r" % sorted(bases))
    base = bases.pop()
    if base not in (0, 10):
        raise TranslateError("match_bytes: int base %r is not modelled" % base)
    # a parameter that is no integer literal means "no marker": try/except (ValueError, TypeError) -> False
    caught = set()
    for node in ast.walk(loop):
        if isinstance(node, ast.Try):
            has_int = any(isinstance(n, ast.Call) and _is_name(n.func, "int") for st in node.body for n in ast.walk(st))
            for h in node.handlers:
                hp = Paths()
                hp.run(h.body)
                rets = [e for e in hp.events if e.kind == "return"]
                returns_false = bool(rets) and all(
                    isinstance(e.value, ast.Tuple) and e.value.elts and _const_is(e.value.elts[0], env, False) for e in rets)
                if has_int and returns_false:
                    t = h.type
                    if t is None:
                        caught.add("Exception")
                    for e in (t.elts if isinstance(t, ast.Tuple) else [t] if t is not None else []):
                        if isinstance(e, ast.Name):
                            caught.add(e.id)
    if not {"ValueError", "TypeError"} <= caught and "Exception" not in caught and "BaseException" not in caught:
        raise TranslateError("match_bytes: int() of a non-numeric .byte parameter is not mapped to `no marker` "
                             "(caught: %s)" % sorted(caught))
    # after the loop:  return True, ...  exactly under  extracted[0:len(byte_list)] == byte_list
    post = Paths()
    post.run(fn.body[fn.body.index(loop) + 1:], [State((), {})])
    hits = [e for e in post.events if e.kind == "return" and isinstance(e.value, ast.Tuple) and e.value.elts
            and _const_is(e.value.elts[0], env, True)]
    if not hits:
        raise TranslateError("match_bytes: `return True, line_count` after the loop not found")
    for e in hits:
        ok = False
        for at in e.conds:
            for l, r in sym_cmp(at, ast.Eq):
                if _is_name(r, p_bytes) and isinstance(l, ast.Subscript) and isinstance(l.slice, ast.Slice) \
                        and _is_name(l.value, acc) and l.slice.step is None and l.slice.upper is not None \
                        and (l.slice.lower is None or _const_is(l.slice.lower, env, 0)) \
                        and linear(l.slice.upper, env, "match_bytes slice") == {len_bytes: 1, "": 0}:
                    ok = True
        if not ok:
            raise TranslateError("match_bytes: prefix comparison `bytes[0:len(list)] == list` not found")
    return name, base


def _const_is(node, env, value):
    try:
        v = ceval(node, env)
    except TranslateError:
        return False
    return type(v) is type(value) and v == value


# ------------------------------------------------------------------ marker_utils.py: reduce_to_section
def _reduce(tree, menv):
    what = "reduce_to_section"
    fn = _func(tree, what)
    params, _ = U.func_params(fn)
    if len(params) != 2:
        raise TranslateError("reduce_to_section: expected the parameters (kernel, isa)")
    p_kernel, p_isa = params
    env = U.func_env(fn, menv)
    px = Paths()
    px.run(fn.body)
    if any(e.kind == "loop" for e in px.events):
        raise TranslateError("reduce_to_section: loops are not interpreted")
    rets = [e for e in px.events if e.kind == "return"]
    if not rets:
        raise TranslateError("reduce_to_section: no return")
    len_kernel = sym("len(%s)" % p_kernel)
    out = {}
    callee_of, combos = {}, {}

    def raw(node, k):
        """the find_marked_kernel_* call if node is element k of its result"""
        call = is_unpack(node, k)
        if call is None and isinstance(node, ast.Subscript) and not isinstance(node.slice, ast.Slice) \
                and _const_is(node.slice, env, k):
            call = node.value
        if isinstance(call, ast.Call) and isinstance(call.func, ast.Name) and call.func.id.startswith("find_marked_kernel") \
                and len(call.args) == 1 and not call.keywords and _is_name(call.args[0], p_kernel):
            return call.func.id
        return None

    # ---- which ISA value reaches which return: CASE SPLIT over the values the code distinguishes.
    # Every path condition is evaluated with `isa` (or `isa.lower()`) replaced by each string the code compares it
    # with, and by one string it does not know; a condition that does not evaluate is "unknown" and excludes
    # nothing.  So if/elif/else, a guard clause that raises first + plain else, `in (..)`, `not (a or b)`,
    # conditional expressions and De Morgan forms all give the same table  value -> reachable returns.
    all_conds = [at for e in px.events for at in e.conds]
    seen_forms = set()
    for node, _ in all_conds:
        for n in ast.walk(node):
            if dump(n) == sym("%s.lower()" % p_isa):
                seen_forms.add(True)
        bare = sum(1 for n in ast.walk(node) if _is_name(n, p_isa))
        low = sum(1 for n in ast.walk(node) if dump(n) == sym("%s.lower()" % p_isa))
        if bare > low:
            seen_forms.add(False)
    if len(seen_forms) != 1:
        raise TranslateError("reduce_to_section: a return is reached without an `isa == <name>` test"
                             if not seen_forms else "reduce_to_section: isa is tested both lower-cased and as given")
    lowered = seen_forms.pop()
    out["lowered"] = lowered
    form = sym("%s.lower()" % p_isa) if lowered else sym(p_isa)

    class _Put(ast.NodeTransformer):
        def __init__(self, value):
            self.value = value

        def visit(self, node):
            if isinstance(node, ast.expr) and dump(node) == form:
                return ast.Constant(value=self.value)
            return self.generic_visit(node)

    values = []
    for node, _ in all_conds:
        for n in ast.walk(node):
            if isinstance(n, ast.Compare):
                sides = [n.left] + list(n.comparators)
                if any(dump(x) == form for x in sides):
                    for x in sides:
                        try:
                            c = ceval(x, env)
                        except TranslateError:
                            continue
                        for y in (c if isinstance(c, (list, tuple, set, frozenset)) else [c]):
                            if isinstance(y, str) and y not in values:
                                values.append(y)
    OTHER = "\0some other isa"
    if not values:
        raise TranslateError("reduce_to_section: a return is reached without an `isa == <name>` test")

    import copy as _copy
    sentinels = {0: set(), 1: set()}

    def truth(at, value, world):
        """True / False / None (unknown) of one path fact when isa is `value` and `world[k]` says whether index k
        of the finder's result is the 'not found' sentinel"""
        node, pol = at

        def atom(n):
            if isinstance(n, ast.Compare) and len(n.ops) == 1 and isinstance(n.ops[0], (ast.Eq, ast.NotEq)):
                for a, b in ((n.left, n.comparators[0]), (n.comparators[0], n.left)):
                    for k in (0, 1):
                        if raw(a, k) is not None:
                            sentinels[k].add(const_of(b, env, int, "reduce_to_section sentinel"))
                            if world is None:
                                raise TranslateError("unknown")
                            return world[k] == isinstance(n.ops[0], ast.Eq)
            if isinstance(n, (ast.Compare, ast.Call)) and any(dump(x) == form for x in ast.walk(n)) \
                    and not any(isinstance(x, (ast.BoolOp, ast.IfExp)) for x in ast.walk(n)):
                return bool(ceval(_Put(value).visit(_copy.deepcopy(n)), env))
            return None

        try:
            return G5.bool_eval(node, atom) == pol
        except TranslateError:
            return None

    def feasible(conds, value, world=None):
        return all(truth(at, value, world) is not False for at in conds)

    def is_default(bound, k):
        if k == 0:
            return bound is not None and _const_is(bound, env, 0)
        return bound is None or _const_is(bound, env, None) or dump(bound) == len_kernel

    for e in rets:
        if feasible(e.conds, OTHER):
            raise TranslateError("reduce_to_section: a return is reached without an `isa == <name>` test")
        reach = [x for x in values if feasible(e.conds, x)]
        if len(reach) > 1:
            raise TranslateError("reduce_to_section: one return path serves several ISA names: %r" % reach)
    # ---- per ISA name and per combination found / not found: what is returned
    for isa in values:
        for world in ((False, False), (False, True), (True, False), (True, True)):
            live = [e for e in rets if feasible(e.conds, isa, world)]
            if not live:
                if not any(feasible(e.conds, isa) for e in rets):
                    break       # a name that is only rejected (compared with, never served)
                raise TranslateError("reduce_to_section: for %r not every combination of found / default is reachable" % isa)
            for e in live:
                v = e.value
                if not (isinstance(v, ast.Subscript) and isinstance(v.slice, ast.Slice) and _is_name(v.value, p_kernel)
                        and v.slice.step is None):
                    raise TranslateError("reduce_to_section: `return kernel[start:end]` not found (line %s)" % e.node.lineno)
                for k, bound in ((0, v.slice.lower), (1, v.slice.upper)):
                    if world[k]:
                        if not is_default(bound, k):
                            raise TranslateError("reduce_to_section: defaults are not 0 / len(kernel)"
                                                 if raw(bound, k) is None else
                                                 "reduce_to_section: a found index is used without the `== -1` test")
                    else:
                        c = raw(bound, k) if bound is not None else None
                        if c is None:
                            raise TranslateError("reduce_to_section: a default is used without the `== -1` test"
                                                 if is_default(bound, k) else
                                                 "reduce_to_section: `return kernel[start:end]` not found (line %s)" % e.node.lineno)
                        _merge(callee_of, isa, c, what)
        else:
            if isa not in callee_of:
                raise TranslateError("reduce_to_section: the finder used for %r is not determined" % isa)
    for k, key in ((0, "sent_start"), (1, "sent_end")):
        if len(sentinels[k]) != 1:
            raise TranslateError("reduce_to_section: the `== -1` test of the %s index not found (or several values: %r)"
                                 % ("start" if k == 0 else "end", sorted(sentinels[k])))
        out[key] = sentinels[k].pop()
    if len(callee_of) != 2:
        raise TranslateError("reduce_to_section: expected two ISA branches, got %r" % sorted(callee_of))
    return sorted(callee_of.items()), out["lowered"], out["sent_start"], out["sent_end"]


# ------------------------------------------------------------------ filter + map, as a loop or as a comprehension
def _comprehension(node):
    """(target, iterable, facts, element) of a one-generator list comprehension / generator expression"""
    if isinstance(node, (ast.ListComp, ast.GeneratorExp)) and len(node.generators) == 1 and not node.generators[0].is_async:
        g = node.generators[0]
        facts = []
        for c in g.ifs:
            facts += atoms(c, True)
        return g.target, g.iter, facts, node.elt
    return None


def _append_loop(loop, entry):
    """(target, iterable, facts, element, accumulator name) of `for t in it: [if c:] acc.append(elem)` where
    nothing else happens in the body (guards with `continue` are conditions)"""
    if not isinstance(loop, ast.For) or loop.orelse:
        return None
    px = Paths()
    st = px.loop_entry(loop, entry)
    px.run(loop.body, [st])
    eff = [e for e in px.events if e.kind not in ("continue", "assign")]
    if len(eff) != 1 or eff[0].kind != "expr":
        return None
    m = method_call(eff[0].value, "append", 1)
    if m is None or not _is_name(m[0]):
        return None
    return loop.target, subst(loop.iter, entry.binds), list(eff[0].conds), m[1][0], m[0].id


# ------------------------------------------------------------------ osaca.py
def _line_range(tree, menv):
    what = "get_line_range"
    fn = _func(tree, what)
    params, _ = U.func_params(fn)
    if len(params) != 1:
        raise TranslateError("get_line_range: expected one parameter")
    p_str = params[0]
    env = U.func_env(fn, menv)
    loops = [st for st in fn.body if isinstance(st, (ast.For, ast.While))]
    if len(loops) != 1 or not isinstance(loops[0], ast.For) or not _is_name(loops[0].target):
        raise TranslateError("get_line_range: expected one `for line in ...` loop")
    loop = loops[0]
    pre = Paths()
    entry = pre.run(fn.body[:fn.body.index(loop)])
    if len(entry) != 1:
        raise TranslateError("get_line_range: code before the loop branches")
    it = subst(loop.iter, entry[0].binds)
    m = method_call(it, "split", 1)
    m2 = method_call(m[0], "replace", 2) if m is not None else None
    if m2 is None or not _is_name(m2[0], p_str):
        raise TranslateError("get_line_range: the loop does not run over line_str.replace(a, b).split(sep)")
    rep = (const_of(m2[1][0], env, str, "replace"), const_of(m2[1][1], env, str, "replace"))
    list_sep = const_of(m[1][0], env, str, "split")
    if len(rep[0]) != 1 or len(rep[1]) != 1 or len(list_sep) != 1:
        raise TranslateError("get_line_range: single-character replace(a, b) / split(sep) not found")
    x = loop.target.id
    px = Paths()
    px.run(loop.body, [px.loop_entry(loop, entry[0])])
    out = {}

    def end_of(node, k_what):
        """(separator, k) of int(line.split(sep)[k])"""
        a = name_call(node, "int", 1)
        if a is None or node.keywords or not isinstance(a[0], ast.Subscript) or isinstance(a[0].slice, ast.Slice):
            return None
        s = method_call(a[0].value, "split", 1)
        if s is None or not _is_name(s[0], x):
            return None
        return const_of(s[1][0], env, str, "split"), const_of(a[0].slice, env, int, k_what)

    ranges = {}
    for ev, n in walk_exprs(px.events):
        a = name_call(n, "range")
        if a is None:
            continue
        contains = None
        for at in ev.conds:
            p = cmp_atom(at, ast.In)
            if p is not None and _is_name(p[1], x):
                contains = const_of(p[0], env, str, "range test")
        if contains is None:
            raise TranslateError("get_line_range: range(...) is not guarded by `<sep> in line`")
        if len(a) != 2 or n.keywords:
            raise TranslateError("get_line_range: range(start, end + k) not found")
        lo = end_of(a[0], "range start index")
        ints = [c for c in ast.walk(a[1]) if name_call(c, "int") is not None]
        hi = end_of(ints[0], "range end index") if len(ints) == 1 else None
        if lo is None or hi is None:
            raise TranslateError("get_line_range: the range ends are not int(line.split(sep)[k])")
        inc = lin_offset(linear(a[1], env, "range upper"), [dump(ints[0])], "range upper")
        if not (contains == lo[0] == hi[0]):
            raise TranslateError("get_line_range: range test character differs from the split character")
        ranges[dump(n)] = (contains, lo[1], hi[1], inc)
    if len(set(ranges.values())) != 1:
        raise TranslateError("get_line_range: expected one range(start, end + k), found %d" % len(ranges))
    range_sep, i_start, i_end, inc = list(ranges.values())[0]
    if len(range_sep) != 1:
        raise TranslateError("get_line_range: range separator is not a single character")
    # inspect: kernel = [line for line in parsed_code if line.line_number in get_line_range(args.lines)]
    insp = _func(tree, "inspect")
    sel = False
    cands = []
    for node in ast.walk(insp):
        c = _comprehension(node)
        if c is not None:
            cands.append(c)
        if isinstance(node, ast.For):
            c = _append_loop(node, State())
            if c is not None:
                cands.append(c[:4])
    for target, _it, facts, elt in cands:
        if not (_is_name(target) and _is_name(elt, target.id) and len(facts) == 1):
            continue
        p = cmp_atom(facts[0], ast.In)
        if p is None or not (isinstance(p[0], ast.Attribute) and p[0].attr == "line_number" and _is_name(p[0].value, target.id)):
            continue
        r = p[1]
        if _is_name(r):
            defs = [n.value for n in ast.walk(insp) if isinstance(n, ast.Assign) and any(_is_name(t, r.id) for t in n.targets)]
            stores = [n for n in ast.walk(insp) if _is_name(n, r.id) and isinstance(n.ctx, ast.Store)]
            r = defs[0] if len(defs) == 1 and len(stores) == 1 else None
        if r is not None and name_call(r, "get_line_range", 1) is not None:
            sel = True
    if not sel:
        raise TranslateError("inspect: `[line for line in parsed_code if line.line_number in line_range]` not found")
    return rep, list_sep, range_sep, i_start, i_end, inc


# ------------------------------------------------------------------ base_parser.py
def _parse_file(tree, menv):
    what = "parse_file"
    fn = _func(tree, what, "BaseParser")
    params, defaults = U.func_params(fn)
    if len(params) < 2:
        raise TranslateError("parse_file: expected (self, file_content, ...)")
    p_self, p_content = params[0], params[1]
    env = U.func_env(fn, menv, self_class="BaseParser")
    loops = [st for st in fn.body if isinstance(st, (ast.For, ast.While))]
    if len(loops) > 1:
        raise TranslateError("parse_file: more than one loop")
    if loops:
        loop = loops[0]
        pre = Paths()
        entry = pre.run(fn.body[:fn.body.index(loop)])
        if len(entry) != 1:
            raise TranslateError("parse_file: code before the loop branches")
        c = _append_loop(loop, entry[0])
        if c is None:
            raise TranslateError("parse_file: the loop is not `for i, line in enumerate(lines): [skip blank] append(parse_line(..))`")
        target, it, facts, elt, acc = c
        init = entry[0].binds.get(acc)
        if init is None or not _const_is(init, env, []):
            raise TranslateError("parse_file: the result list does not start empty")
        post = Paths()
        post.run(fn.body[fn.body.index(loop) + 1:], [State((), {})])
        rets = [e for e in post.events if e.kind == "return"]
        if len(rets) != 1 or not _is_name(rets[0].value, acc) or len(post.events) != 1:
            raise TranslateError("parse_file: the collected list is not returned as it is")
        il = _indexed_loop(target, it, lambda s: True)
        lb = il[0] if il is not None else None
        stored = U.stored_names(loop.body)
        if lb is not None and stored & set(lb):
            raise TranslateError("parse_file: the loop variables are reassigned")
    else:
        px = Paths()
        px.run(fn.body)
        rets = [e for e in px.events if e.kind == "return"]
        c = _comprehension(rets[0].value) if len(rets) == 1 and not rets[0].conds else None
        if c is None or not isinstance(rets[0].value, ast.ListComp) or any(e.kind in ("expr", "store", "raise") for e in px.events):
            raise TranslateError("parse_file: neither a collecting loop nor `return [parse_line(..) for ..]`")
        target, it, facts, elt = c
        il = _indexed_loop(target, it, lambda s: True)
        lb = il[0] if il is not None else None
    if il is None:
        raise TranslateError("parse_file: lines are not visited by `for i, line in enumerate(<lines>)`")
    seq = il[1]
    elt = subst(elt, lb)
    facts = [(subst(n, lb), pol) for n, pol in facts]
    m = method_call(seq, "split", 1)
    if m is None or not _is_name(m[0], p_content):
        raise TranslateError("parse_file: the lines are not file_content.split(sep)")
    sep = const_of(m[1][0], env, str, "parse_file split")
    if len(sep) != 1:
        raise TranslateError("parse_file: separator is not a single character")
    # the only condition: the stripped line is not empty
    line = dump(ast.Subscript(value=seq, slice=IDX, ctx=ast.Load()))
    stripped = dump(ast.Call(func=ast.Attribute(value=ast.Subscript(value=seq, slice=IDX, ctx=ast.Load()), attr="strip",
                                                ctx=ast.Load()), args=[], keywords=[]))

    def nonblank(at):
        node, pol = at
        if pol and dump(node) == stripped:
            return True
        for l, r in sym_cmp(at, ast.NotEq):
            if dump(l) == stripped and _const_is(r, env, ""):
                return True
            a = name_call(l, "len", 1)
            if a is not None and dump(a[0]) == stripped and _const_is(r, env, 0):
                return True
        p = cmp_atom(at, ast.Lt)
        if p is not None and _const_is(p[0], env, 0):
            a = name_call(p[1], "len", 1)
            return a is not None and dump(a[0]) == stripped
        return False

    if len(facts) != 1 or not nonblank(facts[0]):
        raise TranslateError("parse_file: the only filter must be `line.strip() != \"\"` (blank lines skipped but counted)")
    m = method_call(elt, "parse_line", 2)
    if m is None or not _is_name(m[0], p_self) or dump(m[1][0]) != line:
        raise TranslateError("parse_file: the element is not self.parse_line(line, number)")
    lin = linear(m[1][1], env, "parse_file line number")
    ps = [p for p in params if dump(ast.Name(id=p, ctx=ast.Load())) in lin]
    if len(ps) != 1 or ps[0] not in defaults:
        raise TranslateError("parse_file: line number is not i + k + start_line")
    first = lin_offset(lin, [I, dump(ast.Name(id=ps[0], ctx=ast.Load()))], "parse_file line number")
    start_default = const_of(defaults[ps[0]], env, int, "start_line default")
    return sep, first, start_default


@generator("MarkerConsts", ["osaca/semantics/marker_utils.py", "osaca/osaca.py", "osaca/parser/base_parser.py",
                            "../verif-self:tools/gen/markerconsts.py", "../verif-self:tools/gen/astutil_G2.py",
                            "../verif-self:tools/gen/astutil_G5.py"])
def gen_markerconsts():
    tm = parse("osaca/semantics/marker_utils.py")
    menv = U.module_env(tm)
    fms = _fms_shape(tm, menv)
    shape = fms[0]
    isas, lowered, sent_s, sent_e = _reduce(tm, menv)
    if sent_s != shape["init"] or sent_e != shape["init"]:
        raise TranslateError("reduce_to_section tests %r/%r but find_marked_section starts from %r" % (sent_s, sent_e, shape["init"]))
    cfg = {}
    for isa, callee in isas:
        cfg[isa] = _marker_call(tm, menv, callee, fms)
    if set(cfg) != {"x86", "aarch64"}:
        raise TranslateError("reduce_to_section: ISA names %r" % sorted(cfg))
    expect_parser = {"x86": "ParserX86ATT", "aarch64": "ParserAArch64"}
    for isa in cfg:
        if cfg[isa]["parser"] != expect_parser[isa]:
            raise TranslateError("%s uses parser %s" % (isa, cfg[isa]["parser"]))
        for k in (shape["val_idx_start"], shape["val_idx_end"]):
            if not 0 <= k < len(cfg[isa]["mov_vals"]):
                raise TranslateError("%s: mov_vals has no entry %d" % (isa, k))
    # COMMENT_MARKER: the dict handed over as `comments` (one for both ISAs)
    dicts = [c["comments"] for c in cfg.values() if c["comments"] is not None]
    if not dicts:
        try:
            dicts = [menv.lookup("COMMENT_MARKER")]
        except TranslateError:
            raise TranslateError("COMMENT_MARKER not found")
    cm = dicts[0]
    if any(d != cm for d in dicts):
        raise TranslateError("the ISAs use different comment markers (not modelled)")
    ks, ke = shape["start_key"], shape["end_key"]
    if not isinstance(cm, dict) or ks not in cm or ke not in cm or not all(isinstance(cm[k], str) for k in (ks, ke)):
        raise TranslateError("COMMENT_MARKER with keys %r/%r not found" % (ks, ke))
    for c in cfg.values():
        c["comments"] = c["comments"] is not None
    dname, base = _match_bytes(tm, menv)
    to = parse("osaca/osaca.py")
    rep, list_sep, range_sep, i_start, i_end, inc = _line_range(to, U.module_env(to))
    tb = parse("osaca/parser/base_parser.py")
    pf_sep, pf_first, pf_start = _parse_file(tb, U.module_env(tb))

    o = [HEADER, "namespace OsacaVerif.Gen\n"]
    o.append("/-- `COMMENT_MARKER[\"%s\"]` = %r -/" % (ks, cm[ks]))
    o.append("def commentStart : List Nat := %s" % txt(cm[ks]))
    o.append("/-- `COMMENT_MARKER[\"%s\"]` = %r -/" % (ke, cm[ke]))
    o.append("def commentEnd : List Nat := %s\n" % txt(cm[ke]))
    for isa, pfx in (("x86", "x86"), ("aarch64", "a64")):
        c = cfg[isa]
        o.append("/-- arguments of the find_marked_section call for %s -/" % isa)
        o.append("def %sIsaName : List Nat := %s  -- %r" % (pfx, txt(isa), isa))
        o.append("def %sMovInstr : List (List Nat) := %s  -- %s" % (pfx, txt_list(c["mov_instr"]), " ".join(c["mov_instr"])))
        o.append("def %sMovReg : List Nat := %s  -- %s" % (pfx, txt(c["mov_reg"]), c["mov_reg"]))
        o.append("def %sMovVals : List Int := %s" % (pfx, _int_list_lean(c["mov_vals"])))
        o.append("def %sNopBytes : List Int := %s" % (pfx, _int_list_lean(c["nop_bytes"])))
        o.append("def %sReverse : Bool := %s" % (pfx, "true" if c["reverse"] else "false"))
        o.append("def %sComments : Bool := %s\n" % (pfx, "true" if c["comments"] else "false"))
    o.append("/-- `isa = isa.lower()` in reduce_to_section -/")
    o.append("def isaLowered : Bool := %s\n" % ("true" if lowered else "false"))
    o.append("/-- find_marked_section: index arithmetic (offsets added to the loop index `i`) -/")
    o.append("def startOffComment : Nat := %d   -- index_start = i + k        (comment marker)" % shape["start_comment"])
    o.append("def endOffComment : Nat := %d     -- index_end = i + k" % shape["end_comment"])
    o.append("def startOffBytes : Nat := %d     -- index_start = i + k + line_count (byte marker)" % shape["start_bytes"])
    o.append("def endOffBytes : Nat := %d       -- index_end = i + k" % shape["end_bytes"])
    o.append("def lookAhead : Nat := %d         -- lines[i + k].directive is not None" % shape["look"])
    o.append("def matchBytesOff : Nat := %d     -- match_bytes(lines, i + k, nop_bytes)" % shape["mb_off"])
    o.append("def srcIdx : Nat := %d" % shape["src_idx"])
    o.append("def srcIdxRev : Nat := %d" % shape["src_idx_rev"])
    o.append("def dstIdx : Nat := %d" % shape["dst_idx"])
    o.append("def dstIdxRev : Nat := %d" % shape["dst_idx_rev"])
    o.append("def valIdxStart : Nat := %d       -- mov_vals[k] selects the start marker" % shape["val_idx_start"])
    o.append("def valIdxEnd : Nat := %d         -- mov_vals[k] selects the end marker\n" % shape["val_idx_end"])
    o.append("/-- match_bytes: directive name and the base given to int() -/")
    o.append("def byteDirName : List Nat := %s  -- %r" % (txt(dname), dname))
    o.append("def byteIntBase : Nat := %d\n" % base)
    o.append("/-- get_line_range (osaca.py) -/")
    o.append("def lrReplaceFrom : Nat := %d  -- %r" % (ord(rep[0]), rep[0]))
    o.append("def lrReplaceTo : Nat := %d    -- %r" % (ord(rep[1]), rep[1]))
    o.append("def lrListSep : Nat := %d      -- %r" % (ord(list_sep), list_sep))
    o.append("def lrRangeSep : Nat := %d     -- %r" % (ord(range_sep), range_sep))
    o.append("def lrIdxStart : Nat := %d" % i_start)
    o.append("def lrIdxEnd : Nat := %d" % i_end)
    o.append("def lrEndInc : Int := %d       -- range(start, end + k)\n" % inc)
    o.append("/-- BaseParser.parse_file -/")
    o.append("def pfSep : Nat := %d          -- %r" % (ord(pf_sep), pf_sep))
    o.append("def pfFirstLine : Nat := %d    -- parse_line(line, i + k + start_line)" % pf_first)
    o.append("def pfStartLineDefault : Nat := %d\n" % pf_start)
    o.append("end OsacaVerif.Gen\n")
    for k in ("start_comment", "end_comment", "start_bytes", "end_bytes", "look", "mb_off"):
        if shape[k] < 0:
            raise TranslateError("find_marked_section: negative offset %s = %d is not modelled" % (k, shape[k]))
    if inc < -1000 or pf_first < 0 or pf_start < 0:
        raise TranslateError("unexpected constant")
    return "\n".join(o)
