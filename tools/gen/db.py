"""Gen/Db_<arch>.lean for every shipped (non-empty) machine model + Gen/DbAll.lean (C15, C01 K1).

Each Db file holds the model's port list and the *distinct* raw YAML values the costing code
consumes: port_pressure of instruction forms, throughput/latency values, the load/store throughput
tables and their defaults -- and the kernel-decided theorem that all of them are well-formed
(`Spec.dbWF`).  A malformed entry in a YAML file makes that file's theorem fail to compile.
"""
import glob
import os
from fractions import Fraction

import translate as T
from translate import TranslateError, generator, txt, HEADER


def y_lit(v):
    """Lean literal (type Y) of a YAML value."""
    if v is None:
        return ".null"
    if isinstance(v, bool):
        return ".bool %s" % ("true" if v else "false")
    if isinstance(v, int):
        return ".num (%d)" % v if v >= 0 else ".num (-%d)" % -v
    if isinstance(v, float):
        fr = Fraction(repr(v))
        if fr.denominator == 1:
            return y_lit(int(fr.numerator))
        return ".num ((%d : Rat) / %d)" % (fr.numerator, fr.denominator)
    if isinstance(v, str):
        return ".str %s" % txt(v)
    if isinstance(v, (list, tuple)):
        return ".list [" + ", ".join(y_lit(e) for e in v) + "]"
    if isinstance(v, dict):
        return ".map [" + ", ".join("(%s, %s)" % (y_lit(k), y_lit(x)) for k, x in v.items()) + "]"
    raise TranslateError("unsupported YAML value %r" % (v,))


def canon(v):
    """hashable canonical form for de-duplication"""
    if isinstance(v, (list, tuple)):
        return ("L",) + tuple(canon(e) for e in v)
    if isinstance(v, dict):
        return ("M",) + tuple((canon(k), canon(x)) for k, x in v.items())
    return (type(v).__name__, v)


def distinct(values):
    seen, out = set(), []
    for v in values:
        c = canon(v)
        if c not in seen:
            seen.add(c)
            out.append(v)
    return out


def load_yaml(path):
    import ruamel.yaml

    y = ruamel.yaml.YAML(typ="safe")
    with open(path, encoding="utf-8") as f:
        return y.load(f)


def arch_files():
    out = []
    for f in sorted(glob.glob(os.path.join(T.REPO, "osaca", "data", "*.yml"))):
        if os.path.getsize(f) > 0:
            out.append(os.path.basename(f)[:-4])
    return out


def lean_list(name, items, chunk=None):
    lines = ["def %s : List Y := [" % name]
    lines.append(",\n".join("  " + y_lit(v) for v in items))
    lines.append("]")
    return "\n".join(lines)


def gen_db(arch):
    d = load_yaml(os.path.join(T.REPO, "osaca", "data", arch + ".yml"))
    if not isinstance(d, dict) or "ports" not in d or "instruction_forms" not in d:
        raise TranslateError("%s.yml: not a machine model" % arch)
    forms = d["instruction_forms"] or []
    pps = distinct([e["port_pressure"] for e in forms if e.get("port_pressure") is not None])
    nums = distinct([e.get(k) for e in forms for k in ("throughput", "latency")])
    load_rows = distinct([r.get("port_pressure") for r in (d.get("load_throughput") or [])])
    store_rows = distinct([r.get("port_pressure") for r in (d.get("store_throughput") or [])])
    ns = "Db_" + arch
    out = [HEADER, "import OsacaVerif.Spec.WellFormed\n", "namespace OsacaVerif.Gen.%s" % ns, "open OsacaVerif\n"]
    out.append("def ports : List (List Nat) := [%s]\n" % ", ".join(txt(str(p)) for p in d["ports"]))
    out.append(lean_list("ppValues", pps) + "\n")
    out.append(lean_list("numValues", nums) + "\n")
    out.append(lean_list("loadRows", load_rows) + "\n")
    out.append(lean_list("storeRows", store_rows) + "\n")
    out.append("def loadDefault : Y := %s" % y_lit(d.get("load_throughput_default", [])))
    out.append("def storeDefault : Y := %s\n" % y_lit(d.get("store_throughput_default", [])))
    out.append("def db : Spec.Db := { name := %s, ports := ports, ppValues := ppValues, numValues := numValues, "
               "loadRows := loadRows, storeRows := storeRows, loadDefault := loadDefault, storeDefault := storeDefault }\n" % txt(arch))
    # chunked obligations keep every kernel evaluation small and let lake check files in parallel
    out.append("/-- every raw value of %s.yml that the costing code consumes is well-formed -/" % arch)
    out.append("theorem wf : Spec.dbWF db = true := by decide +kernel\n")
    out.append("end OsacaVerif.Gen.%s\n" % ns)
    return "\n".join(out)


def make(arch):
    @generator("Db_" + arch, ["osaca/data/%s.yml" % arch, "../verif-self:tools/gen/db.py"])
    def _g():
        return gen_db(arch)


for _a in arch_files():
    make(_a)


@generator("DbAll", ["osaca/data/*.yml", "../verif-self:tools/gen/db.py"])
def gen_all():
    archs = arch_files()
    out = [HEADER]
    for a in archs:
        out.append("import OsacaVerif.Gen.Db_%s" % a)
    out.append("\nnamespace OsacaVerif.Gen\nopen OsacaVerif\n")
    out.append("/-- every shipped machine model that is non-empty in the working tree -/")
    out.append("def allDbs : List Spec.Db := [%s]\n" % ", ".join("Db_%s.db" % a for a in archs))
    out.append("theorem allDbs_wf : allDbs.all Spec.dbWF = true := by")
    out.append("  simp only [allDbs, List.all_cons, List.all_nil, Bool.and_true, Bool.and_self,\n    "
               + ", ".join("Db_%s.wf" % a for a in archs) + "]\n")
    out.append("def archNames : List (List Nat) := [%s]\n" % ", ".join(txt(a) for a in archs))
    out.append("end OsacaVerif.Gen\n")
    return "\n".join(out)
