#!/bin/sh
# Run the pinned baseline test-suite of /repo (or $1) and report stable_pass tests that no longer pass.
R=${1:-/repo}
T=$(mktemp -d /tmp/baseline.XXXXXX)
cd $R && PYTHONPATH=$R /venv/bin/python -m pytest -q -p no:cacheprovider --timeout=900 --continue-on-collection-errors --junitxml=$T/j.xml tests/ > $T/log 2>&1
python3 - $T/j.xml <<'P'
import json,sys,xml.etree.ElementTree as ET
base=json.load(open('/root/.vp/BASELINE.json'))['stable_pass']
res={}
for tc in ET.parse(sys.argv[1]).getroot().iter('testcase'):
    res[tc.get('classname')+'::'+tc.get('name')]=not any(ch.tag in('failure','error','skipped') for ch in tc)
bad=[t for t in base if not res.get(t)]
print('baseline: %d/%d stable tests pass; broken: %s'%(len(base)-len(bad),len(base),bad))
P
rm -rf $T; rm -f $R/tests/test_files/*.copy.s
