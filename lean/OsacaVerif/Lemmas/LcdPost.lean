import OsacaVerif.Model.LcdPost
/-
  Lemmas about the LCD post-processing model: the tuple order is a linear order, the
  de-duplication loop, sorting, the insertion-ordered dictionary.  Core Lean only.
-/
namespace OsacaVerif.LcdPost

theorem lePair_total (a b : Nat × Rat) : (lePair a b || lePair b a) = true := by
  obtain ⟨a1, a2⟩ := a; obtain ⟨b1, b2⟩ := b
  simp only [lePair, Bool.or_eq_true, Bool.and_eq_true, decide_eq_true_eq, beq_iff_eq]
  rcases Nat.lt_trichotomy a1 b1 with h | h | h
  · left; left; exact h
  · rcases @Rat.le_total a2 b2 with h' | h'
    · left; right; exact ⟨h, h'⟩
    · right; right; exact ⟨h.symm, h'⟩
  · right; left; exact h

theorem lePair_trans (a b c : Nat × Rat) (h1 : lePair a b = true) (h2 : lePair b c = true) :
    lePair a c = true := by
  obtain ⟨a1, a2⟩ := a; obtain ⟨b1, b2⟩ := b; obtain ⟨c1, c2⟩ := c
  simp only [lePair, Bool.or_eq_true, Bool.and_eq_true, decide_eq_true_eq, beq_iff_eq] at *
  rcases h1 with h1 | ⟨h1, h1'⟩ <;> rcases h2 with h2 | ⟨h2, h2'⟩
  · left; omega
  · left; omega
  · left; omega
  · right; exact ⟨by omega, Rat.le_trans h1' h2'⟩

theorem lePair_antisymm (a b : Nat × Rat) (h1 : lePair a b = true) (h2 : lePair b a = true) :
    a = b := by
  obtain ⟨a1, a2⟩ := a; obtain ⟨b1, b2⟩ := b
  simp only [lePair, Bool.or_eq_true, Bool.and_eq_true, decide_eq_true_eq, beq_iff_eq] at *
  rcases h1 with h1 | ⟨h1, h1'⟩ <;> rcases h2 with h2 | ⟨h2, h2'⟩
  · omega
  · omega
  · omega
  · rw [h1, Rat.le_antisymm h1' h2']

theorem lePair_refl (a : Nat × Rat) : lePair a a = true := by
  have := lePair_total a a; simpa using this

theorem leKey_total (a b : Key) : (leKey a b || leKey b a) = true := by
  induction a generalizing b with
  | nil => simp [leKey]
  | cons x xs ih =>
    cases b with
    | nil => simp [leKey]
    | cons y ys =>
      simp only [leKey]
      by_cases h : x = y
      · subst h; simpa using ih ys
      · have h' : ¬ y = x := fun e => h e.symm
        simp only [h, h', if_false]; exact lePair_total x y

theorem leKey_refl (a : Key) : leKey a a = true := by
  have := leKey_total a a; simpa using this

theorem leKey_antisymm (a b : Key) (h1 : leKey a b = true) (h2 : leKey b a = true) : a = b := by
  induction a generalizing b with
  | nil => cases b with
    | nil => rfl
    | cons y ys => simp [leKey] at h2
  | cons x xs ih =>
    cases b with
    | nil => simp [leKey] at h1
    | cons y ys =>
      simp only [leKey] at h1 h2
      by_cases h : x = y
      · subst h; simp only [if_true] at h1 h2; rw [ih ys h1 h2]
      · have h' : ¬ y = x := fun e => h e.symm
        simp only [h, h', if_false] at h1 h2
        exact absurd (lePair_antisymm x y h1 h2) h

theorem leKey_trans (a b c : Key) (h1 : leKey a b = true) (h2 : leKey b c = true) :
    leKey a c = true := by
  induction a generalizing b c with
  | nil => simp [leKey]
  | cons x xs ih =>
    cases b with
    | nil => simp [leKey] at h1
    | cons y ys =>
      cases c with
      | nil => simp [leKey] at h2
      | cons z zs =>
        simp only [leKey] at h1 h2 ⊢
        by_cases hxy : x = y
        · subst hxy
          simp only [if_true] at h1
          by_cases hxz : x = z
          · subst hxz; simp only [if_true] at h2 ⊢; exact ih ys zs h1 h2
          · simp only [hxz, if_false] at h2 ⊢; exact h2
        · simp only [hxy, if_false] at h1
          by_cases hyz : y = z
          · subst hyz; simp only [hxy, if_false]; exact h1
          · simp only [hyz, if_false] at h2
            by_cases hxz : x = z
            · subst hxz; exact absurd (lePair_antisymm x y h1 h2) hxy
            · simp only [hxz, if_false]; exact lePair_trans x y z h1 h2

theorem leEntry_total (a b : Entry) : (leEntry a b || leEntry b a) = true := by
  obtain ⟨a1, a2⟩ := a; obtain ⟨b1, b2⟩ := b
  simp only [leEntry, Bool.or_eq_true, Bool.and_eq_true, decide_eq_true_eq, beq_iff_eq]
  have ht := leKey_total a2 b2
  simp only [Bool.or_eq_true] at ht
  by_cases h : a1 = b1
  · subst h; rcases ht with ht | ht
    · left; right; exact ⟨rfl, ht⟩
    · right; right; exact ⟨rfl, ht⟩
  · rcases @Rat.le_total a1 b1 with h' | h'
    · left; left; exact Rat.lt_iff_le_and_ne.mpr ⟨h', h⟩
    · right; left; exact Rat.lt_iff_le_and_ne.mpr ⟨h', fun e => h e.symm⟩

theorem rat_lt_asymm {a b : Rat} (h1 : a < b) (h2 : b < a) : False := by
  have := Rat.lt_iff_le_and_not_ge.mp h1
  exact this.2 (Rat.lt_iff_le_and_not_ge.mp h2).1

theorem leEntry_antisymm (a b : Entry) (h1 : leEntry a b = true) (h2 : leEntry b a = true) :
    a = b := by
  obtain ⟨a1, a2⟩ := a; obtain ⟨b1, b2⟩ := b
  simp only [leEntry, Bool.or_eq_true, Bool.and_eq_true, decide_eq_true_eq, beq_iff_eq] at h1 h2
  rcases h1 with h1 | ⟨h1, h1'⟩ <;> rcases h2 with h2 | ⟨h2, h2'⟩
  · exact (rat_lt_asymm h1 h2).elim
  · subst h2; exact absurd h1 (Rat.lt_irrefl)
  · subst h1; exact absurd h2 (Rat.lt_irrefl)
  · subst h1; rw [leKey_antisymm a2 b2 h1' h2']

theorem leEntry_trans (a b c : Entry) (h1 : leEntry a b = true) (h2 : leEntry b c = true) :
    leEntry a c = true := by
  obtain ⟨a1, a2⟩ := a; obtain ⟨b1, b2⟩ := b; obtain ⟨c1, c2⟩ := c
  simp only [leEntry, Bool.or_eq_true, Bool.and_eq_true, decide_eq_true_eq, beq_iff_eq] at *
  rcases h1 with h1 | ⟨h1, h1'⟩ <;> rcases h2 with h2 | ⟨h2, h2'⟩
  · left; grind
  · left; subst h2; exact h1
  · left; subst h1; exact h2
  · right; exact ⟨h1.trans h2, leKey_trans a2 b2 c2 h1' h2'⟩


/-! ### the de-duplication loop -/

theorem dedup_sub (seen : List Key) (es : List Entry) :
    ∀ x ∈ dedup seen es, x ∈ es ∧ x.2 ∉ seen := by
  induction es generalizing seen with
  | nil => simp [dedup]
  | cons e es ih =>
    intro x hx
    unfold dedup at hx
    split at hx
    · have := ih seen x hx; exact ⟨List.mem_cons_of_mem _ this.1, this.2⟩
    · next hns =>
      rcases List.mem_cons.mp hx with rfl | hx
      · exact ⟨List.mem_cons_self, hns⟩
      · have := ih (e.2 :: seen) x hx
        exact ⟨List.mem_cons_of_mem _ this.1, fun h => this.2 (List.mem_cons_of_mem _ h)⟩

theorem dedup_complete (seen : List Key) (es : List Entry) :
    ∀ x ∈ es, x.2 ∉ seen → ∃ y ∈ dedup seen es, y.2 = x.2 := by
  induction es generalizing seen with
  | nil => simp
  | cons e es ih =>
    intro x hx hns
    unfold dedup
    split
    · next hs =>
      rcases List.mem_cons.mp hx with rfl | hx
      · exact absurd hs hns
      · exact ih seen x hx hns
    · next hes =>
      rcases List.mem_cons.mp hx with rfl | hx
      · exact ⟨x, List.mem_cons_self, rfl⟩
      · by_cases hk : x.2 = e.2
        · exact ⟨e, List.mem_cons_self, hk.symm⟩
        · have hns' : x.2 ∉ e.2 :: seen := by
            intro h; rcases List.mem_cons.mp h with h | h
            · exact hk h
            · exact hns h
          obtain ⟨y, hy, hyk⟩ := ih (e.2 :: seen) x hx hns'
          exact ⟨y, List.mem_cons_of_mem _ hy, hyk⟩

theorem dedup_keys_distinct (seen : List Key) (es : List Entry) :
    (dedup seen es).Pairwise (fun a b => a.2 ≠ b.2) := by
  induction es generalizing seen with
  | nil => simp [dedup]
  | cons e es ih =>
    unfold dedup
    split
    · exact ih seen
    · refine List.Pairwise.cons ?_ (ih _)
      intro y hy h
      exact (dedup_sub (e.2 :: seen) es y hy).2 (by rw [← h]; exact List.mem_cons_self)

theorem dedup_nodup (seen : List Key) (es : List Entry) : (dedup seen es).Nodup :=
  (dedup_keys_distinct seen es).imp (fun h e => h (by rw [e]))

theorem mem_dedup_iff (es : List Entry) (h : SumByKey es) (x : Entry) :
    x ∈ dedup [] es ↔ x ∈ es := by
  constructor
  · intro hx; exact (dedup_sub [] es x hx).1
  · intro hx
    obtain ⟨y, hy, hyk⟩ := dedup_complete [] es x hx (by simp)
    have hy' := (dedup_sub [] es y hy).1
    have : y = x := Prod.ext (h y hy' x hx hyk) hyk
    exact this ▸ hy

theorem SumByKey.perm {es₁ es₂ : List Entry} (h : SumByKey es₁) (p : es₁.Perm es₂) : SumByKey es₂ :=
  fun x hx y hy => h x (p.symm.subset hx) y (p.symm.subset hy)

theorem SumByKey.subset {es₁ es₂ : List Entry} (h : SumByKey es₁) (p : ∀ x ∈ es₂, x ∈ es₁) :
    SumByKey es₂ :=
  fun x hx y hy => h x (p x hx) y (p y hy)

theorem dedup_perm {es₁ es₂ : List Entry} (h : SumByKey es₁) (p : es₁.Perm es₂) :
    (dedup [] es₁).Perm (dedup [] es₂) := by
  rw [List.perm_ext_iff_of_nodup (dedup_nodup _ _) (dedup_nodup _ _)]
  intro x
  rw [mem_dedup_iff es₁ h, mem_dedup_iff es₂ (h.perm p)]
  exact p.mem_iff

/-! ### sorting -/

theorem insertBy_perm {α : Type} (le : α → α → Bool) (x : α) (l : List α) :
    (insertBy le x l).Perm (x :: l) := by
  induction l with
  | nil => exact List.Perm.refl _
  | cons y ys ih =>
    unfold insertBy
    split
    · exact List.Perm.refl _
    · exact (List.Perm.cons y ih).trans (List.Perm.swap x y ys)

theorem isort_perm {α : Type} (le : α → α → Bool) (l : List α) : (isort le l).Perm l := by
  induction l with
  | nil => exact List.Perm.refl _
  | cons x xs ih =>
    exact (insertBy_perm le x (isort le xs)).trans (List.Perm.cons x ih)

theorem insertBy_sorted {α : Type} (le : α → α → Bool)
    (trans : ∀ a b c, le a b = true → le b c = true → le a c = true)
    (total : ∀ a b, (le a b || le b a) = true) (x : α) (l : List α)
    (h : l.Pairwise (fun a b => le a b = true)) :
    (insertBy le x l).Pairwise (fun a b => le a b = true) := by
  induction l with
  | nil => simp [insertBy]
  | cons y ys ih =>
    obtain ⟨hy, hys⟩ := List.pairwise_cons.mp h
    unfold insertBy
    split
    · next hxy =>
      refine List.Pairwise.cons ?_ h
      intro z hz
      rcases List.mem_cons.mp hz with rfl | hz
      · exact hxy
      · exact trans x y z hxy (hy z hz)
    · next hxy =>
      have hyx : le y x = true := by
        have := total x y
        simp only [Bool.or_eq_true] at this
        rcases this with h' | h'
        · exact absurd h' hxy
        · exact h'
      refine List.Pairwise.cons ?_ (ih hys)
      intro z hz
      rcases List.mem_cons.mp ((insertBy_perm le x ys).subset hz) with rfl | hz
      · exact hyx
      · exact hy z hz

theorem isort_sorted {α : Type} (le : α → α → Bool)
    (trans : ∀ a b c, le a b = true → le b c = true → le a c = true)
    (total : ∀ a b, (le a b || le b a) = true) (l : List α) :
    (isort le l).Pairwise (fun a b => le a b = true) := by
  induction l with
  | nil => simp [isort]
  | cons x xs ih => exact insertBy_sorted le trans total x _ ih

theorem sortDesc_perm (es : List Entry) : (sortDesc es).Perm es := isort_perm _ _

theorem sortDesc_sorted (es : List Entry) : (sortDesc es).Pairwise (fun a b => leEntry b a = true) :=
  isort_sorted (fun a b => leEntry b a)
    (fun a b c h1 h2 => leEntry_trans c b a h2 h1) (fun a b => leEntry_total b a) es

theorem sortKey_perm (k : Key) : (sortKey k).Perm k := isort_perm _ _

theorem sortDesc_eq_of_perm {es₁ es₂ : List Entry} (p : es₁.Perm es₂) : sortDesc es₁ = sortDesc es₂ := by
  apply List.Perm.eq_of_pairwise (le := fun a b => leEntry b a = true)
  · intro a b _ _ h1 h2; exact leEntry_antisymm a b h2 h1
  · exact sortDesc_sorted es₁
  · exact sortDesc_sorted es₂
  · exact (sortDesc_perm es₁).trans (p.trans (sortDesc_perm es₂).symm)

/-! ### the dictionary -/

theorem mem_dictSet_self (d : List (List Nat × Entry)) (k : List Nat) (v : Entry) :
    (k, v) ∈ dictSet d k v := by
  induction d with
  | nil => simp [dictSet]
  | cons kv r ih => unfold dictSet; split <;> simp [ih]

theorem mem_dictSet_of_ne (d : List (List Nat × Entry)) (k : List Nat) (v : Entry)
    (x : List Nat × Entry) (hx : x ∈ d) (hk : x.1 ≠ k) : x ∈ dictSet d k v := by
  induction d with
  | nil => simp at hx
  | cons kv r ih =>
    unfold dictSet
    rcases List.mem_cons.mp hx with rfl | hx
    · simp [hk]
    · split
      · exact List.mem_cons_of_mem _ hx
      · exact List.mem_cons_of_mem _ (ih hx)

theorem mem_dictSet (d : List (List Nat × Entry)) (k : List Nat) (v : Entry)
    (x : List Nat × Entry) (hx : x ∈ dictSet d k v) : x = (k, v) ∨ x ∈ d := by
  induction d with
  | nil => simp [dictSet] at hx; exact Or.inl hx
  | cons kv r ih =>
    unfold dictSet at hx
    split at hx
    · rcases List.mem_cons.mp hx with h | h
      · exact Or.inl h
      · exact Or.inr (List.mem_cons_of_mem _ h)
    · rcases List.mem_cons.mp hx with h | h
      · exact Or.inr (h ▸ List.mem_cons_self)
      · rcases ih h with h | h
        · exact Or.inl h
        · exact Or.inr (List.mem_cons_of_mem _ h)

def foldDict (d : List (List Nat × Entry)) (es : List Entry) : List (List Nat × Entry) :=
  es.foldl (fun d e => dictSet d (dictKey e.2) e) d

theorem mem_foldDict (d : List (List Nat × Entry)) (es : List Entry) (x : List Nat × Entry)
    (hx : x ∈ foldDict d es) : x ∈ d ∨ (x.2 ∈ es ∧ dictKey x.2.2 = x.1) := by
  induction es generalizing d with
  | nil => exact Or.inl hx
  | cons e es ih =>
    simp only [foldDict, List.foldl_cons] at hx
    rcases ih _ hx with h | h
    · rcases mem_dictSet _ _ _ _ h with h | h
      · subst h; exact Or.inr ⟨List.mem_cons_self, rfl⟩
      · exact Or.inl h
    · exact Or.inr ⟨List.mem_cons_of_mem _ h.1, h.2⟩

theorem foldDict_keeps (d : List (List Nat × Entry)) (es : List Entry)
    (hp : es.Pairwise (fun a b => dictKey a.2 ≠ dictKey b.2)) :
    (∀ x ∈ d, (∀ e ∈ es, dictKey e.2 ≠ x.1) → x ∈ foldDict d es) ∧
    (∀ e ∈ es, (dictKey e.2, e) ∈ foldDict d es) := by
  induction es generalizing d with
  | nil => exact ⟨fun x hx _ => hx, by simp⟩
  | cons e es ih =>
    obtain ⟨hhead, htail⟩ := List.pairwise_cons.mp hp
    have ih' := ih (dictSet d (dictKey e.2) e) htail
    simp only [foldDict, List.foldl_cons]
    refine ⟨?_, ?_⟩
    · intro x hx hne
      apply ih'.1
      · exact mem_dictSet_of_ne _ _ _ _ hx (fun h => hne e List.mem_cons_self h.symm)
      · intro e' he'; exact hne e' (List.mem_cons_of_mem _ he')
    · intro e' he'
      rcases List.mem_cons.mp he' with rfl | he'
      · apply ih'.1 _ (mem_dictSet_self _ _ _)
        intro e'' he''; exact fun h => hhead e'' he'' h.symm
      · exact ih'.2 e' he'

theorem mkDict_eq (es : List Entry) : mkDict es = foldDict [] es := rfl

/-- every dictionary item is one of the entries, under its own key -/
theorem mem_mkDict (es : List Entry) (x : List Nat × Entry) (hx : x ∈ mkDict es) :
    x.2 ∈ es ∧ dictKey x.2.2 = x.1 := by
  rcases mem_foldDict [] es x hx with h | h
  · simp at h
  · exact h

/-- with pairwise different dictionary keys no entry is overwritten -/
theorem mkDict_complete (es : List Entry) (hp : es.Pairwise (fun a b => dictKey a.2 ≠ dictKey b.2))
    (e : Entry) (he : e ∈ es) : (dictKey e.2, e) ∈ mkDict es :=
  (foldDict_keeps [] es hp).2 e he

end OsacaVerif.LcdPost
