import OsacaVerif.Lemmas.DGEdges
/-
  Helper development for C05 (`winding1_sorted`): a path with strictly increasing vertices from
  `i` to `i + off` splits into the part in the first kernel copy (`< off`) followed by the part in the
  second copy (`≥ off`); mapped back modulo `off` and sorted it is the second part followed by the
  first — strictly ascending, every instruction at most once.
-/
namespace OsacaVerif.LCD
open OsacaVerif OsacaVerif.DG

/-- the part of a path inside the first kernel copy -/
def firstCopy (off : Nat) (p : List (Nat × Rat)) : List (Nat × Rat) := p.filter (fun x => x.1 < off)
/-- the part of a path inside the second kernel copy -/
def secondCopy (off : Nat) (p : List (Nat × Rat)) : List (Nat × Rat) := p.filter (fun x => off ≤ x.1)

/-- an increasing path crosses the copy boundary at most once: first-copy part, then second-copy part -/
theorem split_increasing (off : Nat) (p : List (Nat × Rat)) (h : p.Pairwise (fun a b => a.1 < b.1)) :
    p = firstCopy off p ++ secondCopy off p := by
  induction p with
  | nil => rfl
  | cons x xs ih =>
    have hx := List.pairwise_cons.mp h
    have ih := ih hx.2
    unfold firstCopy secondCopy at *
    by_cases hlt : x.1 < off
    · have h2 : ¬ off ≤ x.1 := by omega
      simp only [List.filter_cons, hlt, h2, decide_true, decide_false, if_true, Bool.false_eq_true, if_false,
        List.cons_append]
      rw [← ih]
    · have h2 : off ≤ x.1 := by omega
      have e1 : xs.filter (fun x => decide (x.1 < off)) = [] := by
        rw [List.filter_eq_nil_iff]
        intro a ha
        have := hx.1 a ha
        simp only [decide_eq_true_eq]; omega
      have e2 : xs.filter (fun x => decide (off ≤ x.1)) = xs := by
        rw [List.filter_eq_self]
        intro a ha
        have := hx.1 a ha
        simp only [decide_eq_true_eq]; omega
      simp only [List.filter_cons, hlt, h2, decide_true, decide_false, if_true, Bool.false_eq_true, if_false,
        e1, e2, List.nil_append]

theorem back_of_lt (off : Nat) (x : Nat × Rat) (h : x.1 < off) : back off x = x := by
  unfold back backLine
  rw [if_neg (by omega)]

/-- **the normal form of a winding-1 path is a rotation of the path**: if the vertices of `p`
    increase strictly from `i` and stay below `i + off`, then mapping back and sorting gives the
    second-copy part (mapped back) followed by the first-copy part, and its lines are strictly
    ascending (no instruction occurs twice modulo `off`). -/
theorem winding_norm (off i : Nat) (p : List (Nat × Rat))
    (hinc : (verts p ++ [i + off]).Pairwise (· < ·)) (hhead : (verts p).head? = some i) :
    p = firstCopy off p ++ secondCopy off p ∧
    normPath off p = (secondCopy off p).map (back off) ++ firstCopy off p ∧
    ((normPath off p).map (·.1)).Pairwise (· < ·) := by
  have hpw : p.Pairwise (fun a b => a.1 < b.1) := by
    have := (List.pairwise_append.mp hinc).1
    simpa [verts, List.pairwise_map] using this
  have hub : ∀ x ∈ p, x.1 < i + off := by
    intro x hx
    exact (List.pairwise_append.mp hinc).2.2 x.1 (List.mem_map.mpr ⟨x, hx, rfl⟩) (i + off) (by simp)
  have hlb : ∀ x ∈ p, i ≤ x.1 := by
    intro x hx
    cases p with
    | nil => cases hx
    | cons y ys =>
      have hy : y.1 = i := by simpa [verts] using hhead
      rcases List.mem_cons.mp hx with rfl | hx
      · omega
      · have := (List.pairwise_cons.mp hpw).1 x hx
        omega
  have hsplit := split_increasing off p hpw
  have hstrict : ((secondCopy off p).map (back off) ++ firstCopy off p).Pairwise (fun a b => a.1 < b.1) := by
    rw [List.pairwise_append]
    refine ⟨?_, hpw.filter _, ?_⟩
    · rw [List.pairwise_map]
      refine (hpw.filter _).imp_of_mem ?_
      intro a b ha hb hab
      have ha' : off ≤ a.1 := by simpa [secondCopy] using (List.mem_filter.mp ha).2
      have hb' : off ≤ b.1 := by simpa [secondCopy] using (List.mem_filter.mp hb).2
      simp only [back, backLine, ge_iff_le, ha', hb', if_true]
      omega
    · intro a ha b hb
      obtain ⟨a', ha', rfl⟩ := List.mem_map.mp ha
      have h1 := List.mem_filter.mp ha'
      have h2 := List.mem_filter.mp hb
      have hoff : off ≤ a'.1 := by simpa using h1.2
      have := hub a' h1.1
      have := hlb b h2.1
      simp only [back, backLine, ge_iff_le, hoff, if_true]
      omega
  have hnorm : normPath off p = (secondCopy off p).map (back off) ++ firstCopy off p := by
    unfold normPath
    apply sortPairs_unique
    · exact hstrict.imp (fun h => Or.inl h)
    · have e : p.map (back off) = firstCopy off p ++ (secondCopy off p).map (back off) := by
        conv => lhs; rw [hsplit]
        rw [List.map_append]
        congr 1
        conv => rhs; rw [← List.map_id (firstCopy off p)]
        apply List.map_congr_left
        intro x hx
        exact back_of_lt off x (by simpa [firstCopy] using (List.mem_filter.mp hx).2)
      rw [e]
      exact List.perm_append_comm
  refine ⟨hsplit, hnorm, ?_⟩
  rw [hnorm, List.pairwise_map]
  exact hstrict

/-- a path from `i` with winding number 1 is determined by its start and its member set: the
    vertices are the members `≥ i` followed by the members `< i` in the next iteration -/
theorem verts_of_lines (off i : Nat) (p : List (Nat × Rat))
    (hinc : (verts p ++ [i + off]).Pairwise (· < ·)) (hhead : (verts p).head? = some i) :
    verts p = ((normPath off p).map (·.1)).filter (fun l => i ≤ l) ++
      (((normPath off p).map (·.1)).filter (fun l => l < i)).map (· + off) := by
  obtain ⟨hsplit, hnorm, _⟩ := winding_norm off i p hinc hhead
  have hpw : p.Pairwise (fun a b => a.1 < b.1) := by
    have := (List.pairwise_append.mp hinc).1
    simpa [verts, List.pairwise_map] using this
  have hub : ∀ x ∈ p, x.1 < i + off := by
    intro x hx
    exact (List.pairwise_append.mp hinc).2.2 x.1 (List.mem_map.mpr ⟨x, hx, rfl⟩) (i + off) (by simp)
  have hlb : ∀ x ∈ p, i ≤ x.1 := by
    intro x hx
    cases p with
    | nil => cases hx
    | cons y ys =>
      have hy : y.1 = i := by simpa [verts] using hhead
      rcases List.mem_cons.mp hx with rfl | hx
      · omega
      · have := (List.pairwise_cons.mp hpw).1 x hx
        omega
  rw [hnorm]
  simp only [List.map_append, List.filter_append, List.map_map]
  have a1 : ((secondCopy off p).map ((fun x => x.1) ∘ back off)).filter (fun l => decide (i ≤ l)) = [] := by
    rw [List.filter_eq_nil_iff]
    intro l hl
    obtain ⟨x, hx, rfl⟩ := List.mem_map.mp hl
    have h1 := List.mem_filter.mp hx
    have hoff : off ≤ x.1 := by simpa using h1.2
    have := hub x h1.1
    simp only [Function.comp_apply, back, backLine, ge_iff_le, hoff, if_true, decide_eq_true_eq]
    omega
  have a2 : ((firstCopy off p).map (fun x => x.1)).filter (fun l => decide (i ≤ l)) = (firstCopy off p).map (fun x => x.1) := by
    rw [List.filter_eq_self]
    intro l hl
    obtain ⟨x, hx, rfl⟩ := List.mem_map.mp hl
    have := hlb x (List.mem_filter.mp hx).1
    simpa using this
  have a3 : ((secondCopy off p).map ((fun x => x.1) ∘ back off)).filter (fun l => decide (l < i)) =
      (secondCopy off p).map ((fun x => x.1) ∘ back off) := by
    rw [List.filter_eq_self]
    intro l hl
    obtain ⟨x, hx, rfl⟩ := List.mem_map.mp hl
    have h1 := List.mem_filter.mp hx
    have hoff : off ≤ x.1 := by simpa using h1.2
    have := hub x h1.1
    simp only [Function.comp_apply, back, backLine, ge_iff_le, hoff, if_true, decide_eq_true_eq]
    omega
  have a4 : ((firstCopy off p).map (fun x => x.1)).filter (fun l => decide (l < i)) = [] := by
    rw [List.filter_eq_nil_iff]
    intro l hl
    obtain ⟨x, hx, rfl⟩ := List.mem_map.mp hl
    have := hlb x (List.mem_filter.mp hx).1
    simp only [decide_eq_true_eq]; omega
  rw [a1, a2, a3, a4]
  simp only [List.nil_append, List.map_nil, List.append_nil, List.map_map]
  have a5 : (secondCopy off p).map ((fun x => x + off) ∘ (fun x => x.1) ∘ back off) = (secondCopy off p).map (fun x => x.1) := by
    apply List.map_congr_left
    intro x hx
    have hoff : off ≤ x.1 := by simpa using (List.mem_filter.mp hx).2
    simp only [Function.comp_apply, back, backLine, ge_iff_le, hoff, if_true]
    omega
  rw [a5, ← List.map_append, ← hsplit, verts]

end OsacaVerif.LCD
