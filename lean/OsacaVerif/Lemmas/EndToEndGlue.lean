import OsacaVerif.Model.Glue
/-
  The small facts the glue conversions need: the key of an operand identifies it (so comparing keys is
  comparing operands under `==`), and the load / store flags the composition model computes from the
  converted semantic operand lists are the flags `assign_src_dst` set.
-/
namespace OsacaVerif.Glue
open OsacaVerif OsacaVerif.Text OsacaVerif.Operand

/-- an encoding that can be read off the front of a text -/
def PrefixInj {α : Type} (enc : α → Txt) : Prop := ∀ a b r r', enc a ++ r = enc b ++ r' → a = b ∧ r = r'

theorem encTxt_inj : PrefixInj encTxt := by
  intro a b r r' h
  simp only [encTxt, List.cons_append, List.cons.injEq] at h
  obtain ⟨hl, h⟩ := h
  exact List.append_inj h hl

theorem encInt_inj : PrefixInj encInt := by
  intro a b r r' h
  cases a <;> cases b <;> simp [encInt] at h <;> simp [h]

theorem encOptTxt_inj : PrefixInj encOptTxt := by
  intro a b r r' h
  cases a with
  | none => cases b with
    | none => simpa [encOptTxt] using h
    | some t => simp [encOptTxt] at h
  | some t => cases b with
    | none => simp [encOptTxt] at h
    | some t' =>
      simp only [encOptTxt, List.cons_append, List.cons.injEq, true_and] at h
      obtain ⟨e, hr⟩ := encTxt_inj t t' r r' h
      exact ⟨by rw [e], hr⟩

theorem encOff_inj : PrefixInj encOff := by
  intro a b r r' h
  rcases a with _ | a <;> rcases b with _ | b
  · simpa [encOff] using h
  · cases b <;> simp [encOff] at h
  · cases a <;> simp [encOff] at h
  · cases a <;> cases b <;> simp only [encOff, List.cons_append, List.cons.injEq] at h <;>
      first
      | (exact absurd h.1 (by decide))
      | (obtain ⟨e, hr⟩ := encInt_inj _ _ r r' h.2; exact ⟨by rw [e], hr⟩)
      | (obtain ⟨e, hr⟩ := encTxt_inj _ _ r r' h.2; exact ⟨by rw [e], hr⟩)
      | (exact ⟨rfl, by simpa using h⟩)

/-- **the key identifies the operand**: equal keys ⇔ equal operands — except that an identifier operand
    is equal only to the one at its own position (no `__eq__`: identity) -/
theorem keyOf_eq (i j : Nat) (a b : X86.Operand) (h : keyOf i a = keyOf j b) :
    a = b ∨ (∃ n n', a = .ident n ∧ b = .ident n' ∧ i = j) := by
  cases a with
  | reg n => cases b <;> simp only [keyOf, List.cons.injEq] at h <;> try (exact absurd h.1 (by decide))
             · left; obtain ⟨e, _⟩ := encTxt_inj _ _ [] [] (by simpa using h.2); rw [e]
  | imm v => cases b <;> simp only [keyOf, List.cons.injEq] at h <;> try (exact absurd h.1 (by decide))
             · left; obtain ⟨e, _⟩ := encInt_inj _ _ [] [] (by simpa using h.2); rw [e]
  | ident n => cases b <;> simp only [keyOf, List.cons.injEq] at h <;> try (exact absurd h.1 (by decide))
               · right; exact ⟨_, _, rfl, rfl, h.2.1⟩
  | mem off bs ix sc seg =>
    cases b with
    | mem off' bs' ix' sc' seg' =>
      simp only [keyOf, List.cons.injEq, true_and, List.append_assoc] at h
      obtain ⟨e1, h⟩ := encOff_inj _ _ _ _ h
      obtain ⟨e2, h⟩ := encOptTxt_inj _ _ _ _ h
      obtain ⟨e3, h⟩ := encOptTxt_inj _ _ _ _ h
      simp only [List.cons.injEq, and_true] at h
      left
      rw [e1, e2, e3, h.1]
      have : seg = seg' := by
        cases seg <;> cases seg' <;> simp at h <;> rfl
      rw [this]
    | reg _ => simp only [keyOf, List.cons.injEq] at h; exact absurd h.1 (by decide)
    | imm _ => simp only [keyOf, List.cons.injEq] at h; exact absurd h.1 (by decide)
    | ident _ => simp only [keyOf, List.cons.injEq] at h; exact absurd h.1 (by decide)

theorem keyOf_self (i : Nat) (a b : X86.Operand) (h : a = b) : keyOf i a = keyOf i b := by rw [h]

/-! ### the matcher's view of the operand list -/

theorem opndsFrom_p (i : Nat) (ops : List X86.Operand) : (opndsFrom i ops).map (·.p) = ops.map poperandOf := by
  induction ops generalizing i with
  | nil => rfl
  | cons o os ih => simp [opndsFrom, opndOf, ih (i + 1)]

theorem opndsOf_p (ops : List X86.Operand) : (opndsOf ops).map (·.p) = ops.map poperandOf := opndsFrom_p 0 ops

theorem opndsOf_length (ops : List X86.Operand) : (opndsOf ops).length = ops.length := by
  have := congrArg List.length (opndsOf_p ops)
  simpa using this

theorem opndsFromA64_p (i : Nat) (ops : List ParseA64.Operand) :
    (opndsFromA64 i ops).map (·.p) = ops.map poperandA64 := by
  induction ops generalizing i with
  | nil => rfl
  | cons o os ih => simp [opndsFromA64, opndA64, ih (i + 1)]

theorem opndsA64_p (ops : List ParseA64.Operand) : (opndsA64 ops).map (·.p) = ops.map poperandA64 :=
  opndsFromA64_p 0 ops

theorem opndsA64_length (ops : List ParseA64.Operand) : (opndsA64 ops).length = ops.length := by
  have := congrArg List.length (opndsA64_p ops)
  simpa using this

/-! ### load / store flags -/

theorem semOpP_isMem (o : Isa.SemOp) : Compose.isMem (semOpP o) = Isa.isMem o := by
  cases o with
  | op i o => simp only [semOpP, Isa.isMem]; cases o.p <;> rfl
  | hid h => cases h <;> rfl
  | wb i b pre post v => rfl

theorem any_semOpP (l : List Isa.SemOp) : (l.map semOpP).any Compose.isMem = l.any Isa.isMem := by
  induction l with
  | nil => rfl
  | cons o os ih => simp [semOpP_isMem, ih]

/-- **`INSTR_FLAGS.HAS_LD` / `HAS_ST` agree across the stage models**: the composition model recomputes
    `_has_load` / `_has_store` from the semantic operand lists; on the converted lists this is the flag
    the roles model reports -/
theorem composeIns_flags (mn : Option Txt) (ops : List Isa.Opnd) (s : Isa.Sem) :
    Compose.hasLd (composeIns mn ops s) = Isa.hasLoad s ∧ Compose.hasSt (composeIns mn ops s) = Isa.hasStore s := by
  simp only [Compose.hasLd, Compose.hasSt, Isa.hasLoad, Isa.hasStore, composeIns, ← List.map_append, any_semOpP, and_self]

/-- the memory operands `assign_tp_lt` substitutes are the memory operands `assign_src_dst` substitutes -/
theorem substituteMem_agree (ops : List POperand) : Compose.substituteMem ops = Isa.substituteMem ops := by
  induction ops with
  | nil => rfl
  | cons o os ih =>
    simp only [Compose.substituteMem, Isa.substituteMem, List.map_cons] at ih ⊢
    rw [ih]
    cases o <;> rfl

/-! ### AArch64: the key identifies the operand under `==` -/

/-- what `RegisterOperand.__eq__` / `MemoryOperand.__eq__` read of a parsed AArch64 operand: not the predication of a
    register, not the shift operator / amount of an index register (the scale is read) -/
def eqViewA64 : ParseA64.Operand → ParseA64.Operand
  | .reg r => .reg { r with pred := none }
  | .mem m => .mem { m with index := m.index.map fun i => { i with shiftOp := none, shift := none } }
  | o => o

theorem encBool_eq (a b : Bool) (h : (if a then 1 else 0 : Nat) = if b then 1 else 0) : a = b := by
  cases a <;> cases b <;> simp at h <;> rfl

theorem encIdent_inj : PrefixInj encIdent := by
  intro a b r r' h
  simp only [encIdent, List.append_assoc] at h
  obtain ⟨e1, h⟩ := encOptTxt_inj _ _ _ _ h
  obtain ⟨e2, h⟩ := encTxt_inj _ _ _ _ h
  obtain ⟨e3, h⟩ := encOptTxt_inj _ _ _ _ h
  refine ⟨?_, h⟩
  cases a; cases b; simp_all

theorem encOffA64_inj : PrefixInj encOffA64 := by
  intro a b r r' h
  rcases a with _ | a <;> rcases b with _ | b
  · simpa [encOffA64] using h
  · cases b <;> simp [encOffA64] at h
  · cases a <;> simp [encOffA64] at h
  · cases a <;> cases b <;> simp only [encOffA64, List.cons_append, List.cons.injEq] at h <;>
      first
      | (exact absurd h.1 (by decide))
      | (obtain ⟨e, hr⟩ := encInt_inj _ _ r r' h.2; exact ⟨by rw [e], hr⟩)
      | (obtain ⟨e, hr⟩ := encIdent_inj _ _ r r' h.2; exact ⟨by rw [e], hr⟩)
      | (exact ⟨rfl, by simpa using h⟩)

theorem encPostA64_inj : PrefixInj encPostA64 := by
  intro a b r r' h
  rcases a with _ | a <;> rcases b with _ | b
  · simpa [encPostA64] using h
  · cases b <;> simp [encPostA64] at h
  · cases a <;> simp [encPostA64] at h
  · cases a <;> cases b <;> simp only [encPostA64, List.cons_append, List.cons.injEq] at h <;>
      first
      | (exact absurd h.1 (by decide))
      | (obtain ⟨e, hr⟩ := encInt_inj _ _ r r' h.2; exact ⟨by rw [e], hr⟩)
      | (exact ⟨rfl, by simpa using h⟩)

theorem encExp_inj : PrefixInj encExp := by
  intro a b r r' h
  rcases a with _ | ⟨s, e⟩ <;> rcases b with _ | ⟨s', e'⟩
  · simpa [encExp] using h
  · simp [encExp] at h
  · simp [encExp] at h
  · simp only [encExp, List.cons_append, List.cons.injEq, true_and, List.append_assoc] at h
    obtain ⟨e1, h⟩ := encTxt_inj _ _ _ _ h
    obtain ⟨e2, h⟩ := encTxt_inj _ _ _ _ h
    exact ⟨by rw [e1, e2], h⟩

/-- the index register as `__eq__` sees it: prefix and name -/
theorem encIdxA64_inj (a b : Option ParseA64.MemIdx) (r r' : Txt) (h : encIdxA64 a ++ r = encIdxA64 b ++ r') :
    a.map (fun i => ({ i with shiftOp := none, shift := none } : ParseA64.MemIdx)) =
      b.map (fun i => ({ i with shiftOp := none, shift := none } : ParseA64.MemIdx)) ∧ r = r' := by
  rcases a with _ | a <;> rcases b with _ | b
  · simpa [encIdxA64] using h
  · simp [encIdxA64] at h
  · simp [encIdxA64] at h
  · simp only [encIdxA64, List.cons_append, List.cons.injEq, true_and, List.append_assoc] at h
    obtain ⟨e1, h⟩ := encTxt_inj _ _ _ _ h
    obtain ⟨e2, h⟩ := encTxt_inj _ _ _ _ h
    exact ⟨by simp [e1, e2], h⟩

/-- **the AArch64 key identifies the operand under `==`**: equal keys ⇒ the fields `__eq__` compares are equal
    (`eqViewA64`) — except that operands of the classes without `__eq__` (identifier, condition code, prefetch
    operation) are equal only to the one at their own position -/
theorem keyA64_eq (i j : Nat) (a b : ParseA64.Operand) (h : keyA64 i a = keyA64 j b) :
    eqViewA64 a = eqViewA64 b ∨
    (i = j ∧ ((∃ x y, a = .ident x ∧ b = .ident y) ∨ (∃ x y, a = .cond x ∧ b = .cond y) ∨
              (∃ t g p t' g' p', a = .prf t g p ∧ b = .prf t' g' p'))) := by
  cases a with
  | reg r =>
    cases b with
    | reg r' =>
      left
      simp only [keyA64, List.cons.injEq, true_and, List.append_assoc] at h
      obtain ⟨e1, h⟩ := encTxt_inj _ _ _ _ h
      obtain ⟨e2, h⟩ := encTxt_inj _ _ _ _ h
      obtain ⟨e3, h⟩ := encOptTxt_inj _ _ _ _ h
      obtain ⟨e4, h⟩ := encOptTxt_inj _ _ _ _ h
      obtain ⟨e5, _⟩ := encOptTxt_inj _ _ [] [] (by simpa using h)
      clear h
      cases r; cases r'; simp_all [eqViewA64]
    | imm v => cases v <;> simp [keyA64] at h
    | ident _ => simp [keyA64] at h
    | cond _ => simp [keyA64] at h
    | prf _ _ _ => simp [keyA64] at h
    | mem _ => simp [keyA64] at h
  | imm v =>
    cases b with
    | imm v' =>
      left
      cases v with
      | int x =>
        cases v' with
        | int y =>
          simp only [keyA64, List.cons.injEq, true_and] at h
          obtain ⟨e, _⟩ := encInt_inj _ _ [] [] (by simpa using h)
          rw [e]
        | flt _ _ _ => simp [keyA64] at h
      | flt d m e =>
        cases v' with
        | int y => simp [keyA64] at h
        | flt d' m' e' =>
          simp only [keyA64, List.cons.injEq, true_and] at h
          have ed := encBool_eq d d' h.1
          obtain ⟨em, h⟩ := encTxt_inj _ _ _ _ h.2
          obtain ⟨ee, _⟩ := encExp_inj _ _ [] [] (by simpa using h)
          rw [ed, em, ee]
    | reg _ => cases v <;> simp [keyA64] at h
    | ident _ => cases v <;> simp [keyA64] at h
    | cond _ => cases v <;> simp [keyA64] at h
    | prf _ _ _ => cases v <;> simp [keyA64] at h
    | mem _ => cases v <;> simp [keyA64] at h
  | ident x =>
    cases b with
    | ident y => right; simp only [keyA64, List.cons.injEq, true_and, and_true] at h; exact ⟨h, Or.inl ⟨_, _, rfl, rfl⟩⟩
    | imm v => cases v <;> simp [keyA64] at h
    | reg _ => simp [keyA64] at h
    | cond _ => simp [keyA64] at h
    | prf _ _ _ => simp [keyA64] at h
    | mem _ => simp [keyA64] at h
  | cond x =>
    cases b with
    | cond y => right; simp only [keyA64, List.cons.injEq, true_and, and_true] at h; exact ⟨h, Or.inr (Or.inl ⟨_, _, rfl, rfl⟩)⟩
    | imm v => cases v <;> simp [keyA64] at h
    | reg _ => simp [keyA64] at h
    | ident _ => simp [keyA64] at h
    | prf _ _ _ => simp [keyA64] at h
    | mem _ => simp [keyA64] at h
  | prf t g p =>
    cases b with
    | prf t' g' p' =>
      right; simp only [keyA64, List.cons.injEq, true_and, and_true] at h
      exact ⟨h, Or.inr (Or.inr ⟨_, _, _, _, _, _, rfl, rfl⟩)⟩
    | imm v => cases v <;> simp [keyA64] at h
    | reg _ => simp [keyA64] at h
    | ident _ => simp [keyA64] at h
    | cond _ => simp [keyA64] at h
    | mem _ => simp [keyA64] at h
  | mem m =>
    cases b with
    | mem m' =>
      left
      simp only [keyA64, List.cons.injEq, true_and, List.append_assoc] at h
      obtain ⟨e1, h⟩ := encOffA64_inj _ _ _ _ h
      obtain ⟨e2, h⟩ := encTxt_inj _ _ _ _ h
      obtain ⟨e3, h⟩ := encTxt_inj _ _ _ _ h
      obtain ⟨e4, h⟩ := encIdxA64_inj _ _ _ _ h
      simp only [List.cons_append, List.nil_append, List.cons.injEq] at h
      obtain ⟨e5, h⟩ := h
      have e6 := encBool_eq m.pre m'.pre h.1
      obtain ⟨e7, _⟩ := encPostA64_inj _ _ [] [] (by simpa using h.2)
      clear h
      cases m; cases m'; simp_all [eqViewA64]
    | imm v => cases v <;> simp [keyA64] at h
    | reg _ => simp [keyA64] at h
    | ident _ => simp [keyA64] at h
    | cond _ => simp [keyA64] at h
    | prf _ _ _ => simp [keyA64] at h

end OsacaVerif.Glue
