import OsacaVerif.Model.Glue
/-
  The small facts the glue conversions need: the key of an operand identifies it (so comparing keys is
  comparing operands under `==`), and the load / store flags the composition model computes from the
  converted semantic operand lists are the flags `assign_src_dst` set.
-/
namespace OsacaVerif.Glue
open OsacaVerif OsacaVerif.Text OsacaVerif.Operand

/-- an encoding that can be read off the front of a text -/
def PrefixInj {α : Type} (enc : α → Txt) : Prop := ∀ a b r r', enc a ++ r = enc b ++ r' → a = b ∧ r = r'

theorem encTxt_inj : PrefixInj encTxt := by
  intro a b r r' h
  simp only [encTxt, List.cons_append, List.cons.injEq] at h
  obtain ⟨hl, h⟩ := h
  exact List.append_inj h hl

theorem encInt_inj : PrefixInj encInt := by
  intro a b r r' h
  cases a <;> cases b <;> simp [encInt] at h <;> simp [h]

theorem encOptTxt_inj : PrefixInj encOptTxt := by
  intro a b r r' h
  cases a with
  | none => cases b with
    | none => simpa [encOptTxt] using h
    | some t => simp [encOptTxt] at h
  | some t => cases b with
    | none => simp [encOptTxt] at h
    | some t' =>
      simp only [encOptTxt, List.cons_append, List.cons.injEq, true_and] at h
      obtain ⟨e, hr⟩ := encTxt_inj t t' r r' h
      exact ⟨by rw [e], hr⟩

theorem encOff_inj : PrefixInj encOff := by
  intro a b r r' h
  rcases a with _ | a <;> rcases b with _ | b
  · simpa [encOff] using h
  · cases b <;> simp [encOff] at h
  · cases a <;> simp [encOff] at h
  · cases a <;> cases b <;> simp only [encOff, List.cons_append, List.cons.injEq] at h <;>
      first
      | (exact absurd h.1 (by decide))
      | (obtain ⟨e, hr⟩ := encInt_inj _ _ r r' h.2; exact ⟨by rw [e], hr⟩)
      | (obtain ⟨e, hr⟩ := encTxt_inj _ _ r r' h.2; exact ⟨by rw [e], hr⟩)
      | (exact ⟨rfl, by simpa using h⟩)

/-- **the key identifies the operand**: equal keys ⇔ equal operands — except that an identifier operand
    is equal only to the one at its own position (no `__eq__`: identity) -/
theorem keyOf_eq (i j : Nat) (a b : X86.Operand) (h : keyOf i a = keyOf j b) :
    a = b ∨ (∃ n n', a = .ident n ∧ b = .ident n' ∧ i = j) := by
  cases a with
  | reg n => cases b <;> simp only [keyOf, List.cons.injEq] at h <;> try (exact absurd h.1 (by decide))
             · left; obtain ⟨e, _⟩ := encTxt_inj _ _ [] [] (by simpa using h.2); rw [e]
  | imm v => cases b <;> simp only [keyOf, List.cons.injEq] at h <;> try (exact absurd h.1 (by decide))
             · left; obtain ⟨e, _⟩ := encInt_inj _ _ [] [] (by simpa using h.2); rw [e]
  | ident n => cases b <;> simp only [keyOf, List.cons.injEq] at h <;> try (exact absurd h.1 (by decide))
               · right; exact ⟨_, _, rfl, rfl, h.2.1⟩
  | mem off bs ix sc seg =>
    cases b with
    | mem off' bs' ix' sc' seg' =>
      simp only [keyOf, List.cons.injEq, true_and, List.append_assoc] at h
      obtain ⟨e1, h⟩ := encOff_inj _ _ _ _ h
      obtain ⟨e2, h⟩ := encOptTxt_inj _ _ _ _ h
      obtain ⟨e3, h⟩ := encOptTxt_inj _ _ _ _ h
      simp only [List.cons.injEq, and_true] at h
      left
      rw [e1, e2, e3, h.1]
      have : seg = seg' := by
        cases seg <;> cases seg' <;> simp at h <;> rfl
      rw [this]
    | reg _ => simp only [keyOf, List.cons.injEq] at h; exact absurd h.1 (by decide)
    | imm _ => simp only [keyOf, List.cons.injEq] at h; exact absurd h.1 (by decide)
    | ident _ => simp only [keyOf, List.cons.injEq] at h; exact absurd h.1 (by decide)

theorem keyOf_self (i : Nat) (a b : X86.Operand) (h : a = b) : keyOf i a = keyOf i b := by rw [h]

/-! ### the matcher's view of the operand list -/

theorem opndsFrom_p (i : Nat) (ops : List X86.Operand) : (opndsFrom i ops).map (·.p) = ops.map poperandOf := by
  induction ops generalizing i with
  | nil => rfl
  | cons o os ih => simp [opndsFrom, opndOf, ih (i + 1)]

theorem opndsOf_p (ops : List X86.Operand) : (opndsOf ops).map (·.p) = ops.map poperandOf := opndsFrom_p 0 ops

theorem opndsOf_length (ops : List X86.Operand) : (opndsOf ops).length = ops.length := by
  have := congrArg List.length (opndsOf_p ops)
  simpa using this

theorem opndsFromA64_p (i : Nat) (ops : List ParseA64.Operand) :
    (opndsFromA64 i ops).map (·.p) = ops.map poperandA64 := by
  induction ops generalizing i with
  | nil => rfl
  | cons o os ih => simp [opndsFromA64, opndA64, ih (i + 1)]

theorem opndsA64_p (ops : List ParseA64.Operand) : (opndsA64 ops).map (·.p) = ops.map poperandA64 :=
  opndsFromA64_p 0 ops

theorem opndsA64_length (ops : List ParseA64.Operand) : (opndsA64 ops).length = ops.length := by
  have := congrArg List.length (opndsA64_p ops)
  simpa using this

/-! ### load / store flags -/

theorem semOpP_isMem (o : Isa.SemOp) : Compose.isMem (semOpP o) = Isa.isMem o := by
  cases o with
  | op i o => simp only [semOpP, Isa.isMem]; cases o.p <;> rfl
  | hid h => cases h <;> rfl
  | wb i b pre post v => rfl

theorem any_semOpP (l : List Isa.SemOp) : (l.map semOpP).any Compose.isMem = l.any Isa.isMem := by
  induction l with
  | nil => rfl
  | cons o os ih => simp [semOpP_isMem, ih]

/-- **`INSTR_FLAGS.HAS_LD` / `HAS_ST` agree across the stage models**: the composition model recomputes
    `_has_load` / `_has_store` from the semantic operand lists; on the converted lists this is the flag
    the roles model reports -/
theorem composeIns_flags (mn : Option Txt) (ops : List Isa.Opnd) (s : Isa.Sem) :
    Compose.hasLd (composeIns mn ops s) = Isa.hasLoad s ∧ Compose.hasSt (composeIns mn ops s) = Isa.hasStore s := by
  simp only [Compose.hasLd, Compose.hasSt, Isa.hasLoad, Isa.hasStore, composeIns, ← List.map_append, any_semOpP, and_self]

/-- the memory operands `assign_tp_lt` substitutes are the memory operands `assign_src_dst` substitutes -/
theorem substituteMem_agree (ops : List POperand) : Compose.substituteMem ops = Isa.substituteMem ops := by
  induction ops with
  | nil => rfl
  | cons o os ih =>
    simp only [Compose.substituteMem, Isa.substituteMem, List.map_cons] at ih ⊢
    rw [ih]
    cases o <;> rfl

end OsacaVerif.Glue
