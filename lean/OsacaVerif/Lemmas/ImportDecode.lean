import OsacaVerif.Model.Import
import OsacaVerif.Spec.ImportSpec
/-
  Operand-code decoding (C20): the interpreter of the generated if/elif tables agrees with the
  documented convention on every documented code.
-/
set_option linter.unusedSimpArgs false
namespace OsacaVerif.Import
open OsacaVerif.Text OsacaVerif.Gen.Import OsacaVerif.Spec.Import

/-- Python `"c" in s` for a one-character string is membership -/
theorem isInfix_singleton (c : Nat) (s : Txt) : isInfix [c] s = s.contains c := by
  induction s with
  | nil => simp [isInfix]
  | cons x xs ih =>
    simp only [isInfix, startsWith, ih, List.contains_cons, Bool.and_true]
    rw [Bool.beq_comm]

/-- x86, `m…`: for EVERY continuation `fl` (any letters, any order, any multiplicity) -/
theorem decode_x86_mem (fl : Txt) :
    createDbOperand .x86 (109 :: fl) =
      some [(t "class", .s (t "memory")), (t "base", optS (fl.contains 98) "gpr"),
            (t "offset", optS (fl.contains 111) "imd"), (t "index", optS (fl.contains 105) "gpr"),
            (t "scale", .n (if fl.contains 115 then 8 else 1))] := by
  simp only [createDbOperand, rulesOf, x86Rules, decode, evalTest, startsWith, isInfix, evalFields, evalV,
    isInfix_singleton, List.map, List.contains_cons, List.isEmpty_cons, beq_iff_eq]
  simp only [Nat.reduceEqDiff, Bool.false_and, Bool.or_self, Bool.false_or, Bool.true_and, if_true,
    Bool.false_eq_true, if_false, reduceCtorEq, List.cons.injEq, false_and, Nat.reduceBEq, decide_false]
  generalize fl.contains 98 = b1
  generalize fl.contains 111 = b2
  generalize fl.contains 105 = b3
  generalize fl.contains 115 = b4
  cases b1 <;> cases b2 <;> cases b3 <;> cases b4 <;> decide +kernel


/-- AArch64, `m…`: for EVERY continuation `fl` -/
theorem decode_a64_mem (fl : Txt) :
    createDbOperand .a64 (109 :: fl) =
      some [(t "class", .s (t "memory")), (t "base", optS (fl.contains 98) "x"),
            (t "offset", optS (fl.contains 111) "imd"), (t "index", optS (fl.contains 105) "gpr"),
            (t "scale", .n (if fl.contains 115 then 8 else 1)),
            (t "pre_indexed", .b (fl.contains 114)), (t "post_indexed", .b (fl.contains 112))] := by
  simp only [createDbOperand, rulesOf, a64Rules, decode, evalTest, startsWith, isInfix, evalFields, evalV,
    isInfix_singleton, List.map, List.contains_cons, List.isEmpty_cons, beq_iff_eq]
  simp only [Nat.reduceEqDiff, Bool.false_and, Bool.or_self, Bool.false_or, Bool.true_and, if_true,
    Bool.false_eq_true, if_false, reduceCtorEq, List.cons.injEq, false_and, Nat.reduceBEq, decide_false,
    List.isEmpty_nil, and_false, and_self]
  generalize fl.contains 98 = b1
  generalize fl.contains 111 = b2
  generalize fl.contains 105 = b3
  generalize fl.contains 115 = b4
  generalize fl.contains 114 = b5
  generalize fl.contains 112 = b6
  cases b1 <;> cases b2 <;> cases b3 <;> cases b4 <;> cases b5 <;> cases b6 <;> decide +kernel

/-- **decode_table, x86**: every documented code decodes to the documented operand -/
theorem decode_x86_documented (code : Txt) (d : Dict) (h : docX86 code = some d) :
    createDbOperand .x86 code = some d := by
  unfold docX86 at h
  split at h
  · rename_i e; subst e; injection h with h; subst h; decide +kernel
  split at h
  · rename_i e; subst e; injection h with h; subst h; decide +kernel
  split at h
  · rename_i e; subst e; injection h with h; subst h; decide +kernel
  split at h
  · rename_i e; subst e; injection h with h; subst h; decide +kernel
  split at h
  · rename_i e; subst e; injection h with h; subst h; decide +kernel
  split at h
  · split at h
    · injection h with h; subst h; exact decode_x86_mem _
    · cases h
  · cases h

theorem contains_wxbhsdq (c : Nat) (h : (t "wxbhsdq").contains c = true) :
    c = 119 ∨ c = 120 ∨ c = 98 ∨ c = 104 ∨ c = 115 ∨ c = 100 ∨ c = 113 := by
  have e : t "wxbhsdq" = [119, 120, 98, 104, 115, 100, 113] := by decide +kernel
  rw [e] at h
  simpa using h

theorem contains_bhsd (c : Nat) (h : (t "bhsd").contains c = true) :
    c = 98 ∨ c = 104 ∨ c = 115 ∨ c = 100 := by
  have e : t "bhsd" = [98, 104, 115, 100] := by decide +kernel
  rw [e] at h
  simpa using h

/-- **decode_table, AArch64** -/
theorem decode_a64_documented (code : Txt) (d : Dict) (h : docA64 code = some d) :
    createDbOperand .a64 code = some d := by
  unfold docA64 at h
  split at h
  · rename_i e; subst e; injection h with h; subst h; decide +kernel
  split at h
  · split at h
    · injection h with h; subst h; exact decode_a64_mem _
    · cases h
  · injection h with h; subst h; decide +kernel
  · split at h
    · rename_i hl
      injection h with h; subst h
      rcases contains_bhsd _ hl with e | e | e | e <;> subst e <;> decide +kernel
    · cases h
  · split at h
    · rename_i hc
      injection h with h; subst h
      rcases contains_wxbhsdq _ hc with e | e | e | e | e | e | e <;> subst e <;> decide +kernel
    · cases h
  · cases h

end OsacaVerif.Import
