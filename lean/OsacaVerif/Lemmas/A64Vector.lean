import OsacaVerif.Lemmas.A64Alias
/-
  Vector and SVE registers `vN`, `vN.4s`, `zN.d`, `vN.s[1]` (prefix and shape in either case).
-/
namespace OsacaVerif.ParseA64
open OsacaVerif.Text OsacaVerif.Spec.A64 OsacaVerif.Gen

def lanesText (lanes : Option Txt) : Txt :=
  match lanes with
  | some l => l
  | none => []

def shapeText (lanes : Option Txt) (shape : Option Nat) : Txt :=
  match shape with
  | some s => 46 :: (lanesText lanes ++ [s])
  | none => []

theorem elemText_vec (p n : Nat) (lanes : Option Txt) (shape : Option Nat) :
    elemText (.vec p n lanes shape) = p :: (showNat n ++ shapeText lanes shape) := by
  cases shape <;> cases lanes <;> rfl

def LanesOk (lanes : Option Txt) : Prop := ∀ l, lanes = some l → l ≠ [] ∧ ∀ c ∈ l, isLaneC c = true
def ShapeOk (shape : Option Nat) : Prop := ∀ s, shape = some s → isAlphaC s = true

theorem lane_digit (c : Nat) (h : isLaneC c = true) : isDigitC c = true := by
  simp [isLaneC, A64.laneChars] at h
  rcases h with rfl | rfl | rfl | rfl | rfl <;> decide

theorem indexP_some (k : Nat) (rest : Txt) :
    indexP true (91 :: (showNat k ++ 93 :: rest)) = some (showNat k, rest) := by
  obtain ⟨d, ds, hd, hdd⟩ := showNat_cons k
  have hstop : StopsAt isDigitC (93 :: rest) := by intro c r h; simp at h; rw [← h.1]; decide
  have hw : word true isDigitC (showNat k ++ 93 :: rest) = some (showNat k, 93 :: rest) := by
    simp only [word, sk_true]
    rw [hd, List.cons_append, skipWs_cons d _ (digit_not_ws d hdd)]
    exact wordNS_append isDigitC d ds _ (by rw [← hd]; exact showNat_digits k) hstop
  simp [indexP, lit, sk_true, skipWs, isWs, dropPrefix, hw]

theorem indexP_none (r : Txt) (h : lit true [91] r = none) : indexP true r = none := by
  simp [indexP, h]

theorem laneShape_none (r : Txt) (h : lit true [46] r = none) : laneShape true r = none := by
  simp [laneShape, h]

theorem laneShape_some (lanes : Option Txt) (s : Nat) (rest : Txt) (hl : LanesOk lanes) (hs : isAlphaC s = true) :
    laneShape true (shapeText lanes (some s) ++ rest) = some ((lanes, [s]), rest) := by
  have hsws := alpha_not_ws s hs
  have hsl : isLaneC s = false := by
    cases h : isLaneC s with
    | false => rfl
    | true => have := lane_digit s h; rw [alpha_not_digit s hs] at this; cases this
  have hlit : lit true [46] (shapeText lanes (some s) ++ rest) = some (lanesText lanes ++ (s :: rest)) := by
    simp [shapeText, lit, sk_true, skipWs, isWs, dropPrefix]
  cases lanes with
  | none =>
    have hw : word true isLaneC (s :: rest) = none := by
      simp only [word, sk_true, skipWs_cons s _ hsws]
      exact wordNS_none isLaneC _ (by intro c r h; simp at h; rw [← h.1]; exact hsl)
    simp [laneShape, hlit, lanesText, optP, hw, sk_true, skipWs_cons s _ hsws, char1, charNS, hs]
  | some l =>
    obtain ⟨hne, hall⟩ := hl l rfl
    match l, hne with
    | c :: l', _ =>
      have hcws := digit_not_ws c (lane_digit c (hall c (by simp)))
      have hw : word true isLaneC (c :: l' ++ (s :: rest)) = some (c :: l', s :: rest) := by
        simp only [word, sk_true, List.cons_append, skipWs_cons c _ hcws]
        exact wordNS_append isLaneC c l' _ hall (by intro d r h; simp at h; rw [← h.1]; exact hsl)
      simp only [laneShape, hlit, lanesText, optP, hw]
      simp [char1, sk_true, skipWs_cons s _ hsws, charNS, hs]

/-- the register token of a vector register as written -/
def vecElem (p n : Nat) (lanes : Option Txt) (shape : Option Nat) (idx : Option Nat) : Elem :=
  { pre := some [p], name := some (showNat n),
    lanes := (match shape with | some _ => lanes | none => none),
    shape := (match shape with | some s => some [s] | none => none),
    index := (match idx with | some k => some (showNat k) | none => none) }

theorem lit_cons_ne (c a : Nat) (t : Txt) (hc : isWs c = false) (h : c ≠ a) : lit true [a] (c :: t) = none := by
  simp [lit, sk_true, skipWs_cons c _ hc, dropPrefix, h]

/-- `vector` of the grammar on a rendered vector register; `∃ r'`: a failed optional part swallows
    the white space behind the register -/
theorem vectorP_text (g : Txt) (p n : Nat) (lanes : Option Txt) (shape idx : Option Nat) (rest : Txt)
    (hg : Blank g) (hp : isVectorPrefixC p = true) (hl : LanesOk lanes) (hs : ShapeOk shape) (hf : Follow rest) :
    ∃ r', vectorP true (g ++ (p :: (showNat n ++ (shapeText lanes shape ++ (idxText idx ++ rest))))) =
      some (vecElem p n lanes shape idx, r') ∧ skipWs r' = skipWs rest := by
  have hpws := alpha_not_ws p (vectorPrefix_alpha p hp)
  obtain ⟨d, ds, hd, hdd⟩ := showNat_cons n
  have h46 : lit true [46] rest = none := lit_none_of_follow rest hf 46 [] (by omega)
  have h91 : lit true [91] rest = none := lit_none_of_follow rest hf 91 [] (by omega)
  -- the index part, after the shape part
  have hidx : ∀ r0, skipWs r0 = skipWs (idxText idx ++ rest) ∨ r0 = idxText idx ++ rest →
      ∃ r', optP true (indexP true) r0 = ((match idx with | some k => some (showNat k) | none => none), r') ∧
        skipWs r' = skipWs rest := by
    intro r0 hr0
    have hr0' : skipWs r0 = skipWs (idxText idx ++ rest) := by
      rcases hr0 with h | h
      · exact h
      · rw [h]
    have hind : indexP true r0 = indexP true (idxText idx ++ rest) := by
      simp only [indexP]
      rw [← lit_skip, hr0', lit_skip]
    cases idx with
    | none =>
      have : indexP true rest = none := indexP_none _ h91
      simp only [idxText, List.nil_append] at hind hr0'
      exact ⟨skipWs r0, by simp [optP, hind, this, sk_true], by rw [skipWs_idem, hr0']⟩
    | some k =>
      have : indexP true (idxText (some k) ++ rest) = some (showNat k, rest) := by
        simp only [idxText, List.cons_append, List.append_assoc]
        exact indexP_some k rest
      exact ⟨rest, by simp [optP, hind, this], rfl⟩
  have hstop : StopsAt isDigitC (shapeText lanes shape ++ (idxText idx ++ rest)) := by
    intro c r h
    cases shape with
    | some s => simp [shapeText] at h; rw [← h.1]; decide
    | none =>
      cases idx with
      | some k => simp [shapeText, idxText] at h; rw [← h.1]; decide
      | none =>
        simp [shapeText, idxText] at h
        exact hf.stops isDigitC rest (by decide) c r h
  have hname : word true isDigitC (showNat n ++ (shapeText lanes shape ++ (idxText idx ++ rest))) =
      some (showNat n, shapeText lanes shape ++ (idxText idx ++ rest)) := by
    simp only [word, sk_true]
    rw [hd, List.cons_append, skipWs_cons d _ (digit_not_ws d hdd)]
    exact wordNS_append isDigitC d ds _ (by rw [← hd]; exact showNat_digits n) hstop
  have hchar : char1 true isVectorPrefixC (g ++ (p :: (showNat n ++ (shapeText lanes shape ++ (idxText idx ++ rest))))) =
      some (p, showNat n ++ (shapeText lanes shape ++ (idxText idx ++ rest))) := by
    simp [char1, sk_true, skipWs_blank_append g _ hg, skipWs_cons p _ hpws, charNS, hp]
  cases shape with
  | some s =>
    have hls := laneShape_some lanes s (idxText idx ++ rest) hl (hs s rfl)
    obtain ⟨r', hr', hsk⟩ := hidx (idxText idx ++ rest) (Or.inr rfl)
    refine ⟨r', ?_, hsk⟩
    simp only [vectorP, hchar, hname, optP_some true (laneShape true) _ _ _ hls, hr', vecElem]
  | none =>
    have hlsn : laneShape true (idxText idx ++ rest) = none := by
      apply laneShape_none
      cases idx with
      | some k => simp [idxText, lit, sk_true, skipWs, isWs, dropPrefix]
      | none => simpa [idxText] using h46
    obtain ⟨r', hr', hsk⟩ := hidx (skipWs (idxText idx ++ rest)) (Or.inl (skipWs_idem _))
    refine ⟨r', ?_, hsk⟩
    simp only [shapeText, List.nil_append] at hchar hname ⊢
    simp only [vectorP, hchar, hname, optP_none true (laneShape true) _ hlsn, sk_true, hr', vecElem]

theorem shiftTail_congr (r1 r2 : Txt) (h : skipWs r1 = skipWs r2) : shiftTail r1 = shiftTail r2 := by
  simp only [shiftTail]
  rw [← lit_skip [44] r1, h, lit_skip]

theorem vecText_assoc (p n : Nat) (lanes : Option Txt) (shape idx : Option Nat) (rest : Txt) :
    regText (.vec p n lanes shape idx) ++ rest =
      p :: (showNat n ++ (shapeText lanes shape ++ (idxText idx ++ rest))) := by
  simp [regText, elemText_vec, List.append_assoc]

theorem idRest_shapeText (lanes : Option Txt) (shape : Option Nat) (hl : LanesOk lanes) (hs : ShapeOk shape) :
    ∀ c ∈ shapeText lanes shape, isIdRestC c = true := by
  intro c hc
  cases shape with
  | none => simp [shapeText] at hc
  | some s =>
    simp only [shapeText, List.mem_cons, List.mem_append, List.mem_singleton, List.not_mem_nil, or_false] at hc
    rcases hc with rfl | hc | rfl
    · decide
    · cases lanes with
      | none => simp [lanesText] at hc
      | some l => exact digit_idRest c (lane_digit c ((hl l rfl).2 c hc))
    · simp [isIdRestC, isAlnumC, hs c rfl]

/-- **vector / SVE register** in any operand slot (∀ register numbers, lanes, shapes, element indices) -/
theorem goodOp_vec (p n : Nat) (lanes : Option Txt) (shape idx : Option Nat) (hp : isVectorPrefixC p = true)
    (hl : LanesOk lanes) (hs : ShapeOk shape) :
    GoodOp false true (regText (.vec p n lanes shape idx)) (.reg (RegTok.ofElem (vecElem p n lanes shape idx))) := by
  have hal := vectorPrefix_alpha p hp
  have hpws := alpha_not_ws p hal
  obtain ⟨d, ds, hd, hdd⟩ := showNat_cons n
  have hw : ∀ c ∈ showNat n ++ shapeText lanes shape, isIdRestC c = true := by
    intro c hc
    rcases List.mem_append.mp hc with h | h
    · exact digit_idRest c (showNat_digits n c h)
    · exact idRest_shapeText lanes shape hl hs c h
  have hcommon : ∀ g rest, Blank g → Follow rest →
      registerP (g ++ (regText (.vec p n lanes shape idx) ++ rest)) =
        some (RegTok.ofElem (vecElem p n lanes shape idx), skipWs rest) ∧
      (∃ r2, immediate (g ++ (regText (.vec p n lanes shape idx) ++ rest)) =
          some (.ident ⟨none, p :: (showNat n ++ shapeText lanes shape), none⟩, r2) ∧
        identifier (g ++ (regText (.vec p n lanes shape idx) ++ rest)) =
          some (⟨none, p :: (showNat n ++ shapeText lanes shape), none⟩, r2) ∧
        (skipWs rest).length ≤ r2.length ∧
        arithP (g ++ (regText (.vec p n lanes shape idx) ++ rest)) = none) ∧
      conditionP (g ++ (regText (.vec p n lanes shape idx) ++ rest)) = none ∧
      prefetchP (g ++ (regText (.vec p n lanes shape idx) ++ rest)) = none ∧
      memoryP (g ++ (regText (.vec p n lanes shape idx) ++ rest)) = none := by
    intro g rest hg hf
    rw [vecText_assoc]
    obtain ⟨r', hv, hsk⟩ := vectorP_text g p n lanes shape idx rest hg hp hl hs hf
    refine ⟨?_, ?_, ?_, ?_, ?_⟩
    · have hcore : registerCore (g ++ (p :: (showNat n ++ (shapeText lanes shape ++ (idxText idx ++ rest))))) =
          some (RegTok.ofElem (vecElem p n lanes shape idx), r') := by
        unfold registerCore
        rw [hv, hd, List.cons_append]
        rw [aliasP_none_digit _ g p d _ hg hpws hdd aliasSp_names, aliasP_none_digit _ g p d _ hg hpws hdd aliasZr_names]
        rfl
      have hst : shiftTail r' = none := by rw [shiftTail_congr r' rest hsk]; exact shiftTail_none rest hf
      simp only [registerP, hcore, optP_none true shiftTail _ hst, sk_true, hsk]
      simp [RegTok.ofElem]
    · -- the identifier reading stops in front of the element index
      have hstop : StopsAt isIdRestC (idxText idx ++ rest) := by
        cases idx with
        | some k => intro c r h; simp [idxText] at h; rw [← h.1]; decide
        | none => simpa [idxText] using hf.stops isIdRestC rest (by decide)
      have hplus : lit true [43] (idxText idx ++ rest) = none := by
        cases idx with
        | some k => simp [idxText, lit, sk_true, skipWs, isWs, dropPrefix]
        | none => simpa [idxText] using lit_none_of_follow rest hf 43 [] (by omega)
      have himm := immediate_word' g p (showNat n ++ shapeText lanes shape) (idxText idx ++ rest) hg (alpha_idFirst p hal) hw hstop hplus
      have hid := identifier_word' g p (showNat n ++ shapeText lanes shape) (idxText idx ++ rest) hg (alpha_idFirst p hal) hw hstop hplus
      simp only [List.append_assoc] at himm hid
      refine ⟨skipWs (idxText idx ++ rest), himm, hid, ?_, ?_⟩
      · cases idx with
        | none => simp [idxText]
        | some k =>
          have : skipWs (idxText (some k) ++ rest) = idxText (some k) ++ rest := by
            simp [idxText, skipWs, isWs]
          rw [this]
          have := skipWs_length_le rest
          simp [idxText]; omega
      · unfold arithP
        rw [himm]
        simp only
        cases idx with
        | none =>
          simp only [idxText, List.nil_append, lit_skip]
          cases hlc : lit true [44] rest with
          | none => rfl
          | some r1 => simp [hf.noShift r1 hlc]
        | some k => simp [idxText, lit, sk_true, skipWs, isWs, dropPrefix]
    · rw [hd, List.cons_append]; exact conditionP_none_snd_digit g p d _ hg hpws hdd
    · rw [hd, List.cons_append]; exact prefetchP_none_snd_digit g p d _ hg hpws hdd
    · exact memoryP_none_head g p _ hg hpws (by simp only [isAlphaC] at hal; simp at hal; omega)
  refine ⟨?_, ?_, ?_, ?_⟩
  · intro g rest hg hf
    obtain ⟨hreg, ⟨r2, himm, _, hlen, har⟩, hcond, _, hmem⟩ := hcommon g rest hg hf
    refine ⟨skipWs rest, ?_, skipWs_idem rest⟩
    simp only [operandRest, hcond, hreg, himm, hmem, arithOp, har, mapR_none, mapR_some, wordEnd_none,
      orElseR_none_left, better_none_right]
    rw [better_some_ge _ _ _ _ hlen]; rfl
  · intro _ g rest hg hf
    obtain ⟨hreg, ⟨r2, himm, hid, hlen, har⟩, _, hprf, hmem⟩ := hcommon g rest hg hf
    refine ⟨skipWs rest, ?_, skipWs_idem rest⟩
    simp only [operandFirst, hprf, hreg, himm, hid, hmem, arithOp, har, mapR_none, mapR_some, wordEnd_none,
      orElseR_none_left, better_none_right]
    rw [better_some_ge _ _ _ _ hlen, better_some_ge _ _ _ _ hlen]
  · intro g rest hg _
    rw [vecText_assoc, hd, List.cons_append]
    exact shiftOp_none_snd_digit g p d _ hg hpws hdd
  · refine ⟨p, showNat n ++ (shapeText lanes shape ++ idxText idx), by simp [regText, elemText_vec], hpws, ?_, ?_⟩ <;>
      (simp only [isAlphaC] at hal; simp at hal; omega)

theorem covered_vec (last fst : Bool) (p n : Nat) (lanes : Option Txt) (shape idx : Option Nat)
    (hp : isVectorPrefixC p = true) (hl : LanesOk lanes) (hs : ShapeOk shape) :
    CoveredOp last fst (.reg (.vec p n lanes shape idx)) := by
  refine ⟨regText (.vec p n lanes shape idx), [], .reg (RegTok.ofElem (vecElem p n lanes shape idx)), rfl, ?_, ?_⟩
  · intro gs hgs
    have : gs = [] := hgs
    subst this
    have := (goodOp_vec p n lanes shape idx hp hl hs).any last
    cases fst with
    | true => simpa [joinInner] using this.toFirst
    | false => simpa [joinInner] using this.toRest
  · have hsp := showNat_ne_sp n
    simp only [processOperand, RegTok.ofElem, vecElem, hsp, processRegister, expectOp, expectReg, expectElem]
    cases shape <;> cases idx <;> simp [lower, lowerTxt1, optMap]

end OsacaVerif.ParseA64
