import OsacaVerif.Lemmas.ParseX86Num
/-
  C09 — token level: numbers, registers, identifiers of the domain are recognised whatever
  blanks precede them, provided what follows is blanks and then one of the expected punctuation
  characters (`Tail S k`).
-/
namespace OsacaVerif.ParseX86
open OsacaVerif.Text OsacaVerif.X86 OsacaVerif.Spec.X86R

/-- punctuation that may follow a token of the domain -/
def Punct (c : Nat) : Bool := c == 44 || c == 40 || c == 41 || c == 35 || c == 47

/-- `k` (what follows a token) starts with blanks or a character of `S`, and its first visible
    character, if any, is in `S` -/
def Tail (S : Nat → Bool) (k : Txt) : Prop :=
  (∀ c, k.head? = some c → isWs c = true ∨ S c = true) ∧ (∀ c, nextC k = some c → S c = true)

theorem Tail.nil (S : Nat → Bool) : Tail S [] := by
  constructor <;> intro c h <;> simp [nextC] at h

theorem Tail.cons {S : Nat → Bool} {c : Nat} (r : Txt) (hS : S c = true) (hw : isWs c = false) :
    Tail S (c :: r) := by
  constructor
  · intro d hd; simp at hd; subst hd; exact Or.inr hS
  · intro d hd; rw [nextC_cons hw] at hd; simp at hd; subst hd; exact hS

theorem Tail.append {S : Nat → Bool} {b k : Txt} (hb : AllWs b) (hk : Tail S k) : Tail S (b ++ k) := by
  constructor
  · intro c hc
    cases b with
    | nil => exact hk.1 c hc
    | cons d ds => simp at hc; subst hc; exact Or.inl (hb _ (by simp))
  · intro c hc; rw [nextC_append hb] at hc; exact hk.2 c hc

theorem Tail.skip {S : Nat → Bool} {k : Txt} (hk : Tail S k) : Tail S (ParseX86.skipWs k) := by
  constructor
  · intro c hc; exact Or.inr (hk.2 c hc)
  · intro c hc; rw [nextC_skipWs] at hc; exact hk.2 c hc

theorem Tail.mono {S S' : Nat → Bool} {k : Txt} (h : ∀ c, S c = true → S' c = true) (hk : Tail S k) :
    Tail S' k :=
  ⟨fun c hc => (hk.1 c hc).imp id (h c), fun c hc => h c (hk.2 c hc)⟩

theorem Tail.stops {S p : Nat → Bool} {k : Txt} (hk : Tail S k)
    (hw : ∀ c, isWs c = true → p c = false) (hS : ∀ c, S c = true → p c = false) : Stops p k := by
  intro c hc; rcases hk.1 c hc with h | h; exact hw c h; exact hS c h

theorem Tail.next_ne {S : Nat → Bool} {k : Txt} (hk : Tail S k) {x : Nat} (hx : S x = false) :
    nextC k ≠ some x := by
  intro h; have := hk.2 x h; simp [hx] at this

theorem Tail.next_not {S p : Nat → Bool} {k : Txt} (hk : Tail S k) (hS : ∀ c, S c = true → p c = false) :
    ∀ c, nextC k = some c → p c = false := fun c hc => hS c (hk.2 c hc)

/-- the first visible character of the tail starts it once the blanks are gone -/
theorem Tail.skipWs_cases {S : Nat → Bool} {k : Txt} (hk : Tail S k) :
    skipWs k = [] ∨ ∃ c r, skipWs k = c :: r ∧ S c = true ∧ isWs c = false := by
  cases h : skipWs k with
  | nil => exact Or.inl rfl
  | cons c r =>
    refine Or.inr ⟨c, r, rfl, hk.2 c (by simp [nextC, h]), ?_⟩
    have := skipWs_stops k; rw [h] at this; exact this c rfl

/-! ### character classes against blanks and punctuation -/

theorem ws_not_digit (c : Nat) (h : isWs c = true) : isDigitC c = false := by
  simp [isWs, isDigitC] at *; omega
theorem ws_not_hex (c : Nat) (h : isWs c = true) : isHexC c = false := by
  simp [isWs, isHexC, isDigitC] at *; omega
theorem ws_not_alnum (c : Nat) (h : isWs c = true) : isAlnumC c = false := by
  simp [isWs, isAlnumC, isAlphaC, isDigitC] at *; omega
theorem ws_not_idRest (c : Nat) (h : isWs c = true) : isIdRest c = false := by
  simp [isWs, isIdRest, isAlnumC, isAlphaC, isDigitC] at *; omega
theorem ws_not_mn (c : Nat) (h : isWs c = true) : isMnC c = false := by
  simp [isWs, isMnC, isAlnumC, isAlphaC, isDigitC] at *; omega
theorem ws_not_print (c : Nat) (h : isWs c = true) : isPrintC c = false := by
  simp [isWs, isPrintC] at *; omega
theorem punct_not_digit (c : Nat) (h : Punct c = true) : isDigitC c = false := by
  simp [Punct, isDigitC] at *; omega
theorem punct_not_hex (c : Nat) (h : Punct c = true) : isHexC c = false := by
  simp [Punct, isHexC, isDigitC] at *; omega
theorem punct_not_alnum (c : Nat) (h : Punct c = true) : isAlnumC c = false := by
  simp [Punct, isAlnumC, isAlphaC, isDigitC] at *; omega
theorem punct_not_idRest (c : Nat) (h : Punct c = true) : isIdRest c = false := by
  simp [Punct, isIdRest, isAlnumC, isAlphaC, isDigitC] at *; omega
theorem punct_not_ws (c : Nat) (h : Punct c = true) : isWs c = false := by
  simp [Punct, isWs] at *; omega
theorem alnum_not_ws (c : Nat) (h : isAlnumC c = true) : isWs c = false := by
  simp [isWs, isAlnumC, isAlphaC, isDigitC] at *; omega
theorem digit_not_ws (c : Nat) (h : isDigitC c = true) : isWs c = false := by
  simp [isWs, isDigitC] at *; omega
theorem idRest_not_ws (c : Nat) (h : isIdRest c = true) : isWs c = false := by
  simp [isWs, isIdRest, isAlnumC, isAlphaC, isDigitC] at *; omega

theorem spec_isAlnum (c : Nat) : Spec.X86R.isAlnum c = isAlnumC c := by
  simp [Spec.X86R.isAlnum, Spec.X86R.isAlpha, Spec.X86R.isDigit, isAlnumC, isAlphaC, isDigitC]
theorem spec_isAlpha (c : Nat) : Spec.X86R.isAlpha c = isAlphaC c := by
  simp [Spec.X86R.isAlpha, isAlphaC]

/-! ### numbers as tokens -/

theorem hexRaw_digits_none {D k : Txt} (hD : ∀ c ∈ D, isDigitC c = true) (hne : D ≠ [])
    (hk : ∀ c, k.head? = some c → c ≠ 120) :
    hexRaw (D ++ k) = none ∧ hexRaw (45 :: (D ++ k)) = none := by
  have d45 : ∀ c, isDigitC c = true → c ≠ 45 ∧ c ≠ 120 := by
    intro c h; simp [isDigitC] at h; omega
  cases D with
  | nil => exact absurd rfl hne
  | cons d D' =>
    have hd := d45 d (hD d (by simp))
    cases D' with
    | nil =>
      cases k with
      | nil => constructor <;> (unfold hexRaw; split <;> simp_all)
      | cons c r =>
        have hc := hk c rfl
        constructor <;> (unfold hexRaw; split <;> simp_all)
    | cons d' D'' =>
      have hd' := d45 d' (hD d' (by simp))
      constructor <;> (unfold hexRaw; split <;> simp_all)

theorem decimalRaw_digits {D k : Txt} (hD : ∀ c ∈ D, isDigitC c = true) (hne : D ≠ [])
    (hk : Stops isDigitC k) :
    decimalRaw (D ++ k) = some (D, k) ∧ decimalRaw (45 :: (D ++ k)) = some (45 :: D, k) := by
  have hw := wordRaw_append hne hD hk
  constructor
  · cases D with
    | nil => exact absurd rfl hne
    | cons d D' =>
      have : d ≠ 45 := by have := hD d (by simp); simp [isDigitC] at this; omega
      unfold decimalRaw
      split
      · rename_i heq; simp at heq; exact absurd heq.1 this
      · exact hw
  · simp [decimalRaw, hw]

theorem hexRaw_hex {H k : Txt} (hH : ∀ c ∈ H, isHexC c = true) (hne : H ≠ []) (hk : Stops isHexC k) :
    hexRaw (48 :: 120 :: (H ++ k)) = some (48 :: 120 :: H, k) ∧
    hexRaw (45 :: 48 :: 120 :: (H ++ k)) = some (45 :: 48 :: 120 :: H, k) := by
  have hw := wordRaw_append hne hH hk
  constructor <;> simp [hexRaw, hw]

/-- a rendered integer is `-`? followed by decimal digits, or by `0x` and hexadecimal digits -/
theorem renderInt_shape (f : NumFmt) (v : Int) :
    (∃ D, D ≠ [] ∧ (∀ c ∈ D, isDigitC c = true) ∧ (renderInt f v = D ∨ renderInt f v = 45 :: D)) ∨
    (∃ H, H ≠ [] ∧ (∀ c ∈ H, isHexC c = true) ∧
      (renderInt f v = 48 :: 120 :: H ∨ renderInt f v = 45 :: 48 :: 120 :: H)) := by
  unfold renderInt renderNat
  cases hh : f.hex
  · left
    refine ⟨(natDigits 10 v.natAbs).map (digitChar false), ?_, ?_, ?_⟩
    · simp [natDigits_ne_nil]
    · intro c hc; exact List.all_eq_true.mp (allDigit_render v.natAbs) c hc
    · split <;> simp
  · right
    refine ⟨List.replicate f.zeros 48 ++ (natDigits 16 v.natAbs).map (digitChar f.upper), ?_, ?_, ?_⟩
    · simp [natDigits_ne_nil]
    · intro c hc; exact List.all_eq_true.mp (allHex_render f.upper f.zeros v.natAbs) c hc
    · split <;> simp

/-- **numbers**: a rendered integer after any blanks is one `hex_number` or one `decimal_number`
    token, exactly its text; `S` may be any set of punctuation -/
theorem number_tok {S : Nat → Bool} (hS : ∀ c, S c = true → Punct c = true) (f : NumFmt) (v : Int)
    {b k : Txt} (hb : AllWs b) (hk : Tail S k) :
    hexNumber (b ++ (renderInt f v ++ k)) = some (renderInt f v, k) ∨
    (hexNumber (b ++ (renderInt f v ++ k)) = none ∧
     decimalNumber (b ++ (renderInt f v ++ k)) = some (renderInt f v, k)) := by
  have hkP : Tail Punct k := hk.mono hS
  have sd : Stops isDigitC k := hkP.stops ws_not_digit punct_not_digit
  have sh : Stops isHexC k := hkP.stops ws_not_hex punct_not_hex
  have h120 : ∀ c, k.head? = some c → c ≠ 120 := by
    intro c hc e; subst e; rcases hkP.1 _ hc with h | h <;> simp [isWs, Punct] at h
  rcases renderInt_shape f v with ⟨D, hne, hD, hR | hR⟩ | ⟨H, hne, hH, hR | hR⟩
  · have hsk : skipWs (b ++ (D ++ k)) = D ++ k := by
      rw [skipWs_append hb]
      cases D with
      | nil => exact absurd rfl hne
      | cons d D' => exact skipWs_cons_not (digit_not_ws _ (hD _ (by simp)))
    right
    simp only [hexNumber, decimalNumber, hR, hsk, (hexRaw_digits_none hD hne h120).1,
      (decimalRaw_digits hD hne sd).1, and_self]
  · have hsk : skipWs (b ++ (45 :: D ++ k)) = 45 :: (D ++ k) := by
      rw [skipWs_append hb]; exact skipWs_cons_not (by decide)
    right
    simp only [hexNumber, decimalNumber, hR, hsk, (hexRaw_digits_none hD hne h120).2,
      (decimalRaw_digits hD hne sd).2, and_self]
  · have hsk : skipWs (b ++ (48 :: 120 :: H ++ k)) = 48 :: 120 :: (H ++ k) := by
      rw [skipWs_append hb]; exact skipWs_cons_not (by decide)
    left
    simp only [hexNumber, hR, hsk, (hexRaw_hex hH hne sh).1]
  · have hsk : skipWs (b ++ (45 :: 48 :: 120 :: H ++ k)) = 45 :: 48 :: 120 :: (H ++ k) := by
      rw [skipWs_append hb]; exact skipWs_cons_not (by decide)
    left
    simp only [hexNumber, hR, hsk, (hexRaw_hex hH hne sh).2]

/-- `Group(hex_number | decimal_number | identifier)` on a rendered integer -/
theorem offsetG_num {S : Nat → Bool} (hS : ∀ c, S c = true → Punct c = true) (f : NumFmt) (v : Int)
    {b k : Txt} (hb : AllWs b) (hk : Tail S k) :
    offsetG (b ++ (renderInt f v ++ k)) = some (.num (renderInt f v), k) := by
  rcases number_tok hS f v hb hk with h | ⟨h1, h2⟩
  · simp [offsetG, h]
  · simp [offsetG, h1, h2]

/-- the bare-number alternative of `memory` on a rendered integer -/
theorem memBare_num {S : Nat → Bool} (hS : ∀ c, S c = true → Punct c = true) (f : NumFmt) (v : Int)
    {b k : Txt} (hb : AllWs b) (hk : Tail S k) :
    memBare (b ++ (renderInt f v ++ k)) =
      some ({ off := some (.num (renderInt f v)), offIsStr := true }, skipWs k) := by
  rcases number_tok hS f v hb hk with h | ⟨h1, h2⟩
  · simp [memBare, h]
  · simp [memBare, h1, h2]

/-- the first character of a rendered integer is `-` or a digit -/
theorem renderInt_head (f : NumFmt) (v : Int) :
    ∃ c cs, renderInt f v = c :: cs ∧ (c = 45 ∨ isDigitC c = true) := by
  rcases renderInt_shape f v with ⟨D, hne, hD, hR | hR⟩ | ⟨H, _, _, hR | hR⟩
  · cases D with
    | nil => exact absurd rfl hne
    | cons d D' => exact ⟨d, D', hR, Or.inr (hD d (by simp))⟩
  · exact ⟨45, _, hR, Or.inl rfl⟩
  · exact ⟨48, _, hR, Or.inr (by decide)⟩
  · exact ⟨45, _, hR, Or.inl rfl⟩

/-! ### registers -/

theorem validReg_spec {n : Txt} (h : validReg n = true) :
    n ≠ [] ∧ ∀ c ∈ n, isAlnumC c = true := by
  simp only [validReg, Bool.and_eq_true, Bool.not_eq_true', List.all_eq_true] at h
  refine ⟨by intro e; subst e; simp at h, fun c hc => ?_⟩
  rw [← spec_isAlnum]; exact h.2 c hc

/-- **registers**: `%name` after any blanks; what follows must not open an index or a mask -/
theorem register_ok {S : Nat → Bool} (hS : ∀ c, S c = true → Punct c = true) (h40 : S 40 = false)
    {n b k : Txt} (hn : validReg n = true) (hb : AllWs b) (hk : Tail S k) :
    register (b ++ 37 :: (n ++ k)) = some (n, skipWs k) := by
  obtain ⟨hne, hal⟩ := validReg_spec hn
  have hkP : Tail Punct k := hk.mono hS
  have sa : Stops isAlnumC k := hkP.stops ws_not_alnum punct_not_alnum
  have hw : word isAlnumC (n ++ k) = some (n, k) := by
    simpa using word_append (b := []) AllWs.nil hne hal (fun c hc => alnum_not_ws c (hal c hc)) sa
  have h123 : S 123 = false := by
    cases h : S 123 with
    | false => rfl
    | true => have := hS 123 h; simp [Punct] at this
  have hi : regIndex k = none := by simp [regIndex, lit1_none (hk.next_ne h40)]
  have hm : regMask (skipWs k) = none := by
    simp [regMask, maskCore, lit1_none (x := 123) (t := skipWs k) (by simpa using hk.next_ne h123)]
  simp [register, lit1_append hb (show isWs 37 = false by decide), hw, optR, hi, hm]

/-- a register cannot start at a character other than `%` -/
theorem register_none {t : Txt} (h : nextC t ≠ some 37) : register t = none := by
  simp [register, lit1_none h]

/-! ### identifiers (labels) -/

theorem spec_idStart (c : Nat) (h : isIdStart c = true) : isIdFirst c = true ∧ isDigitC c = false ∧ isWs c = false := by
  simp [isIdStart, Spec.X86R.isAlpha, isIdFirst, isAlphaC, isDigitC, isWs] at *; omega

theorem spec_idChar (c : Nat) (h : isIdChar c = true) : isIdRest c = true := by
  simp [isIdChar, Spec.X86R.isAlnum, Spec.X86R.isAlpha, Spec.X86R.isDigit, isIdRest, isAlnumC, isAlphaC, isDigitC] at *
  omega

theorem nameTail_cons_rest (restP : Nat → Bool) (c : Nat) (cs : Txt) (h : restP c = true) :
    nameTail restP (c :: cs) = (c :: (nameTail restP cs).1, (nameTail restP cs).2) := by
  rw [nameTail.eq_def]; simp [h]

theorem nameTail_cons_stop (restP : Nat → Bool) (c : Nat) (cs : Txt) (h : restP c = false)
    (h2 : c ≠ 58) : nameTail restP (c :: cs) = ([], c :: cs) := by
  rw [nameTail.eq_def]; simp [h, h2]

theorem nameTail_ok {restP : Nat → Bool} {r k : Txt} (hr : ∀ c ∈ r, restP c = true)
    (hk : ∀ c, k.head? = some c → restP c = false ∧ c ≠ 58) :
    nameTail restP (r ++ k) = (r, k) := by
  induction r with
  | nil =>
    cases k with
    | nil => rfl
    | cons c cs =>
      obtain ⟨h1, h2⟩ := hk c rfl
      exact nameTail_cons_stop restP c cs h1 h2
  | cons c cs ih =>
    have := ih (fun d hd => hr d (by simp [hd]))
    rw [List.cons_append, nameTail_cons_rest restP c _ (hr c (by simp)), this]

theorem relocation_none {t : Txt} (h : nextC t ≠ some 64) : relocation t = none := by
  unfold relocation
  split
  · rename_i r heq; exact absurd (by simp [nextC, heq]) h
  · rfl

theorem decimalNumber_none {t : Txt} (h : ∀ c, nextC t = some c → c ≠ 45 ∧ isDigitC c = false) :
    decimalNumber t = none := by
  unfold decimalNumber nextC at *
  cases hs : skipWs t with
  | nil => simp [decimalRaw, wordRaw, spanP]
  | cons d r =>
    rw [hs] at h
    obtain ⟨h45, hd⟩ := h d rfl
    unfold decimalRaw
    split
    · rename_i heq; simp at heq; exact absurd heq.1 h45
    · exact wordRaw_stops (Stops.cons hd)

theorem hexNumber_none {t : Txt} (h : ∀ c, nextC t = some c → c ≠ 45 ∧ c ≠ 48) : hexNumber t = none := by
  unfold hexNumber nextC at *
  cases hs : skipWs t with
  | nil => simp [hexRaw]
  | cons d r =>
    rw [hs] at h
    obtain ⟨h45, h48⟩ := h d rfl
    unfold hexRaw
    split
    · rename_i heq; simp at heq; exact absurd heq.1 h45
    · rename_i heq; simp at heq; exact absurd heq.1 h48
    · rfl

theorem trailOffset_none {t : Txt} (h : ∀ c, nextC t = some c → c ≠ 43 ∧ c ≠ 45 ∧ isDigitC c = false) :
    trailOffset t = none := by
  have h43 : nextC t ≠ some 43 := fun e => (h 43 e).1 rfl
  simp [trailOffset, optR, lit1_none h43,
    decimalNumber_none (t := skipWs t) (by intro c hc; rw [nextC_skipWs] at hc; exact (h c hc).2)]

theorem idOffset_none {t : Txt} (h : ∀ c, nextC t = some c → isDigitC c = false) : idOffset t = none := by
  unfold idOffset word nextC at *
  cases hs : skipWs t with
  | nil => simp [wordRaw, spanP]
  | cons c cs => rw [hs] at h; simp [wordRaw_stops (Stops.cons (h c rfl))]

/-- **labels**: a name of the domain after any blanks is read completely, and nothing more -/
theorem identifier_ok {S : Nat → Bool} (hS : ∀ c, S c = true → Punct c = true)
    {n b k : Txt} (hn : validIdent n = true) (hb : AllWs b) (hk : Tail S k) :
    identifier isIdRest true (b ++ (n ++ k)) = some (n, skipWs k) := by
  have hkP : Tail Punct k := hk.mono hS
  cases n with
  | nil => simp [validIdent] at hn
  | cons c r =>
    simp only [validIdent, Bool.and_eq_true, List.all_eq_true] at hn
    obtain ⟨hf, hnd, hnw⟩ := spec_idStart c hn.1
    simp only [List.cons_append]
    have hsk : skipWs (b ++ c :: (r ++ k)) = c :: (r ++ k) := by
      rw [skipWs_append hb]; exact skipWs_cons_not hnw
    have hnx : nextC (b ++ c :: (r ++ k)) = some c := by simp [nextC, hsk]
    have hido : idOffset (b ++ c :: (r ++ k)) = none :=
      idOffset_none (by intro d hd; rw [hnx] at hd; cases hd; exact hnd)
    have hkh : ∀ d, k.head? = some d → isIdRest d = false ∧ d ≠ 58 := by
      intro d hd
      rcases hkP.1 d hd with h | h
      · exact ⟨ws_not_idRest d h, by intro e; subst e; simp [isWs] at h⟩
      · exact ⟨punct_not_idRest d h, by intro e; subst e; simp [Punct] at h⟩
    have hnt := nameTail_ok (fun d hd => spec_idChar d (hn.2 d hd)) hkh
    have hrel : relocation k = none := relocation_none (hkP.next_ne (by decide))
    have htr : trailOffset (skipWs k) = none := trailOffset_none (by
      intro d hd; rw [nextC_skipWs] at hd
      have := hkP.2 d hd
      refine ⟨?_, ?_, punct_not_digit d this⟩ <;> (intro e; subst e; simp [Punct] at this))
    simp [identifier, optR, hido, hsk, skipWs_cons_not hnw, nameRaw, hf, hnt, hrel, htr]

/-- an identifier cannot start at a character that is neither a digit nor a first character -/
theorem identifier_none {restP : Nat → Bool} {trail : Bool} {t : Txt}
    (h : ∀ c, nextC t = some c → isIdFirst c = false ∧ isDigitC c = false) :
    identifier restP trail t = none := by
  have hido : idOffset t = none := idOffset_none (fun c hc => (h c hc).2)
  unfold identifier
  simp only [optR, hido, Option.getD_none, skipWs_skipWs]
  unfold nextC at h
  cases hs : skipWs t with
  | nil => simp [nameRaw]
  | cons c cs => rw [hs] at h; simp [nameRaw, (h c rfl).1]

end OsacaVerif.ParseX86
