import OsacaVerif.Lemmas.A64Cond
/-
  The stack-pointer and zero-register aliases `sp wsp SP WSP xzr wzr XZR WZR` as plain operands.
-/
namespace OsacaVerif.ParseA64
open OsacaVerif.Text OsacaVerif.Spec.A64 OsacaVerif.Gen

def aliasTexts : List Txt :=
  [ofString "sp", ofString "wsp", ofString "SP", ofString "WSP",
   ofString "xzr", ofString "wzr", ofString "XZR", ofString "WZR"]

/-- the register token the grammar produces for an alias -/
def aliasTok (t : Txt) : RegTok :=
  if t.length = 2 then { name := some t } else { pre := some (t.take 1), name := some (t.drop 1) }

theorem registerCore_alias (t : Txt) (ht : t ∈ aliasTexts) (g rest : Txt) (hg : Blank g) :
    registerCore (g ++ (t ++ rest)) = some (aliasTok t, rest) := by
  simp only [aliasTexts, List.mem_cons, List.mem_singleton, List.not_mem_nil, or_false] at ht
  rcases ht with rfl | rfl | rfl | rfl | rfl | rfl | rfl | rfl <;>
    simp [registerCore, aliasP, skipWs_blank_append g _ hg, skipWs, isWs, ofString, A64.aliasSp, A64.aliasZr,
      startsWith, isAlphaC, aliasTok]

theorem alias_cases (t : Txt) (ht : t ∈ aliasTexts) :
    t = [115, 112] ∨ t = [119, 115, 112] ∨ t = [83, 80] ∨ t = [87, 83, 80] ∨
    t = [120, 122, 114] ∨ t = [119, 122, 114] ∨ t = [88, 90, 82] ∨ t = [87, 90, 82] := by
  simpa [aliasTexts, ofString] using ht

/-- no condition code, prefetch keyword or shift operator is a prefix of an alias (checked on the
    first two characters) -/
theorem alias_no_keyword (t : Txt) (ht : t ∈ aliasTexts) (g rest : Txt) (hg : Blank g) :
    conditionP (g ++ (t ++ rest)) = none ∧ prefetchP (g ++ (t ++ rest)) = none ∧
    shiftOp (g ++ (t ++ rest)) = none := by
  rcases alias_cases t ht with rfl | rfl | rfl | rfl | rfl | rfl | rfl | rfl <;>
    simp [conditionP, prefetchP, shiftOp, clitOr, clit, sk_true, skipWs_blank_append g _ hg, skipWs, isWs,
      A64.conditions, A64.prfTypes, A64.shiftOps, lower, lowerC, dropPrefixCI, better]

theorem alias_word (t : Txt) (ht : t ∈ aliasTexts) :
    ∃ c w, t = c :: w ∧ isAlphaC c = true ∧ (∀ d ∈ w, isIdRestC d = true) := by
  rcases alias_cases t ht with rfl | rfl | rfl | rfl | rfl | rfl | rfl | rfl <;>
    exact ⟨_, _, rfl, by decide, by decide⟩

/-- **sp / zr alias** as an operand, in any slot -/
theorem goodOp_alias (t : Txt) (ht : t ∈ aliasTexts) : GoodOp false true t (.reg (aliasTok t)) := by
  obtain ⟨c, w, hcw, hal, hw⟩ := alias_word t ht
  have hws := alpha_not_ws c hal
  have hcommon : ∀ g rest, Blank g → Follow rest →
      registerP (g ++ (t ++ rest)) = some (aliasTok t, skipWs rest) ∧
      immediate (g ++ (t ++ rest)) = some (.ident ⟨none, t, none⟩, skipWs rest) ∧
      identifier (g ++ (t ++ rest)) = some (⟨none, t, none⟩, skipWs rest) ∧
      memoryP (g ++ (t ++ rest)) = none ∧ arithP (g ++ (t ++ rest)) = none := by
    intro g rest hg hf
    have hreg : registerP (g ++ (t ++ rest)) = some (aliasTok t, skipWs rest) := by
      have hcore := registerCore_alias t ht g rest hg
      have htok : (aliasTok t).shiftOp = none ∧ (aliasTok t).shift = none := by
        simp only [aliasTok]; split <;> exact ⟨rfl, rfl⟩
      simp only [registerP, hcore, optP_none true shiftTail _ (shiftTail_none rest hf), sk_true]
      cases h : aliasTok t
      simp_all
    have himm : immediate (g ++ (t ++ rest)) = some (.ident ⟨none, t, none⟩, skipWs rest) := by
      rw [hcw, List.cons_append]; exact immediate_word g c w rest hg hal hw hf
    have hid : identifier (g ++ (t ++ rest)) = some (⟨none, t, none⟩, skipWs rest) := by
      rw [hcw, List.cons_append]; exact identifier_word g c w rest hg hal hw hf
    have hmem : memoryP (g ++ (t ++ rest)) = none := by
      rw [hcw, List.cons_append]
      exact memoryP_none_head g c _ hg hws (by simp only [isAlphaC] at hal; simp at hal; omega)
    exact ⟨hreg, himm, hid, hmem, arithP_none_of_immediate _ rest _ _ himm (skipWs_idem rest) hf⟩
  refine ⟨?_, ?_, ?_, ?_⟩
  · intro g rest hg hf
    obtain ⟨hreg, himm, _, hmem, har⟩ := hcommon g rest hg hf
    obtain ⟨hcond, _, _⟩ := alias_no_keyword t ht g rest hg
    refine ⟨skipWs rest, ?_, skipWs_idem rest⟩
    simp only [operandRest, hcond, hreg, himm, hmem, arithOp, har, mapR_none, mapR_some, wordEnd_none,
      orElseR_none_left, better_none_right]
    rw [better_some_ge _ _ _ _ (Nat.le_refl _)]; rfl
  · intro _ g rest hg hf
    obtain ⟨hreg, himm, hid, hmem, har⟩ := hcommon g rest hg hf
    obtain ⟨_, hprf, _⟩ := alias_no_keyword t ht g rest hg
    refine ⟨skipWs rest, ?_, skipWs_idem rest⟩
    simp only [operandFirst, hprf, hreg, himm, hid, hmem, arithOp, har, mapR_none, mapR_some, wordEnd_none,
      orElseR_none_left, better_none_right]
    rw [better_some_ge _ _ _ _ (Nat.le_refl _), better_some_ge _ _ _ _ (Nat.le_refl _)]
  · intro g rest hg _
    exact (alias_no_keyword t ht g rest hg).2.2
  · refine ⟨c, w, hcw, hws, ?_, ?_⟩ <;> (simp only [isAlphaC] at hal; simp at hal; omega)

theorem covered_alias (last fst : Bool) (t : Txt) (ht : t ∈ aliasTexts) : CoveredOp last fst (.reg (.alias t)) := by
  refine ⟨t, [], .reg (aliasTok t), rfl, ?_, ?_⟩
  · intro gs hgs
    have : gs = [] := hgs
    subst this
    have := (goodOp_alias t ht).any last
    cases fst with
    | true => simpa [joinInner] using this.toFirst
    | false => simpa [joinInner] using this.toRest
  · rcases alias_cases t ht with rfl | rfl | rfl | rfl | rfl | rfl | rfl | rfl <;>
      simp [processOperand, aliasTok, processRegister, expectOp, expectReg, aliasName, lower, lowerC,
        A64.spOperandName, A64.spOperandPrefix, A64.spOperandResult]

end OsacaVerif.ParseA64
