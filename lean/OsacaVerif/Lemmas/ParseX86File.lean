import OsacaVerif.Model.ParseX86
import OsacaVerif.Spec.X86Render
/-
  C09 — `parse_file`: line splitting and the numbering loop.
-/
namespace OsacaVerif.ParseX86
open OsacaVerif.Text OsacaVerif.X86 OsacaVerif.Spec.X86R

theorem splitLines_ne_nil (t : Txt) : splitLines t ≠ [] := by
  induction t with
  | nil => simp [splitLines]
  | cons c cs ih =>
    unfold splitLines
    split
    · simp
    · split <;> simp

theorem splitLines_cons_ne {c : Nat} (cs : Txt) (hc : c ≠ 10) :
    ∃ l ls, splitLines cs = l :: ls ∧ splitLines (c :: cs) = (c :: l) :: ls := by
  cases h : splitLines cs with
  | nil => exact absurd h (splitLines_ne_nil cs)
  | cons l ls => exact ⟨l, ls, rfl, by simp [splitLines, hc, h]⟩

theorem joinLines_cons (l : Txt) (ls : List Txt) (h : ls ≠ []) :
    joinLines (l :: ls) = l ++ 10 :: joinLines ls := by
  cases ls with
  | nil => exact absurd rfl h
  | cons a as => rfl

/-- `split("\n")`: the pieces contain no line feed and joining them gives the text back -/
theorem splitLines_spec (t : Txt) : IsSplit t (splitLines t) := by
  refine ⟨splitLines_ne_nil t, ?_, ?_⟩
  · induction t with
    | nil => intro l hl; simp [splitLines] at hl; subst hl; simp
    | cons c cs ih =>
      by_cases hc : c = 10
      · subst hc
        intro l hl
        simp [splitLines] at hl
        rcases hl with h | h
        · subst h; simp
        · exact ih l h
      · obtain ⟨l0, ls, h0, h1⟩ := splitLines_cons_ne cs hc
        rw [h1]; rw [h0] at ih
        intro l hl
        rcases List.mem_cons.mp hl with h | h
        · subst h
          intro hm
          rcases List.mem_cons.mp hm with h | h
          · exact hc h.symm
          · exact ih l0 (by simp) h
        · exact ih l (by simp [h])
  · induction t with
    | nil => rfl
    | cons c cs ih =>
      by_cases hc : c = 10
      · subst hc
        have : splitLines (10 :: cs) = [] :: splitLines cs := by simp [splitLines]
        rw [this, joinLines_cons _ _ (splitLines_ne_nil cs), ih]; rfl
      · obtain ⟨l0, ls, h0, h1⟩ := splitLines_cons_ne cs hc
        rw [h1]; rw [h0] at ih
        cases ls with
        | nil => simp only [joinLines] at ih ⊢; rw [ih]
        | cons a as => simp only [joinLines, List.cons_append] at ih ⊢; rw [ih]

/-- the split is unique: the declarative description determines the lines -/
theorem split_unique (t : Txt) (ls : List Txt) (h : IsSplit t ls) : ls = splitLines t := by
  induction t generalizing ls with
  | nil =>
    obtain ⟨hne, hno, hj⟩ := h
    cases ls with
    | nil => exact absurd rfl hne
    | cons l rest =>
      cases rest with
      | nil => simp only [joinLines] at hj; subst hj; rfl
      | cons a as => simp [joinLines] at hj
  | cons c cs ih =>
    obtain ⟨hne, hno, hj⟩ := h
    cases ls with
    | nil => exact absurd rfl hne
    | cons l rest =>
      cases l with
      | nil =>
        cases rest with
        | nil => simp [joinLines] at hj
        | cons a as =>
          simp only [joinLines, List.nil_append, List.cons.injEq] at hj
          obtain ⟨hc, hj⟩ := hj
          subst hc
          have := ih (a :: as) ⟨by simp, fun l hl => hno l (by simp [hl]), hj⟩
          simp [splitLines, ← this]
      | cons d l' =>
        have hd : d ≠ 10 := by intro e; exact hno (d :: l') (by simp) (by simp [e])
        have hj' : d = c ∧ joinLines (l' :: rest) = cs := by
          cases rest with
          | nil => simpa [joinLines] using hj
          | cons a as => simpa [joinLines] using hj
        obtain ⟨hdc, hj'⟩ := hj'
        subst hdc
        have := ih (l' :: rest) ⟨by simp, ?_, hj'⟩
        · obtain ⟨l0, ls0, h0, h1⟩ := splitLines_cons_ne cs hd
          rw [h1]; rw [h0] at this
          simp only [List.cons.injEq] at this
          rw [this.1, this.2]
        · intro l hl
          rcases List.mem_cons.mp hl with h | h
          · subst h; intro hm; exact hno (d :: l) (by simp) (by simp [hm])
          · exact hno l (by simp [h])

/-- **the numbering loop**: one element per non-blank line, in order, numbered `index + 1 + start`,
    text verbatim, parsed by the given line parser -/
theorem fileLoop_spec (p : Txt → Res) (s : Nat) (ls : List Txt) (i : Nat) :
    fileLoop p s i ls =
      ((ls.zipIdx i).filter (fun q => !isBlank q.1)).map (fun q => ⟨q.2 + 1 + s, q.1, p q.1⟩) := by
  induction ls generalizing i with
  | nil => rfl
  | cons l ls ih =>
    simp only [fileLoop, List.zipIdx_cons, List.filter_cons]
    cases h : isBlank l
    · simp [ih (i + 1)]
    · simp [ih (i + 1)]

theorem fileLoop_lineNo_ge (p : Txt → Res) (s : Nat) (ls : List Txt) (i : Nat) :
    ∀ x ∈ fileLoop p s i ls, i + 1 + s ≤ x.lineNo := by
  induction ls generalizing i with
  | nil => intro x hx; cases hx
  | cons l ls ih =>
    intro x hx
    simp only [fileLoop] at hx
    split at hx
    · have := ih (i + 1) x hx; omega
    · rcases List.mem_cons.mp hx with h | h
      · subst h; exact Nat.le_refl _
      · have := ih (i + 1) x h; omega

/-- line numbers are strictly increasing -/
theorem fileLoop_sorted (p : Txt → Res) (s : Nat) (ls : List Txt) (i : Nat) :
    (fileLoop p s i ls).Pairwise (fun a b => a.lineNo < b.lineNo) := by
  induction ls generalizing i with
  | nil => exact List.Pairwise.nil
  | cons l ls ih =>
    simp only [fileLoop]
    split
    · exact ih (i + 1)
    · refine List.Pairwise.cons ?_ (ih (i + 1))
      intro x hx
      have := fileLoop_lineNo_ge p s ls (i + 1) x hx
      show i + 1 + s < x.lineNo
      omega

end OsacaVerif.ParseX86
