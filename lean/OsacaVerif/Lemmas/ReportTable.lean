import OsacaVerif.Lemmas.Report
/-
  C13: the whole combined table is read back (`parseTableLines` / `parseTable` invert `tableLines` /
  `combinedView`).
-/
namespace OsacaVerif.Report
open OsacaVerif.Text OsacaVerif.Fmt OsacaVerif.Spec.Report
open OsacaVerif.Gen.Report

/-! ### first maximal entry -/

theorem foldl_max_mem (ds : List Dep) (d : Dep) :
    ds.foldl (fun best e => if best.lat < e.lat then e else best) d ∈ d :: ds := by
  induction ds generalizing d with
  | nil => simp
  | cons e es ih =>
    simp only [List.foldl_cons]
    have := ih (if d.lat < e.lat then e else d)
    simp only [List.mem_cons] at this ⊢
    rcases this with h | h
    · rw [h]; split <;> simp
    · exact Or.inr (Or.inr h)

theorem firstMax_mem (ds : List Dep) (d : Dep) (h : firstMax ds = some d) : d ∈ ds := by
  cases ds with
  | nil => simp [firstMax] at h
  | cons e es =>
    simp only [firstMax, Option.some.injEq] at h
    rw [← h]; exact foldl_max_mem es e

/-! ### well-formed analyses -/

/-- no newline -/
def NoNL (t : Txt) : Prop := 10 ∉ t

/-- what the harness guarantees of the values it reads off the implementation's objects -/
structure WF (a : Analysis) : Prop where
  ports_ne : a.ports ≠ []
  names : ∀ n ∈ a.ports, NameOk n ∧ NoNL n
  rows_ne : a.rows ≠ []
  rows : ∀ r ∈ a.rows, r.press.length = a.ports.length ∧ r.used.length = a.ports.length ∧ NoNL r.text
  cp : ∀ p ∈ a.cp, TokOk p.2 ∧ NoNL p.2
  deps : ∀ d ∈ a.deps, (∀ m ∈ d.members, TokOk m.2 ∧ NoNL m.2) ∧ WordOk d.latRepr ∧ NoNL d.latRepr
  cpSum : WordOk a.cpSum ∧ NoNL a.cpSum
  tpSum : a.tpSum = [] ∨ a.tpSum.length = a.ports.length

theorem lookupFirst_mem (n : Nat) (l : List (Nat × Txt)) (v : Txt) (h : lookupFirst n l = some v) :
    ∃ p ∈ l, p.2 = v := by
  induction l with
  | nil => simp [lookupFirst] at h
  | cons p r ih =>
    obtain ⟨k, w⟩ := p
    simp only [lookupFirst] at h
    split at h
    · cases h; exact ⟨(k, v), by simp, rfl⟩
    · obtain ⟨q, hq, hv⟩ := ih h; exact ⟨q, by simp [hq], hv⟩

theorem lookupLast_mem (n : Nat) (l : List (Nat × Txt)) (v : Txt) (h : lookupLast n l = some v) :
    ∃ p ∈ l, p.2 = v := by
  induction l with
  | nil => simp [lookupLast] at h
  | cons p r ih =>
    obtain ⟨k, w⟩ := p
    simp only [lookupLast] at h
    cases hr : lookupLast n r with
    | some w' =>
      rw [hr] at h; simp at h; subst h
      obtain ⟨q, hq, hv⟩ := ih hr; exact ⟨q, by simp [hq], hv⟩
    | none =>
      rw [hr] at h
      simp only [] at h
      split at h
      · cases h; exact ⟨(k, v), by simp, rfl⟩
      · cases h

theorem tokOk_nil : TokOk [] := by intro c h; cases h

theorem lcdMembers_ok (a : Analysis) (hwf : WF a) : ∀ m ∈ lcdMembers a, TokOk m.2 ∧ NoNL m.2 := by
  unfold lcdMembers
  cases h : firstMax a.deps with
  | none => simp
  | some d => exact (hwf.deps d (firstMax_mem _ _ h)).1

theorem rowOk_of_wf (a : Analysis) (hwf : WF a) (r : Row) (hr : r ∈ a.rows) :
    RowOk a (maxPortLen a.ports a.rows) r := by
  obtain ⟨h1, h2, _⟩ := hwf.rows r hr
  refine ⟨h1, h2, cellsOk_maxPortLen a.ports a.rows r hr h1, ?_, ?_⟩
  · cases h : lookupFirst r.line a.cp with
    | none => exact tokOk_nil
    | some v =>
      obtain ⟨p, hp, hv⟩ := lookupFirst_mem _ _ _ h
      simp only [Option.getD_some]; rw [← hv]; exact (hwf.cp p hp).1
  · cases h : lookupLast r.line (lcdMembers a) with
    | none => exact tokOk_nil
    | some v =>
      obtain ⟨p, hp, hv⟩ := lookupLast_mem _ _ _ h
      simp only [Option.getD_some]; rw [← hv]; exact (lcdMembers_ok a hwf p hp).1

/-! ### the port line -/

theorem portSegs_length_ge (names : List Txt) (plens seps : List Nat) (h1 : plens.length = names.length)
    (h2 : seps.length = names.length) : names.length ≤ (portSegs names plens seps).length := by
  induction names generalizing plens seps with
  | nil => simp
  | cons n ns ih =>
    cases plens with
    | nil => simp at h1
    | cons l ls =>
    cases seps with
    | nil => simp at h2
    | cons s ss =>
      have := ih ls ss (by simpa using h1) (by simpa using h2)
      simp only [portSegs, List.length_append, List.length_cons]
      omega

theorem skipSpaces_all_spaces (pre t : Txt) (h : ∀ c ∈ pre, c = 32) (ht : NoSpaceHead t) :
    skipSpaces (pre ++ t) = t := by
  induction pre with
  | nil => exact skipSpaces_of_noSpaceHead t ht
  | cons c cs ih =>
    have := h c (by simp); subst this
    rw [List.cons_append, skipSpaces]; exact ih (fun c hc => h c (by simp [hc]))

def portLineOf (a : Analysis) : Txt :=
  linenoFiller ++ portNumberLine a.ports (maxPortLen a.ports a.rows) colSep ++
    colSep :: center cpTitleWidth cpTitle ++ colSep :: center cpTitleWidth lcdTitle ++ [colSep]

theorem parsePortLine_render (a : Analysis) (hwf : WF a) :
    parsePortLine (portLineOf a) =
      some (colsOf a.ports (maxPortLen a.ports a.rows) (sepList colSep groupSep a.ports)) := by
  unfold portLineOf portNumberLine parsePortLine
  rw [colSep_eq, headerGroupSep_eq, groupSep_eq]
  simp only [List.append_assoc, List.cons_append]
  rw [skipSpaces_all_spaces _ _ linenoFiller_spaces (by intro c r h; cases h; decide)]
  simp only []
  rw [parseCols_render a.ports (maxPortLen a.ports a.rows) _ _ (maxPortLen_length _ _)
    (fun n hn => (hwf.names n hn).1) (maxPortLen_ge_min _ _)]
  · rfl
  · have := portSegs_length_ge a.ports (maxPortLen a.ports a.rows) (sepList 124 45 a.ports)
      (maxPortLen_length _ _) (sepList_length _ _ _ hwf.ports_ne)
    simp only [List.length_append, List.length_cons]
    omega

/-! ### the table lines -/

theorem mapM'_rows (a : Analysis) (hwf : WF a) (rows : List Row) (hsub : ∀ r ∈ rows, r ∈ a.rows) :
    mapM' (parseRow (colsOf a.ports (maxPortLen a.ports a.rows) (sepList colSep groupSep a.ports)))
      (rows.map (renderRow a (maxPortLen a.ports a.rows) (sepList colSep groupSep a.ports))) =
      some (rows.map (rowView a (maxPortLen a.ports a.rows))) := by
  induction rows with
  | nil => rfl
  | cons r rs ih =>
    simp only [List.map_cons, mapM']
    rw [parseRow_render a _ r hwf.ports_ne (maxPortLen_length _ _) (rowOk_of_wf a hwf r (hsub r (by simp))),
      ih (fun r' h' => hsub r' (by simp [h']))]

theorem renderRow_ne_nil (a : Analysis) (plens : List Nat) (r : Row) :
    renderRow a plens (sepList colSep groupSep a.ports) r ≠ [] := by
  rw [renderRow_eq]
  have := natDigits_ne_nil r.line
  intro h
  have := congrArg List.length h
  simp at this

theorem sumsOf_ne_nil (a : Analysis) (hwf : WF a) : sumsOf a ≠ [] := by
  unfold sumsOf
  split
  · cases h : a.rows with
    | nil => exact absurd h hwf.rows_ne
    | cons r rs =>
      have := (hwf.rows r (by rw [h]; simp)).1
      intro hnil
      simp only [List.headD_cons] at hnil
      rw [hnil] at this
      have hp := hwf.ports_ne
      cases hq : a.ports with
      | nil => exact hp hq
      | cons x y => rw [hq] at this; simp at this
  · rename_i h; intro h'; rw [h'] at h; simp at h

theorem lcdSumRepr_ok (a : Analysis) (hwf : WF a) : WordOk (lcdSumRepr a) ∧ NoNL (lcdSumRepr a) := by
  unfold lcdSumRepr
  cases h : firstMax a.deps with
  | none => exact ⟨⟨by decide, by decide⟩, by unfold NoNL; decide⟩
  | some d => exact (hwf.deps d (firstMax_mem _ _ h)).2

/-- first line of the missing-data warning -/
def missingFirst (n : Nat) : Txt := missingPre ++ natDigits n ++ missingMid.takeWhile (· != 10)

theorem missingMid_split :
    missingMid = missingMid.takeWhile (· != 10) ++ 10 :: (missingMid.dropWhile (· != 10)).tail := by decide +kernel

theorem splitOn_missingError (n : Nat) :
    ∃ rest, splitOn 10 (missingError n) = missingFirst n :: rest := by
  unfold missingError missingFirst
  refine ⟨splitOn 10 ((missingMid.dropWhile (· != 10)).tail ++ dashes (natDigits n).length ++ missingPost), ?_⟩
  conv => lhs; rw [missingMid_split]
  have e : missingPre ++ natDigits n ++ (missingMid.takeWhile (· != 10) ++ 10 :: (missingMid.dropWhile (· != 10)).tail) ++
      dashes (natDigits n).length ++ missingPost =
      (missingPre ++ natDigits n ++ missingMid.takeWhile (· != 10)) ++
        10 :: ((missingMid.dropWhile (· != 10)).tail ++ dashes (natDigits n).length ++ missingPost) := by
    simp only [List.append_assoc, List.cons_append]
  rw [e, splitOn_append_sep]
  intro h
  simp only [List.mem_append] at h
  rcases h with (h | h) | h
  · revert h; decide +kernel
  · have := natDigits_digits n 10 h; simp [isDigitC] at this
  · revert h; decide +kernel

theorem missingFirst_head (n : Nat) : (missingFirst n).head? = some 45 := by
  unfold missingFirst
  have : missingPre = 45 :: missingPre.tail := by decide +kernel
  rw [this]; rfl

theorem firstNat_missingFirst (n : Nat) : firstNat (missingFirst n) = some n := by
  unfold firstNat missingFirst
  have hpre : ∀ c ∈ missingPre, (!isDigitC c) = true := by decide +kernel
  have hdrop : ∀ (pre t : Txt), (∀ c ∈ pre, (!isDigitC c) = true) → (∀ c r, t = c :: r → isDigitC c = true) →
      (pre ++ t).dropWhile (fun c => !isDigitC c) = t := by
    intro pre t hp ht
    induction pre with
    | nil =>
      cases t with
      | nil => rfl
      | cons c r => simp [List.dropWhile, ht c r rfl]
    | cons c cs ih =>
      simp only [List.cons_append, List.dropWhile_cons, hp c (by simp), if_true]
      exact ih (fun c' h' => hp c' (by simp [h']))
  obtain ⟨c0, r0, hq, hc0⟩ := natDigits_head n
  rw [List.append_assoc, hdrop _ _ hpre (by intro c r h; rw [hq] at h; simp at h; rw [← h.1]; exact hc0)]
  rw [hq]; simp only [List.cons_append]; rw [← List.cons_append, ← hq]
  have hmid : NoDigitHead (missingMid.takeWhile (· != 10)) := by
    intro c r h
    have : (missingMid.takeWhile (· != 10)).head? = some 32 := by decide +kernel
    rw [h] at this; simp at this; subst this; decide
  rw [spanDigits_append _ _ (natDigits_digits n) hmid, natVal_natDigits]

theorem summaryRow_head (a : Analysis) (plens : List Nat) : (summaryRow a plens).head? ≠ some 45 := by
  unfold summaryRow
  have : linenoFiller = 32 :: linenoFiller.tail := by decide
  rw [this]; simp

/-- **the lines of the combined view are read back**: the table lines (after the title) followed by
    whatever the text after them splits into -/
theorem parseTableLines_render (a : Analysis) (hwf : WF a) (dash : Txt) :
    parseTableLines (dash :: (tableLines a ++ splitOn 10 (tailTxt a))) = some (view a) := by
  have hpl := parsePortLine_render a hwf
  unfold portLineOf at hpl
  simp only [List.cons_append, List.nil_append, List.append_assoc] at hpl
  unfold tableLines parseTableLines
  simp only [List.cons_append, List.nil_append, List.append_assoc]
  rw [hpl]
  simp only []
  rw [span_append_stop (fun (l : Txt) => !l.isEmpty) _ _
    (by
      intro l hl
      simp only [List.mem_map] at hl
      obtain ⟨r, _, rfl⟩ := hl
      have := renderRow_ne_nil a (maxPortLen a.ports a.rows) r
      cases h : renderRow a (maxPortLen a.ports a.rows) (sepList colSep groupSep a.ports) r with
      | nil => exact absurd h this
      | cons x y => rfl)
    (by intro c r h; simp at h; rw [h.1]; rfl)]
  simp only []
  rw [mapM'_rows a hwf a.rows (fun r h => h)]
  unfold view tailView tailTxt
  by_cases hst : showsTotals a = true
  · simp only [hst, if_true, List.cons_append, List.nil_append]
    have hh := summaryRow_head a (maxPortLen a.ports a.rows)
    simp only [hh, if_false]
    rw [parseSummary_render a _ (sumsOf_ne_nil a hwf) hwf.cpSum.1 (lcdSumRepr_ok a hwf).1]
    rfl
  · simp only [hst, Bool.false_eq_true, if_false, List.nil_append]
    obtain ⟨rest, hrest⟩ := splitOn_missingError (numMissing a.rows)
    rw [hrest]
    simp only [missingFirst_head, if_true, firstNat_missingFirst]
    rfl

/-! ### no line of the table contains a newline, so the text splits into exactly these lines -/

theorem renderShown_chars (s : Shown) : ∀ c ∈ renderShown s, c = 45 ∨ c = 46 ∨ isDigitC c = true := by
  obtain ⟨neg, mant, decs⟩ := s
  unfold renderShown
  intro c h
  simp only [List.mem_append] at h
  rcases h with (h | h) | h
  · cases neg <;> simp at h; exact Or.inl h
  · exact Or.inr (Or.inr (natDigits_digits _ c h))
  · by_cases hd : decs = 0
    · simp [hd] at h
    · simp only [hd, if_false, List.mem_cons] at h
      rcases h with h | h
      · exact Or.inr (Or.inl h)
      · exact Or.inr (Or.inr (fracDigits_digits _ _ c h))

theorem noNL_renderShown (s : Shown) : NoNL (renderShown s) := by
  intro h
  rcases renderShown_chars s 10 h with h | h | h <;> simp [isDigitC] at h

theorem noNL_natDigits (n : Nat) : NoNL (natDigits n) := by
  intro h; have := natDigits_digits n 10 h; simp [isDigitC] at this

theorem noNL_spaces (k : Nat) : NoNL (spaces k) := by simp [NoNL, spaces]
theorem noNL_dashes (k : Nat) : NoNL (dashes k) := by simp [NoNL, dashes]
theorem noNL_nil : NoNL [] := by simp [NoNL]

theorem noNL_append {a b : Txt} (ha : NoNL a) (hb : NoNL b) : NoNL (a ++ b) := by
  simp only [NoNL, List.mem_append, not_or]; exact ⟨ha, hb⟩

theorem noNL_cons {c : Nat} {t : Txt} (hc : c ≠ 10) (ht : NoNL t) : NoNL (c :: t) := by
  simp only [NoNL, List.mem_cons, not_or]; exact ⟨fun h => hc h.symm, ht⟩

theorem noNL_padLeft (w : Nat) {t : Txt} (ht : NoNL t) : NoNL (padLeft w t) :=
  noNL_append (noNL_spaces _) ht

theorem noNL_center (w : Nat) {t : Txt} (ht : NoNL t) : NoNL (center w t) := by
  rw [center_eq]; exact noNL_append (noNL_append (noNL_spaces _) ht) (noNL_spaces _)

theorem sepList_mem (s s2 : Nat) (names : List Txt) : ∀ c ∈ sepList s s2 names, c = s ∨ c = s2 := by
  induction names with
  | nil => simp [sepList]
  | cons a r ih =>
    cases r with
    | nil => simp [sepList]
    | cons b r =>
      intro c hc
      simp only [sepList, List.mem_cons] at hc
      rcases hc with hc | hc
      · split at hc <;> simp [hc]
      · exact ih c hc

theorem noNL_cellBody (x : Rat) (u : Bool) (l s : Nat) (hs : s ≠ 10) : NoNL (cellBody x u l s) := by
  unfold cellBody
  split
  · exact noNL_append (noNL_spaces _) (noNL_cons (by decide) (noNL_cons hs noNL_nil))
  · simp only []
    split
    · exact noNL_append (noNL_renderShown _) (noNL_cons hs noNL_nil)
    · exact noNL_append (noNL_padLeft _ (noNL_renderShown _)) (noNL_cons (by decide) (noNL_cons hs noNL_nil))

theorem noNL_cellBodies (xs : List Rat) (us : List Bool) (ls ss : List Nat) (hs : ∀ s ∈ ss, s ≠ 10) :
    NoNL ((cellBodies xs us ls ss).flatMap (fun b => 32 :: b)) := by
  induction xs generalizing us ls ss with
  | nil => simp [cellBodies, NoNL]
  | cons x xs ih =>
    cases us with
    | nil => simp [cellBodies, NoNL]
    | cons u us =>
    cases ls with
    | nil => simp [cellBodies, NoNL]
    | cons l ls =>
    cases ss with
    | nil => simp [cellBodies, NoNL]
    | cons s ss =>
      simp only [cellBodies, List.flatMap_cons]
      exact noNL_append (noNL_cons (by decide) (noNL_cellBody x u l s (hs s (by simp))))
        (ih us ls ss (fun s' h' => hs s' (by simp [h'])))

theorem lstrip_sub (t : Txt) : ∀ c ∈ lstrip t, c ∈ t := by
  induction t with
  | nil => simp [lstrip]
  | cons d r ih =>
    intro c hc
    simp only [lstrip] at hc
    split at hc
    · exact List.mem_cons_of_mem _ (ih c hc)
    · exact hc

theorem rstrip_sub (t : Txt) : ∀ c ∈ rstrip t, c ∈ t := by
  induction t with
  | nil => simp [rstrip]
  | cons d r ih =>
    intro c hc
    simp only [rstrip] at hc
    cases h : rstrip r with
    | nil =>
      rw [h] at hc
      simp only [] at hc
      split at hc
      · simp at hc
      · simp at hc; simp [hc]
    | cons x y =>
      rw [h] at hc
      simp only [List.mem_cons] at hc
      rcases hc with hc | hc
      · simp [hc]
      · exact List.mem_cons_of_mem _ (ih c (by rw [h]; simp only [List.mem_cons]; exact hc))

theorem noNL_cleanLine {t : Txt} (ht : NoNL t) : NoNL (cleanLine t) := by
  unfold cleanLine untab strip NoNL
  intro h
  simp only [List.mem_map] at h
  obtain ⟨c, hc, he⟩ := h
  have hc' := lstrip_sub t c (rstrip_sub _ c hc)
  split at he
  · omega
  · subst he; exact ht hc'

theorem noNL_flagSymbolsOf (flags : List Txt) : NoNL (flagSymbolsOf flags) := by
  unfold flagSymbolsOf
  simp only []
  split
  · unfold NoNL; decide
  · intro h
    simp only [List.mem_filterMap] at h
    obtain ⟨p, hp, hpc⟩ := h
    have : ∀ p ∈ flagSymbols, p.1 ≠ 10 := by decide
    have := this p hp
    split at hpc
    · injection hpc with e; exact this e
    · cases hpc

theorem noNL_getD (o : Option Txt) (h : ∀ v, o = some v → NoNL v) : NoNL (o.getD []) := by
  cases o with
  | none => exact noNL_nil
  | some v => exact h v rfl

theorem noNL_renderRow (a : Analysis) (hwf : WF a) (r : Row) (hr : r ∈ a.rows) :
    NoNL (renderRow a (maxPortLen a.ports a.rows) (sepList colSep groupSep a.ports) r) := by
  rw [renderRow_eq]
  have hseps : ∀ s ∈ sepList colSep groupSep a.ports, s ≠ 10 := by
    intro s hs
    rcases sepList_mem _ _ _ s hs with h | h <;> rw [h] <;> decide
  have hcp : NoNL ((lookupFirst r.line a.cp).getD []) := noNL_getD _ (by
    intro v hv
    obtain ⟨p, hp, he⟩ := lookupFirst_mem _ _ _ hv
    rw [← he]; exact (hwf.cp p hp).2)
  have hlcd : NoNL ((lookupLast r.line (lcdMembers a)).getD []) := noNL_getD _ (by
    intro v hv
    obtain ⟨p, hp, he⟩ := lookupLast_mem _ _ _ hv
    rw [← he]; exact (lcdMembers_ok a hwf p hp).2)
  have htext := noNL_cleanLine (hwf.rows r hr).2.2
  have hflags : NoNL (if r.hasMnemonic = true then flagSymbolsOf r.flags else [32]) := by
    split
    · exact noNL_flagSymbolsOf _
    · unfold NoNL; decide
  refine noNL_append (noNL_spaces _) (noNL_append (noNL_natDigits _) (noNL_cons (by decide) (noNL_cons (by decide)
    (noNL_append (noNL_cellBodies _ _ _ _ hseps) (noNL_cons (by decide) ?_)))))
  refine noNL_append (noNL_cons (by decide) (noNL_padLeft _ hcp)) (noNL_cons (by decide) (noNL_cons (by decide) ?_))
  refine noNL_append (noNL_cons (by decide) (noNL_padLeft _ hlcd)) (noNL_cons (by decide) (noNL_cons (by decide) ?_))
  exact noNL_append (noNL_cons (by decide) hflags) (noNL_cons (by decide) htext)

theorem noNL_portSegs (names : List Txt) (plens seps : List Nat) (hn : ∀ n ∈ names, NoNL n)
    (hs : ∀ s ∈ seps, s ≠ 10) : NoNL (portSegs names plens seps) := by
  induction names generalizing plens seps with
  | nil => simp [portSegs, NoNL]
  | cons n ns ih =>
    cases plens with
    | nil => simp [portSegs, NoNL]
    | cons l ls =>
    cases seps with
    | nil => simp [portSegs, NoNL]
    | cons s ss =>
      simp only [portSegs]
      exact noNL_append (noNL_center _ (hn n (by simp))) (noNL_cons (hs s (by simp))
        (ih ls ss (fun n' h' => hn n' (by simp [h'])) (fun s' h' => hs s' (by simp [h']))))

theorem noNL_summaryRow (a : Analysis) (hwf : WF a) (plens : List Nat) : NoNL (summaryRow a plens) := by
  unfold summaryRow
  simp only []
  rw [portPressure_eq]
  have h1 : NoNL linenoFiller := by unfold NoNL; decide
  have hs : ∀ s ∈ (sumsOf a).map (fun _ => (32 : Nat)), s ≠ 10 := by
    intro s hs; simp only [List.mem_map] at hs; obtain ⟨_, _, rfl⟩ := hs; decide
  have hl : ((sumsOf a).map fun _ => (32 : Nat)).getLastD 124 ≠ 10 := by
    rw [getLastD_map_const _ (sumsOf_ne_nil a hwf)]; decide
  refine noNL_append (noNL_append (noNL_append (noNL_append h1 (noNL_cons hl (noNL_cellBodies _ _ _ _ hs))) ?_) ?_) ?_
  · exact noNL_cons (by decide) (noNL_padLeft _ hwf.cpSum.2)
  · exact noNL_cons (by decide) (noNL_cons (by decide) (noNL_padLeft _ (lcdSumRepr_ok a hwf).2))
  · unfold NoNL; decide

theorem noNL_tableLines (a : Analysis) (hwf : WF a) : ∀ l ∈ tableLines a, NoNL l := by
  intro l hl
  unfold tableLines at hl
  simp only [List.mem_append] at hl
  have hhead : NoNL headline := by unfold NoNL; decide
  rcases hl with ((hl | hl) | hl) | hl
  · simp only [List.mem_cons, List.not_mem_nil, or_false] at hl
    rcases hl with hl | hl | hl
    · rw [hl]; exact noNL_center _ hhead
    · rw [hl]
      unfold portNumberLine
      have h1 : NoNL linenoFiller := by unfold NoNL; decide
      have h2 : NoNL cpTitle := by unfold NoNL; decide
      have h3 : NoNL lcdTitle := by unfold NoNL; decide
      have hc : colSep ≠ 10 := by decide
      have hseps : ∀ s ∈ sepList colSep headerGroupSep a.ports, s ≠ 10 := by
        intro s hs
        rcases sepList_mem _ _ _ s hs with h | h <;> rw [h] <;> decide
      exact noNL_append (noNL_append (noNL_append (noNL_append h1 (noNL_cons hc (noNL_portSegs _ _ _
        (fun n hn => (hwf.names n hn).2) hseps))) (noNL_cons hc (noNL_center _ h2)))
        (noNL_cons hc (noNL_center _ h3))) (noNL_cons hc noNL_nil)
    · rw [hl]; exact noNL_dashes _
  · simp only [List.mem_map] at hl
    obtain ⟨r, hr, rfl⟩ := hl
    exact noNL_renderRow a hwf r hr
  · simp only [List.mem_cons, List.not_mem_nil, or_false] at hl
    rw [hl]; exact noNL_nil
  · split at hl
    · simp only [List.mem_cons, List.not_mem_nil, or_false] at hl
      rw [hl]; exact noNL_summaryRow a hwf _
    · cases hl

theorem combinedTitle_lines :
    combinedTitle = [[], [], titleCombined, dashes titleCombined.length].flatMap (fun l => l ++ [10]) := by
  decide +kernel

/-- **the text of `combined_view` is read back** -/
theorem parseTable_render (a : Analysis) (hwf : WF a) : parseTable (combinedView a) = some (view a) := by
  unfold parseTable combinedView unlines
  rw [combinedTitle_lines, List.append_assoc,
    splitOn_unlines _ _ (by
      intro l hl
      simp only [List.mem_cons, List.not_mem_nil, or_false] at hl
      rcases hl with hl | hl | hl | hl
      · rw [hl]; exact noNL_nil
      · rw [hl]; exact noNL_nil
      · rw [hl]; unfold titleCombined; decide
      · rw [hl]; exact noNL_dashes _),
    splitOn_unlines _ _ (noNL_tableLines a hwf)]
  have : afterTitle titleCombined ([[], [], titleCombined, dashes titleCombined.length] ++ (tableLines a ++
      splitOn 10 (tailTxt a))) = some (dashes titleCombined.length :: (tableLines a ++ splitOn 10 (tailTxt a))) := by
    simp [afterTitle, titleCombined]
  rw [this]
  exact parseTableLines_render a hwf _

end OsacaVerif.Report
