import OsacaVerif.Lemmas.A64Render
/-
  Operand kinds for which the round trip is closed (`CoveredOp`).
-/
namespace OsacaVerif.ParseA64
open OsacaVerif.Text OsacaVerif.Spec.A64 OsacaVerif.Gen

theorem shiftOps_sndAlpha : A64.shiftOps.all sndAlpha = true := by decide

theorem shiftOp_none_snd_digit (g : Txt) (c d : Nat) (t : Txt) (hg : Blank g) (hc : isWs c = false)
    (hd : isDigitC d = true) : shiftOp (g ++ c :: d :: t) = none :=
  shiftOp_none_of_clitOr _ (clitOr_none _ _ _ (fun l hl =>
    clit_none_snd_digit g c d t l hg hc hd (List.all_eq_true.mp shiftOps_sndAlpha l hl)))

/-! ### scalar registers `x5`, `W12`, `q31`, … -/
theorem goodOp_scalar (p n : Nat) (hp : isScalarPrefixC p = true) :
    GoodOp false true (p :: showNat n) (.reg { pre := some [p], name := some (showNat n) }) := by
  have hal := scalarPrefix_alpha p hp
  have hws := alpha_not_ws p hal
  refine ⟨?_, ?_, ?_, ?_⟩
  · intro g rest hg hf
    exact ⟨skipWs rest, by simpa using operandRest_scalar g p n rest hg hp hf, skipWs_idem rest⟩
  · intro _ g rest hg hf
    exact ⟨skipWs rest, by simpa using operandFirst_scalar g p n rest hg hp hf, skipWs_idem rest⟩
  · intro g rest hg _
    obtain ⟨d, ds, hd, hdd⟩ := showNat_cons n
    simp only [List.cons_append, hd]
    exact shiftOp_none_snd_digit g p d _ hg hws hdd
  · refine ⟨p, showNat n, rfl, hws, ?_, ?_⟩ <;> (simp only [isAlphaC] at hal; simp at hal; omega)

theorem lower_showNat (n : Nat) : lower (showNat n) = showNat n := by
  have : ∀ t : Txt, (∀ c ∈ t, isDigitC c = true) → lower t = t := by
    intro t ht
    induction t with
    | nil => rfl
    | cons c t ih =>
      have hb := digit_bounds c (ht c (by simp))
      have : lowerC c = c := by simp only [lowerC]; split <;> omega
      simp only [lower, List.map_cons, this] at ih ⊢
      rw [ih (fun d hd => ht d (by simp [hd]))]
  exact this _ (showNat_digits n)

theorem showNat_ne_sp (n : Nat) : (lower (showNat n) == A64.spOperandName) = false := by
  rw [lower_showNat]
  obtain ⟨d, ds, hd, hdd⟩ := showNat_cons n
  have hb := digit_bounds d hdd
  rw [hd]
  show (d :: ds == [115, 112]) = false
  have : d ≠ 115 := by omega
  simp [this]

theorem covered_scalar (last fst : Bool) (p n : Nat) (hp : isScalarPrefixC p = true) :
    CoveredOp last fst (.reg (.scalar p n)) := by
  refine ⟨p :: showNat n, [], .reg { pre := some [p], name := some (showNat n) }, rfl, ?_, ?_⟩
  · intro gs hgs
    have : gs = [] := hgs
    subst this
    have := ((goodOp_scalar p n hp).any last)
    cases fst with
    | true => simpa [joinInner] using this.toFirst
    | false => simpa [joinInner] using this.toRest
  · have hsp := showNat_ne_sp n
    simp only [processOperand, hsp, processRegister, expectOp, expectReg]
    simp [lower, lowerTxt1]

/-! ### integer immediates `#5`, `-16`, `#0x1F`, `#-0xab`, … -/
theorem intText_head (i : IntA) : ∃ c t, intText i = c :: t ∧ isWs c = false ∧ isAlphaC c = false ∧ c ≠ 58 ∧ c ≠ 43 := by
  obtain ⟨d, ds, hD, hd⟩ := intDigits_head i
  have hb := digit_bounds d hd
  have := intText_eq i []
  simp only [List.append_nil] at this
  rw [this]
  cases hh : i.hash with
  | true => exact ⟨35, optNeg i.neg ++ intDigits i, by simp [optHash], by decide, by decide, by decide, by decide⟩
  | false =>
    cases hn : i.neg with
    | true => exact ⟨45, intDigits i, by simp [optHash, optNeg], by decide, by decide, by decide, by decide⟩
    | false =>
      refine ⟨d, ds, by simp [optHash, optNeg, hD], digit_not_ws d hd, ?_, by omega, by omega⟩
      simp only [isAlphaC]; simp; omega

theorem goodOp_int (i : IntA) : GoodOp false true (intText i) (.imm (.num (optNeg i.neg ++ intDigits i))) := by
  refine ⟨?_, ?_, ?_, ?_⟩
  · intro g rest hg hf
    exact ⟨rest, operandRest_int g i rest hg hf, rfl⟩
  · intro _ g rest hg hf
    exact ⟨rest, operandFirst_int g i rest hg hf, rfl⟩
  · intro g rest hg _
    obtain ⟨c, t, hct, hws, ha, _, _⟩ := intText_head i
    rw [hct, List.cons_append]
    exact shiftOp_none_nonalpha g c _ hg hws ha
  · obtain ⟨c, t, hct, hws, _, h58, h43⟩ := intText_head i
    exact ⟨c, t, hct, hws, h58, h43⟩

theorem processImmediate_int (i : IntA) :
    processImmediate (.num (optNeg i.neg ++ intDigits i)) = .ok (.imm (.int (intVal i))) := by
  simp only [processImmediate, intDigits, intVal]
  cases i.neg <;> cases i.hex <;>
    simp [optNeg, pyInt0_showNat, pyInt0_neg_showNat, pyInt0_showHex, pyInt0_neg_showHex]

theorem covered_int (last fst : Bool) (i : IntA) : CoveredOp last fst (.int i) := by
  refine ⟨intText i, [], .imm (.num (optNeg i.neg ++ intDigits i)), rfl, ?_, ?_⟩
  · intro gs hgs
    have : gs = [] := hgs
    subst this
    have := ((goodOp_int i).any last)
    cases fst with
    | true => simpa [joinInner] using this.toFirst
    | false => simpa [joinInner] using this.toRest
  · simp [processOperand, processImmediate_int, expectOp]

end OsacaVerif.ParseA64
