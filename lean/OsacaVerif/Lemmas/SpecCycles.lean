import OsacaVerif.Spec.Deps
import OsacaVerif.Lemmas.LcdChar
/-
  Helper development for C05: what the executable oracle `Spec.cycles` enumerates.

  Abstractly: `D` is a dependency relation between stream positions, `L` maps the positions `< n` of
  the body to line numbers (strictly increasing), `intra` / `cross` are explicit weighted edge lists
  over line numbers that represent `D` inside one iteration (`D x y`, `x < y < n`) and from one
  iteration into the next (`D x (y + n)`, `x, y < n`) — `EdgeSpec`.  Then `Spec.cycles` returns exactly
  the winding-1 cycles of `D` in normal form (all positions inside the body): `cycles_iff`.
-/
namespace OsacaVerif.LCD
open OsacaVerif OsacaVerif.DG OsacaVerif.Spec

/-- the explicit edge lists `intra`, `cross` (over line numbers `L x`) represent the relation `D` -/
structure EdgeSpec (D : Nat → Nat → Option Rat) (n : Nat) (L : Nat → Nat) (intra cross : List WEdge) : Prop where
  inj : ∀ x y, x < n → y < n → L x = L y → x = y
  mono : ∀ x y, x < y → y < n → L x < L y
  intra_pos : ∀ e ∈ intra, ∃ x y, x < y ∧ y < n ∧ L x = e.src ∧ L y = e.dst ∧ D x y = some e.w
  intra_mem : ∀ x y w, x < y → y < n → D x y = some w → (⟨L x, L y, w⟩ : WEdge) ∈ intra
  cross_pos : ∀ e ∈ cross, ∃ x y, x < n ∧ y < n ∧ L x = e.src ∧ L y = e.dst ∧ D x (y + n) = some e.w
  cross_mem : ∀ x y w, x < n → y < n → D x (y + n) = some w → (⟨L x, L y, w⟩ : WEdge) ∈ cross

theorem Cycle.ext' {a b : Cycle} (h1 : a.lines = b.lines) (h2 : a.latency = b.latency) : a = b := by
  cases a; cases b; simp_all

/-- **what `cyclesFrom` enumerates**: started at position `s` with target `f`, it returns exactly the
    chains `s = b₀ < b₁ < … < bₘ` of `D` inside the body (at most `fuel` members) that close with
    `D bₘ (f + n)`; the lines are appended to `members`, the weights added to `acc`. -/
theorem cyclesFrom_iff {D : Nat → Nat → Option Rat} {n : Nat} {L : Nat → Nat} {intra cross : List WEdge}
    (h : EdgeSpec D n L intra cross) (f : Nat) (hf : f < n) (fuel s : Nat) (hs : s < n)
    (members : List Nat) (acc : Rat) (c : Cycle) :
    c ∈ cyclesFrom intra cross (L f) fuel (L s) members acc ↔
      ∃ w rest, rest.length + 1 ≤ fuel ∧ (∀ y ∈ rest, y.1 < n) ∧ Chain D (f + n) ((s, w) :: rest) ∧
        c.lines = members.reverse ++ rest.map (fun y => L y.1) ∧
        c.latency = acc + (w + (rest.map (·.2)).sum) := by
  induction fuel generalizing s members acc with
  | zero =>
    simp only [cyclesFrom, List.not_mem_nil, false_iff]
    rintro ⟨w, rest, hl, _⟩
    omega
  | succ fuel ih =>
    simp only [cyclesFrom, List.mem_append, List.mem_filterMap, List.mem_flatMap]
    constructor
    · rintro (⟨e, he, hc⟩ | ⟨e, he, hc⟩)
      · -- closing cross edge
        by_cases hcond : (e.src == L s && e.dst == L f) = true
        · rw [if_pos hcond] at hc
          simp only [Bool.and_eq_true, beq_iff_eq] at hcond
          obtain ⟨x, y, hx, hy, hlx, hly, hd⟩ := h.cross_pos e he
          have ex : x = s := h.inj x s hx hs (hlx.trans hcond.1)
          have ey : y = f := h.inj y f hy hf (hly.trans hcond.2)
          subst ex ey
          have hc' : c = { lines := members.reverse, latency := acc + e.w } := by
            simpa using hc.symm
          refine ⟨e.w, [], by simp, by simp, ⟨by show x < y + n; omega, hd, trivial⟩, ?_, ?_⟩
          · rw [hc']; simp
          · rw [hc']; simp [Rat.add_zero]
        · rw [if_neg hcond] at hc; cases hc
      · -- an intra edge to a larger line, then recursion
        by_cases hcond : (e.src == L s && decide (e.dst > L s)) = true
        · rw [if_pos hcond] at hc
          simp only [Bool.and_eq_true, beq_iff_eq, decide_eq_true_eq] at hcond
          obtain ⟨x, y, hxy, hy, hlx, hly, hd⟩ := h.intra_pos e he
          have ex : x = s := h.inj x s (by omega) hs (hlx.trans hcond.1)
          subst ex
          rw [← hly] at hc
          obtain ⟨w', rest', hl, hb, hch, hlines, hlat⟩ := (ih y hy _ _).mp hc
          refine ⟨e.w, (y, w') :: rest', by simp; omega, ?_, ⟨hxy, hd, hch⟩, ?_, ?_⟩
          · intro z hz
            rcases List.mem_cons.mp hz with rfl | hz
            · exact hy
            · exact hb z hz
          · rw [hlines]; simp
          · rw [hlat]; simp only [List.map_cons, List.sum_cons]
            rw [Rat.add_assoc]
        · rw [if_neg hcond] at hc; cases hc
    · rintro ⟨w, rest, hl, hb, hch, hlines, hlat⟩
      cases rest with
      | nil =>
        left
        have hd : D s (f + n) = some w := hch.2.1
        refine ⟨⟨L s, L f, w⟩, h.cross_mem s f w hs hf hd, ?_⟩
        simp only [beq_self_eq_true, Bool.and_self, if_true, Option.some.injEq]
        apply Cycle.ext'
        · rw [hlines]; simp
        · rw [hlat]; simp [Rat.add_zero]
      | cons y rest' =>
        right
        have hy : y.1 < n := hb y List.mem_cons_self
        have hsy : s < y.1 := hch.1
        have hd : D s y.1 = some w := hch.2.1
        refine ⟨⟨L s, L y.1, w⟩, h.intra_mem s y.1 w hsy hy hd, ?_⟩
        have hlt := h.mono s y.1 hsy hy
        have hcond : (L s == L s && decide (L y.1 > L s)) = true := by simp [hlt]
        rw [if_pos hcond]
        apply (ih y.1 hy _ _).mpr
        refine ⟨y.2, rest', by simp at hl; omega, fun z hz => hb z (List.mem_cons_of_mem _ hz), hch.2.2, ?_, ?_⟩
        · rw [hlines]; simp
        · rw [hlat]; simp only [List.map_cons, List.sum_cons]
          rw [Rat.add_assoc]

theorem length_le_of_increasing (n : Nat) (l : List Nat) (h : l.Pairwise (· < ·)) (hb : ∀ x ∈ l, x < n) :
    l.length ≤ n := by
  have hn : l.Nodup := h.imp (fun h => Nat.ne_of_lt h)
  have hsub : l ⊆ List.range n := fun x hx => List.mem_range.mpr (hb x hx)
  have := hn.length_le_of_subset hsub
  simpa using this

/-- **`Spec.cycles` enumerates exactly the normal-form winding-1 cycles** of the relation its edge
    lists represent: positions `b₀ < … < bₘ` inside the body, each depending on the previous one, and
    `b₀`'s next occurrence depending on `bₘ`; lines = the lines at these positions, latency = the sum
    of the edge weights. -/
theorem cycles_iff {D : Nat → Nat → Option Rat} {n : Nat} {L : Nat → Nat} {intra cross : List WEdge}
    (h : EdgeSpec D n L intra cross) (c : Cycle) :
    c ∈ Spec.cycles ((List.range n).map L) intra cross ↔
      ∃ b, IsStreamCycle D n b ∧ (∀ y ∈ b, y.1 < n) ∧ c.lines = b.map (fun y => L y.1) ∧
        c.latency = (b.map (·.2)).sum := by
  simp only [Spec.cycles, List.mem_flatMap, List.mem_map, List.mem_range, List.length_map, List.length_range]
  constructor
  · rintro ⟨l, ⟨s, hs, rfl⟩, hc⟩
    obtain ⟨w, rest, _, hb, hch, hlines, hlat⟩ := (cyclesFrom_iff h s hs (n + 1) s hs _ _ c).mp hc
    refine ⟨(s, w) :: rest, hch, ?_, ?_, ?_⟩
    · intro y hy
      rcases List.mem_cons.mp hy with rfl | hy
      · exact hs
      · exact hb y hy
    · rw [hlines]; simp
    · rw [hlat]; simp [Rat.zero_add]
  · rintro ⟨b, hcyc, hb, hlines, hlat⟩
    cases b with
    | nil => exact absurd hcyc (fun h => h)
    | cons x rest =>
      obtain ⟨s, w⟩ := x
      have hs : s < n := hb (s, w) List.mem_cons_self
      refine ⟨L s, ⟨s, hs, rfl⟩, ?_⟩
      apply (cyclesFrom_iff h s hs (n + 1) s hs _ _ c).mpr
      have hch : Chain D (s + n) ((s, w) :: rest) := hcyc
      refine ⟨w, rest, ?_, fun y hy => hb y (List.mem_cons_of_mem _ hy), hch, ?_, ?_⟩
      · have hinc := chain_increasing D (s + n) ((s, w) :: rest) hch
        have hv : (verts ((s, w) :: rest)).Pairwise (· < ·) := (List.pairwise_append.mp hinc).1
        have := length_le_of_increasing n _ hv (by
          intro v hv
          obtain ⟨y, hy, rfl⟩ := List.mem_map.mp hv
          exact hb y hy)
        have : rest.length + 1 ≤ n := by simpa [verts] using this
        omega
      · rw [hlines]; simp
      · rw [hlat]; simp [Rat.zero_add]

end OsacaVerif.LCD
