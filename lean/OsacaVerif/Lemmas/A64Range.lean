import OsacaVerif.Lemmas.A64ListOp
/-
  Expansion of register ranges (`resolve_range_list`) for all bounds.
-/
namespace OsacaVerif.ParseA64
open OsacaVerif.Text OsacaVerif.Spec.A64 OsacaVerif.Gen

theorem mapE_ok {α β : Type} (f : α → Except Err β) (g : α → β) (l : List α) (h : ∀ x ∈ l, f x = .ok (g x)) :
    mapE f l = .ok (l.map g) := by
  induction l with
  | nil => rfl
  | cons x l ih =>
    simp [mapE, h x (by simp), ih (fun y hy => h y (by simp [hy]))]

theorem rangeNames_eq (a k : Nat) : rangeNames a k = (List.range k).map (a + ·) := by
  induction k generalizing a with
  | zero => rfl
  | succ k ih =>
    rw [rangeNames, ih (a + 1), List.range_succ_eq_map]
    simp [List.map_map, Function.comp_def]; intro x _; omega

/-- member `n` of a range: a copy of the first register with the name replaced -/
def rangeMember (ix : Option Txt) (first : Elem) (p : Txt) (n : Nat) : Reg :=
  { pre := lower p, name := showNat n, shape := first.shape.map lower, lanes := first.lanes,
    index := (match ix with | some i => some i | none => first.index), pred := none }

/-- **range_expand** (∀ A ≤ B, ∀ first register, ∀ list index): `{rA - rB}` expands to exactly the
    registers `A, A+1, …, B` (B − A + 1 of them), each a copy of the first with its number replaced -/
theorem range_expand_any (ix : Option Txt) (first : Elem) (p : Txt) (hp : first.pre = some p) (a b : Nat) :
    expandRange ix first a b = .ok ((List.range (b + 1 - a)).map (fun i => rangeMember ix first p (a + i))) := by
  have hinc : A64.rangeInclusive = 1 := by decide
  unfold expandRange
  rw [hinc, rangeNames_eq, mapE_ok _ (rangeMember ix first p)]
  · simp [List.map_map, Function.comp_def]
  · intro n _
    cases ix <;> simp [processElem, processRegister, RegTok.ofElem, hp, rangeMember]

end OsacaVerif.ParseA64
