import OsacaVerif.Lemmas.StreamCycles
/-
  Helper development for C05 / C14: from line numbers to positions.  In the graph of a well-formed
  kernel `K`, the successor relation between the instructions at positions `x < y` is `depW` of the
  segment between them (`edge_pos`); every successor pair has such positions (`edge_has_pos`); in
  the doubled kernel it is the stream relation `streamDep k x y` (`succs_double_iff`).  Walks in the
  doubled graph and chains of stream positions correspond (`walk_to_chain`, `chain_to_walk`).
-/
namespace OsacaVerif.LCD
open OsacaVerif OsacaVerif.DG

/-- line number of the instruction at position `t` (0 beyond the end) -/
def lineAt (K : List Ins) (t : Nat) : Nat := ((K[t]?).map (·.line)).getD 0

theorem lineAt_lt (K : List Ins) (t : Nat) (h : t < K.length) : lineAt K t = K[t].line := by
  simp [lineAt, h]

theorem decomp2 {α : Type} (K : List α) (x y : Nat) (hxy : x < y) (hy : y < K.length) :
    K = K.take x ++ K[x] :: ((K.drop (x + 1)).take (y - x - 1) ++ K[y] :: K.drop (y + 1)) := by
  have h1 : K.drop x = K[x] :: K.drop (x + 1) := List.drop_eq_getElem_cons (by omega)
  have h2 : (K.drop (x + 1)).drop (y - x - 1) = K[y] :: K.drop (y + 1) := by
    rw [List.drop_drop]
    have e : x + 1 + (y - x - 1) = y := by omega
    rw [e]
    exact List.drop_eq_getElem_cons hy
  conv => lhs; rw [← List.take_append_drop x K, h1, ← List.take_append_drop (y - x - 1) (K.drop (x + 1)), h2]

theorem wf_lineAt_lt (K : List Ins) (hwf : WFKernel K) (x y : Nat) (hxy : x < y) (hy : y < K.length) :
    lineAt K x < lineAt K y := by
  rw [lineAt_lt K x (by omega), lineAt_lt K y hy]
  unfold WFKernel at hwf
  rw [List.pairwise_map, List.pairwise_iff_getElem] at hwf
  exact hwf x y (by omega) hy hxy

theorem wf_lineAt_inj (K : List Ins) (hwf : WFKernel K) (x y : Nat) (hx : x < K.length) (hy : y < K.length)
    (h : lineAt K x = lineAt K y) : x = y := by
  rcases Nat.lt_trichotomy x y with hlt | heq | hgt
  · have := wf_lineAt_lt K hwf x y hlt hy; omega
  · exact heq
  · have := wf_lineAt_lt K hwf y x hgt hx; omega

/-- **edge_pos**: between positions `x < y` of a well-formed kernel, `y` is a successor of `x` with
    weight `w` iff `depW` of the segment between them says so -/
theorem edge_pos (isa : Isa) (fd : Bool) (par : Params) (K : List Ins) (hwf : WFKernel K) (x y : Nat)
    (hxy : x < y) (hy : y < K.length) (w : Rat) :
    (lineAt K y, w) ∈ succs (create isa fd par K) (lineAt K x) ↔
      depW isa fd par (K[x]'(by omega)) ((K.drop (x + 1)).take (y - x - 1)) K[y] = some w := by
  rw [mem_succs, lineAt_lt K x (by omega), lineAt_lt K y hy]
  have e := decomp2 K x y hxy hy
  have h := edge_local isa fd par (K.take x) (K[x]'(by omega)) ((K.drop (x + 1)).take (y - x - 1)) K[y]
    (K.drop (y + 1)) (by rw [← e]; exact hwf) w
  rw [← e] at h
  exact h

/-- every successor pair of the graph sits at two positions `x < y` of the kernel -/
theorem edge_has_pos (isa : Isa) (fd : Bool) (par : Params) (K : List Ins) (hwf : WFKernel K) (l m : Nat) (w : Rat)
    (h : (m, w) ∈ succs (create isa fd par K) l) :
    ∃ x y, x < y ∧ y < K.length ∧ lineAt K x = l ∧ lineAt K y = m := by
  have hlm : l < m := by
    refine succs_forward _ ?_ l m w h
    intro e he hs
    exact (emissions_shape isa fd par K hwf e (dedupLast_subset _ e he)).2.1 hs
  rw [mem_succs] at h
  obtain ⟨_, _, _, ⟨p, hp, hpl⟩, ⟨c, hc, hcl⟩⟩ := emissions_shape isa fd par K hwf _ (dedupLast_subset _ _ h)
  obtain ⟨x, hx, rfl⟩ := List.getElem_of_mem hp
  obtain ⟨y, hy, rfl⟩ := List.getElem_of_mem hc
  simp only at hpl hcl
  have hlx : lineAt K x = l := by rw [lineAt_lt K x hx]; exact hpl
  have hly : lineAt K y = m := by rw [lineAt_lt K y hy]; exact hcl
  refine ⟨x, y, ?_, hy, hlx, hly⟩
  rcases Nat.lt_trichotomy x y with hlt | heq | hgt
  · exact hlt
  · subst heq; omega
  · have := wf_lineAt_lt K hwf y x hgt hx; omega

/-! ### the doubled kernel as a window of the stream -/

theorem double_length (off : Nat) (k : List Ins) : (double off k).length = 2 * k.length := by
  simp [double]; omega

theorem double_erase (off : Nat) (k : List Ins) :
    (double off k).map eraseLine = k.map eraseLine ++ k.map eraseLine := by
  simp only [double, List.map_append, List.map_map]
  rfl

theorem double_erase_get (off : Nat) (k : List Ins) (t : Nat) (ht : t < 2 * k.length) :
    ((double off k).map eraseLine)[t]? = some (sAt k t) := by
  rw [double_erase]
  unfold sAt
  by_cases h : t < k.length
  · rw [List.getElem?_append_left (by simpa using h), Nat.mod_eq_of_lt h]
    have : t < (k.map eraseLine).length := by simpa using h
    rw [List.getElem?_eq_getElem this]; rfl
  · rw [List.getElem?_append_right (by simpa using h)]
    have hm : t % k.length = t - k.length := by
      rw [Nat.mod_eq_sub_mod (by omega), Nat.mod_eq_of_lt (by omega)]
    simp only [List.length_map]
    rw [hm]
    have : t - k.length < (k.map eraseLine).length := by simp; omega
    rw [List.getElem?_eq_getElem this]; rfl

theorem double_erase_getElem (off : Nat) (k : List Ins) (t : Nat) (ht : t < (double off k).length) :
    eraseLine (double off k)[t] = sAt k t := by
  have h := double_erase_get off k t (by rw [double_length] at ht; exact ht)
  rw [List.getElem?_map, List.getElem?_eq_getElem ht] at h
  simpa using h

theorem double_seg (off : Nat) (k : List Ins) (x y : Nat) (hy : y < 2 * k.length) :
    (((double off k).drop (x + 1)).take (y - x - 1)).map eraseLine = segAt k x y := by
  unfold segAt
  apply List.ext_getElem?
  intro d
  rw [List.map_take, List.map_drop, List.getElem?_take, List.getElem?_map]
  by_cases hd : d < y - x - 1
  · rw [if_pos hd, List.getElem?_drop, double_erase_get off k _ (by omega), List.getElem?_range hd]
    rfl
  · rw [if_neg hd, List.getElem?_eq_none (by simpa using hd)]
    rfl

/-- **in the doubled kernel the successor relation is the stream relation** -/
theorem succs_double_iff (isa : Isa) (fd : Bool) (par : Params) (off : Nat) (k : List Ins)
    (hwf : WFKernel (double off k)) (x y : Nat) (hxy : x < y) (hy : y < 2 * k.length) (w : Rat) :
    (lineAt (double off k) y, w) ∈ succs (create isa fd par (double off k)) (lineAt (double off k) x) ↔
      streamDep isa fd par k x y = some w := by
  have hy' : y < (double off k).length := by rw [double_length]; exact hy
  rw [edge_pos isa fd par _ hwf x y hxy hy', ← depW_erase]
  unfold streamDep
  rw [double_erase_getElem, double_erase_getElem, double_seg off k x y hy]

/-! ### walks in the doubled graph ↔ chains of stream positions -/

/-- positions to line numbers of `K` -/
def toLine (K : List Ins) (a : List (Nat × Rat)) : List (Nat × Rat) := a.map (fun x => (lineAt K x.1, x.2))

theorem nextV_toLine (K : List Ins) (T : Nat) (a : List (Nat × Rat)) :
    nextV (lineAt K T) (toLine K a) = lineAt K (nextV T a) := by
  cases a <;> simp [nextV, toLine]

theorem nextV_lt (N T : Nat) (a : List (Nat × Rat)) (hT : T < N) (ha : ∀ x ∈ a, x.1 < N) : nextV T a < N := by
  cases a with
  | nil => exact hT
  | cons x rest => exact ha x List.mem_cons_self

theorem chain_to_walk (isa : Isa) (fd : Bool) (par : Params) (off : Nat) (k : List Ins)
    (hwf : WFKernel (double off k)) (T : Nat) (hT : T < 2 * k.length) (a : List (Nat × Rat))
    (ha : ∀ x ∈ a, x.1 < 2 * k.length) (hc : Chain (streamDep isa fd par k) T a) :
    IsWalk (create isa fd par (double off k)) (lineAt (double off k) T) (toLine (double off k) a) := by
  induction a with
  | nil => trivial
  | cons x rest ih =>
    have ih := ih (fun y hy => ha y (List.mem_cons_of_mem _ hy)) hc.2.2
    have hn := nextV_toLine (double off k) T rest
    have hlt := nextV_lt (2 * k.length) T rest hT (fun y hy => ha y (List.mem_cons_of_mem _ hy))
    simp only [toLine, List.map_cons, IsWalk] at ih ⊢
    simp only [toLine] at hn
    rw [hn]
    exact ⟨(succs_double_iff isa fd par off k hwf x.1 _ hc.1 hlt x.2).mpr hc.2.1, ih⟩

theorem walk_to_chain (isa : Isa) (fd : Bool) (par : Params) (off : Nat) (k : List Ins)
    (hwf : WFKernel (double off k)) (T : Nat) (hT : T < 2 * k.length) (p : List (Nat × Rat))
    (hw : IsWalk (create isa fd par (double off k)) (lineAt (double off k) T) p) :
    ∃ a, p = toLine (double off k) a ∧ (∀ x ∈ a, x.1 < 2 * k.length) ∧ Chain (streamDep isa fd par k) T a := by
  induction p with
  | nil => exact ⟨[], rfl, by simp, trivial⟩
  | cons x rest ih =>
    obtain ⟨a, rfl, ha, hc⟩ := ih hw.2
    have hedge := hw.1
    rw [nextV_toLine] at hedge
    have hlt := nextV_lt (2 * k.length) T a hT ha
    obtain ⟨x', y', hxy, hy', hlx, hly⟩ := edge_has_pos isa fd par _ hwf _ _ _ hedge
    have hy2 : y' < 2 * k.length := by rw [double_length] at hy'; exact hy'
    have hyeq : y' = nextV T a :=
      wf_lineAt_inj _ hwf _ _ hy' (by rw [double_length]; exact hlt) hly
    subst hyeq
    refine ⟨(x', x.2) :: a, ?_, ?_, ?_⟩
    · simp only [toLine, List.map_cons, hlx]
    · intro z hz
      rcases List.mem_cons.mp hz with rfl | hz
      · simp only; omega
      · exact ha z hz
    · refine ⟨hxy, ?_, hc⟩
      rw [← hlx] at hedge
      exact (succs_double_iff isa fd par off k hwf x' _ hxy hy2 x.2).mp hedge

/-! ### line numbers of the doubled kernel -/

theorem lineAt_double_first (off : Nat) (k : List Ins) (s : Nat) (hs : s < k.length) :
    lineAt (double off k) s = lineAt k s := by
  unfold lineAt double
  rw [List.getElem?_append_left hs]

theorem lineAt_double_second (off : Nat) (k : List Ins) (s : Nat) (hs : s < k.length) :
    lineAt (double off k) (s + k.length) = lineAt k s + off := by
  unfold lineAt double
  rw [List.getElem?_append_right (by omega)]
  simp [hs]

/-- mapping a line of the doubled kernel back gives the line of the body instruction at `t mod n` -/
theorem backLine_double (off : Nat) (k : List Ins) (hoff : ∀ i ∈ k, i.line < off) (t : Nat) (ht : t < 2 * k.length) :
    backLine off (lineAt (double off k) t) = lineAt k (t % k.length) := by
  by_cases h : t < k.length
  · rw [lineAt_double_first off k t h, Nat.mod_eq_of_lt h]
    have : lineAt k t < off := by rw [lineAt_lt k t h]; exact hoff _ (List.getElem_mem h)
    unfold backLine; rw [if_neg (by omega)]
  · have hm : t % k.length = t - k.length := by
      rw [Nat.mod_eq_sub_mod (by omega), Nat.mod_eq_of_lt (by omega)]
    have e : t = (t - k.length) + k.length := by omega
    rw [hm]
    conv => lhs; rw [e]
    rw [lineAt_double_second off k _ (by omega)]
    unfold backLine; rw [if_pos (by omega)]; omega

/-- the cycle starts inside the body (first iteration) -/
def StartsBelow (n : Nat) : List (Nat × Rat) → Prop
  | [] => False
  | x :: _ => x.1 < n

instance (n : Nat) : (a : List (Nat × Rat)) → Decidable (StartsBelow n a)
  | [] => isFalse (fun h => h)
  | x :: _ => inferInstanceAs (Decidable (x.1 < n))

end OsacaVerif.LCD
