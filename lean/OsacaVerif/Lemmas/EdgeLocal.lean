import OsacaVerif.Lemmas.ScanLocal
/-
  Helper development for C05 / C14 (`dg_local`): the edge relation of `DG.create` between two
  instructions of a well-formed kernel is a function of the stream segment between them.

  `depW isa fd par p seg c` is the weight of the dependency edge `p → c` when `seg` lies strictly
  between (the weight of the *last* emission naming `c`, as `add_edge` overwrites), or `none`.
  `edge_local`: for `K = pre ++ p :: seg ++ c :: more`, the edge `(p.line → c.line, w)` is in
  `create K` iff `depW p seg c = some w`.
-/
namespace OsacaVerif.DG
open OsacaVerif OsacaVerif.Text

/-- weight of the dependency edge from producer `p` to consumer `c` across the segment `seg`, if any -/
def depW (isa : Isa) (fd : Bool) (par : Params) (p : Ins) (seg : List Ins) (c : Ins) : Option Rat :=
  (tagsAt isa fd p seg c).getLast?.map (edgeWeight par p)

theorem depW_erase (isa : Isa) (fd : Bool) (par : Params) (p : Ins) (seg : List Ins) (c : Ins) :
    depW isa fd par (eraseLine p) (seg.map eraseLine) (eraseLine c) = depW isa fd par p seg c := by
  unfold depW
  rw [tagsAt_erase]
  rfl

/-- `dedupLast` keeps, for each (src, dst) pair, the last emission: membership as a `getLast?` -/
theorem split_of_filter_getLast (P : Edge → Bool) (es : List Edge) (g : Edge)
    (h : (es.filter P).getLast? = some g) : ∃ es1 es2, es = es1 ++ g :: es2 ∧ ∀ f ∈ es2, P f = false := by
  induction es with
  | nil => simp at h
  | cons x es ih =>
    cases hl : (es.filter P).getLast? with
    | some g' =>
      have hne : es.filter P ≠ [] := by intro hh; rw [hh] at hl; simp at hl
      have : ((x :: es).filter P).getLast? = some g' := by
        rw [List.filter_cons]
        split
        · rw [List.getLast?_cons_of_ne_nil hne]; exact hl
        · exact hl
      rw [this] at h
      cases h
      obtain ⟨es1, es2, rfl, h2⟩ := ih hl
      exact ⟨x :: es1, es2, rfl, h2⟩
    | none =>
      have hnil : es.filter P = [] := by simpa using hl
      rw [List.filter_cons, hnil] at h
      by_cases hx : P x = true
      · rw [if_pos hx] at h
        simp only [List.getLast?_singleton, Option.some.injEq] at h
        subst h
        refine ⟨[], es, rfl, ?_⟩
        intro f hf
        have := List.filter_eq_nil_iff.mp hnil f hf
        simpa using this
      · rw [if_neg hx] at h; simp at h

theorem mem_dedupLast_getLast (es : List Edge) (g : Edge) :
    g ∈ dedupLast es ↔ (es.filter (fun f => f.src == g.src && f.dst == g.dst)).getLast? = some g := by
  rw [mem_dedupLast_p1]
  constructor
  · rintro ⟨es1, es2, rfl, h⟩
    have h2 : es2.filter (fun f => f.src == g.src && f.dst == g.dst) = [] := by
      rw [List.filter_eq_nil_iff]
      intro f hf
      have := h f hf
      simpa using this
    rw [List.filter_append, List.filter_cons, h2]
    simp
  · intro h
    obtain ⟨es1, es2, rfl, h2⟩ := split_of_filter_getLast _ es g h
    refine ⟨es1, es2, rfl, ?_⟩
    intro f hf
    have := h2 f hf
    simpa using this

/-- the emissions of a kernel `pre ++ rest`: those of the producers in `pre` (sources are lines of
    `pre`), then those of `rest` -/
theorem emissions_append (isa : Isa) (fd : Bool) (par : Params) (pre rest : List Ins) :
    ∃ X, emissions isa fd par (pre ++ rest) = X ++ emissions isa fd par rest ∧
      ∀ e ∈ X, ∃ q ∈ pre, e.src.line = q.line := by
  induction pre with
  | nil => exact ⟨[], rfl, by simp⟩
  | cons q pre ih =>
    obtain ⟨X, hX, hsrc⟩ := ih
    refine ⟨(if q.hasLd && !q.isLd then
        [{ src := ⟨q.line, true⟩, dst := ⟨q.line, false⟩, w := q.lat - (q.latWoLoad.getD 0) }] else []) ++
      (findDepending isa fd q (pre ++ rest)).map (fun (l, tag) =>
        { src := ⟨q.line, false⟩, dst := ⟨l, false⟩, w := edgeWeight par q tag }) ++ X, ?_, ?_⟩
    · simp only [List.cons_append, emissions, hX, List.append_assoc]
    · intro e he
      simp only [List.mem_append, List.mem_map] at he
      rcases he with (he | ⟨⟨l, tag⟩, _, rfl⟩) | he
      · split at he
        · rw [List.mem_singleton] at he; subst he; exact ⟨q, List.mem_cons_self, rfl⟩
        · cases he
      · exact ⟨q, List.mem_cons_self, rfl⟩
      · obtain ⟨q', hq', h⟩ := hsrc e he
        exact ⟨q', List.mem_cons_of_mem _ hq', h⟩

/-- **edge_local** (`dg_local`; ∀ well-formed kernels, ∀ decompositions): whether `c` depends on `p`
    in the graph of `K = pre ++ p :: seg ++ c :: more`, and with which weight, is `depW p seg c` — a
    function of the segment `p … c` alone. -/
theorem edge_local (isa : Isa) (fd : Bool) (par : Params) (pre : List Ins) (p : Ins) (seg : List Ins) (c : Ins)
    (more : List Ins) (hwf : WFKernel (pre ++ p :: (seg ++ c :: more))) (w : Rat) :
    ({ src := ⟨p.line, false⟩, dst := ⟨c.line, false⟩, w := w } : Edge) ∈
        create isa fd par (pre ++ p :: (seg ++ c :: more)) ↔
      depW isa fd par p seg c = some w := by
  unfold create
  rw [mem_dedupLast_getLast]
  obtain ⟨X, hX, hsrc⟩ := emissions_append isa fd par pre (p :: (seg ++ c :: more))
  -- line facts from well-formedness
  have hlines : (pre ++ p :: (seg ++ c :: more)).Pairwise (fun a b => a.line < b.line) := by
    unfold WFKernel at hwf; rwa [List.pairwise_map] at hwf
  have hpw := List.pairwise_append.mp hlines
  have hpre : ∀ q ∈ pre, q.line < p.line := fun q hq => hpw.2.2 q hq p List.mem_cons_self
  have hrest := List.pairwise_cons.mp hpw.2.1
  have hpw2 := List.pairwise_append.mp hrest.2
  have hseg : ∀ x ∈ seg, x.line ≠ c.line := fun x hx => Nat.ne_of_lt (hpw2.2.2 x hx c List.mem_cons_self)
  have hmore : ∀ x ∈ more, x.line ≠ c.line := fun x hx =>
    Nat.ne_of_gt ((List.pairwise_cons.mp hpw2.2.1).1 x hx)
  have hwfR : WFKernel (seg ++ c :: more) := by
    unfold WFKernel; rw [List.pairwise_map]; exact hrest.2
  rw [hX]
  simp only [emissions, List.filter_append]
  have hXnil : X.filter (fun f => f.src == (⟨p.line, false⟩ : Node) && f.dst == (⟨c.line, false⟩ : Node)) = [] := by
    rw [List.filter_eq_nil_iff]
    intro e he
    obtain ⟨q, hq, hql⟩ := hsrc e he
    have := hpre q hq
    simp only [Bool.and_eq_true, beq_iff_eq, not_and]
    intro hs
    rw [hs] at hql
    simp at hql
    omega
  have hLnil : (if p.hasLd && !p.isLd then
      [({ src := ⟨p.line, true⟩, dst := ⟨p.line, false⟩, w := p.lat - (p.latWoLoad.getD 0) } : Edge)] else []).filter
      (fun f => f.src == (⟨p.line, false⟩ : Node) && f.dst == (⟨c.line, false⟩ : Node)) = [] := by
    split <;> simp
  have hEnil : (emissions isa fd par (seg ++ c :: more)).filter
      (fun f => f.src == (⟨p.line, false⟩ : Node) && f.dst == (⟨c.line, false⟩ : Node)) = [] := by
    rw [List.filter_eq_nil_iff]
    intro e he
    obtain ⟨_, _, _, ⟨q, hq, hql⟩, _⟩ := emissions_shape isa fd par _ hwfR e he
    have := hrest.1 q hq
    simp only [Bool.and_eq_true, beq_iff_eq, not_and]
    intro hs
    rw [hs] at hql
    simp at hql
    omega
  rw [hXnil, hLnil, hEnil, List.nil_append, List.nil_append, List.append_nil, List.filter_map]
  have hF : (findDepending isa fd p (seg ++ c :: more)).filter
      ((fun f : Edge => f.src == (⟨p.line, false⟩ : Node) && f.dst == (⟨c.line, false⟩ : Node)) ∘
        (fun x : Nat × Tag => ({ src := ⟨p.line, false⟩, dst := ⟨x.1, false⟩, w := edgeWeight par p x.2 } : Edge))) =
      (findDepending isa fd p (seg ++ c :: more)).filter (fun x => x.1 == c.line) := by
    apply List.filter_congr
    intro x _
    rw [Bool.eq_iff_iff]
    simp
  have hF' : (fun (x : Nat × Tag) => match x with
      | (l, tag) => ({ src := ⟨p.line, false⟩, dst := ⟨l, false⟩, w := edgeWeight par p tag } : Edge)) =
      (fun x : Nat × Tag => ({ src := ⟨p.line, false⟩, dst := ⟨x.1, false⟩, w := edgeWeight par p x.2 } : Edge)) := by
    funext x; rfl
  rw [hF', hF, findDepending_at isa fd p seg more c hseg hmore, List.map_map, List.getLast?_map]
  unfold depW
  cases (tagsAt isa fd p seg c).getLast? with
  | none => simp
  | some tg =>
    simp only [Option.map_some, Function.comp_apply, Option.some.injEq]
    constructor
    · intro h
      have := congrArg Edge.w h
      simpa using this
    · intro h; rw [h]

/-- the successor list of the LCD search, read off the edge list -/
theorem mem_succs (es : List Edge) (l m : Nat) (w : Rat) :
    (m, w) ∈ LCD.succs es l ↔ ({ src := ⟨l, false⟩, dst := ⟨m, false⟩, w := w } : Edge) ∈ es := by
  simp only [LCD.succs, List.mem_filterMap]
  constructor
  · rintro ⟨e, he, h⟩
    by_cases hc : (!e.src.load && e.src.line == l && !e.dst.load) = true
    · rw [if_pos hc] at h
      simp only [Bool.and_eq_true, Bool.not_eq_true', beq_iff_eq] at hc
      simp only [Option.some.injEq, Prod.mk.injEq] at h
      have : e = { src := ⟨l, false⟩, dst := ⟨m, false⟩, w := w } := by
        obtain ⟨⟨sl, sb⟩, ⟨dl, db⟩, ew⟩ := e
        simp_all
      rw [← this]; exact he
    · rw [if_neg hc] at h; cases h
  · intro h
    exact ⟨_, h, by simp⟩

end OsacaVerif.DG
