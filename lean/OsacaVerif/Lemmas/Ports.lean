import OsacaVerif.Spec.Feasible
import Mathlib.Algebra.Order.Field.Rat
import Mathlib.Algebra.BigOperators.Group.List.Basic
import Mathlib.Tactic.Ring
import Mathlib.Tactic.Linarith
import Mathlib.Tactic.FieldSimp

namespace OsacaVerif.Ports
open OsacaVerif OsacaVerif.Spec

@[simp] theorem length_addAt (v : List Rat) (i : Nat) (x : Rat) : (addAt v i x).length = v.length := by
  induction v generalizing i with
  | nil => rfl
  | cons a as ih => cases i <;> simp [addAt, ih]

theorem getD_addAt (v : List Rat) (i j : Nat) (x : Rat) (hi : i < v.length) :
    (addAt v i x).getD j 0 = v.getD j 0 + (if i = j then x else 0) := by
  induction v generalizing i j with
  | nil => simp at hi
  | cons a as ih =>
    cases i with
    | zero => cases j <;> simp [addAt]
    | succ i =>
      cases j with
      | zero => simp [addAt]
      | succ j =>
        simp only [addAt, List.getD_cons_succ]
        rw [ih i j (by simpa using hi)]
        simp

@[simp] theorem length_addPorts (v : List Rat) (c : Rat) (ps : List Nat) :
    (addPorts v c ps).length = v.length := by
  induction ps generalizing v with
  | nil => rfl
  | cons p ps ih => simp [addPorts, ih]

theorem getD_addPorts (v : List Rat) (c : Rat) (ps : List Nat) (j : Nat)
    (h : ∀ p ∈ ps, p < v.length) :
    (addPorts v c ps).getD j 0 = v.getD j 0 + (ps.count j : Rat) * c := by
  induction ps generalizing v with
  | nil => simp [addPorts]
  | cons p ps ih =>
    simp only [addPorts]
    rw [ih (addAt v p c) (by intro q hq; simpa using h q (List.mem_cons_of_mem _ hq))]
    rw [getD_addAt v p j c (h p (List.mem_cons_self))]
    by_cases hpj : p = j
    · subst hpj; simp [List.count_cons_self]; ring
    · have : ¬ (p == j) = true := by simpa using hpj
      simp [List.count_cons, hpj, this]

@[simp] theorem length_accumulate (v : List Rat) (us : List Uop) :
    (accumulate v us).length = v.length := by
  induction us generalizing v with
  | nil => rfl
  | cons u us ih => simp [accumulate, ih]

theorem getD_accumulate (v : List Rat) (us : List Uop) (j : Nat)
    (h : ∀ u ∈ us, ∀ p ∈ u.ports, p < v.length) :
    (accumulate v us).getD j 0 = v.getD j 0 + (us.map (share · j)).sum := by
  induction us generalizing v with
  | nil => simp [accumulate]
  | cons u us ih =>
    simp only [accumulate, List.map_cons, List.sum_cons]
    rw [ih _ (by intro u' hu' p hp; simpa using h u' (List.mem_cons_of_mem _ hu') p hp)]
    rw [getD_addPorts _ _ _ _ (h u List.mem_cons_self)]
    simp only [share]; ring

theorem length_uniform (n : Nat) (us : List Uop) : (uniform n us).length = n := by
  simp [uniform]

theorem getD_uniform (n : Nat) (us : List Uop) (j : Nat) (hj : j < n) :
    (uniform n us).getD j 0 = (us.map (share · j)).sum := by
  simp [uniform, List.getD_eq_getElem?_getD, hj]

/-- **The loop of `average_port_pressure` computes the closed form** (∀ micro-op lists). -/
theorem average_eq_uniform (n : Nat) (us : List Uop) (h : ∀ u ∈ us, ∀ p ∈ u.ports, p < n) :
    average n us = uniform n us := by
  apply List.ext_getElem
  · simp [average, zeros, length_uniform]
  · intro j h1 h2
    have hj : j < n := by simpa [length_uniform] using h2
    have e1 := getD_accumulate (zeros n) us j (by simpa [zeros] using h)
    have e2 := getD_uniform n us j hj
    have g1 : (average n us)[j] = (average n us).getD j 0 := by
      simp [List.getD_eq_getElem?_getD, List.getElem?_eq_getElem h1]
    have g2 : (uniform n us)[j] = (uniform n us).getD j 0 := by
      simp [List.getD_eq_getElem?_getD, List.getElem?_eq_getElem h2]
    rw [g1, g2, e2]
    simp only [average]
    rw [e1]
    simp [zeros, List.getD_eq_getElem?_getD, hj]

end OsacaVerif.Ports
