import OsacaVerif.Lemmas.KindAgree
import OsacaVerif.Spec.Live
import Mathlib.Data.Rat.Defs
/-
  Every instance of a live entry operand agrees in kind with the entry operand (hence is matched),
  and lies in the parsers' domain.
-/
namespace OsacaVerif.Lemmas.Live
open OsacaVerif OsacaVerif.Text OsacaVerif.Operand OsacaVerif.Match OsacaVerif.Spec OsacaVerif.Lemmas.KindAgree

/-! ### digits -/

theorem decDigitsFuel_digits (fuel n : Nat) : (decDigitsFuel fuel n).all isDigitC = true := by
  induction fuel generalizing n with
  | zero => simp [decDigitsFuel]
  | succ f ih =>
    unfold decDigitsFuel
    split
    · rename_i h
      simp [isDigitC]; omega
    · simp only [List.all_append, ih, Bool.true_and, List.all_cons, List.all_nil, Bool.and_true]
      simp [isDigitC]; omega

theorem decDigits_digits (n : Nat) : (decDigits n).all isDigitC = true := decDigitsFuel_digits _ _

theorem rstripDigits_digits (d : Txt) (h : d.all isDigitC = true) : rstripDigits d = [] := by
  induction d with
  | nil => rfl
  | cons x xs ih =>
    simp only [List.all_cons, Bool.and_eq_true] at h
    simp [rstripDigits, ih h.2, h.1]

theorem rstripDigits_append (c d : Txt) (h : d.all isDigitC = true) :
    rstripDigits (c ++ d) = rstripDigits c := by
  induction c with
  | nil => simp [rstripDigits_digits d h, rstripDigits]
  | cons x xs ih => simp [rstripDigits, ih]

theorem stem_append (c d : Txt) (h : d.all isDigitC = true) : stem (c ++ d) = stem c := by
  simp [stem, rstripDigits_append c d h]

theorem decDigits_ne_star (n : Nat) : (decDigits n != Spec.star) = true := by
  have h := decDigits_digits n
  by_cases e : decDigits n = Spec.star
  · rw [e] at h; simp [Spec.star, isDigitC] at h
  · simpa using e

theorem append_ne_star (c0 : Nat) (cs d : Txt) (h : c0 ≠ 42) : ((c0 :: cs ++ d) != Spec.star) = true := by
  simp [Spec.star, h]

/-! ### x86 registers -/

theorem x86_named_class (cl : Txt) (n : Nat) (hne : (cl == Spec.star || cl == gprClass) = false)
    (hstem : stem cl = cl) (hhead : cl.head? ≠ some 42 ∧ cl ≠ []) :
    x86RegClass (some cl) (x86RegName cl n) = true ∧ (x86RegName cl n != Spec.star) = true := by
  have hname : x86RegName cl n = cl ++ decDigits n := by simp [x86RegName, hne]
  rw [hname]
  constructor
  · simp [x86RegClass, stem_append cl _ (decDigits_digits n), hstem]
  · cases cl with
    | nil => exact absurd rfl hhead.2
    | cons c0 cs =>
      have : c0 ≠ 42 := by
        intro e; apply hhead.1; simp [e]
      exact append_ne_star c0 cs _ this

theorem x86_generic_class (cl : Txt) (n : Nat) (h : cl = Spec.star ∨ cl = gprClass) :
    x86RegClass (some cl) (x86RegName cl n) = true ∧ (x86RegName cl n != Spec.star) = true := by
  have hname : x86RegName cl n = rName ++ decDigits n := by
    rcases h with h | h <;> subst h <;> simp [x86RegName]
  rw [hname]
  have hs : stem (rName ++ decDigits n) = rName := by
    rw [stem_append _ _ (decDigits_digits n)]; decide
  constructor
  · rcases h with h | h <;> subst h
    · simp [x86RegClass]
    · simp only [x86RegClass, hs]; decide
  · exact append_ne_star 114 [] _ (by decide)

theorem x86_reg_instance (cl : Txt) (n : Nat) (h : x86LiveClass cl = true) :
    x86RegClass (some cl) (x86RegName cl n) = true ∧ (x86RegName cl n != Spec.star) = true := by
  simp only [x86LiveClass, Bool.or_eq_true, beq_iff_eq] at h
  rcases h with (h | h) | h
  · exact x86_generic_class cl n (Or.inl h)
  · exact x86_generic_class cl n (Or.inr h)
  · have hmem : cl ∈ x86Classes := by simpa using h
    have key : ∀ c ∈ x86Classes, (c == Spec.star || c == gprClass) = false ∧ stem c = c ∧
        (c.head? ≠ some 42 ∧ c ≠ []) := by decide
    obtain ⟨h1, h2, h3⟩ := key cl hmem
    exact x86_named_class cl n h1 h2 h3

/-! ### x86 memory fields -/

theorem parserReg_plain (name : Txt) (h : (name != Spec.star) = true) :
    parserReg { name := name } = true := by
  simp [parserReg, h]

theorem x86_addr_instance (f : Y) (n sel : Nat) (h : x86LiveAddr f = true) :
    x86AddrField f (x86InstAddr f n sel) = true ∧ regOkOpt (x86InstAddr f n sel) = true := by
  cases f with
  | null => simp [x86InstAddr, x86AddrField, regOkOpt]
  | str c =>
    have hl : x86LiveClass c = true := by simpa [x86LiveAddr] using h
    obtain ⟨h1, h2⟩ := x86_reg_instance c n hl
    by_cases hs : (c == Spec.star && sel % 2 == 1) = true
    · have hc : c = Spec.star := by
        simp only [Bool.and_eq_true, beq_iff_eq] at hs; exact hs.1
      have hsel : sel % 2 = 1 := by
        simp only [Bool.and_eq_true, beq_iff_eq] at hs; exact hs.2
      subst hc
      simp [x86InstAddr, hsel, x86AddrField, regOkOpt]
    · simp only [x86InstAddr, hs, Bool.false_eq_true, ↓reduceIte, x86AddrField, h1, regOkOpt,
        parserReg_plain _ h2, and_self]
  | _ => simp [x86LiveAddr] at h

theorem x86_off_instance (f : Y) (sel : Nat) (h : x86LiveOff f = true) :
    x86OffsetField f (x86InstOff f sel) = true := by
  cases f with
  | null => simp [x86InstOff, x86OffsetField]
  | str c =>
    by_cases h1 : c = tImd
    · subst h1; simp [x86InstOff, x86OffsetField]
    · by_cases h2 : c = tId
      · subst h2
        have : (tId == tImd) = false := by decide
        simp [x86InstOff, x86OffsetField, this]
      · have hc : c = Spec.star := by
          simp only [x86LiveOff, Bool.or_eq_true, beq_iff_eq] at h
          rcases h with (h | h) | h
          · exact h
          · exact absurd h h1
          · exact absurd h h2
        subst hc
        simp [x86OffsetField]
  | _ => simp [x86LiveOff] at h

theorem scale_instance (f : Y) (sel : Nat) (h : liveScale f = true) :
    scaleField f (instScale f sel) = true := by
  cases f with
  | null => simp [instScale, scaleField]
  | str c =>
    have : c = Spec.star := by simpa [liveScale] using h
    simp [scaleField, this]
  | num q =>
    have hd : q.den = 1 := by simpa [liveScale] using h
    have : ((q.num : Int) : Rat) = q := Rat.coe_int_num_of_den_eq_one hd
    simp [instScale, scaleField, this]
  | _ => simp [liveScale] at h

/-! ### AArch64 -/

/-- the shape the instance gets: a concrete shape, equal to the entry's or filling its wildcard -/
def instShape (es : Txt) (a : Nat) : Txt :=
  if es.contains 42 then (if a % 2 == 0 then sShape else dShape) else es

theorem instShape_ok (es : Txt) (a : Nat) :
    (es == instShape es a || es.contains 42) = true ∧ (!(instShape es a).contains 42) = true := by
  unfold instShape
  by_cases he : es.contains 42 = true
  · rw [if_pos he]
    refine ⟨by rw [he]; simp, ?_⟩
    by_cases ha : (a % 2 == 0) = true
    · rw [if_pos ha]; decide
    · rw [if_neg ha]; decide
  · rw [if_neg he]
    have he' : es.contains 42 = false := by simpa using he
    refine ⟨by simp, ?_⟩
    rw [he']; rfl

theorem a64InstReg_eq (p0 : Txt) (s : Option Txt) (c : Choice) :
    a64InstReg (some p0) s c =
      { name := decDigits c.n,
        pfx := some (if p0 == Spec.star then (match s with | some _ => vPfx | none => xPfx) else p0),
        shape := s.map (fun es => instShape es c.a) } := by
  cases s with
  | none => simp [a64InstReg]
  | some es =>
    simp only [a64InstReg, instShape, Option.map_some]
    by_cases he : es.contains 42 = true
    · simp only [he, if_true]
    · simp only [he, if_false]; simp

theorem a64_reg_instance (p s : Option Txt) (c : Choice) (h : a64LiveReg p s = true) :
    (a64Prefix p (a64InstReg p s c).pfx && a64Shape s (a64InstReg p s c)) = true ∧
    parserReg (a64InstReg p s c) = true := by
  cases p with
  | none => simp [a64LiveReg] at h
  | some p0 =>
    rw [a64InstReg_eq]
    have hname := decDigits_ne_star c.n
    -- the instance's prefix is not the wildcard and agrees with the entry's
    have hpfx : ∀ q : Txt, q ≠ Spec.star →
        ((if p0 == Spec.star then q else p0) != Spec.star) = true ∧
        (some p0 == some Spec.star || some p0 == some (if p0 == Spec.star then q else p0)) = true := by
      intro q hq
      by_cases hp : p0 = Spec.star
      · subst hp; simp [hq]
      · have hp' : (p0 == Spec.star) = false := by simpa using hp
        simp [hp', hp]
    cases s with
    | none =>
      obtain ⟨h1, h2⟩ := hpfx xPfx (by decide)
      simp only [a64Prefix, a64Shape, parserReg, Option.map_none, h2, Bool.true_and, hname, Option.isNone_none,
        Bool.and_true, and_true, true_and]
      simpa using h1
    | some es =>
      obtain ⟨h1, h2⟩ := hpfx vPfx (by decide)
      obtain ⟨h3, h4⟩ := instShape_ok es c.a
      simp only [a64Prefix, a64Shape, parserReg, Option.map_some, h2, Bool.true_and, hname, h3, h4,
        Bool.and_true, and_true, true_and]
      simpa using h1

theorem parserReg_pfx (name pfx : Txt) (h : (name != Spec.star) = true) (hp : (pfx != Spec.star) = true) :
    parserReg { name := name, pfx := some pfx } = true := by
  have hp' : pfx ≠ Spec.star := by simpa using hp
  simp [parserReg, h, hp']

theorem a64_base_instance (f : Y) (n : Nat) (h : a64LiveBase f = true) :
    a64BaseField f (a64InstBase f n) = true ∧ regOkOpt (a64InstBase f n) = true := by
  cases f with
  | str c =>
    by_cases hc : c = Spec.star
    · subst hc
      simp [a64InstBase, a64BaseField, regOkOpt, parserReg_pfx _ _ (decDigits_ne_star n) (by decide : (xPfx != Spec.star) = true)]
    · have hc' : (c == Spec.star) = false := by simpa using hc
      have hc'' : (c != Spec.star) = true := by simpa using hc
      simp [a64InstBase, a64BaseField, regOkOpt, hc', parserReg_pfx _ _ (decDigits_ne_star n) hc'']
  | _ => simp [a64LiveBase] at h

theorem a64_off_instance (f : Y) (sel : Nat) (h : a64LiveOff f = true) :
    a64OffsetField f (a64InstOff f sel) = true := by
  cases f with
  | null => simp [a64InstOff, a64OffsetField]
  | str c =>
    by_cases h1 : c = tImd
    · subst h1; simp [a64InstOff, a64OffsetField]
    · have hc : c = Spec.star := by
        simp only [a64LiveOff, Bool.or_eq_true, beq_iff_eq] at h
        rcases h with h | h
        · exact h
        · exact absurd h h1
      subst hc
      cases hs : sel % 2 == 0 <;> simp [a64InstOff, a64OffsetField, hs]
  | _ => simp [a64LiveOff] at h

theorem a64_index_instance (f s : Y) (n sel : Nat) (h : a64LiveIndex f = true) :
    a64IndexField f (a64InstIndex f s n sel) = true ∧ regOkOpt (a64InstIndex f s n sel) = true := by
  cases f with
  | null => simp [a64InstIndex, a64IndexField, regOkOpt]
  | str c =>
    by_cases hc : c = Spec.star
    · subst hc
      cases hs : (sel % 2 == 0 && scaleAcceptsOne s) <;>
        simp [a64InstIndex, a64IndexField, regOkOpt, hs,
          parserReg_pfx _ _ (decDigits_ne_star n) (by decide : (xPfx != Spec.star) = true)]
    · have hc' : (c == Spec.star) = false := by simpa using hc
      have hc'' : (c != Spec.star) = true := by simpa using hc
      simp [a64InstIndex, a64IndexField, regOkOpt, hc', parserReg_pfx _ _ (decDigits_ne_star n) hc'']
  | _ => simp [a64LiveIndex] at h

theorem scale_one (s : Y) (h : scaleAcceptsOne s = true) : scaleField s 1 = true := by
  cases s <;> simp [scaleAcceptsOne] at h <;> simp [scaleField, h]

/-- when the instance has no index register, the entry's scale accepts an unscaled access -/
theorem index_none_scale (f s : Y) (n sel : Nat) (hl : a64LiveIndex f = true)
    (hs : (!isNullY f || scaleAcceptsOne s) = true)
    (hn : (a64InstIndex f s n sel).isNone = true) : scaleAcceptsOne s = true := by
  cases f with
  | null => simpa [isNullY] using hs
  | str c =>
    by_cases hc : c = Spec.star
    · subst hc
      cases h1 : (sel % 2 == 0 && scaleAcceptsOne s)
      · simp [a64InstIndex, h1] at hn
      · simp only [Bool.and_eq_true] at h1; exact h1.2
    · have hc' : (c == Spec.star) = false := by simpa using hc
      simp [a64InstIndex, hc'] at hn
  | _ => simp [a64LiveIndex] at hl

theorem tri_pre_instance (pre post : Y) (sel : Nat) (h : liveTri pre = true) :
    triField pre (a64InstPre pre post sel) = true := by
  cases pre <;> simp [liveTri] at h <;> simp [a64InstPre, triField, h]

theorem tri_post_instance (pre post : Y) (sel : Nat) (h : liveTri post = true) :
    triField post (a64InstPost pre post sel) = true := by
  cases post <;> simp [liveTri] at h <;> simp [a64InstPost, triField, h]

theorem pre_post_exclusive (pre post : Y) (sel : Nat)
    (h : (!(isTrueY pre && isTrueY post)) = true) :
    (!(a64InstPre pre post sel && a64InstPost pre post sel)) = true := by
  cases post with
  | bool b =>
    cases b with
    | false => simp [a64InstPost]
    | true =>
      cases pre with
      | bool b' =>
        cases b' with
        | false => simp [a64InstPre]
        | true => simp [isTrueY] at h
      | _ => simp [a64InstPre]
  | _ =>
    all_goals
      cases hp : a64InstPre pre _ sel <;> simp [a64InstPost, hp]

/-! ### every instance of a live operand agrees and is in the parser domain -/

theorem liveScale_schema (s : Y) (h : liveScale s = true) : scaleSchema s = true := by
  cases s <;> simp [liveScale] at h <;> simp [scaleSchema, h]

theorem liveTri_schema (s : Y) (h : liveTri s = true) : triSchema s = true := by
  cases s <;> simp [liveTri] at h <;> simp [triSchema, h]

theorem live_schema (isa : Isa) (e : EOperand) (h : liveOperand isa e = true) : schemaOperand e = true := by
  cases isa with
  | x86 =>
    cases e with
    | mem b off i s pre post =>
      simp only [liveOperand, Bool.and_eq_true] at h
      obtain ⟨⟨⟨⟨⟨h1, h2⟩, h3⟩, h4⟩, h5⟩, h6⟩ := h
      have e1 : isNullOrStr b = true := by cases b <;> simp [x86LiveAddr] at h1 <;> rfl
      have e2 : isNullOrStr off = true := by cases off <;> simp [x86LiveOff] at h2 <;> rfl
      have e3 : isNullOrStr i = true := by cases i <;> simp [x86LiveAddr] at h3 <;> rfl
      simp only [schemaOperand, Bool.and_eq_true]
      exact ⟨⟨⟨⟨⟨e1, e2⟩, e3⟩, liveScale_schema s h4⟩, liveTri_schema pre h5⟩, liveTri_schema post h6⟩
    | imm t => cases t <;> simp [liveOperand] at h <;> simp [schemaOperand]
    | _ => simp [schemaOperand]
  | a64 =>
    cases e with
    | mem b off i s pre post =>
      simp only [liveOperand, a64LiveMem, Bool.and_eq_true] at h
      obtain ⟨⟨⟨⟨⟨⟨⟨h1, h2⟩, h3⟩, h4⟩, h5⟩, h6⟩, _⟩, _⟩ := h
      have e1 : isNullOrStr b = true := by cases b <;> simp [a64LiveBase] at h1 <;> rfl
      have e2 : isNullOrStr off = true := by cases off <;> simp [a64LiveOff] at h2 <;> rfl
      have e3 : isNullOrStr i = true := by cases i <;> simp [a64LiveIndex] at h3 <;> rfl
      simp only [schemaOperand, Bool.and_eq_true]
      exact ⟨⟨⟨⟨⟨e1, e2⟩, e3⟩, liveScale_schema s h4⟩, liveTri_schema pre h5⟩, liveTri_schema post h6⟩
    | imm t => cases t <;> simp [liveOperand] at h <;> simp [schemaOperand]
    | _ => simp [schemaOperand]

theorem parserOperand_mem (m : PMem) (hb : regOkOpt m.base = true) (hi : regOkOpt m.index = true) :
    parserOperand (.mem m) = true := by
  cases h1 : m.base <;> cases h2 : m.index <;> simp [parserOperand, regOkOpt, h1, h2] at * <;> simp [*]

theorem live_kind (isa : Isa) (e : EOperand) (c : Choice) (h : liveOperand isa e = true) :
    kindAgreeB isa e (instantiate isa e c) = true ∧ parserOperandIsa isa (instantiate isa e c) = true := by
  cases isa with
  | x86 =>
    cases e with
    | reg n p s =>
      cases n with
      | none => simp [liveOperand] at h
      | some cl =>
        obtain ⟨h1, h2⟩ := x86_reg_instance cl c.n (by simpa [liveOperand] using h)
        simp [instantiate, kindAgreeB, x86Unknown, h1, parserOperandIsa, parserOperand, parserReg_plain _ h2]
    | mem b off i s pre post =>
      simp only [liveOperand, Bool.and_eq_true] at h
      obtain ⟨⟨⟨⟨⟨h1, h2⟩, h3⟩, h4⟩, _⟩, _⟩ := h
      obtain ⟨b1, b2⟩ := x86_addr_instance b c.n c.a h1
      obtain ⟨i1, i2⟩ := x86_addr_instance i (c.n + 1) c.c h3
      have o1 := x86_off_instance off c.b h2
      have s1 := scale_instance s c.d h4
      refine ⟨?_, ?_⟩
      · simp only [instantiate, kindAgreeB, x86Unknown, Bool.false_or, x86MemShape, b1, o1, i1, s1, Bool.and_self]
      · simp only [parserOperandIsa, instantiate, Bool.and_true]
        exact parserOperand_mem _ b2 i2
    | imm t =>
      cases t with
      | str ty =>
        have : ty = tInt := by simpa [liveOperand] using h
        simp [instantiate, kindAgreeB, x86Unknown, this, parserOperandIsa, parserOperand]
      | _ => simp [liveOperand] at h
    | ident => simp [instantiate, kindAgreeB, x86Unknown, parserOperandIsa, parserOperand]
    | _ => simp [liveOperand] at h
  | a64 =>
    cases e with
    | reg n p s =>
      obtain ⟨h1, h2⟩ := a64_reg_instance p s c (by simpa [liveOperand] using h)
      simp only [instantiate, kindAgreeB, h1, parserOperandIsa, parserOperand, h2, parserOperandA64, Bool.and_self,
        and_self]
    | mem b off i s pre post =>
      simp only [liveOperand, a64LiveMem, Bool.and_eq_true] at h
      obtain ⟨⟨⟨⟨⟨⟨⟨h1, h2⟩, h3⟩, h4⟩, h5⟩, h6⟩, h7⟩, h8⟩ := h
      obtain ⟨b1, b2⟩ := a64_base_instance b c.n h1
      obtain ⟨i1, i2⟩ := a64_index_instance i s (c.n + 1) c.c h3
      have o1 := a64_off_instance off c.b h2
      have p1 := tri_pre_instance pre post c.a h5
      have p2 := tri_post_instance pre post c.a h6
      have p3 := pre_post_exclusive pre post c.a h8
      have sc : scaleField s (if (a64InstIndex i s (c.n + 1) c.c).isNone then 1 else instScale s c.d) = true := by
        by_cases hn : (a64InstIndex i s (c.n + 1) c.c).isNone = true
        · rw [if_pos hn]
          exact scale_one s (index_none_scale i s _ _ h3 h7 hn)
        · rw [if_neg hn]
          exact scale_instance s c.d h4
      have sc2 : ((if (a64InstIndex i s (c.n + 1) c.c).isNone then (1 : Int) else instScale s c.d) == 1 ||
          (a64InstIndex i s (c.n + 1) c.c).isSome) = true := by
        cases hx : a64InstIndex i s (c.n + 1) c.c <;> simp
      refine ⟨?_, ?_⟩
      · simp only [instantiate, kindAgreeB, a64MemShape, b1, o1, i1, sc, p1, p2, Bool.and_self]
      · simp only [parserOperandIsa, instantiate, Bool.and_eq_true]
        refine ⟨parserOperand_mem _ b2 i2, ?_⟩
        simp only [parserOperandA64, sc2, p3, Bool.and_self]
    | imm t =>
      cases t with
      | str ty =>
        by_cases h0 : ty = Spec.star
        · subst h0
          simp [instantiate, kindAgreeB, parserOperandIsa, parserOperand, parserOperandA64]
        · have h0' : (ty == Spec.star) = false := by simpa using h0
          have hm : ty ∈ a64ImmTypes := by simpa [liveOperand, h0'] using h
          simp [instantiate, kindAgreeB, h0', hm, parserOperandIsa, parserOperand, parserOperandA64]
      | _ => simp [liveOperand] at h
    | ident => simp [instantiate, kindAgreeB, parserOperandIsa, parserOperand, parserOperandA64]
    | cond cc =>
      by_cases h0 : cc = Spec.star
      · simp [instantiate, kindAgreeB, h0, parserOperandIsa, parserOperand, parserOperandA64]
      · have h0' : (cc == Spec.star) = false := by simpa using h0
        simp [instantiate, kindAgreeB, h0', parserOperandIsa, parserOperand, parserOperandA64]
    | prfop => simp [instantiate, kindAgreeB, parserOperandIsa, parserOperand, parserOperandA64]
    | _ => simp [liveOperand] at h

theorem parserOperandIsa_parser (isa : Isa) (o : POperand) (h : parserOperandIsa isa o = true) :
    parserOperand o = true := by
  simp only [parserOperandIsa, Bool.and_eq_true] at h
  exact h.1

/-- **every instance of a live entry operand is matched by the entry operand** -/
theorem live_instance (isa : Isa) (e : EOperand) (c : Choice) (h : liveOperand isa e = true) :
    checkOperand isa e (instantiate isa e c) = true ∧ parserOperandIsa isa (instantiate isa e c) = true := by
  obtain ⟨h1, h2⟩ := live_kind isa e c h
  refine ⟨?_, h2⟩
  rw [check_eq_kind isa e _ (parserOperandIsa_parser isa _ h2) (live_schema isa e h)]
  exact h1

end OsacaVerif.Lemmas.Live
