import OsacaVerif.Model.Isa
/-
  Helper lemmas about `Model/Isa.lean` (operand roles): membership and multiplicity in the lists built by
  `pick` / `indexed`, Python slices with the literal bounds of the default-role functions, the
  adjacent-equality test of the zero idiom, and the length side of the matcher.
-/
namespace OsacaVerif.Isa
open OsacaVerif OsacaVerif.Text OsacaVerif.Operand OsacaVerif.IsaOp

/-! ### `indexed` -/

theorem mem_indexedFrom (k : Nat) (ops : List Opnd) (x : SemOp) :
    x ∈ indexedFrom k ops ↔ ∃ j o, ops[j]? = some o ∧ x = .op (k + j) o := by
  induction ops generalizing k with
  | nil => simp [indexedFrom]
  | cons a as ih =>
    simp only [indexedFrom, List.mem_cons, ih]
    constructor
    · rintro (h | ⟨j, o, hj, hx⟩)
      · exact ⟨0, a, by simp, by simpa using h⟩
      · exact ⟨j + 1, o, by simpa using hj, by rw [hx]; congr 1; omega⟩
    · rintro ⟨j, o, hj, hx⟩
      cases j with
      | zero =>
        left
        simp at hj
        subst hj
        simpa using hx
      | succ j =>
        right
        exact ⟨j, o, by simpa using hj, by rw [hx]; congr 1; omega⟩

theorem mem_indexed (ops : List Opnd) (i : Nat) (o : Opnd) :
    .op i o ∈ indexed ops ↔ ops[i]? = some o := by
  unfold indexed
  rw [mem_indexedFrom]
  constructor
  · rintro ⟨j, o', hj, hx⟩
    injection hx with h1 h2
    subst h2
    have : i = j := by omega
    subst this
    exact hj
  · intro h
    exact ⟨i, o, h, by simp⟩

theorem hid_not_mem_indexedFrom (k : Nat) (ops : List Opnd) (h : HOp) : .hid h ∉ indexedFrom k ops := by
  intro hm
  obtain ⟨j, o, _, hx⟩ := (mem_indexedFrom k ops _).mp hm
  cases hx

theorem length_indexedFrom (k : Nat) (ops : List Opnd) : (indexedFrom k ops).length = ops.length := by
  induction ops generalizing k with
  | nil => rfl
  | cons a as ih => simp [indexedFrom, ih]

theorem indexedFrom_append (k : Nat) (a b : List Opnd) :
    indexedFrom k (a ++ b) = indexedFrom k a ++ indexedFrom (k + a.length) b := by
  induction a generalizing k with
  | nil => simp [indexedFrom]
  | cons x xs ih =>
    have e : k + 1 + xs.length = k + (xs.length + 1) := by omega
    simp [indexedFrom, ih, e]

/-! ### `pick` -/

theorem mem_pick (f : Role → Bool) (roles : List Role) (k : Nat) (ops : List Opnd) (i : Nat) (o : Opnd) :
    .op i o ∈ pick f roles (indexedFrom k ops) ↔
      ∃ j r, i = k + j ∧ ops[j]? = some o ∧ roles[j]? = some r ∧ f r = true := by
  induction roles generalizing k ops with
  | nil => simp [pick]
  | cons r rs ih =>
    cases ops with
    | nil => simp [indexedFrom, pick]
    | cons a as =>
      simp only [indexedFrom, pick]
      have tail : (∃ j r', i = k + 1 + j ∧ as[j]? = some o ∧ rs[j]? = some r' ∧ f r' = true) ↔
          ∃ j r', i = k + (j + 1) ∧ (a :: as)[j + 1]? = some o ∧ (r :: rs)[j + 1]? = some r' ∧ f r' = true := by
        constructor
        · rintro ⟨j, r', h1, h2, h3, h4⟩
          exact ⟨j, r', by omega, by simpa using h2, by simpa using h3, h4⟩
        · rintro ⟨j, r', h1, h2, h3, h4⟩
          exact ⟨j, r', by omega, by simpa using h2, by simpa using h3, h4⟩
      by_cases hf : f r = true
      · simp only [hf, if_true, List.mem_cons, ih]
        constructor
        · rintro (h | h)
          · injection h with h1 h2
            exact ⟨0, r, by omega, by simp [h2], by simp, hf⟩
          · obtain ⟨j, r', h1, h2, h3, h4⟩ := tail.mp h
            exact ⟨j + 1, r', h1, h2, h3, h4⟩
        · rintro ⟨j, r', h1, h2, h3, h4⟩
          cases j with
          | zero =>
            left
            simp at h2 h3
            subst h2
            simp [h1]
          | succ j => right; exact tail.mpr ⟨j, r', h1, h2, h3, h4⟩
      · have hf' : f r = false := by simpa using hf
        simp only [hf', Bool.false_eq_true, if_false, ih]
        constructor
        · intro h
          obtain ⟨j, r', h1, h2, h3, h4⟩ := tail.mp h
          exact ⟨j + 1, r', h1, h2, h3, h4⟩
        · rintro ⟨j, r', h1, h2, h3, h4⟩
          cases j with
          | zero =>
            simp at h3
            subst h3
            rw [hf'] at h4
            cases h4
          | succ j => exact tail.mpr ⟨j, r', h1, h2, h3, h4⟩

theorem hid_not_mem_pick (f : Role → Bool) (roles : List Role) (k : Nat) (ops : List Opnd) (h : HOp) :
    .hid h ∉ pick f roles (indexedFrom k ops) := by
  induction roles generalizing k ops with
  | nil => simp [pick]
  | cons r rs ih =>
    cases ops with
    | nil => simp [indexedFrom, pick]
    | cons a as =>
      simp only [indexedFrom, pick]
      by_cases hf : f r = true
      · simp only [hf, if_true, List.mem_cons, not_or]
        exact ⟨(by intro hc; cases hc), ih (k + 1) as⟩
      · have hf' : f r = false := by simpa using hf
        simp only [hf', Bool.false_eq_true, if_false]
        exact ih (k + 1) as

theorem mem_pickHidden (f : Role → Bool) (hs : List (HOp × Role)) (h : HOp) :
    .hid h ∈ pickHidden f hs ↔ ∃ r, (h, r) ∈ hs ∧ f r = true := by
  simp only [pickHidden, List.mem_map, List.mem_filter]
  constructor
  · rintro ⟨⟨h', r⟩, ⟨hm, hf⟩, heq⟩
    injection heq with heq
    subst heq
    exact ⟨r, hm, hf⟩
  · rintro ⟨r, hm, hf⟩
    exact ⟨(h, r), ⟨hm, hf⟩, rfl⟩

theorem op_not_mem_pickHidden (f : Role → Bool) (hs : List (HOp × Role)) (i : Nat) (o : Opnd) :
    .op i o ∉ pickHidden f hs := by
  simp [pickHidden]

/-! ### multiplicity -/

/-- how often `operands[i]` occurs in a list of semantic operands -/
def occ (i : Nat) (l : List SemOp) : Nat :=
  l.countP fun x => match x with
    | .op j _ => j == i
    | _ => false

theorem occ_append (i : Nat) (a b : List SemOp) : occ i (a ++ b) = occ i a + occ i b := by
  simp [occ, List.countP_append]

theorem occ_pickHidden (i : Nat) (f : Role → Bool) (hs : List (HOp × Role)) : occ i (pickHidden f hs) = 0 := by
  simp [occ, pickHidden, List.countP_eq_zero]

theorem occ_hidden_map (i : Nat) (hs : List (HOp × Role)) : occ i (hs.map fun x => SemOp.hid x.1) = 0 := by
  simp [occ, List.countP_eq_zero]

theorem occ_indexedFrom (i k : Nat) (ops : List Opnd) :
    occ i (indexedFrom k ops) = if k ≤ i ∧ i < k + ops.length then 1 else 0 := by
  induction ops generalizing k with
  | nil => simp [indexedFrom, occ]
  | cons a as ih =>
    have ih' := ih (k + 1)
    simp only [occ] at ih' ⊢
    simp only [indexedFrom, List.countP_cons, ih', List.length_cons]
    by_cases h : k = i
    · subst h; simp; omega
    · have : (k == i) = false := by simpa using h
      simp only [this]
      by_cases h2 : k + 1 ≤ i ∧ i < k + 1 + as.length
      · have h3 : k ≤ i ∧ i < k + (as.length + 1) := by omega
        simp [h2, h3]
      · have h3 : ¬ (k ≤ i ∧ i < k + (as.length + 1)) := by omega
        simp [h2, h3]

/-- multiplicity of `operands[i]` in `pick f roles (indexedFrom k ops)` -/
theorem occ_pick (f : Role → Bool) (roles : List Role) (k : Nat) (ops : List Opnd) (i : Nat) :
    occ i (pick f roles (indexedFrom k ops)) =
      if k ≤ i then
        match roles[i - k]?, ops[i - k]? with
        | some r, some _ => if f r then 1 else 0
        | _, _ => 0
      else 0 := by
  induction roles generalizing k ops with
  | nil => simp [pick, occ]
  | cons r rs ih =>
    cases ops with
    | nil =>
      simp only [indexedFrom, pick]
      by_cases hk : k ≤ i <;> simp [occ, hk]
    | cons a as =>
      have ih' := ih (k + 1) as
      simp only [indexedFrom, pick]
      by_cases hki : k = i
      · subst hki
        have h0 : ¬ (k + 1 ≤ k) := by omega
        simp only [h0, if_false] at ih'
        by_cases hf : f r = true
        · simp only [hf, if_true]
          simp only [occ] at ih' ⊢
          simp [ih', hf]
        · have hf' : f r = false := by simpa using hf
          simp only [hf', Bool.false_eq_true, if_false, ih']
          simp [hf']
      · by_cases hk : k ≤ i
        · have hk1 : k + 1 ≤ i := by omega
          have hsub : i - k = (i - (k + 1)) + 1 := by omega
          simp only [hk1, if_true] at ih'
          simp only [hk, if_true, hsub, List.getElem?_cons_succ]
          have hne : (k == i) = false := by simpa using hki
          by_cases hf : f r = true
          · simp only [hf, if_true]
            simp only [occ] at ih' ⊢
            simp only [List.countP_cons, ih', hne]
            simp
          · have hf' : f r = false := by simpa using hf
            simp only [hf', Bool.false_eq_true, if_false, ih']
        · have hk1 : ¬ (k + 1 ≤ i) := by omega
          simp only [hk1, if_false] at ih'
          simp only [hk, if_false]
          have hne : (k == i) = false := by simpa using hki
          by_cases hf : f r = true
          · simp only [hf, if_true]
            simp only [occ] at ih' ⊢
            simp [ih', hne]
          · have hf' : f r = false := by simpa using hf
            simp only [hf', Bool.false_eq_true, if_false, ih']

/-! ### the zero-idiom test -/

theorem adjEq_iff (ops : List Opnd) :
    adjEq ops = true ↔ ∀ j a b, ops[j]? = some a → ops[j + 1]? = some b → a.key = b.key := by
  induction ops with
  | nil => simp [adjEq]
  | cons x xs ih =>
    cases xs with
    | nil => simp [adjEq]
    | cons y ys =>
      simp only [adjEq, Bool.and_eq_true, beq_iff_eq, ih]
      constructor
      · rintro ⟨h0, hr⟩ j a b ha hb
        cases j with
        | zero =>
          simp at ha hb
          subst ha; subst hb
          exact h0
        | succ j => exact hr j a b (by simpa using ha) (by simpa using hb)
      · intro h
        exact ⟨h 0 x y (by simp) (by simp), fun j a b ha hb => h (j + 1) a b (by simpa using ha) (by simpa using hb)⟩

/-! ### Python slices with the bounds the default-role functions use -/

theorem pySlice_0_m1 {α : Type} (l : List α) : pySlice (some 0) (some (-1)) l = l.dropLast := by
  simp [pySlice, pyBound, List.dropLast_eq_take]

theorem pySlice_m1_none {α : Type} (l : List α) : pySlice (some (-1)) none l = l.drop (l.length - 1) := by
  simp [pySlice, pyBound]

theorem pySlice_1_none {α : Type} (l : List α) : pySlice (some 1) none l = l.drop 1 := by
  cases l <;> simp [pySlice, pyBound]

theorem pySlice_none_1 {α : Type} (l : List α) : pySlice none (some 1) l = l.take 1 := by
  cases l <;> simp [pySlice, pyBound]

/-! ### the matcher compares lists of equal length -/

theorem matchOperands_length (isa : Isa) (es : List EOperand) (os : List POperand)
    (h : Match.matchOperands isa es os = true) : es.length = os.length := by
  induction es generalizing os with
  | nil =>
    cases os with
    | nil => rfl
    | cons o os => simp [Match.matchOperands] at h
  | cons e es ih =>
    cases os with
    | nil => simp [Match.matchOperands] at h
    | cons o os =>
      simp only [Match.matchOperands, Bool.and_eq_true] at h
      simp [ih os h.2]

theorem getInstruction_some (isa : Isa) (db : List IsaEntry) (name : Txt) (ops : List POperand) (e : IsaEntry)
    (h : getInstruction isa db name ops = some e) : e ∈ db ∧ e.e.operands.length = ops.length := by
  unfold getInstruction at h
  have h1 := List.find?_some h
  have h2 := List.mem_of_find?_eq_some h
  simp only [Match.entryMatches, Bool.and_eq_true] at h1
  exact ⟨h2, matchOperands_length isa _ _ h1.2⟩

theorem lookup_some (isa : Isa) (db : List IsaEntry) (name : Txt) (ops : List POperand) (e : IsaEntry)
    (h : lookup isa db name ops = some e) : e ∈ db ∧ e.e.operands.length = ops.length := by
  unfold lookup at h
  split at h
  · next e' he' =>
    injection h with h
    subst h
    exact getInstruction_some isa db name ops _ he'
  · split at h
    · exact getInstruction_some isa db _ ops e h
    · cases h

theorem substituteMem_length (ops : List POperand) : (substituteMem ops).length = ops.length := by
  simp [substituteMem]

theorem substituteMem_noMem (ops : List POperand) (h : ops.any isMemP = false) : substituteMem ops = ops := by
  induction ops with
  | nil => rfl
  | cons o os ih =>
    simp only [List.any_cons, Bool.or_eq_false_iff] at h
    simp only [substituteMem, List.map_cons] at ih ⊢
    rw [ih h.2]
    cases o <;> simp_all [isMemP]

end OsacaVerif.Isa
