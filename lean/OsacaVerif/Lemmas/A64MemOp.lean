import OsacaVerif.Lemmas.A64Mem
/-
  A memory reference as the last operand of a line: the operand alternatives, and the post-processing
  (`process_memory_address`) against the specification's expectation.
-/
namespace OsacaVerif.ParseA64
open OsacaVerif.Text OsacaVerif.Spec.A64 OsacaVerif.Gen

theorem pyInt0_int (i : IntA) : pyInt0 (optNeg i.neg ++ intDigits i) = some (intVal i) := by
  simp only [intDigits, intVal]
  cases i.neg <;> cases i.hex <;>
    simp [optNeg, pyInt0_showNat, pyInt0_neg_showNat, pyInt0_showHex, pyInt0_neg_showHex]

/-- **memory reference** in any operand slot, as the last operand -/
theorem goodOp_mem (m : MemA) (hm : MemOk m) (gs : List Txt) (hgs : InnerOk (memPieces m).tail gs) :
    GoodOp true true ([91] ++ joinInner (memPieces m).tail gs) (.mem (memTok m)) := by
  have hws : isWs 91 = false := by decide
  have hform : ∀ g rest : Txt, g ++ (([91] ++ joinInner (memPieces m).tail gs) ++ rest) =
      g ++ 91 :: (joinInner (memPieces m).tail gs ++ rest) := by
    intro g rest; simp
  have hcommon : ∀ g rest, Blank g → IsTail rest →
      ∃ r', memoryP (g ++ 91 :: (joinInner (memPieces m).tail gs ++ rest)) = some (memTok m, r') ∧
        skipWs r' = skipWs rest ∧
        registerP (g ++ 91 :: (joinInner (memPieces m).tail gs ++ rest)) = none ∧
        conditionP (g ++ 91 :: (joinInner (memPieces m).tail gs ++ rest)) = none ∧
        prefetchP (g ++ 91 :: (joinInner (memPieces m).tail gs ++ rest)) = none ∧
        immediate (g ++ 91 :: (joinInner (memPieces m).tail gs ++ rest)) = none ∧
        identifier (g ++ 91 :: (joinInner (memPieces m).tail gs ++ rest)) = none := by
    intro g rest hg ht
    obtain ⟨r', hmem, hsk⟩ := memoryP_text m hm g gs rest hg hgs ht
    rw [hform] at hmem
    exact ⟨r', hmem, hsk,
      registerP_none_nonalpha g 91 _ hg hws (by decide) (by decide),
      conditionP_none_nonalpha g 91 _ hg hws (by decide),
      prefetchP_none_nonalpha g 91 _ hg hws (by decide),
      immediate_none_head g 91 _ hg hws (by decide) (by decide) (by decide),
      identifier_none_head g 91 _ hg hws (by decide) (by decide)⟩
  refine ⟨?_, ?_, ?_, ?_⟩
  · intro g rest hg ht
    obtain ⟨r', hmem, hsk, hreg, hcond, _, himm, _⟩ := hcommon g rest hg ht
    refine ⟨r', ?_, hsk⟩
    rw [hform]
    simp [operandRest, hcond, hreg, himm, hmem, arithOp, arithP]
  · intro _ g rest hg ht
    obtain ⟨r', hmem, hsk, hreg, _, hprf, himm, hid⟩ := hcommon g rest hg ht
    refine ⟨r', ?_, hsk⟩
    rw [hform]
    simp [operandFirst, hprf, hreg, himm, hmem, arithOp, arithP, hid]
  · intro g rest hg _
    rw [hform]
    exact shiftOp_none_nonalpha g 91 _ hg hws (by decide)
  · exact ⟨91, joinInner (memPieces m).tail gs, by simp, hws, by decide, by decide⟩

/-! ### post-processing -/
theorem forcedPrefix_digits (n : Nat) : forcedPrefix (showNat n) = none := by
  obtain ⟨d, ds, hd, hdd⟩ := showNat_cons n
  have hb := digit_bounds d hdd
  unfold forcedPrefix
  rw [lower_showNat, hd]
  have h1 : (([115, 112] : List Nat) == d :: ds) = false := by
    have : (115 : Nat) ≠ d := by omega
    simp [this]
  have h2 : (([122, 114] : List Nat) == d :: ds) = false := by
    have : (122 : Nat) ≠ d := by omega
    simp [this]
  simp only [A64.memAliasForced, List.find?, h1, h2]

theorem memRegOf_memreg (r : RegA) (hr : MemRegOk r) (t : RegTok) (hpre : t.pre = (memRegTok r).pre)
    (hname : t.name = (memRegTok r).name) : memRegOf t = .ok (expectMemReg r) := by
  cases hr with
  | scalar p n hp =>
    simp only [memRegTok] at hpre hname
    simp [memRegOf, hname, hpre, forcedPrefix_digits, expectMemReg, lower, lowerTxt1]
  | alias t' ht =>
    simp only [memRegTok] at hpre hname
    rcases alias_cases t' ht with rfl | rfl | rfl | rfl | rfl | rfl | rfl | rfl <;>
      simp [memRegOf, hname, hpre, aliasTok, forcedPrefix, A64.memAliasForced, lower, lowerC, expectMemReg,
        aliasName, List.find?]

theorem processMemory_memTok (m : MemA) (hm : MemOk m) : processMemory (memTok m) = .ok (expectMem m) := by
  obtain ⟨hb, hmid, hpp⟩ := hm
  have hbase := memRegOf_memreg m.base hb (memRegTok m.base) rfl rfl
  have hpost : memPostOf (memTok m).post = .ok (optMap (fun i => PostIdx.imm (intVal i)) m.post) := by
    simp only [memTok, endTok]
    cases hpre : m.pre with
    | true => have := hpp hpre; simp [this, memPostOf, optMap]
    | false =>
      cases m.post with
      | none => simp [memPostOf, optMap]
      | some i => simp [memPostOf, pyInt0_int, optMap]
  have hprev : (memTok m).pre = m.pre := by
    simp only [memTok, endTok]
    cases hpre : m.pre with
    | true => simp
    | false => cases m.post <;> simp
  match hmm : m.mid, hmid with
  | .none, _ =>
    simp only [processMemory, memTok, hmm, midTok, memOffsetOf, memScaleOf, memIndexOf, hbase] at hpost hprev ⊢
    simp [hpost, hprev, expectMem, hmm, A64.defaultScale]
  | .off (.int i), _ =>
    simp only [processMemory, memTok, hmm, midTok, memOffsetOf, pyInt0_int, memScaleOf, memIndexOf, hbase] at hpost hprev ⊢
    simp [hpost, hprev, expectMem, hmm, A64.defaultScale]
  | .off (.ident i), _ =>
    simp only [processMemory, memTok, hmm, midTok, memOffsetOf, memScaleOf, memIndexOf, hbase] at hpost hprev ⊢
    simp [hpost, hprev, expectMem, hmm, A64.defaultScale, identTok, expectIdent]
  | .idx r s, hi =>
    obtain ⟨hr, hs⟩ := hi
    have hidx := memRegOf_memreg r hr (idxTok r (toW s)) rfl rfl
    cases s with
    | none =>
      have hscale : memScaleOf (some (idxTok r (toW none))) = .ok 1 := by
        simp [memScaleOf, idxTok, toW, A64.defaultScale]
      simp only [processMemory, memTok, hmm, midTok, memOffsetOf, hscale, memIndexOf, hidx, hbase] at hpost hprev ⊢
      simp [hpost, hprev, expectMem, hmm, idxTok, toW, shiftText, optMap]
    | some sh =>
      obtain ⟨op, amt⟩ := sh
      have hv := scaleOps_valid _ (hs ⟨op, amt⟩ rfl)
      have hv' : lower op ∈ A64.validShiftOps := by simpa using hv
      cases amt with
      | none =>
        have hscale : memScaleOf (some (idxTok r (toW (some ⟨op, none⟩)))) = .ok 1 := by
          simp [memScaleOf, idxTok, toW, amtTok, A64.defaultScale]
        simp only [processMemory, memTok, hmm, midTok, memOffsetOf, hscale, memIndexOf, hidx, hbase] at hpost hprev ⊢
        simp [hpost, hprev, expectMem, hmm, idxTok, toW, shiftText, amtTok, optMap]
      | some a =>
        have hscale : memScaleOf (some (idxTok r (toW (some ⟨op, some a⟩)))) = .ok (pow2 a.2) := by
          simp [memScaleOf, idxTok, toW, amtTok, hv', pyInt10_showNat, A64.scaleBase, pow2]
        simp only [processMemory, memTok, hmm, midTok, memOffsetOf, hscale, memIndexOf, hidx, hbase] at hpost hprev ⊢
        simp [hpost, hprev, expectMem, hmm, idxTok, toW, shiftText, amtTok, optMap]

theorem covered_mem (fst : Bool) (m : MemA) (hm : MemOk m) : CoveredOp true fst (.mem m) := by
  refine ⟨[91], (memPieces m).tail, .mem (memTok m), ?_, ?_, ?_⟩
  · show memPieces m = ([91], 1) :: (memPieces m).tail
    rw [memPieces_eq]; rfl
  · intro gs hgs
    have := goodOp_mem m hm gs hgs
    cases fst with
    | true => exact this.toFirst
    | false => exact this.toRest
  · simp [processOperand, processMemory_memTok m hm, expectOp]

end OsacaVerif.ParseA64
