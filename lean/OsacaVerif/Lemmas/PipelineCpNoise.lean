import OsacaVerif.Lemmas.PipelineNoise
import OsacaVerif.Lemmas.PipelineCp
/-
  Helper development for the pipeline theorems, part 6: operand-free lines of latency 0 and the
  critical path.  Such a line gets a row `(line, longer = None, carried = (0, None))` and the
  `chain_length` 0; the rows of the other lines are unchanged.  The total is unchanged when it is
  non-negative, the chosen last line (Python's first maximum) and with it the marked path when it is
  positive — for a total of 0 the first maximum may be such a line (see Props/C11Pipeline).
-/
namespace OsacaVerif.Pipeline
open OsacaVerif OsacaVerif.DG OsacaVerif.LCD

/-! ### Python's `max(xs, key=f)`: the first maximal element -/

def amax {α : Type} (f : α → Rat) (m : α) (l : List α) : α :=
  l.foldl (fun (m : α) (x : α) => if f m < f x then x else m) m

theorem amax_cons {α : Type} (f : α → Rat) (m x : α) (l : List α) :
    amax f m (x :: l) = amax f (if f m < f x then x else m) l := rfl

theorem amax_ge {α : Type} (f : α → Rat) (m : α) (l : List α) :
    f m ≤ f (amax f m l) ∧ ∀ x ∈ l, f x ≤ f (amax f m l) := by
  induction l generalizing m with
  | nil => exact ⟨le_refl _, by simp⟩
  | cons y ys ih =>
    rw [amax_cons]
    obtain ⟨h1, h2⟩ := ih (if f m < f y then y else m)
    by_cases hlt : f m < f y
    · simp only [hlt, if_true] at h1 h2 ⊢
      refine ⟨le_trans (le_of_lt hlt) h1, ?_⟩
      intro x hx
      rcases List.mem_cons.mp hx with rfl | hx
      · exact h1
      · exact h2 x hx
    · simp only [hlt, if_false] at h1 h2 ⊢
      refine ⟨h1, ?_⟩
      intro x hx
      rcases List.mem_cons.mp hx with rfl | hx
      · exact le_trans (not_lt.mp hlt) h1
      · exact h2 x hx

theorem amax_mem {α : Type} (f : α → Rat) (m : α) (l : List α) : amax f m l ∈ m :: l := by
  induction l generalizing m with
  | nil => simp [amax]
  | cons y ys ih =>
    rw [amax_cons]
    have := ih (if f m < f y then y else m)
    rcases List.mem_cons.mp this with h | h
    · rw [h]; split <;> simp
    · exact List.mem_cons_of_mem _ (List.mem_cons_of_mem _ h)

/-- the result is the FIRST element that attains the maximum -/
theorem amax_first {α : Type} (f : α → Rat) (m : α) (l : List α) :
    (m :: l).find? (fun x => decide (f x = f (amax f m l))) = some (amax f m l) := by
  induction l generalizing m with
  | nil => simp [amax]
  | cons y ys ih =>
    rw [amax_cons]
    have h := ih (if f m < f y then y else m)
    have hge := (amax_ge f (if f m < f y then y else m) ys).1
    by_cases hlt : f m < f y
    · simp only [hlt, if_true] at h hge ⊢
      have hne : f m ≠ f (amax f y ys) := ne_of_lt (lt_of_lt_of_le hlt hge)
      rw [List.find?_cons_of_neg (by simpa using hne)]
      exact h
    · simp only [hlt, if_false] at h hge ⊢
      by_cases he : f m = f (amax f m ys)
      · rw [List.find?_cons_of_pos (by simpa using he)]
        rw [List.find?_cons_of_pos (by simpa using he)] at h
        exact h
      · rw [List.find?_cons_of_neg (by simpa using he)] at h ⊢
        have hlt2 : f m < f (amax f m ys) := lt_of_le_of_ne hge he
        have hne : f y ≠ f (amax f m ys) := ne_of_lt (lt_of_le_of_lt (not_lt.mp hlt) hlt2)
        rw [List.find?_cons_of_neg (by simpa using hne)]
        exact h

theorem amax_congr {α : Type} (f g : α → Rat) (m : α) (l : List α) (h : ∀ x ∈ m :: l, f x = g x) :
    amax f m l = amax g m l := by
  induction l generalizing m with
  | nil => rfl
  | cons y ys ih =>
    rw [amax_cons, amax_cons, h m (by simp), h y (by simp)]
    apply ih
    intro x hx
    rcases List.mem_cons.mp hx with rfl | hx
    · split <;> exact h _ (by simp)
    · exact h x (by simp [hx])

theorem find?_filter_imp {α : Type} (p q : α → Bool) (l : List α) (h : ∀ x ∈ l, p x = true → q x = true) :
    l.find? p = (l.filter q).find? p := by
  induction l with
  | nil => rfl
  | cons x xs ih =>
    have ih' := ih (fun y hy => h y (List.mem_cons_of_mem _ hy))
    by_cases hq : q x = true
    · rw [List.filter_cons_of_pos hq, List.find?_cons, List.find?_cons, ih']
    · rw [List.filter_cons_of_neg hq]
      have : ¬ p x = true := fun hp => hq (h x (by simp) hp)
      rw [List.find?_cons_of_neg this, ih']

/-- dropping elements of value 0 does not change the first maximum, if the maximum is positive -/
theorem amax_filter {α : Type} (f : α → Rat) (keep : α → Bool) (m : α) (l : List α) (c : α) (cs : List α)
    (hfil : (m :: l).filter keep = c :: cs) (hnoise : ∀ x ∈ m :: l, ¬ keep x = true → f x = 0)
    (hpos : 0 < f (amax f c cs)) : amax f m l = amax f c cs := by
  have hsub : ∀ x ∈ c :: cs, x ∈ m :: l := fun x hx => (List.mem_filter.mp (hfil ▸ hx)).1
  have hr_mem : amax f c cs ∈ m :: l := hsub _ (amax_mem f c cs)
  have hge : f (amax f c cs) ≤ f (amax f m l) := by
    rcases List.mem_cons.mp hr_mem with h | h
    · rw [h]; exact (amax_ge f m l).1
    · exact (amax_ge f m l).2 _ h
  have hkeep : keep (amax f m l) = true := by
    by_contra hk
    have := hnoise _ (amax_mem f m l) hk
    rw [this] at hge
    exact absurd hpos (not_lt.mpr hge)
  have hmem' : amax f m l ∈ c :: cs := by rw [← hfil]; exact List.mem_filter.mpr ⟨amax_mem f m l, hkeep⟩
  have hle : f (amax f m l) ≤ f (amax f c cs) := by
    rcases List.mem_cons.mp hmem' with h | h
    · rw [h]; exact (amax_ge f c cs).1
    · exact (amax_ge f c cs).2 _ h
  have heq : f (amax f m l) = f (amax f c cs) := le_antisymm hle hge
  have h1 := amax_first f m l
  have h2 := amax_first f c cs
  rw [heq] at h1
  rw [find?_filter_imp _ keep (m :: l), hfil, h2] at h1
  · exact (Option.some.inj h1).symm
  · intro x hx hp
    by_contra hk
    have h0 := hnoise x hx hk
    simp only [decide_eq_true_eq] at hp
    rw [h0] at hp
    rw [← hp] at hpos
    exact absurd hpos (lt_irrefl _)

/-- … nor the maximal value, if it is non-negative -/
theorem amax_filter_val {α : Type} (f : α → Rat) (keep : α → Bool) (m : α) (l : List α) (c : α) (cs : List α)
    (hfil : (m :: l).filter keep = c :: cs) (hnoise : ∀ x ∈ m :: l, ¬ keep x = true → f x = 0)
    (hnn : 0 ≤ f (amax f c cs)) : f (amax f m l) = f (amax f c cs) := by
  have hsub : ∀ x ∈ c :: cs, x ∈ m :: l := fun x hx => (List.mem_filter.mp (hfil ▸ hx)).1
  have hr_mem : amax f c cs ∈ m :: l := hsub _ (amax_mem f c cs)
  have hge : f (amax f c cs) ≤ f (amax f m l) := by
    rcases List.mem_cons.mp hr_mem with h | h
    · rw [h]; exact (amax_ge f m l).1
    · exact (amax_ge f m l).2 _ h
  by_cases hk : keep (amax f m l) = true
  · have hmem' : amax f m l ∈ c :: cs := by rw [← hfil]; exact List.mem_filter.mpr ⟨amax_mem f m l, hk⟩
    have hle : f (amax f m l) ≤ f (amax f c cs) := by
      rcases List.mem_cons.mp hmem' with h | h
      · rw [h]; exact (amax_ge f c cs).1
      · exact (amax_ge f c cs).2 _ h
    exact le_antisymm hle hge
  · have h0 := hnoise _ (amax_mem f m l) hk
    rw [h0] at hge ⊢
    exact le_antisymm hnn hge

theorem amax_all_zero {α : Type} (f : α → Rat) (m : α) (l : List α) (h : ∀ x ∈ m :: l, f x = 0) :
    f (amax f m l) = 0 := h _ (amax_mem f m l)

/-! ### the table -/

/-- the lines of the operand-free instruction forms of a kernel -/
def noiseLines (keep : Ins → Bool) (k : List Ins) : List Nat := (k.filter (fun i => !keep i)).map (·.line)

theorem mem_noiseLines (keep : Ins → Bool) (k : List Ins) (l : Nat) : l ∈ noiseLines keep k ↔ ∃ i ∈ k, ¬ keep i = true ∧ i.line = l := by
  simp [noiseLines, and_assoc]

/-- no edge touches an operand-free line -/
def EdgesAvoid (keep : Ins → Bool) (es : List Edge) (k : List Ins) : Prop :=
  ∀ e ∈ es, e.src.line ∉ noiseLines keep k ∧ e.dst.line ∉ noiseLines keep k

theorem noiseLines_append (keep : Ins → Bool) (a b : List Ins) : noiseLines keep (a ++ b) = noiseLines keep a ++ noiseLines keep b := by
  simp [noiseLines]

def noiseRow (l : Nat) : CpRow := { line := l, longer := none, carried := (0, none) }

theorem cpCands_congr (es : List Edge) (T1 T2 : List CpRow) (l : Nat)
    (h : ∀ e ∈ es, T1.find? (·.line == e.src.line) = T2.find? (·.line == e.src.line)) :
    cpCands es T1 l = cpCands es T2 l := by
  unfold cpCands
  apply filterMap_congr_mem
  intro e he
  rw [h e he]

theorem newRow_noise (es : List Edge) (T : List CpRow) (i : Ins)
    (hsrc : ∀ e ∈ es, e.src.line ≠ i.line) (hdst : ∀ e ∈ es, e.dst.line ≠ i.line) :
    newRow es T i = noiseRow i.line := by
  have hc : cpCands es T i.line = [] := by
    unfold cpCands
    rw [List.filterMap_eq_nil_iff]
    intro e he
    have := hdst e he
    simp [this]
  have hl : loadEdgeOf es i.line = 0 := by
    unfold loadEdgeOf
    have : es.find? (fun e => e.src == ⟨i.line, true⟩ && e.dst == ⟨i.line, false⟩) = none := by
      rw [List.find?_eq_none]
      intro e he hcond
      simp only [Bool.and_eq_true, beq_iff_eq] at hcond
      exact hsrc e he (by rw [hcond.1])
    rw [this]
  simp [newRow, hc, hl, LCD.firstMax, carriedOf, noiseRow]

/-- **the table of a kernel with operand-free lines**: such a line has the row `noiseRow`, every
    other line the row it has in the table of the kernel without them -/
theorem cpTable_noise (keep : Ins → Bool) (k : List Ins) (es : List Edge) (hwf : WFKernel k) (hes : EdgesAvoid keep es k) (l : Nat) :
    (cpTable k es).find? (·.line == l) =
      if l ∈ noiseLines keep k then some (noiseRow l) else (cpTable (k.filter keep) es).find? (·.line == l) := by
  induction k using List.reverseRecOn generalizing l with
  | nil => simp [noiseLines, cpTable_nil]
  | append_singleton pre i ih =>
    have hwfp : WFKernel pre := by
      unfold WFKernel at hwf ⊢
      rw [List.map_append, List.pairwise_append] at hwf
      exact hwf.1
    have hfresh : ∀ j ∈ pre, j.line < i.line := by
      intro j hj
      unfold WFKernel at hwf
      rw [List.map_append, List.pairwise_append] at hwf
      exact hwf.2.2 _ (List.mem_map.mpr ⟨j, hj, rfl⟩) _ (by simp)
    have hesp : EdgesAvoid keep es pre := by
      intro e he
      have := hes e he
      rw [noiseLines_append keep] at this
      exact ⟨fun h => this.1 (List.mem_append_left _ h), fun h => this.2 (List.mem_append_left _ h)⟩
    have ihp := ih hwfp hesp
    have hi_not_pre : i.line ∉ pre.map (·.line) := by
      intro h
      obtain ⟨j, hj, e⟩ := List.mem_map.mp h
      have := hfresh j hj; omega
    have hi_not_noise : i.line ∉ noiseLines keep pre := by
      intro h
      obtain ⟨j, hj, _, e⟩ := (mem_noiseLines keep pre _).mp h
      have := hfresh j hj; omega
    rw [cpTable_snoc, List.find?_append, List.filter_append, noiseLines_append keep]
    by_cases hk : keep i = true
    · -- a kept line: its row is computed from rows of kept lines only
      have hn1 : noiseLines keep [i] = [] := by simp [noiseLines, hk]
      have hf1 : [i].filter keep = [i] := by simp [hk]
      rw [hn1, List.append_nil, hf1, cpTable_snoc, List.find?_append]
      have hrow : newRow es (cpTable pre es) i = newRow es (cpTable (pre.filter keep) es) i := by
        have hc : cpCands es (cpTable pre es) i.line = cpCands es (cpTable (pre.filter keep) es) i.line := by
          apply cpCands_congr
          intro e he
          rw [ihp e.src.line, if_neg (hesp e he).1]
        simp only [newRow, hc]
      rw [hrow, ihp l]
      by_cases hl : l ∈ noiseLines keep pre
      · simp [hl]
      · simp [hl]
    · -- an operand-free line
      have hin : ∀ e ∈ es, e.src.line ≠ i.line ∧ e.dst.line ≠ i.line := by
        intro e he
        have := hes e he
        rw [noiseLines_append keep] at this
        have hmem : i.line ∈ noiseLines keep [i] := by simp [noiseLines, hk]
        exact ⟨fun h => this.1 (by rw [h]; exact List.mem_append_right _ hmem),
               fun h => this.2 (by rw [h]; exact List.mem_append_right _ hmem)⟩
      have hn1 : noiseLines keep [i] = [i.line] := by simp [noiseLines, hk]
      have hf1 : [i].filter keep = [] := by simp [hk]
      rw [hn1, hf1, List.append_nil, newRow_noise es _ i (fun e he => (hin e he).1) (fun e he => (hin e he).2),
        ihp l]
      by_cases hl : l ∈ noiseLines keep pre
      · simp [hl]
      · by_cases hli : l = i.line
        · subst hli
          have hnone : (cpTable (pre.filter keep) es).find? (fun r => r.line == i.line) = none := by
            rw [List.find?_eq_none]
            intro r hr hc
            have : r.line ∈ (cpTable (pre.filter keep) es).map (·.line) := List.mem_map.mpr ⟨r, hr, rfl⟩
            rw [cpTable_lines] at this
            obtain ⟨j, hj, e⟩ := List.mem_map.mp this
            have := hfresh j (List.mem_filter.mp hj).1
            simp only [beq_iff_eq] at hc
            omega
          simp [hl, hnone, noiseRow]
        · have hne : ¬ (noiseRow i.line).line = l := by simp only [noiseRow]; omega
          simp [hl, hli, hne]

theorem chainLengthAt_kept (keep : Ins → Bool) (k : List Ins) (es : List Edge) (hwf : WFKernel k) (hes : EdgesAvoid keep es k) (i : Ins)
    (hi : i ∈ k) (hk : keep i = true) (k1 k2 : List Ins) :
    chainLengthAt k1 (cpTable k es) i = chainLengthAt k2 (cpTable (k.filter keep) es) i := by
  unfold chainLengthAt
  rw [cpTable_noise keep k es hwf hes i.line]
  have : i.line ∉ noiseLines keep k := by
    intro h
    obtain ⟨j, hj, hjk, e⟩ := (mem_noiseLines keep k _).mp h
    have := wf_line_inj hwf hj hi e
    rw [this] at hjk
    exact hjk hk
  rw [if_neg this]

theorem chainLengthAt_noise (keep : Ins → Bool) (k : List Ins) (es : List Edge) (hwf : WFKernel k) (hes : EdgesAvoid keep es k)
    (hlat : ∀ i ∈ k, ¬ keep i = true → i.lat = 0) (i : Ins) (hi : i ∈ k) (hk : ¬ keep i = true) (k1 : List Ins) :
    chainLengthAt k1 (cpTable k es) i = 0 := by
  unfold chainLengthAt
  rw [cpTable_noise keep k es hwf hes i.line]
  have : i.line ∈ noiseLines keep k := (mem_noiseLines keep k _).mpr ⟨i, hi, hk, rfl⟩
  rw [if_pos this]
  simp [noiseRow, hlat i hi hk]

theorem cpLast_eq_amax (k : List Ins) (T : List CpRow) :
    cpLast k T = match k with
      | [] => none
      | i :: is => some (amax (chainLengthAt k T) i is) := by
  cases k <;> rfl

theorem cpTotal_eq_amax (i : Ins) (is : List Ins) (es : List Edge) :
    cpTotal (i :: is) es =
      chainLengthAt (i :: is) (cpTable (i :: is) es) (amax (chainLengthAt (i :: is) (cpTable (i :: is) es)) i is) := by
  have h := cpLast_spec (i :: is) es _ (by rw [cpLast_eq_amax])
  exact h.2

/-- the values `chain_length` takes on the kept lines are the same in both tables -/
theorem amax_tables (keep : Ins → Bool) (k : List Ins) (es : List Edge) (hwf : WFKernel k) (hes : EdgesAvoid keep es k)
    (c : Ins) (cs : List Ins) (hfil : k.filter keep = c :: cs) (k1 k2 : List Ins) :
    amax (chainLengthAt k1 (cpTable k es)) c cs = amax (chainLengthAt k2 (cpTable (k.filter keep) es)) c cs := by
  apply amax_congr
  intro x hx
  have hx' : x ∈ k.filter keep := by rw [hfil]; exact hx
  exact chainLengthAt_kept keep k es hwf hes x (List.mem_filter.mp hx').1 (List.mem_filter.mp hx').2 k1 k2

/-- **total**: unchanged by operand-free lines when it is non-negative -/
theorem cpTotal_drop (keep : Ins → Bool) (k : List Ins) (es : List Edge) (hwf : WFKernel k) (hes : EdgesAvoid keep es k)
    (hlat : ∀ i ∈ k, ¬ keep i = true → i.lat = 0)
    (hnn : 0 ≤ cpTotal (k.filter keep) es) : cpTotal k es = cpTotal (k.filter keep) es := by
  cases hk : k with
  | nil => rfl
  | cons m l =>
    rw [← hk]
    have hval : cpTotal k es = chainLengthAt k (cpTable k es) (amax (chainLengthAt k (cpTable k es)) m l) := by
      rw [hk]; exact cpTotal_eq_amax m l es
    cases hfil : k.filter keep with
    | nil =>
      -- only operand-free lines: every chain length is 0
      rw [hval]
      have : cpTotal ([] : List Ins) es = 0 := rfl
      rw [this]
      apply amax_all_zero
      intro x hx
      have hxk : x ∈ k := by rw [hk]; exact hx
      have : ¬ keep x = true := by
        intro h
        have : x ∈ k.filter keep := List.mem_filter.mpr ⟨hxk, h⟩
        rw [hfil] at this; cases this
      exact chainLengthAt_noise keep k es hwf hes hlat x hxk this k
    | cons c cs =>
      have hval2 := cpTotal_eq_amax c cs es
      rw [hfil] at hnn
      rw [hval, hval2]
      have ht := amax_tables keep k es hwf hes c cs hfil k (c :: cs)
      rw [hfil] at ht
      have hnn' : 0 ≤ chainLengthAt k (cpTable k es) (amax (chainLengthAt k (cpTable k es)) c cs) := by
        rw [ht]
        have hmem : amax (chainLengthAt (c :: cs) (cpTable (c :: cs) es)) c cs ∈ k.filter keep := by
          rw [hfil]; exact amax_mem _ c cs
        have := chainLengthAt_kept keep k es hwf hes _ (List.mem_filter.mp hmem).1 (List.mem_filter.mp hmem).2 k (c :: cs)
        rw [hfil] at this
        rw [this, ← hval2]; exact hnn
      have := amax_filter_val (chainLengthAt k (cpTable k es)) keep m l c cs (by rw [← hk]; exact hfil)
        (fun x hx hkx => chainLengthAt_noise keep k es hwf hes hlat x (by rw [hk]; exact hx) hkx k) hnn'
      rw [this, ht]
      have hmem : amax (chainLengthAt (c :: cs) (cpTable (c :: cs) es)) c cs ∈ k.filter keep := by
        rw [hfil]; exact amax_mem _ c cs
      have h2 := chainLengthAt_kept keep k es hwf hes _ (List.mem_filter.mp hmem).1 (List.mem_filter.mp hmem).2 k (c :: cs)
      rw [hfil] at h2
      exact h2

/-- **chosen last line**: unchanged when the total is positive -/
theorem cpLast_drop (keep : Ins → Bool) (k : List Ins) (es : List Edge) (hwf : WFKernel k) (hes : EdgesAvoid keep es k)
    (hlat : ∀ i ∈ k, ¬ keep i = true → i.lat = 0)
    (hpos : 0 < cpTotal (k.filter keep) es) :
    cpLast k (cpTable k es) = cpLast (k.filter keep) (cpTable (k.filter keep) es) := by
  cases hfil : k.filter keep with
  | nil => rw [hfil] at hpos; exact absurd hpos (lt_irrefl _)
  | cons c cs =>
    cases hk : k with
    | nil => rw [hk] at hfil; cases hfil
    | cons m l =>
      rw [← hk, cpLast_eq_amax, cpLast_eq_amax, hk]
      simp only [Option.some.injEq]
      rw [← hk]
      have hval2 := cpTotal_eq_amax c cs es
      rw [hfil] at hpos
      have ht := amax_tables keep k es hwf hes c cs hfil k (c :: cs)
      rw [hfil] at ht
      rw [← ht]
      apply amax_filter (chainLengthAt k (cpTable k es)) keep m l c cs (by rw [← hk]; exact hfil)
        (fun x hx hkx => chainLengthAt_noise keep k es hwf hes hlat x (by rw [hk]; exact hx) hkx k)
      rw [ht]
      have hmem : amax (chainLengthAt (c :: cs) (cpTable (c :: cs) es)) c cs ∈ k.filter keep := by
        rw [hfil]; exact amax_mem _ c cs
      have h2 := chainLengthAt_kept keep k es hwf hes _ (List.mem_filter.mp hmem).1 (List.mem_filter.mp hmem).2 k (c :: cs)
      rw [hfil] at h2
      rw [h2, ← hval2]; exact hpos

/-! ### the walk back and the marks -/

theorem cpBack_congr (T1 T2 : List CpRow) (S : Nat → Prop)
    (h1 : ∀ p, S p → cpPredOf T1 p = cpPredOf T2 p)
    (h2 : ∀ p p', S p → cpPredOf T2 p = some p' → S p') :
    ∀ fuel o acc, (∀ p, o = some p → S p) → cpBack T1 fuel o acc = cpBack T2 fuel o acc := by
  intro fuel
  induction fuel with
  | zero => intro o acc _; rfl
  | succ n ih =>
    intro o acc ho
    cases o with
    | none => rfl
    | some p =>
      simp only [cpBack]
      rw [h1 p (ho p rfl)]
      apply ih
      intro p' hp'
      exact h2 p p' (ho p rfl) hp'

theorem cpBack_fuel (T : List CpRow) (μ : Nat → Nat) (hμ : ∀ p p', cpPredOf T p = some p' → μ p' < μ p) :
    ∀ fuel o acc d, (∀ p, o = some p → μ p < fuel) → cpBack T (fuel + d) o acc = cpBack T fuel o acc := by
  intro fuel
  induction fuel with
  | zero =>
    intro o acc d ho
    cases o with
    | none => rw [cpBack_none, cpBack_none]
    | some p => exact absurd (ho p rfl) (Nat.not_lt_zero _)
  | succ n ih =>
    intro o acc d ho
    cases o with
    | none => rw [cpBack_none, cpBack_none]
    | some p =>
      rw [show n + 1 + d = (n + d) + 1 by omega]
      simp only [cpBack]
      apply ih
      intro p' hp'
      have := hμ p p' hp'
      have := ho p rfl
      omega

theorem cpLatOf_kept (keep : Ins → Bool) (k : List Ins) (l : Nat) (hl : l ∉ noiseLines keep k) :
    cpLatOf k l = cpLatOf (k.filter keep) l := by
  unfold cpLatOf
  rw [find?_filter_imp _ keep k]
  intro x hx hp
  by_contra hk
  simp only [beq_iff_eq] at hp
  exact hl ((mem_noiseLines keep k l).mpr ⟨x, hx, hk, hp⟩)

theorem cpMarksFrom_congr (k1 k2 : List Ins) (es : List Edge) (path : List Nat)
    (h : ∀ a ∈ path, cpLatOf k1 a = cpLatOf k2 a) : cpMarksFrom k1 es path = cpMarksFrom k2 es path := by
  induction path with
  | nil => rfl
  | cons a rest ih =>
    cases rest with
    | nil => simp only [cpMarksFrom, h a (by simp)]
    | cons b rest =>
      simp only [cpMarksFrom]
      rw [ih (fun x hx => h x (List.mem_cons_of_mem _ hx))]

theorem lines_not_noise (keep : Ins → Bool) (k : List Ins) (hwf : WFKernel k) (l : Nat) (hl : l ∈ (k.filter keep).map (·.line)) :
    l ∉ noiseLines keep k := by
  intro h
  obtain ⟨j, hj, hjk, e⟩ := (mem_noiseLines keep k _).mp h
  obtain ⟨x, hx, ex⟩ := List.mem_map.mp hl
  have := wf_line_inj hwf hj (List.mem_filter.mp hx).1 (by rw [e, ex])
  rw [this] at hjk
  exact hjk (List.mem_filter.mp hx).2

/-- **marked path**: unchanged when the total is positive -/
theorem cpPath_drop (keep : Ins → Bool) (k : List Ins) (es : List Edge) (hwf : WFKernel k) (hes : EdgesAvoid keep es k)
    (hlat : ∀ i ∈ k, ¬ keep i = true → i.lat = 0)
    (hpos : 0 < cpTotal (k.filter keep) es) : cpPath k es = cpPath (k.filter keep) es := by
  unfold cpPath
  simp only [cpLast_drop keep k es hwf hes hlat hpos]
  cases hlast : cpLast (k.filter keep) (cpTable (k.filter keep) es) with
  | none => rfl
  | some i =>
    simp only
    have hwfc : WFKernel (k.filter keep) := wf_filter hwf _
    have hndc : ((k.filter keep).map (·.line)).Nodup := by
      unfold WFKernel at hwfc
      exact hwfc.imp (fun h => Nat.ne_of_lt h)
    have hi : i ∈ k.filter keep := (cpLast_spec _ es i hlast).1
    have hiline : i.line ∉ noiseLines keep k := lines_not_noise keep k hwf _ (List.mem_map.mpr ⟨i, hi, rfl⟩)
    rw [cpTable_noise keep k es hwf hes i.line, if_neg hiline]
    set Tc := cpTable (k.filter keep) es with hTc
    set o := (Tc.find? (fun r => r.line == i.line)).bind (fun r => r.longer.map (·.2)) with ho
    -- the start of the walk: a source of an edge, before `i`
    have hstart : ∀ p, o = some p → p ∉ noiseLines keep k ∧
        ((k.filter keep).map (·.line)).idxOf p < (k.filter keep).length := by
      intro p hp
      rw [ho] at hp
      cases hf : Tc.find? (fun r => r.line == i.line) with
      | none => rw [hf] at hp; cases hp
      | some r =>
        rw [hf] at hp
        simp only [Option.bind_some, Option.map_eq_some_iff] at hp
        obtain ⟨⟨v, p'⟩, hl, rfl⟩ := hp
        have hr : r ∈ Tc := List.mem_of_find?_eq_some hf
        have hrl : r.line = i.line := by simpa using List.find?_some hf
        obtain ⟨e, he, hs, _, _⟩ := cpTable_longer _ es r hr v p' hl
        refine ⟨?_, ?_⟩
        · have := (hes e he).1; rw [hs] at this; exact this
        · have h1 := cpTable_longer_lt _ es hndc r hr v p' hl
          have h2 : ((k.filter keep).map (·.line)).idxOf r.line < ((k.filter keep).map (·.line)).length := by
            rw [List.idxOf_lt_length_iff, hrl]; exact List.mem_map.mpr ⟨i, hi, rfl⟩
          rw [List.length_map] at h2
          exact lt_trans h1 h2
    have hcongr := cpBack_congr (cpTable k es) Tc (fun p => p ∉ noiseLines keep k)
      (by intro p hp
          unfold cpPredOf
          rw [cpTable_noise keep k es hwf hes p, if_neg hp])
      (by intro p p' _ hpp
          obtain ⟨e, he, hs, _⟩ := cpPredOf_edge _ es p p' hpp
          have := (hes e he).1; rw [hs] at this; exact this)
      k.length o [i.line] (fun p hp => (hstart p hp).1)
    rw [hcongr]
    have hlen : k.length = (k.filter keep).length + (k.length - (k.filter keep).length) := by
      have := List.length_filter_le keep k; omega
    rw [hlen]
    exact cpBack_fuel Tc (fun p => ((k.filter keep).map (·.line)).idxOf p)
      (fun p p' h => cpPredOf_lt _ es hndc p p' h) _ o [i.line] _ (fun p hp => (hstart p hp).2)

/-- **marks**: the marked lines and their `latency_cp` are unchanged when the total is positive -/
theorem cpMarks_drop (keep : Ins → Bool) (k : List Ins) (es : List Edge) (hwf : WFKernel k) (hes : EdgesAvoid keep es k)
    (hlat : ∀ i ∈ k, ¬ keep i = true → i.lat = 0)
    (hpos : 0 < cpTotal (k.filter keep) es) : cpMarks k es = cpMarks (k.filter keep) es := by
  unfold cpMarks
  rw [cpPath_drop keep k es hwf hes hlat hpos]
  have hlat : ∀ a ∈ cpPath (k.filter keep) es, cpLatOf k a = cpLatOf (k.filter keep) a := by
    intro a ha
    exact cpLatOf_kept keep k a (lines_not_noise keep k hwf a (cpPath_lines _ es a ha))
  cases hp : cpPath (k.filter keep) es with
  | nil => rfl
  | cons a rest =>
    cases rest with
    | nil => rw [hp] at hlat; exact cpMarksFrom_congr k _ es [a] hlat
    | cons b rest =>
      simp only
      rw [hp] at hlat
      rw [cpMarksFrom_congr k _ es (b :: rest) (fun x hx => hlat x (List.mem_cons_of_mem _ hx))]

/-- the graph of a kernel does not touch the lines dropped by `keep`, if those are operand-free -/
theorem create_avoids (keep : Ins → Bool) (isa : Isa) (fd : Bool) (par : Params) (k : List Ins) (hwf : WFKernel k)
    (hkeep : ∀ i ∈ k, ¬ keep i = true → IsNoise i) :
    EdgesAvoid keep (create isa fd par k) k := by
  intro e he
  rw [create_drop] at he
  obtain ⟨_, ⟨p, hp, hpl⟩, ⟨c, hc, hcl⟩⟩ := Props.C05.create_nodes isa fd par _ (wf_filter hwf _) e he
  have key : ∀ q ∈ k.filter keepB, q.line ∉ noiseLines keep k := by
    intro q hq h
    obtain ⟨j, hj, hjk, e⟩ := (mem_noiseLines keep k _).mp h
    have := wf_line_inj hwf hj (List.mem_filter.mp hq).1 e
    have hn : noiseB j = true := (noiseB_iff j).mpr (hkeep j hj hjk)
    have hq2 := (List.mem_filter.mp hq).2
    rw [← this] at hq2
    simp [keepB, hn] at hq2
  exact ⟨hpl ▸ key p hp, hcl ▸ key c hc⟩

end OsacaVerif.Pipeline
