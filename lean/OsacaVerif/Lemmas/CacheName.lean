import OsacaVerif.Model.CacheName
/-
  Cache file names for stems without a dot: `with_suffix` appends, so the name is the plain
  concatenation and determines stem and hash.
-/
namespace OsacaVerif.CacheName
open OsacaVerif.Text

theorem rfindDot_none {t : Txt} (h : 46 ∉ t) : rfindDot t = none := by
  induction t with
  | nil => rfl
  | cons c cs ih =>
    simp only [List.mem_cons, not_or] at h
    simp only [rfindDot, ih h.2]
    simp; omega

theorem rfindDot_head {t : Txt} (h : 46 ∉ t) : rfindDot (46 :: t) = some 0 := by
  simp [rfindDot, rfindDot_none h]

theorem companionName_dotfree (stem hex : Txt) (hs : 46 ∉ stem) (hh : 46 ∉ hex) :
    companionName stem hex = [46] ++ stem ++ [95] ++ hex ++ Gen.cacheCompanionSuffix := by
  have hrest : 46 ∉ stem ++ 95 :: hex := by simp [hs, hh]
  have : build Gen.cacheCompanionParts stem hex = 46 :: (stem ++ 95 :: hex) := by
    simp [build, Gen.cacheCompanionParts]
  simp only [companionName, this, withSuffix, suffixStart, rfindDot_head hrest]
  simp

theorem homeName_dotfree (stem hex : Txt) (hs : 46 ∉ stem) (hh : 46 ∉ hex) :
    homeName stem hex = stem ++ [95] ++ hex ++ Gen.cacheHomeSuffix := by
  have hrest : 46 ∉ stem ++ 95 :: hex := by simp [hs, hh]
  have : build Gen.cacheHomeParts stem hex = stem ++ 95 :: hex := by
    simp [build, Gen.cacheHomeParts]
  simp only [homeName, this, withSuffix, suffixStart, rfindDot_none hrest]
  simp

theorem sep_inj (s₁ h₁ s₂ h₂ : Txt) (hl : h₁.length = h₂.length)
    (h : s₁ ++ 95 :: h₁ = s₂ ++ 95 :: h₂) : s₁ = s₂ ∧ h₁ = h₂ := by
  have := List.append_inj' h (by simp [hl])
  exact ⟨this.1, by simpa using this.2⟩

theorem companionName_inj (s₁ h₁ s₂ h₂ : Txt) (hs₁ : 46 ∉ s₁) (hh₁ : 46 ∉ h₁) (hs₂ : 46 ∉ s₂)
    (hh₂ : 46 ∉ h₂) (hl : h₁.length = h₂.length) (h : companionName s₁ h₁ = companionName s₂ h₂) :
    s₁ = s₂ ∧ h₁ = h₂ := by
  rw [companionName_dotfree s₁ h₁ hs₁ hh₁, companionName_dotfree s₂ h₂ hs₂ hh₂] at h
  have h' : s₁ ++ 95 :: h₁ = s₂ ++ 95 :: h₂ := by
    have := List.append_cancel_right h
    simpa using this
  exact sep_inj s₁ h₁ s₂ h₂ hl h'

theorem homeName_inj (s₁ h₁ s₂ h₂ : Txt) (hs₁ : 46 ∉ s₁) (hh₁ : 46 ∉ h₁) (hs₂ : 46 ∉ s₂)
    (hh₂ : 46 ∉ h₂) (hl : h₁.length = h₂.length) (h : homeName s₁ h₁ = homeName s₂ h₂) :
    s₁ = s₂ ∧ h₁ = h₂ := by
  rw [homeName_dotfree s₁ h₁ hs₁ hh₁, homeName_dotfree s₂ h₂ hs₂ hh₂] at h
  have h' : s₁ ++ 95 :: h₁ = s₂ ++ 95 :: h₂ := by
    have := List.append_cancel_right h
    simpa using this
  exact sep_inj s₁ h₁ s₂ h₂ hl h'

end OsacaVerif.CacheName
