import OsacaVerif.Lemmas.LCDPaths
/-
  Helper development for C05: the post-processing `LCD.post` — mapping back, the insertion sort
  `sortPairs` (sortedness, permutation, uniqueness of the sorted form), `pairsEq` is equality, the
  de-duplication keeps exactly one representative per normal form.
-/
namespace OsacaVerif.LCD
open OsacaVerif OsacaVerif.DG

/-- mapping a node of the doubled kernel back to the line of the first iteration -/
def backLine (off s : Nat) : Nat := if s ≥ off then s - off else s

/-- the per-edge mapping of `post` -/
def back (off : Nat) (x : Nat × Rat) : Nat × Rat := (backLine off x.1, x.2)

/-- the normal form of a path: mapped back and sorted — what `post` de-duplicates on -/
def normPath (off : Nat) (p : List (Nat × Rat)) : List (Nat × Rat) := sortPairs (p.map (back off))

/-- the order `lat_path.sort()` sorts by: lexicographic on (line, latency) -/
def le2 (x y : Nat × Rat) : Prop := x.1 < y.1 ∨ (x.1 = y.1 ∧ x.2 ≤ y.2)

instance (x y : Nat × Rat) : Decidable (le2 x y) := by unfold le2; infer_instance

theorem le2_total (x y : Nat × Rat) : le2 x y ∨ le2 y x := by
  unfold le2
  rcases Nat.lt_trichotomy x.1 y.1 with h | h | h
  · exact Or.inl (Or.inl h)
  · rcases @Rat.le_total x.2 y.2 with h' | h'
    · exact Or.inl (Or.inr ⟨h, h'⟩)
    · exact Or.inr (Or.inr ⟨h.symm, h'⟩)
  · exact Or.inr (Or.inl h)

theorem le2_trans {x y z : Nat × Rat} (h1 : le2 x y) (h2 : le2 y z) : le2 x z := by
  unfold le2 at *
  rcases h1 with h1 | ⟨h1, h1'⟩ <;> rcases h2 with h2 | ⟨h2, h2'⟩
  · exact Or.inl (by omega)
  · exact Or.inl (by omega)
  · exact Or.inl (by omega)
  · exact Or.inr ⟨by omega, Rat.le_trans h1' h2'⟩

theorem le2_antisymm {x y : Nat × Rat} (h1 : le2 x y) (h2 : le2 y x) : x = y := by
  unfold le2 at *
  rcases h1 with h1 | ⟨h1, h1'⟩ <;> rcases h2 with h2 | ⟨h2, h2'⟩
  · omega
  · omega
  · omega
  · exact Prod.ext h1 (Rat.le_antisymm h1' h2')

theorem insertPair_cond (x y : Nat × Rat) :
    (x.1 < y.1 || (x.1 == y.1 && decide (x.2 ≤ y.2))) = true ↔ le2 x y := by
  simp [le2]

theorem mem_insertPair (x : Nat × Rat) (l : List (Nat × Rat)) (z : Nat × Rat) :
    z ∈ insertPair x l ↔ z = x ∨ z ∈ l := by
  induction l with
  | nil => simp [insertPair]
  | cons y ys ih =>
    simp only [insertPair]
    split
    · simp
    · simp only [List.mem_cons, ih]
      constructor
      · rintro (h | h | h)
        · exact Or.inr (Or.inl h)
        · exact Or.inl h
        · exact Or.inr (Or.inr h)
      · rintro (h | h | h)
        · exact Or.inr (Or.inl h)
        · exact Or.inl h
        · exact Or.inr (Or.inr h)

theorem insertPair_sorted (x : Nat × Rat) (l : List (Nat × Rat)) (h : l.Pairwise le2) :
    (insertPair x l).Pairwise le2 := by
  induction l with
  | nil => simp [insertPair]
  | cons y ys ih =>
    simp only [insertPair]
    have hy := List.pairwise_cons.mp h
    split
    · rename_i hc
      have hxy : le2 x y := (insertPair_cond x y).mp hc
      refine List.pairwise_cons.mpr ⟨?_, h⟩
      intro z hz
      rcases List.mem_cons.mp hz with rfl | hz
      · exact hxy
      · exact le2_trans hxy (hy.1 z hz)
    · rename_i hc
      have hyx : le2 y x := by
        rcases le2_total x y with h' | h'
        · exact absurd ((insertPair_cond x y).mpr h') hc
        · exact h'
      refine List.pairwise_cons.mpr ⟨?_, ih hy.2⟩
      intro z hz
      rcases (mem_insertPair x ys z).mp hz with rfl | hz
      · exact hyx
      · exact hy.1 z hz

/-- the result of `sortPairs` is sorted (lexicographically on (line, latency)) -/
theorem sortPairs_sorted (l : List (Nat × Rat)) : (sortPairs l).Pairwise le2 := by
  induction l with
  | nil => simp [sortPairs]
  | cons x xs ih =>
    simp only [sortPairs, List.foldr_cons]
    exact insertPair_sorted x _ ih

theorem insertPair_perm' (x : Nat × Rat) (l : List (Nat × Rat)) : (insertPair x l).Perm (x :: l) := by
  induction l with
  | nil => simp [insertPair]
  | cons y ys ih =>
    simp only [insertPair]
    split
    · exact List.Perm.refl _
    · exact (List.Perm.cons y ih).trans (List.Perm.swap x y ys)

theorem sortPairs_perm' (l : List (Nat × Rat)) : (sortPairs l).Perm l := by
  induction l with
  | nil => simp [sortPairs]
  | cons x xs ih =>
    simp only [sortPairs, List.foldr_cons]
    exact (insertPair_perm' x _).trans (List.Perm.cons x ih)

/-- the sorted form is unique: any sorted permutation of `l` *is* `sortPairs l` -/
theorem sortPairs_unique (l s : List (Nat × Rat)) (hs : s.Pairwise le2) (hp : s.Perm l) :
    sortPairs l = s :=
  List.Perm.eq_of_pairwise (le := le2) (fun _ _ _ _ h1 h2 => le2_antisymm h1 h2)
    (sortPairs_sorted l) hs ((sortPairs_perm' l).trans hp.symm)

/-- permuting the input does not change the sorted form -/
theorem sortPairs_congr (l l' : List (Nat × Rat)) (h : l.Perm l') : sortPairs l = sortPairs l' :=
  sortPairs_unique l _ (sortPairs_sorted l') ((sortPairs_perm' l').trans h.symm)

/-- sums of rationals do not depend on the order -/
theorem sum_perm {l l' : List Rat} (h : l.Perm l') : l.sum = l'.sum := by
  induction h with
  | nil => rfl
  | cons x _ ih => simp [ih]
  | swap x y l => simp only [List.sum_cons]; rw [← Rat.add_assoc, ← Rat.add_assoc, Rat.add_comm y x]
  | trans _ _ ih1 ih2 => exact ih1.trans ih2

/-- first components of a lexicographically sorted list are (weakly) ascending -/
theorem le2_lines {l : List (Nat × Rat)} (h : l.Pairwise le2) : (l.map (·.1)).Pairwise (· ≤ ·) := by
  rw [List.pairwise_map]
  refine h.imp ?_
  intro a b hab
  rcases hab with h | ⟨h, _⟩ <;> omega

/-- `pairsEq` (how the code compares two `lat_path` lists) is equality -/
theorem pairsEq_iff (a b : List (Nat × Rat)) : pairsEq a b = true ↔ a = b := by
  induction a generalizing b with
  | nil => cases b <;> simp [pairsEq]
  | cons x xs ih =>
    cases b with
    | nil => simp [pairsEq]
    | cons y ys =>
      have := ih ys
      simp only [pairsEq, Bool.and_eq_true, beq_iff_eq, List.all_eq_true] at this ⊢
      simp only [List.length_cons, List.zip_cons_cons, List.mem_cons, List.cons.injEq]
      constructor
      · rintro ⟨hl, hall⟩
        have h0 := hall (x, y) (Or.inl rfl)
        refine ⟨Prod.ext (by simpa using h0.1) (by simpa using h0.2), this.mp ⟨by omega, ?_⟩⟩
        intro z hz
        exact hall z (Or.inr hz)
      · rintro ⟨rfl, rfl⟩
        refine ⟨rfl, ?_⟩
        intro z hz
        rcases hz with rfl | hz
        · simp
        · exact (this.mpr rfl).2 z hz

/-! ### the de-duplication -/

theorem mem_dedup (seen l : List (List (Nat × Rat))) (x : List (Nat × Rat)) :
    x ∈ post.dedup seen l ↔ x ∈ l ∧ x ∉ seen := by
  induction l generalizing seen with
  | nil => simp [post.dedup]
  | cons p ps ih =>
    simp only [post.dedup]
    have hany : seen.any (pairsEq p) = true ↔ p ∈ seen := by
      simp only [List.any_eq_true, pairsEq_iff]
      constructor
      · rintro ⟨y, hy, rfl⟩; exact hy
      · intro h; exact ⟨p, h, rfl⟩
    by_cases hp : p ∈ seen
    · rw [if_pos (hany.mpr hp), ih]
      constructor
      · rintro ⟨h1, h2⟩; exact ⟨List.mem_cons_of_mem _ h1, h2⟩
      · rintro ⟨h1, h2⟩
        rcases List.mem_cons.mp h1 with rfl | h1
        · exact absurd hp h2
        · exact ⟨h1, h2⟩
    · rw [if_neg (fun h => hp (hany.mp h)), List.mem_cons, ih]
      constructor
      · rintro (rfl | ⟨h1, h2⟩)
        · exact ⟨List.mem_cons_self, hp⟩
        · exact ⟨List.mem_cons_of_mem _ h1, fun h => h2 (List.mem_cons_of_mem _ h)⟩
      · rintro ⟨h1, h2⟩
        by_cases hx : x = p
        · exact Or.inl hx
        · rcases List.mem_cons.mp h1 with h1 | h1
          · exact absurd h1 hx
          · refine Or.inr ⟨h1, ?_⟩
            intro h
            rcases List.mem_cons.mp h with h | h
            · exact hx h
            · exact h2 h

theorem dedup_nodup (seen l : List (List (Nat × Rat))) : (post.dedup seen l).Nodup := by
  induction l generalizing seen with
  | nil => simp [post.dedup]
  | cons p ps ih =>
    simp only [post.dedup]
    split
    · exact ih seen
    · rw [List.nodup_cons]
      refine ⟨?_, ih _⟩
      intro h
      have := ((mem_dedup (p :: seen) ps p).mp h).2
      exact this List.mem_cons_self

/-- the entry `post` builds from a normal form -/
def mkEntry (p : List (Nat × Rat)) : Entry :=
  { lines := p.map (·.1), lats := p.map (·.2), latency := (p.map (·.2)).sum }

theorem post_eq (off : Nat) (paths : List (List (Nat × Rat))) :
    post off paths = (post.dedup [] (paths.map (normPath off))).map mkEntry := rfl

/-- a list of pairs is determined by its two projections -/
theorem pairs_ext {a b : List (Nat × Rat)} (h1 : a.map (·.1) = b.map (·.1)) (h2 : a.map (·.2) = b.map (·.2)) :
    a = b := by
  induction a generalizing b with
  | nil => cases b <;> simp_all
  | cons x xs ih =>
    cases b with
    | nil => simp at h1
    | cons y ys =>
      simp only [List.map_cons, List.cons.injEq] at h1 h2
      rw [ih h1.2 h2.2, Prod.ext h1.1 h2.1]

theorem zip_fst_snd (l : List (Nat × Rat)) : (l.map (·.1)).zip (l.map (·.2)) = l := by
  induction l with
  | nil => rfl
  | cons x xs ih => simp [ih]

end OsacaVerif.LCD
