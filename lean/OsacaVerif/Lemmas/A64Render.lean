import OsacaVerif.Lemmas.A64Line
/-
  From the specification's renderer (`Spec.A64.render`: pieces and a list of gaps) to the shape of a line
  the lemmas of `A64Line` speak about, and the round trip of a whole rendered instruction line for
  operands that are `CoveredOp`.
-/
namespace OsacaVerif.ParseA64
open OsacaVerif.Text OsacaVerif.Spec.A64 OsacaVerif.Gen

/-- pieces of one operand after the first piece, with the gaps in front of them -/
def joinInner : List Piece → List Txt → Txt
  | [], _ => []
  | p :: ps, g :: gs => g ++ (p.1 ++ joinInner ps gs)
  | p :: ps, [] => p.1 ++ joinInner ps []

def InnerOk : List Piece → List Txt → Prop
  | [], gs => gs = []
  | p :: ps, g :: gs => Blank g ∧ (p.2 = 2 → g ≠ []) ∧ InnerOk ps gs
  | _ :: _, [] => False

theorem layoutOk_cons {p : Piece} {ps : List Piece} {gs : List Txt} (h : LayoutOk (p :: ps) gs) :
    ∃ g gs', gs = g :: gs' ∧ Blank g ∧ (p.2 = 2 → g ≠ []) ∧ LayoutOk ps gs' := by
  cases gs with
  | nil => exact absurd h (by simp [LayoutOk])
  | cons g gs' => exact ⟨g, gs', rfl, h.1, h.2.1, h.2.2⟩

/-- splitting a layout at the end of a group of pieces -/
theorem layout_split (ps1 ps2 : List Piece) (gs : List Txt) (h : LayoutOk (ps1 ++ ps2) gs) :
    ∃ gs1 gs2, InnerOk ps1 gs1 ∧ LayoutOk ps2 gs2 ∧
      joinPieces (ps1 ++ ps2) gs = joinInner ps1 gs1 ++ joinPieces ps2 gs2 := by
  induction ps1 generalizing gs with
  | nil => exact ⟨[], gs, rfl, h, rfl⟩
  | cons p ps1 ih =>
    obtain ⟨g, gs', rfl, hg, hk, hrest⟩ := layoutOk_cons h
    obtain ⟨gs1, gs2, hi, hl, hj⟩ := ih gs' hrest
    refine ⟨g :: gs1, gs2, ⟨hg, hk, hi⟩, hl, ?_⟩
    simp [joinPieces, joinInner, hj, List.append_assoc]

/-- an operand kind for which the round trip is proved: its first piece has an unconstrained gap, and
    for every layout of its inner pieces the text is `GoodOp`; the post-processing of the raw operand
    gives what the specification expects -/
def CoveredOp (last fst : Bool) (o : OpA) : Prop :=
  ∃ t1 ps raw, opPieces o = (t1, 1) :: ps ∧
    (∀ gs, InnerOk ps gs →
      if fst then GoodFirst last (t1 ++ joinInner ps gs) raw else GoodRest last (t1 ++ joinInner ps gs) raw) ∧
    processOperand raw = .ok (expectOp o)

/-- every operand is covered at its position; only the last one may be of a kind that has to be last,
    and the first one must be of a kind that may stand first (`fst` = the head of the list is the
    first operand of the line) -/
def OpsCovered : Bool → List OpA → Prop
  | _, [] => True
  | fst, o :: os => CoveredOp os.isEmpty fst o ∧ OpsCovered false os

/-- the later operands of a rendered line have the shape `restText` -/
theorem rest_ops_form (os : List OpA) (cps : List Piece) (gs : List Txt) (hc : OpsCovered false os)
    (h : LayoutOk (opsPieces false os ++ cps) gs) :
    ∃ (slots : List Slot) (gs' : List Txt), SlotsOk slots ∧ slots.length = os.length ∧ LayoutOk cps gs' ∧
      joinPieces (opsPieces false os ++ cps) gs = restText slots (joinPieces cps gs') ∧
      processOperands (slots.map (·.raw)) = .ok (os.map expectOp).flatten := by
  induction os generalizing gs with
  | nil => exact ⟨[], gs, trivial, rfl, h, rfl, rfl⟩
  | cons o os ih =>
    obtain ⟨⟨t1, ps, raw, hp, hgood, hproc⟩, hrest⟩ := hc
    -- pieces: comma, first piece of the operand, its inner pieces, the rest
    have hshape : opsPieces false (o :: os) ++ cps = ([44], 1) :: (t1, 1) :: (ps ++ (opsPieces false os ++ cps)) := by
      simp [opsPieces, hp, List.append_assoc]
    rw [hshape] at h ⊢
    obtain ⟨g1, gs1, rfl, hg1, _, h1⟩ := layoutOk_cons h
    obtain ⟨g2, gs2, rfl, hg2, _, h2⟩ := layoutOk_cons h1
    obtain ⟨gi, gr, hi, hl, hj⟩ := layout_split ps _ gs2 h2
    obtain ⟨slots, gs', hs, hlen, hl', hj', hpr⟩ := ih gr hrest hl
    refine ⟨⟨g1, g2, t1 ++ joinInner ps gi, raw⟩ :: slots, gs', ?_, by simp [hlen], hl', ?_, ?_⟩
    · refine ⟨hg1, hg2, ?_, hs⟩
      have : slots.isEmpty = os.isEmpty := by
        cases slots <;> cases os <;> simp_all
      rw [this]; simpa using hgood gi hi
    · simp [joinPieces, restText, hj, hj', List.append_assoc]
    · simp only [List.map_cons, processOperands, hproc, hpr, List.flatten_cons]

def WordsOk : Option (List Txt) → Prop
  | none => True
  | some ws => ∀ w ∈ ws, IsWord w

theorem comment_words_form (ws : List Txt) (gs : List Txt) (hw : ∀ w ∈ ws, IsWord w)
    (h : LayoutOk (ws.map (fun x => (x, 2))) gs) (hne : ws ≠ [] → True) :
    ∃ (xs : List (Txt × Txt)) (gEnd : Txt), BodyOk xs ∧ FirstGapNe xs ∧ Blank gEnd ∧ xs.map (·.2) = ws ∧
      joinPieces (ws.map (fun x => (x, 2))) gs = commentBody xs gEnd := by
  induction ws generalizing gs with
  | nil =>
    obtain ⟨g, rfl, hg⟩ := h
    exact ⟨[], g, trivial, trivial, hg, rfl, rfl⟩
  | cons w ws ih =>
    obtain ⟨g, gs', rfl, hg, hk, hrest⟩ := layoutOk_cons h
    obtain ⟨xs, gEnd, hb, hf, hgE, hm, hj⟩ := ih gs' (fun x hx => hw x (by simp [hx])) hrest (fun _ => trivial)
    refine ⟨(g, w) :: xs, gEnd, ⟨hg, hw w (by simp), hf, hb⟩, hk rfl, hgE, by simp [hm], ?_⟩
    simp [joinPieces, commentBody, hj, List.append_assoc]

/-- the end of a rendered line has the shape `LineTail` -/
theorem comment_form (c : Option (List Txt)) (gs : List Txt) (hw : WordsOk c)
    (h : LayoutOk (commentPieces c) gs) :
    ∃ t : LineTail, t.Ok ∧ joinPieces (commentPieces c) gs = t.text ∧ t.words = c := by
  match c, hw, h with
  | none, _, h =>
    obtain ⟨g, rfl, hg⟩ := h
    exact ⟨⟨g, none⟩, ⟨hg, trivial⟩, rfl, rfl⟩
  | some [], _, h =>
    obtain ⟨g, gs', rfl, hg, _, hrest⟩ := layoutOk_cons h
    obtain ⟨gE, rfl, hgE⟩ := hrest
    exact ⟨⟨g, some ([], gE)⟩, ⟨hg, trivial, hgE⟩, by simp [commentPieces, joinPieces, LineTail.text, commentBody], rfl⟩
  | some (w :: ws), hw, h =>
    obtain ⟨g, gs', rfl, hg, _, hrest⟩ := layoutOk_cons h
    obtain ⟨gw, gs'', rfl, hgw, _, hrest'⟩ := layoutOk_cons hrest
    obtain ⟨xs, gEnd, hb, hf, hgE, hm, hj⟩ :=
      comment_words_form ws gs'' (fun x hx => hw x (by simp [hx])) hrest' (fun _ => trivial)
    refine ⟨⟨g, some ((gw, w) :: xs, gEnd)⟩, ⟨hg, ⟨hgw, hw w (by simp), hf, hb⟩, hgE⟩, ?_, ?_⟩
    · simp [commentPieces, joinPieces, LineTail.text, commentBody, hj, List.append_assoc]
    · simp [LineTail.words, hm]

theorem joinSp_eq (l : List Txt) : joinSp l = joinWords l := by
  induction l with
  | nil => rfl
  | cons w ws ih =>
    cases ws with
    | nil => rfl
    | cons v vs => simp only [joinSp, joinWords, ih]

theorem optMap_eq {α β : Type} (f : α → β) (o : Option α) : o.map f = optMap f o := by
  cases o <;> rfl

/-- mnemonic: alphanumerics and dots, not starting with a dot -/
def MnemOk (mn : Txt) : Prop := ∃ m ms, mn = m :: ms ∧ (∀ c ∈ m :: ms, isMnemC c = true) ∧ m ≠ 46

structure InstrOk (a : InstrA) : Prop where
  mn : MnemOk a.mn
  slots : a.ops.length ≤ 5
  words : WordsOk a.comment

theorem parseLine_instr (line : Txt) (h1 : commentLine line = none) (h2 : llvmMarker line = none)
    (h3 : labelLine line = none) (h4 : directiveLine line = none) : parseLine line = instrLine line := by
  simp [parseLine, h1, h2, h3, h4]

/-- **round trip of a rendered instruction line** for every instruction whose operands are covered:
    ∀ mnemonic, ∀ operand lists that fit the slots, ∀ layout, ∀ trailing comment -/
theorem roundtrip_covered (a : InstrA) (gaps : List Txt) (hok : InstrOk a) (hc : OpsCovered true a.ops)
    (hl : LayoutOk (linePieces a) gaps) : parseLine (render a gaps) = .ok (expectLine a) := by
  obtain ⟨m, ms, hmn, hmc, hm46⟩ := hok.mn
  unfold render
  have hlp : linePieces a = (a.mn, 1) :: (opsPieces true a.ops ++ commentPieces a.comment) := rfl
  rw [hlp] at hl ⊢
  obtain ⟨g0, gs0, rfl, hg0, _, h0⟩ := layoutOk_cons hl
  cases hops : a.ops with
  | nil =>
    rw [hops] at h0
    replace h0 : LayoutOk (commentPieces a.comment) gs0 := h0
    obtain ⟨t, htok, hj, hw⟩ := comment_form a.comment gs0 hok.words h0
    have hline : joinPieces ((a.mn, 1) :: (opsPieces true [] ++ commentPieces a.comment)) (g0 :: gs0) =
        g0 ++ (m :: ms ++ afterMnemonic none [] t.text) := by
      simp [joinPieces, opsPieces, hj, afterMnemonic, hmn]
    rw [hline]
    have hfo : FirstOk none [] := rfl
    obtain ⟨c1, c2, c3, c4⟩ := not_other_class g0 m ms none [] t hg0 hmc hm46 hfo htok
    rw [parseLine_instr _ c1 c2 c3 c4]
    have hi := instrP_line g0 m ms none [] t hg0 hmc hfo (by simp) htok
    simp only [instrLine, hi, firstRaw, List.map_nil, List.append_nil, processOperands]
    simp [expectLine, hops, hmn, hw, optMap_eq, joinSp_eq]
    cases a.comment <;> simp [optMap, joinSp_eq]
  | cons o os =>
    rw [hops] at h0 hc
    obtain ⟨⟨t1, ps, raw, hp, hgood, hproc⟩, hrest⟩ := hc
    have hshape : opsPieces true (o :: os) ++ commentPieces a.comment =
        (t1, 2) :: (ps ++ (opsPieces false os ++ commentPieces a.comment)) := by
      simp [opsPieces, hp, List.append_assoc]
    rw [hshape] at h0
    rw [hshape]
    obtain ⟨g1, gs1, rfl, hg1, hk1, h1⟩ := layoutOk_cons h0
    obtain ⟨gi, gr, hi, hl2, hj2⟩ := layout_split ps _ gs1 h1
    obtain ⟨slots, gs', hs, hlen, hl', hj', hpr⟩ := rest_ops_form os _ gr hrest hl2
    obtain ⟨t, htok, hj, hw⟩ := comment_form a.comment gs' hok.words hl'
    have hline : joinPieces ((a.mn, 1) :: (t1, 2) :: (ps ++ (opsPieces false os ++ commentPieces a.comment)))
        (g0 :: g1 :: gs1) =
        g0 ++ (m :: ms ++ afterMnemonic (some (g1, t1 ++ joinInner ps gi, raw)) slots t.text) := by
      simp [joinPieces, hj2, hj', hj, afterMnemonic, hmn, List.append_assoc]
    rw [hline]
    have hempty : slots.isEmpty = os.isEmpty := by
      cases slots <;> cases os <;> simp_all
    have hfo : FirstOk (some (g1, t1 ++ joinInner ps gi, raw)) slots :=
      ⟨hg1, hk1 rfl, by rw [hempty]; simpa using hgood gi hi, hs⟩
    obtain ⟨c1, c2, c3, c4⟩ := not_other_class g0 m ms _ slots t hg0 hmc hm46 hfo htok
    rw [parseLine_instr _ c1 c2 c3 c4]
    have hslots : slots.length ≤ 4 := by
      have := hok.slots; rw [hops] at this; simp at this; omega
    have hin := instrP_line g0 m ms _ slots t hg0 hmc hfo hslots htok
    simp only [instrLine, hin, firstRaw, List.singleton_append, processOperands, hproc, hpr]
    simp [expectLine, hops, hmn, hw]
    cases a.comment <;> simp [optMap, joinSp_eq]

end OsacaVerif.ParseA64
