import OsacaVerif.Lemmas.A64Prf
/-
  Shifted immediates `#imm, lsl #n` (value `imm << n`).
-/
namespace OsacaVerif.ParseA64
open OsacaVerif.Text OsacaVerif.Spec.A64 OsacaVerif.Gen

/-- a gap and a comma follow: nothing continues a word -/
theorem headStop_gap_comma (gc s' : Txt) (hgc : Blank gc) : HeadStop (gc ++ 44 :: s') := by
  refine ⟨?_⟩
  intro c r hc
  cases gc with
  | nil => simp at hc; right; left; exact hc.1.symm
  | cons b g' => simp at hc; left; rw [← hc.1]; exact hgc.cons.1

def shBase (hash hex : Bool) (v : Nat) : IntA := ⟨hash, false, hex, false, v⟩
def shAmt (ah : Bool) (amt : Nat) : IntA := ⟨ah, false, false, false, amt⟩

/-- text of a shifted immediate with the gaps between its four pieces -/
def shimmText (hash hex : Bool) (v : Nat) (op : Txt) (ah : Bool) (amt : Nat) (g2 g3 g4 : Txt) : Txt :=
  intText (shBase hash hex v) ++ (g2 ++ 44 :: (g3 ++ (op ++ (g4 ++ intText (shAmt ah amt)))))

def shimmRaw (hash hex : Bool) (v : Nat) (op : Txt) (amt : Nat) : RawOp :=
  .arith (.num (intDigits (shBase hash hex v))) (lower op) (some (.num (showNat amt)))

theorem arithP_shimm (g : Txt) (hash hex : Bool) (v : Nat) (op : Txt) (ah : Bool) (amt : Nat) (g2 g3 g4 rest : Txt)
    (hg : Blank g) (hg2 : Blank g2) (hg3 : Blank g3) (hg4 : Blank g4) (hop : lower op ∈ scaleOps)
    (hgap : ah = false → g4 ≠ []) (hf : Follow rest) :
    immediate (g ++ (shimmText hash hex v op ah amt g2 g3 g4 ++ rest)) =
      some (.num (intDigits (shBase hash hex v)), g2 ++ 44 :: (g3 ++ (op ++ (g4 ++ (intText (shAmt ah amt) ++ rest))))) ∧
    arithP (g ++ (shimmText hash hex v op ah amt g2 g3 g4 ++ rest)) =
      some ((.num (intDigits (shBase hash hex v)), lower op, some (.num (showNat amt))), rest) := by
  have htext : g ++ (shimmText hash hex v op ah amt g2 g3 g4 ++ rest) =
      g ++ (intText (shBase hash hex v) ++ (g2 ++ 44 :: (g3 ++ (op ++ (g4 ++ (intText (shAmt ah amt) ++ rest)))))) := by
    simp [shimmText, List.append_assoc]
  rw [htext]
  have himm := immediate_int' g (shBase hash hex v) _ hg (headStop_gap_comma g2 (g3 ++ (op ++ (g4 ++ (intText (shAmt ah amt) ++ rest)))) hg2)
  have himm' : immediate (g ++ (intText (shBase hash hex v) ++ (g2 ++ 44 :: (g3 ++ (op ++ (g4 ++ (intText (shAmt ah amt) ++ rest))))))) =
      some (.num (intDigits (shBase hash hex v)), g2 ++ 44 :: (g3 ++ (op ++ (g4 ++ (intText (shAmt ah amt) ++ rest))))) := by
    rw [himm]; simp [shBase, optNeg]
  refine ⟨himm', ?_⟩
  have hlit : lit true [44] (g2 ++ 44 :: (g3 ++ (op ++ (g4 ++ (intText (shAmt ah amt) ++ rest))))) =
      some (g3 ++ (op ++ (g4 ++ (intText (shAmt ah amt) ++ rest)))) := by
    simp [lit, sk_true, skipWs_blank_append g2 _ hg2, skipWs_cons 44 _ (by decide : isWs 44 = false), dropPrefix]
  have hamt := immediate_int g4 (shAmt ah amt) rest hg4 hf
  have hamt' : optP true immediate (g4 ++ (intText (shAmt ah amt) ++ rest)) = (some (.num (showNat amt)), rest) := by
    rw [optP_some true immediate _ _ _ hamt]; simp [shAmt, optNeg, intDigits]
  -- behind the operator: a blank, or the `#` of the amount (`lsl 12`, `lsl#12`; `lsl12` would be a name)
  have hwe : ∀ c r, g4 ++ (intText (shAmt ah amt) ++ rest) = c :: r → isWordEndC c = false := by
    intro c r h
    cases g4 with
    | cons b g' => simp at h; rw [← h.1]; exact blank_not_wordEnd b hg4.cons.1
    | nil =>
      cases ah with
      | false => exact absurd rfl (hgap rfl)
      | true => simp [intText, shAmt, optHash] at h; rw [← h.1]; decide
  simp only [arithP, himm', hlit, shiftOp_match g3 op _ hg3 hop hwe, hamt']

theorem shimm_head (hash hex : Bool) (v : Nat) (op : Txt) (ah : Bool) (amt : Nat) (g2 g3 g4 : Txt) :
    ∃ c t, shimmText hash hex v op ah amt g2 g3 g4 = c :: t ∧ isWs c = false ∧ isAlphaC c = false ∧
      c ≠ 58 ∧ c ≠ 43 ∧ c ≠ 123 ∧ c ≠ 91 ∧ isIdFirstC c = false := by
  obtain ⟨c, t, hct, hws, ha, h58, h43⟩ := intText_head (shBase hash hex v)
  refine ⟨c, t ++ (g2 ++ 44 :: (g3 ++ (op ++ (g4 ++ intText (shAmt ah amt))))), by simp [shimmText, hct], hws, ha, h58, h43, ?_⟩
  -- the head of a number is `#`, `-` or a digit
  have hcases : c = 35 ∨ c = 45 ∨ isDigitC c = true := by
    have := intText_eq (shBase hash hex v) []
    obtain ⟨d, ds, hD, hd⟩ := intDigits_head (shBase hash hex v)
    simp only [List.append_nil] at this
    rw [this] at hct
    cases hash
    · simp only [shBase, optHash, optNeg] at hct hD
      simp at hct
      rw [hD] at hct
      simp at hct
      right; right; rw [← hct.1]; exact hd
    · simp [shBase, optHash] at hct
      left; exact hct.1.symm
  rcases hcases with rfl | rfl | hd
  · exact ⟨by decide, by decide, by decide⟩
  · exact ⟨by decide, by decide, by decide⟩
  · have hb := digit_bounds c hd
    refine ⟨by omega, by omega, ?_⟩
    simp only [isIdFirstC, isAlphaC, A64.identFirstExtra]; simp; omega

/-- **shifted immediate** in any operand slot -/
theorem goodOp_shimm (hash hex : Bool) (v : Nat) (op : Txt) (ah : Bool) (amt : Nat) (g2 g3 g4 : Txt)
    (hg2 : Blank g2) (hg3 : Blank g3) (hg4 : Blank g4) (hop : lower op ∈ scaleOps) (hgap : ah = false → g4 ≠ []) :
    GoodOp false true (shimmText hash hex v op ah amt g2 g3 g4) (shimmRaw hash hex v op amt) := by
  obtain ⟨c, t, hct, hws, ha, h58, h43, h123, h91, hidf⟩ := shimm_head hash hex v op ah amt g2 g3 g4
  have hlen : ∀ rest : Txt, rest.length <
      (g2 ++ 44 :: (g3 ++ (op ++ (g4 ++ (intText (shAmt ah amt) ++ rest))))).length := by
    intro rest; simp; omega
  refine ⟨?_, ?_, ?_, ?_⟩
  · intro g rest hg hf
    obtain ⟨himm, har⟩ := arithP_shimm g hash hex v op ah amt g2 g3 g4 rest hg hg2 hg3 hg4 hop hgap hf
    have hreg : registerP (g ++ (shimmText hash hex v op ah amt g2 g3 g4 ++ rest)) = none := by
      rw [hct, List.cons_append]; exact registerP_none_nonalpha g c _ hg hws ha h123
    have hcond : conditionP (g ++ (shimmText hash hex v op ah amt g2 g3 g4 ++ rest)) = none := by
      rw [hct, List.cons_append]; exact conditionP_none_nonalpha g c _ hg hws ha
    have hmem : memoryP (g ++ (shimmText hash hex v op ah amt g2 g3 g4 ++ rest)) = none := by
      rw [hct, List.cons_append]; exact memoryP_none_head g c _ hg hws h91
    refine ⟨rest, ?_, rfl⟩
    simp only [operandRest, hcond, hreg, himm, hmem, arithOp, har, mapR_none, mapR_some, wordEnd_none,
      orElseR_none_left, better_none_right, better_none_left]
    rw [better_some_lt _ _ _ _ (hlen rest)]; rfl
  · intro _ g rest hg hf
    obtain ⟨himm, har⟩ := arithP_shimm g hash hex v op ah amt g2 g3 g4 rest hg hg2 hg3 hg4 hop hgap hf
    have hreg : registerP (g ++ (shimmText hash hex v op ah amt g2 g3 g4 ++ rest)) = none := by
      rw [hct, List.cons_append]; exact registerP_none_nonalpha g c _ hg hws ha h123
    have hprf : prefetchP (g ++ (shimmText hash hex v op ah amt g2 g3 g4 ++ rest)) = none := by
      rw [hct, List.cons_append]; exact prefetchP_none_nonalpha g c _ hg hws ha
    have hmem : memoryP (g ++ (shimmText hash hex v op ah amt g2 g3 g4 ++ rest)) = none := by
      rw [hct, List.cons_append]; exact memoryP_none_head g c _ hg hws h91
    have hid : identifier (g ++ (shimmText hash hex v op ah amt g2 g3 g4 ++ rest)) = none := by
      rw [hct, List.cons_append]; exact identifier_none_head g c _ hg hws hidf h58
    refine ⟨rest, ?_, rfl⟩
    simp only [operandFirst, hprf, hreg, himm, hmem, arithOp, har, hid, mapR_none, mapR_some, wordEnd_none,
      orElseR_none_left, better_none_right, better_none_left]
    rw [better_some_lt _ _ _ _ (hlen rest)]; rfl
  · intro g rest hg _
    rw [hct, List.cons_append]
    exact shiftOp_none_nonalpha g c _ hg hws ha
  · exact ⟨c, t, hct, hws, h58, h43⟩

theorem covered_shimm (last fst : Bool) (hash hex : Bool) (v : Nat) (op : Txt) (ah : Bool) (amt : Nat)
    (hop : lower op ∈ scaleOps) : CoveredOp last fst (.shimm hash hex v op ah amt) := by
  refine ⟨intText (shBase hash hex v), [([44], 1), (op, 1), amtPiece (ah, amt)], shimmRaw hash hex v op amt, rfl, ?_, ?_⟩
  · intro gs hgs
    obtain ⟨g2, gs1, rfl, hg2, h1⟩ := innerOk_cons hgs
    obtain ⟨g3, gs2, rfl, hg3, h2⟩ := innerOk_cons h1
    obtain ⟨g4, gs3, rfl, hg4, hne, h3⟩ := innerOk_cons' h2
    have hgap : ah = false → g4 ≠ [] := fun h => hne (by simp [amtPiece, h])
    have : gs3 = [] := h3
    subst this
    have htext : intText (shBase hash hex v) ++ joinInner [([44], 1), (op, 1), amtPiece (ah, amt)] [g2, g3, g4] =
        shimmText hash hex v op ah amt g2 g3 g4 := by
      simp [joinInner, shimmText, amtPiece, shAmt, intText, optNeg, List.append_assoc]
    rw [htext]
    have := (goodOp_shimm hash hex v op ah amt g2 g3 g4 hg2 hg3 hg4 hop hgap).any last
    cases fst with
    | true => simpa using this.toFirst
    | false => simpa using this.toRest
  · have h1 : pyInt0 (intDigits (shBase hash hex v)) = some (v : Int) := by
      have := pyInt0_int (shBase hash hex v)
      simpa [shBase, optNeg, intVal] using this
    simp [processOperand, shimmRaw, processArith, h1, pyInt10_showNat, expectOp, pow2]

end OsacaVerif.ParseA64
