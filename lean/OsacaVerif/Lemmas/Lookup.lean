import OsacaVerif.Lemmas.KindAgree
/-
  `get_instruction` is "the first entry, in list order, that agrees"; the mnemonic fall-backs.
-/
namespace OsacaVerif.Lemmas.Lookup
open OsacaVerif OsacaVerif.Text OsacaVerif.Operand OsacaVerif.Match OsacaVerif.Spec OsacaVerif.Lemmas.KindAgree

/-- on the parser domain and for schema-valid entries the code's entry test is the specification's -/
theorem entryMatches_eq (isa : Isa) (name : Txt) (ops : List POperand) (e : Entry)
    (ho : ops.all parserOperand = true) (he : e.operands.all schemaOperand = true) :
    entryMatches isa name ops e = specMatchesB isa name ops e := by
  simp only [entryMatches, specMatchesB, matchOperands_eq isa e.operands ops ho he]

theorem specMatchesB_iff (isa : Isa) (name : Txt) (ops : List POperand) (e : Entry) :
    specMatchesB isa name ops e = true ↔ SpecMatches isa name ops e := by
  simp only [specMatchesB, SpecMatches, Bool.and_eq_true, beq_iff_eq, kindAgreeAll_iff]

/-- `find?` returns an element of the list that satisfies the test and is preceded only by
    elements that do not -/
theorem find?_some_split {α : Type} (p : α → Bool) (l : List α) (x : α) (h : l.find? p = some x) :
    ∃ pre post, l = pre ++ x :: post ∧ (∀ y ∈ pre, p y = false) ∧ p x = true := by
  induction l with
  | nil => simp at h
  | cons a as ih =>
    by_cases ha : p a = true
    · simp only [List.find?_cons, ha] at h
      have : a = x := by simpa using h
      subst this
      exact ⟨[], as, rfl, by simp, ha⟩
    · have ha' : p a = false := by simpa using ha
      simp only [List.find?_cons, ha'] at h
      obtain ⟨pre, post, e1, e2, e3⟩ := ih h
      refine ⟨a :: pre, post, by simp [e1], ?_, e3⟩
      intro y hy
      simp only [List.mem_cons] at hy
      rcases hy with hy | hy
      · subst hy; exact ha'
      · exact e2 y hy

theorem find?_of_split {α : Type} (p : α → Bool) (pre post : List α) (x : α)
    (h1 : ∀ y ∈ pre, p y = false) (h2 : p x = true) : (pre ++ x :: post).find? p = some x := by
  induction pre with
  | nil => simp [h2]
  | cons a as ih =>
    have ha : p a = false := h1 a (by simp)
    simp only [List.cons_append, List.find?_cons, ha]
    exact ih (fun y hy => h1 y (by simp [hy]))

theorem find?_none_iff {α : Type} (p : α → Bool) (l : List α) :
    l.find? p = none ↔ ∀ y ∈ l, p y = false := by
  simp [List.find?_eq_none]

/-! ### fall-back mnemonics -/

theorem gas_eq : Gen.gasSuffixesArch = gasSuffixes := by decide
theorem gas_isa_eq : Gen.gasSuffixesIsa = gasSuffixes := by decide
theorem sep_eq : Gen.suffixSep = dot := by decide

theorem dropGasSuffix_iff (name alt : Txt) :
    dropGasSuffix name = some alt ↔ ∃ c, c ∈ gasSuffixes ∧ name = alt ++ [c] := by
  unfold dropGasSuffix
  rw [gas_eq]
  constructor
  · intro h
    cases hl : name.getLast? with
    | none => simp [hl] at h
    | some c =>
      obtain ⟨ys, hys⟩ := List.getLast?_eq_some_iff.mp hl
      subst hys
      by_cases hc : gasSuffixes.contains c = true
      · simp only [hl, hc, if_true, Option.some.injEq, List.dropLast_concat] at h
        exact ⟨c, by simpa using hc, by rw [h]⟩
      · simp only [hl, hc] at h
        simp at h
  · rintro ⟨c, hc, rfl⟩
    have : gasSuffixes.contains c = true := by simpa using hc
    simp only [List.getLast?_append, List.getLast?_singleton, Option.some_or, this, if_true,
      List.dropLast_concat]

theorem takeWhile_ne_append (alt rest : Txt) (d : Nat) (h : d ∉ alt) :
    (alt ++ d :: rest).takeWhile (· != d) = alt := by
  induction alt with
  | nil => simp
  | cons a as ih =>
    have ha : a ≠ d := fun e => h (by simp [e])
    have hd : d ∉ as := fun e => h (by simp [e])
    simp [List.takeWhile_cons, ha, ih hd]

theorem split_at_first (name : Txt) (d : Nat) (h : d ∈ name) :
    ∃ rest, d ∉ name.takeWhile (· != d) ∧ name = name.takeWhile (· != d) ++ d :: rest := by
  induction name with
  | nil => simp at h
  | cons a as ih =>
    by_cases ha : a = d
    · subst ha
      exact ⟨as, by simp, by simp⟩
    · have hd : d ∈ as := by
        simp only [List.mem_cons] at h
        rcases h with h | h
        · exact absurd h.symm ha
        · exact h
      obtain ⟨rest, r1, r2⟩ := ih hd
      refine ⟨rest, ?_, ?_⟩
      · simp only [List.takeWhile_cons, bne_iff_ne, ne_eq, ha, not_false_eq_true, decide_true, ite_true,
          List.mem_cons, not_or]
        exact ⟨fun e => ha e.symm, r1⟩
      · simp only [List.takeWhile_cons, bne_iff_ne, ne_eq, ha, not_false_eq_true, decide_true, ite_true,
          List.cons_append]
        rw [← r2]

theorem cutAtDot_iff (name alt : Txt) :
    cutAtDot name = some alt ↔ ∃ rest, dot ∉ alt ∧ name = alt ++ dot :: rest := by
  unfold cutAtDot
  rw [sep_eq]
  constructor
  · intro h
    by_cases hc : name.contains dot = true
    · simp only [hc, if_true, Option.some.injEq] at h
      obtain ⟨rest, r1, r2⟩ := split_at_first name dot (by simpa using hc)
      rw [h] at r1 r2
      exact ⟨rest, r1, r2⟩
    · simp only [hc] at h
      simp at h
  · rintro ⟨rest, h1, rfl⟩
    have : (alt ++ dot :: rest).contains dot = true := by simp
    rw [if_pos this, takeWhile_ne_append alt rest dot h1]

theorem fallbackName_iff (isa : Isa) (name alt : Txt) :
    fallbackName isa name = some alt ↔ IsFallback isa name alt := by
  cases isa with
  | x86 => exact dropGasSuffix_iff name alt
  | a64 => exact cutAtDot_iff name alt

end OsacaVerif.Lemmas.Lookup
