import OsacaVerif.Lemmas.A64Prim
/-
  The operand parsers of `Model/ParseA64.lean` on rendered operand texts: which alternatives fail by
  the first characters, and the complete reading of a scalar register and of an integer immediate in
  the first and in the later operand slots (∀ register numbers, ∀ values, ∀ gaps).
-/
namespace OsacaVerif.ParseA64
open OsacaVerif.Text OsacaVerif.Spec.A64 OsacaVerif.Gen

theorem scalarPrefix_not_vector (c : Nat) (h : isScalarPrefixC c = true) : isVectorPrefixC c = false := by
  simp [isScalarPrefixC, A64.scalarPrefixes] at h
  rcases h with rfl | rfl | rfl | rfl | rfl | rfl | rfl | rfl | rfl | rfl | rfl | rfl | rfl | rfl <;> decide

theorem vectorP_none_prefix (g : Txt) (c : Nat) (t : Txt) (hg : Blank g) (hc : isWs c = false)
    (hv : isVectorPrefixC c = false) : vectorP true (g ++ c :: t) = none := by
  simp [vectorP, char1, sk_true, skipWs_blank_append g _ hg, skipWs_cons c _ hc, charNS, hv]

theorem lit_head_ne (g : Txt) (c a : Nat) (t l : Txt) (hg : Blank g) (hc : isWs c = false) (h : c ≠ a) :
    lit true (a :: l) (g ++ c :: t) = none := by
  simp [lit, sk_true, skipWs_blank_append g _ hg, skipWs_cons c _ hc, dropPrefix, h]

/-- the optional shift of a register is absent when what follows is `Follow` -/
theorem shiftTail_none (rest : Txt) (h : Follow rest) : shiftTail rest = none := by
  unfold shiftTail
  cases hl : lit true [44] rest with
  | none => rfl
  | some r => simp [h.noShift r hl]

theorem registerP_scalar (g : Txt) (p n : Nat) (rest : Txt) (hg : Blank g) (hp : isScalarPrefixC p = true)
    (hf : Follow rest) :
    registerP (g ++ p :: (showNat n ++ rest)) =
      some ({ pre := some [p], name := some (showNat n) }, skipWs rest) := by
  obtain ⟨d, ds, hd, hdd⟩ := showNat_cons n
  have hws := alpha_not_ws p (scalarPrefix_alpha p hp)
  have hstop : StopsAt isDigitC rest := hf.stops isDigitC rest (by decide)
  have hcore : registerCore (g ++ p :: (showNat n ++ rest)) =
      some ({ pre := some [p], name := some (showNat n) }, rest) := by
    unfold registerCore
    rw [scalarP_text g p n rest hg hp hstop]
    rw [vectorP_none_prefix g p _ hg hws (scalarPrefix_not_vector p hp)]
    rw [hd, List.cons_append]
    rw [aliasP_none_digit _ g p d _ hg hws hdd aliasSp_names, aliasP_none_digit _ g p d _ hg hws hdd aliasZr_names]
    simp [RegTok.ofElem]
  simp [registerP, hcore, optP, shiftTail_none rest hf, sk_true]

/-- literal whose second character is a letter -/
def sndAlpha (l : Txt) : Bool :=
  match l with
  | _ :: b :: _ => isAlphaC b
  | _ => false

theorem clit_none_snd_digit (g : Txt) (c d : Nat) (t l : Txt) (hg : Blank g) (hc : isWs c = false)
    (hd : isDigitC d = true) (hl : sndAlpha l = true) : clit true l (g ++ c :: d :: t) = none := by
  match l, hl with
  | a :: b :: tl, hl =>
    have hb : isAlphaC b = true := by simpa [sndAlpha] using hl
    have : lowerC d ≠ b := by
      have hb1 := digit_bounds d hd
      simp only [isAlphaC] at hb; simp at hb
      simp only [lowerC]; split <;> omega
    simp only [clit, sk_true, skipWs_blank_append g _ hg, skipWs_cons c _ hc, dropPrefixCI]
    split <;> simp [this]

theorem conditions_sndAlpha : (A64.conditions.map lower).all sndAlpha = true := by decide

theorem conditionP_none_snd_digit (g : Txt) (c d : Nat) (t : Txt) (hg : Blank g) (hc : isWs c = false)
    (hd : isDigitC d = true) : conditionP (g ++ c :: d :: t) = none := by
  unfold conditionP
  rw [clitOr_none]
  · rfl
  · intro l hl
    exact clit_none_snd_digit g c d t l hg hc hd (List.all_eq_true.mp conditions_sndAlpha l hl)

theorem memoryP_none_head (g : Txt) (c : Nat) (t : Txt) (hg : Blank g) (hc : isWs c = false) (h : c ≠ 91) :
    memoryP (g ++ c :: t) = none := by
  simp [memoryP, lit_head_ne g c 91 t [] hg hc h]

theorem lit_none_of_follow (rest : Txt) (h : Follow rest) (a : Nat) (l : Txt) (ha : a ≠ 44 ∧ a ≠ 47 ∧ a ≠ 93) :
    lit true (a :: l) rest = none := by
  simp only [lit, sk_true]
  cases hs : skipWs rest with
  | nil => rfl
  | cons c r =>
    have := h.next c r hs
    have hne : c ≠ a := by rcases this with rfl | rfl | rfl <;> omega
    simp [dropPrefix, hne]

theorem alpha_idFirst (c : Nat) (h : isAlphaC c = true) : isIdFirstC c = true := by
  simp [isIdFirstC, h]

/-- first character of an identifier: a letter, `_` or `.` -/
theorem idFirst_facts (c : Nat) (h : isIdFirstC c = true) :
    isWs c = false ∧ c ≠ 58 ∧ c ≠ 35 ∧ c ≠ 45 ∧ c ≠ 48 ∧ isDigitC c = false ∧ c ≠ 91 ∧ c ≠ 123 := by
  simp only [isIdFirstC, isAlphaC, A64.identFirstExtra] at h
  simp at h
  simp only [isWs, isDigitC]
  simp
  omega

theorem identifier_word' (g : Txt) (c : Nat) (w rest : Txt) (hg : Blank g) (hc : isIdFirstC c = true)
    (hw : ∀ d ∈ w, isIdRestC d = true) (hstop : StopsAt isIdRestC rest) (hplus : lit true [43] rest = none) :
    identifier (g ++ c :: (w ++ rest)) = some (⟨none, c :: w, none⟩, skipWs rest) := by
  have hws := (idFirst_facts c hc).1
  have hc58 : c ≠ 58 := (idFirst_facts c hc).2.1
  have hrel : relocation (g ++ c :: (w ++ rest)) = none := by
    simp only [relocation, skipWs_blank_append g _ hg, skipWs_cons c _ hws]
    split
    · rename_i r h; simp at h; omega
    · rfl
  have hname : identName (c :: (w ++ rest)) = some (c :: w, rest) := by
    simp [identName, skipWs_cons c _ hws, hc, spanP_append isIdRestC w rest hw hstop]
  have hoff : identOffset rest = none := by
    simp [identOffset, hplus]
  simp [identifier, optP, hrel, sk_true, skipWs_blank_append g _ hg, skipWs_cons c _ hws, hname, hoff]

theorem identifier_word (g : Txt) (c : Nat) (w rest : Txt) (hg : Blank g) (hc : isAlphaC c = true)
    (hw : ∀ d ∈ w, isIdRestC d = true) (hf : Follow rest) :
    identifier (g ++ c :: (w ++ rest)) = some (⟨none, c :: w, none⟩, skipWs rest) :=
  identifier_word' g c w rest hg (alpha_idFirst c hc) hw (hf.stops isIdRestC rest (by decide))
    (lit_none_of_follow rest hf 43 [] (by omega))

theorem digit_idRest (d : Nat) (h : isDigitC d = true) : isIdRestC d = true := by
  simp [isIdRestC, isAlnumC, h]

theorem alpha_not_digit (c : Nat) (h : isAlphaC c = true) : isDigitC c = false := by
  simp only [isAlphaC, isDigitC] at *; simp at *; omega

/-- an immediate that starts with a letter is an identifier -/
theorem immediate_word' (g : Txt) (c : Nat) (w rest : Txt) (hg : Blank g) (hc : isIdFirstC c = true)
    (hw : ∀ d ∈ w, isIdRestC d = true) (hstop : StopsAt isIdRestC rest) (hplus : lit true [43] rest = none) :
    immediate (g ++ c :: (w ++ rest)) = some (.ident ⟨none, c :: w, none⟩, skipWs rest) := by
  obtain ⟨hws, _, h35, h45, h48, hnd, _, _⟩ := idFirst_facts c hc
  have hstopd : StopsAt isDigitC (c :: (w ++ rest)) := by
    intro c' r h; simp at h; obtain ⟨rfl, _⟩ := h; exact hnd
  have h1 : optLit true A64.immSym (g ++ c :: (w ++ rest)) = c :: (w ++ rest) := by
    have : lit true A64.immSym (g ++ c :: (w ++ rest)) = none :=
      lit_head_ne g c 35 _ [] hg hws h35
    simp [optLit, this, sk_true, skipWs_blank_append g _ hg, skipWs_cons c _ hws]
  have hhex : hexNum (c :: (w ++ rest)) = none := by
    simp only [hexNum, skipWs_cons c _ hws, hexNumNS]
    split
    · rename_i r h; simp at h; omega
    · have : dropPrefix (c :: (w ++ rest)) A64.hexPrefix = none := by
        show dropPrefix (c :: (w ++ rest)) [48, 120] = none
        exact dropPrefix_head_ne c 48 _ _ h48
      simp [this]
  have hdec : decNum (c :: (w ++ rest)) = none := by
    simp only [decNum, skipWs_cons c _ hws, decNumNS]
    split
    · rename_i r h; simp at h; omega
    · exact wordNS_none isDigitC _ hstopd
  have hmant : mantissa (c :: (w ++ rest)) = none := by
    simp only [mantissa, skipWs_cons c _ hws]
    split
    · rename_i r h; simp at h; omega
    · simp [mantissaNS, wordNS_none isDigitC _ hstopd]
  have hid := identifier_word' [] c w rest blank_nil hc hw hstop hplus
  simp only [List.nil_append] at hid
  simp [immediate, h1, hhex, hdec, floatP, doubleP, hmant, hid]

theorem immediate_word (g : Txt) (c : Nat) (w rest : Txt) (hg : Blank g) (hc : isAlphaC c = true)
    (hw : ∀ d ∈ w, isIdRestC d = true) (hf : Follow rest) :
    immediate (g ++ c :: (w ++ rest)) = some (.ident ⟨none, c :: w, none⟩, skipWs rest) :=
  immediate_word' g c w rest hg (alpha_idFirst c hc) hw (hf.stops isIdRestC rest (by decide))
    (lit_none_of_follow rest hf 43 [] (by omega))

theorem lit_skipWs (l s : Txt) : lit true l (skipWs s) = lit true l s := by
  simp [lit, sk_true, skipWs_idem]

/-- after an immediate, `, shift_op …` does not follow -/
theorem arith_tail_none (rest : Txt) (hf : Follow rest) :
    (match lit true [44] rest with
     | some r1 =>
       match shiftOp r1 with
       | some (op, r2) => some ((op, (optP true immediate r2).1), (optP true immediate r2).2)
       | none => none
     | none => (none : Res (Txt × Option ImmTok))) = none := by
  cases hl : lit true [44] rest with
  | none => rfl
  | some r => simp [hf.noShift r hl]

theorem arithP_none_of_immediate (s rest : Txt) (i : ImmTok) (r : Txt) (hi : immediate s = some (i, r))
    (hr : skipWs r = skipWs rest) (hf : Follow rest) : arithP s = none := by
  unfold arithP
  rw [hi]
  simp only
  have : lit true [44] r = lit true [44] rest := by
    rw [← lit_skipWs, hr, lit_skipWs]
  rw [this]
  cases hl : lit true [44] rest with
  | none => rfl
  | some r1 => simp [hf.noShift r1 hl]

theorem skipWs_length_le (s : Txt) : (skipWs s).length ≤ s.length := by
  induction s with
  | nil => simp [skipWs]
  | cons c s ih =>
    simp only [skipWs]; split <;> simp <;> omega

/-- **scalar register** in a non-first operand slot -/
theorem operandRest_scalar (g : Txt) (p n : Nat) (rest : Txt) (hg : Blank g) (hp : isScalarPrefixC p = true)
    (hf : Follow rest) :
    operandRest (g ++ p :: (showNat n ++ rest)) =
      some (.reg { pre := some [p], name := some (showNat n) }, skipWs rest) := by
  obtain ⟨d, ds, hd, hdd⟩ := showNat_cons n
  have hal := scalarPrefix_alpha p hp
  have hws := alpha_not_ws p hal
  have hreg := registerP_scalar g p n rest hg hp hf
  have himm := immediate_word g p (showNat n) rest hg hal
    (fun c hc => digit_idRest c (showNat_digits n c hc)) hf
  have hcond : conditionP (g ++ p :: (showNat n ++ rest)) = none := by
    rw [hd, List.cons_append]; exact conditionP_none_snd_digit g p d _ hg hws hdd
  have hmem : memoryP (g ++ p :: (showNat n ++ rest)) = none :=
    memoryP_none_head g p _ hg hws (by simp only [isAlphaC] at hal; simp at hal; omega)
  have harith : arithP (g ++ p :: (showNat n ++ rest)) = none :=
    arithP_none_of_immediate _ rest _ _ himm (skipWs_idem rest) hf
  simp only [operandRest, hcond, hreg, himm, hmem, arithOp, harith, mapR_none, mapR_some, wordEnd_none,
    orElseR_none_left, better_none_right]
  rw [better_some_ge _ _ _ _ (Nat.le_refl _)]
  rfl

/-! ### parsers that fail on a first character that is not a letter -/
def headAlpha (l : Txt) : Bool :=
  match l with
  | a :: _ => isAlphaC a
  | [] => false

theorem lowerC_nonalpha (c : Nat) (h : isAlphaC c = false) : lowerC c = c ∧ isAlphaC (lowerC c) = false := by
  have : lowerC c = c := by
    simp only [isAlphaC] at h; simp at h
    simp only [lowerC]; split <;> omega
  rw [this]; exact ⟨rfl, h⟩

theorem clit_none_head_nonalpha (g : Txt) (c : Nat) (t l : Txt) (hg : Blank g) (hc : isWs c = false)
    (ha : isAlphaC c = false) (hl : headAlpha l = true) : clit true l (g ++ c :: t) = none := by
  match l, hl with
  | a :: tl, hl =>
    have haa : isAlphaC a = true := by simpa [headAlpha] using hl
    have : lowerC c ≠ a := by
      intro h; rw [← h, (lowerC_nonalpha c ha).2] at haa; cases haa
    simp [clit, sk_true, skipWs_blank_append g _ hg, skipWs_cons c _ hc, dropPrefixCI, this]

theorem clitOr_none_head_nonalpha (g : Txt) (c : Nat) (t : Txt) (ls : List Txt) (hg : Blank g)
    (hc : isWs c = false) (ha : isAlphaC c = false) (hl : ls.all headAlpha = true) :
    clitOr true ls (g ++ c :: t) = none :=
  clitOr_none true ls _ (fun l hm => clit_none_head_nonalpha g c t l hg hc ha (List.all_eq_true.mp hl l hm))

theorem conditions_headAlpha : (A64.conditions.map lower).all headAlpha = true := by decide
theorem shiftOps_headAlpha : A64.shiftOps.all headAlpha = true := by decide
theorem prfTypes_headAlpha : (A64.prfTypes.map lower).all headAlpha = true := by decide
theorem aliasSp_headAlpha : A64.aliasSp.all headAlpha = true := by decide
theorem aliasZr_headAlpha : A64.aliasZr.all headAlpha = true := by decide

theorem conditionP_none_nonalpha (g : Txt) (c : Nat) (t : Txt) (hg : Blank g) (hc : isWs c = false)
    (ha : isAlphaC c = false) : conditionP (g ++ c :: t) = none := by
  simp [conditionP, clitOr_none_head_nonalpha g c t _ hg hc ha conditions_headAlpha]

theorem shiftOp_none_nonalpha (g : Txt) (c : Nat) (t : Txt) (hg : Blank g) (hc : isWs c = false)
    (ha : isAlphaC c = false) : shiftOp (g ++ c :: t) = none := by
  simp [shiftOp, clitOr_none_head_nonalpha g c t _ hg hc ha shiftOps_headAlpha]

theorem prefetchP_none_nonalpha (g : Txt) (c : Nat) (t : Txt) (hg : Blank g) (hc : isWs c = false)
    (ha : isAlphaC c = false) : prefetchP (g ++ c :: t) = none := by
  simp [prefetchP, clitOr_none_head_nonalpha g c t _ hg hc ha prfTypes_headAlpha]

theorem aliasP_none_nonalpha (names : List Txt) (g : Txt) (c : Nat) (t : Txt) (hg : Blank g)
    (hc : isWs c = false) (ha : isAlphaC c = false) (hn : names.all headAlpha = true) :
    aliasP names (g ++ c :: t) = none := by
  have h2 : names.any (fun n => startsWith (c :: t) n) = false := by
    rw [List.any_eq_false]
    intro n hm
    have := List.all_eq_true.mp hn n hm
    match n, this with
    | a :: tl, this =>
      have haa : isAlphaC a = true := by simpa [headAlpha] using this
      have : c ≠ a := by intro h; subst h; rw [ha] at haa; cases haa
      simp [startsWith, this]
  simp [aliasP, skipWs_blank_append g _ hg, skipWs_cons c _ hc, ha, h2]

theorem scalarPrefix_alpha' (c : Nat) (h : isAlphaC c = false) : isScalarPrefixC c = false := by
  cases h' : isScalarPrefixC c with
  | false => rfl
  | true => rw [scalarPrefix_alpha c h'] at h; cases h

theorem vectorPrefix_alpha (c : Nat) (h : isVectorPrefixC c = true) : isAlphaC c = true := by
  simp [isVectorPrefixC, A64.vectorPrefixes] at h
  simp only [isAlphaC]; simp
  simp only [lowerC] at h
  split at h <;> omega

theorem registerP_none_nonalpha (g : Txt) (c : Nat) (t : Txt) (hg : Blank g) (hc : isWs c = false)
    (ha : isAlphaC c = false) (h123 : c ≠ 123) : registerP (g ++ c :: t) = none := by
  have hv : isVectorPrefixC c = false := by
    cases h' : isVectorPrefixC c with
    | false => rfl
    | true => rw [vectorPrefix_alpha c h'] at ha; cases ha
  have hs : scalarP true (g ++ c :: t) = none := by
    simp [scalarP, char1, sk_true, skipWs_blank_append g _ hg, skipWs_cons c _ hc, charNS, scalarPrefix_alpha' c ha]
  have hp : predicateP (g ++ c :: t) = none := by
    have : clit true A64.predPrefix (g ++ c :: t) = none :=
      clit_none_head_nonalpha g c t _ hg hc ha (by decide)
    simp [predicateP, this]
  have hl : registerList (g ++ c :: t) = none := by
    simp [registerList, lit_head_ne g c 123 t [] hg hc h123]
  simp [registerP, registerCore, aliasP_none_nonalpha _ g c t hg hc ha aliasSp_headAlpha,
    aliasP_none_nonalpha _ g c t hg hc ha aliasZr_headAlpha, vectorP_none_prefix g c t hg hc hv, hs, hp, hl]

/-- `Optional("#")` in front of a number written with or without `#` -/
theorem optLit_hash (g : Txt) (h : Bool) (c : Nat) (t : Txt) (hg : Blank g) (hc : isWs c = false)
    (h35 : c ≠ 35) : optLit true A64.immSym (g ++ (optHash h ++ c :: t)) = c :: t := by
  cases h with
  | true =>
    have : lit true A64.immSym (g ++ (optHash true ++ c :: t)) = some (c :: t) := by
      simp [lit, sk_true, skipWs_blank_append g _ hg, optHash, A64.immSym, skipWs, isWs, dropPrefix]
    simp [optLit, this]
  | false =>
    have : lit true A64.immSym (g ++ c :: t) = none := lit_head_ne g c 35 t [] hg hc h35
    simp [optLit, this, optHash, sk_true, skipWs_blank_append g _ hg, skipWs_cons c _ hc]

/-- decimal digits are not followed by `x` where a hexadecimal prefix would need it -/
theorem dropPrefix_hex_digits (w rest : Txt) (hw : ∀ c ∈ w, isDigitC c = true)
    (hr : StopsAt (fun c => c == 48 || c == 120) rest) : dropPrefix (w ++ rest) A64.hexPrefix = none := by
  show dropPrefix (w ++ rest) [48, 120] = none
  match w, hw with
  | [], _ =>
    cases rest with
    | nil => rfl
    | cons c r =>
      have := hr c r rfl; simp at this
      simp [dropPrefix, this.1]
  | [a], _ =>
    cases rest with
    | nil => simp [dropPrefix]
    | cons c r =>
      have := hr c r rfl; simp at this
      simp [dropPrefix, this.2]
  | a :: b :: w', hw =>
    have hb := digit_bounds b (hw b (by simp))
    have : b ≠ 120 := by omega
    simp [dropPrefix, this]

theorem mantissaNS_none_digits (c : Nat) (w rest : Txt) (hw : ∀ d ∈ c :: w, isDigitC d = true)
    (hr : StopsAt (fun c => isDigitC c || c == 46) rest) : mantissaNS (c :: (w ++ rest)) = none := by
  have hstop : StopsAt isDigitC rest := by
    intro d r h; have := hr d r h; simp at this; exact this.1
  rw [mantissaNS, wordNS_append isDigitC c w rest hw hstop]
  cases rest with
  | nil => rfl
  | cons d r =>
    have := hr d r rfl; simp at this
    split
    · rename_i a r1 h; simp at h; omega
    · rfl

/-- the `hex ^ dec ^ float ^ double` group on an unsigned decimal numeral -/
theorem immediate_dec_aux (neg : Bool) (n : Nat) (rest : Txt) (hf : HeadStop rest) :
    (mapR ImmTok.num (hexNum (optNeg neg ++ (showNat n ++ rest))) <^>
      mapR ImmTok.num (decNum (optNeg neg ++ (showNat n ++ rest))) <^>
      floatP (optNeg neg ++ (showNat n ++ rest)) <^> doubleP (optNeg neg ++ (showNat n ++ rest)))
    = some (.num (optNeg neg ++ showNat n), rest) := by
  obtain ⟨d, ds, hd, hdd⟩ := showNat_cons n
  have hall : ∀ c ∈ d :: ds, isDigitC c = true := by rw [← hd]; exact showNat_digits n
  have hwsd := digit_not_ws d hdd
  have hs1 : StopsAt isDigitC rest := hf.stops _ rest (by decide)
  have hs2 : StopsAt (fun c => c == 48 || c == 120) rest := hf.stops _ rest (by decide)
  have hs3 : StopsAt (fun c => isDigitC c || c == 46) rest := hf.stops _ rest (by decide)
  have hdb := digit_bounds d hdd
  cases neg with
  | false =>
    simp only [optNeg, Bool.false_eq_true, if_false, List.nil_append]
    rw [hd, List.cons_append]
    have hhex : hexNum (d :: (ds ++ rest)) = none := by
      simp only [hexNum, skipWs_cons d _ hwsd, hexNumNS]
      split
      · rename_i r h; simp at h; omega
      · have := dropPrefix_hex_digits (d :: ds) rest hall hs2
        simp only [List.cons_append] at this
        simp [this]
    have hdec : decNum (d :: (ds ++ rest)) = some (d :: ds, rest) := by
      simp only [decNum, skipWs_cons d _ hwsd, decNumNS]
      split
      · rename_i r h; simp at h; omega
      · exact wordNS_append isDigitC d ds rest hall hs1
    have hm : mantissa (d :: (ds ++ rest)) = none := by
      simp only [mantissa, skipWs_cons d _ hwsd]
      split
      · rename_i r h; simp at h; omega
      · exact mantissaNS_none_digits d ds rest hall hs3
    simp [hhex, hdec, floatP, doubleP, hm]
  | true =>
    simp only [optNeg, if_true, List.cons_append, List.nil_append]
    rw [hd, List.cons_append]
    have hws45 : isWs 45 = false := by decide
    have hhex : hexNum (45 :: d :: (ds ++ rest)) = none := by
      simp only [hexNum, skipWs_cons 45 _ hws45, hexNumNS]
      have := dropPrefix_hex_digits (d :: ds) rest hall hs2
      simp only [List.cons_append] at this
      simp [this]
    have hdec : decNum (45 :: d :: (ds ++ rest)) = some (45 :: d :: ds, rest) := by
      simp only [decNum, skipWs_cons 45 _ hws45, decNumNS]
      rw [wordNS_append isDigitC d ds rest hall hs1]; rfl
    have hm : mantissa (45 :: d :: (ds ++ rest)) = none := by
      simp only [mantissa, skipWs_cons 45 _ hws45]
      rw [mantissaNS_none_digits d ds rest hall hs3]; rfl
    simp [hhex, hdec, floatP, doubleP, hm]

theorem showHex_cons (up : Bool) (n : Nat) : ∃ d ds, showHex up n = d :: ds ∧ ∀ c ∈ d :: ds, isHexC c = true := by
  cases h : showHex up n with
  | nil => exact absurd h (showBase_ne_nil 16 (hexDigit up) n)
  | cons d ds =>
    refine ⟨d, ds, rfl, ?_⟩
    have := showHex_all up n
    rw [h, List.all_eq_true] at this
    exact this

/-- the `hex ^ dec ^ float ^ double` group on a hexadecimal numeral: the hexadecimal reading is the
    longest (the decimal one stops after the leading `0`) -/
theorem immediate_hex_aux (neg up : Bool) (n : Nat) (rest : Txt) (hf : HeadStop rest) :
    (mapR ImmTok.num (hexNum (optNeg neg ++ (48 :: 120 :: (showHex up n ++ rest)))) <^>
      mapR ImmTok.num (decNum (optNeg neg ++ (48 :: 120 :: (showHex up n ++ rest)))) <^>
      floatP (optNeg neg ++ (48 :: 120 :: (showHex up n ++ rest))) <^>
      doubleP (optNeg neg ++ (48 :: 120 :: (showHex up n ++ rest))))
    = some (.num (optNeg neg ++ 48 :: 120 :: showHex up n), rest) := by
  obtain ⟨d, ds, hd, hall⟩ := showHex_cons up n
  have hs1 : StopsAt isHexC rest := hf.stops _ rest (by decide)
  have hsx : StopsAt isDigitC (120 :: (showHex up n ++ rest)) := by
    intro c r h; simp at h; obtain ⟨rfl, _⟩ := h; decide
  have hw0 : wordNS isDigitC (48 :: 120 :: (showHex up n ++ rest)) = some ([48], 120 :: (showHex up n ++ rest)) := by
    have := wordNS_append isDigitC 48 [] (120 :: (showHex up n ++ rest)) (by simp; decide) hsx
    simpa using this
  have hws48 : isWs 48 = false := by decide
  have hws45 : isWs 45 = false := by decide
  have hhexw : wordNS isHexC (showHex up n ++ rest) = some (showHex up n, rest) := by
    rw [hd, List.cons_append]; exact wordNS_append isHexC d ds rest hall hs1
  have hlen : rest.length ≤ (120 :: (showHex up n ++ rest)).length := by simp; omega
  cases neg with
  | false =>
    simp only [optNeg, Bool.false_eq_true, if_false, List.nil_append]
    have hhex : hexNum (48 :: 120 :: (showHex up n ++ rest)) = some (48 :: 120 :: showHex up n, rest) := by
      simp only [hexNum, skipWs_cons 48 _ hws48, hexNumNS]
      have : dropPrefix (48 :: 120 :: (showHex up n ++ rest)) A64.hexPrefix = some (showHex up n ++ rest) :=
        dropPrefix_append [48, 120] _
      rw [this]; simp only [hhexw]; simp [A64.hexPrefix]
    have hdec : decNum (48 :: 120 :: (showHex up n ++ rest)) = some ([48], 120 :: (showHex up n ++ rest)) := by
      simp only [decNum, skipWs_cons 48 _ hws48, decNumNS]; exact hw0
    have hm : mantissa (48 :: 120 :: (showHex up n ++ rest)) = none := by
      simp only [mantissa, skipWs_cons 48 _ hws48, mantissaNS, hw0]
    simp only [hhex, hdec, floatP, doubleP, hm, mapR_some, better_none_right]
    rw [better_some_ge _ _ _ _ hlen]
  | true =>
    simp only [optNeg, if_true, List.cons_append, List.nil_append]
    have hhex : hexNum (45 :: 48 :: 120 :: (showHex up n ++ rest)) = some (45 :: 48 :: 120 :: showHex up n, rest) := by
      simp only [hexNum, skipWs_cons 45 _ hws45, hexNumNS]
      have : dropPrefix (48 :: 120 :: (showHex up n ++ rest)) A64.hexPrefix = some (showHex up n ++ rest) :=
        dropPrefix_append [48, 120] _
      rw [this]; simp only [hhexw]; simp [A64.hexPrefix]
    have hdec : decNum (45 :: 48 :: 120 :: (showHex up n ++ rest)) = some ([45, 48], 120 :: (showHex up n ++ rest)) := by
      simp only [decNum, skipWs_cons 45 _ hws45, decNumNS, hw0]; rfl
    have hm : mantissa (45 :: 48 :: 120 :: (showHex up n ++ rest)) = none := by
      simp only [mantissa, skipWs_cons 45 _ hws45, mantissaNS, hw0]; rfl
    simp only [hhex, hdec, floatP, doubleP, hm, mapR_some, better_none_right]
    rw [better_some_ge _ _ _ _ hlen]

/-- text of the digits of an integer immediate as written -/
def intDigits (i : IntA) : Txt := if i.hex then 48 :: 120 :: showHex i.hexup i.abs else showNat i.abs

theorem intText_eq (i : IntA) (rest : Txt) :
    intText i ++ rest = optHash i.hash ++ (optNeg i.neg ++ (intDigits i ++ rest)) := by
  simp only [intText, intDigits]
  split <;> simp [List.append_assoc]

theorem optNeg_digits_head (neg : Bool) (D rest : Txt) (hD : ∃ d ds, D = d :: ds ∧ isDigitC d = true) :
    ∃ c t, optNeg neg ++ (D ++ rest) = c :: t ∧ isWs c = false ∧ c ≠ 35 ∧ isAlphaC c = false ∧ c ≠ 123 ∧ c ≠ 91 := by
  obtain ⟨d, ds, rfl, hd⟩ := hD
  have hb := digit_bounds d hd
  cases neg with
  | true => exact ⟨45, d :: (ds ++ rest), by simp [optNeg], by decide, by decide, by decide, by decide, by decide⟩
  | false =>
    refine ⟨d, ds ++ rest, by simp [optNeg], digit_not_ws d hd, by omega, ?_, by omega, by omega⟩
    simp only [isAlphaC]; simp; omega

theorem intDigits_head (i : IntA) : ∃ d ds, intDigits i = d :: ds ∧ isDigitC d = true := by
  simp only [intDigits]
  split
  · exact ⟨48, _, rfl, by decide⟩
  · exact showNat_cons i.abs

/-- **integer immediate** (decimal or hexadecimal, with or without `#`, signed) as the grammar reads it -/
theorem immediate_int' (g : Txt) (i : IntA) (rest : Txt) (hg : Blank g) (hf : HeadStop rest) :
    immediate (g ++ (intText i ++ rest)) = some (.num (optNeg i.neg ++ intDigits i), rest) := by
  rw [intText_eq]
  obtain ⟨c, t, hct, hws, h35, _, _, _⟩ := optNeg_digits_head i.neg (intDigits i) rest (intDigits_head i)
  unfold immediate
  rw [hct, optLit_hash g i.hash c t hg hws h35, ← hct]
  simp only [intDigits]
  split
  · simp only [List.cons_append]
    rw [immediate_hex_aux i.neg i.hexup i.abs rest hf]; rfl
  · rw [immediate_dec_aux i.neg i.abs rest hf]; rfl

theorem immediate_int (g : Txt) (i : IntA) (rest : Txt) (hg : Blank g) (hf : Follow rest) :
    immediate (g ++ (intText i ++ rest)) = some (.num (optNeg i.neg ++ intDigits i), rest) :=
  immediate_int' g i rest hg hf.headStop

/-- **integer immediate** in a non-first operand slot -/
theorem operandRest_int (g : Txt) (i : IntA) (rest : Txt) (hg : Blank g) (hf : Follow rest) :
    operandRest (g ++ (intText i ++ rest)) = some (.imm (.num (optNeg i.neg ++ intDigits i)), rest) := by
  have himm := immediate_int g i rest hg hf
  have harith : arithP (g ++ (intText i ++ rest)) = none :=
    arithP_none_of_immediate _ rest _ _ himm rfl hf
  -- first character: `#`, `-` or a digit
  have hhead : ∃ c t, g ++ (intText i ++ rest) = g ++ c :: t ∧ isWs c = false ∧ isAlphaC c = false ∧ c ≠ 123 ∧ c ≠ 91 := by
    rw [intText_eq]
    obtain ⟨c, t, hct, hws, _, ha, h1, h2⟩ := optNeg_digits_head i.neg (intDigits i) rest (intDigits_head i)
    cases hh : i.hash with
    | true => exact ⟨35, optNeg i.neg ++ (intDigits i ++ rest), by simp [optHash], by decide, by decide, by decide, by decide⟩
    | false => exact ⟨c, t, by simp [optHash, hct], hws, ha, h1, h2⟩
  obtain ⟨c, t, hct, hws, ha, h123, h91⟩ := hhead
  have hreg : registerP (g ++ (intText i ++ rest)) = none := by
    rw [hct]; exact registerP_none_nonalpha g c t hg hws ha h123
  have hcond : conditionP (g ++ (intText i ++ rest)) = none := by
    rw [hct]; exact conditionP_none_nonalpha g c t hg hws ha
  have hmem : memoryP (g ++ (intText i ++ rest)) = none := by
    rw [hct]; exact memoryP_none_head g c t hg hws h91
  simp [operandRest, hcond, hreg, himm, hmem, arithOp, harith]

theorem prfTypes_sndAlpha : (A64.prfTypes.map lower).all sndAlpha = true := by decide

theorem prefetchP_none_snd_digit (g : Txt) (c d : Nat) (t : Txt) (hg : Blank g) (hc : isWs c = false)
    (hd : isDigitC d = true) : prefetchP (g ++ c :: d :: t) = none := by
  have : clitOr true (A64.prfTypes.map lower) (g ++ c :: d :: t) = none :=
    clitOr_none _ _ _ (fun l hl =>
      clit_none_snd_digit g c d t l hg hc hd (List.all_eq_true.mp prfTypes_sndAlpha l hl))
  simp [prefetchP, this]

theorem identifier_none_head (g : Txt) (c : Nat) (t : Txt) (hg : Blank g) (hc : isWs c = false)
    (hf : isIdFirstC c = false) (h58 : c ≠ 58) : identifier (g ++ c :: t) = none := by
  have hrel : relocation (g ++ c :: t) = none := by
    simp only [relocation, skipWs_blank_append g _ hg, skipWs_cons c _ hc]
    split
    · rename_i r h; simp at h; omega
    · rfl
  simp [identifier, optP, hrel, sk_true, skipWs_blank_append g _ hg, skipWs_cons c _ hc, identName, hf]

/-- **scalar register** in the first operand slot -/
theorem operandFirst_scalar (g : Txt) (p n : Nat) (rest : Txt) (hg : Blank g) (hp : isScalarPrefixC p = true)
    (hf : Follow rest) :
    operandFirst (g ++ p :: (showNat n ++ rest)) =
      some (.reg { pre := some [p], name := some (showNat n) }, skipWs rest) := by
  obtain ⟨d, ds, hd, hdd⟩ := showNat_cons n
  have hal := scalarPrefix_alpha p hp
  have hws := alpha_not_ws p hal
  have hreg := registerP_scalar g p n rest hg hp hf
  have hidr : ∀ c ∈ showNat n, isIdRestC c = true := fun c hc => digit_idRest c (showNat_digits n c hc)
  have himm := immediate_word g p (showNat n) rest hg hal hidr hf
  have hid := identifier_word g p (showNat n) rest hg hal hidr hf
  have hprf : prefetchP (g ++ p :: (showNat n ++ rest)) = none := by
    rw [hd, List.cons_append]; exact prefetchP_none_snd_digit g p d _ hg hws hdd
  have hmem : memoryP (g ++ p :: (showNat n ++ rest)) = none :=
    memoryP_none_head g p _ hg hws (by simp only [isAlphaC] at hal; simp at hal; omega)
  have harith : arithP (g ++ p :: (showNat n ++ rest)) = none :=
    arithP_none_of_immediate _ rest _ _ himm (skipWs_idem rest) hf
  simp only [operandFirst, hprf, hreg, himm, hid, hmem, arithOp, harith, mapR_none, mapR_some, wordEnd_none,
    orElseR_none_left, better_none_right]
  rw [better_some_ge _ _ _ _ (Nat.le_refl _), better_some_ge _ _ _ _ (Nat.le_refl _)]

/-- **integer immediate** in the first operand slot -/
theorem operandFirst_int (g : Txt) (i : IntA) (rest : Txt) (hg : Blank g) (hf : Follow rest) :
    operandFirst (g ++ (intText i ++ rest)) = some (.imm (.num (optNeg i.neg ++ intDigits i)), rest) := by
  have himm := immediate_int g i rest hg hf
  have harith : arithP (g ++ (intText i ++ rest)) = none :=
    arithP_none_of_immediate _ rest _ _ himm rfl hf
  have hhead : ∃ c t, g ++ (intText i ++ rest) = g ++ c :: t ∧ isWs c = false ∧ isAlphaC c = false ∧ c ≠ 123 ∧ c ≠ 91
      ∧ isIdFirstC c = false ∧ c ≠ 58 := by
    rw [intText_eq]
    obtain ⟨d, ds, hD, hd⟩ := intDigits_head i
    have hb := digit_bounds d hd
    have hdf : isIdFirstC d = false := by
      simp only [isIdFirstC, isAlphaC, A64.identFirstExtra]; simp; omega
    cases hh : i.hash with
    | true =>
      exact ⟨35, optNeg i.neg ++ (intDigits i ++ rest), by simp [optHash], by decide, by decide, by decide,
        by decide, by decide, by decide⟩
    | false =>
      cases hn : i.neg with
      | true =>
        exact ⟨45, intDigits i ++ rest, by simp [optHash, optNeg], by decide, by decide, by decide,
          by decide, by decide, by decide⟩
      | false =>
        refine ⟨d, ds ++ rest, by simp [optHash, optNeg, hD], digit_not_ws d hd, ?_, by omega, by omega, hdf, by omega⟩
        simp only [isAlphaC]; simp; omega
  obtain ⟨c, t, hct, hws, ha, h123, h91, hidf, h58⟩ := hhead
  have hreg : registerP (g ++ (intText i ++ rest)) = none := by
    rw [hct]; exact registerP_none_nonalpha g c t hg hws ha h123
  have hprf : prefetchP (g ++ (intText i ++ rest)) = none := by
    rw [hct]; exact prefetchP_none_nonalpha g c t hg hws ha
  have hmem : memoryP (g ++ (intText i ++ rest)) = none := by
    rw [hct]; exact memoryP_none_head g c t hg hws h91
  have hid : identifier (g ++ (intText i ++ rest)) = none := by
    rw [hct]; exact identifier_none_head g c t hg hws hidf h58
  simp [operandFirst, hprf, hreg, himm, hmem, arithOp, harith, hid]

end OsacaVerif.ParseA64
