import OsacaVerif.Lemmas.A64Vector
/-
  Identifiers (label operands) `.L4`, `loop`, `_foo.bar2`.
-/
namespace OsacaVerif.ParseA64
open OsacaVerif.Text OsacaVerif.Spec.A64 OsacaVerif.Gen

/-- `l` is a caseless prefix of `w` (`l` in lower case) -/
def ciPrefix : Txt → Txt → Bool
  | [], _ => true
  | _ :: _, [] => false
  | a :: l, c :: w => lowerC c == a && ciPrefix l w

/-- a caseless keyword `l` that begins with the all-letter word `sw` does not match a text that does
    not begin with `sw`, when the text is followed by a gap, comma, comment or the end -/
theorem dropPrefixCI_none_word (sw tl w rest : Txt) (hsw : ∀ a ∈ sw, isAlphaC a = true)
    (hno : ciPrefix sw w = false) (hf : NoAlphaHead rest) : dropPrefixCI (w ++ rest) (sw ++ tl) = none := by
  induction w generalizing sw with
  | nil =>
    cases sw with
    | nil => simp [ciPrefix] at hno
    | cons a sw' =>
      have ha := hsw a (by simp)
      cases rest with
      | nil => rfl
      | cons c r =>
        have := lowerC_ne_alpha c a (hf c r rfl) ha
        simp [dropPrefixCI, this]
  | cons c w ih =>
    cases sw with
    | nil => simp [ciPrefix] at hno
    | cons a sw' =>
      simp only [List.cons_append, dropPrefixCI]
      by_cases hc : lowerC c = a
      · simp only [hc, beq_self_eq_true, if_true]
        apply ih sw' (fun b hb => hsw b (by simp [hb]))
        simpa [ciPrefix, hc] using hno
      · simp [hc]

/-- the leading words of the shift / extend operators (`mul` of `mul vl`), and the words a label name
    must not begin with (caselessly) because it would be read as a prefetch operation.  A name may begin
    with a shift word (`lsl_loop`, `rorx`): the operator ends at a word boundary; only a name that *is*
    a shift operator (`lsl`) is read as the shift of the operand in front of it. -/
def shiftWords : List Txt :=
  [ofString "lsl", ofString "lsr", ofString "asr", ofString "ror", ofString "sxtw", ofString "uxtw",
   ofString "uxtb", ofString "sxtx", ofString "mul"]
def prfWords : List Txt := [ofString "pld", ofString "pst"]

def startsWord (sw l : Txt) : Bool := startsWith l sw && sw.all isAlphaC

theorem shiftOps_words : ∀ l ∈ A64.shiftOps, shiftWords.any (fun sw => startsWord sw l) = true := by decide
theorem prfTypes_words : ∀ l ∈ A64.prfTypes.map lower, prfWords.any (fun sw => startsWord sw l) = true := by decide

theorem startsWith_split (l sw : Txt) (h : startsWith l sw = true) : ∃ tl, l = sw ++ tl := by
  induction sw generalizing l with
  | nil => exact ⟨l, rfl⟩
  | cons a sw ih =>
    cases l with
    | nil => simp [startsWith] at h
    | cons c l =>
      simp [startsWith] at h
      obtain ⟨tl, htl⟩ := ih l h.2
      exact ⟨tl, by rw [h.1, htl]; rfl⟩

/-- no keyword of a list matches a name that begins with none of the list's words -/
theorem clitOr_none_words (ls words : List Txt) (g name rest : Txt) (c : Nat) (w : Txt) (hn : name = c :: w)
    (hc : isWs c = false) (hg : Blank g) (hcover : ∀ l ∈ ls, words.any (fun sw => startsWord sw l) = true)
    (hno : words.all (fun sw => !ciPrefix sw name) = true) (hf : NoAlphaHead rest) :
    clitOr true ls (g ++ (name ++ rest)) = none := by
  apply clitOr_none
  intro l hl
  have hcl : clit true l (g ++ (name ++ rest)) = dropPrefixCI (name ++ rest) l := by
    simp only [clit, sk_true, skipWs_blank_append g _ hg]
    rw [hn, List.cons_append, skipWs_cons c _ hc]
  rw [hcl]
  obtain ⟨sw, hsw, hst⟩ := List.any_eq_true.mp (hcover l hl)
  simp only [startsWord, Bool.and_eq_true] at hst
  obtain ⟨tl, rfl⟩ := startsWith_split l sw hst.1
  have hnp : ciPrefix sw name = false := by
    have := List.all_eq_true.mp hno sw hsw
    simpa using this
  exact dropPrefixCI_none_word sw tl name rest (fun a ha => List.all_eq_true.mp hst.2 a ha) hnp hf

/-! ### the domain of label names -/
def regLetters : List Nat := ofString "xwbhsdqvzp"

/-- spelled like a register: one of `x w b h s d q v z p` (either case) followed by a digit -/
def regLike (name : Txt) : Bool :=
  match name with
  | c :: d :: _ => regLetters.contains (lowerC c) && isDigitC d
  | _ => false

/-- spelled like an alias: `sp` / `zr` at the first or second position (either case) -/
def aliasLike (name : Txt) : Bool :=
  [ofString "sp", ofString "zr"].any (fun a => startsWith (lower name) a || startsWith ((lower name).drop 1) a)

structure IdentNameOk (name : Txt) : Prop where
  shape : ∃ c w, name = c :: w ∧ isIdFirstC c = true ∧ ∀ d ∈ w, isIdRestC d = true
  noReg : regLike name = false
  noAlias : aliasLike name = false
  noCond : condLits.contains (lower name) = false
  /-- the name is not itself a shift / extend operator -/
  noShift : A64.shiftOps.contains (lower name) = false
  noPrf : prfWords.all (fun sw => !ciPrefix sw name) = true

/-- what may follow a label name: no letter or digit directly behind it, and no digit after white space -/
structure NameEnd (rest : Txt) : Prop where
  head : ∀ c r, rest = c :: r → isAlphaC c = false ∧ isDigitC c = false
  next : ∀ c r, skipWs rest = c :: r → isDigitC c = false ∧ isAlphaC c = false

theorem NameEnd.noAlpha {rest : Txt} (h : NameEnd rest) : NoAlphaHead rest := fun c r hc => (h.head c r hc).1

theorem Follow.nameEnd {rest : Txt} (hf : Follow rest) : NameEnd rest := by
  refine ⟨?_, ?_⟩
  · intro c r h
    rcases hf.head c r h with hb | rfl | rfl | rfl
    · simp [isBlankC] at hb; rcases hb with rfl | rfl <;> exact ⟨by decide, by decide⟩
    all_goals exact ⟨by decide, by decide⟩
  · intro c r h
    rcases hf.next c r h with rfl | rfl | rfl <;> exact ⟨by decide, by decide⟩

theorem nameEnd_plus (t : Txt) : NameEnd (43 :: t) :=
  ⟨fun c r h => by simp at h; rw [← h.1]; exact ⟨by decide, by decide⟩,
   fun c r h => by simp [skipWs, isWs] at h; rw [← h.1]; exact ⟨by decide, by decide⟩⟩

/-- two letters at the start of `w ++ rest` are two letters of `w` -/
theorem startsWith_two (w rest : Txt) (a b : Nat) (ha : isAlphaC a = true) (hb : isAlphaC b = true)
    (hs : NoAlphaHead rest) (h : startsWith (w ++ rest) [a, b] = true) :
    startsWith (lower w) [lowerC a, lowerC b] = true := by
  match w with
  | [] =>
    cases rest with
    | nil => simp [startsWith] at h
    | cons c r =>
      simp only [List.nil_append, startsWith, Bool.and_eq_true, beq_iff_eq] at h
      have := hs c r rfl
      rw [h.1, ha] at this; cases this
  | [x] =>
    cases rest with
    | nil => simp [startsWith] at h
    | cons c r =>
      simp only [List.cons_append, List.nil_append, startsWith, Bool.and_eq_true, beq_iff_eq] at h
      have := hs c r rfl
      rw [h.2.1, hb] at this; cases this
  | x :: y :: w' =>
    simp only [List.cons_append, startsWith, Bool.and_eq_true, beq_iff_eq] at h
    simp [startsWith, lower, h.1, h.2.1]

def aliasNameOk (n : Txt) : Bool :=
  match n with
  | [a, b] => isAlphaC a && isAlphaC b &&
      (([lowerC a, lowerC b] : Txt) == ofString "sp" || ([lowerC a, lowerC b] : Txt) == ofString "zr")
  | _ => false

theorem alias_names_ok : (A64.aliasSp ++ A64.aliasZr).all aliasNameOk = true := by decide

theorem alias_names_lower (n : Txt) (hn : n ∈ A64.aliasSp ++ A64.aliasZr) :
    ∃ a b, n = [a, b] ∧ isAlphaC a = true ∧ isAlphaC b = true ∧
      ([lowerC a, lowerC b] = ofString "sp" ∨ [lowerC a, lowerC b] = ofString "zr") := by
  have := List.all_eq_true.mp alias_names_ok n hn
  match n, this with
  | [a, b], this =>
    simp only [aliasNameOk, Bool.and_eq_true, Bool.or_eq_true, beq_iff_eq] at this
    exact ⟨a, b, rfl, this.1.1, this.1.2, this.2⟩

theorem aliasP_none_ident (names : List Txt) (hsub : ∀ n ∈ names, n ∈ A64.aliasSp ++ A64.aliasZr)
    (g : Txt) (c : Nat) (w rest : Txt) (hg : Blank g) (hc : isWs c = false) (hs : NoAlphaHead rest)
    (hno : aliasLike (c :: w) = false) : aliasP names (g ++ (c :: w ++ rest)) = none := by
  have hno' : ∀ a ∈ [ofString "sp", ofString "zr"],
      startsWith (lower (c :: w)) a = false ∧ startsWith ((lower (c :: w)).drop 1) a = false := by
    intro a ha
    have := List.any_eq_false.mp hno a ha
    simpa using this
  have hsp := hno' (ofString "sp") (by simp)
  have hzr := hno' (ofString "zr") (by simp)
  have hdrop : (lower (c :: w)).drop 1 = lower w := by simp [lower]
  rw [hdrop] at hsp hzr
  have h1 : names.any (fun n => startsWith (w ++ rest) n) = false := by
    rw [List.any_eq_false]
    intro n hn
    obtain ⟨a, b, rfl, ha, hb, hab⟩ := alias_names_lower n (hsub n hn)
    intro h
    have := startsWith_two w rest a b ha hb hs h
    rcases hab with e | e <;> rw [e] at this
    · rw [this] at hsp; cases hsp.2
    · rw [this] at hzr; cases hzr.2
  have h2 : names.any (fun n => startsWith (c :: (w ++ rest)) n) = false := by
    rw [List.any_eq_false]
    intro n hn
    obtain ⟨a, b, rfl, ha, hb, hab⟩ := alias_names_lower n (hsub n hn)
    intro h
    have := startsWith_two (c :: w) rest a b ha hb hs (by simpa using h)
    rcases hab with e | e <;> rw [e] at this
    · rw [this] at hsp; cases hsp.1
    · rw [this] at hzr; cases hzr.1
  simp [aliasP, skipWs_blank_append g _ hg, skipWs_cons c _ hc, h1, h2]

theorem idRest_not_ws (c : Nat) (h : isIdRestC c = true) : isWs c = false := by
  simp only [isIdRestC, isAlnumC, isAlphaC, isDigitC, A64.identRestExtra] at h
  simp at h
  simp only [isWs]; simp; omega

/-- behind a register letter of a label name no register number follows -/
theorem word_digits_none (c : Nat) (w rest : Txt) (hw : ∀ d ∈ w, isIdRestC d = true) (hf : NameEnd rest)
    (hreg : regLike (c :: w) = false) (hl : regLetters.contains (lowerC c) = true) :
    word true isDigitC (w ++ rest) = none := by
  simp only [word, sk_true]
  cases w with
  | nil =>
    simp only [List.nil_append]
    cases hs : skipWs rest with
    | nil => simp [wordNS, spanP]
    | cons d r =>
      apply wordNS_none
      intro d' r' h
      simp at h; rw [← h.1]
      exact (hf.next d r hs).1
  | cons x w' =>
    have hx := idRest_not_ws x (hw x (by simp))
    rw [List.cons_append, skipWs_cons x _ hx]
    apply wordNS_none
    intro d' r' h
    simp at h; rw [← h.1]
    have hl' : lowerC c ∈ regLetters := by simpa using hl
    have := hreg
    simp only [regLike, hl, Bool.true_and] at this
    exact this

theorem registerP_none_ident (g : Txt) (c : Nat) (w rest : Txt) (hg : Blank g) (hc : isIdFirstC c = true)
    (hw : ∀ d ∈ w, isIdRestC d = true) (hf : NameEnd rest) (hreg : regLike (c :: w) = false)
    (hal : aliasLike (c :: w) = false) : registerP (g ++ (c :: w ++ rest)) = none := by
  obtain ⟨hws, _, _, _, _, _, _, h123⟩ := idFirst_facts c hc
  have hs := hf.noAlpha
  have ha1 := aliasP_none_ident A64.aliasSp (fun n hn => by simp [hn]) g c w rest hg hws hs hal
  have ha2 := aliasP_none_ident A64.aliasZr (fun n hn => by simp [hn]) g c w rest hg hws hs hal
  have hform : g ++ (c :: w ++ rest) = g ++ c :: (w ++ rest) := by simp
  rw [hform] at ha1 ha2 ⊢
  have hvec : vectorP true (g ++ c :: (w ++ rest)) = none := by
    by_cases hv : isVectorPrefixC c = true
    · have hl : regLetters.contains (lowerC c) = true := by
        simp [isVectorPrefixC, A64.vectorPrefixes] at hv
        rcases hv with h | h <;> rw [h] <;> decide
      simp [vectorP, char1, sk_true, skipWs_blank_append g _ hg, skipWs_cons c _ hws, charNS, hv,
        word_digits_none c w rest hw hf hreg hl]
    · exact vectorP_none_prefix g c _ hg hws (by simpa using hv)
  have hsc : scalarP true (g ++ c :: (w ++ rest)) = none := by
    by_cases hv : isScalarPrefixC c = true
    · have hl : regLetters.contains (lowerC c) = true := by
        simp [isScalarPrefixC, A64.scalarPrefixes] at hv
        rcases hv with rfl | rfl | rfl | rfl | rfl | rfl | rfl | rfl | rfl | rfl | rfl | rfl | rfl | rfl <;> decide
      simp [scalarP, char1, sk_true, skipWs_blank_append g _ hg, skipWs_cons c _ hws, charNS, hv,
        word_digits_none c w rest hw hf hreg hl]
    · simp [scalarP, char1, sk_true, skipWs_blank_append g _ hg, skipWs_cons c _ hws, charNS, hv]
  have hpr : predicateP (g ++ c :: (w ++ rest)) = none := by
    by_cases hv : lowerC c = 112
    · have hl : regLetters.contains (lowerC c) = true := by rw [hv]; decide
      have hcl : clit true A64.predPrefix (g ++ c :: (w ++ rest)) = some (w ++ rest) := by
        simp [clit, sk_true, skipWs_blank_append g _ hg, skipWs_cons c _ hws, A64.predPrefix, dropPrefixCI, hv]
      simp [predicateP, hcl, word_digits_none c w rest hw hf hreg hl]
    · have hcl : clit true A64.predPrefix (g ++ c :: (w ++ rest)) = none := by
        simp [clit, sk_true, skipWs_blank_append g _ hg, skipWs_cons c _ hws, A64.predPrefix, dropPrefixCI, hv]
      simp [predicateP, hcl]
  have hl : registerList (g ++ c :: (w ++ rest)) = none := by
    simp [registerList, lit_head_ne g c 123 _ [] hg hws h123]
  simp [registerP, registerCore, ha1, ha2, hvec, hsc, hpr, hl]

/-! ### condition codes that are a prefix of a label name -/
/-- whatever `^` over caseless literals returns was produced by one of the literals -/
theorem clitOr_some (ls : List Txt) (s l r : Txt) (h : clitOr true ls s = some (l, r)) :
    l ∈ ls ∧ clit true l s = some r := by
  unfold clitOr at h
  have key : ∀ (ls' : List Txt) (acc : Res Txt), (∀ l' ∈ ls', l' ∈ ls) →
      (acc = none ∨ ∃ l' r', acc = some (l', r') ∧ l' ∈ ls ∧ clit true l' s = some r') →
      let out := ls'.foldl (fun acc l => acc <^> (match clit true l s with
        | some r => some (l, r) | none => none)) acc
      (out = none ∨ ∃ l' r', out = some (l', r') ∧ l' ∈ ls ∧ clit true l' s = some r') := by
    intro ls'
    induction ls' with
    | nil => intro acc _ hacc; exact hacc
    | cons a ls' ih =>
      intro acc hsub hacc
      simp only [List.foldl_cons]
      apply ih _ (fun x hx => hsub x (by simp [hx]))
      cases hc : clit true a s with
      | none => simpa using hacc
      | some ra =>
        rcases hacc with h0 | ⟨l', r', h0, hm, hcl⟩
        · right; exact ⟨a, ra, by simp [h0], hsub a (by simp), hc⟩
        · right
          rw [h0]
          simp only [better]
          split
          · exact ⟨a, ra, rfl, hsub a (by simp), hc⟩
          · exact ⟨l', r', rfl, hm, hcl⟩
  rcases key ls none (fun _ hx => hx) (Or.inl rfl) with h0 | ⟨l', r', h0, hm, hcl⟩
  · have := h0.symm.trans h; cases this
  · have := h0.symm.trans h
    simp only [Option.some.injEq, Prod.mk.injEq] at this
    obtain ⟨rfl, rfl⟩ := this
    exact ⟨hm, hcl⟩

theorem condLits_two (l : Txt) (h : l ∈ condLits) : ∃ a b, l = [a, b] ∧ isAlphaC a = true ∧ isAlphaC b = true := by
  have : ∀ l ∈ condLits, (match l with | [a, b] => isAlphaC a && isAlphaC b | _ => false) = true := by decide
  have := this l h
  match l, this with
  | [a, b], this => exact ⟨a, b, rfl, by simpa using this⟩

/-- on a label name the condition alternative matches nothing, or two letters of a longer name -/
theorem conditionP_ident (g : Txt) (c : Nat) (w rest : Txt) (hg : Blank g) (hc : isIdFirstC c = true)
    (hw : ∀ d ∈ w, isIdRestC d = true) (hf : NoAlphaHead rest) (hno : condLits.contains (lower (c :: w)) = false) :
    conditionP (g ++ c :: (w ++ rest)) = none ∨
    ∃ x d e t, w = d :: e :: t ∧ conditionP (g ++ c :: (w ++ rest)) = some (x, e :: (t ++ rest)) := by
  have hws := (idFirst_facts c hc).1
  have hcl : ∀ l, clit true l (g ++ c :: (w ++ rest)) = dropPrefixCI (c :: (w ++ rest)) l := by
    intro l
    simp only [clit, sk_true, skipWs_blank_append g _ hg, skipWs_cons c _ hws]
  cases hcp : clitOr true condLits (g ++ c :: (w ++ rest)) with
  | none => left; simp only [conditionP]; show mapR upper (clitOr true condLits _) = none; rw [hcp]; rfl
  | some lr =>
    obtain ⟨l, r⟩ := lr
    obtain ⟨hm, hc1⟩ := clitOr_some _ _ _ _ hcp
    obtain ⟨a, b, rfl, ha, hb⟩ := condLits_two l hm
    rw [hcl] at hc1
    match w, hw, hno with
    | [], _, _ =>
      -- a one-letter name: the second letter would have to come from what follows
      have hnx : ∀ x, ([a, b] : Txt)[([c] : Txt).length]? = some x → isAlphaC x = true := by
        intro x hx
        have : x = b := by simpa using hx.symm
        rw [this]; exact hb
      have := dropPrefixCI_none_nonalpha [c] [a, b] rest (by simp) hnx hf
      simp only [List.cons_append, List.nil_append] at this hc1
      rw [this] at hc1; cases hc1
    | [d], _, hno =>
      have := dropPrefixCI_same_len [c, d] [a, b] rest rfl
      simp only [List.cons_append, List.nil_append] at this hc1
      rw [this] at hc1
      split at hc1
      · rename_i heq
        have : condLits.contains (lower [c, d]) = true := by rw [heq]; simpa using hm
        rw [this] at hno; cases hno
      · cases hc1
    | d :: e :: t, _, _ =>
      right
      refine ⟨upper [a, b], d, e, t, rfl, ?_⟩
      simp only [List.cons_append, dropPrefixCI] at hc1
      split at hc1
      · split at hc1
        · cases hc1
          simp only [conditionP]
          show mapR upper (clitOr true condLits _) = _
          rw [hcp]; rfl
        · cases hc1
      · cases hc1

theorem idRest_wordEnd (c : Nat) (h : isIdRestC c = true) : isWordEndC c = true := by
  simp only [isIdRestC, isWordEndC, A64.identRestExtra, A64.wordEndExtra] at *
  exact h

/-! ### shift operators that are a prefix of a label name -/
/-- what stands behind the leading word of a shift operator: nothing, or a blank and a letter (`mul vl`) -/
def shiftTailOk (tl : Txt) : Bool :=
  match tl with
  | [] => true
  | 32 :: a :: _ => isAlphaC a
  | _ => false

theorem shiftOps_split : ∀ l ∈ A64.shiftOps,
    shiftWords.any (fun sw => startsWord sw l && shiftTailOk (l.drop sw.length)) = true := by decide

theorem ciPrefix_split (sw name : Txt) (h : ciPrefix sw name = true) : ∃ n1 n2, name = n1 ++ n2 ∧ lower n1 = sw := by
  induction sw generalizing name with
  | nil => exact ⟨[], name, rfl, rfl⟩
  | cons a sw ih =>
    cases name with
    | nil => simp [ciPrefix] at h
    | cons c w =>
      simp only [ciPrefix, Bool.and_eq_true, beq_iff_eq] at h
      obtain ⟨n1, n2, hw, hl⟩ := ih w h.2
      exact ⟨c :: n1, n2, by rw [hw]; rfl, by simp [lower, h.1]; exact hl⟩

theorem dropPrefixCI_lower_append (n1 t tl : Txt) : dropPrefixCI (n1 ++ t) (lower n1 ++ tl) = dropPrefixCI t tl := by
  induction n1 with
  | nil => rfl
  | cons c n1 ih =>
    simp only [List.cons_append, lower, List.map_cons, dropPrefixCI, beq_self_eq_true, if_true]
    exact ih

theorem idRest_lowerC_ne_blank (d : Nat) (h : isIdRestC d = true) : lowerC d ≠ 32 := by
  simp only [isIdRestC, isAlnumC, isAlphaC, isDigitC, A64.identRestExtra] at h
  simp at h
  simp only [lowerC]; split <;> omega

theorem lowerC_eq_blank (c : Nat) (h : lowerC c = 32) : c = 32 := by
  simp only [lowerC] at h; split at h <;> omega

/-- one shift operator on a label name that is not itself a shift operator: no match, or a match that
    ends inside the name (in front of a word character) -/
theorem shiftLit_name (l name rest r : Txt) (hl : l ∈ A64.shiftOps) (hw : ∀ d ∈ name, isIdRestC d = true)
    (hno : A64.shiftOps.contains (lower name) = false) (hf : NameEnd rest)
    (h : dropPrefixCI (name ++ rest) l = some r) : ∃ d r', r = d :: r' ∧ isWordEndC d = true := by
  obtain ⟨sw, hsw, hst⟩ := List.any_eq_true.mp (shiftOps_split l hl)
  simp only [startsWord, Bool.and_eq_true] at hst
  obtain ⟨⟨hstart, halpha⟩, htail⟩ := hst
  obtain ⟨tl, rfl⟩ := startsWith_split l sw hstart
  have htl : (sw ++ tl).drop sw.length = tl := by simp
  rw [htl] at htail
  by_cases hp : ciPrefix sw name = true
  · obtain ⟨n1, n2, rfl, rfl⟩ := ciPrefix_split sw name hp
    rw [List.append_assoc, dropPrefixCI_lower_append] at h
    match tl, htail with
    | [], _ =>
      cases n2 with
      | nil =>
        -- the name is the operator
        simp only [List.append_nil] at hl hno
        have : A64.shiftOps.contains (lower n1) = true := by simpa using hl
        rw [this] at hno; cases hno
      | cons d n2' =>
        have hd := idRest_wordEnd d (hw d (by simp))
        cases rest <;> simp [dropPrefixCI] at h <;> exact ⟨d, _, h.symm, hd⟩
    | 32 :: a :: tl', ha =>
      exfalso
      cases n2 with
      | nil =>
        cases rest with
        | nil => simp [dropPrefixCI] at h
        | cons c0 r0 =>
          simp only [List.nil_append, dropPrefixCI] at h
          split at h
          · rename_i h0
            have hc0 : c0 = 32 := lowerC_eq_blank c0 (by simpa using h0)
            cases r0 with
            | nil => simp [dropPrefixCI] at h
            | cons c1 r1 =>
              simp only [dropPrefixCI] at h
              split at h
              · rename_i h1
                have hal : isAlphaC c1 = true := alpha_of_lowerC_alpha c1 (by rw [(by simpa using h1 : lowerC c1 = a)]; exact ha)
                have hsk : skipWs (c0 :: c1 :: r1) = c1 :: r1 := by
                  rw [hc0, show skipWs (32 :: c1 :: r1) = skipWs (c1 :: r1) from by simp [skipWs, isWs]]
                  exact skipWs_cons c1 _ (alpha_not_ws c1 hal)
                have := (hf.next c1 r1 hsk).2
                rw [hal] at this; cases this
              · cases h
          · cases h
      | cons d n2' =>
        have := idRest_lowerC_ne_blank d (hw d (by simp))
        simp [dropPrefixCI, this] at h
  · have hp' : ciPrefix sw name = false := by simpa using hp
    rw [dropPrefixCI_none_word sw tl name rest (fun a ha => List.all_eq_true.mp halpha a ha) hp' hf.noAlpha] at h
    cases h

theorem idFirst_idRest (c : Nat) (h : isIdFirstC c = true) : isIdRestC c = true := by
  simp only [isIdFirstC, Bool.or_eq_true] at h
  simp only [isIdRestC, isAlnumC, Bool.or_eq_true]
  rcases h with h | h
  · exact Or.inl (Or.inl h)
  · exact Or.inr h

/-- **a label name is not the shift of the operand in front of it** (it may begin with a shift operator:
    `lsl_loop`, `RORx`, `sxtw1`, `mul_vl`, `mul`), unless it is a shift operator itself -/
theorem shiftOp_none_name (g : Txt) (c : Nat) (w rest : Txt) (hg : Blank g) (hc : isIdFirstC c = true)
    (hw : ∀ d ∈ w, isIdRestC d = true) (hno : A64.shiftOps.contains (lower (c :: w)) = false)
    (hf : NameEnd rest) : shiftOp (g ++ (c :: w ++ rest)) = none := by
  have hws := (idFirst_facts c hc).1
  rw [shiftOp_eq]
  cases hcp : clitOr true A64.shiftOps (g ++ (c :: w ++ rest)) with
  | none => rfl
  | some lr =>
    obtain ⟨l, r⟩ := lr
    obtain ⟨hm, hcl⟩ := clitOr_some _ _ _ _ hcp
    have : clit true l (g ++ (c :: w ++ rest)) = dropPrefixCI (c :: w ++ rest) l := by
      simp only [clit, sk_true, skipWs_blank_append g _ hg]
      rw [List.cons_append, skipWs_cons c _ hws]
    rw [this] at hcl
    have hall : ∀ d ∈ c :: w, isIdRestC d = true := by
      intro d hd
      rcases List.mem_cons.mp hd with rfl | hd
      · exact idFirst_idRest _ hc
      · exact hw d hd
    obtain ⟨d, r', rfl, hd⟩ := shiftLit_name l (c :: w) rest r hm hall hno hf hcl
    exact wordEnd_wordChar _ d r' hd

/-- **label name** in any operand slot -/
theorem goodOp_ident (name : Txt) (hok : IdentNameOk name) :
    GoodOp false true name (.imm (.ident ⟨none, name, none⟩)) := by
  obtain ⟨c, w, rfl, hc, hw⟩ := hok.shape
  obtain ⟨hws, h58, h35, h45, h48, hnd, h91, h123⟩ := idFirst_facts c hc
  have hform : ∀ g rest : Txt, g ++ (c :: w ++ rest) = g ++ c :: (w ++ rest) := by intro g rest; simp
  have hcommon : ∀ g rest, Blank g → Follow rest →
      registerP (g ++ c :: (w ++ rest)) = none ∧
      immediate (g ++ c :: (w ++ rest)) = some (.ident ⟨none, c :: w, none⟩, skipWs rest) ∧
      identifier (g ++ c :: (w ++ rest)) = some (⟨none, c :: w, none⟩, skipWs rest) ∧
      memoryP (g ++ c :: (w ++ rest)) = none ∧ arithP (g ++ c :: (w ++ rest)) = none := by
    intro g rest hg hf
    have hreg := registerP_none_ident g c w rest hg hc hw hf.nameEnd hok.noReg hok.noAlias
    rw [hform] at hreg
    have himm := immediate_word' g c w rest hg hc hw (hf.stops isIdRestC rest (by decide))
        (lit_none_of_follow rest hf 43 [] (by omega))
    have hid := identifier_word' g c w rest hg hc hw (hf.stops isIdRestC rest (by decide))
        (lit_none_of_follow rest hf 43 [] (by omega))
    have hmem := memoryP_none_head g c (w ++ rest) hg hws h91
    exact ⟨hreg, himm, hid, hmem, arithP_none_of_immediate _ rest _ _ himm (skipWs_idem rest) hf⟩
  refine ⟨?_, ?_, ?_, ?_⟩
  · intro g rest hg hf
    obtain ⟨hreg, himm, _, hmem, har⟩ := hcommon g rest hg hf
    refine ⟨skipWs rest, ?_, skipWs_idem rest⟩
    rw [hform]
    rcases conditionP_ident g c w rest hg hc hw hf.noAlphaHead hok.noCond with hcn | ⟨x, d, e, t, hwe, hcs⟩
    · simp [operandRest, hcn, hreg, himm, hmem, arithOp, har]
    · have he : isWordEndC e = true := idRest_wordEnd e (hw e (by rw [hwe]; simp))
      have hlt : (skipWs rest).length < (e :: (t ++ rest)).length := by
        have := skipWs_length_le rest; simp; omega
      simp only [operandRest, hcs, hreg, himm, hmem, arithOp, har, mapR_none, mapR_some, wordEnd, he, if_true,
        orElseR_none_left, better_none_left, better_none_right]
      rw [better_some_lt _ _ _ _ hlt]; rfl
  · intro _ g rest hg hf
    obtain ⟨hreg, himm, hid, hmem, har⟩ := hcommon g rest hg hf
    have hprf : prefetchP (g ++ c :: (w ++ rest)) = none := by
      have := clitOr_none_words (A64.prfTypes.map lower) prfWords g (c :: w) rest c w rfl hws hg prfTypes_words
        hok.noPrf hf.noAlphaHead
      rw [hform] at this
      simp [prefetchP, this]
    refine ⟨skipWs rest, ?_, skipWs_idem rest⟩
    rw [hform]
    simp only [operandFirst, hprf, hreg, himm, hid, hmem, arithOp, har, mapR_none, mapR_some, wordEnd_none,
      orElseR_none_left, better_none_left, better_none_right]
    rw [better_some_ge _ _ _ _ (Nat.le_refl _)]
  · intro g rest hg hf
    exact shiftOp_none_name g c w rest hg hc hw hok.noShift (After.follow hf).nameEnd
  · refine ⟨c, w, rfl, hws, h58, ?_⟩
    simp only [isIdFirstC, isAlphaC, A64.identFirstExtra] at hc; simp at hc; omega

theorem covered_ident (last fst : Bool) (name : Txt) (hok : IdentNameOk name) :
    CoveredOp last fst (.ident ⟨false, none, name, none⟩) := by
  refine ⟨name, [], .imm (.ident ⟨none, name, none⟩), ?_, ?_, ?_⟩
  · simp [opPieces, identText, optHash]
  · intro gs hgs
    have : gs = [] := hgs
    subst this
    have := (goodOp_ident name hok).any last
    cases fst with
    | true => simpa [joinInner] using this.toFirst
    | false => simpa [joinInner] using this.toRest
  · simp [processOperand, processImmediate, expectOp, expectIdent, optMap]

end OsacaVerif.ParseA64
