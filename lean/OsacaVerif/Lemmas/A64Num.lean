import OsacaVerif.Model.A64Types
/-
  Numerals: `showBase` (digits of a number) and `natOfDigits` (value of a digit string) are inverse,
  for every base ≥ 2 and every digit alphabet on which `digitVal` is the inverse of the digit map.
-/
namespace OsacaVerif.ParseA64
open OsacaVerif.Text

theorem showBaseF_indep (b : Nat) (dig : Nat → Nat) (hb : 2 ≤ b) :
    ∀ (n f g : Nat), n < f → n < g → showBaseF b dig f n = showBaseF b dig g n := by
  intro n
  induction n using Nat.strongRecOn with
  | _ n ih =>
    intro f g hf hg
    cases f with
    | zero => omega
    | succ f =>
      cases g with
      | zero => omega
      | succ g =>
        simp only [showBaseF]
        split
        · rfl
        · rename_i hn
          have hlt : n / b < n := Nat.div_lt_self (by omega) (by omega)
          rw [ih (n / b) hlt f g (by omega) (by omega)]

theorem showBase_lt (b : Nat) (dig : Nat → Nat) (n : Nat) (h : n < b) : showBase b dig n = [dig n] := by
  simp [showBase, showBaseF, h]

theorem showBase_ge (b : Nat) (dig : Nat → Nat) (hb : 2 ≤ b) (n : Nat) (h : b ≤ n) :
    showBase b dig n = showBase b dig (n / b) ++ [dig (n % b)] := by
  have hn : ¬ n < b := by omega
  have hlt : n / b < n := Nat.div_lt_self (by omega) (by omega)
  show showBaseF b dig (n + 1) n = showBaseF b dig (n / b + 1) (n / b) ++ [dig (n % b)]
  rw [showBaseF, if_neg hn, showBaseF_indep b dig hb (n / b) n (n / b + 1) hlt (by omega)]

theorem showBase_ne_nil (b : Nat) (dig : Nat → Nat) (n : Nat) : showBase b dig n ≠ [] := by
  simp only [showBase, showBaseF]
  split <;> simp

/-- every character of a numeral is a digit character of the alphabet -/
theorem showBase_all (b : Nat) (dig : Nat → Nat) (hb : 2 ≤ b) (P : Nat → Prop)
    (hP : ∀ d, d < b → P (dig d)) : ∀ n, ∀ c ∈ showBase b dig n, P c := by
  intro n
  induction n using Nat.strongRecOn with
  | _ n ih =>
    by_cases h : n < b
    · rw [showBase_lt b dig n h]; intro c hc; simp at hc; subst hc; exact hP n h
    · rw [showBase_ge b dig hb n (by omega)]
      intro c hc
      rw [List.mem_append] at hc
      cases hc with
      | inl hc => exact ih (n / b) (Nat.div_lt_self (by omega) (by omega)) c hc
      | inr hc => simp at hc; subst hc; exact hP _ (Nat.mod_lt _ (by omega))

theorem natOfDigits_append (b : Nat) (t : Txt) (c : Nat) :
    natOfDigits b (t ++ [c]) = natOfDigits b t * b + digitVal c := by
  simp [natOfDigits, List.foldl_append]

/-- **round trip of numerals** (∀ n, every base ≥ 2) -/
theorem natOfDigits_showBase (b : Nat) (dig : Nat → Nat) (hb : 2 ≤ b)
    (hd : ∀ d, d < b → digitVal (dig d) = d) : ∀ n, natOfDigits b (showBase b dig n) = n := by
  intro n
  induction n using Nat.strongRecOn with
  | _ n ih =>
    by_cases h : n < b
    · rw [showBase_lt b dig n h]; simp [natOfDigits, hd n h]
    · rw [showBase_ge b dig hb n (by omega), natOfDigits_append,
        ih (n / b) (Nat.div_lt_self (by omega) (by omega)), hd _ (Nat.mod_lt _ (by omega))]
      exact Nat.div_add_mod' n b

/-- the leading digit of a positive number is not the zero digit -/
theorem showBase_head (b : Nat) (dig : Nat → Nat) (hb : 2 ≤ b) :
    ∀ n, 0 < n → ∃ d r, 0 < d ∧ d < b ∧ showBase b dig n = dig d :: r := by
  intro n
  induction n using Nat.strongRecOn with
  | _ n ih =>
    intro hpos
    by_cases h : n < b
    · exact ⟨n, [], hpos, h, showBase_lt b dig n h⟩
    · have hq : 0 < n / b := Nat.div_pos (by omega) (by omega)
      obtain ⟨d, r, hd0, hdb, hr⟩ := ih (n / b) (Nat.div_lt_self (by omega) (by omega)) hq
      exact ⟨d, r ++ [dig (n % b)], hd0, hdb, by rw [showBase_ge b dig hb n (by omega), hr]; rfl⟩

/-! ### decimal -/
theorem digitVal_decDigit (d : Nat) (h : d < 10) : digitVal (decDigit d) = d := by
  have : isDigitC (48 + d) = true := by simp only [isDigitC]; simp; omega
  simp only [digitVal, decDigit, this, if_true]; omega

theorem showNat_digits (n : Nat) : ∀ c ∈ showNat n, isDigitC c = true := by
  apply showBase_all 10 decDigit (by omega)
  intro d hd
  simp only [decDigit, isDigitC]; simp; omega

theorem showNat_all (n : Nat) : (showNat n).all isDigitC = true := by
  rw [List.all_eq_true]; exact showNat_digits n

theorem showNat_ne_nil (n : Nat) : showNat n ≠ [] := showBase_ne_nil 10 decDigit n

theorem natOfDigits_showNat (n : Nat) : natOfDigits 10 (showNat n) = n :=
  natOfDigits_showBase 10 decDigit (by omega) digitVal_decDigit n

/-- `str(n)` has no leading zero unless `n = 0` -/
theorem showNat_head_zero (n : Nat) (h : (showNat n).head? = some 48) : n = 0 := by
  by_cases hn : n = 0
  · exact hn
  · obtain ⟨d, r, hd0, _, hr⟩ := showBase_head 10 decDigit (by omega) n (by omega)
    simp only [showNat] at h
    rw [hr] at h
    simp [decDigit] at h
    omega

end OsacaVerif.ParseA64
