import OsacaVerif.Lemmas.DGEdges
/-
  Helper development for C14 (stream locality): what a producer's forward scan emits up to a point
  of the instruction stream depends only on the stream segment up to that point.
  `scanTarget_append` / `scanMem_append` (the scans distribute over `++` with an explicit "already
  stopped" test and, for memory destinations, the threaded register-change state), and from them
  `findDepending_at`: the emissions of a producer `p` that name a consumer `c` are a function
  `tagsAt p seg c` of the segment `seg` strictly between them — nothing before `p`, nothing after `c`.
-/
namespace OsacaVerif.DG
open OsacaVerif OsacaVerif.Text

theorem flatMap_congr' {α β : Type} {l : List α} {f g : α → List β} (h : ∀ x ∈ l, f x = g x) :
    l.flatMap f = l.flatMap g := by
  induction l with
  | nil => rfl
  | cons x xs ih =>
    simp only [List.flatMap_cons]
    rw [h x List.mem_cons_self, ih (fun y hy => h y (List.mem_cons_of_mem _ hy))]

/-- **scan locality, registers and flags**: scanning `a ++ b` is scanning `a`, then — unless an
    instruction of `a` already overwrote the target — scanning `b` -/
theorem scanTarget_append (isa : Isa) (t : Target) (tag : Tag) (a b : List Ins) :
    scanTarget isa t tag (a ++ b) =
      scanTarget isa t tag a ++ (if a.any (isWritten isa t) then [] else scanTarget isa t tag b) := by
  induction a with
  | nil => simp [scanTarget]
  | cons i a ih =>
    simp only [List.cons_append, scanTarget, List.any_cons]
    by_cases hw : isWritten isa t i = true
    · simp [hw]
    · simp [hw, ih, List.append_assoc]

/-- the register-change state the memory scan has accumulated after walking over `a` -/
def memThread (s : RegState) : List Ins → RegState
  | [] => s
  | i :: rest => memThread (updateState (updateState s i.changes) i.changesPost) rest

/-- the memory scan ends at this instruction (write-back base overwritten, or a store to the same operand) -/
def memStops (isa : Isa) (m : Mem) (i : Ins) : Bool := memStop isa m i || isMemstore m i

/-- **scan locality, memory destinations**: scanning `a ++ b` is scanning `a`, then — unless the
    scan already ended inside `a` — scanning `b` with the state threaded through `a` -/
theorem scanMem_append (isa : Isa) (m : Mem) (s : RegState) (a b : List Ins) :
    scanMem isa m s (a ++ b) =
      scanMem isa m s a ++ (if a.any (memStops isa m) then [] else scanMem isa m (memThread s a) b) := by
  induction a generalizing s with
  | nil => simp [scanMem, memThread]
  | cons i a ih =>
    simp only [List.cons_append, scanMem, List.any_cons, memStops, memThread]
    by_cases h1 : memStop isa m i = true
    · simp [h1]
    · by_cases h2 : isMemstore m i = true
      · simp [h1, h2]
      · simp only [h1, h2, Bool.false_eq_true, if_false, Bool.or_self, Bool.false_or]
        rw [ih, List.append_assoc]

/-- **window, registers and flags**: once an instruction of the scanned prefix writes the target,
    nothing behind it is looked at -/
theorem scanTarget_window (isa : Isa) (t : Target) (tag : Tag) (a b : List Ins) (h : a.any (isWritten isa t) = true) :
    scanTarget isa t tag (a ++ b) = scanTarget isa t tag a := by
  rw [scanTarget_append, if_pos h, List.append_nil]

theorem scanMem_window (isa : Isa) (m : Mem) (s : RegState) (a b : List Ins) (h : a.any (memStops isa m) = true) :
    scanMem isa m s (a ++ b) = scanMem isa m s a := by
  rw [scanMem_append, if_pos h, List.append_nil]

/-- the x86 register-dependence test is reflexive -/
theorem regDep_x86_refl (r : Reg) : regDep .x86 r r = true := by
  simp [regDep, RegDep.x86]

/-- an instruction with destination `r` writes `r`, provided `r` depends on itself (C12 reflexivity) -/
theorem isWritten_own_reg (isa : Isa) (p : Ins) (r : Reg) (hr : Op.reg r ∈ p.dst ++ p.srcDst)
    (hrefl : regDep isa r r = true) : isWritten isa (.reg r) p = true := by
  unfold isWritten
  rw [Bool.or_eq_true]
  left
  exact List.any_eq_true.mpr ⟨_, hr, by simp [depOp, hrefl]⟩

theorem isWritten_own_flag (isa : Isa) (p : Ins) (n : Txt) (hr : Op.flag n ∈ p.dst ++ p.srcDst) :
    isWritten isa (.flag n) p = true := by
  unfold isWritten
  rw [Bool.or_eq_true]
  left
  exact List.any_eq_true.mpr ⟨_, hr, by simp [depOp]⟩

theorem memStops_own (isa : Isa) (p : Ins) (m : Mem) (hm : Op.mem m ∈ p.dst ++ p.srcDst) :
    memStops isa m p = true := by
  unfold memStops isMemstore
  rw [Bool.or_eq_true]
  right
  exact List.any_eq_true.mpr ⟨_, hm, by simp⟩

/-- all register destinations of `p` depend on themselves -/
def ReflDests (isa : Isa) (p : Ins) : Prop := ∀ r, Op.reg r ∈ p.dst ++ p.srcDst → regDep isa r r = true

theorem reflDests_x86 (p : Ins) : ReflDests .x86 p := fun r _ => regDep_x86_refl r

/-- **window_suffices**: when the scan of producer `p` reaches the next occurrence `p'` of `p` itself
    (same destinations — one full iteration later), every one of its scans ends there: nothing
    beyond one iteration is emitted.  (Register destinations must depend on themselves — always true
    on x86, `reflDests_x86`; memory and flag destinations need nothing.) -/
theorem findDepending_window (isa : Isa) (fd : Bool) (p p' : Ins) (rest more : List Ins)
    (hd : p'.dst = p.dst) (hsd : p'.srcDst = p.srcDst) (hrefl : ReflDests isa p) :
    findDepending isa fd p (rest ++ p' :: more) = findDepending isa fd p (rest ++ [p']) := by
  unfold findDepending
  apply flatMap_congr'
  intro d hdm
  have e : rest ++ p' :: more = (rest ++ [p']) ++ more := by simp
  have hdm' : d ∈ p'.dst ++ p'.srcDst := by rw [hd, hsd]; exact hdm
  match d, hdm, hdm' with
  | .reg r, hdm, hdm' =>
    dsimp only
    rw [e, scanTarget_window]
    rw [List.any_append, Bool.or_eq_true]; right
    have hrefl' : regDep isa r r = true := hrefl r hdm
    simp [isWritten_own_reg isa p' r hdm' hrefl']
  | .flag n, _, hdm' =>
    by_cases hf : fd = true
    · simp only [hf, if_true]
      rw [e, scanTarget_window]
      rw [List.any_append, Bool.or_eq_true]; right
      simp [isWritten_own_flag isa p' n hdm']
    · simp [hf]
  | .mem m, _, hdm' =>
    dsimp only
    rw [e, scanMem_window]
    rw [List.any_append, Bool.or_eq_true]; right
    simp [memStops_own isa p' m hdm']
  | .other, _, _ => rfl

theorem regDep_dead_or_refl (isa : Isa) (r : Reg) : regDep isa r r = true ∨ ∀ s, regDep isa r s = false := by
  cases isa with
  | x86 => exact Or.inl (regDep_x86_refl r)
  | a64 =>
    by_cases h : regDep .a64 r r = true
    · exact Or.inl h
    · right
      intro s
      simp only [regDep, RegDep.a64, Bool.and_eq_true, not_and, Bool.not_eq_true] at h ⊢
      have hn : (if Gen.a64NameFold = true then lower r.name == lower r.name else r.name == r.name) = true := by
        split <;> simp
      have hc := h hn
      rw [Bool.and_eq_false_iff]
      right
      rw [List.any_eq_false] at hc ⊢
      intro cls hcls
      have := hc cls hcls
      simp only [Bool.and_self] at this
      simp [this]

theorem depReg_dead (isa : Isa) (r : Reg) (h : ∀ s, regDep isa r s = false) (o : Option Reg) :
    depReg isa (.reg r) o = false := by
  cases o <;> simp [depReg, h]

theorem isRead_dead (isa : Isa) (r : Reg) (h : ∀ s, regDep isa r s = false) (i : Ins) :
    isRead isa (.reg r) i = false := by
  unfold isRead
  rw [Bool.or_eq_false_iff]
  constructor
  · rw [List.any_eq_false]
    intro o _
    cases o with
    | reg s => simp [depOp, h]
    | flag n => simp [depOp]
    | mem m => simp [depReg_dead isa r h]
    | other => simp [depOp]
  · rw [List.any_eq_false]
    intro o _
    cases o with
    | mem m => simp [depReg_dead isa r h]
    | _ => simp

theorem scanTarget_dead (isa : Isa) (r : Reg) (h : ∀ s, regDep isa r s = false) (tag : Tag) (l : List Ins) :
    scanTarget isa (.reg r) tag l = [] := by
  induction l with
  | nil => rfl
  | cons i l ih => simp [scanTarget, isRead_dead isa r h i, ih]

/-- **window, unconditional**: in the model as written a register either depends on itself or on no
    register at all (x86: always reflexive; AArch64: a prefix outside every prefix class makes the
    register invisible to all dependence tests) — so the producer's next occurrence ends every scan
    that can emit anything, for every ISA and every producer. -/
theorem findDepending_window_all (isa : Isa) (fd : Bool) (p p' : Ins) (rest more : List Ins)
    (hd : p'.dst = p.dst) (hsd : p'.srcDst = p.srcDst) :
    findDepending isa fd p (rest ++ p' :: more) = findDepending isa fd p (rest ++ [p']) := by
  unfold findDepending
  apply flatMap_congr'
  intro d hdm
  have e : rest ++ p' :: more = (rest ++ [p']) ++ more := by simp
  have hdm' : d ∈ p'.dst ++ p'.srcDst := by rw [hd, hsd]; exact hdm
  match d, hdm, hdm' with
  | .reg r, hdm, hdm' =>
    dsimp only
    rcases regDep_dead_or_refl isa r with hrefl | hdead
    · rw [e, scanTarget_window]
      rw [List.any_append, Bool.or_eq_true]; right
      simp [isWritten_own_reg isa p' r hdm' hrefl]
    · rw [scanTarget_dead isa r hdead, scanTarget_dead isa r hdead]
  | .flag n, _, hdm' =>
    by_cases hf : fd = true
    · simp only [hf, if_true]
      rw [e, scanTarget_window]
      rw [List.any_append, Bool.or_eq_true]; right
      simp [isWritten_own_flag isa p' n hdm']
    · simp [hf]
  | .mem m, _, hdm' =>
    dsimp only
    rw [e, scanMem_window]
    rw [List.any_append, Bool.or_eq_true]; right
    simp [memStops_own isa p' m hdm']
  | .other, _, _ => rfl

/-! ### the emissions that name one consumer -/

theorem scanTarget_filter_none (isa : Isa) (t : Target) (tag : Tag) (rest : List Ins) (l : Nat)
    (h : ∀ c ∈ rest, c.line ≠ l) : (scanTarget isa t tag rest).filter (fun x => x.1 == l) = [] := by
  rw [List.filter_eq_nil_iff]
  intro x hx
  obtain ⟨c, hc, hl⟩ := Props.C03.scanTarget_lines isa t tag rest x.1 x.2 hx
  simp only [beq_iff_eq]
  intro hh
  exact h c hc (hl.trans hh)

theorem scanMem_filter_none (isa : Isa) (m : Mem) (s : RegState) (rest : List Ins) (l : Nat)
    (h : ∀ c ∈ rest, c.line ≠ l) : (scanMem isa m s rest).filter (fun x => x.1 == l) = [] := by
  rw [List.filter_eq_nil_iff]
  intro x hx
  obtain ⟨c, hc, hl⟩ := Props.C03.scanMem_lines isa m s rest x.1 x.2 hx
  simp only [beq_iff_eq]
  intro hh
  exact h c hc (hl.trans hh)

/-- tags a register / flag scan for `t` emits at consumer `c` when `seg` lies between -/
def tagsTarget (isa : Isa) (t : Target) (tag : Tag) (seg : List Ins) (c : Ins) : List Tag :=
  if seg.any (isWritten isa t) then [] else if isRead isa t c then [tag] else []

/-- tags a memory scan for `m` emits at consumer `c` when `seg` lies between -/
def tagsMem (isa : Isa) (m : Mem) (s : RegState) (seg : List Ins) (c : Ins) : List Tag :=
  if seg.any (memStops isa m) then [] else if memStop isa m c then []
  else if isMemload m c (updateState (memThread s seg) c.changes) then [Tag.storeLoad] else []

/-- **the dependency of `c` on `p` as a function of the stream segment `p … c`**: the tags producer
    `p` emits for consumer `c`, in emission order, when `seg` is what lies strictly between them -/
def tagsAt (isa : Isa) (fd : Bool) (p : Ins) (seg : List Ins) (c : Ins) : List Tag :=
  (p.dst ++ p.srcDst).flatMap fun d =>
    match d with
    | .reg r => tagsTarget isa (.reg r) (if r.preIdx || r.postIdx then .pIndexed else .plain) seg c
    | .flag n => if fd then tagsTarget isa (.flag n) .plain seg c else []
    | .mem m => tagsMem isa m (startState p) seg c
    | .other => []

theorem scanTarget_at (isa : Isa) (t : Target) (tag : Tag) (seg more : List Ins) (c : Ins)
    (h1 : ∀ x ∈ seg, x.line ≠ c.line) (h2 : ∀ x ∈ more, x.line ≠ c.line) :
    (scanTarget isa t tag (seg ++ c :: more)).filter (fun x => x.1 == c.line) =
      (tagsTarget isa t tag seg c).map (fun tg => (c.line, tg)) := by
  rw [scanTarget_append, List.filter_append, scanTarget_filter_none isa t tag seg c.line h1, List.nil_append]
  unfold tagsTarget
  by_cases hs : seg.any (isWritten isa t) = true
  · simp [hs]
  · simp only [hs, Bool.false_eq_true, if_false]
    have e : c :: more = [c] ++ more := rfl
    rw [e, scanTarget_append, List.filter_append]
    have hm : (if [c].any (isWritten isa t) = true then [] else scanTarget isa t tag more).filter
        (fun x => x.1 == c.line) = [] := by
      split
      · rfl
      · exact scanTarget_filter_none isa t tag more c.line h2
    rw [hm, List.append_nil]
    by_cases hr : isRead isa t c = true <;> by_cases hw : isWritten isa t c = true <;> simp [scanTarget, hr, hw]

theorem scanMem_at (isa : Isa) (m : Mem) (s : RegState) (seg more : List Ins) (c : Ins)
    (h1 : ∀ x ∈ seg, x.line ≠ c.line) (h2 : ∀ x ∈ more, x.line ≠ c.line) :
    (scanMem isa m s (seg ++ c :: more)).filter (fun x => x.1 == c.line) =
      (tagsMem isa m s seg c).map (fun tg => (c.line, tg)) := by
  rw [scanMem_append, List.filter_append, scanMem_filter_none isa m s seg c.line h1, List.nil_append]
  unfold tagsMem
  by_cases hs : seg.any (memStops isa m) = true
  · simp [hs]
  · simp only [hs, Bool.false_eq_true, if_false]
    have hm := scanMem_filter_none isa m (updateState (updateState (memThread s seg) c.changes) c.changesPost)
      more c.line h2
    simp only [scanMem]
    by_cases hst : memStop isa m c = true
    · simp [hst]
    · simp only [hst, Bool.false_eq_true, if_false]
      by_cases hl : isMemload m c (updateState (memThread s seg) c.changes) = true <;>
        by_cases hw : isMemstore m c = true <;> simp [hl, hw, hm]

/-- **findDepending_at** (stream locality of the producer's scan): of everything producer `p` emits
    while scanning `seg ++ c :: more`, the emissions that name consumer `c` are `tagsAt p seg c` —
    independent of `more` (and of anything in front of `p`, which `findDepending` never sees). -/
theorem findDepending_at (isa : Isa) (fd : Bool) (p : Ins) (seg more : List Ins) (c : Ins)
    (h1 : ∀ x ∈ seg, x.line ≠ c.line) (h2 : ∀ x ∈ more, x.line ≠ c.line) :
    (findDepending isa fd p (seg ++ c :: more)).filter (fun x => x.1 == c.line) =
      (tagsAt isa fd p seg c).map (fun tg => (c.line, tg)) := by
  unfold findDepending tagsAt
  rw [List.filter_flatMap, List.map_flatMap]
  apply flatMap_congr'
  intro d _
  match d with
  | .reg r => exact scanTarget_at isa _ _ seg more c h1 h2
  | .flag n =>
    by_cases hf : fd = true
    · simp only [hf, if_true]; exact scanTarget_at isa _ _ seg more c h1 h2
    · simp [hf]
  | .mem m => exact scanMem_at isa m _ seg more c h1 h2
  | .other => rfl

/-! ### line numbers play no role -/

/-- the instruction with its line number erased -/
def eraseLine (i : Ins) : Ins := { i with line := 0 }

theorem isRead_erase (isa : Isa) (t : Target) (i : Ins) : isRead isa t (eraseLine i) = isRead isa t i := rfl
theorem isWritten_erase (isa : Isa) (t : Target) (i : Ins) : isWritten isa t (eraseLine i) = isWritten isa t i := rfl
theorem memStops_erase (isa : Isa) (m : Mem) (i : Ins) : memStops isa m (eraseLine i) = memStops isa m i := rfl
theorem memStop_erase (isa : Isa) (m : Mem) (i : Ins) : memStop isa m (eraseLine i) = memStop isa m i := rfl
theorem isMemload_erase (m : Mem) (i : Ins) (s : RegState) : isMemload m (eraseLine i) s = isMemload m i s := rfl

theorem memThread_erase (s : RegState) (seg : List Ins) : memThread s (seg.map eraseLine) = memThread s seg := by
  induction seg generalizing s with
  | nil => rfl
  | cons i seg ih => simp only [List.map_cons, memThread]; rw [ih]; rfl

theorem tagsTarget_erase (isa : Isa) (t : Target) (tag : Tag) (seg : List Ins) (c : Ins) :
    tagsTarget isa t tag (seg.map eraseLine) (eraseLine c) = tagsTarget isa t tag seg c := by
  unfold tagsTarget
  rw [List.any_map]
  rfl

theorem tagsMem_erase (isa : Isa) (m : Mem) (s : RegState) (seg : List Ins) (c : Ins) :
    tagsMem isa m s (seg.map eraseLine) (eraseLine c) = tagsMem isa m s seg c := by
  unfold tagsMem
  rw [List.any_map, memThread_erase]
  rfl

/-- `tagsAt` does not look at line numbers -/
theorem tagsAt_erase (isa : Isa) (fd : Bool) (p : Ins) (seg : List Ins) (c : Ins) :
    tagsAt isa fd (eraseLine p) (seg.map eraseLine) (eraseLine c) = tagsAt isa fd p seg c := by
  unfold tagsAt
  apply flatMap_congr'
  intro d _
  match d with
  | .reg r => exact tagsTarget_erase isa _ _ seg c
  | .flag n =>
    by_cases hf : fd = true
    · simp only [hf, if_true]; exact tagsTarget_erase isa _ _ seg c
    · simp [hf]
  | .mem m => exact tagsMem_erase isa m _ seg c
  | .other => rfl

theorem edgeWeight_erase (par : Params) (p : Ins) (tag : Tag) : edgeWeight par (eraseLine p) tag = edgeWeight par p tag := rfl

end OsacaVerif.DG
