import OsacaVerif.Model.Fmt
/-
  Lemmas about the number / padding primitives of `Model/Fmt.lean` (core Lean only).
-/
namespace OsacaVerif.Fmt
open OsacaVerif.Text

/-! ### `natVal`, `natDigits` -/

theorem natVal_foldl (t : Txt) (acc : Nat) :
    t.foldl (fun a c => a * 10 + (c - 48)) acc = acc * 10 ^ t.length + natVal t := by
  induction t generalizing acc with
  | nil => simp [natVal]
  | cons c cs ih =>
    simp only [List.foldl_cons, natVal, List.length_cons]
    rw [ih, ih (0 * 10 + (c - 48))]
    simp [Nat.pow_succ, Nat.add_mul, Nat.mul_assoc, Nat.mul_comm 10, Nat.add_assoc]

theorem natVal_append (a b : Txt) : natVal (a ++ b) = natVal a * 10 ^ b.length + natVal b := by
  simp only [natVal, List.foldl_append]
  rw [natVal_foldl]; rfl

@[simp] theorem natVal_nil : natVal [] = 0 := rfl
@[simp] theorem natVal_singleton (c : Nat) : natVal [c] = c - 48 := by simp [natVal]

theorem natDigitsAux_fuel (f g n : Nat) (hf : n ≤ f) (hg : n ≤ g) :
    natDigitsAux f n = natDigitsAux g n := by
  induction f generalizing g n with
  | zero =>
    have : n = 0 := by omega
    subst this
    cases g <;> simp [natDigitsAux]
  | succ f ih =>
    cases g with
    | zero =>
      have : n = 0 := by omega
      subst this; simp [natDigitsAux]
    | succ g =>
      simp only [natDigitsAux]
      split
      · rfl
      · rw [ih g (n / 10) (by omega) (by omega)]

/-- the defining recursion of `str(n)` -/
theorem natDigits_eq (n : Nat) :
    natDigits n = if n < 10 then [48 + n] else natDigits (n / 10) ++ [48 + n % 10] := by
  unfold natDigits
  cases n with
  | zero => simp [natDigitsAux]
  | succ m =>
    simp only [natDigitsAux]
    split
    · rfl
    · rw [natDigitsAux_fuel m ((m + 1) / 10) ((m + 1) / 10) (by omega) (Nat.le_refl _)]

theorem natDigits_lt10 (n : Nat) (h : n < 10) : natDigits n = [48 + n] := by
  rw [natDigits_eq]; simp [h]

theorem natDigits_ge10 (n : Nat) (h : ¬ n < 10) : natDigits n = natDigits (n / 10) ++ [48 + n % 10] := by
  rw [natDigits_eq]; simp [h]

theorem natDigits_ne_nil (n : Nat) : natDigits n ≠ [] := by
  rw [natDigits_eq]; split <;> simp

theorem natDigits_length_pos (n : Nat) : 0 < (natDigits n).length :=
  List.length_pos_iff.mpr (natDigits_ne_nil n)

theorem natDigits_digits (n : Nat) : ∀ c ∈ natDigits n, isDigitC c = true := by
  induction n using Nat.strongRecOn with
  | _ n ih =>
    rw [natDigits_eq]
    split
    · intro c hc
      simp at hc; subst hc
      simp [isDigitC]; omega
    · intro c hc
      simp only [List.mem_append, List.mem_singleton] at hc
      rcases hc with hc | hc
      · exact ih (n / 10) (by omega) c hc
      · subst hc; simp [isDigitC]; omega

theorem natVal_natDigits (n : Nat) : natVal (natDigits n) = n := by
  induction n using Nat.strongRecOn with
  | _ n ih =>
    rw [natDigits_eq]
    split
    · simp
    · rw [natVal_append, ih (n / 10) (by omega)]
      simp
      omega

theorem natDigits_length_mono {a b : Nat} (h : a ≤ b) : (natDigits a).length ≤ (natDigits b).length := by
  induction b using Nat.strongRecOn generalizing a with
  | _ b ih =>
    by_cases hb : b < 10
    · rw [natDigits_lt10 b hb, natDigits_lt10 a (by omega)]; simp
    · rw [natDigits_ge10 b hb]
      by_cases ha : a < 10
      · rw [natDigits_lt10 a ha]
        have := natDigits_length_pos (b / 10)
        simp
      · rw [natDigits_ge10 a ha]
        have := ih (b / 10) (by omega) (a := a / 10) (Nat.div_le_div_right h)
        simp; omega

/-- `n < 10^k` (k ≥ 1) has at most `k` digits -/
theorem natDigits_length_le (k n : Nat) (hk : 0 < k) (h : n < 10 ^ k) : (natDigits n).length ≤ k := by
  induction k generalizing n with
  | zero => omega
  | succ k ih =>
    by_cases hn : n < 10
    · rw [natDigits_lt10 n hn]; simp
    · rw [natDigits_ge10 n hn]
      have hk' : 0 < k := by
        rcases Nat.eq_zero_or_pos k with h0 | h0
        · subst h0; simp at h; omega
        · exact h0
      have : n / 10 < 10 ^ k := by
        rw [Nat.div_lt_iff_lt_mul (by omega)]
        rw [Nat.pow_succ] at h; exact h
      have := ih (n / 10) hk' this
      simp; omega

/-- the first character of `str(n)` is a digit -/
theorem natDigits_head (n : Nat) : ∃ c r, natDigits n = c :: r ∧ isDigitC c = true := by
  cases h : natDigits n with
  | nil => exact absurd h (natDigits_ne_nil n)
  | cons c r =>
    exact ⟨c, r, rfl, natDigits_digits n c (by rw [h]; simp)⟩

/-! ### `spanDigits` -/

/-- `t` is empty or starts with a non-digit -/
def NoDigitHead (t : Txt) : Prop := ∀ c r, t = c :: r → isDigitC c = false

theorem noDigitHead_nil : NoDigitHead [] := by intro c r h; cases h
theorem noDigitHead_cons {c : Nat} {r : Txt} (h : isDigitC c = false) : NoDigitHead (c :: r) := by
  intro c' r' e; cases e; exact h

theorem spanDigits_append (ds rest : Txt) (hd : ∀ c ∈ ds, isDigitC c = true) (hr : NoDigitHead rest) :
    spanDigits (ds ++ rest) = (ds, rest) := by
  induction ds with
  | nil =>
    cases rest with
    | nil => rfl
    | cons c r => simp [spanDigits, hr c r rfl]
  | cons d ds ih =>
    have hd' : isDigitC d = true := hd d (by simp)
    simp only [List.cons_append, spanDigits, hd', if_true]
    rw [ih (fun c hc => hd c (by simp [hc]))]

theorem parseNatPre_natDigits (n : Nat) (rest : Txt) (hr : NoDigitHead rest) :
    parseNatPre (natDigits n ++ rest) = some (n, rest) := by
  unfold parseNatPre
  rw [spanDigits_append _ _ (natDigits_digits n) hr]
  have := natDigits_ne_nil n
  cases h : natDigits n with
  | nil => exact absurd h this
  | cons c r => rw [← h]; simp [natVal_natDigits, this]

/-! ### `renderShown` / `parseNum` -/

theorem fracDigits_digits (p r : Nat) : ∀ c ∈ fracDigits p r, isDigitC c = true := by
  intro c hc
  simp only [fracDigits, List.mem_append, List.mem_replicate] at hc
  rcases hc with ⟨_, hc⟩ | hc
  · subst hc; decide
  · exact natDigits_digits r c hc

theorem natVal_replicate_zero (k : Nat) : natVal (List.replicate k 48) = 0 := by
  induction k with
  | zero => rfl
  | succ k ih =>
    rw [List.replicate_succ, show (48 :: List.replicate k 48) = [48] ++ List.replicate k 48 from rfl,
      natVal_append, ih]; simp

theorem natVal_fracDigits (p r : Nat) : natVal (fracDigits p r) = r := by
  simp [fracDigits, natVal_append, natVal_replicate_zero, natVal_natDigits]

theorem fracDigits_length (p r : Nat) (hp : 0 < p) (h : r < 10 ^ p) : (fracDigits p r).length = p := by
  have := natDigits_length_le p r hp h
  simp [fracDigits]; omega

/-- `rest` does not continue a number: no digit, and no point -/
def NumEnd (t : Txt) : Prop := ∀ c r, t = c :: r → isDigitC c = false ∧ c ≠ 46

theorem numEnd_nil : NumEnd [] := by intro c r h; cases h
theorem numEnd_cons {c : Nat} {r : Txt} (h1 : isDigitC c = false) (h2 : c ≠ 46) : NumEnd (c :: r) := by
  intro c' r' e; cases e; exact ⟨h1, h2⟩
theorem NumEnd.noDigit {t : Txt} (h : NumEnd t) : NoDigitHead t := fun c r e => (h c r e).1

theorem parseUnsigned_render (neg : Bool) (mant decs : Nat) (rest : Txt) (hr : NumEnd rest) :
    parseUnsigned neg (natDigits (mant / 10 ^ decs) ++
      ((if decs = 0 then [] else 46 :: fracDigits decs (mant % 10 ^ decs)) ++ rest)) =
      some (⟨neg, mant, decs⟩, rest) := by
  have hpow : 0 < 10 ^ decs := Nat.pow_pos (by omega)
  obtain ⟨c0, r0, hq, hc0⟩ := natDigits_head (mant / 10 ^ decs)
  unfold parseUnsigned
  by_cases hd : decs = 0
  · subst hd
    simp only [if_true, List.nil_append]
    rw [spanDigits_append _ _ (natDigits_digits _) hr.noDigit]
    simp only [hq, List.isEmpty_cons]
    rw [← hq, natVal_natDigits]
    cases rest with
    | nil => simp
    | cons c r =>
      have := (hr c r rfl).2
      simp only [Bool.false_eq_true, if_false]
      split
      · rename_i h; cases h; exact absurd rfl this
      · simp
  · simp only [hd, if_false, List.cons_append]
    rw [spanDigits_append _ _ (natDigits_digits _) (noDigitHead_cons (by decide))]
    simp only [hq, List.isEmpty_cons]
    rw [← hq]
    simp only [Bool.false_eq_true, if_false]
    rw [spanDigits_append _ _ (fracDigits_digits _ _) hr.noDigit]
    have hlen := fracDigits_length decs (mant % 10 ^ decs) (by omega) (Nat.mod_lt _ hpow)
    simp only [natVal_append, natVal_natDigits, natVal_fracDigits, hlen]
    have : mant / 10 ^ decs * 10 ^ decs + mant % 10 ^ decs = mant := by
      rw [Nat.mul_comm]; exact Nat.div_add_mod mant (10 ^ decs)
    rw [this]

theorem parseNum_not_minus (c : Nat) (r : Txt) (h : c ≠ 45) : parseNum (c :: r) = parseUnsigned false (c :: r) := by
  unfold parseNum
  split
  · rename_i h'; cases h'; exact absurd rfl h
  · rfl

/-- **a shown literal is read back exactly** (any sign, any number of digits and decimals) -/
theorem parseNum_renderShown (s : Shown) (rest : Txt) (hr : NumEnd rest) :
    parseNum (renderShown s ++ rest) = some (s, rest) := by
  obtain ⟨neg, mant, decs⟩ := s
  unfold renderShown
  cases neg with
  | true =>
    simp only [if_true, List.cons_append, List.nil_append, List.append_assoc]
    show parseUnsigned true _ = _
    exact parseUnsigned_render true mant decs rest hr
  | false =>
    simp only [Bool.false_eq_true, if_false, List.nil_append, List.append_assoc]
    obtain ⟨c0, r0, hq, hc0⟩ := natDigits_head (mant / 10 ^ decs)
    have hc45 : c0 ≠ 45 := by
      intro h; subst h; simp [isDigitC] at hc0
    have := parseUnsigned_render false mant decs rest hr
    rw [hq] at this ⊢
    rw [List.cons_append, parseNum_not_minus _ _ hc45]
    exact this

/-! ### rounding -/

/-- half-even rounding returns a nearest integer: `|n/d − roundHE n d| ≤ 1/2` (on integers) -/
theorem roundHE_near (n d : Nat) (hd : 0 < d) :
    2 * (n - roundHE n d * d) ≤ d ∧ 2 * (roundHE n d * d - n) ≤ d := by
  have h := Nat.div_add_mod n d
  have hr := Nat.mod_lt n hd
  rw [Nat.mul_comm] at h
  unfold roundHE
  simp only []
  generalize n / d = q at *
  generalize n % d = r at *
  have e : (q + 1) * d = q * d + d := by rw [Nat.add_mul]; simp
  split
  · omega
  · split
    · rw [e]; omega
    · split
      · omega
      · rw [e]; omega

theorem roundHE_ge_floor (n d : Nat) : n / d ≤ roundHE n d := by
  unfold roundHE; simp only []; split
  · omega
  · split
    · omega
    · split <;> omega

/-- the result is the even neighbour at an exact tie -/
theorem roundHE_tie_even (n d : Nat) (h : 2 * (n % d) = d) : roundHE n d % 2 = 0 := by
  unfold roundHE; simp only []
  split
  · omega
  · split
    · omega
    · split <;> omega

/-! ### lengths -/

theorem renderShown_length (s : Shown) :
    (renderShown s).length = (if s.neg then 1 else 0) + (natDigits (s.mant / 10 ^ s.decs)).length +
      (if s.decs = 0 then 0 else 1 + s.decs) := by
  obtain ⟨neg, mant, decs⟩ := s
  have hpow : 0 < 10 ^ decs := Nat.pow_pos (by omega)
  unfold renderShown
  by_cases hd : decs = 0
  · cases neg <;> simp [hd] <;> omega
  · have := fracDigits_length decs (mant % 10 ^ decs) (by omega) (Nat.mod_lt _ hpow)
    cases neg <;> simp [hd, this] <;> omega

theorem floor_le_scaled (a d p : Nat) : a / d ≤ roundHE (a * 10 ^ p) d / 10 ^ p := by
  have hpow : 0 < 10 ^ p := Nat.pow_pos (by omega)
  rw [Nat.le_div_iff_mul_le hpow]
  refine Nat.le_trans ?_ (roundHE_ge_floor _ _)
  rcases Nat.eq_zero_or_pos d with h0 | hd
  · subst h0; simp
  · rw [Nat.le_div_iff_mul_le hd]
    have := Nat.div_mul_le_self a d
    calc a / d * 10 ^ p * d = a / d * d * 10 ^ p := by
          rw [Nat.mul_assoc, Nat.mul_comm (10 ^ p), ← Nat.mul_assoc]
      _ ≤ a * 10 ^ p := Nat.mul_le_mul_right _ this

/-- the integer part of `str(float(x))` is never longer than what `{:.pf}` prints before the point,
    so `{:w.pf}` with `w = left_len` never pads -/
theorem leftLen_add_le (x : Rat) (p : Nat) :
    leftLen x + (if p = 0 then 0 else 1 + p) ≤ (fmtFixed x p).length := by
  have hm := natDigits_length_mono (floor_le_scaled x.num.natAbs x.den p)
  unfold fmtFixed
  rw [renderShown_length]
  simp only [shown, leftLen]
  exact Nat.add_le_add_right (Nat.add_le_add_left hm _) _

theorem leftLen_le (x : Rat) (p : Nat) : leftLen x ≤ (fmtFixed x p).length := by
  have := leftLen_add_le x p; omega

/-! ### padding and small parsers -/

theorem padLeft_of_le (w : Nat) (t : Txt) (h : w ≤ t.length) : padLeft w t = t := by
  simp [padLeft, spaces, Nat.sub_eq_zero_of_le h]

@[simp] theorem spaces_length (k : Nat) : (spaces k).length = k := by simp [spaces]
@[simp] theorem dashes_length (k : Nat) : (dashes k).length = k := by simp [dashes]

theorem spaces_succ (k : Nat) : spaces (k + 1) = 32 :: spaces k := by simp [spaces, List.replicate_succ]

/-- `t` is empty or does not start with a blank -/
def NoSpaceHead (t : Txt) : Prop := ∀ c r, t = c :: r → c ≠ 32

theorem skipSpaces_of_noSpaceHead (t : Txt) (h : NoSpaceHead t) : skipSpaces t = t := by
  cases t with
  | nil => rfl
  | cons c r =>
    have := h c r rfl
    unfold skipSpaces
    split
    · rename_i h'; cases h'; exact absurd rfl this
    · rfl

theorem skipSpaces_spaces (k : Nat) (t : Txt) (h : NoSpaceHead t) : skipSpaces (spaces k ++ t) = t := by
  induction k with
  | zero => simpa [spaces] using skipSpaces_of_noSpaceHead t h
  | succ k ih => rw [spaces_succ, List.cons_append, skipSpaces]; exact ih

theorem expectSpaces_spaces (k : Nat) (rest : Txt) : expectSpaces k (spaces k ++ rest) = some rest := by
  induction k with
  | zero => simp [spaces, expectSpaces]
  | succ k ih => rw [spaces_succ, List.cons_append, expectSpaces]; exact ih

@[simp] theorem expect_cons (c : Nat) (r : Txt) : expect c (c :: r) = some r := by simp [expect]

theorem expectTxt_append (a r : Txt) : expectTxt a (a ++ r) = some r := by
  induction a with
  | nil => rfl
  | cons c cs ih => simp [expectTxt, ih]

/-! ### lines -/

theorem splitOn_ne_nil (c : Nat) (t : Txt) : splitOn c t ≠ [] := by
  induction t with
  | nil => simp [splitOn]
  | cons d r ih =>
    unfold splitOn
    split
    · simp
    · split <;> simp

theorem splitOn_no_sep (c : Nat) (l : Txt) (h : c ∉ l) : splitOn c l = [l] := by
  induction l with
  | nil => rfl
  | cons d r ih =>
    have hd : d ≠ c := fun e => h (by simp [e])
    have hr : c ∉ r := fun e => h (by simp [e])
    unfold splitOn
    rw [ih hr]; simp [hd]

theorem splitOn_append_sep (c : Nat) (l r : Txt) (h : c ∉ l) :
    splitOn c (l ++ c :: r) = l :: splitOn c r := by
  induction l with
  | nil =>
    simp only [List.nil_append]
    conv => lhs; unfold splitOn
    cases hs : splitOn c r with
    | nil => exact absurd hs (splitOn_ne_nil c r)
    | cons a b => simp
  | cons d l ih =>
    have hd : d ≠ c := fun e => h (by simp [e])
    have hr : c ∉ l := fun e => h (by simp [e])
    rw [List.cons_append]
    conv => lhs; unfold splitOn
    rw [ih hr]; simp [hd]

def unlines' (ls : List Txt) : Txt := ls.flatMap (fun l => l ++ [10])

theorem splitOn_unlines (ls : List Txt) (t : Txt) (h : ∀ l ∈ ls, 10 ∉ l) :
    splitOn 10 (ls.flatMap (fun l => l ++ [10]) ++ t) = ls ++ splitOn 10 t := by
  induction ls with
  | nil => simp
  | cons l ls ih =>
    simp only [List.flatMap_cons, List.append_assoc, List.cons_append, List.nil_append]
    rw [splitOn_append_sep 10 l _ (h l (by simp)), ih (fun l' hl' => h l' (by simp [hl']))]

end OsacaVerif.Fmt
