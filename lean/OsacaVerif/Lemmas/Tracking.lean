import OsacaVerif.Model.DG
import Mathlib.Tactic.Ring
import Mathlib.Tactic.Linarith
/-
  Concrete semantics for the register-change tracker of the store→load test (C06).

  A valuation gives every register name an integer.  Executing the reported changes of an
  instruction yields a *set* of possible valuations (`Exec`): a known change `r := n + v` is
  performed, an unknown change havocs the register, every other register keeps its value.
  `Tracks ρ0 ρ s` is the invariant that the tracked state `s` describes the current valuation `ρ`
  relative to the valuation `ρ0` at the time tracking started (the store).
-/
namespace OsacaVerif.DG
open OsacaVerif OsacaVerif.Text

/-- register valuation, keyed by the full register name (prefix ++ name), like the tracker -/
abbrev Val := Txt → Int

/-- overwrite one register -/
def Val.set (ρ : Val) (r : Txt) (x : Int) : Val := fun q => if q = r then x else ρ q

@[simp] theorem Val.set_self (ρ : Val) (r : Txt) (x : Int) : ρ.set r x r = x := by simp [Val.set]
theorem Val.set_other (ρ : Val) (r : Txt) (x : Int) (q : Txt) (h : q ≠ r) : ρ.set r x q = ρ q := by
  simp [Val.set, h]

/-- one reported change: `(r, some ⟨n, v⟩)` performs `r := n + v`; `(r, none)` writes an arbitrary value -/
def Step1 (ρ : Val) (e : Txt × Option Change) (ρ' : Val) : Prop :=
  match e.2 with
  | some c => ρ' = ρ.set e.1 (ρ c.name + c.value)
  | none => ∃ x, ρ' = ρ.set e.1 x

/-- executing a list of reported changes left to right (as `updateState` consumes them) -/
inductive Exec : Val → List (Txt × Option Change) → Val → Prop
  | nil (ρ : Val) : Exec ρ [] ρ
  | cons {ρ ρ1 ρ' : Val} {e : Txt × Option Change} {rest : List (Txt × Option Change)} :
      Step1 ρ e ρ1 → Exec ρ1 rest ρ' → Exec ρ (e :: rest) ρ'

/-- executing whole instructions: the changes, then the post-index changes -/
inductive ExecSeq : Val → List Ins → Val → Prop
  | nil (ρ : Val) : ExecSeq ρ [] ρ
  | cons {ρ ρ1 ρ2 ρ' : Val} {i : Ins} {rest : List Ins} :
      Exec ρ i.changes ρ1 → Exec ρ1 i.changesPost ρ2 → ExecSeq ρ2 rest ρ' → ExecSeq ρ (i :: rest) ρ'

/-- **the tracker's invariant**: a register tracked as `(n, v)` holds `ρ0 n + v`; a register
    without entry still holds its initial value; a register marked unknown is unconstrained -/
def Tracks (ρ0 ρ : Val) (s : RegState) : Prop :=
  ∀ r, match lookup s r with
    | some (some c) => ρ r = ρ0 c.name + c.value
    | some none => True
    | none => ρ r = ρ0 r

theorem tracks_init (ρ0 : Val) : Tracks ρ0 ρ0 [] := by
  intro r; simp [lookup]

/-! ### `lookup` after `setReg` -/

theorem lookup_map_set (s : RegState) (r : Txt) (v : Option Change) (q : Txt) :
    lookup (s.map (fun e => if e.1 == r then (r, v) else e)) q =
      if q = r then (if s.any (·.1 == r) then some v else none) else lookup s q := by
  induction s with
  | nil => simp [lookup]
  | cons e s ih =>
    unfold lookup at ih ⊢
    simp only [List.map_cons, List.find?_cons, List.any_cons]
    by_cases he : e.1 = r
    · by_cases hq : q = r
      · subst hq; simp [he]
      · have : (r == q) = false := by simpa using fun h => hq h.symm
        simp only [he, beq_self_eq_true, if_true, this, hq, if_false]
        simpa [hq] using ih
    · have her : (e.1 == r) = false := by simpa using he
      simp only [her, Bool.false_eq_true, if_false, Bool.false_or]
      by_cases hq : q = r
      · subst hq
        simp only [her]
        simpa using ih
      · by_cases heq : e.1 = q
        · simp [heq, hq]
        · have : (e.1 == q) = false := by simpa using heq
          simp only [this]
          simpa [hq] using ih

theorem lookup_none_of_not_any (s : RegState) (r : Txt) (h : s.any (·.1 == r) = false) :
    lookup s r = none := by
  unfold lookup
  simp only [Option.map_eq_none_iff, List.find?_eq_none]
  intro e he
  have := List.any_eq_false.mp h e he
  simpa using this

theorem lookup_setReg (s : RegState) (r : Txt) (v : Option Change) (q : Txt) :
    lookup (setReg s r v) q = if q = r then some v else lookup s q := by
  unfold setReg
  by_cases h : s.any (·.1 == r) = true
  · rw [if_pos h, lookup_map_set]
    simp [h]
  · rw [if_neg h]
    have h' : s.any (·.1 == r) = false := Bool.eq_false_iff.mpr h
    by_cases hq : q = r
    · subst hq
      have hn := lookup_none_of_not_any s q h'
      unfold lookup at hn ⊢
      simp only [Option.map_eq_none_iff] at hn
      simp [List.find?_append, hn]
    · unfold lookup
      have : (r == q) = false := by simpa using fun h => hq h.symm
      simp [List.find?_append, hq, this]

/-! ### the invariant is preserved -/

theorem tracks_setReg (ρ0 ρ ρ' : Val) (s : RegState) (r : Txt) (v : Option Change)
    (h : Tracks ρ0 ρ s) (hother : ∀ q, q ≠ r → ρ' q = ρ q)
    (hr : match v with | some c => ρ' r = ρ0 c.name + c.value | none => True) :
    Tracks ρ0 ρ' (setReg s r v) := by
  intro q
  rw [lookup_setReg]
  by_cases hq : q = r
  · subst hq
    simp only [if_true]
    cases v with
    | none => trivial
    | some c => exact hr
  · simp only [hq, if_false]
    rw [hother q hq]
    exact h q

/-- **one tracker step is sound**: if the state describes `ρ` and the change is executed, the updated
    state describes every possible successor valuation.  No side condition is needed: entries refer
    to the *initial* valuation `ρ0`, so overwriting the register an entry names does no harm. -/
theorem tracks_updateOne (ρ0 ρ ρ' : Val) (s : RegState) (e : Txt × Option Change)
    (h : Tracks ρ0 ρ s) (hs : Step1 ρ e ρ') : Tracks ρ0 ρ' (updateOne s e.1 e.2) := by
  obtain ⟨reg, change⟩ := e
  unfold Step1 at hs
  cases change with
  | none =>
    obtain ⟨x, rfl⟩ := hs
    simp only [updateOne]
    exact tracks_setReg ρ0 ρ _ s reg none h (fun q hq => Val.set_other ρ reg x q hq) trivial
  | some ch =>
    simp only at hs
    subst hs
    have hother : ∀ q, q ≠ reg → ρ.set reg (ρ ch.name + ch.value) q = ρ q :=
      fun q hq => Val.set_other ρ reg _ q hq
    by_cases hn : ch.name = reg
    · have : (ch.name != reg) = false := by simp [hn]
      simp only [updateOne, this, Bool.false_eq_true, if_false]
      have hreg := h reg
      cases hcur : lookup s reg with
      | none =>
        simp only [hcur] at hreg
        simp only
        refine tracks_setReg ρ0 ρ _ s reg _ h hother ?_
        simp only [Val.set_self, hn, hreg]
        omega
      | some o =>
        cases o with
        | none => exact tracks_setReg ρ0 ρ _ s reg none h hother trivial
        | some c =>
          simp only [hcur] at hreg
          simp only
          refine tracks_setReg ρ0 ρ _ s reg _ h hother ?_
          simp only [Val.set_self, hn, hreg]
          omega
    · have : (ch.name != reg) = true := by simp [hn]
      simp only [updateOne, this, if_true]
      have hsrc := h ch.name
      cases hl : lookup s ch.name with
      | none =>
        simp only [hl] at hsrc
        simp only
        refine tracks_setReg ρ0 ρ _ s reg _ h hother ?_
        simp only [Val.set_self, hsrc]
        omega
      | some o =>
        cases o with
        | none => exact tracks_setReg ρ0 ρ _ s reg none h hother trivial
        | some src =>
          simp only [hl] at hsrc
          simp only
          refine tracks_setReg ρ0 ρ _ s reg _ h hother ?_
          simp only [Val.set_self, hsrc]
          omega

/-- **`updateState` preserves `Tracks` along any execution** of the reported changes -/
theorem tracks_updateState (ρ0 ρ ρ' : Val) (s : RegState) (ch : List (Txt × Option Change))
    (h : Tracks ρ0 ρ s) (hx : Exec ρ ch ρ') : Tracks ρ0 ρ' (updateState s ch) := by
  induction hx generalizing s with
  | nil ρ => exact h
  | cons hstep _ ih =>
    simp only [updateState, List.foldl_cons]
    exact ih _ (tracks_updateOne ρ0 _ _ s _ h hstep)

/-! ### addresses -/

/-- the displacement of a memory operand: a symbol denotes an unknown but fixed address constant `σ name`
    (the same for every occurrence of the symbol); a number denotes itself, an absent displacement 0 -/
def disp (σ : Txt → Int) (m : Mem) : Int :=
  match m.sym with
  | some n => σ n
  | none => m.offset.getD 0

/-- the concrete address of a `base (+ index·scale) + displacement` memory operand -/
def addr (σ : Txt → Int) (m : Mem) (ρ : Val) : Int :=
  (m.base.map fun b => ρ (fullName b)).getD 0 + (m.index.map fun i => ρ (fullName i)).getD 0 * m.scale +
    disp σ m

theorem dispDelta_sound (σ : Txt → Int) (st ld : Mem) (a : Int) (h : dispDelta st ld = some a) :
    disp σ ld = disp σ st + a := by
  unfold dispDelta at h
  unfold disp
  cases hs : st.sym with
  | none =>
    cases hl : ld.sym with
    | none => simp only [hs, hl, Option.some.injEq] at h; subst h; simp only; omega
    | some b => simp [hs, hl] at h
  | some a' =>
    cases hl : ld.sym with
    | none => simp [hs, hl] at h
    | some b =>
      simp only [hs, hl] at h
      by_cases heq : a' = b
      · simp only [heq, beq_self_eq_true, if_true, Option.some.injEq] at h
        subst h; simp [heq]
      · simp [heq] at h

/-- the base part of `is_memload`: `some δ` = "the load's base is the store's base plus δ" -/
def baseDelta (st ld : Mem) (s : RegState) : Option Int :=
  match st.base, ld.base with
  | some sb, some lb =>
    (match lookup s (fullName lb) with
    | some none => none
    | some (some c) => if fullName sb == c.name then some c.value else none
    | none => if fullName sb == fullName lb then some 0 else none)
  | none, none => some 0
  | _, _ => none

/-- the index part of `is_memload` (already multiplied by the common scale) -/
def indexDelta (st ld : Mem) (s : RegState) : Option Int :=
  match st.index, ld.index with
  | some si, some li =>
    (match lookup s (fullName li) with
    | some none => none
    | some (some c) =>
      if st.scale != ld.scale then none
      else if fullName si == c.name then some (c.value * ld.scale) else none
    | none =>
      if st.scale != ld.scale then none
      else if fullName si == fullName li then some 0 else none)
  | none, none => some 0
  | _, _ => none

theorem isMemload_eq (st : Mem) (i : Ins) (s : RegState) :
    isMemload st i s = (i.src ++ i.srcDst).any fun o =>
      match o with
      | .mem ld =>
        (match dispDelta st ld, baseDelta st ld s, indexDelta st ld s with
        | some a0, some b, some x => a0 + b + x == 0
        | _, _, _ => false)
      | _ => false := by
  unfold isMemload
  congr 1

theorem baseDelta_sound (ρ0 ρ : Val) (st ld : Mem) (s : RegState) (h : Tracks ρ0 ρ s) (b : Int)
    (hb : baseDelta st ld s = some b) :
    (ld.base.map fun r => ρ (fullName r)).getD 0 = (st.base.map fun r => ρ0 (fullName r)).getD 0 + b := by
  unfold baseDelta at hb
  cases hsb : st.base with
  | none =>
    cases hlb : ld.base with
    | none => simp only [hsb, hlb, Option.some.injEq] at hb; subst hb; simp
    | some lb => simp [hsb, hlb] at hb
  | some sb =>
    cases hlb : ld.base with
    | none => simp [hsb, hlb] at hb
    | some lb =>
      simp only [hsb, hlb] at hb
      have hl := h (fullName lb)
      cases hlook : lookup s (fullName lb) with
      | none =>
        simp only [hlook] at hb hl
        by_cases heq : fullName sb = fullName lb
        · simp only [heq, beq_self_eq_true, if_true, Option.some.injEq] at hb
          subst hb
          simp [hl, heq]
        · simp [heq] at hb
      | some o =>
        cases o with
        | none => simp [hlook] at hb
        | some c =>
          simp only [hlook] at hb hl
          by_cases heq : fullName sb = c.name
          · simp only [heq, beq_self_eq_true, if_true, Option.some.injEq] at hb
            subst hb
            simp [hl, heq]
          · simp [heq] at hb

theorem indexDelta_sound (ρ0 ρ : Val) (st ld : Mem) (s : RegState) (h : Tracks ρ0 ρ s) (x : Int)
    (hx : indexDelta st ld s = some x) :
    (ld.index.map fun r => ρ (fullName r)).getD 0 * ld.scale =
      (st.index.map fun r => ρ0 (fullName r)).getD 0 * st.scale + x := by
  unfold indexDelta at hx
  cases hsi : st.index with
  | none =>
    cases hli : ld.index with
    | none => simp only [hsi, hli, Option.some.injEq] at hx; subst hx; simp
    | some li => simp [hsi, hli] at hx
  | some si =>
    cases hli : ld.index with
    | none => simp [hsi, hli] at hx
    | some li =>
      simp only [hsi, hli] at hx
      have hl := h (fullName li)
      by_cases hsc : st.scale = ld.scale
      · have hsc' : (st.scale != ld.scale) = false := by simp [hsc]
        cases hlook : lookup s (fullName li) with
        | none =>
          simp only [hlook, hsc', Bool.false_eq_true, if_false] at hx hl
          by_cases heq : fullName si = fullName li
          · simp only [heq, beq_self_eq_true, if_true, Option.some.injEq] at hx
            subst hx
            simp [hl, heq, hsc]
          · simp [heq] at hx
        | some o =>
          cases o with
          | none => simp [hlook] at hx
          | some c =>
            simp only [hlook, hsc', Bool.false_eq_true, if_false] at hx hl
            by_cases heq : fullName si = c.name
            · simp only [heq, beq_self_eq_true, if_true, Option.some.injEq] at hx
              subst hx
              simp only [Option.map_some, Option.getD_some, hl, heq, hsc]
              ring
            · simp [heq] at hx
      · have hsc' : (st.scale != ld.scale) = true := by simp [hsc]
        cases hlook : lookup s (fullName li) with
        | none => simp [hlook, hsc'] at hx
        | some o => cases o <;> simp [hlook, hsc'] at hx

/-- **the store→load test is semantically sound**: if the tracked state describes the current
    valuation `ρ` relative to the valuation `ρ0` at the store, and `is_memload` answers yes, then
    some memory source operand of the instruction has exactly the store's address -/
theorem isMemload_sound (σ : Txt → Int) (ρ0 ρ : Val) (st : Mem) (i : Ins) (s : RegState) (h : Tracks ρ0 ρ s)
    (hm : isMemload st i s = true) :
    ∃ ld, Op.mem ld ∈ i.src ++ i.srcDst ∧ addr σ st ρ0 = addr σ ld ρ := by
  rw [isMemload_eq, List.any_eq_true] at hm
  obtain ⟨o, ho, hbody⟩ := hm
  cases o with
  | mem ld =>
    refine ⟨ld, ho, ?_⟩
    simp only at hbody
    cases ha : dispDelta st ld with
    | none => simp [ha] at hbody
    | some a0 =>
    cases hb : baseDelta st ld s with
    | none => simp [ha, hb] at hbody
    | some b =>
      cases hx : indexDelta st ld s with
      | none => simp [ha, hb, hx] at hbody
      | some x =>
        simp only [ha, hb, hx, beq_iff_eq] at hbody
        have h0 := dispDelta_sound σ st ld a0 ha
        have h1 := baseDelta_sound ρ0 ρ st ld s h b hb
        have h2 := indexDelta_sound ρ0 ρ st ld s h x hx
        unfold addr
        rw [h0, h1, h2]
        omega
  | reg r => simp at hbody
  | flag n => simp at hbody
  | other => simp at hbody

/-- **the store→load scan is sound along every execution**: an emission of `scanMem` names an
    instruction `c` of the scanned suffix such that, for every valuation `ρ` the start state
    describes and every execution of the instructions before `c` followed by `c`'s own (pre-access)
    changes, a memory source operand of `c` has exactly the store's address -/
theorem scanMem_sound (σ : Txt → Int) (isa : Isa) (m : Mem) (rest : List Ins) (l : Nat) (tg : Tag) :
    ∀ s, (l, tg) ∈ scanMem isa m s rest →
      ∃ j c, rest[j]? = some c ∧ c.line = l ∧ tg = Tag.storeLoad ∧
        ∀ ρ0 ρ ρj ρ', Tracks ρ0 ρ s → ExecSeq ρ (rest.take j) ρj → Exec ρj c.changes ρ' →
          ∃ ld, Op.mem ld ∈ c.src ++ c.srcDst ∧ addr σ m ρ0 = addr σ ld ρ' := by
  induction rest with
  | nil => intro s h; simp [scanMem] at h
  | cons i rest ih =>
    intro s h
    simp only [scanMem] at h
    by_cases h1 : memStop isa m i = true
    · simp [h1] at h
    · simp only [h1] at h
      have hhere : (l, tg) ∈ (if isMemload m i (updateState s i.changes) = true
          then [(i.line, Tag.storeLoad)] else []) →
          ∃ j c, (i :: rest)[j]? = some c ∧ c.line = l ∧ tg = Tag.storeLoad ∧
            ∀ ρ0 ρ ρj ρ', Tracks ρ0 ρ s → ExecSeq ρ ((i :: rest).take j) ρj → Exec ρj c.changes ρ' →
              ∃ ld, Op.mem ld ∈ c.src ++ c.srcDst ∧ addr σ m ρ0 = addr σ ld ρ' := by
        intro hx
        by_cases h3 : isMemload m i (updateState s i.changes) = true
        · simp only [h3, if_true, List.mem_singleton, Prod.mk.injEq] at hx
          refine ⟨0, i, by simp, hx.1.symm, hx.2, ?_⟩
          intro ρ0 ρ ρj ρ' ht hseq hex
          simp only [List.take_zero] at hseq
          cases hseq
          exact isMemload_sound σ ρ0 ρ' m i _ (tracks_updateState ρ0 ρ ρ' s _ ht hex) h3
        · simp [h3] at hx
      by_cases h2 : isMemstore m i = true
      · simp only [h2, if_true] at h
        exact hhere h
      · simp only [h2] at h
        rcases List.mem_append.mp h with h | h
        · exact hhere h
        · obtain ⟨j, c, hj, hl, htg, hall⟩ := ih _ h
          refine ⟨j + 1, c, by simpa using hj, hl, htg, ?_⟩
          intro ρ0 ρ ρj ρ' ht hseq hex
          simp only [List.take_succ_cons] at hseq
          cases hseq with
          | cons hc hp hrest =>
            exact hall ρ0 _ ρj ρ'
              (tracks_updateState ρ0 _ _ _ _ (tracks_updateState ρ0 _ _ _ _ ht hc) hp) hrest hex

end OsacaVerif.DG
