import OsacaVerif.Lemmas.A64Range
/-
  Register lists and ranges as covered operand kinds.
-/
namespace OsacaVerif.ParseA64
open OsacaVerif.Text OsacaVerif.Spec.A64 OsacaVerif.Gen

theorem moreText_append (d : Nat) (xs : List More) (a rest : Txt) :
    moreText d xs (a ++ rest) = moreText d xs a ++ rest := by
  induction xs with
  | nil => rfl
  | cons x xs ih => simp [moreText, ih, List.append_assoc]

/-- text of a list / range behind the opening brace -/
def listBody (d : Nat) (g0 : Txt) (e0 : ElemA) (xs : List More) (gE : Txt) (idx : Option Nat) (gi1 gi2 gi3 : Txt) : Txt :=
  g0 ++ (elemText e0 ++ moreText d xs (gE ++ 125 :: idxG idx gi1 gi2 gi3))

/-- **register list / range** in any operand slot (grammar level) -/
theorem goodOp_list (d : Nat) (hd : d = 44 ∨ d = 45) (g0 : Txt) (e0 : ElemA) (xs : List More) (gE : Txt)
    (idx : Option Nat) (gi1 gi2 gi3 : Txt) (hg0 : Blank g0) (he0 : ElemOk e0) (hx : ∀ x ∈ xs, x.Ok)
    (hgE : Blank gE) (hi1 : Blank gi1) (hi2 : Blank gi2) (hi3 : Blank gi3) (hrange : d = 45 → xs ≠ []) :
    GoodOp false true (123 :: listBody d g0 e0 xs gE idx gi1 gi2 gi3)
      (.reg (listTok (d == 45) (e0 :: xs.map (·.e)) idx)) := by
  have hws : isWs 123 = false := by decide
  have hform : ∀ g rest : Txt, g ++ (123 :: listBody d g0 e0 xs gE idx gi1 gi2 gi3 ++ rest) =
      g ++ 123 :: (g0 ++ (elemText e0 ++ moreText d xs (gE ++ 125 :: (idxG idx gi1 gi2 gi3 ++ rest)))) := by
    intro g rest
    simp [listBody, List.append_assoc, ← moreText_append]
  have hcommon : ∀ g rest, Blank g → Follow rest →
      registerP (g ++ 123 :: (g0 ++ (elemText e0 ++ moreText d xs (gE ++ 125 :: (idxG idx gi1 gi2 gi3 ++ rest))))) =
        some (listTok (d == 45) (e0 :: xs.map (·.e)) idx, skipWs rest) := by
    intro g rest hg hf
    obtain ⟨r', hrl, hsk⟩ := registerList_text d hd (fun _ => trivial) g g0 e0 xs gE idx gi1 gi2 gi3 rest hg hg0 he0 hx hgE
      hi1 hi2 hi3 hf hrange
    have hcore : registerCore (g ++ 123 :: (g0 ++ (elemText e0 ++ moreText d xs (gE ++ 125 :: (idxG idx gi1 gi2 gi3 ++ rest))))) =
        some (listTok (d == 45) (e0 :: xs.map (·.e)) idx, r') := by
      have hv := vectorP_none_prefix g 123 (g0 ++ (elemText e0 ++ moreText d xs (gE ++ 125 :: (idxG idx gi1 gi2 gi3 ++ rest))))
        hg hws (by decide)
      have hs : scalarP true (g ++ 123 :: (g0 ++ (elemText e0 ++ moreText d xs (gE ++ 125 :: (idxG idx gi1 gi2 gi3 ++ rest))))) = none := by
        simp [scalarP, char1, sk_true, skipWs_blank_append g _ hg, skipWs_cons 123 _ hws, charNS, isScalarPrefixC,
          A64.scalarPrefixes]
      have hp : predicateP (g ++ 123 :: (g0 ++ (elemText e0 ++ moreText d xs (gE ++ 125 :: (idxG idx gi1 gi2 gi3 ++ rest))))) = none := by
        have : clit true A64.predPrefix (g ++ 123 :: (g0 ++ (elemText e0 ++ moreText d xs (gE ++ 125 :: (idxG idx gi1 gi2 gi3 ++ rest))))) = none :=
          clit_none_head_nonalpha g 123 _ _ hg hws (by decide) (by decide)
        simp [predicateP, this]
      simp only [registerCore, aliasP_none_nonalpha _ g 123 _ hg hws (by decide) aliasSp_headAlpha,
        aliasP_none_nonalpha _ g 123 _ hg hws (by decide) aliasZr_headAlpha, hv, hs, hp, hrl, mapR_none,
        orElseR_none_left]
    have hst : shiftTail r' = none := by rw [shiftTail_congr r' rest hsk]; exact shiftTail_none rest hf
    simp only [registerP, hcore, optP_none true shiftTail _ hst, sk_true, hsk, listTok]
  refine ⟨?_, ?_, ?_, ?_⟩
  · intro g rest hg hf
    have hreg := hcommon g rest hg hf
    refine ⟨skipWs rest, ?_, skipWs_idem rest⟩
    rw [hform]
    have hcond := conditionP_none_nonalpha g 123 (g0 ++ (elemText e0 ++ moreText d xs (gE ++ 125 :: (idxG idx gi1 gi2 gi3 ++ rest)))) hg hws (by decide)
    have himm := immediate_none_head g 123 (g0 ++ (elemText e0 ++ moreText d xs (gE ++ 125 :: (idxG idx gi1 gi2 gi3 ++ rest)))) hg hws (by decide) (by decide) (by decide)
    have hmem := memoryP_none_head g 123 (g0 ++ (elemText e0 ++ moreText d xs (gE ++ 125 :: (idxG idx gi1 gi2 gi3 ++ rest)))) hg hws (by decide)
    simp [operandRest, hcond, hreg, himm, hmem, arithOp, arithP]
  · intro _ g rest hg hf
    have hreg := hcommon g rest hg hf
    refine ⟨skipWs rest, ?_, skipWs_idem rest⟩
    rw [hform]
    have hprf := prefetchP_none_nonalpha g 123 (g0 ++ (elemText e0 ++ moreText d xs (gE ++ 125 :: (idxG idx gi1 gi2 gi3 ++ rest)))) hg hws (by decide)
    have himm := immediate_none_head g 123 (g0 ++ (elemText e0 ++ moreText d xs (gE ++ 125 :: (idxG idx gi1 gi2 gi3 ++ rest)))) hg hws (by decide) (by decide) (by decide)
    have hmem := memoryP_none_head g 123 (g0 ++ (elemText e0 ++ moreText d xs (gE ++ 125 :: (idxG idx gi1 gi2 gi3 ++ rest)))) hg hws (by decide)
    have hid := identifier_none_head g 123 (g0 ++ (elemText e0 ++ moreText d xs (gE ++ 125 :: (idxG idx gi1 gi2 gi3 ++ rest)))) hg hws (by decide) (by decide)
    simp [operandFirst, hprf, hreg, himm, hmem, arithOp, arithP, hid]
  · intro g rest hg _
    rw [hform]
    exact shiftOp_none_nonalpha g 123 _ hg hws (by decide)
  · exact ⟨123, listBody d g0 e0 xs gE idx gi1 gi2 gi3, rfl, hws, by decide, by decide⟩

/-! ### post-processing -/
theorem listIndex_idx (idx : Option Nat) : listIndex (optMap showNat idx) = .ok (optMap showNat idx) := by
  cases idx with
  | none => rfl
  | some k =>
    simp only [optMap, listIndex, pyInt0_showNat]
    rfl

theorem processElem_elemTok (ix : Option Txt) (e : ElemA) (he : ElemOk e) :
    processElem ix (elemTok e) =
      .ok { (expectElem e none) with index := ix } := by
  cases he with
  | scalar p n hp =>
    cases ix <;> simp [processElem, elemTok, RegTok.ofElem, processRegister, expectElem, lower, lowerTxt1, optMap]
  | vec p n lanes shape hp hl hs =>
    cases ix <;> cases shape <;>
      simp [processElem, elemTok, vecElem, RegTok.ofElem, processRegister, expectElem, lower, lowerTxt1, optMap]

theorem expectElem_index (e : ElemA) (idx : Option Nat) :
    expectElem e idx = { (expectElem e none) with index := optMap showNat idx } := by
  cases e <;> cases idx <;> simp [expectElem, optMap]

/-- a list: every element with the list index -/
theorem resolveList_list (es : List ElemA) (hes : ∀ e ∈ es, ElemOk e) (idx : Option Nat) :
    resolveList (listTok false es idx) false (es.map elemTok) = .ok (es.map (fun e => expectElem e idx)) := by
  simp only [resolveList, listTok, listIndex_idx, Bool.false_eq_true, if_false]
  induction es with
  | nil => rfl
  | cons e es ih =>
    have h1 := processElem_elemTok (optMap showNat idx) e (hes e (by simp))
    have ih' := ih (fun x hx => hes x (by simp [hx]))
    simp only [List.map_cons, mapE, h1, ih', expectElem_index e idx]

theorem elemTok_name (e : ElemA) : (elemTok e).name = some (showNat (elemNum e)) := by
  cases e <;> rfl

theorem elemTok_pre (e : ElemA) : ∃ p, (elemTok e).pre = some p := by
  cases e <;> exact ⟨_, rfl⟩

theorem elemTok_setNum (e : ElemA) (n : Nat) : { elemTok e with name := some (showNat n) } = elemTok (setNum e n) := by
  cases e <;> rfl

theorem elemOk_setNum (e : ElemA) (he : ElemOk e) (n : Nat) : ElemOk (setNum e n) := by
  cases he with
  | scalar p m hp => exact .scalar p n hp
  | vec p m lanes shape hp hl hs => exact .vec p n lanes shape hp hl hs

theorem rangeMembers_eq (first : ElemA) (idx : Option Nat) (a k : Nat) :
    rangeMembers first idx a k = (List.range k).map (fun i => expectElem (setNum first (a + i)) idx) := by
  induction k generalizing a with
  | zero => rfl
  | succ k ih =>
    rw [rangeMembers, ih (a + 1), List.range_succ_eq_map]
    simp [List.map_map, Function.comp_def]
    intro x _
    have : a + 1 + x = a + (x + 1) := by omega
    rw [this]

/-- a range: the members `A … B` of the first register -/
theorem resolveList_range (first : ElemA) (hf : ElemOk first) (b : Nat) (rest : List ElemA) (idx : Option Nat) :
    resolveList (listTok true (first :: setNum first b :: rest) idx) true
        ((first :: setNum first b :: rest).map elemTok) =
      .ok (rangeMembers first idx (elemNum first) (b + 1 - elemNum first)) := by
  have hnb : (elemTok (setNum first b)).name = some (showNat b) := by
    cases first <;> rfl
  simp only [resolveList, listTok, listIndex_idx, if_true, List.map_cons, elemTok_name first, hnb,
    natOfDigits_showNat]
  have hinc : A64.rangeInclusive = 1 := by decide
  unfold expandRange
  rw [hinc, rangeNames_eq, rangeMembers_eq]
  rw [mapE_ok _ (fun n => expectElem (setNum first n) idx)]
  · simp [List.map_map, Function.comp_def]
  · intro n _
    rw [elemTok_setNum, processElem_elemTok _ _ (elemOk_setNum first hf n)]
    exact congrArg Except.ok (expectElem_index (setNum first n) idx).symm

/-! ### from the rendered pieces -/
theorem elems_form (e0 : ElemA) (es : List ElemA) (gs : List Txt) (h : InnerOk (elemsPieces (e0 :: es)) gs) :
    ∃ g0 xs, Blank g0 ∧ (∀ x ∈ xs, Blank x.g1 ∧ Blank x.g2) ∧ xs.map (·.e) = es ∧
      ∀ after, joinInner (elemsPieces (e0 :: es)) gs ++ after = g0 ++ (elemText e0 ++ moreText 44 xs after) := by
  induction es generalizing e0 gs with
  | nil =>
    obtain ⟨g0, gs1, rfl, hg0, h1⟩ := innerOk_cons (p := (elemText e0, 1)) (ps := []) h
    have : gs1 = [] := h1
    subst this
    exact ⟨g0, [], hg0, by simp, rfl, fun after => by simp [elemsPieces, joinInner, moreText]⟩
  | cons e1 es ih =>
    have hp : elemsPieces (e0 :: e1 :: es) = (elemText e0, 1) :: ([44], 1) :: elemsPieces (e1 :: es) := rfl
    rw [hp] at h
    obtain ⟨g0, gs1, rfl, hg0, h1⟩ := innerOk_cons h
    obtain ⟨gc, gs2, rfl, hgc, h2⟩ := innerOk_cons h1
    obtain ⟨g0', xs, hg0', hxs, hmap, hj⟩ := ih e1 gs2 h2
    refine ⟨g0, ⟨gc, g0', e1⟩ :: xs, hg0, ?_, by simp [hmap], ?_⟩
    · intro x hx
      simp at hx
      rcases hx with rfl | hx
      · exact ⟨hgc, hg0'⟩
      · exact hxs x hx
    · intro after
      rw [hp]
      simp only [joinInner, moreText, List.append_assoc, List.singleton_append, List.cons_append, List.nil_append]
      rw [hj after]

theorem idx_form (idx : Option Nat) (gs : List Txt) (h : InnerOk (idxPieces idx) gs) :
    ∃ gi1 gi2 gi3, Blank gi1 ∧ Blank gi2 ∧ Blank gi3 ∧ joinInner (idxPieces idx) gs = idxG idx gi1 gi2 gi3 := by
  cases idx with
  | none =>
    have : gs = [] := h
    subst this
    exact ⟨[], [], [], blank_nil, blank_nil, blank_nil, rfl⟩
  | some k =>
    obtain ⟨g1, gs1, rfl, h1, r1⟩ := innerOk_cons h
    obtain ⟨g2, gs2, rfl, h2, r2⟩ := innerOk_cons r1
    obtain ⟨g3, gs3, rfl, h3, r3⟩ := innerOk_cons r2
    have : gs3 = [] := r3
    subst this
    exact ⟨g1, g2, g3, h1, h2, h3, by simp [idxPieces, joinInner, idxG, List.append_assoc]⟩

/-- **register list** `{e0, e1, …}[idx]` (∀ elements of the covered kinds, ∀ list lengths ≥ 1) -/
theorem covered_list (last fst : Bool) (e0 : ElemA) (es : List ElemA) (idx : Option Nat)
    (hes : ∀ e ∈ e0 :: es, ElemOk e) : CoveredOp last fst (.list (e0 :: es) idx) := by
  refine ⟨[123], elemsPieces (e0 :: es) ++ (([125], 1) :: idxPieces idx), .reg (listTok false (e0 :: es) idx), ?_, ?_, ?_⟩
  · simp [opPieces]
  · intro gs hgs
    obtain ⟨gsE, gs2, hE, h2, hj⟩ := innerOk_append _ _ gs hgs
    obtain ⟨gE, gsI, rfl, hgE, hI⟩ := innerOk_cons h2
    obtain ⟨g0, xs, hg0, hxs, hmap, hform⟩ := elems_form e0 es gsE hE
    obtain ⟨gi1, gi2, gi3, hi1, hi2, hi3, hidx⟩ := idx_form idx gsI hI
    have hxok : ∀ x ∈ xs, x.Ok := by
      intro x hx
      refine ⟨(hxs x hx).1, (hxs x hx).2, hes x.e ?_⟩
      have : x.e ∈ xs.map (·.e) := List.mem_map_of_mem hx
      rw [hmap] at this
      simp [this]
    have htext : [123] ++ joinInner (elemsPieces (e0 :: es) ++ (([125], 1) :: idxPieces idx)) gs =
        123 :: listBody 44 g0 e0 xs gE idx gi1 gi2 gi3 := by
      rw [hj]
      simp only [joinInner, hidx, List.singleton_append, List.cons_append, List.nil_append]
      rw [hform]
      simp [listBody]
    rw [htext]
    have := (goodOp_list 44 (Or.inl rfl) g0 e0 xs gE idx gi1 gi2 gi3 hg0 (hes e0 (by simp)) hxok hgE hi1 hi2 hi3
      (fun h => absurd h (by decide))).any last
    simp only [hmap] at this
    cases fst with
    | true => simpa using this.toFirst
    | false => simpa using this.toRest
  · have := resolveList_list (e0 :: es) hes idx
    simp only [processOperand, listTok] at this ⊢
    rw [this]
    simp [expectOp, List.map_map, Function.comp_def]

/-- **register range** `{first - last}[idx]` (∀ bounds; an empty range if the last number is smaller) -/
theorem covered_range (last fst : Bool) (first : ElemA) (b : Nat) (idx : Option Nat) (hf : ElemOk first) :
    CoveredOp last fst (.range first b idx) := by
  refine ⟨[123], [(elemText first, 1), ([45], 1), (elemText (setNum first b), 1), ([125], 1)] ++ idxPieces idx,
    .reg (listTok true [first, setNum first b] idx), ?_, ?_, ?_⟩
  · simp [opPieces]
  · intro gs hgs
    obtain ⟨gs4, gsI, h4, hI, hj⟩ := innerOk_append _ _ gs hgs
    obtain ⟨g0, r1, rfl, hg0, q1⟩ := innerOk_cons h4
    obtain ⟨gd, r2, rfl, hgd, q2⟩ := innerOk_cons q1
    obtain ⟨g2, r3, rfl, hg2, q3⟩ := innerOk_cons q2
    obtain ⟨gE, r4, rfl, hgE, q4⟩ := innerOk_cons q3
    have : r4 = [] := q4
    subst this
    obtain ⟨gi1, gi2, gi3, hi1, hi2, hi3, hidx⟩ := idx_form idx gsI hI
    have htext : [123] ++ joinInner ([(elemText first, 1), ([45], 1), (elemText (setNum first b), 1), ([125], 1)] ++
        idxPieces idx) gs = 123 :: listBody 45 g0 first [⟨gd, g2, setNum first b⟩] gE idx gi1 gi2 gi3 := by
      rw [hj]
      simp [joinInner, hidx, listBody, moreText, List.append_assoc]
    rw [htext]
    have hxok : ∀ x ∈ [(⟨gd, g2, setNum first b⟩ : More)], x.Ok := by
      intro x hx; simp at hx; subst hx; exact ⟨hgd, hg2, elemOk_setNum first hf b⟩
    have := (goodOp_list 45 (Or.inr rfl) g0 first [⟨gd, g2, setNum first b⟩] gE idx gi1 gi2 gi3 hg0 hf hxok hgE
      hi1 hi2 hi3 (by simp)).any last
    cases fst with
    | true => simpa using this.toFirst
    | false => simpa using this.toRest
  · have := resolveList_range first hf b [] idx
    simp only [processOperand, listTok] at this ⊢
    rw [this]
    simp [expectOp]

end OsacaVerif.ParseA64
