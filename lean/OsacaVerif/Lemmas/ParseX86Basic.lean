import OsacaVerif.Model.ParseX86
/-
  C09 — basic facts about the pyparsing primitives of `Model/ParseX86.lean`.
-/
namespace OsacaVerif.ParseX86
open OsacaVerif.Text OsacaVerif.X86

/-- every character of `w` is a pyparsing white character -/
def AllWs (w : Txt) : Prop := ∀ c ∈ w, isWs c = true

/-- `t` is empty or starts with a character outside `p` -/
def Stops (p : Nat → Bool) (t : Txt) : Prop := ∀ c, t.head? = some c → p c = false

/-- first character after the blanks -/
def nextC (t : Txt) : Option Nat := (skipWs t).head?

theorem AllWs.nil : AllWs [] := by intro c h; cases h
theorem AllWs.append {a b : Txt} (ha : AllWs a) (hb : AllWs b) : AllWs (a ++ b) := by
  intro c h; rcases List.mem_append.mp h with h | h; exact ha c h; exact hb c h
theorem AllWs.cons {c : Nat} {w : Txt} (hc : isWs c = true) (hw : AllWs w) : AllWs (c :: w) := by
  intro d h; rcases List.mem_cons.mp h with h | h; subst h; exact hc; exact hw d h

@[simp] theorem skipWs_nil : skipWs [] = [] := rfl

theorem skipWs_append {w t : Txt} (hw : AllWs w) : skipWs (w ++ t) = skipWs t := by
  induction w with
  | nil => rfl
  | cons c cs ih =>
    have hc : isWs c = true := hw c (by simp)
    simp only [List.cons_append, skipWs, hc, if_true]
    exact ih (fun d hd => hw d (by simp [hd]))

theorem skipWs_cons_not {c : Nat} {t : Txt} (hc : isWs c = false) : skipWs (c :: t) = c :: t := by
  simp [skipWs, hc]

theorem skipWs_of_stops {t : Txt} (h : Stops isWs t) : skipWs t = t := by
  cases t with
  | nil => rfl
  | cons c cs => exact skipWs_cons_not (h c rfl)

theorem skipWs_stops (t : Txt) : Stops isWs (skipWs t) := by
  induction t with
  | nil => intro c h; cases h
  | cons c cs ih =>
    unfold skipWs
    split
    · exact ih
    · intro d hd; simp at hd; subst hd; simpa using ‹¬isWs c = true›

@[simp] theorem skipWs_skipWs (t : Txt) : skipWs (skipWs t) = skipWs t :=
  skipWs_of_stops (skipWs_stops t)

theorem skipWs_length_le (t : Txt) : (skipWs t).length ≤ t.length := by
  induction t with
  | nil => simp
  | cons c cs ih => unfold skipWs; split <;> simp <;> omega

/-- `skipWs` only removes a blank prefix -/
theorem skipWs_eq_drop (t : Txt) : ∃ w, AllWs w ∧ t = w ++ skipWs t := by
  induction t with
  | nil => exact ⟨[], AllWs.nil, rfl⟩
  | cons c cs ih =>
    unfold skipWs
    split
    · obtain ⟨w, hw, he⟩ := ih
      exact ⟨c :: w, AllWs.cons ‹_› hw, by simp [← he]⟩
    · exact ⟨[], AllWs.nil, rfl⟩

theorem spanP_append {p : Nat → Bool} {w t : Txt} (hw : ∀ c ∈ w, p c = true) (ht : Stops p t) :
    spanP p (w ++ t) = (w, t) := by
  induction w with
  | nil =>
    cases t with
    | nil => rfl
    | cons c cs => simp [spanP, ht c rfl]
  | cons c cs ih =>
    have hc : p c = true := hw c (by simp)
    have := ih (fun d hd => hw d (by simp [hd]))
    simp [spanP, hc, this]

theorem spanP_stops {p : Nat → Bool} {t : Txt} (ht : Stops p t) : spanP p t = ([], t) := by
  simpa using spanP_append (w := []) (by simp) ht

theorem wordRaw_append {p : Nat → Bool} {w t : Txt} (hne : w ≠ []) (hw : ∀ c ∈ w, p c = true)
    (ht : Stops p t) : wordRaw p (w ++ t) = some (w, t) := by
  unfold wordRaw
  rw [spanP_append hw ht]
  cases w with
  | nil => exact absurd rfl hne
  | cons c cs => rfl

theorem wordRaw_stops {p : Nat → Bool} {t : Txt} (ht : Stops p t) : wordRaw p t = none := by
  unfold wordRaw; rw [spanP_stops ht]

theorem word_append {p : Nat → Bool} {b w t : Txt} (hb : AllWs b) (hne : w ≠ [])
    (hw : ∀ c ∈ w, p c = true) (hws : ∀ c ∈ w, isWs c = false) (ht : Stops p t) :
    word p (b ++ (w ++ t)) = some (w, t) := by
  unfold word
  rw [skipWs_append hb]
  cases w with
  | nil => exact absurd rfl hne
  | cons c cs =>
    rw [List.cons_append, skipWs_cons_not (hws c (by simp)), ← List.cons_append]
    exact wordRaw_append hne hw ht

theorem dropPrefix_append (s t : Txt) : dropPrefix s (s ++ t) = some t := by
  induction s with
  | nil => cases t <;> rfl
  | cons c cs ih => simp [dropPrefix, ih]

/-- a one-character literal after blanks -/
theorem lit1_append {b t : Txt} {x : Nat} (hb : AllWs b) (hx : isWs x = false) :
    lit [x] (b ++ x :: t) = some t := by
  unfold lit
  rw [skipWs_append hb, skipWs_cons_not hx]
  simp [dropPrefix]

/-- a one-character literal fails when the next visible character is another one -/
theorem lit1_none {t : Txt} {x : Nat} (h : nextC t ≠ some x) : lit [x] t = none := by
  unfold lit nextC at *
  cases hs : skipWs t with
  | nil => rfl
  | cons c cs =>
    rw [hs] at h
    have : x ≠ c := by intro e; subst e; exact h rfl
    simp [dropPrefix, this]

theorem optR_lit1_none {t : Txt} {x : Nat} (h : nextC t ≠ some x) : optR (lit [x]) t = skipWs t := by
  simp [optR, lit1_none h]

theorem nextC_append {b t : Txt} (hb : AllWs b) : nextC (b ++ t) = nextC t := by
  simp [nextC, skipWs_append hb]

theorem nextC_cons {c : Nat} {t : Txt} (hc : isWs c = false) : nextC (c :: t) = some c := by
  simp [nextC, skipWs_cons_not hc]

@[simp] theorem nextC_skipWs (t : Txt) : nextC (skipWs t) = nextC t := by simp [nextC]

theorem word1_none {p : Nat → Bool} {t : Txt} (h : ∀ c, nextC t = some c → p c = false) :
    word1 p t = none := by
  unfold word1 nextC at *
  cases hs : skipWs t with
  | nil => rfl
  | cons c cs => rw [hs] at h; simp [h c rfl]

theorem word1_append {p : Nat → Bool} {b t : Txt} {x : Nat} (hb : AllWs b) (hx : isWs x = false)
    (hp : p x = true) : word1 p (b ++ x :: t) = some (x, t) := by
  unfold word1
  rw [skipWs_append hb, skipWs_cons_not hx]; simp [hp]

theorem Stops.nil {p : Nat → Bool} : Stops p [] := by intro c h; cases h
theorem Stops.cons {p : Nat → Bool} {c : Nat} {t : Txt} (h : p c = false) : Stops p (c :: t) := by
  intro d hd; simp at hd; subst hd; exact h

/-- a class that contains no white character stops at blanks -/
theorem Stops.append_ws {p : Nat → Bool} {b t : Txt} (hp : ∀ c, isWs c = true → p c = false)
    (hb : AllWs b) (ht : Stops p t) : Stops p (b ++ t) := by
  cases b with
  | nil => exact ht
  | cons c cs => exact Stops.cons (hp c (hb c (by simp)))

end OsacaVerif.ParseX86
