import OsacaVerif.Props.C03
import OsacaVerif.Lemmas.LCDPost
/-
  Helper development for C05 / C14: well-formed kernels (`WFKernel`: strictly increasing line
  numbers), what `DG.dedupLast` (networkx' `add_edge` overwriting) keeps, forward edges of
  `DG.create`, and the consequences for the paths of the LCD search (strictly increasing vertices,
  a single crossing from the first to the second kernel copy, the sorted normal form is a rotation).
-/
namespace OsacaVerif.DG
open OsacaVerif OsacaVerif.Text

/-! ### `add_edge` semantics -/

theorem Edge.ext' {a b : Edge} (h1 : a.src = b.src) (h2 : a.dst = b.dst) (h3 : a.w = b.w) : a = b := by
  cases a; cases b; simp_all

/-- after `add_edge`: the new edge is there, edges with another (src, dst) pair are untouched,
    nothing else -/
theorem mem_addEdge_p1 (acc : List Edge) (x g : Edge) :
    g ∈ addEdge acc x ↔ g = x ∨ (¬ (g.src = x.src ∧ g.dst = x.dst) ∧ g ∈ acc) := by
  unfold addEdge
  by_cases hany : acc.any (fun f => f.src == x.src && f.dst == x.dst) = true
  · rw [if_pos hany, List.mem_map]
    constructor
    · rintro ⟨f, hf, rfl⟩
      by_cases hm : (f.src == x.src && f.dst == x.dst) = true
      · rw [if_pos hm]
        simp only [Bool.and_eq_true, beq_iff_eq] at hm
        exact Or.inl (Edge.ext' hm.1 hm.2 rfl)
      · rw [if_neg hm]
        simp only [Bool.and_eq_true, beq_iff_eq] at hm
        exact Or.inr ⟨hm, hf⟩
    · rintro (rfl | ⟨h1, h2⟩)
      · obtain ⟨f, hf, hm⟩ := List.any_eq_true.mp hany
        refine ⟨f, hf, ?_⟩
        rw [if_pos hm]
        simp only [Bool.and_eq_true, beq_iff_eq] at hm
        exact Edge.ext' hm.1 hm.2 rfl
      · refine ⟨g, h2, ?_⟩
        rw [if_neg]
        simpa using h1
  · rw [if_neg hany, List.mem_append, List.mem_singleton]
    constructor
    · rintro (h | h)
      · refine Or.inr ⟨?_, h⟩
        intro hk
        apply hany
        exact List.any_eq_true.mpr ⟨g, h, by simp [hk.1, hk.2]⟩
      · exact Or.inl h
    · rintro (h | ⟨_, h⟩)
      · exact Or.inr h
      · exact Or.inl h

theorem mem_foldl_addEdge (es acc : List Edge) (g : Edge) :
    g ∈ es.foldl addEdge acc ↔
      (∃ es1 es2, es = es1 ++ g :: es2 ∧ ∀ f ∈ es2, ¬ (f.src = g.src ∧ f.dst = g.dst)) ∨
      (g ∈ acc ∧ ∀ f ∈ es, ¬ (f.src = g.src ∧ f.dst = g.dst)) := by
  induction es generalizing acc with
  | nil => simp
  | cons x es ih =>
    rw [List.foldl_cons, ih, mem_addEdge_p1]
    constructor
    · rintro (⟨es1, es2, rfl, h⟩ | ⟨hx | ⟨hk, ha⟩, h⟩)
      · exact Or.inl ⟨x :: es1, es2, rfl, h⟩
      · subst hx
        exact Or.inl ⟨[], es, rfl, h⟩
      · refine Or.inr ⟨ha, ?_⟩
        intro f hf
        rcases List.mem_cons.mp hf with rfl | hf
        · intro hh; exact hk ⟨hh.1.symm, hh.2.symm⟩
        · exact h f hf
    · rintro (⟨es1, es2, heq, h⟩ | ⟨ha, h⟩)
      · cases es1 with
        | nil =>
          simp only [List.nil_append, List.cons.injEq] at heq
          obtain ⟨rfl, rfl⟩ := heq
          exact Or.inr ⟨Or.inl rfl, h⟩
        | cons y es1 =>
          simp only [List.cons_append, List.cons.injEq] at heq
          obtain ⟨rfl, rfl⟩ := heq
          exact Or.inl ⟨es1, es2, rfl, h⟩
      · refine Or.inr ⟨Or.inr ⟨?_, ha⟩, fun f hf => h f (List.mem_cons_of_mem _ hf)⟩
        intro hh
        exact h x List.mem_cons_self ⟨hh.1.symm, hh.2.symm⟩

/-- **what the graph keeps**: an edge is in `dedupLast es` iff it is the *last* emission for its
    (src, dst) pair -/
theorem mem_dedupLast_p1 (es : List Edge) (g : Edge) :
    g ∈ dedupLast es ↔ ∃ es1 es2, es = es1 ++ g :: es2 ∧ ∀ f ∈ es2, ¬ (f.src = g.src ∧ f.dst = g.dst) := by
  unfold dedupLast
  rw [mem_foldl_addEdge]
  simp

theorem dedupLast_subset (es : List Edge) (g : Edge) (h : g ∈ dedupLast es) : g ∈ es := by
  obtain ⟨es1, es2, rfl, _⟩ := (mem_dedupLast_p1 es g).mp h
  simp

/-! ### edges point forward -/

/-- every emission of a well-formed kernel: a dependency edge (source an instruction node) goes to an
    instruction node on a strictly larger line; a load edge goes from the load node to its own
    instruction -/
theorem emissions_shape (isa : Isa) (fd : Bool) (par : Params) (k : List Ins) (hwf : WFKernel k) :
    ∀ e ∈ emissions isa fd par k,
      e.dst.load = false ∧ (e.src.load = false → e.src.line < e.dst.line) ∧
      (e.src.load = true → e.src.line = e.dst.line) ∧
      (∃ p ∈ k, p.line = e.src.line) ∧ (∃ c ∈ k, c.line = e.dst.line) := by
  induction k with
  | nil => simp [emissions]
  | cons p rest ih =>
    intro e he
    simp only [emissions, List.mem_append, List.mem_map] at he
    rcases he with (he | ⟨⟨l, tag⟩, hl, rfl⟩) | he
    · by_cases hc : (p.hasLd && !p.isLd) = true
      · rw [if_pos hc, List.mem_singleton] at he
        subst he
        simp
      · rw [if_neg hc] at he; simp at he
    · have hlt := Props.C03.findDepending_forward isa fd p rest hwf.head_lt l tag hl
      simp only [findDepending, List.mem_flatMap] at hl
      obtain ⟨d, _, hd⟩ := hl
      have hc : ∃ c ∈ rest, c.line = l := by
        match d, hd with
        | .reg r, hd => exact Props.C03.scanTarget_lines _ _ _ _ _ _ hd
        | .flag n, hd =>
          by_cases hf : fd = true
          · simp only [hf, if_true] at hd; exact Props.C03.scanTarget_lines _ _ _ _ _ _ hd
          · simp [hf] at hd
        | .mem m, hd => exact Props.C03.scanMem_lines _ _ _ _ _ _ hd
        | .other, hd => simp at hd
      obtain ⟨c, hc, hcl⟩ := hc
      exact ⟨rfl, fun _ => hlt, by simp, ⟨p, List.mem_cons_self, rfl⟩, ⟨c, List.mem_cons_of_mem _ hc, hcl⟩⟩
    · obtain ⟨h1, h2, h3, ⟨q, hq, hq'⟩, ⟨c, hc, hc'⟩⟩ := ih hwf.tail e he
      exact ⟨h1, h2, h3, ⟨q, List.mem_cons_of_mem _ hq, hq'⟩, ⟨c, List.mem_cons_of_mem _ hc, hc'⟩⟩

/-- all instruction-to-instruction edges go to a strictly larger line -/
def ForwardEdges (es : List Edge) : Prop := ∀ e ∈ es, e.src.load = false → e.src.line < e.dst.line

instance (es : List Edge) : Decidable (ForwardEdges es) := by unfold ForwardEdges; infer_instance

end OsacaVerif.DG

namespace OsacaVerif.LCD
open OsacaVerif OsacaVerif.DG

theorem succs_forward (es : List Edge) (hf : ForwardEdges es) (n m : Nat) (w : Rat) (h : (m, w) ∈ succs es n) :
    n < m := by
  simp only [succs, List.mem_filterMap] at h
  obtain ⟨e, he, h⟩ := h
  by_cases hc : (!e.src.load && e.src.line == n && !e.dst.load) = true
  · rw [if_pos hc] at h
    simp only [Bool.and_eq_true, Bool.not_eq_true', beq_iff_eq] at hc
    simp only [Option.some.injEq, Prod.mk.injEq] at h
    have := hf e he hc.1.1
    omega
  · rw [if_neg hc] at h; cases h

theorem nextV_eq_head (tgt : Nat) (q : List (Nat × Rat)) :
    (verts q ++ [tgt]).head? = some (nextV tgt q) := by
  cases q <;> simp [verts, nextV]

/-- a walk over forward edges has strictly increasing vertices, all below the target -/
theorem walk_increasing (es : List Edge) (hf : ForwardEdges es) (tgt : Nat) (p : List (Nat × Rat))
    (h : IsWalk es tgt p) : (verts p ++ [tgt]).Pairwise (· < ·) := by
  induction p with
  | nil => simp [verts]
  | cons x rest ih =>
    have ih := ih h.2
    have hlt := succs_forward es hf _ _ _ h.1
    have hh := nextV_eq_head tgt rest
    simp only [verts, List.map_cons, List.cons_append, List.pairwise_cons] at ih ⊢
    refine ⟨?_, ih⟩
    intro v hv
    cases hl : (List.map (fun x => x.1) rest ++ [tgt]) with
    | nil => simp at hl
    | cons a t =>
      simp only [verts] at hh
      rw [hl] at hh hv ih
      simp only [List.head?_cons, Option.some.injEq] at hh
      rcases List.mem_cons.mp hv with rfl | hv
      · omega
      · have := (List.pairwise_cons.mp ih).1 v hv
        omega

end OsacaVerif.LCD
