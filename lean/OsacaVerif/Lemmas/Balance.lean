import OsacaVerif.Model.Balance
import OsacaVerif.Lemmas.Feasible
import Mathlib.Data.List.Perm.Basic
import Mathlib.Algebra.BigOperators.Group.List.Lemmas

namespace OsacaVerif.Balance
open OsacaVerif OsacaVerif.Ports OsacaVerif.Spec

/-- invariant of one row of the decomposition -/
structure RowInv (lo : Rat) (n : Nat) (u : Uop) (row : List Rat) : Prop where
  len  : row.length = n
  sum  : row.sum = u.amount
  supp : ∀ p < n, p ∉ u.ports → row.getD p 0 = 0
  low  : ∀ p < n, lo ≤ row.getD p 0

abbrev Inv (lo : Rat) (n : Nat) (us : List Uop) (x : Decomp) : Prop :=
  List.Forall₂ (RowInv lo n) us x

theorem sum_addAt (v : List Rat) (i : Nat) (x : Rat) (hi : i < v.length) :
    (addAt v i x).sum = v.sum + x := by
  induction v generalizing i with
  | nil => simp at hi
  | cons a as ih =>
    cases i with
    | zero => simp [addAt]; ring
    | succ i => simp [addAt, ih i (by simpa using hi)]; ring

theorem getD_moveRow (row : List Rat) (a b p : Nat) (δ : Rat) (ha : a < row.length) (hb : b < row.length) :
    (moveRow row a b δ).getD p 0 =
      row.getD p 0 + (if a = p then -δ else 0) + (if b = p then δ else 0) := by
  unfold moveRow
  rw [getD_addAt _ b p δ (by simpa using hb), getD_addAt _ a p (-δ) ha]

theorem initRow_inv (lo : Rat) (hlo : lo ≤ 0) (n : Nat) (u : Uop)
    (hu : 0 ≤ u.cycles ∧ 0 ≤ u.mult ∧ u.ports ≠ [] ∧ ∀ p ∈ u.ports, p < n) :
    RowInv lo n u (initRow n u) := by
  have hget : ∀ p < n, (initRow n u).getD p 0 = share u p := by
    intro p hp; simp [initRow, List.getD_eq_getElem?_getD, hp]
  refine ⟨by simp [initRow], ?_, ?_, ?_⟩
  · have h := total_uniform n [u] (by intro u' hu'; simp at hu'; subst hu'; exact hu)
    simpa [uniform, totalAmount, initRow] using h
  · intro p hp hnot
    rw [hget p hp]; simp [share, List.count_eq_zero_of_not_mem hnot]
  · intro p hp
    rw [hget p hp]
    exact le_trans hlo (share_nonneg u p hu.1 hu.2.1)

theorem init_inv (lo : Rat) (hlo : lo ≤ 0) (n : Nat) (us : List Uop) (hw : WFUops n us) :
    Inv lo n us (init n us) := by
  induction us with
  | nil => exact List.Forall₂.nil
  | cons u us ih =>
    exact List.Forall₂.cons (initRow_inv lo hlo n u (hw u List.mem_cons_self))
      (ih (fun u' hu' => hw u' (List.mem_cons_of_mem _ hu')))

theorem moveRow_inv (lo : Rat) (n : Nat) (u : Uop) (row : List Rat) (a b : Nat) (δ : Rat)
    (hp : ∀ p ∈ u.ports, p < n) (h : RowInv lo n u row) (hg : guardOk lo u row a b δ = true) :
    RowInv lo n u (moveRow row a b δ) := by
  simp only [guardOk, Bool.and_eq_true, decide_eq_true_eq, bne_iff_ne, ne_eq] at hg
  obtain ⟨⟨⟨⟨ha, hb⟩, hab⟩, hla⟩, hlb⟩ := hg
  have ha' : a ∈ u.ports := by simpa using ha
  have hb' : b ∈ u.ports := by simpa using hb
  have han : a < row.length := by rw [h.len]; exact hp a ha'
  have hbn : b < row.length := by rw [h.len]; exact hp b hb'
  refine ⟨by simp [moveRow, h.len], ?_, ?_, ?_⟩
  · unfold moveRow
    rw [sum_addAt _ b δ (by simpa using hbn), sum_addAt _ a (-δ) han, h.sum]; ring
  · intro p hpn hnot
    rw [getD_moveRow row a b p δ han hbn, h.supp p hpn hnot]
    have h1 : a ≠ p := by rintro rfl; exact hnot ha'
    have h2 : b ≠ p := by rintro rfl; exact hnot hb'
    simp [h1, h2]
  · intro p hpn
    rw [getD_moveRow row a b p δ han hbn]
    by_cases h1 : a = p
    · subst h1
      have h2 : ¬ b = a := fun e => hab e.symm
      rw [if_pos rfl, if_neg h2]; linarith
    · by_cases h2 : b = p
      · subst h2; rw [if_neg h1, if_pos rfl]; linarith
      · rw [if_neg h1, if_neg h2]; have := h.low p hpn; linarith

theorem forall₂_set {α β : Type} (R : α → β → Prop) (l1 : List α) (l2 : List β) (j : Nat) (a : α) (b : β)
    (h : List.Forall₂ R l1 l2) (hj : l1[j]? = some a) (hr : R a b) : List.Forall₂ R l1 (l2.set j b) := by
  induction h generalizing j with
  | nil => simp at hj
  | cons hxy hrest ih =>
    cases j with
    | zero => simp at hj; subst hj; simpa using List.Forall₂.cons hr hrest
    | succ j => simp at hj; simpa using List.Forall₂.cons hxy (ih j hj)

theorem forall₂_get {α β : Type} (R : α → β → Prop) (l1 : List α) (l2 : List β) (j : Nat) (a : α) (b : β)
    (h : List.Forall₂ R l1 l2) (h1 : l1[j]? = some a) (h2 : l2[j]? = some b) : R a b := by
  induction h generalizing j with
  | nil => simp at h1
  | cons hxy hrest ih =>
    cases j with
    | zero => simp at h1 h2; subst h1 h2; exact hxy
    | succ j => simp at h1 h2; exact ih j h1 h2

/-- one guarded move preserves the invariant -/
theorem step_inv (lo : Rat) (n : Nat) (us : List Uop) (hw : WFUops n us) (x x' : Decomp) (m : Move)
    (h : Inv lo n us x) (hs : step lo us x m = some x') : Inv lo n us x' := by
  unfold step at hs
  match hu : us[m.j]?, hr : x[m.j]? with
  | some u, some row =>
    simp only [hu, hr] at hs
    by_cases hg : guardOk lo u row m.a m.b m.δ = true
    · simp only [hg, if_true, Option.some.injEq] at hs
      subst hs
      have hrow := forall₂_get _ _ _ _ _ _ h hu hr
      have humem : u ∈ us := List.mem_of_getElem? hu
      exact forall₂_set _ _ _ _ _ _ h hu (moveRow_inv lo n u row m.a m.b m.δ (hw u humem).2.2.2 hrow hg)
    · simp [hg] at hs
  | none, _ => simp [hu] at hs
  | some _, none => simp [hu, hr] at hs

/-- any number of guarded moves (any interleaving over the micro-ops, any number of passes) -/
theorem run_inv (lo : Rat) (n : Nat) (us : List Uop) (hw : WFUops n us) (ms : List Move)
    (x x' : Decomp) (h : Inv lo n us x) (hs : run lo us x ms = some x') : Inv lo n us x' := by
  induction ms generalizing x with
  | nil => simp [run] at hs; subst hs; exact h
  | cons m ms ih =>
    unfold run at hs
    match hstep : step lo us x m with
    | some x1 => rw [hstep] at hs; exact ih x1 (step_inv lo n us hw x x1 m h hstep) hs
    | none => rw [hstep] at hs; simp at hs

/-! ### from the invariant to feasibility of the column sums -/

theorem getD_pressure (n : Nat) (x : Decomp) (p : Nat) (hp : p < n) :
    (pressure n x).getD p 0 = (x.map (·.getD p 0)).sum := by
  simp [pressure, List.getD_eq_getElem?_getD, hp]

theorem sumOn_pressure (n : Nat) (x : Decomp) (S : List Nat) (hS : ∀ p ∈ S, p < n) :
    sumOn (pressure n x) S = (x.map fun row => sumOn row S).sum := by
  induction S with
  | nil => simp [sumOn]
  | cons p S ih =>
    have hp : p < n := hS p List.mem_cons_self
    have ih' := ih (by intro q hq; exact hS q (List.mem_cons_of_mem _ hq))
    simp only [sumOn, List.map_cons, List.sum_cons] at *
    rw [ih', getD_pressure n x p hp, ← List.sum_map_add]

theorem sumOn_ge (lo : Rat) (n : Nat) (u : Uop) (row : List Rat) (h : RowInv lo n u row)
    (S : List Nat) (hS : ∀ p ∈ S, p < n) : (S.length : Rat) * lo ≤ sumOn row S := by
  induction S with
  | nil => simp [sumOn]
  | cons p S ih =>
    have := ih (by intro q hq; exact hS q (List.mem_cons_of_mem _ hq))
    have hl := h.low p (hS p List.mem_cons_self)
    simp only [sumOn, List.map_cons, List.sum_cons, List.length_cons] at *
    push_cast; linarith

/-- a row that vanishes outside `S` sums to its `S`-part -/
theorem sumOn_of_supp (n : Nat) (row : List Rat) (hlen : row.length = n) (S : List Nat) (hSn : S.Nodup)
    (hS : ∀ p ∈ S, p < n) (hz : ∀ p < n, p ∉ S → row.getD p 0 = 0) : sumOn row S = row.sum := by
  rw [sum_eq_sumOn_range, hlen]
  have hperm : List.Perm ((List.range n).filter (· ∈ S) ++ (List.range n).filter (fun p => !decide (p ∈ S))) (List.range n) :=
    List.filter_append_perm _ _
  have h1 : sumOn row (List.range n) =
      sumOn row ((List.range n).filter (· ∈ S)) + sumOn row ((List.range n).filter (fun p => !decide (p ∈ S))) := by
    unfold sumOn
    rw [← List.sum_append, ← List.map_append]
    exact ((hperm.map _).sum_eq).symm
  have h2 : sumOn row ((List.range n).filter (fun p => !decide (p ∈ S))) = 0 := by
    unfold sumOn
    apply List.sum_eq_zero
    intro v hv
    obtain ⟨p, hp, rfl⟩ := List.mem_map.mp hv
    simp only [List.mem_filter, List.mem_range, Bool.not_eq_true', decide_eq_false_iff_not] at hp
    exact hz p hp.1 hp.2
  have h3 : List.Perm ((List.range n).filter (· ∈ S)) S := by
    apply (List.perm_ext_iff_of_nodup (List.nodup_range.filter _) hSn).2
    intro p
    simp only [List.mem_filter, List.mem_range, decide_eq_true_eq]
    exact ⟨fun h => h.2, fun h => ⟨hS p h, h⟩⟩
  have h4 : sumOn row ((List.range n).filter (· ∈ S)) = sumOn row S := by
    unfold sumOn; exact (h3.map _).sum_eq
  rw [h1, h2, h4]; ring

theorem sumOn_confined (lo : Rat) (n : Nat) (u : Uop) (row : List Rat) (h : RowInv lo n u row)
    (S : List Nat) (hSn : S.Nodup) (hS : ∀ p ∈ S, p < n) (hsub : ∀ p ∈ u.ports, p ∈ S) :
    sumOn row S = u.amount := by
  rw [sumOn_of_supp n row h.len S hSn hS, h.sum]
  intro p hp hnot
  exact h.supp p hp (fun hin => hnot (hsub p hin))

theorem hall_of_inv (lo : Rat) (hlo : lo ≤ 0) (n : Nat) (us : List Uop) (x : Decomp) (h : Inv lo n us x)
    (S : List Nat) (hSn : S.Nodup) (hS : ∀ p ∈ S, p < n) :
    confined us S + (us.length : Rat) * ((S.length : Rat) * lo) ≤ (x.map fun row => sumOn row S).sum := by
  induction h with
  | nil => simp [confined]
  | @cons u row us x hrow hrest ih =>
    simp only [confined, List.map_cons, List.sum_cons, List.length_cons] at *
    have hS0 : (S.length : Rat) * lo ≤ 0 := mul_nonpos_of_nonneg_of_nonpos (by positivity) hlo
    by_cases hc : u.ports.all (· ∈ S) = true
    · have hsub : ∀ p ∈ u.ports, p ∈ S := by simpa using hc
      rw [List.filter_cons_of_pos (by simpa using hc), List.map_cons, List.sum_cons,
        sumOn_confined lo n u row hrow S hSn hS hsub]
      push_cast; linarith
    · rw [List.filter_cons_of_neg (by simpa using hc)]
      have := sumOn_ge lo n u row hrow S hS
      push_cast; linarith

theorem sum_rows (lo : Rat) (n : Nat) (us : List Uop) (x : Decomp) (h : Inv lo n us x) :
    (x.map List.sum).sum = totalAmount us := by
  induction h with
  | nil => simp [totalAmount]
  | @cons u row us x hrow hrest ih =>
    simp only [List.map_cons, List.sum_cons, totalAmount] at *
    rw [ih, hrow.sum]

/-- **C01, optimised scheduling** (∀ port models, ∀ micro-op lists, ∀ move sequences): as long as
    every move the balancer performs is a guarded move of some micro-op between two of its own
    ports that leaves both cells ≥ `lo` (= −½·INC), the instruction's pressure vector is feasible
    up to `−lo` per micro-op: the total is *exact*, nothing sits on a non-admissible port, no cell
    is below `m·lo`, and every port set carries its confined cycles minus `m·|S|·(−lo)`. -/
theorem feasible_of_inv (lo : Rat) (hlo : lo ≤ 0) (n : Nat) (us : List Uop) (x : Decomp)
    (h : Inv lo n us x) : Feasible (-lo * us.length) n us (pressure n x) where
  len := by simp [pressure]
  nonneg := by
    intro p hp
    rw [getD_pressure n x p hp]
    have : (us.length : Rat) * lo ≤ (x.map (·.getD p 0)).sum := by
      induction h with
      | nil => simp
      | @cons u row us x hrow hrest ih =>
        simp only [List.map_cons, List.sum_cons, List.length_cons]
        have := hrow.low p hp
        push_cast; linarith
    linarith
  support := by
    intro p hp hno
    rw [getD_pressure n x p hp]
    apply List.sum_eq_zero
    intro v hv
    obtain ⟨row, hrow, rfl⟩ := List.mem_map.mp hv
    obtain ⟨j, hj⟩ := List.getElem?_of_mem hrow
    have hlen : x.length = us.length := h.length_eq.symm
    have hjl : j < us.length := by
      rw [← hlen]; exact (List.getElem?_eq_some_iff.mp hj).1
    have hu : us[j]? = some us[j] := List.getElem?_eq_getElem hjl
    have ri := forall₂_get _ _ _ _ _ _ h hu hj
    exact ri.supp p hp (hno _ (List.getElem_mem hjl))
  totalLo := by
    have ht : (pressure n x).sum = totalAmount us := by
      rw [sum_eq_sumOn_range, show (pressure n x).length = n by simp [pressure],
        sumOn_pressure n x _ (by intro p hp; simpa using hp), ← sum_rows lo n us x h]
      congr 1
      apply List.map_congr_left
      intro row hrow
      obtain ⟨j, hj⟩ := List.getElem?_of_mem hrow
      have hlen : x.length = us.length := h.length_eq.symm
      have hjl : j < us.length := by
        rw [← hlen]; exact (List.getElem?_eq_some_iff.mp hj).1
      have ri := forall₂_get _ _ _ _ _ _ h (List.getElem?_eq_getElem hjl) hj
      rw [← ri.len]; exact (sum_eq_sumOn_range row).symm
    rw [ht]
    have : 0 ≤ -lo * (us.length : Rat) * n := by
      apply mul_nonneg (mul_nonneg (by linarith) (by positivity)) (by positivity)
    linarith
  totalHi := by
    have ht : (pressure n x).sum = totalAmount us := by
      rw [sum_eq_sumOn_range, show (pressure n x).length = n by simp [pressure],
        sumOn_pressure n x _ (by intro p hp; simpa using hp), ← sum_rows lo n us x h]
      congr 1
      apply List.map_congr_left
      intro row hrow
      obtain ⟨j, hj⟩ := List.getElem?_of_mem hrow
      have hlen : x.length = us.length := h.length_eq.symm
      have hjl : j < us.length := by
        rw [← hlen]; exact (List.getElem?_eq_some_iff.mp hj).1
      have ri := forall₂_get _ _ _ _ _ _ h (List.getElem?_eq_getElem hjl) hj
      rw [← ri.len]; exact (sum_eq_sumOn_range row).symm
    rw [ht]
    have : 0 ≤ -lo * (us.length : Rat) * n := by
      apply mul_nonneg (mul_nonneg (by linarith) (by positivity)) (by positivity)
    linarith
  hall := by
    intro S hSn hS
    rw [sumOn_pressure n x S hS]
    have := hall_of_inv lo hlo n us x h S hSn hS
    linarith

end OsacaVerif.Balance
