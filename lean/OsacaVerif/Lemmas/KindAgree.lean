import OsacaVerif.Model.Match
import OsacaVerif.Spec.KindAgree
/-
  The matcher (`Match.checkOperand`) decides kind agreement (`Spec.KindAgree`) on the domain of the
  parsers and of the entry schema; the function `Spec.kindAgreeB` is the relation `Spec.KindAgree`.
-/
namespace OsacaVerif.Lemmas.KindAgree
open OsacaVerif OsacaVerif.Text OsacaVerif.Operand OsacaVerif.Match OsacaVerif.Spec

/-! ### the literals of the source are the literals of the specification -/
theorem wildcard_eq : Gen.wildcard = star := by decide
theorem gpr_eq : Gen.x86GprClass = gprClass := by decide
theorem vec_eq : Gen.vectorNames = vectorClasses := by decide
theorem immType_eq : Gen.x86ImmType = tInt := by decide
theorem offImd_eq : Gen.x86OffImd = tImd := by decide
theorem offId_eq : Gen.x86OffId = tId := by decide
theorem a64OffImd_eq : Gen.a64OffImd = tImd := by decide
theorem a64Types_eq : Gen.a64ImmTypes = a64ImmTypes := by decide
theorem scaleUnit_eq : Gen.scaleUnit = 1 := by decide
theorem unknown_eq : Gen.unknownClassMatches = true := by decide

theorem isWild_str (c : Txt) : isWild (.str c) = (c == star) := by
  simp [isWild, isStr, wildcard_eq]

theorem stem_eq (n : Txt) : x86Stem n = stem n := rfl

theorem isVector_eq (n : Txt) : RegDep.isVectorRegister n = vectorClasses.contains (stem n) := by
  simp [RegDep.isVectorRegister, vec_eq, stem]

/-- x86 register rule -/
theorem x86RegType_eq (n : Option Txt) (r : PReg) (h : (r.name != star) = true) :
    x86RegType n r = x86RegClass n r.name := by
  have h' : (r.name == star) = false := by simpa using h
  unfold x86RegType x86RegClass
  rw [wildcard_eq, gpr_eq, isVector_eq, stem_eq, h']
  cases n with
  | none => simp
  | some c =>
    by_cases h1 : c = star
    · simp [h1]
    · have h1' : (c == star) = false := by simpa using h1
      by_cases h2 : stem r.name ∈ vectorClasses
      · simp [h1', h2]
      · simp [h1', h2]

def regOkOpt (r : Option PReg) : Bool :=
  match r with
  | some reg => parserReg reg
  | none => true

theorem parserReg_name (r : PReg) (h : parserReg r = true) : (r.name != star) = true := by
  simp only [parserReg, Bool.and_eq_true] at h
  exact h.1.1

/-- x86 base / index rule -/
theorem x86AddrReg_eq (f : Y) (r : Option PReg) (h : regOkOpt r = true) :
    x86AddrReg f r = x86AddrField f r := by
  cases r with
  | none =>
    cases f <;> simp [x86AddrReg, x86AddrField, isWild, isStr, wildcard_eq]
  | some reg =>
    have hn := parserReg_name reg h
    cases f <;> simp [x86AddrReg, x86AddrField, isWild, isStr, wildcard_eq, yName, x86RegType_eq _ reg hn, x86RegClass]
    intro h1; exact Or.inl (Or.inl h1)

theorem x86OffsetOk_eq (f : Y) (o : POff) : x86OffsetOk f o = x86OffsetField f o := by
  cases o <;> cases f <;>
    simp [x86OffsetOk, x86OffsetField, isWild, isStr, wildcard_eq, offImd_eq, offId_eq]

/-- scale rule, for the scale values the entry schema allows -/
theorem scaleOk_eq (f : Y) (s : Int)
    (h : scaleSchema f = true) :
    scaleOk f s = scaleField f s := by
  cases f with
  | null => simp [scaleOk, scaleField, eqInt, isWild, isStr, scaleUnit_eq]
  | str t =>
    have : t = star := by simpa [scaleSchema] using h
    subst this
    simp [scaleOk, scaleField, eqInt, isWild, isStr, wildcard_eq]
  | num q =>
    simp only [scaleOk, scaleField, eqInt, isWild, isStr, scaleUnit_eq, Bool.or_false]
    by_cases h1 : q = (s : Rat)
    · simp [h1]
    · have h1' : (q == (s : Rat)) = false := by simpa using h1
      simp [h1', bne]
  | bool b => simp [scaleSchema] at h
  | list l => simp [scaleSchema] at h
  | map kv => simp [scaleSchema] at h

/-! ### AArch64 -/

theorem startsWith_singleton (x c : Nat) (xs : Txt) : startsWith (x :: xs) [c] = (x == c) := by
  simp [startsWith]

theorem isInfix_singleton (c : Nat) (t : Txt) : isInfix [c] t = t.contains c := by
  induction t with
  | nil => simp [isInfix]
  | cons x xs ih =>
    simp only [isInfix, startsWith_singleton, ih, List.contains_cons]
    rw [Bool.beq_comm]

theorem a64ShapeOk_eq (es : Option Txt) (s : Txt) (h : (!s.contains 42) = true) :
    a64ShapeOk es s = (match es with
                       | some e => e == s || e.contains 42
                       | none => false) := by
  have h' : s.contains 42 = false := by simpa using h
  cases es with
  | none => rfl
  | some e =>
    simp only [a64ShapeOk, wildcard_eq, star, isInfix_singleton]
    have : (s ++ e).contains 42 = e.contains 42 := by
      simp only [List.contains_eq_mem, List.mem_append] at *
      simp [h']
    rw [this, Bool.beq_comm]

theorem a64RegType_eq (p s : Option Txt) (r : PReg) (h : parserReg r = true) :
    a64RegType p s r = (a64Prefix p r.pfx && a64Shape s r) := by
  simp only [parserReg, Bool.and_eq_true] at h
  obtain ⟨⟨_, hp⟩, hs⟩ := h
  have hp' : (r.pfx == some star) = false := by simpa using hp
  unfold a64RegType a64Prefix a64Shape
  rw [wildcard_eq, hp']
  cases hsh : r.shape with
  | some rs =>
    rw [hsh] at hs
    have hs' : (!rs.contains 42) = true := by simpa using hs
    dsimp only
    rw [a64ShapeOk_eq s rs hs']
    by_cases h1 : p = some star
    · simp [h1]
      cases s <;> rfl
    · have h1' : (p == some star) = false := by simpa using h1
      by_cases h2 : r.pfx = p
      · simp [h1', h2]
        cases s <;> rfl
      · have h2' : (r.pfx != p) = true := by simpa using h2
        have h2'' : (p == r.pfx) = false := by
          simp only [beq_eq_false_iff_ne, ne_eq]; exact fun e => h2 e.symm
        simp [h1', h2', h2'']
  | none =>
    rw [hsh] at hs
    have hl : r.lanes = none := by simpa using hs
    by_cases h1 : p = some star
    · simp [h1]
    · have h1' : (p == some star) = false := by simpa using h1
      by_cases h2 : r.pfx = p
      · simp [h1', h2, hl]
      · have h2' : (r.pfx != p) = true := by simpa using h2
        have h2'' : (p == r.pfx) = false := by
          simp only [beq_eq_false_iff_ne, ne_eq]; exact fun e => h2 e.symm
        simp [h1', h2', h2'']

theorem a64BaseOk_eq (f : Y) (r : Option PReg) : a64BaseOk f r = a64BaseField f r := by
  cases r with
  | none => cases f <;> simp [a64BaseOk, a64BaseField, isWild, isStr, wildcard_eq]
  | some reg =>
    cases f <;> simp [a64BaseOk, a64BaseField, isWild, isStr, wildcard_eq, eqOptTxt]
    all_goals (cases reg.pfx <;> simp)
    all_goals (constructor <;> intro e <;> exact e.symm)

theorem a64OffsetOk_eq (f : Y) (o : POff) : a64OffsetOk f o = a64OffsetField f o := by
  cases o <;> cases f <;> simp [a64OffsetOk, a64OffsetField, isWild, isStr, wildcard_eq, a64OffImd_eq]

theorem a64IndexOk_eq (f : Y) (r : Option PReg) : a64IndexOk f r = a64IndexField f r := by
  cases r with
  | none => cases f <;> simp [a64IndexOk, a64IndexField, isWild, isStr, wildcard_eq]
  | some reg =>
    cases f <;> simp [a64IndexOk, a64IndexField, isWild, isStr, wildcard_eq]
    all_goals (cases reg.pfx <;> simp)
    all_goals (congr 1; exact Bool.beq_comm)

theorem a64PreOk_eq (f : Y) (b : Bool)
    (h : triSchema f = true) :
    a64PreOk f b = triField f b := by
  cases f <;> simp [triSchema] at h <;> simp [a64PreOk, triField, isWild, isStr, wildcard_eq, eqBool, h]

theorem a64PostOk_eq (f : Y) (b : Bool)
    (h : triSchema f = true) :
    a64PostOk f b = triField f b := by
  cases f <;> simp [triSchema] at h <;> cases b <;> simp [a64PostOk, triField, isWild, isStr, wildcard_eq, eqBool, truthy, h]

/-! ### the operand test -/

theorem a64Imm_eq (t : Txt) (ot : Option Txt) (hv hi : Bool) :
    (match a64ImmEntry (.str t) (.imm ot hv hi) with
     | some b => b
     | none => checkA64Rest (.imm (.str t)) (.imm ot hv hi)) =
    (hv && (t == star || (a64ImmTypes.contains t && ot == some t))) := by
  unfold a64ImmEntry
  rw [isWild_str, a64Types_eq]
  by_cases h0 : t = star
  · subst h0; simp
  · have h0' : (t == star) = false := by simpa using h0
    simp only [h0', Bool.false_eq_true, ↓reduceIte, Bool.false_or, isStr, a64ImmTypes, List.find?]
    by_cases h1 : t = tInt
    · subst h1; simp [Bool.and_comm]
    · have h1' : (t == tInt) = false := by simpa using h1
      by_cases h2 : t = tFloat
      · subst h2; simp [h1', Bool.and_comm]
      · have h2' : (t == tFloat) = false := by simpa using h2
        by_cases h3 : t = tDouble
        · subst h3; simp [h1', h2', Bool.and_comm]
        · have h3' : (t == tDouble) = false := by simpa using h3
          cases hi <;> simp [h1', h2', h3', h1, h2, h3, checkA64Rest]

/-- an entry that declares an immediate never matches an operand that is not one -/
theorem a64Imm_false (t : Txt) (o : POperand) (ho : o = .ident ∨ (∃ c, o = .cond c) ∨ o = .prfop ∨ o = .other) :
    (match a64ImmEntry (.str t) o with
     | some b => b
     | none => checkA64Rest (.imm (.str t)) o) = false := by
  have hrest : checkA64Rest (.imm (.str t)) o = false := by
    rcases ho with h | ⟨c, h⟩ | h | h <;> subst h <;> simp [checkA64Rest]
  unfold a64ImmEntry
  rw [isWild_str, a64Types_eq]
  by_cases h0 : t = star
  · subst h0
    rcases ho with h | ⟨c, h⟩ | h | h <;> subst h <;> simp
  · have h0' : (t == star) = false := by simpa using h0
    simp only [h0', Bool.false_eq_true, ↓reduceIte, isStr, a64ImmTypes, List.find?]
    by_cases h1 : t = tInt
    · subst h1
      rcases ho with h | ⟨c, h⟩ | h | h <;> subst h <;> simp
    · have h1' : (t == tInt) = false := by simpa using h1
      by_cases h2 : t = tFloat
      · subst h2
        rcases ho with h | ⟨c, h⟩ | h | h <;> subst h <;> simp [h1']
      · have h2' : (t == tFloat) = false := by simpa using h2
        by_cases h3 : t = tDouble
        · subst h3
          rcases ho with h | ⟨c, h⟩ | h | h <;> subst h <;> simp [h1', h2']
        · have h3' : (t == tDouble) = false := by simpa using h3
          simp [h1', h2', h3', hrest]

theorem check_eq_kind (isa : Isa) (e : EOperand) (o : POperand)
    (ho : parserOperand o = true) (he : schemaOperand e = true) :
    checkOperand isa e o = kindAgreeB isa e o := by
  cases o with
  | wild => cases e <;> cases isa <;> rfl
  | reg r =>
    have hr : parserReg r = true := by simpa [parserOperand] using ho
    cases isa with
    | x86 =>
      cases e <;> simp [checkOperand, checkX86, kindAgreeB, x86Unknown, x86RegType_eq _ r (parserReg_name r hr)]
    | a64 =>
      cases e <;> simp [checkOperand, checkA64, kindAgreeB, a64RegType_eq _ _ r hr]
  | mem m =>
    simp only [parserOperand, Bool.and_eq_true] at ho
    have hb : regOkOpt m.base = true := by
      have h1 := ho.1
      cases hm : m.base with
      | none => rfl
      | some r => rw [hm] at h1; exact h1
    have hi : regOkOpt m.index = true := by
      have h2 := ho.2
      cases hm : m.index with
      | none => rfl
      | some r => rw [hm] at h2; exact h2
    cases isa with
    | x86 =>
      cases e with
      | mem b off i s pre post =>
        simp only [schemaOperand, Bool.and_eq_true] at he
        simp only [checkOperand, checkX86, kindAgreeB, x86Unknown, Bool.false_or, x86MemType, x86MemShape,
          x86BaseOk, x86IndexOk, x86AddrReg_eq b m.base hb, x86AddrReg_eq i m.index hi, x86OffsetOk_eq,
          scaleOk_eq s m.scale he.1.1.2]
      | _ => simp [checkOperand, checkX86, kindAgreeB, x86Unknown]
    | a64 =>
      cases e with
      | mem b off i s pre post =>
        simp only [schemaOperand, Bool.and_eq_true] at he
        simp only [checkOperand, checkA64, kindAgreeB, a64MemType, a64MemShape, a64BaseOk_eq, a64OffsetOk_eq,
          a64IndexOk_eq, scaleOk_eq s m.scale he.1.1.2, a64PreOk_eq pre m.pre he.1.2, a64PostOk_eq post m.post he.2]
      | _ => simp [checkOperand, checkA64, kindAgreeB, checkA64Rest, a64ImmEntry]
  | imm ot hv hi =>
    cases isa with
    | x86 =>
      cases e with
      | imm t => cases t <;> simp [checkOperand, checkX86, kindAgreeB, x86Unknown, isStr, immType_eq]
      | _ => simp [checkOperand, checkX86, kindAgreeB, x86Unknown]
    | a64 =>
      cases e with
      | imm t =>
        cases t with
        | str ty =>
          simp only [checkOperand, checkA64, kindAgreeB]
          exact a64Imm_eq ty ot hv hi
        | _ => simp [schemaOperand] at he
      | _ => cases hi <;> simp [checkOperand, checkA64, kindAgreeB, checkA64Rest]
  | ident =>
    cases isa with
    | x86 => cases e <;> simp [checkOperand, checkX86, kindAgreeB, x86Unknown]
    | a64 =>
      cases e with
      | imm t =>
        cases t with
        | str ty =>
          simp only [checkOperand, checkA64, kindAgreeB]
          exact a64Imm_false ty .ident (Or.inl rfl)
        | _ => simp [schemaOperand] at he
      | _ => simp [checkOperand, checkA64, kindAgreeB, checkA64Rest]
  | cond cc =>
    cases isa with
    | x86 => cases e <;> simp [checkOperand, checkX86, kindAgreeB, x86Unknown, unknown_eq]
    | a64 =>
      cases e with
      | imm t =>
        cases t with
        | str ty =>
          simp only [checkOperand, checkA64, kindAgreeB]
          exact a64Imm_false ty (.cond cc) (Or.inr (Or.inl ⟨cc, rfl⟩))
        | _ => simp [schemaOperand] at he
      | _ => simp [checkOperand, checkA64, kindAgreeB, checkA64Rest, wildcard_eq]
  | prfop =>
    cases isa with
    | x86 => cases e <;> simp [checkOperand, checkX86, kindAgreeB, x86Unknown, unknown_eq]
    | a64 =>
      cases e with
      | imm t =>
        cases t with
        | str ty =>
          simp only [checkOperand, checkA64, kindAgreeB]
          exact a64Imm_false ty .prfop (Or.inr (Or.inr (Or.inl rfl)))
        | _ => simp [schemaOperand] at he
      | _ => simp [checkOperand, checkA64, kindAgreeB, checkA64Rest]
  | other =>
    cases isa with
    | x86 => cases e <;> simp [checkOperand, checkX86, kindAgreeB, x86Unknown, unknown_eq]
    | a64 =>
      cases e with
      | imm t =>
        cases t with
        | str ty =>
          simp only [checkOperand, checkA64, kindAgreeB]
          exact a64Imm_false ty .other (Or.inr (Or.inr (Or.inr rfl)))
        | _ => simp [schemaOperand] at he
      | _ => simp [checkOperand, checkA64, kindAgreeB, checkA64Rest]

/-! ### the function is the relation -/

theorem kindAgree_of_b (isa : Isa) (e : EOperand) (o : POperand) (h : kindAgreeB isa e o = true) :
    KindAgree isa e o := by
  cases o with
  | wild =>
    cases e with
    | reg n p s => exact .wildReg isa n p s
    | _ => simp [kindAgreeB] at h
  | reg r =>
    cases isa with
    | x86 =>
      cases e with
      | reg n p s => exact .x86Reg n p s r (by simpa [kindAgreeB, x86Unknown] using h)
      | _ => simp [kindAgreeB, x86Unknown] at h
    | a64 =>
      cases e with
      | reg n p s =>
        have h' : a64Prefix p r.pfx = true ∧ a64Shape s r = true := by simpa [kindAgreeB] using h
        exact .a64Reg n p s r h'.1 h'.2
      | _ => simp [kindAgreeB] at h
  | mem m =>
    cases isa with
    | x86 =>
      cases e with
      | mem b off i s pre post => exact .x86Mem b off i s pre post m (by simpa [kindAgreeB, x86Unknown] using h)
      | _ => simp [kindAgreeB, x86Unknown] at h
    | a64 =>
      cases e with
      | mem b off i s pre post => exact .a64Mem b off i s pre post m (by simpa [kindAgreeB] using h)
      | _ => simp [kindAgreeB] at h
  | imm ot hv hi =>
    cases isa with
    | x86 =>
      cases e with
      | imm t =>
        cases t with
        | str ty =>
          have : ty = tInt := by simpa [kindAgreeB, x86Unknown] using h
          subst this
          exact .x86Imm ot hv hi
        | _ => simp [kindAgreeB, x86Unknown] at h
      | _ => simp [kindAgreeB, x86Unknown] at h
    | a64 =>
      cases e with
      | imm t =>
        cases t with
        | str ty =>
          have h' : hv = true ∧ (ty = star ∨ (ty ∈ a64ImmTypes ∧ ot = some ty)) := by
            simpa [kindAgreeB] using h
          obtain ⟨h1, h2⟩ := h'
          subst h1
          rcases h2 with h2 | ⟨h2, h3⟩
          · subst h2; exact .a64ImmAny ot hi
          · subst h3; exact .a64ImmTyped ty hi h2
        | _ => simp [kindAgreeB] at h
      | ident =>
        have : hi = true := by simpa [kindAgreeB] using h
        subst this
        exact .a64IdentImm ot hv
      | _ => simp [kindAgreeB] at h
  | ident =>
    cases isa with
    | x86 =>
      cases e with
      | ident => exact .x86Ident
      | _ => simp [kindAgreeB, x86Unknown] at h
    | a64 =>
      cases e with
      | ident => exact .a64Ident
      | _ => simp [kindAgreeB] at h
  | cond cc =>
    cases isa with
    | x86 => exact .x86UnknownClass e _ rfl
    | a64 =>
      cases e with
      | cond c => exact .a64Cond c cc (by simpa [kindAgreeB] using h)
      | _ => simp [kindAgreeB] at h
  | prfop =>
    cases isa with
    | x86 => exact .x86UnknownClass e _ rfl
    | a64 =>
      cases e with
      | prfop => exact .a64Prfop
      | _ => simp [kindAgreeB] at h
  | other =>
    cases isa with
    | x86 => exact .x86UnknownClass e _ rfl
    | a64 => cases e <;> simp [kindAgreeB] at h

theorem b_of_kindAgree (isa : Isa) (e : EOperand) (o : POperand) (h : KindAgree isa e o) :
    kindAgreeB isa e o = true := by
  cases h with
  | wildReg => simp [kindAgreeB]
  | x86Reg n p s r h => simpa [kindAgreeB, x86Unknown] using h
  | x86Mem b off i s pre post m h => simpa [kindAgreeB, x86Unknown] using h
  | x86Imm => simp [kindAgreeB, x86Unknown]
  | x86Ident => simp [kindAgreeB, x86Unknown]
  | x86UnknownClass e o h =>
    cases o <;> simp [x86Unknown] at h <;> simp [kindAgreeB, x86Unknown]
  | a64Reg n p s r h1 h2 => simp [kindAgreeB, h1, h2]
  | a64Mem b off i s pre post m h => simpa [kindAgreeB] using h
  | a64ImmAny => simp [kindAgreeB]
  | a64ImmTyped t hi h => simp [kindAgreeB, h]
  | a64Ident => simp [kindAgreeB]
  | a64IdentImm => simp [kindAgreeB]
  | a64Cond c c' h => simpa [kindAgreeB] using h
  | a64Prfop => simp [kindAgreeB]

theorem kindAgreeB_iff (isa : Isa) (e : EOperand) (o : POperand) :
    kindAgreeB isa e o = true ↔ KindAgree isa e o :=
  ⟨kindAgree_of_b isa e o, b_of_kindAgree isa e o⟩

/-- lists: the conjunction over positions is `OperandsAgree` -/
theorem kindAgreeAll_iff (isa : Isa) (es : List EOperand) (os : List POperand) :
    kindAgreeAll isa es os = true ↔ OperandsAgree isa es os := by
  induction es generalizing os with
  | nil =>
    cases os with
    | nil => exact ⟨fun _ => .nil, fun _ => rfl⟩
    | cons o os => exact ⟨fun h => by simp [kindAgreeAll] at h, fun h => by cases h⟩
  | cons e es ih =>
    cases os with
    | nil => exact ⟨fun h => by simp [kindAgreeAll] at h, fun h => by cases h⟩
    | cons o os =>
      simp only [kindAgreeAll, Bool.and_eq_true]
      constructor
      · intro ⟨h1, h2⟩
        exact .cons ((kindAgreeB_iff isa e o).mp h1) ((ih os).mp h2)
      · intro h
        cases h with
        | cons h1 h2 => exact ⟨(kindAgreeB_iff isa e o).mpr h1, (ih os).mpr h2⟩

theorem operandsAgree_length {isa : Isa} {es : List EOperand} {os : List POperand}
    (h : OperandsAgree isa es os) : es.length = os.length := by
  induction h with
  | nil => rfl
  | cons _ _ ih => simp [ih]

/-- the matcher on operand lists = the oracle on operand lists (parser domain, entry schema) -/
theorem matchOperands_eq (isa : Isa) (es : List EOperand) (os : List POperand)
    (ho : os.all parserOperand = true) (he : es.all schemaOperand = true) :
    matchOperands isa es os = kindAgreeAll isa es os := by
  induction es generalizing os with
  | nil => cases os <;> rfl
  | cons e es ih =>
    cases os with
    | nil => rfl
    | cons o os =>
      simp only [List.all_cons, Bool.and_eq_true] at ho he
      simp only [matchOperands, kindAgreeAll, check_eq_kind isa e o ho.1 he.1, ih os ho.2 he.2]

end OsacaVerif.Lemmas.KindAgree
