import OsacaVerif.Lemmas.PipelineRen
import OsacaVerif.Lemmas.PipelineLcd
import OsacaVerif.Lemmas.PipelinePost
import OsacaVerif.Lemmas.PipelineCp
import OsacaVerif.Lemmas.PipelineNoise
import OsacaVerif.Lemmas.PipelineCpNoise
import OsacaVerif.Props.C01
import OsacaVerif.Props.C11
/-
  Helper development for the pipeline theorems, part 7: the stage lemmas assembled at the level of
  parsed lines (`PLine`) and of the whole analysis record.
-/
namespace OsacaVerif.Pipeline
open OsacaVerif OsacaVerif.DG OsacaVerif.LCD

/-- strictly increasing line numbers (what `parse_file` produces: `Props.C11.numbers_increasing`) -/
def Increasing (k : List PLine) : Prop := (k.map (·.num)).Pairwise (· < ·)

instance (k : List PLine) : Decidable (Increasing k) := by unfold Increasing; infer_instance

theorem wf_toIns (np : Nat) (k : List PLine) (h : Increasing k) : WFKernel (k.map (toIns np)) := by
  unfold WFKernel Increasing at *
  rw [List.map_map]
  exact h

theorem Increasing.sublist {k k' : List PLine} (h : Increasing k) (hs : k'.Sublist k) : Increasing k' := by
  unfold Increasing at *
  exact h.sublist (hs.map _)

theorem Increasing.num_inj {k : List PLine} (h : Increasing k) {a b : PLine} (ha : a ∈ k) (hb : b ∈ k)
    (e : a.num = b.num) : a = b := by
  unfold Increasing at h
  induction k with
  | nil => cases ha
  | cons x xs ih =>
    simp only [List.map_cons, List.pairwise_cons] at h
    rcases List.mem_cons.mp ha with rfl | ha' <;> rcases List.mem_cons.mp hb with rfl | hb'
    · rfl
    · have := h.1 _ (List.mem_map.mpr ⟨b, hb', rfl⟩); omega
    · have := h.1 _ (List.mem_map.mpr ⟨a, ha', rfl⟩); omega
    · exact ih h.2 ha' hb'

/-! ### renaming -/

/-- **the analysis commutes with an order-preserving renaming of the line numbers** -/
theorem analyzeCore_ren {f : Nat → Nat} (hf : Incr f) (c : Cfg) (ins : List Ins) (rows : List Row)
    (ports : List Ports.Line) :
    analyzeCore c (ins.map (renIns f)) (rows.map (renRow f)) ports = (analyzeCore c ins rows ports).rename f := by
  unfold analyzeCore Analysis.rename
  simp only [create_ren hf, cpTotal_ren hf, cpMarks_ren hf, lcd_ren hf, List.map_map]
  have hent : (entryOf ∘ renEntry f) = (renE f ∘ entryOf) := by funext e; exact entryOf_ren f e
  rw [hent, ← List.map_map, postE_ren hf, firstMaxDep_ren]
  cases firstMaxDep (LcdPost.postE ((lcd c.isa c.flagDeps c.par c.floor ins).map entryOf)) with
  | none => simp
  | some d => simp [renDict]

theorem analyze_ren {f : Nat → Nat} (hf : Incr f) (c : Cfg) (k : List PLine) :
    analyze c (k.map (renLine f)) = (analyze c k).rename f := by
  unfold analyze
  rw [← analyzeCore_ren hf]
  simp only [List.map_map]
  congr 1

/-! ### selection: the wrappers are the C11 models -/

theorem sliceOf_map {α β : Type} (g : α → β) (xs : List α) (se : Option Nat × Option Nat) :
    (sliceOf xs se).map g = sliceOf (xs.map g) se := by
  simp [sliceOf, List.map_drop, List.map_take]

theorem selectWith_spec (c : Marker.Cfg) (file : List PLine) :
    (selectWith c file).map (fun k => k.map (·.sel)) = Marker.reduceWith c (file.map (·.sel)) := by
  unfold selectWith Marker.reduceWith
  cases Marker.findMarkedSection c (file.map (·.sel)) with
  | none => rfl
  | some se => simp only [Option.map_some]; rw [sliceOf_map]; rfl

theorem selectRange_spec (r : List Int) (file : List PLine) :
    (selectRange r file).map (·.sel) = Marker.selectLines r (file.map (·.sel)) := by
  unfold selectRange Marker.selectLines
  rw [List.filter_map]
  rfl

/-- if the C11 model selects `body.map sel` out of `(pro ++ body ++ epi).map sel` by position, the
    wrapper selects `body` -/
theorem selectWith_of_reduce (c : Marker.Cfg) (pro body epi : List PLine)
    (h : Marker.findMarkedSection c ((pro ++ (body ++ epi)).map (·.sel)) =
      some (some pro.length, some (pro.length + body.length))) :
    selectWith c (pro ++ (body ++ epi)) = some body := by
  unfold selectWith
  rw [h]
  simp only [Option.map_some, sliceOf, Option.getD_some]
  rw [← List.append_assoc, List.take_left' (by simp), List.drop_left' rfl]

/-! ### operand-free lines at the level of parsed lines -/

theorem toIns_noise (np : Nat) (l : PLine) (h : l.isInstr = false) : IsNoise (toIns np l) := by
  unfold toIns semOf
  simp only [h, Bool.false_eq_true, if_false, noiseSem]
  exact ⟨rfl, rfl, rfl, rfl, rfl, rfl, rfl⟩

theorem isInstr_of_keepB (np : Nat) (l : PLine) (h : keepB (toIns np l) = true) : l.isInstr = true := by
  by_contra hn
  have hn' : l.isInstr = false := by simpa using hn
  have := (noiseB_iff _).mpr (toIns_noise np l hn')
  simp [keepB, this] at h

/-- the instruction forms that carry something are the same with and without the non-instruction lines -/
theorem filter_keepB_instr (np : Nat) (k : List PLine) :
    (k.map (toIns np)).filter keepB = ((k.filter (·.isInstr)).map (toIns np)).filter keepB := by
  rw [List.filter_map, List.filter_map, List.filter_filter]
  congr 1
  apply List.filter_congr
  intro l _
  simp only [Function.comp_apply]
  by_cases h : keepB (toIns np l) = true
  · simp [h, isInstr_of_keepB np l h]
  · simp [h]

theorem create_instr (c : Cfg) (k : List PLine) :
    create c.isa c.flagDeps c.par (k.map (toIns c.nports)) =
      create c.isa c.flagDeps c.par ((k.filter (·.isInstr)).map (toIns c.nports)) := by
  rw [create_drop, filter_keepB_instr, ← create_drop]

theorem lcd_instr (c : Cfg) (k : List PLine) (hk : Increasing k) :
    lcd c.isa c.flagDeps c.par c.floor (k.map (toIns c.nports)) =
      lcd c.isa c.flagDeps c.par c.floor ((k.filter (·.isInstr)).map (toIns c.nports)) := by
  rw [lcd_drop _ _ _ _ _ (wf_toIns _ k hk), filter_keepB_instr,
    ← lcd_drop _ _ _ _ _ (wf_toIns _ _ (hk.sublist List.filter_sublist))]

/-- the line-based predicate that keeps exactly the instruction lines of an increasing kernel -/
def keepInstr (k : List PLine) (i : Ins) : Bool := decide (i.line ∈ (k.filter (·.isInstr)).map (·.num))

theorem keepInstr_iff (np : Nat) (k : List PLine) (hk : Increasing k) (l : PLine) (hl : l ∈ k) :
    keepInstr k (toIns np l) = l.isInstr := by
  unfold keepInstr
  rw [Bool.eq_iff_iff, decide_eq_true_iff]
  constructor
  · intro h
    obtain ⟨l', hl', e⟩ := List.mem_map.mp h
    have : l' = l := hk.num_inj (List.mem_filter.mp hl').1 hl e
    rw [← this]; exact (List.mem_filter.mp hl').2
  · intro h
    exact List.mem_map.mpr ⟨l, List.mem_filter.mpr ⟨hl, h⟩, rfl⟩

theorem filter_keepInstr (np : Nat) (k : List PLine) (hk : Increasing k) :
    (k.map (toIns np)).filter (keepInstr k) = (k.filter (·.isInstr)).map (toIns np) := by
  rw [List.filter_map]
  congr 1
  apply List.filter_congr
  intro l hl
  exact keepInstr_iff np k hk l hl

theorem keepInstr_noise (np : Nat) (k : List PLine) (hk : Increasing k) :
    ∀ i ∈ k.map (toIns np), ¬ keepInstr k i = true → IsNoise i := by
  intro i hi hn
  obtain ⟨l, hl, rfl⟩ := List.mem_map.mp hi
  rw [keepInstr_iff np k hk l hl] at hn
  exact toIns_noise np l (by simpa using hn)

/-- **critical-path total**: non-instruction lines do not change it, if it is non-negative -/
theorem cpTotal_instr (c : Cfg) (k : List PLine) (hk : Increasing k)
    (hnn : 0 ≤ (analyze c (k.filter (·.isInstr))).cpTotal) :
    (analyze c k).cpTotal = (analyze c (k.filter (·.isInstr))).cpTotal := by
  show cpTotal (k.map (toIns c.nports)) (create _ _ _ (k.map (toIns c.nports))) =
    cpTotal ((k.filter (·.isInstr)).map (toIns c.nports)) (create _ _ _ ((k.filter (·.isInstr)).map (toIns c.nports)))
  have hnn' : 0 ≤ cpTotal ((k.filter (·.isInstr)).map (toIns c.nports))
      (create c.isa c.flagDeps c.par ((k.filter (·.isInstr)).map (toIns c.nports))) := hnn
  rw [← create_instr c k] at hnn' ⊢
  rw [← filter_keepInstr c.nports k hk] at hnn' ⊢
  exact cpTotal_drop (keepInstr k) _ _ (wf_toIns _ k hk)
    (create_avoids _ _ _ _ _ (wf_toIns _ k hk) (keepInstr_noise _ k hk))
    (fun i hi hn => (keepInstr_noise _ k hk i hi hn).lat) hnn'

/-- **critical-path marks**: non-instruction lines do not change them, if the total is positive -/
theorem cpMarks_instr (c : Cfg) (k : List PLine) (hk : Increasing k)
    (hpos : 0 < (analyze c (k.filter (·.isInstr))).cpTotal) :
    (analyze c k).cpMarks = (analyze c (k.filter (·.isInstr))).cpMarks := by
  show cpMarks (k.map (toIns c.nports)) (create _ _ _ (k.map (toIns c.nports))) =
    cpMarks ((k.filter (·.isInstr)).map (toIns c.nports)) (create _ _ _ ((k.filter (·.isInstr)).map (toIns c.nports)))
  have hpos' : 0 < cpTotal ((k.filter (·.isInstr)).map (toIns c.nports))
      (create c.isa c.flagDeps c.par ((k.filter (·.isInstr)).map (toIns c.nports))) := hpos
  rw [← create_instr c k] at hpos' ⊢
  rw [← filter_keepInstr c.nports k hk] at hpos' ⊢
  exact cpMarks_drop (keepInstr k) _ _ (wf_toIns _ k hk)
    (create_avoids _ _ _ _ _ (wf_toIns _ k hk) (keepInstr_noise _ k hk))
    (fun i hi hn => (keepInstr_noise _ k hk i hi hn).lat) hpos'

theorem rows_instr (np : Nat) (k : List PLine) :
    (k.map (rowOf np)).filter (·.instr) = (k.filter (·.isInstr)).map (rowOf np) := by
  rw [List.filter_map]
  rfl

theorem row_noise (np : Nat) (l : PLine) (h : l.isInstr = false) :
    rowOf np l = { line := l.num, instr := false, lat := 0, latWoLoad := some 0, tp := 0, pressure := Ports.zeros np } := by
  simp [rowOf, semOf, h, noiseSem]

/-- **column sums**: lines with throughput 0 are skipped by `get_throughput_sum`, and a
    non-instruction line has throughput 0 (the skip value is regenerated from the source) -/
theorem colSums_instr (np : Nat) (k : List PLine) :
    Ports.colSums Gen.tpSumSkipValue Gen.tpSumDigits (k.map (toPorts np)) =
      Ports.colSums Gen.tpSumSkipValue Gen.tpSumDigits ((k.filter (·.isInstr)).map (toPorts np)) := by
  rw [Props.C01.colSums_ignores_skipped, Props.C01.colSums_ignores_skipped _ _ ((k.filter (·.isInstr)).map (toPorts np))]
  congr 1
  rw [List.filter_map, List.filter_map, List.filter_filter]
  congr 1
  apply List.filter_congr
  intro l _
  simp only [Function.comp_apply]
  by_cases h : l.isInstr = true
  · simp [h]
  · have h' : l.isInstr = false := by simpa using h
    have : (toPorts np l).tp = Gen.tpSumSkipValue := by
      simp [toPorts, semOf, h', noiseSem, show Gen.tpSumSkipValue = 0 from rfl]
    simp [h', this]

end OsacaVerif.Pipeline
