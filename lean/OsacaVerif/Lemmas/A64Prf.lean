import OsacaVerif.Lemmas.A64Pred
/-
  Prefetch operations `pldl1keep`, `PSTL3STRM`, … in the first operand slot.
-/
namespace OsacaVerif.ParseA64
open OsacaVerif.Text OsacaVerif.Spec.A64 OsacaVerif.Gen

def prfT : List Txt := A64.prfTypes.map lower
def prfG : List Txt := A64.prfTargets.map lower
def prfP : List Txt := A64.prfPolicies.map lower

theorem prfT_len : ∀ l ∈ prfT, l.length = 3 ∧ headAlpha l = true := by decide
theorem prfG_len : ∀ l ∈ prfG, l.length = 2 ∧ headAlpha l = true := by decide
theorem prfP_len : ∀ l ∈ prfP, l.length = 4 ∧ headAlpha l = true := by decide

theorem lit_word (ls : List Txt) (n : Nat) (w : Txt) (hm : lower w ∈ ls)
    (hl : ∀ l ∈ ls, l.length = n ∧ headAlpha l = true) :
    w.length = n ∧ ∃ c w', w = c :: w' ∧ isAlphaC c = true := by
  obtain ⟨h1, h2⟩ := hl _ hm
  refine ⟨by simpa [lower] using h1, ?_⟩
  cases w with
  | nil => simp [lower, headAlpha] at h2
  | cons c w' => exact ⟨c, w', rfl, alpha_of_lowerC_alpha c (by simpa [lower, headAlpha] using h2)⟩

/-- **prefetch operation** as the first operand (∀ of the 2·3·2 operations, in any case) -/
theorem goodFirst_prf (t g p : Txt) (ht : lower t ∈ prfT) (hg : lower g ∈ prfG) (hp : lower p ∈ prfP) :
    GoodFirst false (t ++ g ++ p) (.prf (upper (lower t)) (upper (lower g)) (upper (lower p))) := by
  obtain ⟨ht3, ct, wt, htc, hta⟩ := lit_word prfT 3 t ht prfT_len
  obtain ⟨hg2, cg, wg, hgc, hga⟩ := lit_word prfG 2 g hg prfG_len
  obtain ⟨hp4, cp, wp, hpc, hpa⟩ := lit_word prfP 4 p hp prfP_len
  refine ⟨?_, ?_⟩
  · intro gap rest hgap hf
    have hf' : Follow rest := hf
    have h1 := clitOr_match prfT gap t (g ++ (p ++ rest)) _ ct wt htc (alpha_not_ws ct hta) hgap rfl ht
      (fun l' hl' => by rw [(prfT_len l' hl').1, ht3])
    have h2 := clitOr_match prfG [] g (p ++ rest) _ cg wg hgc (alpha_not_ws cg hga) blank_nil rfl hg
      (fun l' hl' => by rw [(prfG_len l' hl').1, hg2])
    have h3 := clitOr_match prfP [] p rest _ cp wp hpc (alpha_not_ws cp hpa) blank_nil rfl hp
      (fun l' hl' => by rw [(prfP_len l' hl').1, hp4])
    simp only [List.nil_append] at h2 h3
    have hprf : prefetchP (gap ++ (t ++ (g ++ (p ++ rest)))) =
        some ((upper (lower t), upper (lower g), upper (lower p)), rest) := by
      simp only [prefetchP]
      show (match clitOr true prfT _ with | some (t, r) => _ | none => none) = _
      rw [h1]
      show (match clitOr true prfG _ with | some (g, r1) => _ | none => none) = _
      rw [h2]
      show (match clitOr true prfP _ with | some (p, r2) => _ | none => none) = _
      rw [h3]
    refine ⟨rest, ?_, rfl⟩
    have htext : gap ++ (t ++ g ++ p ++ rest) = gap ++ (t ++ (g ++ (p ++ rest))) := by simp [List.append_assoc]
    rw [htext]
    simp only [operandFirst, hprf, mapR_some, wordEnd_follow _ rest hf', orElseR_some_left]
  · have h43 : ct ≠ 43 := by simp only [isAlphaC] at hta; simp at hta; omega
    have h58 : ct ≠ 58 := by simp only [isAlphaC] at hta; simp at hta; omega
    exact ⟨ct, wt ++ g ++ p, by simp [htc], alpha_not_ws ct hta, h43, fun e => absurd e h58⟩

theorem covered_prf (last : Bool) (t g p : Txt) (ht : lower t ∈ prfT) (hg : lower g ∈ prfG) (hp : lower p ∈ prfP) :
    CoveredOp last true (.prf t g p) := by
  refine ⟨t ++ g ++ p, [], .prf (upper (lower t)) (upper (lower g)) (upper (lower p)), rfl, ?_, ?_⟩
  · intro gs hgs
    have : gs = [] := hgs
    subst this
    have := goodFirst_prf t g p ht hg hp
    cases last with
    | true => simpa [joinInner] using this.weaken
    | false => simpa [joinInner] using this
  · simp [processOperand, expectOp]

end OsacaVerif.ParseA64
