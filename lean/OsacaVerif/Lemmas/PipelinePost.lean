import OsacaVerif.Lemmas.PipelineRen
import OsacaVerif.Lemmas.LcdPost
/-
  Helper development for the pipeline theorems, part 3: the dictionary of loop-carried
  dependencies (`LcdPost.postE`: de-duplicate, sort descending, insertion-ordered dict) and the
  choice of the reported entry commute with an order-preserving renaming.
-/
namespace OsacaVerif.Pipeline
open OsacaVerif OsacaVerif.LcdPost

def renKey (f : Nat → Nat) (k : Key) : Key := k.map (renPair f)
def renE (f : Nat → Nat) (e : LcdPost.Entry) : LcdPost.Entry := (e.1, renKey f e.2)

theorem renKey_inj {f : Nat → Nat} (hf : Incr f) {a b : Key} (e : renKey f a = renKey f b) : a = b := by
  induction a generalizing b with
  | nil => cases b with
    | nil => rfl
    | cons y ys => simp [renKey] at e
  | cons x xs ih =>
    cases b with
    | nil => simp [renKey] at e
    | cons y ys =>
      simp only [renKey, List.map_cons, List.cons.injEq] at e
      rw [renPair_inj hf e.1, ih e.2]

theorem map_incr_inj {f : Nat → Nat} (hf : Incr f) {a b : List Nat} (e : a.map f = b.map f) : a = b := by
  induction a generalizing b with
  | nil => cases b with
    | nil => rfl
    | cons y ys => simp at e
  | cons x xs ih =>
    cases b with
    | nil => simp at e
    | cons y ys =>
      simp only [List.map_cons, List.cons.injEq] at e
      rw [hf.inj e.1, ih e.2]

theorem lePair_ren {f : Nat → Nat} (hf : Incr f) (a b : Nat × Rat) :
    lePair (renPair f a) (renPair f b) = lePair a b := by
  show (decide (f a.1 < f b.1) || (f a.1 == f b.1 && decide (a.2 ≤ b.2))) = _
  rw [hf.beq]
  unfold lePair
  congr 1
  exact decide_eq_decide.mpr hf.lt_iff

theorem leKey_ren {f : Nat → Nat} (hf : Incr f) (a b : Key) : leKey (renKey f a) (renKey f b) = leKey a b := by
  induction a generalizing b with
  | nil => cases b <;> rfl
  | cons x xs ih =>
    cases b with
    | nil => rfl
    | cons y ys =>
      simp only [renKey, List.map_cons, leKey]
      by_cases hxy : x = y
      · subst hxy; simp only [if_true]; exact ih ys
      · have : renPair f x ≠ renPair f y := fun e => hxy (renPair_inj hf e)
        rw [if_neg hxy, if_neg this, lePair_ren hf]

theorem leEntry_ren {f : Nat → Nat} (hf : Incr f) (a b : LcdPost.Entry) :
    leEntry (renE f a) (renE f b) = leEntry a b := by
  unfold leEntry renE
  simp only [leKey_ren hf]

theorem mem_renKey {f : Nat → Nat} (hf : Incr f) (k : Key) (seen : List Key) :
    renKey f k ∈ seen.map (renKey f) ↔ k ∈ seen := by
  constructor
  · intro h
    obtain ⟨k', hk', e⟩ := List.mem_map.mp h
    rw [← renKey_inj hf e]; exact hk'
  · intro h; exact List.mem_map.mpr ⟨k, h, rfl⟩

theorem dedup_ren {f : Nat → Nat} (hf : Incr f) (seen : List Key) (es : List LcdPost.Entry) :
    dedup (seen.map (renKey f)) (es.map (renE f)) = (dedup seen es).map (renE f) := by
  induction es generalizing seen with
  | nil => rfl
  | cons e es ih =>
    simp only [List.map_cons, dedup]
    have : (renE f e).2 = renKey f e.2 := rfl
    rw [this]
    by_cases h : e.2 ∈ seen
    · rw [if_pos h, if_pos ((mem_renKey hf e.2 seen).mpr h)]; exact ih seen
    · rw [if_neg h, if_neg (fun h' => h ((mem_renKey hf e.2 seen).mp h'))]
      have := ih (e.2 :: seen)
      simp only [List.map_cons] at this
      rw [List.map_cons, this]

theorem insertBy_map {α : Type} (le : α → α → Bool) (g : α → α) (hg : ∀ a b, le (g a) (g b) = le a b)
    (x : α) (l : List α) : insertBy le (g x) (l.map g) = (insertBy le x l).map g := by
  induction l with
  | nil => rfl
  | cons y ys ih =>
    simp only [List.map_cons, insertBy, hg]
    split
    · rfl
    · rw [List.map_cons, ih]

theorem isort_map {α : Type} (le : α → α → Bool) (g : α → α) (hg : ∀ a b, le (g a) (g b) = le a b)
    (l : List α) : isort le (l.map g) = (isort le l).map g := by
  induction l with
  | nil => rfl
  | cons x xs ih =>
    simp only [List.map_cons, isort, List.foldr_cons] at *
    rw [ih, insertBy_map le g hg]

theorem sortDesc_ren {f : Nat → Nat} (hf : Incr f) (es : List LcdPost.Entry) :
    sortDesc (es.map (renE f)) = (sortDesc es).map (renE f) :=
  isort_map _ (renE f) (fun a b => leEntry_ren hf b a) es

theorem dictKey_ren (f : Nat → Nat) (k : Key) : dictKey (renKey f k) = (dictKey k).map f := by
  simp [dictKey, renKey, renPair, List.map_map, Function.comp_def]

theorem renDict_eq (f : Nat → Nat) (d : List Nat × LcdPost.Entry) : renDict f d = (d.1.map f, renE f d.2) := rfl

theorem dictSet_ren {f : Nat → Nat} (hf : Incr f) (d : List (List Nat × LcdPost.Entry)) (k : List Nat)
    (v : LcdPost.Entry) :
    dictSet (d.map (renDict f)) (k.map f) (renE f v) = (dictSet d k v).map (renDict f) := by
  induction d with
  | nil => rfl
  | cons kv r ih =>
    simp only [List.map_cons, dictSet]
    have h1 : (renDict f kv).1 = kv.1.map f := rfl
    rw [h1]
    by_cases h : kv.1 = k
    · rw [if_pos h, if_pos (by rw [h])]; rfl
    · rw [if_neg h, if_neg (fun e => h (map_incr_inj hf e)), List.map_cons, ih]

theorem mkDict_ren {f : Nat → Nat} (hf : Incr f) (es : List LcdPost.Entry) :
    mkDict (es.map (renE f)) = (mkDict es).map (renDict f) := by
  unfold mkDict
  suffices h : ∀ d : List (List Nat × LcdPost.Entry),
      (es.map (renE f)).foldl (fun d e => dictSet d (dictKey e.2) e) (d.map (renDict f)) =
        (es.foldl (fun d e => dictSet d (dictKey e.2) e) d).map (renDict f) by simpa using h []
  induction es with
  | nil => intro d; rfl
  | cons e es ih =>
    intro d
    simp only [List.map_cons, List.foldl_cons]
    have : dictKey (renE f e).2 = (dictKey e.2).map f := dictKey_ren f e.2
    rw [this, dictSet_ren hf, ih]

/-- **the dictionary of loop-carried dependencies commutes with the renaming** -/
theorem postE_ren {f : Nat → Nat} (hf : Incr f) (es : List LcdPost.Entry) :
    postE (es.map (renE f)) = (postE es).map (renDict f) := by
  unfold postE
  have := dedup_ren hf [] es
  simp only [List.map_nil] at this
  rw [this, sortDesc_ren hf, mkDict_ren hf]

theorem zip_map_renPair (f : Nat → Nat) (a : List Nat) (b : List Rat) :
    (a.map f).zip b = (a.zip b).map (renPair f) := by
  induction a generalizing b with
  | nil => rfl
  | cons x xs ih =>
    cases b with
    | nil => rfl
    | cons y ys => simp only [List.map_cons, List.zip_cons_cons, renPair, ih]

theorem entryOf_ren (f : Nat → Nat) (e : LCD.Entry) : entryOf (renEntry f e) = renE f (entryOf e) := by
  simp only [entryOf, renEntry, renE, renKey, zip_map_renPair]

theorem firstMaxDep_ren (f : Nat → Nat) (d : List (List Nat × LcdPost.Entry)) :
    firstMaxDep (d.map (renDict f)) = (firstMaxDep d).map (renDict f) := by
  cases d with
  | nil => rfl
  | cons x xs =>
    simp only [List.map_cons, firstMaxDep, Option.map_some, Option.some.injEq]
    induction xs generalizing x with
    | nil => rfl
    | cons y ys ih =>
      simp only [List.map_cons, List.foldl_cons]
      have h1 : (renDict f x).2.1 = x.2.1 := rfl
      have h2 : (renDict f y).2.1 = y.2.1 := rfl
      rw [h1, h2]
      split
      · exact ih y
      · exact ih x

end OsacaVerif.Pipeline
