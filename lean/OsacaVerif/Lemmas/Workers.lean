import OsacaVerif.Model.Workers
/-
  Lemmas about the static partition and about interleavings (C16, C19).  Core Lean only.
-/
namespace OsacaVerif.Workers

/-! ### the scheduling expressions, unfolded (these break when the source expressions change) -/

theorem workload_eq (klen n : Nat) : workload klen n = (klen - 1) / n + 1 := rfl
theorem start_eq (klen n t : Nat) : start klen n t = t * workload klen n := rfl
theorem stop_eq (klen n t : Nat) : stop klen n t = min ((t + 1) * workload klen n) klen := rfl

theorem workload_pos (klen n : Nat) : 0 < workload klen n := by
  rw [workload_eq]; exact Nat.succ_pos _

/-- the workers' capacity reaches the end of the kernel -/
theorem le_mul_workload (klen n : Nat) (hn : 1 ≤ n) : klen ≤ n * workload klen n := by
  rw [workload_eq, Nat.mul_add, Nat.mul_one]
  have h1 := Nat.div_add_mod (klen - 1) n
  have h2 := Nat.mod_lt (klen - 1) (show n > 0 by omega)
  omega

/-! ### slices -/

theorem slices_eq (kernel : List α) (n : Nat) :
    slices kernel n = (List.range n).map fun t =>
      pySlice kernel (start kernel.length n t) (stop kernel.length n t) := by
  simp [slices, partition, List.zip_map', List.map_map, Function.comp_def]

theorem take_append_slice (l : List α) (a b : Nat) (h : a ≤ b) :
    l.take a ++ pySlice l a b = l.take b := by
  unfold pySlice
  have : l.take a = (l.take b).take a := by
    rw [List.take_take, Nat.min_eq_left h]
  rw [this, List.take_append_drop]

theorem take_min_length (l : List α) (x : Nat) : l.take (min x l.length) = l.take x := by
  rcases Nat.le_total x l.length with h | h
  · rw [Nat.min_eq_left h]
  · rw [Nat.min_eq_right h, List.take_length, List.take_of_length_le h]

/-- the first `m` slices of width `w` concatenate to the first `m*w` elements -/
theorem flatten_slices_prefix (l : List α) (w m : Nat) :
    ((List.range m).map fun t => pySlice l (t * w) (min ((t + 1) * w) l.length)).flatten
      = l.take (m * w) := by
  induction m with
  | zero => simp
  | succ m ih =>
    rw [List.range_succ, List.map_append, List.flatten_append, ih]
    simp only [List.map_cons, List.map_nil, List.flatten_cons, List.flatten_nil, List.append_nil]
    have hle : m * w ≤ min ((m + 1) * w) l.length ∨ l.length ≤ m * w := by
      rcases Nat.le_total (m * w) l.length with h | h
      · left
        have : m * w ≤ (m + 1) * w := Nat.mul_le_mul_right w (Nat.le_succ m)
        exact Nat.le_min.mpr ⟨this, h⟩
      · right; exact h
    rcases hle with h | h
    · rw [take_append_slice l _ _ h, take_min_length]
    · -- the kernel is already exhausted: the slice is empty
      have h1 : pySlice l (m * w) (min ((m + 1) * w) l.length) = [] := by
        unfold pySlice
        apply List.drop_eq_nil_of_le
        rw [List.length_take]
        exact Nat.le_trans (Nat.min_le_left _ _) (Nat.le_trans (Nat.min_le_right _ _) h)
      have h2 : l.length ≤ (m + 1) * w :=
        Nat.le_trans h (Nat.mul_le_mul_right w (Nat.le_succ m))
      rw [h1, List.append_nil, List.take_of_length_le h, List.take_of_length_le h2]

/-! ### interleavings -/

theorem flatten_set_perm {β : Type} (qs : List (List β)) (i : Nat) (x : β) (rest : List β)
    (h : qs[i]? = some (x :: rest)) : qs.flatten.Perm (x :: (qs.set i rest).flatten) := by
  induction qs generalizing i with
  | nil => simp at h
  | cons q qs ih =>
    cases i with
    | zero =>
      simp only [List.getElem?_cons_zero, Option.some.injEq] at h
      subst h
      simp
    | succ i =>
      simp only [List.getElem?_cons_succ] at h
      simp only [List.flatten_cons, List.set_cons_succ]
      have := ih i h
      exact (List.Perm.append_left q this).trans List.perm_middle

theorem flatten_all_nil {β : Type} (qs : List (List β)) (h : ∀ q ∈ qs, q = []) : qs.flatten = [] := by
  induction qs with
  | nil => rfl
  | cons q qs ih =>
    have hq : q = [] := h q (by simp)
    have := ih (fun q' hq' => h q' (by simp [hq']))
    simp [hq, this]

/-- an interleaving is a permutation of all the queued items -/
theorem Interleave.perm {β : Type} {qs : List (List β)} {out : List β} (h : Interleave qs out) :
    out.Perm qs.flatten := by
  induction h with
  | done hnil => rw [flatten_all_nil _ hnil]
  | step i x rest hget _ ih =>
    exact (List.Perm.cons x ih).trans (flatten_set_perm _ i x rest hget).symm

theorem Interleave.cons_nil {β : Type} {qs : List (List β)} {out : List β} (h : Interleave qs out) :
    Interleave ([] :: qs) out := by
  induction h with
  | done hnil =>
    exact Interleave.done (by intro q hq; simp at hq; rcases hq with rfl | hq; rfl; exact hnil q hq)
  | step i x rest hget _ ih =>
    exact Interleave.step (i + 1) x rest (by simpa using hget) (by simpa using ih)

theorem Interleave.cons_queue {β : Type} {qs : List (List β)} {out : List β} (q : List β)
    (h : Interleave qs out) : Interleave (q :: qs) (q ++ out) := by
  induction q with
  | nil => exact h.cons_nil
  | cons x q ih => exact Interleave.step 0 x q (by simp) (by simpa using ih)

/-- draining queue after queue is one of the interleavings -/
theorem interleave_flatten {β : Type} (qs : List (List β)) : Interleave qs qs.flatten := by
  induction qs with
  | nil => exact Interleave.done (by simp)
  | cons q qs ih => simpa using ih.cons_queue q

/-- the executable `merge` produces an interleaving, whatever the schedule -/
theorem merge_interleave {β : Type} (sched : List Nat) (qs : List (List β)) :
    Interleave qs (merge sched qs) := by
  induction sched generalizing qs with
  | nil => exact interleave_flatten qs
  | cons i sched ih =>
    unfold merge
    split
    · next x rest h => exact Interleave.step i x rest h (ih _)
    · exact ih qs

end OsacaVerif.Workers
