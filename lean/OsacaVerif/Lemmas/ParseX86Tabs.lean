import OsacaVerif.Lemmas.ParseX86Line
/-
  C09 — tabs.  `parse_line` expands tabs (`str.expandtabs`) before the grammar runs.  On a rendered
  line this only replaces every tab of the layout by one to eight blanks, i.e. it yields the
  rendering of the *same AST under another layout*; the round trip for all layouts then covers it.

  `Exp t t'`: `t'` is `t` with every tab replaced by a non-empty run of blanks (a relation, so that
  no column arithmetic is needed; `expandTabs col t` is one such `t'` for every start column).
-/
namespace OsacaVerif.ParseX86
open OsacaVerif.Text OsacaVerif.X86 OsacaVerif.Spec.X86R

inductive Exp : Txt → Txt → Prop
  | nil : Exp [] []
  | tab {t t' : Txt} (n : Nat) : Exp t t' → Exp (9 :: t) (List.replicate (n + 1) 32 ++ t')
  | other {t t' : Txt} (c : Nat) : c ≠ 9 → Exp t t' → Exp (c :: t) (c :: t')

theorem exp_expandTabs (t : Txt) : ∀ col, Exp t (expandTabs col t) := by
  induction t with
  | nil => intro _; exact Exp.nil
  | cons c cs ih =>
    intro col
    unfold expandTabs
    by_cases h9 : c = 9
    · subst h9
      simp only [beq_self_eq_true, if_true]
      have : 8 - col % 8 = (7 - col % 8) + 1 := by omega
      rw [this]
      exact Exp.tab _ (ih 0)
    · have h9' : (c == 9) = false := by simp [h9]
      simp only [h9', Bool.false_eq_true, if_false]
      split
      · exact Exp.other c h9 (ih 0)
      · exact Exp.other c h9 (ih (col + 1))

theorem Exp.nil_inv {t' : Txt} (h : Exp [] t') : t' = [] := by cases h; rfl

theorem Exp.cons_inv {c : Nat} {rest t' : Txt} (hc : c ≠ 9) (h : Exp (c :: rest) t') :
    ∃ r', t' = c :: r' ∧ Exp rest r' := by
  cases h with
  | tab n h => exact absurd rfl hc
  | other _ _ h => exact ⟨_, rfl, h⟩

/-- a text without tabs is copied -/
theorem Exp.solid_append {s rest t' : Txt} (hs : 9 ∉ s) (h : Exp (s ++ rest) t') :
    ∃ r', t' = s ++ r' ∧ Exp rest r' := by
  induction s generalizing t' with
  | nil => exact ⟨t', rfl, h⟩
  | cons c cs ih =>
    have hc : c ≠ 9 := by intro e; exact hs (by simp [e])
    obtain ⟨r1, h1, h2⟩ := Exp.cons_inv hc h
    obtain ⟨r2, h3, h4⟩ := ih (fun e => hs (by simp [e])) h2
    exact ⟨r2, by rw [h1, h3]; rfl, h4⟩

/-- a run of layout blanks becomes a run of layout blanks, empty only if it was empty -/
theorem Exp.blank_append {w rest t' : Txt} (hw : blank w = true) (h : Exp (w ++ rest) t') :
    ∃ w' r', t' = w' ++ r' ∧ blank w' = true ∧ w'.isEmpty = w.isEmpty ∧ Exp rest r' := by
  induction w generalizing t' with
  | nil => exact ⟨[], t', rfl, rfl, rfl, h⟩
  | cons c cs ih =>
    simp only [blank, List.all_cons, Bool.and_eq_true] at hw
    have hcs : blank cs = true := hw.2
    cases h with
    | tab n h =>
      obtain ⟨w1, r1, h1, h2, _, h4⟩ := ih hcs h
      refine ⟨List.replicate (n + 1) 32 ++ w1, r1, by rw [h1, List.append_assoc], ?_, by simp [List.replicate_succ], h4⟩
      simp only [blank, List.all_append, Bool.and_eq_true] at h2 ⊢
      exact ⟨by simp [List.all_eq_true, isBlankC], h2⟩
    | other _ hc h =>
      obtain ⟨w1, r1, h1, h2, _, h4⟩ := ih hcs h
      refine ⟨c :: w1, r1, by rw [h1]; rfl, ?_, rfl, h4⟩
      simp only [blank, List.all_cons, Bool.and_eq_true] at h2 ⊢
      exact ⟨hw.1, h2⟩

/-! ### no tab inside the tokens of the domain -/

theorem alnum_ne_tab {c : Nat} (h : isAlnumC c = true) : c ≠ 9 := by
  intro e; subst e; simp [isAlnumC, isAlphaC, isDigitC] at h

theorem validReg_noTab {n : Txt} (h : validReg n = true) : 9 ∉ n := by
  intro hm; exact alnum_ne_tab ((validReg_spec h).2 9 hm) rfl

theorem validIdent_noTab {n : Txt} (h : validIdent n = true) : 9 ∉ n := by
  cases n with
  | nil => simp
  | cons c r =>
    simp only [validIdent, Bool.and_eq_true, List.all_eq_true] at h
    intro hm
    rcases List.mem_cons.mp hm with e | e
    · have := (spec_idStart c h.1).2.2; rw [← e] at this; simp [isWs] at this
    · have := idRest_not_ws 9 (spec_idChar 9 (h.2 9 e)); simp [isWs] at this

theorem renderInt_noTab (f : NumFmt) (v : Int) : 9 ∉ renderInt f v := by
  intro hm
  rcases renderInt_shape f v with ⟨D, _, hD, hR | hR⟩ | ⟨H, _, hH, hR | hR⟩ <;> rw [hR] at hm
  · have := hD 9 hm; simp [isDigitC] at this
  · rcases List.mem_cons.mp hm with e | e
    · cases e
    · have := hD 9 e; simp [isDigitC] at this
  · simp only [List.mem_cons] at hm
    rcases hm with e | e | e
    · cases e
    · cases e
    · have := hH 9 e; simp [isHexC, isDigitC] at this
  · simp only [List.mem_cons] at hm
    rcases hm with e | e | e | e
    · cases e
    · cases e
    · cases e
    · have := hH 9 e; simp [isHexC, isDigitC] at this

theorem validWord_noTab {w : Txt} (h : validWord w = true) : 9 ∉ w := by
  intro hm; have := (validWord_spec h).2 9 hm; simp [isPrintC] at this

theorem validMnemonic_noTab {m : Txt} (h : validMnemonic m = true) : 9 ∉ m := by
  obtain ⟨_, _, rfl, _, hal, _, _⟩ := validMnemonic_spec h
  intro hm; exact alnum_ne_tab (hal 9 hm) rfl

theorem validOff_noTab (f : NumFmt) (off : Option Off) (h : validOff off = true) : 9 ∉ renderOff f off := by
  match off, h with
  | none, _ => simp [renderOff]
  | some (.imm v), _ => exact renderInt_noTab f v
  | some (.ident n), h => exact validIdent_noTab h

/-! ### re-layout of an operand -/

/-- `L'` differs from `L` only in its blanks, which are still blanks; `pre` is empty iff it was -/
def ReL (L L' : OpLayout) : Prop :=
  L'.num = L.num ∧ L'.bare = L.bare ∧ L'.showScale = L.showScale ∧
  L'.blanks.all blank = true ∧ L'.pre.isEmpty = L.pre.isEmpty

theorem blanks_all {L : OpLayout} (h : L.blanks.all blank = true) :
    blank L.pre = true ∧ blank L.post = true ∧ blank L.w1 = true ∧ blank L.w2 = true ∧
    blank L.w3 = true ∧ blank L.w4 = true ∧ blank L.w5 = true ∧ blank L.w6 = true ∧ blank L.w7 = true := by
  simpa [OpLayout.blanks, and_assoc] using h

/-- the scale part, with its two blanks replaced -/
theorem exp_scale (L : OpLayout) (h6 : blank L.w6 = true) (h7 : blank L.w7 = true) (scale : Nat)
    (hs : validScale scale = true) {rest t' : Txt} (h : Exp (renderScale L scale ++ rest) t') :
    ∃ a b r', blank a = true ∧ blank b = true ∧
      t' = renderScale { L with w6 := a, w7 := b } scale ++ r' ∧ Exp rest r' := by
  unfold renderScale at h ⊢
  by_cases hsh : (scale != 1 || L.showScale) = true
  · simp only [hsh, if_true, List.cons_append, List.append_assoc] at h ⊢
    have hsc9 : 48 + scale ≠ 9 := by omega
    obtain ⟨r1, e1, h1⟩ := Exp.cons_inv (by decide) h
    obtain ⟨a, r2, e2, ha, _, h2⟩ := Exp.blank_append h6 h1
    obtain ⟨r3, e3, h3⟩ := Exp.cons_inv hsc9 h2
    obtain ⟨b, r4, e4, hb, _, h4⟩ := Exp.blank_append h7 h3
    exact ⟨a, b, r4, ha, hb, by rw [e1, e2, e3, e4], h4⟩
  · have hsh' : (scale != 1 || L.showScale) = false := by
      cases hh : (scale != 1 || L.showScale) with
      | false => rfl
      | true => exact absurd hh hsh
    simp only [hsh', Bool.false_eq_true, if_false, List.nil_append] at h ⊢
    exact ⟨L.w6, L.w7, t', h6, h7, rfl, h⟩

/-- the index part -/
theorem exp_index (L : OpLayout) (hbl : L.blanks.all blank = true) (index : Option Txt) (scale : Nat)
    (hi : index.all validReg = true) (hs : validScale scale = true) {rest t' : Txt}
    (h : Exp (renderIndex L scale index ++ rest) t') :
    ∃ a4 a5 a6 a7 r', blank a4 = true ∧ blank a5 = true ∧ blank a6 = true ∧ blank a7 = true ∧
      t' = renderIndex { L with w4 := a4, w5 := a5, w6 := a6, w7 := a7 } scale index ++ r' ∧ Exp rest r' := by
  obtain ⟨_, _, _, _, _, h4, h5, h6, h7⟩ := blanks_all hbl
  cases index with
  | none =>
    simp only [renderIndex, List.nil_append] at h ⊢
    exact ⟨L.w4, L.w5, L.w6, L.w7, t', h4, h5, h6, h7, rfl, h⟩
  | some i =>
    simp only [Option.all_some] at hi
    simp only [renderIndex, List.cons_append, List.append_assoc] at h ⊢
    obtain ⟨r1, e1, h1⟩ := Exp.cons_inv (by decide) h
    obtain ⟨a4, r2, e2, ha4, _, h2⟩ := Exp.blank_append h4 h1
    obtain ⟨r3, e3, h3⟩ := Exp.cons_inv (by decide) h2
    obtain ⟨r4, e4, h4'⟩ := Exp.solid_append (validReg_noTab hi) h3
    obtain ⟨a5, r5, e5, ha5, _, h5'⟩ := Exp.blank_append h5 h4'
    obtain ⟨a6, a7, r6, ha6, ha7, e6, h6'⟩ := exp_scale L h6 h7 scale hs h5'
    refine ⟨a4, a5, a6, a7, r6, ha4, ha5, ha6, ha7, ?_, h6'⟩
    rw [e1, e2, e3, e4, e5, e6]
    simp [renderScale]

/-- the base part -/
theorem exp_base (L : OpLayout) (h3 : blank L.w3 = true) (base : Option Txt)
    (hb : base.all validReg = true) {rest t' : Txt} (h : Exp (renderBase L base ++ rest) t') :
    ∃ a3 r', blank a3 = true ∧ t' = renderBase { L with w3 := a3 } base ++ r' ∧ Exp rest r' := by
  cases base with
  | none =>
    simp only [renderBase, List.nil_append] at h ⊢
    exact ⟨L.w3, t', h3, rfl, h⟩
  | some b =>
    simp only [Option.all_some] at hb
    simp only [renderBase, List.cons_append, List.append_assoc] at h ⊢
    obtain ⟨r1, e1, h1⟩ := Exp.cons_inv (by decide) h
    obtain ⟨r2, e2, h2⟩ := Exp.solid_append (validReg_noTab hb) h1
    obtain ⟨a3, r3, e3, ha3, _, h3'⟩ := Exp.blank_append h3 h2
    exact ⟨a3, r3, ha3, by rw [e1, e2, e3], h3'⟩

/-- **an operand with its surrounding blanks**: expanding tabs yields the same operand under another
    layout -/
theorem exp_operand (L : OpLayout) (hbl : L.blanks.all blank = true) (o : Operand)
    (hv : validOperand o = true) {rest t' : Txt}
    (h : Exp (L.pre ++ (renderOperand L o ++ (L.post ++ rest))) t') :
    ∃ L' r', ReL L L' ∧ t' = L'.pre ++ (renderOperand L' o ++ (L'.post ++ r')) ∧ Exp rest r' := by
  obtain ⟨hpre, hpost, h1, h2, h3, h4, h5, h6, h7⟩ := blanks_all hbl
  obtain ⟨p', r1, e1, hp', hpe, hr1⟩ := Exp.blank_append hpre h
  -- every case: rebuild the layout from the new blanks
  have finish : ∀ (body : OpLayout → Txt) (M : OpLayout), M.num = L.num → M.bare = L.bare →
      M.showScale = L.showScale → M.blanks.all blank = true →
      (∀ a b, renderOperand { M with pre := a, post := b } o = body M) →
      (∃ r2, r1 = body M ++ r2 ∧ Exp (L.post ++ rest) r2) →
      ∃ L' r', ReL L L' ∧ t' = L'.pre ++ (renderOperand L' o ++ (L'.post ++ r')) ∧ Exp rest r' := by
    intro body M hn hbr hss hMb hbody ⟨r2, e2, hr2⟩
    obtain ⟨q', r3, e3, hq', _, hr3⟩ := Exp.blank_append hpost hr2
    obtain ⟨_, _, m1, m2, m3, m4, m5, m6, m7⟩ := blanks_all hMb
    refine ⟨{ M with pre := p', post := q' }, r3, ⟨hn, hbr, hss, ?_, hpe⟩, ?_, hr3⟩
    · simp [OpLayout.blanks, hp', hq', m1, m2, m3, m4, m5, m6, m7]
    · rw [hbody p' q', e1, e2, e3]
  cases o with
  | reg n =>
    simp only [validOperand] at hv
    simp only [renderOperand, List.cons_append] at hr1
    obtain ⟨r2, e2, hr2⟩ := Exp.cons_inv (by decide) hr1
    obtain ⟨r3, e3, hr3⟩ := Exp.solid_append (validReg_noTab hv) hr2
    exact finish (fun _ => 37 :: n) L rfl rfl rfl hbl (fun _ _ => rfl) ⟨r3, by rw [e2, e3]; rfl, hr3⟩
  | imm v =>
    simp only [renderOperand, List.cons_append] at hr1
    obtain ⟨r2, e2, hr2⟩ := Exp.cons_inv (by decide) hr1
    obtain ⟨r3, e3, hr3⟩ := Exp.solid_append (renderInt_noTab L.num v) hr2
    exact finish (fun M => 36 :: renderInt M.num v) L rfl rfl rfl hbl (fun _ _ => rfl)
      ⟨r3, by rw [e2, e3]; rfl, hr3⟩
  | ident n =>
    simp only [validOperand] at hv
    cases hbare : L.bare
    · simp only [renderOperand, hbare, Bool.false_eq_true, if_false, List.cons_append] at hr1
      obtain ⟨r2, e2, hr2⟩ := Exp.cons_inv (by decide) hr1
      obtain ⟨r3, e3, hr3⟩ := Exp.solid_append (validIdent_noTab hv) hr2
      exact finish (fun _ => 36 :: n) L rfl rfl rfl hbl
        (fun a b => by simp [renderOperand, hbare]) ⟨r3, by rw [e2, e3]; rfl, hr3⟩
    · simp only [renderOperand, hbare, if_true] at hr1
      obtain ⟨r3, e3, hr3⟩ := Exp.solid_append (validIdent_noTab hv) hr1
      exact finish (fun _ => n) L rfl rfl rfl hbl
        (fun a b => by simp [renderOperand, hbare]) ⟨r3, e3, hr3⟩
  | mem off base index scale seg =>
    simp only [validOperand, Bool.and_eq_true, Bool.not_eq_true'] at hv
    obtain ⟨⟨⟨⟨⟨⟨_, hoff⟩, hbv⟩, hiv⟩, hsc⟩, _⟩, _⟩ := hv
    simp only [renderOperand] at hr1
    by_cases hnn : (base.isNone && index.isNone) = true
    · simp only [renderMem, hnn, if_true] at hr1
      obtain ⟨r3, e3, hr3⟩ := Exp.solid_append (validOff_noTab L.num off hoff) hr1
      exact finish (fun M => renderOff M.num off) L rfl rfl rfl hbl
        (fun a b => by simp [renderOperand, renderMem, hnn]) ⟨r3, e3, hr3⟩
    · have hnn' : (base.isNone && index.isNone) = false := by
        cases hh : (base.isNone && index.isNone) with
        | false => rfl
        | true => exact absurd hh hnn
      simp only [renderMem, hnn', Bool.false_eq_true, if_false, List.append_assoc, List.cons_append,
        List.nil_append] at hr1
      obtain ⟨s1, f1, g1⟩ := Exp.solid_append (validOff_noTab L.num off hoff) hr1
      obtain ⟨a1, s2, f2, ha1, _, g2⟩ := Exp.blank_append h1 g1
      obtain ⟨s3, f3, g3⟩ := Exp.cons_inv (by decide) g2
      obtain ⟨a2, s4, f4, ha2, _, g4⟩ := Exp.blank_append h2 g3
      obtain ⟨a3, s5, ha3, f5, g5⟩ := exp_base L h3 base hbv g4
      obtain ⟨a4, a5, a6, a7, s6, ha4, ha5, ha6, ha7, f6, g6⟩ :=
        exp_index L hbl index scale hiv (validScale_of hsc) g5
      obtain ⟨s7, f7, g7⟩ := Exp.cons_inv (by decide) g6
      let M : OpLayout := { L with w1 := a1, w2 := a2, w3 := a3, w4 := a4, w5 := a5, w6 := a6, w7 := a7 }
      refine finish (fun M => renderMem M off base index scale) M rfl rfl rfl ?_
        (fun a b => by simp [renderOperand, renderMem, renderBase, renderIndex, renderScale]) ⟨s7, ?_, g7⟩
      · simp [M, OpLayout.blanks, hpre, hpost, ha1, ha2, ha3, ha4, ha5, ha6, ha7]
      · rw [f1, f2, f3, f4, f5, f6, f7]
        simp [M, renderMem, hnn', renderBase, renderIndex, renderScale, List.append_assoc]

/-! ### operand lists, comments, lines -/

/-- same operands, layouts related by `ReL` -/
def ReOps : List (OpLayout × Operand) → List (OpLayout × Operand) → Prop
  | [], [] => True
  | (L, o) :: r, (L', o') :: r' => ReL L L' ∧ o' = o ∧ ReOps r r'
  | _, _ => False

theorem exp_ops (E : Txt) : ∀ (ops : List (OpLayout × Operand)),
    (∀ p ∈ ops, validOperand p.2 = true ∧ p.1.blanks.all blank = true) → ∀ {t' : Txt},
    Exp (renderOps ops ++ E) t' → ∃ ops' r', ReOps ops ops' ∧ t' = renderOps ops' ++ r' ∧ Exp E r' := by
  intro ops
  induction ops with
  | nil => intro _ t' h; exact ⟨[], t', trivial, rfl, h⟩
  | cons p ps ih =>
    intro hv t' h
    obtain ⟨L, o⟩ := p
    obtain ⟨hvo, hbl⟩ := hv (L, o) (by simp)
    rw [renderOps_cons] at h
    obtain ⟨L', r1, hre, e1, h1⟩ := exp_operand L hbl o hvo h
    cases ps with
    | nil =>
      simp only [cont] at h1
      refine ⟨[(L', o)], r1, ⟨hre, rfl, trivial⟩, ?_, h1⟩
      rw [renderOps_cons]; simpa [cont] using e1
    | cons q qs =>
      simp only [cont] at h1
      obtain ⟨r2, e2, h2⟩ := Exp.cons_inv (by decide) h1
      obtain ⟨ops'', r3, hre', e3, h3⟩ := ih (fun x hx => hv x (by simp [hx])) h2
      cases ops'' with
      | nil => obtain ⟨Lq, oq⟩ := q; exact absurd hre' (by simp [ReOps])
      | cons q' qs' =>
        refine ⟨(L', o) :: q' :: qs', r3, ⟨hre, rfl, hre'⟩, ?_, h3⟩
        rw [renderOps_cons]; simp only [cont]
        rw [e1, e2, e3]

theorem ReOps.map_snd : ∀ {ops ops' : List (OpLayout × Operand)}, ReOps ops ops' →
    ops'.map (·.2) = ops.map (·.2) ∧ ops'.length = ops.length := by
  intro ops
  induction ops with
  | nil => intro ops' h; cases ops' with
    | nil => exact ⟨rfl, rfl⟩
    | cons a as => exact absurd h (by simp [ReOps])
  | cons p ps ih =>
    intro ops' h
    obtain ⟨L, o⟩ := p
    cases ops' with
    | nil => exact absurd h (by simp [ReOps])
    | cons a as =>
      obtain ⟨L', o'⟩ := a
      obtain ⟨_, ho, hr⟩ := h
      obtain ⟨h1, h2⟩ := ih hr
      simp [h1, h2, ho]

theorem ReOps.valid : ∀ {ops ops' : List (OpLayout × Operand)} (i : Nat), ReOps ops ops' →
    validOps i ops = true → validOps i ops' = true := by
  intro ops
  induction ops with
  | nil => intro ops' i h _; cases ops' with
    | nil => rfl
    | cons a as => exact absurd h (by simp [ReOps])
  | cons p ps ih =>
    intro ops' i h hv
    obtain ⟨L, o⟩ := p
    cases ops' with
    | nil => exact absurd h (by simp [ReOps])
    | cons a as =>
      obtain ⟨L', o'⟩ := a
      obtain ⟨⟨_, hbare, _, hbl, hpe⟩, ho, hr⟩ := h
      subst ho
      simp only [validOps, Bool.and_eq_true] at hv ⊢
      obtain ⟨⟨⟨⟨h1, _⟩, h3⟩, h4⟩, h5⟩ := hv
      exact ⟨⟨⟨⟨h1, hbl⟩, by rw [hbare]; exact h3⟩, by rw [hpe]; exact h4⟩, ih (i + 1) hr h5⟩

/-- same words, gaps still blank and empty only where they were -/
def ReWords : List (Txt × Txt) → List (Txt × Txt) → Prop
  | [], [] => True
  | (g, w) :: r, (g', w') :: r' => w' = w ∧ blank g' = true ∧ g'.isEmpty = g.isEmpty ∧ ReWords r r'
  | _, _ => False

theorem exp_words : ∀ (ws : List (Txt × Txt)), validGaps ws = true → ∀ {rest t' : Txt},
    Exp (renderWords ws ++ rest) t' →
    ∃ ws' r', ReWords ws ws' ∧ t' = renderWords ws' ++ r' ∧ Exp rest r' := by
  intro ws
  induction ws with
  | nil => intro _ rest t' h; exact ⟨[], t', trivial, rfl, h⟩
  | cons p ps ih =>
    intro hv rest t' h
    obtain ⟨g, w⟩ := p
    simp only [validGaps, Bool.and_eq_true] at hv
    obtain ⟨⟨⟨hg, hw⟩, _⟩, hps⟩ := hv
    simp only [renderWords, List.append_assoc] at h
    obtain ⟨g', r1, e1, hg', hge, h1⟩ := Exp.blank_append hg h
    obtain ⟨r2, e2, h2⟩ := Exp.solid_append (validWord_noTab hw) h1
    obtain ⟨ws', r3, hre, e3, h3⟩ := ih hps h2
    exact ⟨(g', w) :: ws', r3, ⟨rfl, hg', hge, hre⟩, by simp [renderWords, e1, e2, e3], h3⟩

theorem ReWords.facts : ∀ {ws ws' : List (Txt × Txt)}, ReWords ws ws' →
    ws'.map (·.2) = ws.map (·.2) ∧
    ws'.all (fun p => !p.1.isEmpty) = ws.all (fun p => !p.1.isEmpty) ∧
    (validGaps ws = true → validGaps ws' = true) := by
  intro ws
  induction ws with
  | nil => intro ws' h; cases ws' with
    | nil => exact ⟨rfl, rfl, fun h => h⟩
    | cons a as => exact absurd h (by simp [ReWords])
  | cons p ps ih =>
    intro ws' h
    obtain ⟨g, w⟩ := p
    cases ws' with
    | nil => exact absurd h (by simp [ReWords])
    | cons a as =>
      obtain ⟨g', w'⟩ := a
      obtain ⟨hw, hg', hge, hr⟩ := h
      subst hw
      obtain ⟨h1, h2, h3⟩ := ih hr
      refine ⟨by simp [h1], by simp [List.all_cons, h2, hge], ?_⟩
      intro hv
      simp only [validGaps, Bool.and_eq_true] at hv ⊢
      obtain ⟨⟨⟨_, hw⟩, hne⟩, hps⟩ := hv
      exact ⟨⟨⟨hg', hw⟩, by rw [h2]; exact hne⟩, h3 hps⟩

/-- **a whole instruction line**: expanding its tabs gives the rendering of the same AST under
    another valid layout -/
theorem exp_line (l : Line) (hv : l.valid = true) {t' : Txt} (h : Exp (renderLine l) t') :
    ∃ l' : Line, l'.valid = true ∧ l'.expected = l.expected ∧ t' = renderLine l' := by
  simp only [Line.valid, Bool.and_eq_true, decide_eq_true_eq] at hv
  obtain ⟨⟨⟨⟨⟨hmn, hind⟩, htr⟩, hlen⟩, hops⟩, hcm⟩ := hv
  have hopsv : ∀ p ∈ l.ops, validOperand p.2 = true ∧ p.1.blanks.all blank = true := by
    have gen : ∀ (i : Nat) (ops : List (OpLayout × Operand)), validOps i ops = true →
        ∀ p ∈ ops, validOperand p.2 = true ∧ p.1.blanks.all blank = true := by
      intro i ops
      induction ops generalizing i with
      | nil => intro _ p hp; cases hp
      | cons q qs ih =>
        intro hq p hp
        obtain ⟨L, o⟩ := q
        simp only [validOps, Bool.and_eq_true] at hq
        rcases List.mem_cons.mp hp with e | e
        · subst e; exact ⟨hq.1.1.1.1, hq.1.1.1.2⟩
        · exact ih (i + 1) hq.2 p e
    exact gen 0 l.ops hops
  unfold renderLine at h
  obtain ⟨i', r1, e1, hi', _, h1⟩ := Exp.blank_append hind h
  obtain ⟨r2, e2, h2⟩ := Exp.solid_append (validMnemonic_noTab hmn) h1
  obtain ⟨ops', r3, hre, e3, h3⟩ := exp_ops _ l.ops hopsv h2
  obtain ⟨tr', r4, e4, htr', _, h4⟩ := Exp.blank_append htr h3
  obtain ⟨hmap, hlen'⟩ := hre.map_snd
  have hvops := hre.valid 0 hops
  cases hc : l.comment with
  | none =>
    rw [hc] at h4
    have e5 := Exp.nil_inv h4
    refine ⟨{ indent := i', mn := l.mn, ops := ops', trail := tr', comment := none }, ?_, ?_, ?_⟩
    · simp [Line.valid, hmn, hi', htr', hlen', hlen, hvops]
    · simp [Line.expected, hmap, hc]
    · simp [renderLine, e1, e2, e3, e4, e5]
  | some c =>
    rw [hc] at h4 hcm
    simp only [validComment, Bool.and_eq_true] at hcm
    simp only [renderComment, List.append_assoc] at h4
    have hsym : (9 : Nat) ∉ (if c.slashes then [47, 47] else [35]) := by
      cases c.slashes <;> simp
    obtain ⟨r5, e5, h5⟩ := Exp.solid_append hsym h4
    obtain ⟨ws', r6, hrw, e6, h6⟩ := exp_words c.words hcm.1 h5
    have h6' : Exp (c.last ++ []) r6 := by simpa using h6
    obtain ⟨la', r7, e7, hla', _, h7⟩ := Exp.blank_append hcm.2 h6'
    have e8 := Exp.nil_inv h7
    obtain ⟨hw1, _, hw3⟩ := hrw.facts
    refine ⟨{ indent := i', mn := l.mn, ops := ops', trail := tr',
              comment := some { slashes := c.slashes, words := ws', last := la' } }, ?_, ?_, ?_⟩
    · simp [Line.valid, hmn, hi', htr', hlen', hlen, hvops, validComment, hw3 hcm.1, hla']
    · simp [Line.expected, hmap, hc, hw1]
    · simp [renderLine, renderComment, e1, e2, e3, e4, e5, e6, e7, e8, List.append_assoc]

/-- **the round trip through `parse_line`, tabs included** -/
theorem roundtrip_full (l : Line) (hv : l.valid = true) : parseLine (renderLine l) = .ok l.expected := by
  obtain ⟨l', hv', he, ht⟩ := exp_line l hv (exp_expandTabs (renderLine l) 0)
  unfold parseLine
  rw [ht, roundtrip_expanded l' hv', he]

end OsacaVerif.ParseX86
