import OsacaVerif.Lemmas.ParseX86Basic
import OsacaVerif.Spec.X86Render
/-
  C09 — numbers: the decimal / hexadecimal notation of the renderer is read back by the model's
  `int(·, 0)` and recognised by its number tokens, for every integer.
-/
namespace OsacaVerif.ParseX86
open OsacaVerif.Text OsacaVerif.X86 OsacaVerif.Spec.X86R

/-! ### digits -/

def valRev (b : Nat) : List Nat → Nat
  | [] => 0
  | d :: ds => d + b * valRev b ds

theorem digitsRev_lt {b : Nat} (hb : 2 ≤ b) : ∀ f n, ∀ d ∈ digitsRev b f n, d < b := by
  intro f
  induction f with
  | zero => intro n d h; simp [digitsRev] at h
  | succ f ih =>
    intro n d h
    unfold digitsRev at h
    split at h
    · simp at h; omega
    · rcases List.mem_cons.mp h with h | h
      · subst h; exact Nat.mod_lt _ (by omega)
      · exact ih _ d h

theorem digitsRev_val {b : Nat} (hb : 2 ≤ b) : ∀ f n, n < f → valRev b (digitsRev b f n) = n := by
  intro f
  induction f with
  | zero => intro n h; omega
  | succ f ih =>
    intro n h
    unfold digitsRev
    split
    · simp [valRev]
    · rename_i hnb
      have hlt : n / b < n := Nat.div_lt_self (by omega) (by omega)
      simp only [valRev]
      rw [ih (n / b) (by omega)]
      exact Nat.mod_add_div n b

theorem digitsRev_ne_nil (b f n : Nat) : digitsRev b (f + 1) n ≠ [] := by
  unfold digitsRev; split <;> simp

theorem digitsRev_getLast {b : Nat} (hb : 2 ≤ b) : ∀ f n, 0 < n → n < f →
    ∀ h, (digitsRev b f n).getLast h ≠ 0 := by
  intro f
  induction f with
  | zero => intro n _ h; omega
  | succ f ih =>
    intro n hpos hlt h
    have key : ∀ l, l = digitsRev b (f + 1) n → ∀ hl : l ≠ [], l.getLast hl ≠ 0 := by
      intro l hl
      unfold digitsRev at hl
      split at hl
      · subst hl; intro _; simp; omega
      · rename_i hnb
        subst hl
        intro _
        have hlt' : n / b < n := Nat.div_lt_self (by omega) (by omega)
        have hpos' : 0 < n / b := Nat.div_pos (by omega) (by omega)
        have hf : 0 < f := by omega
        obtain ⟨f', rfl⟩ : ∃ f', f = f' + 1 := ⟨f - 1, by omega⟩
        rw [List.getLast_cons (digitsRev_ne_nil b f' (n / b))]
        exact ih (n / b) hpos' (by omega) _
    exact key _ rfl h

/-- the leading digit of a positive number is not zero -/
theorem natDigits_head {b : Nat} (hb : 2 ≤ b) (n : Nat) (hn : 0 < n) :
    ∃ d ds, natDigits b n = d :: ds ∧ 0 < d ∧ d < b := by
  unfold natDigits
  have hne := digitsRev_ne_nil b n n
  have hl := digitsRev_getLast hb (n + 1) n hn (by omega) hne
  have hlt := digitsRev_lt hb (n + 1) n _ (List.getLast_mem hne)
  cases hr : (digitsRev b (n + 1) n).reverse with
  | nil => simp at hr; exact absurd hr hne
  | cons d ds =>
    refine ⟨d, ds, rfl, ?_, ?_⟩
    · have : (digitsRev b (n + 1) n).getLast hne = d := by
        have := List.getLast_eq_head_reverse (l := digitsRev b (n + 1) n) hne
        rw [this]; simp [hr]
      omega
    · have : (digitsRev b (n + 1) n).getLast hne = d := by
        have := List.getLast_eq_head_reverse (l := digitsRev b (n + 1) n) hne
        rw [this]; simp [hr]
      omega

theorem natDigits_zero (b : Nat) (hb : 2 ≤ b) : natDigits b 0 = [0] := by
  simp [natDigits, digitsRev]

theorem natDigits_ne_nil (b n : Nat) : natDigits b n ≠ [] := by
  simp [natDigits, digitsRev_ne_nil]

theorem natDigits_lt {b : Nat} (hb : 2 ≤ b) (n : Nat) : ∀ d ∈ natDigits b n, d < b := by
  intro d h; exact digitsRev_lt hb _ _ d (by simpa [natDigits] using h)

/-! ### digit characters -/

theorem hexDigitVal_digitChar (up : Bool) (d : Nat) (h : d < 16) : hexDigitVal (digitChar up d) = d := by
  unfold hexDigitVal digitChar; cases up <;> grind

theorem isHexC_digitChar (up : Bool) (d : Nat) (h : d < 16) : isHexC (digitChar up d) = true := by
  unfold isHexC isDigitC digitChar; cases up <;> simp <;> split <;> omega

theorem isDigitC_digitChar (d : Nat) (h : d < 10) : isDigitC (digitChar false d) = true := by
  unfold isDigitC digitChar; simp [h]; omega

theorem digitChar_dec (d : Nat) (h : d < 10) : digitChar false d = 48 + d := by simp [digitChar, h]

theorem digitsVal_append (b : Nat) (a c : Txt) :
    digitsVal b (a ++ c) = c.foldl (fun acc x => acc * b + hexDigitVal x) (digitsVal b a) := by
  simp [digitsVal, List.foldl_append]

/-- reading the characters of the digits, most significant first, gives the value -/
theorem digitsVal_map_reverse (b : Nat) (ch : Nat → Nat) (ds : List Nat)
    (h : ∀ d ∈ ds, hexDigitVal (ch d) = d) :
    digitsVal b (ds.reverse.map ch) = valRev b ds := by
  induction ds with
  | nil => rfl
  | cons d ds ih =>
    simp only [List.reverse_cons, List.map_append, List.map_cons, List.map_nil]
    rw [digitsVal_append, ih (fun x hx => h x (by simp [hx]))]
    simp [valRev, h d (by simp)]; rw [Nat.mul_comm]; omega

theorem digitsVal_natDigits (b : Nat) (hb : 2 ≤ b) (hb16 : b ≤ 16) (up : Bool) (n : Nat) :
    digitsVal b ((natDigits b n).map (digitChar up)) = n := by
  unfold natDigits
  rw [digitsVal_map_reverse b (digitChar up) _ ?_, digitsRev_val hb _ _ (by omega)]
  intro d hd
  exact hexDigitVal_digitChar up d (by have := digitsRev_lt hb _ _ d hd; omega)

theorem digitsVal_zeros (b z : Nat) (t : Txt) :
    digitsVal b (List.replicate z 48 ++ t) = digitsVal b t := by
  induction z with
  | zero => rfl
  | succ z ih =>
    rw [List.replicate_succ, List.cons_append]
    have : digitsVal b (48 :: (List.replicate z 48 ++ t)) = digitsVal b (List.replicate z 48 ++ t) := by
      simp [digitsVal, hexDigitVal]
    rw [this, ih]

/-! ### `int(text, 0)` reads back every rendered number -/

theorem allHex_render (up : Bool) (z n : Nat) :
    (List.replicate z 48 ++ (natDigits 16 n).map (digitChar up)).all isHexC = true := by
  simp only [List.all_append, Bool.and_eq_true, List.all_eq_true]
  constructor
  · intro c hc; rw [List.mem_replicate] at hc; rw [hc.2]; decide
  · intro c hc
    obtain ⟨d, hd, rfl⟩ := List.mem_map.mp hc
    exact isHexC_digitChar up d (natDigits_lt (by omega) n d hd)

theorem allDigit_render (n : Nat) : ((natDigits 10 n).map (digitChar false)).all isDigitC = true := by
  simp only [List.all_eq_true]
  intro c hc
  obtain ⟨d, hd, rfl⟩ := List.mem_map.mp hc
  exact isDigitC_digitChar d (natDigits_lt (by omega) n d hd)

theorem pyNat0_renderNat (f : NumFmt) (n : Nat) : pyNat0 (renderNat f n) = some n := by
  unfold renderNat
  cases hh : f.hex
  · -- decimal
    simp only [Bool.false_eq_true, if_false]
    rcases Nat.eq_zero_or_pos n with h0 | hpos
    · subst h0; rw [natDigits_zero 10 (by omega)]; decide
    · obtain ⟨d, ds, hd, hd0, hd10⟩ := natDigits_head (b := 10) (by omega) n hpos
      have hall := allDigit_render n
      have hval := digitsVal_natDigits 10 (by omega) (by omega) false n
      rw [hd] at hall hval ⊢
      simp only [List.map_cons] at hall hval ⊢
      rw [digitChar_dec d hd10] at hall hval ⊢
      unfold pyNat0
      split
      · rename_i heq; simp at heq; omega
      · rename_i heq; simp at heq; omega
      · simp [hall, hval]
  · -- hexadecimal
    simp only [if_true]
    unfold pyNat0
    have hall := allHex_render f.upper f.zeros n
    have hne : (List.replicate f.zeros 48 ++ (natDigits 16 n).map (digitChar f.upper)).isEmpty = false := by
      have := natDigits_ne_nil 16 n
      cases hnd : natDigits 16 n with
      | nil => exact absurd hnd this
      | cons a as => simp
    simp only [hall, hne, Bool.not_true, Bool.or_self, Bool.false_eq_true, if_false]
    rw [digitsVal_zeros, digitsVal_natDigits 16 (by omega) (by omega)]

/-- the first character of a rendered natural number is a digit (in particular not `-`) -/
theorem renderNat_head (f : NumFmt) (n : Nat) :
    ∃ c cs, renderNat f n = c :: cs ∧ isDigitC c = true := by
  unfold renderNat
  cases f.hex
  · simp only [Bool.false_eq_true, if_false]
    have hall := allDigit_render n
    cases hnd : natDigits 10 n with
    | nil => exact absurd hnd (natDigits_ne_nil 10 n)
    | cons a as =>
      rw [hnd] at hall
      simp only [List.map_cons, List.all_cons, Bool.and_eq_true] at hall
      exact ⟨_, _, rfl, hall.1⟩
  · exact ⟨48, _, rfl, by decide⟩

/-- **`parseNat (renderNat n) = n` for all `n`, all notations**, lifted to signed integers -/
theorem pyInt0_renderInt (f : NumFmt) (v : Int) : pyInt0 (renderInt f v) = some v := by
  unfold renderInt
  split
  · rename_i hneg
    simp only [pyInt0, pyNat0_renderNat, Option.map_some, Option.some.injEq, Int.ofNat_eq_natCast]
    omega
  · rename_i hpos
    obtain ⟨c, cs, hc, hd⟩ := renderNat_head f v.natAbs
    have h45 : c ≠ 45 := by intro e; subst e; simp [isDigitC] at hd
    have := pyNat0_renderNat f v.natAbs
    rw [hc] at this ⊢
    unfold pyInt0
    split
    · rename_i heq; simp at heq; exact absurd heq.1 h45
    · simp only [this, Option.map_some, Option.some.injEq, Int.ofNat_eq_natCast]; omega

end OsacaVerif.ParseX86
