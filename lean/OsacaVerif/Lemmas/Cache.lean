import OsacaVerif.Model.Cache
import OsacaVerif.Spec.CacheSpec
/-
  Invariants of the cache state machine and the lemmas behind the C17 theorems.
-/
namespace OsacaVerif.Cache
open OsacaVerif.Spec

/-- `hash` separates the contents in play (SHA-256: trusted) -/
def HashInj (w : World) : Prop := ∀ a b, w.hash a = w.hash b → a = b

/-- every cache file of the current format version stored under `(…, hash c)` holds `parse c` -/
def Inv (cfg : Cfg) (w : World) (s : St) : Prop :=
  ∀ k v x, s.cache k = .complete v x → v = cfg.version → ∀ c, w.hash c = k.hash → x = w.parse c

/-- every runtime-cache entry was produced from some content -/
def RtInv (w : World) (s : St) : Prop :=
  ∀ d st x, s.rt d st = some x → ∃ c, x = w.parse c

/-- no file under a final cache name is cut -/
def NoTorn (s : St) : Prop := ∀ k, s.cache k ≠ .torn

/-- reads cannot raise: unreadable files are skipped, or there are none and none can appear -/
def ReadSafe (cfg : Cfg) (s : St) : Prop :=
  cfg.tolerantRead = true ∨ (cfg.atomicWrite = true ∧ NoTorn s)

def Good (cfg : Cfg) (w : World) (s : St) : Prop := Inv cfg w s ∧ ReadSafe cfg s

/-! ### resolution of names -/

theorem find_lookup (w : World) (s : St) (stem : Stem) :
    (match find w s stem with | none => none | some d => s.files d stem)
      = CacheSpec.lookup w s.files stem := by
  unfold find CacheSpec.lookup
  induction w.dirs stem with
  | nil => simp
  | cons d ds ih =>
    simp only [List.find?_cons, List.findSome?_cons]
    cases h : s.files d stem with
    | none => simpa [h] using ih
    | some c => simp [h]

theorem find_some_files {w : World} {s : St} {stem : Stem} {d : Dir} (h : find w s stem = some d) :
    ∃ c, s.files d stem = some c := by
  unfold find at h
  have := List.find?_some h
  exact Option.isSome_iff_exists.mp this

/-! ### reading -/

theorem readCache_hit {cfg : Cfg} {f : CFile} {x : Data} (h : readCache cfg f = .hit x) :
    f = .complete cfg.version x := by
  cases f with
  | absent => simp [readCache] at h
  | torn => simp [readCache] at h; split at h <;> simp at h
  | complete v d =>
    simp only [readCache] at h
    split at h
    · next hv => simp at h; subst hv; rw [h]
    · simp at h

theorem readCache_no_error {cfg : Cfg} {f : CFile} (h : cfg.tolerantRead = true ∨ f ≠ .torn) :
    readCache cfg f ≠ .error := by
  cases f with
  | absent => simp [readCache]
  | torn => rcases h with h | h <;> simp_all [readCache]
  | complete v d => simp only [readCache]; split <;> simp

theorem ReadSafe.probe {cfg : Cfg} {s : St} (h : ReadSafe cfg s) (k : Key) :
    readCache cfg (s.cache k) ≠ .error := by
  apply readCache_no_error
  rcases h with h | ⟨_, h⟩
  · exact Or.inl h
  · exact Or.inr (h k)

theorem getCached_no_error {cfg : Cfg} {s : St} (h : ReadSafe cfg s) (d : Dir) (stem : Stem) (hh : Hash) :
    (getCached cfg s d stem hh).1 ≠ .error := by
  unfold getCached
  have h1 := h.probe (compKey d stem hh)
  have h2 := h.probe (homeKey stem hh)
  split <;> simp_all
  split <;> simp_all

theorem getCached_hit {cfg : Cfg} {w : World} {s : St} (hI : Inv cfg w s) {d : Dir} {stem : Stem}
    {c : Content} {x : Data} {src : Src} (h : getCached cfg s d stem (w.hash c) = (.hit x, src)) :
    x = w.parse c := by
  unfold getCached at h
  split at h
  · simp at h
  · next y hy =>
    simp at h; obtain ⟨rfl, _⟩ := h
    exact hI _ _ _ (readCache_hit hy) rfl c rfl
  · split at h
    · simp at h
    · next y hy =>
      simp at h; obtain ⟨rfl, _⟩ := h
      exact hI _ _ _ (readCache_hit hy) rfl c rfl
    · simp at h

/-! ### writing -/

theorem inv_setCache_other {cfg : Cfg} {w : World} {s : St} (hI : Inv cfg w s) (k : Key) (f : CFile)
    (hf : ∀ v x, f = .complete v x → v = cfg.version → ∀ c, w.hash c = k.hash → x = w.parse c) :
    Inv cfg w (setCache s k f) := by
  intro k' v x hk hv c hc
  simp only [setCache] at hk
  split at hk
  · next heq => subst heq; exact hf v x hk hv c hc
  · exact hI k' v x hk hv c hc

theorem inv_setCache_parse {cfg : Cfg} {w : World} {s : St} (hinj : HashInj w) (hI : Inv cfg w s)
    (k : Key) (c : Content) (hk : k.hash = w.hash c) (v : Nat) :
    Inv cfg w (setCache s k (.complete v (w.parse c))) := by
  apply inv_setCache_other hI
  intro v' x hx _ c' hc'
  injection hx with _ hx; subst hx
  rw [hinj c' c (hc'.trans hk)]

theorem noTorn_setCache {s : St} (h : NoTorn s) (k : Key) (f : CFile) (hf : f ≠ .torn) :
    NoTorn (setCache s k f) := by
  intro k'
  simp only [setCache]
  split
  · exact hf
  · exact h k'

theorem readSafe_setCache {cfg : Cfg} {s : St} (h : ReadSafe cfg s) (k : Key) (f : CFile) (hf : f ≠ .torn) :
    ReadSafe cfg (setCache s k f) := by
  rcases h with h | ⟨ha, h⟩
  · exact Or.inl h
  · exact Or.inr ⟨ha, noTorn_setCache h k f hf⟩

theorem writeTarget_hash {s : St} {d : Dir} {stem : Stem} {h : Hash} {k : Key}
    (hk : writeTarget s d stem h = some k) : k.hash = h := by
  unfold writeTarget at hk
  split at hk
  · injection hk with hk; subst hk; rfl
  · split at hk
    · injection hk with hk; subst hk; rfl
    · simp at hk

theorem good_writeCache {cfg : Cfg} {w : World} {s : St} (hinj : HashInj w) (hG : Good cfg w s)
    (d : Dir) (stem : Stem) (c : Content) :
    Good cfg w (writeCache cfg s d stem (w.hash c) (w.parse c)) := by
  unfold writeCache
  split
  · exact hG
  · next k hk =>
    exact ⟨inv_setCache_parse hinj hG.1 k c (writeTarget_hash hk) _,
           readSafe_setCache hG.2 k _ (by simp)⟩

/-! ### `Good` only looks at the cache files; `RtInv` only at the runtime cache -/

theorem good_of_cache_eq {cfg : Cfg} {w : World} {s s' : St} (h : s'.cache = s.cache)
    (hG : Good cfg w s) : Good cfg w s' := by
  refine ⟨?_, ?_⟩
  · intro k v x hk; rw [h] at hk; exact hG.1 k v x hk
  · rcases hG.2 with h1 | ⟨ha, h1⟩
    · exact Or.inl h1
    · refine Or.inr ⟨ha, ?_⟩; intro k; rw [h]; exact h1 k

theorem good_setRt {cfg : Cfg} {w : World} {s : St} (hG : Good cfg w s) (d : Dir) (st : Stem) (x : Data) :
    Good cfg w (setRt s d st x) := good_of_cache_eq (s := s) rfl hG

theorem rtInv_setRt {w : World} {s : St} (h : RtInv w s) (d : Dir) (st : Stem) (c : Content) :
    RtInv w (setRt s d st (w.parse c)) := by
  intro d' st' x hx
  simp only [setRt] at hx
  split at hx
  · injection hx with hx; exact ⟨c, hx.symm⟩
  · exact h d' st' x hx

theorem rtInv_of_rt_eq {w : World} {s s' : St} (h : s'.rt = s.rt) (hR : RtInv w s) : RtInv w s' := by
  intro d st x hx; rw [h] at hx; exact hR d st x hx

/-! ### a full load -/

theorem loadFull_spec {cfg : Cfg} {w : World} {s : St} (hinj : HashInj w) (hG : Good cfg w s)
    (hR : RtInv w s) (stem : Stem) :
    (loadFull cfg w s stem).2.1 = CacheSpec.expected w s.files stem false
    ∧ Good cfg w (loadFull cfg w s stem).1 ∧ RtInv w (loadFull cfg w s stem).1
    ∧ (loadFull cfg w s stem).1.files = s.files := by
  have hl := find_lookup w s stem
  unfold CacheSpec.expected
  rw [← hl]
  unfold loadFull
  cases hf : find w s stem with
  | none => simp [hG, hR]
  | some d =>
    obtain ⟨c, hc⟩ := find_some_files hf
    simp only [hc]
    have hne := getCached_no_error hG.2 d stem (w.hash c)
    cases hg : getCached cfg s d stem (w.hash c) with
    | mk pr src =>
      cases pr with
      | error => simp [hg] at hne
      | hit x =>
        have hx := getCached_hit hG.1 hg
        subst hx
        exact ⟨by simp, good_setRt hG _ _ _, rtInv_setRt hR _ _ _, rfl⟩
      | miss =>
        refine ⟨by simp, good_setRt (good_writeCache hinj hG d stem c) _ _ _, ?_, ?_⟩
        · apply rtInv_setRt
          apply rtInv_of_rt_eq (s := s) _ hR
          simp only [writeCache]; split <;> rfl
        · simp only [setRt, writeCache]; split <;> rfl

theorem loadLazy_spec (w : World) (s : St) (stem : Stem) :
    loadLazy w s stem = CacheSpec.expected w s.files stem true := by
  have hl := find_lookup w s stem
  unfold CacheSpec.expected
  rw [← hl]
  unfold loadLazy
  cases hf : find w s stem with
  | none => simp
  | some d =>
    obtain ⟨c, hc⟩ := find_some_files hf
    simp [hc]

/-! ### a killed writer -/

theorem crashWrite_good {cfg : Cfg} {w : World} {s : St} (hG : Good cfg w s) (stem : Stem) :
    Good cfg w (crashWrite cfg w s stem) ∧ (crashWrite cfg w s stem).files = s.files
    ∧ (crashWrite cfg w s stem).rt = s.rt := by
  have hsafe : cfg.tolerantRead = true ∨ cfg.atomicWrite = true := by
    rcases hG.2 with h | ⟨h, _⟩
    · exact Or.inl h
    · exact Or.inr h
  unfold crashWrite
  split
  · exact ⟨hG, rfl, rfl⟩
  · split
    · exact ⟨hG, rfl, rfl⟩
    · split
      · split
        · exact ⟨hG, rfl, rfl⟩
        · next k hk =>
          split
          · exact ⟨good_of_cache_eq (s := s) rfl hG, rfl, rfl⟩
          · next hna =>
            have ht : cfg.tolerantRead = true := by
              rcases hsafe with h | h
              · exact h
              · exact absurd h hna
            refine ⟨⟨inv_setCache_other hG.1 k .torn (by intro v x h; cases h), Or.inl ht⟩, rfl, rfl⟩
      · exact ⟨hG, rfl, rfl⟩

/-! ### racing loaders -/

/-- what is true of a loader of content `c` at every point of its run -/
structure PInv (cfg : Cfg) (w : World) (c : Content) (p : Proc) : Prop where
  target_hash : ∀ k, p.target = some k → k.hash = w.hash c
  tmp_ok : p.tmp = .absent ∨ p.tmp = .torn ∨ p.tmp = .complete cfg.version (w.parse c)
  writing : (p.pc = .opened ∨ p.pc = .half ∨ p.pc = .written) → p.target.isSome = true
  tmp_written : cfg.atomicWrite = true → p.pc = .written → p.tmp = .complete cfg.version (w.parse c)
  result_ok : p.pc = .done → p.result = some (.ok (w.parse c))

theorem pinv_fresh (cfg : Cfg) (w : World) (c : Content) : PInv cfg w c Proc.fresh := by
  constructor <;> simp [Proc.fresh]

/-- steps left until a loader is certainly finished -/
def rank : PC → Nat
  | .probeComp => 6 | .probeHome => 5 | .parsed => 4 | .opened => 3 | .half => 2 | .written => 1
  | .done => 0

theorem pstep_spec {cfg : Cfg} {w : World} (hinj : HashInj w) (d : Dir) (stem : Stem) (c : Content)
    {sh : St} {p : Proc} (hG : Good cfg w sh) (hP : PInv cfg w c p) :
    Good cfg w (pstep cfg w d stem c sh p).1 ∧ PInv cfg w c (pstep cfg w d stem c sh p).2
    ∧ (pstep cfg w d stem c sh p).1.files = sh.files
    ∧ (pstep cfg w d stem c sh p).1.rt = sh.rt
    ∧ rank (pstep cfg w d stem c sh p).2.pc ≤ rank p.pc - 1 := by
  have hsafe : cfg.tolerantRead = true ∨ cfg.atomicWrite = true := by
    rcases hG.2 with h | ⟨h, _⟩
    · exact Or.inl h
    · exact Or.inr h
  obtain ⟨h1, h2, h3, h4, h5⟩ := hP
  unfold pstep
  cases hpc : p.pc with
  | probeComp =>
    simp only []
    have hne := hG.2.probe (compKey d stem (w.hash c))
    split
    · next he => exact absurd he hne
    · next x hx =>
      have := hG.1 _ _ _ (readCache_hit hx) rfl c rfl
      subst this
      exact ⟨hG, ⟨h1, h2, by simp, by simp, by simp⟩, rfl, rfl, by simp [rank]⟩
    · exact ⟨hG, ⟨h1, h2, by simp, by simp, by simp⟩, rfl, rfl, by simp [rank]⟩
  | probeHome =>
    simp only []
    have hne := hG.2.probe (homeKey stem (w.hash c))
    split
    · next he => exact absurd he hne
    · next x hx =>
      have := hG.1 _ _ _ (readCache_hit hx) rfl c rfl
      subst this
      exact ⟨hG, ⟨h1, h2, by simp, by simp, by simp⟩, rfl, rfl, by simp [rank]⟩
    · exact ⟨hG, ⟨h1, h2, by simp, by simp, by simp⟩, rfl, rfl, by simp [rank]⟩
  | parsed =>
    simp only []
    split
    · exact ⟨hG, ⟨h1, h2, by simp, by simp, by simp⟩, rfl, rfl, by simp [rank]⟩
    · next k hk =>
      have hkh := writeTarget_hash hk
      split
      · exact ⟨hG, ⟨by simp [hkh], by simp, by simp, by simp, by simp⟩, rfl, rfl, by simp [rank]⟩
      · next hna =>
        have ht : cfg.tolerantRead = true := by
          rcases hsafe with h | h
          · exact h
          · exact absurd h hna
        exact ⟨⟨inv_setCache_other hG.1 k .torn (by intro v x h; cases h), Or.inl ht⟩,
               ⟨by simp [hkh], h2, by simp, by simp, by simp⟩, rfl, rfl, by simp [rank]⟩
  | opened =>
    simp only []
    exact ⟨hG, ⟨h1, h2, fun _ => h3 (Or.inl hpc), by simp, by simp⟩, trivial, trivial, by simp [rank]⟩
  | half =>
    simp only []
    have ht := h3 (Or.inr (Or.inl hpc))
    split
    · next hn => simp [hn] at ht
    · next k hk =>
      split
      · exact ⟨hG, ⟨h1, by simp, by simp [hk], by simp, by simp⟩, rfl, rfl, by simp [rank]⟩
      · exact ⟨⟨inv_setCache_parse hinj hG.1 k c (h1 k hk) _, readSafe_setCache hG.2 k _ (by simp)⟩,
               ⟨h1, h2, by simp [hk], by simp_all, by simp⟩, rfl, rfl, by simp [rank]⟩
  | written =>
    simp only []
    split
    · exact ⟨hG, ⟨h1, h2, by simp, by simp, by simp⟩, rfl, rfl, by simp [rank]⟩
    · next k hk =>
      split
      · next ha =>
        have htmp := h4 ha hpc
        rw [htmp]
        exact ⟨⟨inv_setCache_parse hinj hG.1 k c (h1 k hk) _, readSafe_setCache hG.2 k _ (by simp)⟩,
               ⟨h1, by simp, by simp, by simp, by simp⟩, rfl, rfl, by simp [rank]⟩
      · exact ⟨hG, ⟨h1, h2, by simp, by simp, by simp⟩, rfl, rfl, by simp [rank]⟩
  | done =>
    simp only []
    exact ⟨hG, ⟨h1, h2, h3, h4, h5⟩, trivial, trivial, by simp [rank, hpc]⟩

theorem rank_le_six (pc : PC) : rank pc ≤ 6 := by cases pc <;> simp [rank]
theorem rank_zero {pc : PC} (h : rank pc = 0) : pc = .done := by cases pc <;> simp [rank] at h ⊢

/-- invariant of a race: the shared file system is good and every loader is in a legal state -/
def RaceInv (cfg : Cfg) (w : World) (c : Content) (sh : St) (ps : Procs) : Prop :=
  Good cfg w sh ∧ ∀ i, PInv cfg w c (ps i)

theorem stepAt_spec {cfg : Cfg} {w : World} (hinj : HashInj w) (d : Dir) (stem : Stem) (c : Content)
    {sh : St} {ps : Procs} (h : RaceInv cfg w c sh ps) (i : Nat) :
    RaceInv cfg w c (stepAt cfg w d stem c sh ps i).1 (stepAt cfg w d stem c sh ps i).2
    ∧ (stepAt cfg w d stem c sh ps i).1.files = sh.files
    ∧ (stepAt cfg w d stem c sh ps i).1.rt = sh.rt
    ∧ (∀ j, rank ((stepAt cfg w d stem c sh ps i).2 j).pc ≤ rank (ps j).pc)
    ∧ rank ((stepAt cfg w d stem c sh ps i).2 i).pc ≤ rank (ps i).pc - 1 := by
  obtain ⟨hG, hP, hf, hr, hk⟩ := pstep_spec hinj d stem c h.1 (h.2 i)
  simp only [stepAt]
  refine ⟨⟨hG, ?_⟩, hf, hr, ?_, ?_⟩
  · intro j
    by_cases hj : j = i
    · simp [hj]; exact hP
    · simp [hj]; exact h.2 j
  · intro j
    by_cases hj : j = i
    · subst hj; simp; omega
    · simp [hj]
  · simp; exact hk

theorem runSched_spec {cfg : Cfg} {w : World} (hinj : HashInj w) (d : Dir) (stem : Stem) (c : Content)
    (sched : List Nat) : ∀ {sh : St} {ps : Procs}, RaceInv cfg w c sh ps →
    RaceInv cfg w c (runSched cfg w d stem c sh ps sched).1 (runSched cfg w d stem c sh ps sched).2
    ∧ (runSched cfg w d stem c sh ps sched).1.files = sh.files
    ∧ (runSched cfg w d stem c sh ps sched).1.rt = sh.rt
    ∧ (∀ j, rank ((runSched cfg w d stem c sh ps sched).2 j).pc ≤ rank (ps j).pc) := by
  induction sched with
  | nil => intro sh ps h; exact ⟨h, rfl, rfl, fun _ => Nat.le_refl _⟩
  | cons i rest ih =>
    intro sh ps h
    obtain ⟨h1, hf1, hr1, hm1, _⟩ := stepAt_spec hinj d stem c h i
    obtain ⟨h2, hf2, hr2, hm2⟩ := ih h1
    simp only [runSched]
    exact ⟨h2, hf2.trans hf1, hr2.trans hr1, fun j => Nat.le_trans (hm2 j) (hm1 j)⟩

theorem runSched_append (cfg : Cfg) (w : World) (d : Dir) (stem : Stem) (c : Content)
    (s1 s2 : List Nat) : ∀ (sh : St) (ps : Procs),
    runSched cfg w d stem c sh ps (s1 ++ s2) =
      runSched cfg w d stem c (runSched cfg w d stem c sh ps s1).1 (runSched cfg w d stem c sh ps s1).2 s2 := by
  induction s1 with
  | nil => intro sh ps; rfl
  | cons i rest ih => intro sh ps; simp only [List.cons_append, runSched]; exact ih _ _

/-- `k` consecutive steps of process `i` bring its rank down by `k` -/
theorem runSched_replicate {cfg : Cfg} {w : World} (hinj : HashInj w) (d : Dir) (stem : Stem)
    (c : Content) (i : Nat) (k : Nat) : ∀ {sh : St} {ps : Procs}, RaceInv cfg w c sh ps →
    rank ((runSched cfg w d stem c sh ps (List.replicate k i)).2 i).pc ≤ rank (ps i).pc - k := by
  induction k with
  | zero => intro sh ps _; simp [runSched]
  | succ k ih =>
    intro sh ps h
    obtain ⟨h1, _, _, _, hk⟩ := stepAt_spec hinj d stem c h i
    have := ih h1
    simp only [List.replicate_succ, runSched]
    omega

/-- after the closing schedule every process `i < n` is finished -/
theorem finishSched_done {cfg : Cfg} {w : World} (hinj : HashInj w) (d : Dir) (stem : Stem)
    (c : Content) (n : Nat) : ∀ {sh : St} {ps : Procs}, RaceInv cfg w c sh ps → ∀ i, i < n →
    ((runSched cfg w d stem c sh ps (finishSched 6 n)).2 i).pc = .done := by
  induction n with
  | zero => intro sh ps _ i hi; omega
  | succ n ih =>
    intro sh ps h i hi
    simp only [finishSched]
    rw [runSched_append]
    obtain ⟨h1, _, _, _⟩ := runSched_spec hinj d stem c (finishSched 6 n) h
    apply rank_zero
    by_cases hin : i < n
    · have hd := ih h i hin
      obtain ⟨_, _, _, hm⟩ := runSched_spec hinj d stem c (List.replicate 6 n) h1
      have := hm i
      rw [hd] at this
      simpa [rank] using this
    · have hi' : i = n := by omega
      subst hi'
      have := runSched_replicate hinj d stem c i 6 h1
      have h6 := rank_le_six ((runSched cfg w d stem c sh ps (finishSched 6 i)).2 i).pc
      omega

/-- **all interleavings**: whatever the schedule, the race ends with a good file system, unchanged
    model files and every loader holding the cache-less result -/
theorem race_spec {cfg : Cfg} {w : World} {s : St} (hinj : HashInj w) (hG : Good cfg w s)
    (stem : Stem) (n : Nat) (sched : List Nat) :
    (race cfg w s stem n sched).2 = List.replicate n (CacheSpec.expected w s.files stem false)
    ∧ Good cfg w (race cfg w s stem n sched).1
    ∧ (race cfg w s stem n sched).1.files = s.files
    ∧ (race cfg w s stem n sched).1.rt = s.rt := by
  have hl := find_lookup w s stem
  unfold CacheSpec.expected
  rw [← hl]
  unfold race
  cases hf : find w s stem with
  | none => simp [hG]
  | some d =>
    obtain ⟨c, hc⟩ := find_some_files hf
    simp only [hc]
    have h0 : RaceInv cfg w c s (fun _ => Proc.fresh) := ⟨hG, fun _ => pinv_fresh cfg w c⟩
    rw [runSched_append]
    obtain ⟨h1, hf1, hr1, _⟩ := runSched_spec hinj d stem c sched h0
    obtain ⟨h2, hf2, hr2, _⟩ := runSched_spec hinj d stem c (finishSched 6 n) h1
    refine ⟨?_, h2.1, hf2.trans hf1, hr2.trans hr1⟩
    apply List.ext_getElem
    · simp
    · intro i hi1 hi2
      simp only [List.length_map, List.length_range] at hi1
      have hd := finishSched_done hinj d stem c n h1 i hi1
      have hres := (h2.2 i).result_ok hd
      simp [hres]

/-! ### histories -/

/-- the one operation that damages a final cache file from outside OSACA -/
def Op.isCorrupt : Op → Bool
  | .corrupt _ => true
  | _ => false

theorem step_spec {cfg : Cfg} {w : World} {s : St} (hinj : HashInj w) (hG : Good cfg w s)
    (hR : RtInv w s) (op : Op) (hop : cfg.tolerantRead = true ∨ op.isCorrupt = false) :
    (step cfg w s op).2 = CacheSpec.obs w s.files op
    ∧ Good cfg w (step cfg w s op).1 ∧ RtInv w (step cfg w s op).1
    ∧ (step cfg w s op).1.files = CacheSpec.stepFiles s.files op := by
  cases op with
  | load stem lazy =>
    cases lazy with
    | false =>
      obtain ⟨h1, h2, h3, h4⟩ := loadFull_spec hinj hG hR stem
      exact ⟨by simp [step, CacheSpec.obs, h1], h2, h3, h4⟩
    | true => exact ⟨by simp [step, CacheSpec.obs, loadLazy_spec], hG, hR, rfl⟩
  | edit d stem c =>
    exact ⟨rfl, good_of_cache_eq (s := s) rfl hG, rtInv_of_rt_eq (s := s) rfl hR, rfl⟩
  | crashWrite stem pt =>
    obtain ⟨h1, h2, h3⟩ := crashWrite_good hG stem
    exact ⟨rfl, h1, rtInv_of_rt_eq h3 hR, h2⟩
  | corrupt k =>
    have ht : cfg.tolerantRead = true := by
      rcases hop with h | h
      · exact h
      · simp [Op.isCorrupt] at h
    exact ⟨rfl, ⟨inv_setCache_other hG.1 k .torn (by intro v x h; cases h), Or.inl ht⟩,
           rtInv_of_rt_eq (s := s) rfl hR, rfl⟩
  | drop k =>
    exact ⟨rfl, ⟨inv_setCache_other hG.1 k .absent (by intro v x h; cases h),
                 readSafe_setCache hG.2 k _ (by simp)⟩, rtInv_of_rt_eq (s := s) rfl hR, rfl⟩
  | «foreign» k ver x =>
    refine ⟨rfl, ?_, ?_, ?_⟩
    · simp only [step]
      split
      · exact hG
      · next hne =>
        refine ⟨inv_setCache_other hG.1 k _ ?_, readSafe_setCache hG.2 k _ (by simp)⟩
        intro v y h hv
        injection h with h1 _
        exact absurd (h1.trans hv) hne
    · simp only [step]; split
      · exact hR
      · exact rtInv_of_rt_eq (s := s) rfl hR
    · simp only [step]; split <;> rfl
  | shipped d stem c =>
    exact ⟨rfl, ⟨inv_setCache_parse hinj hG.1 _ c rfl _, readSafe_setCache hG.2 _ _ (by simp)⟩,
           rtInv_of_rt_eq (s := s) rfl hR, rfl⟩
  | setWritable d b =>
    exact ⟨rfl, good_of_cache_eq (s := s) rfl hG, rtInv_of_rt_eq (s := s) rfl hR, rfl⟩
  | setHomeWritable b =>
    exact ⟨rfl, good_of_cache_eq (s := s) rfl hG, rtInv_of_rt_eq (s := s) rfl hR, rfl⟩
  | newProcess =>
    exact ⟨rfl, good_of_cache_eq (s := s) rfl hG, by intro d st x h; simp [step] at h, rfl⟩
  | concurrent stem n sched =>
    obtain ⟨h1, h2, h3, h4⟩ := race_spec hinj hG stem n sched
    exact ⟨by simp [step, CacheSpec.obs, h1], h2, rtInv_of_rt_eq h4 hR, h3⟩

theorem run_spec {cfg : Cfg} {w : World} (hinj : HashInj w) (ops : List Op) :
    ∀ {s : St}, Good cfg w s → RtInv w s →
    (cfg.tolerantRead = true ∨ ∀ op ∈ ops, op.isCorrupt = false) →
    (run cfg w s ops).2 = CacheSpec.run w s.files ops
    ∧ Good cfg w (run cfg w s ops).1 ∧ RtInv w (run cfg w s ops).1
    ∧ (run cfg w s ops).1.files = CacheSpec.filesAfter s.files ops := by
  induction ops with
  | nil => intro s hG hR _; exact ⟨rfl, hG, hR, rfl⟩
  | cons op rest ih =>
    intro s hG hR hops
    have hop : cfg.tolerantRead = true ∨ op.isCorrupt = false := by
      rcases hops with h | h
      · exact Or.inl h
      · exact Or.inr (h op (by simp))
    have hrest : cfg.tolerantRead = true ∨ ∀ o ∈ rest, o.isCorrupt = false := by
      rcases hops with h | h
      · exact Or.inl h
      · exact Or.inr (fun o ho => h o (by simp [ho]))
    obtain ⟨h1, h2, h3, h4⟩ := step_spec hinj hG hR op hop
    obtain ⟨h5, h6, h7, h8⟩ := ih h2 h3 hrest
    simp only [run, CacheSpec.run, CacheSpec.filesAfter, List.foldl_cons]
    rw [h1, h5, h8, h4]
    exact ⟨rfl, h6, h7, rfl⟩

theorem good_init {cfg : Cfg} {w : World} (files : Dir → Stem → Option Content) (wr : Dir → Bool)
    (hw : Bool) (h : cfg.tolerantRead = true ∨ cfg.atomicWrite = true) : Good cfg w (init files wr hw) := by
  refine ⟨by intro k v x hk; simp [init] at hk, ?_⟩
  rcases h with h | h
  · exact Or.inl h
  · exact Or.inr ⟨h, by intro k; simp [init]⟩

theorem rtInv_init {w : World} (files : Dir → Stem → Option Content) (wr : Dir → Bool) (hw : Bool) :
    RtInv w (init files wr hw) := by
  intro d st x h; simp [init] at h

/-! ### atomic writers never leave a cut file under a final name -/

theorem noTorn_of_cache_eq {s s' : St} (h : s'.cache = s.cache) (hN : NoTorn s) : NoTorn s' := by
  intro k; rw [h]; exact hN k

theorem loadFull_noTorn {cfg : Cfg} {w : World} {s : St} (hN : NoTorn s) (stem : Stem) :
    NoTorn (loadFull cfg w s stem).1 := by
  unfold loadFull
  split
  · exact hN
  · split
    · exact hN
    · split
      · exact hN
      · exact noTorn_of_cache_eq (s := s) rfl hN
      · apply noTorn_of_cache_eq (s := writeCache cfg s _ stem _ _) rfl
        unfold writeCache
        split
        · exact hN
        · exact noTorn_setCache hN _ _ (by simp)

theorem crashWrite_noTorn {cfg : Cfg} {w : World} {s : St} (ha : cfg.atomicWrite = true) (hN : NoTorn s)
    (stem : Stem) : NoTorn (crashWrite cfg w s stem) := by
  unfold crashWrite
  split
  · exact hN
  · split
    · exact hN
    · split
      · split
        · exact hN
        · simp only [ha, if_true]; exact noTorn_of_cache_eq (s := s) rfl hN
      · exact hN

theorem pstep_noTorn {cfg : Cfg} {w : World} (d : Dir) (stem : Stem) (c : Content) {sh : St} {p : Proc}
    (ha : cfg.atomicWrite = true) (hP : PInv cfg w c p) (hN : NoTorn sh) :
    NoTorn (pstep cfg w d stem c sh p).1 := by
  unfold pstep
  cases hpc : p.pc with
  | probeComp => simp only []; split <;> exact hN
  | probeHome => simp only []; split <;> exact hN
  | parsed => simp only [ha, if_true]; split <;> exact hN
  | opened => exact hN
  | half => simp only [ha, if_true]; split <;> exact hN
  | written =>
    simp only [ha, if_true]
    split
    · exact hN
    · rw [hP.tmp_written ha hpc]; exact noTorn_setCache hN _ _ (by simp)
  | done => exact hN

theorem runSched_noTorn {cfg : Cfg} {w : World} (hinj : HashInj w) (d : Dir) (stem : Stem) (c : Content)
    (ha : cfg.atomicWrite = true) (sched : List Nat) : ∀ {sh : St} {ps : Procs},
    RaceInv cfg w c sh ps → NoTorn sh → NoTorn (runSched cfg w d stem c sh ps sched).1 := by
  induction sched with
  | nil => intro sh ps _ hN; exact hN
  | cons i rest ih =>
    intro sh ps h hN
    obtain ⟨h1, _⟩ := stepAt_spec hinj d stem c h i
    simp only [runSched]
    exact ih h1 (pstep_noTorn d stem c ha (h.2 i) hN)

theorem race_noTorn {cfg : Cfg} {w : World} {s : St} (hinj : HashInj w) (hG : Good cfg w s)
    (ha : cfg.atomicWrite = true) (hN : NoTorn s) (stem : Stem) (n : Nat) (sched : List Nat) :
    NoTorn (race cfg w s stem n sched).1 := by
  unfold race
  split
  · exact hN
  · split
    · exact hN
    · next c _ =>
      exact runSched_noTorn hinj _ stem c ha _ ⟨hG, fun _ => pinv_fresh cfg w c⟩ hN

theorem step_noTorn {cfg : Cfg} {w : World} {s : St} (hinj : HashInj w) (hG : Good cfg w s)
    (ha : cfg.atomicWrite = true) (hN : NoTorn s) (op : Op) (hop : op.isCorrupt = false) :
    NoTorn (step cfg w s op).1 := by
  cases op with
  | load stem lazy =>
    cases lazy with
    | false => exact loadFull_noTorn hN stem
    | true => exact hN
  | edit d stem c => exact noTorn_of_cache_eq (s := s) rfl hN
  | crashWrite stem pt => exact crashWrite_noTorn ha hN stem
  | corrupt k => simp [Op.isCorrupt] at hop
  | drop k => exact noTorn_setCache hN k _ (by simp)
  | «foreign» k ver x =>
    simp only [step]; split
    · exact hN
    · exact noTorn_setCache hN k _ (by simp)
  | shipped d stem c => exact noTorn_setCache hN _ _ (by simp)
  | setWritable d b => exact noTorn_of_cache_eq (s := s) rfl hN
  | setHomeWritable b => exact noTorn_of_cache_eq (s := s) rfl hN
  | newProcess => exact noTorn_of_cache_eq (s := s) rfl hN
  | concurrent stem n sched => exact race_noTorn hinj hG ha hN stem n sched

theorem run_noTorn {cfg : Cfg} {w : World} (hinj : HashInj w) (ha : cfg.atomicWrite = true)
    (ops : List Op) : ∀ {s : St}, Good cfg w s → RtInv w s → NoTorn s →
    (∀ op ∈ ops, op.isCorrupt = false) → NoTorn (run cfg w s ops).1 := by
  induction ops with
  | nil => intro s _ _ hN _; exact hN
  | cons op rest ih =>
    intro s hG hR hN hops
    have hop := hops op (by simp)
    obtain ⟨_, h2, h3, _⟩ := step_spec hinj hG hR op (Or.inr hop)
    simp only [run]
    exact ih h2 h3 (step_noTorn hinj hG ha hN op hop) (fun o ho => hops o (by simp [ho]))

end OsacaVerif.Cache
