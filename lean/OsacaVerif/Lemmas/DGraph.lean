import OsacaVerif.Model.DG
import OsacaVerif.Spec.Deps
import Mathlib.Data.List.Induction
/-
  Helper development for C03 (graph level): well-formed kernels, the split of `findDepending` into
  its register/flag part and its memory part, the emissions by producer position, and the exact
  characterisation of `dedupLast` (`add_edge` semantics).
-/
namespace OsacaVerif.DG
open OsacaVerif OsacaVerif.Text

/-! ### well-formed kernels -/

/-- line numbers strictly increase along the kernel (as the parsers produce them) -/
def WFKernel (k : List Ins) : Prop := List.Pairwise (· < ·) (k.map (·.line))

instance (k : List Ins) : Decidable (WFKernel k) := by unfold WFKernel; infer_instance

theorem WFKernel.tail {p : Ins} {rest : List Ins} (h : WFKernel (p :: rest)) : WFKernel rest := by
  unfold WFKernel at *
  simp only [List.map_cons, List.pairwise_cons] at h
  exact h.2

theorem WFKernel.head_lt {p : Ins} {rest : List Ins} (h : WFKernel (p :: rest)) :
    ∀ c ∈ rest, p.line < c.line := by
  unfold WFKernel at h
  simp only [List.map_cons, List.pairwise_cons] at h
  intro c hc
  exact h.1 c.line (List.mem_map.mpr ⟨c, hc, rfl⟩)

/-- in a well-formed kernel an earlier position has a smaller line -/
theorem WFKernel.lt_of_lt {k : List Ins} (h : WFKernel k) {a b : Nat} {x y : Ins}
    (ha : k[a]? = some x) (hb : k[b]? = some y) (hab : a < b) : x.line < y.line := by
  induction k generalizing a b with
  | nil => simp at ha
  | cons p rest ih =>
    cases b with
    | zero => omega
    | succ b =>
      simp only [List.getElem?_cons_succ] at hb
      cases a with
      | zero =>
        simp only [List.getElem?_cons_zero, Option.some.injEq] at ha
        subst ha
        exact h.head_lt y (List.mem_of_getElem? hb)
      | succ a =>
        simp only [List.getElem?_cons_succ] at ha
        exact ih h.tail ha hb (by omega)

/-- in a well-formed kernel the line number determines the position -/
theorem WFKernel.pos_unique {k : List Ins} (h : WFKernel k) {a b : Nat} {x y : Ins}
    (ha : k[a]? = some x) (hb : k[b]? = some y) (hl : x.line = y.line) : a = b := by
  rcases Nat.lt_trichotomy a b with hlt | heq | hgt
  · have := h.lt_of_lt ha hb hlt; omega
  · exact heq
  · have := h.lt_of_lt hb ha hgt; omega

theorem WFKernel.drop {k : List Ins} (h : WFKernel k) (n : Nat) : WFKernel (k.drop n) := by
  unfold WFKernel at *
  rw [List.map_drop]
  exact h.sublist (List.drop_sublist n _)

/-! ### `findDepending` = register/flag part interleaved with the memory part -/

/-- emissions of one destination operand that is a register or (if requested) a flag -/
def regPart (isa : Isa) (flagDeps : Bool) (rest : List Ins) (d : Op) : List (Nat × Tag) :=
  match d with
  | .reg r => scanTarget isa (.reg r) (if r.preIdx || r.postIdx then .pIndexed else .plain) rest
  | .flag n => if flagDeps then scanTarget isa (.flag n) .plain rest else []
  | _ => []

/-- emissions of one destination operand that is a memory operand (store → load) -/
def memPart (isa : Isa) (p : Ins) (rest : List Ins) (d : Op) : List (Nat × Tag) :=
  match d with
  | .mem m => scanMem isa m (startState p) rest
  | _ => []

/-- the register/flag emissions of a producer, in destination order -/
def findDependingReg (isa : Isa) (flagDeps : Bool) (p : Ins) (rest : List Ins) : List (Nat × Tag) :=
  (p.dst ++ p.srcDst).flatMap (regPart isa flagDeps rest)

/-- the memory (store → load) emissions of a producer, in destination order -/
def findDependingMem (isa : Isa) (p : Ins) (rest : List Ins) : List (Nat × Tag) :=
  (p.dst ++ p.srcDst).flatMap (memPart isa p rest)

/-- **`findDepending` is the interleaving by destination order**: per destination operand the
    register/flag emissions followed by the memory emissions (one of the two is always empty) -/
theorem findDepending_interleave (isa : Isa) (fd : Bool) (p : Ins) (rest : List Ins) :
    findDepending isa fd p rest =
      (p.dst ++ p.srcDst).flatMap fun d => regPart isa fd rest d ++ memPart isa p rest d := by
  unfold findDepending
  congr 1
  funext d
  cases d <;> simp [regPart, memPart]

theorem flatMap_sublist_append_left {α β : Type} (f g : α → List β) (l : List α) :
    (l.flatMap f).Sublist (l.flatMap fun d => f d ++ g d) := by
  induction l with
  | nil => simp
  | cons a l ih =>
    simp only [List.flatMap_cons]
    exact ((List.sublist_append_left _ _).append ih)

theorem flatMap_sublist_append_right {α β : Type} (f g : α → List β) (l : List α) :
    (l.flatMap g).Sublist (l.flatMap fun d => f d ++ g d) := by
  induction l with
  | nil => simp
  | cons a l ih =>
    simp only [List.flatMap_cons]
    exact ((List.sublist_append_right _ _).append ih)

/-- the register/flag emissions appear in `findDepending` in the same relative order -/
theorem findDependingReg_sublist (isa : Isa) (fd : Bool) (p : Ins) (rest : List Ins) :
    (findDependingReg isa fd p rest).Sublist (findDepending isa fd p rest) := by
  rw [findDepending_interleave]
  exact flatMap_sublist_append_left _ _ _

theorem findDependingMem_sublist (isa : Isa) (fd : Bool) (p : Ins) (rest : List Ins) :
    (findDependingMem isa p rest).Sublist (findDepending isa fd p rest) := by
  rw [findDepending_interleave]
  exact flatMap_sublist_append_right _ _ _

/-- every emission is a register/flag emission or a memory emission -/
theorem mem_findDepending (isa : Isa) (fd : Bool) (p : Ins) (rest : List Ins) (x : Nat × Tag) :
    x ∈ findDepending isa fd p rest ↔
      x ∈ findDependingReg isa fd p rest ∨ x ∈ findDependingMem isa p rest := by
  rw [findDepending_interleave]
  simp only [findDependingReg, findDependingMem, List.mem_flatMap, List.mem_append]
  constructor
  · rintro ⟨d, hd, h | h⟩
    · exact Or.inl ⟨d, hd, h⟩
    · exact Or.inr ⟨d, hd, h⟩
  · rintro (⟨d, hd, h⟩ | ⟨d, hd, h⟩)
    · exact ⟨d, hd, Or.inl h⟩
    · exact ⟨d, hd, Or.inr h⟩

/-- the tag `find_depending` attaches to the emissions of a register / flag destination -/
def targetTag : Target → Tag
  | .reg r => if r.preIdx || r.postIdx then .pIndexed else .plain
  | .flag _ => .plain

/-- the register/flag emissions are exactly the scans of the declarative targets of the producer -/
theorem mem_findDependingReg (isa : Isa) (fd : Bool) (p : Ins) (rest : List Ins) (x : Nat × Tag) :
    x ∈ findDependingReg isa fd p rest ↔
      ∃ t ∈ Spec.targetsOf fd p, x ∈ scanTarget isa t (targetTag t) rest := by
  simp only [findDependingReg, List.mem_flatMap, Spec.targetsOf, List.mem_filterMap]
  constructor
  · rintro ⟨d, hd, h⟩
    cases d with
    | reg r => exact ⟨.reg r, ⟨.reg r, hd, rfl⟩, h⟩
    | flag n =>
      cases fd with
      | false => simp [regPart] at h
      | true => exact ⟨.flag n, ⟨.flag n, hd, rfl⟩, by simpa [regPart, targetTag] using h⟩
    | mem m => simp [regPart] at h
    | other => simp [regPart] at h
  · rintro ⟨t, ⟨d, hd, hdt⟩, h⟩
    refine ⟨d, hd, ?_⟩
    cases d with
    | reg r =>
      simp only [Option.some.injEq] at hdt
      subst hdt
      exact h
    | flag n =>
      cases fd with
      | false => simp at hdt
      | true =>
        simp only [if_true, Option.some.injEq] at hdt
        subst hdt
        simpa [regPart, targetTag] using h
    | mem m => simp at hdt
    | other => simp at hdt

/-! ### emissions by producer -/

/-- the dependency edge `create_DG` adds for one emission of `find_depending` -/
def depEdge (par : Params) (p : Ins) (x : Nat × Tag) : Edge :=
  { src := ⟨p.line, false⟩, dst := ⟨x.1, false⟩, w := edgeWeight par p x.2 }

/-- the edge from the separate load node of an instruction to the instruction -/
def loadEdge (p : Ins) : List Edge :=
  if p.hasLd && !p.isLd then
    [{ src := ⟨p.line, true⟩, dst := ⟨p.line, false⟩, w := p.lat - (p.latWoLoad.getD 0) }] else []

theorem emissions_cons (isa : Isa) (fd : Bool) (par : Params) (p : Ins) (rest : List Ins) :
    emissions isa fd par (p :: rest) =
      loadEdge p ++ (findDepending isa fd p rest).map (depEdge par p) ++ emissions isa fd par rest := by
  simp only [emissions, loadEdge]
  congr 2

/-- the emissions that arise from a register / flag destination of the producer -/
def regEmissions (isa : Isa) (fd : Bool) (par : Params) : List Ins → List Edge
  | [] => []
  | p :: rest => (findDependingReg isa fd p rest).map (depEdge par p) ++ regEmissions isa fd par rest

/-- the emissions that arise from a memory destination (store → load) -/
def memEmissions (isa : Isa) (par : Params) : List Ins → List Edge
  | [] => []
  | p :: rest => (findDependingMem isa p rest).map (depEdge par p) ++ memEmissions isa par rest

/-- the load-node edges -/
def loadEmissions : List Ins → List Edge
  | [] => []
  | p :: rest => loadEdge p ++ loadEmissions rest

/-- every emission is a load-node edge, a register/flag dependency or a store→load dependency -/
theorem mem_emissions (isa : Isa) (fd : Bool) (par : Params) (k : List Ins) (e : Edge) :
    e ∈ emissions isa fd par k ↔
      e ∈ loadEmissions k ∨ e ∈ regEmissions isa fd par k ∨ e ∈ memEmissions isa par k := by
  induction k with
  | nil => simp [emissions, loadEmissions, regEmissions, memEmissions]
  | cons p rest ih =>
    rw [emissions_cons]
    simp only [loadEmissions, regEmissions, memEmissions, List.mem_append, List.mem_map, ih,
      mem_findDepending]
    constructor
    · rintro ((h | ⟨x, hx | hx, rfl⟩) | h | h | h)
      · exact Or.inl (Or.inl h)
      · exact Or.inr (Or.inl (Or.inl ⟨x, hx, rfl⟩))
      · exact Or.inr (Or.inr (Or.inl ⟨x, hx, rfl⟩))
      · exact Or.inl (Or.inr h)
      · exact Or.inr (Or.inl (Or.inr h))
      · exact Or.inr (Or.inr (Or.inr h))
    · rintro ((h | h) | (⟨x, hx, rfl⟩ | h) | (⟨x, hx, rfl⟩ | h))
      · exact Or.inl (Or.inl h)
      · exact Or.inr (Or.inl h)
      · exact Or.inl (Or.inr ⟨x, Or.inl hx, rfl⟩)
      · exact Or.inr (Or.inr (Or.inl h))
      · exact Or.inl (Or.inr ⟨x, Or.inr hx, rfl⟩)
      · exact Or.inr (Or.inr (Or.inr h))

/-- the register/flag emissions occur among all emissions in the same relative order -/
theorem regEmissions_sublist (isa : Isa) (fd : Bool) (par : Params) (k : List Ins) :
    (regEmissions isa fd par k).Sublist (emissions isa fd par k) := by
  induction k with
  | nil => simp [emissions, regEmissions]
  | cons p rest ih =>
    rw [emissions_cons]
    simp only [regEmissions]
    refine List.Sublist.append ?_ ih
    exact (((findDependingReg_sublist isa fd p rest).map _).trans (List.sublist_append_right _ _))

/-- register/flag emissions by producer position -/
theorem mem_regEmissions (isa : Isa) (fd : Bool) (par : Params) (k : List Ins) (e : Edge) :
    e ∈ regEmissions isa fd par k ↔
      ∃ i p, k[i]? = some p ∧ ∃ x ∈ findDependingReg isa fd p (k.drop (i + 1)), e = depEdge par p x := by
  induction k with
  | nil => simp [regEmissions]
  | cons q rest ih =>
    simp only [regEmissions, List.mem_append, List.mem_map, ih]
    constructor
    · rintro (⟨x, hx, rfl⟩ | ⟨i, p, hi, x, hx, rfl⟩)
      · exact ⟨0, q, by simp, x, by simpa using hx, rfl⟩
      · exact ⟨i + 1, p, by simpa using hi, x, by simpa using hx, rfl⟩
    · rintro ⟨i, p, hi, x, hx, rfl⟩
      cases i with
      | zero =>
        simp only [List.getElem?_cons_zero, Option.some.injEq] at hi
        subst hi
        exact Or.inl ⟨x, by simpa using hx, rfl⟩
      | succ i =>
        exact Or.inr ⟨i, p, by simpa using hi, x, by simpa using hx, rfl⟩

/-! ### `dedupLast` (`add_edge`): same pairs, each once, weight of the last emission -/

/-- the (source, target) pair of an edge — the key of networkx' `add_edge` -/
def pairOf (e : Edge) : Node × Node := (e.src, e.dst)

theorem dedupLast_snoc (es : List Edge) (x : Edge) : dedupLast (es ++ [x]) = addEdge (dedupLast es) x := by
  simp [dedupLast, List.foldl_append]

theorem any_pair_iff (acc : List Edge) (x : Edge) :
    acc.any (fun f => f.src == x.src && f.dst == x.dst) = true ↔ ∃ f ∈ acc, pairOf f = pairOf x := by
  simp [pairOf, List.any_eq_true]

/-- membership after one `add_edge`: the new edge itself, and the old edges of other pairs -/
theorem mem_addEdge (acc : List Edge) (x e : Edge) :
    e ∈ addEdge acc x ↔ e = x ∨ (e ∈ acc ∧ pairOf e ≠ pairOf x) := by
  unfold addEdge
  by_cases h : acc.any (fun f => f.src == x.src && f.dst == x.dst) = true
  · rw [if_pos h]
    simp only [List.mem_map]
    constructor
    · rintro ⟨f, hf, rfl⟩
      by_cases hc : (f.src == x.src && f.dst == x.dst) = true
      · left
        simp only [hc, if_true]
        simp only [Bool.and_eq_true, beq_iff_eq] at hc
        cases x; cases f; simp_all
      · right
        simp only [hc]
        refine ⟨hf, ?_⟩
        simpa [pairOf] using hc
    · rintro (rfl | ⟨he, hne⟩)
      · obtain ⟨f, hf, hp⟩ := (any_pair_iff acc e).mp h
        refine ⟨f, hf, ?_⟩
        simp only [pairOf, Prod.mk.injEq] at hp
        simp only [hp.1, hp.2, beq_self_eq_true, Bool.and_self, if_true]
      · refine ⟨e, he, ?_⟩
        have : (e.src == x.src && e.dst == x.dst) = false := by
          simpa [pairOf] using hne
        simp [this]
  · rw [if_neg h]
    simp only [List.mem_append, List.mem_singleton]
    constructor
    · rintro (he | rfl)
      · right
        refine ⟨he, fun hp => h ((any_pair_iff acc x).mpr ⟨e, he, hp⟩)⟩
      · exact Or.inl rfl
    · rintro (rfl | ⟨he, _⟩)
      · exact Or.inr rfl
      · exact Or.inl he

theorem map_pairOf_addEdge (acc : List Edge) (x : Edge) :
    (addEdge acc x).map pairOf =
      if acc.any (fun f => f.src == x.src && f.dst == x.dst) then acc.map pairOf
      else acc.map pairOf ++ [pairOf x] := by
  unfold addEdge
  split
  · rw [List.map_map]
    apply List.map_congr_left
    intro f _
    simp only [Function.comp]
    split <;> rfl
  · simp

/-- **exact characterisation of `dedupLast`**: an edge is in the result iff it is the *last* emission
    for its (source, target) pair -/
theorem mem_dedupLast (es : List Edge) (e : Edge) :
    e ∈ dedupLast es ↔ ∃ pre post, es = pre ++ e :: post ∧ ∀ f ∈ post, pairOf f ≠ pairOf e := by
  induction es using List.reverseRecOn with
  | nil => simp [dedupLast]
  | append_singleton es x ih =>
    rw [dedupLast_snoc, mem_addEdge, ih]
    constructor
    · rintro (rfl | ⟨⟨pre, post, rfl, hpost⟩, hne⟩)
      · exact ⟨es, [], rfl, by simp⟩
      · refine ⟨pre, post ++ [x], by simp, ?_⟩
        intro f hf
        rcases List.mem_append.mp hf with hf | hf
        · exact hpost f hf
        · simp only [List.mem_singleton] at hf
          subst hf
          exact fun h => hne h.symm
    · rintro ⟨pre, post, heq, hpost⟩
      rcases List.eq_nil_or_concat post with rfl | ⟨post', y, rfl⟩
      · left
        have := List.append_inj_right' (t₁ := [x]) (t₂ := [e]) (by simpa using heq) rfl
        simpa using this.symm
      · right
        rw [List.concat_eq_append] at heq hpost
        have heq' : es ++ [x] = (pre ++ e :: post') ++ [y] := by simpa using heq
        have h1 := List.append_inj_left' heq' rfl
        have h2 := List.append_inj_right' heq' rfl
        simp only [List.cons.injEq, and_true] at h2
        subst h2
        refine ⟨⟨pre, post', h1, fun f hf => hpost f (List.mem_append_left _ hf)⟩, ?_⟩
        exact fun h => hpost x (by simp) h.symm

/-- each (source, target) pair occurs once in `dedupLast` -/
theorem dedupLast_nodup (es : List Edge) : ((dedupLast es).map pairOf).Nodup := by
  induction es using List.reverseRecOn with
  | nil => simp [dedupLast]
  | append_singleton es x ih =>
    rw [dedupLast_snoc, map_pairOf_addEdge]
    split
    · exact ih
    · rename_i h
      refine List.nodup_append.mpr ⟨ih, by simp, ?_⟩
      intro pr hpr b hx heq
      simp only [List.mem_singleton] at hx
      subst hx
      subst heq
      obtain ⟨f, hf, hp⟩ := List.mem_map.mp hpr
      exact h ((any_pair_iff _ x).mpr ⟨f, hf, hp⟩)

/-- a list with an element satisfying `P` has a last such element -/
theorem exists_last {α : Type} (P : α → Prop) (l : List α) (h : ∃ a ∈ l, P a) :
    ∃ pre a post, l = pre ++ a :: post ∧ P a ∧ ∀ b ∈ post, ¬ P b := by
  induction l with
  | nil => simp at h
  | cons c l ih =>
    by_cases ht : ∃ a ∈ l, P a
    · obtain ⟨pre, a, post, rfl, ha, hpost⟩ := ih ht
      exact ⟨c :: pre, a, post, rfl, ha, hpost⟩
    · obtain ⟨a, ha, hpa⟩ := h
      rcases List.mem_cons.mp ha with rfl | ha
      · exact ⟨[], a, l, rfl, hpa, fun b hb hpb => ht ⟨b, hb, hpb⟩⟩
      · exact absurd ⟨a, ha, hpa⟩ ht

/-- `dedupLast` has exactly the (source, target) pairs of its input -/
theorem dedupLast_pairs_iff (es : List Edge) (pr : Node × Node) :
    pr ∈ (dedupLast es).map pairOf ↔ pr ∈ es.map pairOf := by
  simp only [List.mem_map]
  constructor
  · rintro ⟨e, he, rfl⟩
    obtain ⟨pre, post, rfl, _⟩ := (mem_dedupLast es e).mp he
    exact ⟨e, by simp, rfl⟩
  · rintro ⟨e, he, rfl⟩
    obtain ⟨pre, a, post, rfl, ha, hpost⟩ := exists_last (fun f => pairOf f = pairOf e) es ⟨e, he, rfl⟩
    refine ⟨a, (mem_dedupLast _ a).mpr ⟨pre, post, rfl, ?_⟩, ha⟩
    intro f hf hp
    exact hpost f hf (hp.trans ha)

end OsacaVerif.DG
