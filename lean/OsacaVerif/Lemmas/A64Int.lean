import OsacaVerif.Model.ParseA64
import OsacaVerif.Spec.RenderA64
import OsacaVerif.Lemmas.A64Num
/-
  `int(text, 0)` / `int(text)` of the model on rendered numerals (decimal and hexadecimal, ∀ n).
-/
namespace OsacaVerif.ParseA64
open OsacaVerif.Text OsacaVerif.Spec.A64

theorem isDigitC_ne (c : Nat) (h : isDigitC c = true) : c ≠ 45 ∧ c ≠ 120 ∧ c ≠ 88 := by
  simp only [isDigitC] at h; simp at h; omega

/-- decimal text: digits, no leading zero unless the value is zero -/
theorem pyNat0_digits (t : Txt) (hne : t ≠ []) (hd : t.all isDigitC = true)
    (hz : t.head? = some 48 → natOfDigits 10 t = 0) : pyNat0 t = some (natOfDigits 10 t) := by
  unfold pyNat0
  split
  · rename_i h
    have := isDigitC_ne 120 (by simp at hd; exact hd.2.1)
    omega
  · rename_i h
    have := isDigitC_ne 88 (by simp at hd; exact hd.2.1)
    omega
  · have hne' : t.isEmpty = false := by cases t <;> simp_all
    simp only [hne', hd, Bool.not_false, Bool.and_self, if_true]
    by_cases h48 : t.head? = some 48
    · simp [hz h48]
    · simp [h48]

theorem pyNat0_showNat (n : Nat) : pyNat0 (showNat n) = some n := by
  rw [pyNat0_digits (showNat n) (showNat_ne_nil n) (showNat_all n)
    (fun h => by rw [natOfDigits_showNat]; exact showNat_head_zero n h), natOfDigits_showNat]

theorem showNat_head_ne_minus (n : Nat) : ∀ r, showNat n ≠ 45 :: r := by
  intro r h
  have := showNat_digits n 45 (by rw [h]; simp)
  simp [isDigitC] at this

/-- **decimal immediates round-trip** (∀ n): `int(str(n), 0) = n` -/
theorem pyInt0_showNat (n : Nat) : pyInt0 (showNat n) = some (n : Int) := by
  unfold pyInt0
  split
  · rename_i r h; exact absurd h (showNat_head_ne_minus n r)
  · rw [pyNat0_showNat]; rfl

/-- negative decimal immediates (∀ n): `int("-" + str(n), 0) = -n` -/
theorem pyInt0_neg_showNat (n : Nat) : pyInt0 (45 :: showNat n) = some (- (n : Int)) := by
  simp [pyInt0, pyNat0_showNat, negInt]

theorem pyNat10_showNat (n : Nat) : pyNat10 (showNat n) = some n := by
  have hne : (showNat n).isEmpty = false := by
    cases h : showNat n with
    | nil => exact absurd h (showNat_ne_nil n)
    | cons _ _ => rfl
  simp [pyNat10, hne, showNat_all, natOfDigits_showNat]

/-- `int(str(n)) = n` (shift amounts are read in base 10) -/
theorem pyInt10_showNat (n : Nat) : pyInt10 (showNat n) = some (n : Int) := by
  unfold pyInt10
  split
  · rename_i r h; exact absurd h (showNat_head_ne_minus n r)
  · rw [pyNat10_showNat]; rfl

/-! ### hexadecimal -/
theorem hexDigit_isHex (up : Bool) (d : Nat) (h : d < 16) : isHexC (hexDigit up d) = true := by
  simp only [hexDigit, isHexC, isDigitC]
  split
  · simp; omega
  · split <;> (simp; omega)

theorem digitVal_hexDigit (up : Bool) (d : Nat) (h : d < 16) : digitVal (hexDigit up d) = d := by
  simp only [hexDigit, digitVal, isDigitC]
  split
  · have : decide (48 ≤ 48 + d ∧ 48 + d ≤ 57) = true := by simp; omega
    simp only [this, if_true]; omega
  · split
    · have : decide (48 ≤ 55 + d ∧ 55 + d ≤ 57) = false := by simp; omega
      simp only [this]; simp; omega
    · have : decide (48 ≤ 87 + d ∧ 87 + d ≤ 57) = false := by simp; omega
      simp only [this]; simp; omega

theorem showHex_all (up : Bool) (n : Nat) : (showHex up n).all isHexC = true := by
  rw [List.all_eq_true]
  exact showBase_all 16 (hexDigit up) (by omega) (fun c => isHexC c = true) (hexDigit_isHex up) n

theorem natOfDigits_showHex (up : Bool) (n : Nat) : natOfDigits 16 (showHex up n) = n :=
  natOfDigits_showBase 16 (hexDigit up) (by omega) (digitVal_hexDigit up) n

theorem hexBody_showHex (up : Bool) (n : Nat) : hexBody (showHex up n) = some n := by
  have hne : (showHex up n).isEmpty = false := by
    cases h : showHex up n with
    | nil => exact absurd h (showBase_ne_nil 16 (hexDigit up) n)
    | cons _ _ => rfl
  simp [hexBody, hne, showHex_all, natOfDigits_showHex]

/-- **hexadecimal immediates round-trip** (∀ n, lower- and upper-case digits):
    `int("0x" + hex(n), 0) = n` -/
theorem pyInt0_showHex (up : Bool) (n : Nat) : pyInt0 (48 :: 120 :: showHex up n) = some (n : Int) := by
  simp [pyInt0, pyNat0, hexBody_showHex, posInt]

theorem pyInt0_neg_showHex (up : Bool) (n : Nat) :
    pyInt0 (45 :: 48 :: 120 :: showHex up n) = some (- (n : Int)) := by
  simp [pyInt0, pyNat0, hexBody_showHex, negInt]

end OsacaVerif.ParseA64
