import OsacaVerif.Lemmas.A64Float
/-
  Register lists `{v0.4s, v1.4s}[1]` and ranges `{v0.4s - v3.4s}`: the grammar level.
-/
namespace OsacaVerif.ParseA64
open OsacaVerif.Text OsacaVerif.Spec.A64 OsacaVerif.Gen

/-- an element of the covered domain: scalar register or vector register with optional lanes/shape -/
inductive ElemOk : ElemA → Prop where
  | scalar (p n : Nat) (hp : isScalarPrefixC p = true) : ElemOk (.scalar p n)
  | vec (p n : Nat) (lanes : Option Txt) (shape : Option Nat) (hp : isVectorPrefixC p = true)
      (hl : LanesOk lanes) (hs : ShapeOk shape) : ElemOk (.vec p n lanes shape)

def elemTok : ElemA → Elem
  | .scalar p n => { pre := some [p], name := some (showNat n) }
  | .vec p n lanes shape => vecElem p n lanes shape none

/-- what may stand behind a list element: a blank, `,`, `-` or `}` -/
def ElemStop (rest : Txt) : Prop :=
  ∀ c r, rest = c :: r → isBlankC c = true ∨ c = 44 ∨ c = 45 ∨ c = 125

theorem ElemStop.stops (p : Nat → Bool) (rest : Txt) (h : ElemStop rest)
    (hp : p 32 = false ∧ p 9 = false ∧ p 44 = false ∧ p 45 = false ∧ p 125 = false) : StopsAt p rest := by
  intro c r hc
  rcases h c r hc with hb | rfl | rfl | rfl
  · simp [isBlankC] at hb; rcases hb with rfl | rfl <;> simp [hp]
  · exact hp.2.2.1
  · exact hp.2.2.2.1
  · exact hp.2.2.2.2

theorem laneShapeNS_some (lanes : Option Txt) (s : Nat) (rest : Txt) (hl : LanesOk lanes) (hs : isAlphaC s = true) :
    laneShape false (shapeText lanes (some s) ++ rest) = some ((lanes, [s]), rest) := by
  have hsl : isLaneC s = false := by
    cases h : isLaneC s with
    | false => rfl
    | true => have := lane_digit s h; rw [alpha_not_digit s hs] at this; cases this
  have hlit : lit false [46] (shapeText lanes (some s) ++ rest) = some (lanesText lanes ++ (s :: rest)) := by
    simp [shapeText, lit, sk_false, dropPrefix]
  cases lanes with
  | none =>
    have hw : word false isLaneC (s :: rest) = none := by
      simp only [word, sk_false]
      exact wordNS_none isLaneC _ (by intro c r h; simp at h; rw [← h.1]; exact hsl)
    simp [laneShape, hlit, lanesText, optP, hw, sk_false, char1, charNS, hs]
  | some l =>
    obtain ⟨hne, hall⟩ := hl l rfl
    match l, hne with
    | c :: l', _ =>
      have hw : word false isLaneC (c :: l' ++ (s :: rest)) = some (c :: l', s :: rest) := by
        simp only [word, sk_false, List.cons_append]
        exact wordNS_append isLaneC c l' _ hall (by intro d r h; simp at h; rw [← h.1]; exact hsl)
      simp only [laneShape, hlit, lanesText, optP, hw]
      simp [char1, sk_false, charNS, hs]

theorem elemText_scalar (p n : Nat) : elemText (.scalar p n) = p :: showNat n := rfl

/-- one element inside the braces (no white space inside an element) -/
theorem listElem_text (e : ElemA) (he : ElemOk e) (g rest : Txt) (hg : Blank g) (hr : ElemStop rest) :
    listElem (g ++ (elemText e ++ rest)) = some (elemTok e, rest) := by
  have hdstop : StopsAt isDigitC rest := hr.stops _ _ (by decide)
  cases he with
  | scalar p n hp =>
    have hal := scalarPrefix_alpha p hp
    have hws := alpha_not_ws p hal
    obtain ⟨d, ds, hd, hdd⟩ := showNat_cons n
    have hsc : scalarP false (p :: (showNat n ++ rest)) = some ({ pre := some [p], name := some (showNat n) }, rest) := by
      simp only [scalarP, char1, sk_false, charNS, hp, if_true, word]
      rw [hd, List.cons_append, wordNS_append isDigitC d ds rest (by rw [← hd]; exact showNat_digits n) hdstop]
    have hv : vectorP false (p :: (showNat n ++ rest)) = none := by
      simp [vectorP, char1, sk_false, charNS, scalarPrefix_not_vector p hp]
    simp only [listElem, elemText_scalar, List.cons_append, skipWs_blank_append g _ hg, skipWs_cons p _ hws, hsc, hv,
      better_none_left, elemTok]
  | vec p n lanes shape hp hl hs =>
    have hal := vectorPrefix_alpha p hp
    have hws := alpha_not_ws p hal
    obtain ⟨d, ds, hd, hdd⟩ := showNat_cons n
    have hnotsc : isScalarPrefixC p = false := by
      cases h : isScalarPrefixC p with
      | false => rfl
      | true => have := scalarPrefix_not_vector p h; rw [hp] at this; cases this
    have hsc : scalarP false (p :: (showNat n ++ (shapeText lanes shape ++ rest))) = none := by
      simp [scalarP, char1, sk_false, charNS, hnotsc]
    have h91 : lit false [91] rest = none := by
      cases rest with
      | nil => rfl
      | cons c r =>
        have : c ≠ 91 := by
          rcases hr c r rfl with hb | rfl | rfl | rfl
          · simp [isBlankC] at hb; rcases hb with rfl | rfl <;> decide
          all_goals decide
        simp [lit, sk_false, dropPrefix, this]
    have hix : optP false (indexP false) rest = (none, rest) := by
      simp [optP, indexP, h91, sk_false]
    have hstop : StopsAt isDigitC (shapeText lanes shape ++ rest) := by
      intro c r h
      cases shape with
      | some s => simp [shapeText] at h; rw [← h.1]; decide
      | none => simp [shapeText] at h; exact hdstop c r h
    have hname : word false isDigitC (showNat n ++ (shapeText lanes shape ++ rest)) =
        some (showNat n, shapeText lanes shape ++ rest) := by
      simp only [word, sk_false]
      rw [hd, List.cons_append]
      exact wordNS_append isDigitC d ds _ (by rw [← hd]; exact showNat_digits n) hstop
    have hv : vectorP false (p :: (showNat n ++ (shapeText lanes shape ++ rest))) =
        some (vecElem p n lanes shape none, rest) := by
      cases shape with
      | some s =>
        have hls := laneShapeNS_some lanes s rest hl (hs s rfl)
        simp only [vectorP, char1, sk_false, charNS, hp, if_true, hname, optP_some false (laneShape false) _ _ _ hls,
          hix, vecElem]
      | none =>
        have h46 : lit false [46] rest = none := by
          cases rest with
          | nil => rfl
          | cons c r =>
            have : c ≠ 46 := by
              rcases hr c r rfl with hb | rfl | rfl | rfl
              · simp [isBlankC] at hb; rcases hb with rfl | rfl <;> decide
              all_goals decide
            simp [lit, sk_false, dropPrefix, this]
        have hlsn : laneShape false rest = none := by simp [laneShape, h46]
        simp only [shapeText, List.nil_append] at hname ⊢
        simp only [vectorP, char1, sk_false, charNS, hp, if_true, hname, optP_none false (laneShape false) _ hlsn,
          hix, vecElem]
    simp only [listElem, elemText_vec, List.cons_append, List.append_assoc, skipWs_blank_append g _ hg,
      skipWs_cons p _ hws, hsc, hv, better_none_right, elemTok]

/-! ### sequences of elements -/
/-- further elements: gap, delimiter, gap, element -/
structure More where
  g1 : Txt
  g2 : Txt
  e : ElemA

def More.Ok (x : More) : Prop := Blank x.g1 ∧ Blank x.g2 ∧ ElemOk x.e

def moreText (d : Nat) : List More → Txt → Txt
  | [], after => after
  | x :: xs, after => x.g1 ++ d :: (x.g2 ++ (elemText x.e ++ moreText d xs after))

/-- the closing brace behind the elements, after a gap -/
def BraceAfter (after : Txt) : Prop := ∃ gE E, Blank gE ∧ after = gE ++ 125 :: E

theorem BraceAfter.skip {after : Txt} (h : BraceAfter after) : ∃ E, skipWs after = 125 :: E := by
  obtain ⟨gE, E, hg, rfl⟩ := h
  exact ⟨E, by rw [skipWs_blank_append gE _ hg, skipWs_cons 125 _ (by decide)]⟩

theorem elemStop_more (d : Nat) (hd : d = 44 ∨ d = 45) (xs : List More) (after : Txt) (hx : ∀ x ∈ xs, x.Ok)
    (ha : BraceAfter after) : ElemStop (moreText d xs after) := by
  intro c r hc
  cases xs with
  | nil =>
    obtain ⟨gE, E, hg, rfl⟩ := ha
    simp only [moreText] at hc
    cases gE with
    | nil => simp at hc; right; right; right; exact hc.1.symm
    | cons b g' => simp at hc; left; rw [← hc.1]; exact hg.cons.1
  | cons x xs =>
    have ⟨h1, _, _⟩ := hx x (by simp)
    simp only [moreText] at hc
    cases hg : x.g1 with
    | nil => rw [hg] at hc; simp at hc; rcases hd with rfl | rfl
             · right; left; exact hc.1.symm
             · right; right; left; exact hc.1.symm
    | cons b g' => rw [hg] at hc; simp at hc; left; rw [← hc.1]; rw [hg] at h1; exact h1.cons.1

theorem lit_more_other (d d' : Nat) (hd : d = 44 ∨ d = 45) (hne : d' ≠ d) (h125 : d' ≠ 125) (xs : List More)
    (after : Txt) (hx : ∀ x ∈ xs, x.Ok) (ha : BraceAfter after) : lit true [d'] (moreText d xs after) = none := by
  cases xs with
  | nil =>
    obtain ⟨E, hE⟩ := ha.skip
    have : (125 : Nat) ≠ d' := fun h => h125 h.symm
    simp [moreText, lit, sk_true, hE, dropPrefix, this]
  | cons x xs =>
    have ⟨h1, _, _⟩ := hx x (by simp)
    have hws : isWs d = false := by rcases hd with rfl | rfl <;> decide
    have : d ≠ d' := fun h => hne h.symm
    simp [moreText, lit, sk_true, skipWs_blank_append _ _ h1, skipWs_cons d _ hws, dropPrefix, this]

/-- `ZeroOrMore(delim + element)` over the rendered further elements -/
theorem delimRest_more (d : Nat) (hd : d = 44 ∨ d = 45) (xs : List More) (after : Txt) (fuel : Nat)
    (hfuel : xs.length ≤ fuel) (hx : ∀ x ∈ xs, x.Ok) (ha : BraceAfter after) :
    delimRest d fuel (moreText d xs after) = (xs.map (fun x => elemTok x.e), after) := by
  have hws : isWs d = false := by rcases hd with rfl | rfl <;> decide
  induction xs generalizing fuel with
  | nil =>
    have hl : lit true [d] after = none := by
      obtain ⟨E, hE⟩ := ha.skip
      have : (125 : Nat) ≠ d := by rcases hd with rfl | rfl <;> decide
      simp [lit, sk_true, hE, dropPrefix, this]
    cases fuel with
    | zero => rfl
    | succ f => simp [moreText, delimRest, hl]
  | cons x xs ih =>
    cases fuel with
    | zero => simp at hfuel
    | succ f =>
      have ⟨h1, h2, he⟩ := hx x (by simp)
      have hrest : ∀ y ∈ xs, y.Ok := fun y hy => hx y (by simp [hy])
      have hl : lit true [d] (moreText d (x :: xs) after) = some (x.g2 ++ (elemText x.e ++ moreText d xs after)) := by
        simp [moreText, lit, sk_true, skipWs_blank_append _ _ h1, skipWs_cons d _ hws, dropPrefix]
      have hel := listElem_text x.e he x.g2 (moreText d xs after) h2 (elemStop_more d hd xs after hrest ha)
      have := ih f (by simpa using hfuel) hrest
      simp only [delimRest, hl, hel, this, List.map_cons]

theorem moreText_length (d : Nat) (xs : List More) (after : Txt) : xs.length ≤ (moreText d xs after).length := by
  induction xs with
  | nil => simp
  | cons x xs ih => simp [moreText]; omega

/-- `delimitedList(element, d)` over a rendered element sequence: all elements; the position behind
    them (after white space if there was only one element) -/
theorem delimList_text (d : Nat) (hd : d = 44 ∨ d = 45) (g0 : Txt) (e0 : ElemA) (xs : List More) (after : Txt)
    (hg0 : Blank g0) (he0 : ElemOk e0) (hx : ∀ x ∈ xs, x.Ok) (ha : BraceAfter after) :
    delimList d (g0 ++ (elemText e0 ++ moreText d xs after)) =
      some (elemTok e0 :: xs.map (fun x => elemTok x.e), if xs.isEmpty then skipWs after else after) := by
  have hel := listElem_text e0 he0 g0 (moreText d xs after) hg0 (elemStop_more d hd xs after hx ha)
  have hdr := delimRest_more d hd xs after (moreText d xs after).length (moreText_length d xs after) hx ha
  simp only [delimList, hel, hdr]
  cases xs with
  | nil => simp [moreText]
  | cons x xs => simp

/-- the other delimiter finds only the first element -/
theorem delimList_other (d d' : Nat) (hd : d = 44 ∨ d = 45) (hd' : d' = 44 ∨ d' = 45) (hne : d' ≠ d) (g0 : Txt)
    (e0 : ElemA) (xs : List More) (after : Txt) (hg0 : Blank g0) (he0 : ElemOk e0) (hx : ∀ x ∈ xs, x.Ok)
    (ha : BraceAfter after) :
    delimList d' (g0 ++ (elemText e0 ++ moreText d xs after)) =
      some ([elemTok e0], skipWs (moreText d xs after)) := by
  have hel := listElem_text e0 he0 g0 (moreText d xs after) hg0 (elemStop_more d hd xs after hx ha)
  have hl := lit_more_other d d' hd hne (by rcases hd' with rfl | rfl <;> decide) xs after hx ha
  have hdr : delimRest d' (moreText d xs after).length (moreText d xs after) = ([], moreText d xs after) := by
    cases (moreText d xs after).length with
    | zero => rfl
    | succ f => simp [delimRest, hl]
  simp only [delimList, hel, hdr]

end OsacaVerif.ParseA64
