import OsacaVerif.Lemmas.A64IdentFull
import OsacaVerif.Lemmas.Text
/-
  Memory references `[base]`, `[base, #imm]`, `[base, index]`, `[base, index, lsl #n]`, with `!` or a
  post-index immediate — as the last operand of a line.
-/
namespace OsacaVerif.ParseA64
open OsacaVerif.Text OsacaVerif.Spec.A64 OsacaVerif.Gen

/-! ### shift / extend operators -/
/-- literal and text agree (caselessly) as far as both go -/
def ciCompat : Txt → Txt → Bool
  | [], _ => true
  | _ :: _, [] => true
  | a :: l, c :: t => lowerC c == a && ciCompat l t

theorem dropPrefixCI_incompat (l w rest : Txt) (h : ciCompat l w = false) : dropPrefixCI (w ++ rest) l = none := by
  induction w generalizing l with
  | nil => cases l <;> simp [ciCompat] at h
  | cons c w ih =>
    cases l with
    | nil => simp [ciCompat] at h
    | cons a l =>
      simp only [List.cons_append, dropPrefixCI]
      by_cases hc : lowerC c = a
      · simp only [hc, beq_self_eq_true, if_true]
        apply ih
        simpa [ciCompat, hc] using h
      · simp [hc]

theorem ciCompat_lower (l w : Txt) : ciCompat l (lower w) = ciCompat l w := by
  induction w generalizing l with
  | nil => cases l <;> rfl
  | cons c w ih =>
    cases l with
    | nil => rfl
    | cons a l =>
      have : lowerC (lowerC c) = lowerC c := lowerC_lowerC c
      simp only [lower, List.map_cons, ciCompat, this] at ih ⊢
      rw [ih]

/-- the operators that scale a memory index -/
def scaleOps : List Txt := [ofString "lsl", ofString "uxtw", ofString "sxtw", ofString "sxtx"]

theorem scaleOps_in_shiftOps : ∀ l ∈ scaleOps, l ∈ A64.shiftOps := by decide
theorem scaleOps_valid : ∀ l ∈ scaleOps, A64.validShiftOps.contains l = true := by decide
theorem scaleOps_distinct : ∀ l ∈ scaleOps, ∀ l' ∈ A64.shiftOps, l' ≠ l → ciCompat l' l = false := by decide
theorem scaleOps_head : ∀ l ∈ scaleOps, headAlpha l = true := by decide

/-- a shift operator as written (any case) is read as its lower-case form -/
theorem shiftOp_match (g op after : Txt) (hg : Blank g) (hop : lower op ∈ scaleOps)
    (hend : ∀ c r, after = c :: r → isWordEndC c = false) :
    shiftOp (g ++ (op ++ after)) = some (lower op, after) := by
  have hhead : ∃ c w, op = c :: w ∧ isWs c = false := by
    have := scaleOps_head _ hop
    cases op with
    | nil => simp [lower, headAlpha] at this
    | cons c w =>
      refine ⟨c, w, rfl, alpha_not_ws c (alpha_of_lowerC_alpha c ?_)⟩
      simpa [lower, headAlpha] using this
  obtain ⟨c, w, hcw, hws⟩ := hhead
  rw [shiftOp_eq]
  suffices h : clitOr true A64.shiftOps (g ++ (op ++ after)) = some (lower op, after) by
    rw [h]; exact wordEnd_stop _ after hend
  apply clitOr_pointwise A64.shiftOps _ (lower op) after (scaleOps_in_shiftOps _ hop)
  intro l' hl'
  have hcl : clit true l' (g ++ (op ++ after)) = dropPrefixCI (op ++ after) l' := by
    simp only [clit, sk_true, skipWs_blank_append g _ hg]
    rw [hcw, List.cons_append, skipWs_cons c _ hws]
  rw [hcl]
  by_cases h : l' = lower op
  · rw [h, dropPrefixCI_append op (lower op) after rfl]; simp
  · have := scaleOps_distinct _ hop l' hl' h
    rw [ciCompat_lower] at this
    rw [dropPrefixCI_incompat l' op after this]; simp [h]

/-! ### base and index registers -/
theorem registerCore_scalar (g : Txt) (p n : Nat) (rest : Txt) (hg : Blank g) (hp : isScalarPrefixC p = true)
    (hstop : StopsAt isDigitC rest) :
    registerCore (g ++ p :: (showNat n ++ rest)) = some ({ pre := some [p], name := some (showNat n) }, rest) := by
  obtain ⟨d, ds, hd, hdd⟩ := showNat_cons n
  have hws := alpha_not_ws p (scalarPrefix_alpha p hp)
  unfold registerCore
  rw [scalarP_text g p n rest hg hp hstop]
  rw [vectorP_none_prefix g p _ hg hws (scalarPrefix_not_vector p hp)]
  rw [hd, List.cons_append]
  rw [aliasP_none_digit _ g p d _ hg hws hdd aliasSp_names, aliasP_none_digit _ g p d _ hg hws hdd aliasZr_names]
  simp [RegTok.ofElem]

/-- base / index register of the covered domain: a scalar register or one of the sp/zr aliases -/
inductive MemRegOk : RegA → Prop where
  | scalar (p n : Nat) (hp : isScalarPrefixC p = true) : MemRegOk (.scalar p n)
  | alias (t : Txt) (ht : t ∈ aliasTexts) : MemRegOk (.alias t)

def memRegTok : RegA → RegTok
  | .scalar p n => { pre := some [p], name := some (showNat n) }
  | .alias t => aliasTok t
  | _ => {}

theorem registerCore_memreg (r : RegA) (hr : MemRegOk r) (g rest : Txt) (hg : Blank g)
    (hstop : StopsAt isDigitC rest) :
    registerCore (g ++ (regText r ++ rest)) = some (memRegTok r, rest) := by
  cases hr with
  | scalar p n hp => simpa [regText, memRegTok] using registerCore_scalar g p n rest hg hp hstop
  | alias t ht => simpa [regText, memRegTok] using registerCore_alias t ht g rest hg

theorem memRegTok_noshift (r : RegA) (hr : MemRegOk r) :
    (memRegTok r).shiftOp = none ∧ (memRegTok r).shift = none ∧ (memRegTok r).list = none := by
  cases hr with
  | scalar p n hp => exact ⟨rfl, rfl, rfl⟩
  | alias t ht => simp only [memRegTok, aliasTok]; split <;> exact ⟨rfl, rfl, rfl⟩

/-- register without shift: the base, or an index that is not shifted -/
theorem registerP_memreg (r : RegA) (hr : MemRegOk r) (g rest : Txt) (hg : Blank g)
    (hstop : StopsAt isDigitC rest) (hsh : shiftTail rest = none) :
    registerP (g ++ (regText r ++ rest)) = some (memRegTok r, skipWs rest) := by
  obtain ⟨h1, h2, _⟩ := memRegTok_noshift r hr
  simp only [registerP, registerCore_memreg r hr g rest hg hstop, optP_none true shiftTail _ hsh, sk_true]
  cases h : memRegTok r
  simp_all

/-- what follows inside the brackets: a gap and the closing bracket -/
theorem follow_bracket (gv E : Txt) (hg : Blank gv) : Follow (gv ++ 93 :: E) := by
  have hsk : skipWs (gv ++ 93 :: E) = 93 :: E := by
    rw [skipWs_blank_append gv _ hg, skipWs_cons 93 _ (by decide)]
  refine ⟨?_, ?_, ?_, ?_⟩
  · intro c r hc
    cases gv with
    | nil => simp at hc; right; right; right; exact hc.1.symm
    | cons b g' => simp at hc; left; rw [← hc.1]; exact hg.cons.1
  · intro c r hc; rw [hsk] at hc; simp at hc; right; right; exact hc.1.symm
  · intro r hl; simp [lit, sk_true, hsk, dropPrefix] at hl
  · intro r hr; rw [hsk] at hr; simp at hr

/-! ### the shift of an index register -/
/-- shift amount as the grammar reads it -/
def amtTok (a : Option (Bool × Nat)) : Option ImmTok :=
  match a with
  | some x => some (.num (showNat x.2))
  | none => none

/-- text of the optional shift amount: a gap and `#n` / `n` -/
def amtText (a : Option (Bool × Nat)) (ga : Txt) : Txt :=
  match a with
  | some x => ga ++ (optHash x.1 ++ showNat x.2)
  | none => []

/-- an amount without `#` is separated from the operator by at least one blank (`lsl 3`; `lsl3` is a name) -/
def AmtGapOk (a : Option (Bool × Nat)) (ga : Txt) : Prop := ∀ x, a = some x → x.1 = false → ga ≠ []

theorem blank_not_wordEnd (b : Nat) (h : isBlankC b = true) : isWordEndC b = false := by
  simp [isBlankC] at h; rcases h with rfl | rfl <;> decide

/-- behind the shift operator of an index register no word character follows -/
theorem amtText_wordEnd (a : Option (Bool × Nat)) (ga gv E : Txt) (hga : Blank ga) (hgv : Blank gv)
    (hgap : AmtGapOk a ga) : ∀ c r, amtText a ga ++ (gv ++ 93 :: E) = c :: r → isWordEndC c = false := by
  intro c r h
  cases a with
  | none =>
    simp only [amtText, List.nil_append] at h
    cases gv with
    | nil => simp at h; rw [← h.1]; decide
    | cons b g' => simp at h; rw [← h.1]; exact blank_not_wordEnd b hgv.cons.1
  | some x =>
    simp only [amtText] at h
    cases ga with
    | cons b g' => simp at h; rw [← h.1]; exact blank_not_wordEnd b hga.cons.1
    | nil =>
      cases hx : x.1 with
      | false => exact absurd rfl (hgap x rfl hx)
      | true => simp [hx, optHash] at h; rw [← h.1]; decide

theorem intText_amt (h : Bool) (n : Nat) : intText ⟨h, false, false, false, n⟩ = optHash h ++ showNat n := by
  simp [intText, optNeg]

theorem immediate_bracket_none (gv E : Txt) (hg : Blank gv) : immediate (gv ++ 93 :: E) = none :=
  immediate_none_head gv 93 E hg (by decide) (by decide) (by decide) (by decide)

/-- the optional amount after a shift operator, in front of the closing bracket -/
theorem amt_parse (a : Option (Bool × Nat)) (ga gv E : Txt) (hga : Blank ga) (hgv : Blank gv) :
    ∃ rA, optP true immediate (amtText a ga ++ (gv ++ 93 :: E)) = (amtTok a, rA) ∧
      skipWs rA = 93 :: E ∧ rA.length ≤ (amtText a ga ++ (gv ++ 93 :: E)).length := by
  have hsk : skipWs (gv ++ 93 :: E) = 93 :: E := by
    rw [skipWs_blank_append gv _ hgv, skipWs_cons 93 _ (by decide)]
  cases a with
  | none =>
    refine ⟨skipWs (gv ++ 93 :: E), ?_, by rw [skipWs_idem, hsk], ?_⟩
    · simp [amtText, amtTok, optP_none true immediate _ (immediate_bracket_none gv E hgv), sk_true]
    · simpa [amtText] using skipWs_length_le (gv ++ 93 :: E)
  | some x =>
    refine ⟨gv ++ 93 :: E, ?_, hsk, by simp [amtText]; omega⟩
    have := immediate_int ga ⟨x.1, false, false, false, x.2⟩ (gv ++ 93 :: E) hga (follow_bracket gv E hgv)
    rw [intText_amt] at this
    simp only [amtText, List.append_assoc] at this ⊢
    rw [optP_some true immediate _ _ _ this]
    simp [amtTok, optNeg, intDigits]

/-- `, op amount` behind an index register -/
theorem shiftTail_index (gw g2 op : Txt) (a : Option (Bool × Nat)) (ga gv E : Txt) (hgw : Blank gw)
    (hg2 : Blank g2) (hga : Blank ga) (hgv : Blank gv) (hop : lower op ∈ scaleOps) (hgap : AmtGapOk a ga) :
    ∃ rA, shiftTail (gw ++ 44 :: (g2 ++ (op ++ (amtText a ga ++ (gv ++ 93 :: E))))) =
        some ((lower op, amtTok a), rA) ∧ skipWs rA = 93 :: E ∧
      rA.length ≤ (amtText a ga ++ (gv ++ 93 :: E)).length := by
  obtain ⟨rA, hA, hsk, hlen⟩ := amt_parse a ga gv E hga hgv
  refine ⟨rA, ?_, hsk, hlen⟩
  have hlit : lit true [44] (gw ++ 44 :: (g2 ++ (op ++ (amtText a ga ++ (gv ++ 93 :: E))))) =
      some (g2 ++ (op ++ (amtText a ga ++ (gv ++ 93 :: E)))) := by
    simp [lit, sk_true, skipWs_blank_append gw _ hgw, skipWs_cons 44 _ (by decide : isWs 44 = false), dropPrefix]
  simp only [shiftTail, hlit, shiftOp_match g2 op _ hg2 hop (amtText_wordEnd a ga gv E hga hgv hgap), hA]

/-! ### the part between base and closing bracket -/
theorem memreg_word (r : RegA) (hr : MemRegOk r) :
    ∃ c w, regText r = c :: w ∧ isAlphaC c = true ∧ (∀ d ∈ w, isIdRestC d = true) := by
  cases hr with
  | scalar p n hp =>
    exact ⟨p, showNat n, rfl, scalarPrefix_alpha p hp, fun d hd => digit_idRest d (showNat_digits n d hd)⟩
  | alias t ht => simpa [regText] using alias_word t ht

/-- shift of the index as written: operator and optional amount -/
abbrev ShiftW := Txt × Option (Bool × Nat)

def shiftTextW (s : Option ShiftW) (gw g2 ga : Txt) : Txt :=
  match s with
  | none => []
  | some x => gw ++ 44 :: (g2 ++ (x.1 ++ amtText x.2 ga))

def idxTok (r : RegA) (s : Option ShiftW) : RegTok :=
  { memRegTok r with
    shiftOp := (match s with | some x => some (lower x.1) | none => none),
    shift := (match s with | some x => amtTok x.2 | none => none) }

def ShiftOk (s : Option ShiftW) : Prop := ∀ x, s = some x → lower x.1 ∈ scaleOps

theorem lit_comma_bracket (r : Txt) (E : Txt) (h : skipWs r = 93 :: E) : lit true [44] r = none := by
  simp [lit, sk_true, h, dropPrefix]

/-- **index register** (with optional shift) between base and closing bracket -/
theorem memMid_idx (r : RegA) (hr : MemRegOk r) (s : Option ShiftW) (hs : ShiftOk s) (g gw g2 ga gv E : Txt)
    (hg : Blank g) (hgw : Blank gw) (hg2 : Blank g2) (hga : Blank ga) (hgv : Blank gv)
    (hgap : ∀ x, s = some x → AmtGapOk x.2 ga) :
    ∃ r', memMid (g ++ (regText r ++ (shiftTextW s gw g2 ga ++ (gv ++ 93 :: E)))) =
        some (.idx (idxTok r s), r') ∧ skipWs r' = 93 :: E := by
  obtain ⟨c, w, hcw, hal, hw⟩ := memreg_word r hr
  obtain ⟨hns1, hns2, _⟩ := memRegTok_noshift r hr
  have hskV : skipWs (gv ++ 93 :: E) = 93 :: E := by
    rw [skipWs_blank_append gv _ hgv, skipWs_cons 93 _ (by decide)]
  have hfV := follow_bracket gv E hgv
  cases s with
  | none =>
    simp only [shiftTextW, List.nil_append]
    have hreg := registerP_memreg r hr g (gv ++ 93 :: E) hg (hfV.stops isDigitC _ (by decide))
      (shiftTail_none _ hfV)
    have hri : registerIndex (g ++ (regText r ++ (gv ++ 93 :: E))) = some (memRegTok r, skipWs (gv ++ 93 :: E)) := by
      simp only [registerIndex, hreg, lit_comma_bracket _ E (by rw [skipWs_idem, hskV])]
    have himm : immediate (g ++ (regText r ++ (gv ++ 93 :: E))) =
        some (.ident ⟨none, c :: w, none⟩, skipWs (gv ++ 93 :: E)) := by
      rw [hcw, List.cons_append]; exact immediate_word g c w _ hg hal hw hfV
    have har := arithP_none_of_immediate _ (gv ++ 93 :: E) _ _ himm (skipWs_idem _) hfV
    refine ⟨skipWs (gv ++ 93 :: E), ?_, by rw [skipWs_idem, hskV]⟩
    simp only [memMid, hri, himm, har, mapR_some, mapR_none, better_none_right]
    rw [better_some_ge _ _ _ _ (Nat.le_refl _)]
    have : idxTok r none = memRegTok r := by
      simp only [idxTok]; cases h : memRegTok r; simp_all
    rw [this]
  | some x =>
    have hop := hs x rfl
    have hgapx := hgap x rfl
    have hwe := amtText_wordEnd x.2 ga gv E hga hgv hgapx
    obtain ⟨rA, hst, hskA, hlenA⟩ := shiftTail_index gw g2 x.1 x.2 ga gv E hgw hg2 hga hgv hop hgapx
    simp only [shiftTextW, List.append_assoc, List.cons_append]
    -- W: everything behind the register
    generalize hW : gw ++ 44 :: (g2 ++ (x.1 ++ (amtText x.2 ga ++ (gv ++ 93 :: E)))) = W at hst ⊢
    have hskW : skipWs W = 44 :: (g2 ++ (x.1 ++ (amtText x.2 ga ++ (gv ++ 93 :: E)))) := by
      rw [← hW, skipWs_blank_append gw _ hgw, skipWs_cons 44 _ (by decide)]
    have hstopW : ∀ (p : Nat → Bool), p 32 = false → p 9 = false → p 44 = false → StopsAt p W := by
      intro p h32 h9 h44 c' r' hc'
      rw [← hW] at hc'
      cases gw with
      | nil => simp at hc'; rw [← hc'.1]; exact h44
      | cons b g' =>
        simp at hc'; rw [← hc'.1]
        have := hgw.cons.1
        simp [isBlankC] at this
        rcases this with rfl | rfl <;> assumption
    have hcore := registerCore_memreg r hr g W hg (hstopW isDigitC (by decide) (by decide) (by decide))
    have hreg : registerP (g ++ (regText r ++ W)) = some (idxTok r (some x), rA) := by
      simp only [registerP, hcore, optP_some true shiftTail _ _ _ hst, idxTok]
    have hri : registerIndex (g ++ (regText r ++ W)) = some (idxTok r (some x), rA) := by
      simp only [registerIndex, hreg, lit_comma_bracket rA E hskA]
    have hplus : lit true [43] W = none := by simp [lit, sk_true, hskW, dropPrefix]
    have himm : immediate (g ++ (regText r ++ W)) = some (.ident ⟨none, c :: w, none⟩, skipWs W) := by
      rw [hcw, List.cons_append]
      exact immediate_word' g c w W hg (alpha_idFirst c hal) hw (hstopW isIdRestC (by decide) (by decide) (by decide)) hplus
    obtain ⟨rA', hA', _, _⟩ := amt_parse x.2 ga gv E hga hgv
    have hrAeq : rA' = rA := by
      have h1 := hst
      rw [← hW] at h1
      have hlit : lit true [44] (gw ++ 44 :: (g2 ++ (x.1 ++ (amtText x.2 ga ++ (gv ++ 93 :: E))))) =
          some (g2 ++ (x.1 ++ (amtText x.2 ga ++ (gv ++ 93 :: E)))) := by
        simp [lit, sk_true, skipWs_blank_append gw _ hgw, skipWs_cons 44 _ (by decide : isWs 44 = false), dropPrefix]
      simp only [shiftTail, hlit, shiftOp_match g2 x.1 _ hg2 hop hwe, hA'] at h1
      simpa using h1
    subst hrAeq
    have har : arithP (g ++ (regText r ++ W)) =
        some ((.ident ⟨none, c :: w, none⟩, lower x.1, amtTok x.2), rA') := by
      have hlit : lit true [44] (skipWs W) = some (g2 ++ (x.1 ++ (amtText x.2 ga ++ (gv ++ 93 :: E)))) := by
        rw [lit_skip]; simp [lit, sk_true, hskW, dropPrefix]
      simp only [arithP, himm, hlit, shiftOp_match g2 x.1 _ hg2 hop hwe, hA']
    have hlen1 : rA'.length ≤ (skipWs W).length := by
      rw [hskW]; simp only [List.length_cons, List.length_append] at hlenA ⊢; omega
    refine ⟨rA', ?_, hskA⟩
    simp only [memMid, hri, himm, har, mapR_some]
    rw [better_some_ge _ _ _ _ hlen1, better_some_ge _ _ _ _ (Nat.le_refl _)]

theorem registerIndex_none_nonalpha (g : Txt) (c : Nat) (t : Txt) (hg : Blank g) (hc : isWs c = false)
    (ha : isAlphaC c = false) (h123 : c ≠ 123) : registerIndex (g ++ c :: t) = none := by
  simp [registerIndex, registerP_none_nonalpha g c t hg hc ha h123]

/-- **immediate offset** between base and closing bracket -/
theorem memMid_off (i : IntA) (g gv E : Txt) (hg : Blank g) (hgv : Blank gv) :
    memMid (g ++ (intText i ++ (gv ++ 93 :: E))) =
      some (.off (.imm (.num (optNeg i.neg ++ intDigits i))), gv ++ 93 :: E) := by
  have hfV := follow_bracket gv E hgv
  have himm := immediate_int g i (gv ++ 93 :: E) hg hfV
  have har := arithP_none_of_immediate _ (gv ++ 93 :: E) _ _ himm rfl hfV
  obtain ⟨c, t, hct, hws, ha, _, _⟩ := intText_head i
  have hri : registerIndex (g ++ (intText i ++ (gv ++ 93 :: E))) = none := by
    rw [hct, List.cons_append]
    have h123 : c ≠ 123 := by
      intro h; subst h
      -- `{` is not the first character of a number
      have := intText_eq i []
      obtain ⟨d, ds, hD, hd⟩ := intDigits_head i
      have hb := digit_bounds d hd
      simp only [List.append_nil] at this
      rw [this] at hct
      cases hh : i.hash <;> cases hn : i.neg <;> simp [optHash, optNeg, hh, hn, hD] at hct
      omega
    exact registerIndex_none_nonalpha g c _ hg hws ha h123
  simp [memMid, hri, himm, har]

/-- **identifier offset** (`#:lo12:name`, `name+8`, …) between base and closing bracket -/
theorem memMid_ident (i : IdentA) (hok : IdentOk i) (g gv E : Txt) (hg : Blank g) (hgv : Blank gv) :
    ∃ r', memMid (g ++ (identText i ++ (gv ++ 93 :: E))) = some (.off (.imm (.ident (identTok i))), r') ∧
      skipWs r' = 93 :: E := by
  have hfV := follow_bracket gv E hgv
  have hskV : skipWs (gv ++ 93 :: E) = 93 :: E := by
    rw [skipWs_blank_append gv _ hgv, skipWs_cons 93 _ (by decide)]
  obtain ⟨r2, himm, hsk2, _⟩ := immediate_identFull g i (gv ++ 93 :: E) hg hok hfV
  have har := arithP_none_of_immediate _ (gv ++ 93 :: E) _ _ himm hsk2 hfV
  have hreg := registerP_none_identFull g i (gv ++ 93 :: E) hg hok hfV
  refine ⟨r2, ?_, by rw [hsk2, hskV]⟩
  have hri : registerIndex (g ++ (identText i ++ (gv ++ 93 :: E))) = none := by simp [registerIndex, hreg]
  simp [memMid, hri, himm, har]

theorem memMid_bracket (E : Txt) : memMid (93 :: E) = none := by
  have hws : isWs 93 = false := by decide
  have h1 := registerIndex_none_nonalpha [] 93 E blank_nil hws (by decide) (by decide)
  have h2 := immediate_none_head [] 93 E blank_nil hws (by decide) (by decide) (by decide)
  simp only [List.nil_append] at h1 h2
  simp [memMid, h1, h2, arithP]

/-! ### pieces of a memory reference -/
def toW (s : Option ShiftA) : Option ShiftW :=
  match s with
  | some x => some (x.op, x.amt)
  | none => none

def midPieces (mid : MemMidA) : List Piece :=
  match mid with
  | .none => []
  | .off o => ([44], 1) :: offPieces o
  | .idx r s =>
    [([44], 1), (regText r, 1)] ++
    (match s with
     | none => []
     | some sh => [([44], 1), (sh.op, 1)] ++ (match sh.amt with | some a => [amtPiece a] | none => []))

def endPieces (pre : Bool) (post : Option IntA) : List Piece :=
  (if pre then [([33], 1)] else []) ++ (match post with | some i => [([44], 1), (intText i, 1)] | none => [])

theorem memPieces_eq (m : MemA) :
    memPieces m = ([91], 1) :: (regText m.base, 1) :: (midPieces m.mid ++ (([93], 1) :: endPieces m.pre m.post)) := by
  obtain ⟨base, mid, pre, post⟩ := m
  cases post <;> cases mid with
  | none => simp [memPieces, midPieces, endPieces]
  | off o => simp [memPieces, midPieces, endPieces]
  | idx r s =>
    cases s with
    | none => simp [memPieces, midPieces, endPieces]
    | some sh => cases h : sh.amt <;> simp [memPieces, midPieces, endPieces, h]

/-- covered memory references: base and index are scalar registers or sp/zr aliases, the offset is an
    integer, the index shift one of the scaling operators -/
def MidOk : MemMidA → Prop
  | .none => True
  | .off (.int _) => True
  | .off (.ident i) => IdentOk i
  | .idx r s => MemRegOk r ∧ ∀ x, s = some x → lower x.op ∈ scaleOps

def midTok : MemMidA → Option MemMid
  | .none => none
  | .off (.int i) => some (.off (.imm (.num (optNeg i.neg ++ intDigits i))))
  | .off (.ident i) => some (.off (.imm (.ident (identTok i))))
  | .idx r s => some (.idx (idxTok r (toW s)))

theorem innerOk_cons {p : Piece} {ps : List Piece} {gs : List Txt} (h : InnerOk (p :: ps) gs) :
    ∃ g gs', gs = g :: gs' ∧ Blank g ∧ InnerOk ps gs' := by
  cases gs with
  | nil => exact absurd h (by simp [InnerOk])
  | cons g gs' => exact ⟨g, gs', rfl, h.1, h.2.2⟩

/-- the same, keeping the requirement of a non-empty gap -/
theorem innerOk_cons' {p : Piece} {ps : List Piece} {gs : List Txt} (h : InnerOk (p :: ps) gs) :
    ∃ g gs', gs = g :: gs' ∧ Blank g ∧ (p.2 = 2 → g ≠ []) ∧ InnerOk ps gs' := by
  cases gs with
  | nil => exact absurd h (by simp [InnerOk])
  | cons g gs' => exact ⟨g, gs', rfl, h.1, h.2.1, h.2.2⟩

theorem innerOk_append (ps1 ps2 : List Piece) (gs : List Txt) (h : InnerOk (ps1 ++ ps2) gs) :
    ∃ gs1 gs2, InnerOk ps1 gs1 ∧ InnerOk ps2 gs2 ∧
      joinInner (ps1 ++ ps2) gs = joinInner ps1 gs1 ++ joinInner ps2 gs2 := by
  induction ps1 generalizing gs with
  | nil => exact ⟨[], gs, rfl, h, rfl⟩
  | cons p ps1 ih =>
    cases gs with
    | nil => exact absurd h (by simp [InnerOk])
    | cons g gs' =>
      obtain ⟨gs1, gs2, h1, h2, hj⟩ := ih gs' h.2.2
      exact ⟨g :: gs1, gs2, ⟨h.1, h.2.1, h1⟩, h2, by simp [joinInner, hj, List.append_assoc]⟩

theorem memreg_noShift (r : RegA) (hr : MemRegOk r) (g rest : Txt) (hg : Blank g) :
    shiftOp (g ++ (regText r ++ rest)) = none := by
  cases hr with
  | scalar p n hp =>
    obtain ⟨d, ds, hd, hdd⟩ := showNat_cons n
    simp only [regText, List.cons_append, hd]
    exact shiftOp_none_snd_digit g p d _ hg (alpha_not_ws p (scalarPrefix_alpha p hp)) hdd
  | alias t ht => exact (alias_no_keyword t ht g rest hg).2.2

theorem shiftTail_comma (gc s' : Txt) (hgc : Blank gc) (h : shiftOp s' = none) :
    shiftTail (gc ++ 44 :: s') = none := by
  have : lit true [44] (gc ++ 44 :: s') = some s' := by
    simp [lit, sk_true, skipWs_blank_append gc _ hgc, skipWs_cons 44 _ (by decide : isWs 44 = false), dropPrefix]
  simp [shiftTail, this, h]

theorem stops_gap_comma (p : Nat → Bool) (gc s' : Txt) (hgc : Blank gc)
    (hp : p 32 = false ∧ p 9 = false ∧ p 44 = false) : StopsAt p (gc ++ 44 :: s') := by
  intro c r hc
  cases gc with
  | nil => simp at hc; rw [← hc.1]; exact hp.2.2
  | cons b g' =>
    simp at hc; rw [← hc.1]
    have := hgc.cons.1
    simp [isBlankC] at this
    rcases this with rfl | rfl
    · exact hp.1
    · exact hp.2.1

theorem optLit_gap_comma (gc s' : Txt) (hgc : Blank gc) : optLit true [44] (gc ++ 44 :: s') = s' := by
  simp [optLit, lit, sk_true, skipWs_blank_append gc _ hgc, skipWs_cons 44 _ (by decide : isWs 44 = false), dropPrefix]

/-- everything between the base register and the closing bracket (∀ layouts of its pieces) -/
theorem mid_step (mid : MemMidA) (hmid : MidOk mid) (gs : List Txt) (hgs : InnerOk (midPieces mid) gs)
    (gv E : Txt) (hgv : Blank gv) :
    StopsAt isDigitC (joinInner (midPieces mid) gs ++ (gv ++ 93 :: E)) ∧
    shiftTail (joinInner (midPieces mid) gs ++ (gv ++ 93 :: E)) = none ∧
    ∃ r', optP true memMid (optLit true [44] (joinInner (midPieces mid) gs ++ (gv ++ 93 :: E))) = (midTok mid, r') ∧
      skipWs r' = 93 :: E := by
  have hfV := follow_bracket gv E hgv
  have hskV : skipWs (gv ++ 93 :: E) = 93 :: E := by
    rw [skipWs_blank_append gv _ hgv, skipWs_cons 93 _ (by decide)]
  match mid, hmid with
  | .none, _ =>
    have : gs = [] := hgs
    subst this
    simp only [midPieces, joinInner, List.nil_append]
    refine ⟨hfV.stops _ _ (by decide), shiftTail_none _ hfV, skipWs (skipWs (gv ++ 93 :: E)), ?_,
      by rw [skipWs_idem, skipWs_idem, hskV]⟩
    have hl : optLit true [44] (gv ++ 93 :: E) = skipWs (gv ++ 93 :: E) := by
      simp [optLit, lit_comma_bracket _ E hskV, sk_true]
    rw [hl, hskV, optP_none true memMid _ (memMid_bracket E)]
    simp [midTok, sk_true, skipWs]
  | .off (.int i), _ =>
    obtain ⟨gc, gs1, rfl, hgc, h1⟩ := innerOk_cons hgs
    obtain ⟨g', gs2, rfl, hg', h2⟩ := innerOk_cons h1
    have : gs2 = [] := h2
    subst this
    obtain ⟨c, t, hct, hws, ha, _, _⟩ := intText_head i
    have htext : joinInner (midPieces (.off (.int i))) [gc, g'] ++ (gv ++ 93 :: E) =
        gc ++ 44 :: (g' ++ (intText i ++ (gv ++ 93 :: E))) := by
      simp [midPieces, offPieces, joinInner, List.append_assoc]
    rw [htext]
    refine ⟨stops_gap_comma _ gc _ hgc (by decide), ?_, gv ++ 93 :: E, ?_, hskV⟩
    · apply shiftTail_comma gc _ hgc
      rw [hct, List.cons_append]
      exact shiftOp_none_nonalpha g' c _ hg' hws ha
    · rw [optLit_gap_comma gc _ hgc, optP_some true memMid _ _ _ (memMid_off i g' gv E hg' hgv)]
      rfl
  | .off (.ident i), hi =>
    have hok : IdentOk i := hi
    obtain ⟨gc, gs1, rfl, hgc, h1⟩ := innerOk_cons hgs
    obtain ⟨g', gs2, rfl, hg', h2⟩ := innerOk_cons h1
    have : gs2 = [] := h2
    subst this
    have htext : joinInner (midPieces (.off (.ident i))) [gc, g'] ++ (gv ++ 93 :: E) =
        gc ++ 44 :: (g' ++ (identText i ++ (gv ++ 93 :: E))) := by
      simp [midPieces, offPieces, joinInner, List.append_assoc]
    rw [htext]
    obtain ⟨r', hmm, hsk⟩ := memMid_ident i hok g' gv E hg' hgv
    refine ⟨stops_gap_comma _ gc _ hgc (by decide), ?_, r', ?_, hsk⟩
    · exact shiftTail_comma gc _ hgc ((goodRest_identFull i hok).noShift g' (gv ++ 93 :: E) hg' hfV)
    · rw [optLit_gap_comma gc _ hgc, optP_some true memMid _ _ _ hmm]; rfl
  | .idx r s, hm =>
    obtain ⟨hr, hs⟩ := hm
    obtain ⟨gc, gs1, rfl, hgc, h1⟩ := innerOk_cons hgs
    obtain ⟨g', gs2, rfl, hg', h2⟩ := innerOk_cons h1
    -- the shift part, whatever its layout, has the shape `shiftTextW`
    have hshape : ∃ gw g2 ga, Blank gw ∧ Blank g2 ∧ Blank ga ∧ (∀ x, toW s = some x → AmtGapOk x.2 ga) ∧
        joinInner (midPieces (.idx r s)) (gc :: g' :: gs2) ++ (gv ++ 93 :: E) =
          gc ++ 44 :: (g' ++ (regText r ++ (shiftTextW (toW s) gw g2 ga ++ (gv ++ 93 :: E)))) := by
      cases s with
      | none =>
        have : gs2 = [] := h2
        subst this
        exact ⟨[], [], [], blank_nil, blank_nil, blank_nil, by simp [toW],
          by simp [midPieces, joinInner, toW, shiftTextW]⟩
      | some sh =>
        obtain ⟨gw, gs3, rfl, hgw, h3⟩ := innerOk_cons h2
        obtain ⟨g2, gs4, rfl, hg2, h4⟩ := innerOk_cons h3
        cases ha : sh.amt with
        | none =>
          rw [ha] at h4
          have : gs4 = [] := h4
          subst this
          exact ⟨gw, g2, [], hgw, hg2, blank_nil,
            by intro x hx y hy; simp [toW] at hx; rw [← hx] at hy; simp [ha] at hy,
            by simp [midPieces, joinInner, toW, shiftTextW, ha, amtText, List.append_assoc]⟩
        | some a =>
          rw [ha] at h4
          obtain ⟨ga, gs5, rfl, hga, hne, h5⟩ := innerOk_cons' h4
          have : gs5 = [] := h5
          subst this
          refine ⟨gw, g2, ga, hgw, hg2, hga, ?_,
            by simp [midPieces, joinInner, toW, shiftTextW, ha, amtText, amtPiece, List.append_assoc]⟩
          intro x hx y hy hy1
          simp [toW] at hx; rw [← hx] at hy; simp [ha] at hy
          apply hne
          simp [amtPiece, hy, hy1]
    obtain ⟨gw, g2, ga, hgw, hg2, hga, hgap, htext⟩ := hshape
    rw [htext]
    have hsW : ShiftOk (toW s) := by
      intro x hx
      cases s with
      | none => simp [toW] at hx
      | some sh => simp [toW] at hx; rw [← hx]; exact hs sh rfl
    obtain ⟨r', hmm, hsk⟩ := memMid_idx r hr (toW s) hsW g' gw g2 ga gv E hg' hgw hg2 hga hgv hgap
    refine ⟨stops_gap_comma _ gc _ hgc (by decide), ?_, r', ?_, hsk⟩
    · exact shiftTail_comma gc _ hgc (memreg_noShift r hr g' _ hg')
    · rw [optLit_gap_comma gc _ hgc, optP_some true memMid _ _ _ hmm]; rfl

/-! ### after the closing bracket -/
def endTok (pre : Bool) (post : Option IntA) : Option MemPost :=
  if pre then some .bang
  else match post with
    | some i => some (.post (.num (optNeg i.neg ++ intDigits i)))
    | none => none

/-- `!`, a post-index immediate, or nothing — at the end of the line -/
theorem end_step (pre : Bool) (post : Option IntA) (hpp : pre = true → post = none) (gs : List Txt)
    (hgs : InnerOk (endPieces pre post) gs) (rest : Txt) (ht : IsTail rest) :
    ∃ r', optP true memPost (joinInner (endPieces pre post) gs ++ rest) = (endTok pre post, r') ∧
      skipWs r' = skipWs rest := by
  cases pre with
  | true =>
    have hpo := hpp rfl
    subst hpo
    obtain ⟨gb, gs1, rfl, hgb, h1⟩ := innerOk_cons hgs
    have : gs1 = [] := h1
    subst this
    refine ⟨rest, ?_, rfl⟩
    have : memPost (gb ++ 33 :: rest) = some (.bang, rest) := by
      simp [memPost, lit, sk_true, skipWs_blank_append gb _ hgb, skipWs_cons 33 _ (by decide : isWs 33 = false), dropPrefix]
    simp only [endPieces, joinInner, if_true, List.append_nil, List.nil_append, List.append_assoc, List.cons_append]
    rw [optP_some true memPost _ _ _ this]; rfl
  | false =>
    cases post with
    | none =>
      have : gs = [] := hgs
      subst this
      have h33 : lit true [33] rest = none := lit_none_of_follow rest ht.follow 33 [] (by omega)
      have h44 : lit true [44] rest = none := by
        rcases ht.skip with h0 | ⟨c, h0⟩ <;> simp [lit, sk_true, h0, dropPrefix]
      have : memPost rest = none := by simp [memPost, h33, h44]
      refine ⟨skipWs rest, ?_, skipWs_idem rest⟩
      simp [endPieces, joinInner, optP_none true memPost _ this, sk_true, endTok]
    | some i =>
      obtain ⟨g1, gs1, rfl, hg1, h1⟩ := innerOk_cons hgs
      obtain ⟨g2, gs2, rfl, hg2, h2⟩ := innerOk_cons h1
      have : gs2 = [] := h2
      subst this
      refine ⟨rest, ?_, rfl⟩
      have himm := immediate_int g2 i rest hg2 ht.follow
      have : memPost (g1 ++ 44 :: (g2 ++ (intText i ++ rest))) =
          some (.post (.num (optNeg i.neg ++ intDigits i)), rest) := by
        have h33 : lit true [33] (g1 ++ 44 :: (g2 ++ (intText i ++ rest))) = none :=
          lit_head_ne g1 44 33 _ [] hg1 (by decide) (by decide)
        have h44 : lit true [44] (g1 ++ 44 :: (g2 ++ (intText i ++ rest))) = some (g2 ++ (intText i ++ rest)) := by
          simp [lit, sk_true, skipWs_blank_append g1 _ hg1, skipWs_cons 44 _ (by decide : isWs 44 = false), dropPrefix]
        simp [memPost, h33, h44, himm]
      have htext : joinInner (endPieces false (some i)) [g1, g2] ++ rest = g1 ++ 44 :: (g2 ++ (intText i ++ rest)) := by
        simp [endPieces, joinInner, List.append_assoc]
      rw [htext, optP_some true memPost _ _ _ this]; rfl

/-! ### the whole memory reference -/
structure MemOk (m : MemA) : Prop where
  base : MemRegOk m.base
  mid : MidOk m.mid
  prepost : m.pre = true → m.post = none

/-- the `memory` group as the grammar leaves it -/
def memTok (m : MemA) : MemTok :=
  { base := some (memRegTok m.base),
    index := (match midTok m.mid with | some (.idx x) => some x | _ => none),
    offset := (match midTok m.mid with | some (.off o) => some o | _ => none),
    pre := (match endTok m.pre m.post with | some .bang => true | _ => false),
    post := (match endTok m.pre m.post with | some (.post i) => some i | _ => none) }

/-- **memory reference** as the grammar reads it (∀ base/index numbers, offsets, shift amounts,
    ∀ layouts of its pieces), at the end of a line -/
theorem memoryP_text (m : MemA) (hm : MemOk m) (g : Txt) (gs : List Txt) (rest : Txt) (hg : Blank g)
    (hgs : InnerOk (memPieces m).tail gs) (ht : IsTail rest) :
    ∃ r', memoryP (g ++ ([91] ++ joinInner (memPieces m).tail gs ++ rest)) = some (memTok m, r') ∧
      skipWs r' = skipWs rest := by
  rw [memPieces_eq] at hgs ⊢
  simp only [List.tail_cons] at hgs ⊢
  obtain ⟨g1, gs1, rfl, hg1, h1⟩ := innerOk_cons hgs
  obtain ⟨gsM, gs2, hM, h2, hj⟩ := innerOk_append _ _ gs1 h1
  obtain ⟨gv, gsE, rfl, hgv, hE⟩ := innerOk_cons h2
  obtain ⟨rE, hend, hskE⟩ := end_step m.pre m.post hm.prepost gsE hE rest ht
  obtain ⟨hstop, hsh, rM, hmid, hskM⟩ := mid_step m.mid hm.mid gsM hM gv (joinInner (endPieces m.pre m.post) gsE ++ rest) hgv
  have htext : g ++ ([91] ++ joinInner ((regText m.base, 1) :: (midPieces m.mid ++ ([93], 1) :: endPieces m.pre m.post))
      (g1 :: gs1) ++ rest) =
      g ++ 91 :: (g1 ++ (regText m.base ++ (joinInner (midPieces m.mid) gsM ++
        (gv ++ 93 :: (joinInner (endPieces m.pre m.post) gsE ++ rest))))) := by
    simp [joinInner, hj, List.append_assoc]
  rw [htext]
  generalize hY : joinInner (midPieces m.mid) gsM ++ (gv ++ 93 :: (joinInner (endPieces m.pre m.post) gsE ++ rest)) = Y
    at hstop hsh hmid ⊢
  have hlb : lit true [91] (g ++ 91 :: (g1 ++ (regText m.base ++ Y))) = some (g1 ++ (regText m.base ++ Y)) := by
    simp [lit, sk_true, skipWs_blank_append g _ hg, skipWs_cons 91 _ (by decide : isWs 91 = false), dropPrefix]
  have hbase := registerP_memreg m.base hm.base g1 Y hg1 hstop hsh
  have hrb : lit true [93] rM = some (joinInner (endPieces m.pre m.post) gsE ++ rest) := by
    simp [lit, sk_true, hskM, dropPrefix]
  refine ⟨rE, ?_, hskE⟩
  simp only [memoryP, hlb, optP_some true registerP _ _ _ hbase, optLit_skip, hmid, hrb, hend, memTok]
  generalize midTok m.mid = a
  generalize endTok m.pre m.post = b
  rcases a with _ | ⟨x | o⟩ <;> rcases b with _ | ⟨_ | i⟩ <;> rfl

end OsacaVerif.ParseA64
