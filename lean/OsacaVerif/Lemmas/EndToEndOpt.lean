import OsacaVerif.Lemmas.EndToEndReport
import OsacaVerif.Props.C02
import OsacaVerif.Lemmas.Round2
import OsacaVerif.Lemmas.Duality
/-
  End to end, optimal scheduling: `analyseWith … P` (the composition with the per-line pressure vectors
  supplied) is `analyse` with the pressure cells of the kernel lines replaced — selection, exceptions,
  graph, critical path and LCD do not read the pressure; and the pressure `assign_tp_lt` stores is the
  uniform split of `Compose.uopsOf`.
-/
namespace OsacaVerif.EndToEnd
open OsacaVerif OsacaVerif.Text OsacaVerif.Pipeline OsacaVerif.Ports

/-- the line with the pressure vector `P` names for its number -/
def setPressure (P : Pressures) (l : PLine) : PLine :=
  match P l.num with
  | some v => { l with sem := { l.sem with pressure := v } }
  | none => l

theorem withPressure_pl (P : Pressures) (l : Line) : (withPressure P l).pl = setPressure P l.pl := by
  unfold withPressure setPressure PLine.num
  cases P l.pl.sel.num <;> rfl

theorem withPressure_err (P : Pressures) (l : Line) : (withPressure P l).err = l.err := by
  unfold withPressure
  cases P l.pl.num <;> rfl

theorem setPressure_sel (P : Pressures) (l : PLine) : (setPressure P l).sel = l.sel := by
  unfold setPressure
  cases P l.num <;> rfl

theorem setPressure_num (P : Pressures) (l : PLine) : (setPressure P l).num = l.num := by
  simp [PLine.num, setPressure_sel]

theorem setPressure_isInstr (P : Pressures) (l : PLine) : (setPressure P l).isInstr = l.isInstr := by
  simp [PLine.isInstr, setPressure_sel]

theorem setPressure_text (P : Pressures) (l : PLine) : (setPressure P l).text = l.text := by
  unfold setPressure
  cases P l.num <;> rfl

theorem setPressure_uniform (l : PLine) : setPressure uniformP l = l := rfl

theorem map_withPressure_pl (P : Pressures) (lines : List Line) :
    (lines.map (withPressure P)).map (·.pl) = (lines.map (·.pl)).map (setPressure P) := by
  simp [List.map_map, Function.comp_def, withPressure_pl]

/-! ### selection does not read the payload -/

def mapOutcome {α β : Type} (f : α → β) : Pipeline.Outcome α → Pipeline.Outcome β
  | .ok a => .ok (f a)
  | .badIsa => .badIsa
  | .raised => .raised
  | .badLines => .badLines
  | .emptyKernel => .emptyKernel

theorem sliceOf_map {α β : Type} (g : α → β) (xs : List α) (se : Option Nat × Option Nat) :
    sliceOf (xs.map g) se = (sliceOf xs se).map g := by
  simp [sliceOf, List.map_drop, List.map_take]

theorem select_map (g : PLine → PLine) (hg : ∀ l, (g l).sel = l.sel) (mode : Mode) (file : List PLine) :
    select mode (file.map g) = mapOutcome (List.map g) (select mode file) := by
  have hsel : (file.map g).map (·.sel) = file.map (·.sel) := by
    simp [List.map_map, Function.comp_def, hg]
  cases mode with
  | lines spec =>
    simp only [select]
    cases Marker.getLineRange spec with
    | none => rfl
    | some r =>
      simp only [mapOutcome, selectRange]
      congr 1
      rw [List.filter_map]
      congr 1
      apply List.filter_congr
      intro l _
      simp [PLine.num, hg]
  | markers isa =>
    simp only [select, selectMarkers]
    cases Pipeline.cfgOf isa with
    | none => rfl
    | some c =>
      simp only [selectWith, hsel]
      cases Marker.findMarkedSection c (file.map (·.sel)) with
      | none => rfl
      | some se => simp [mapOutcome, sliceOf_map]

theorem firstErr_withPressure (P : Pressures) (lines : List Line) (k : List PLine) :
    firstErr (lines.map (withPressure P)) (k.map (setPressure P)) = firstErr lines k := by
  unfold firstErr
  rw [List.filter_map, List.findSome?_map]
  congr 1
  · funext l
    simp [withPressure_err, withPressure_pl, setPressure_num]
  · congr 1
    funext l
    simp [Function.comp_def, withPressure_pl, setPressure_num, List.any_map]

/-! ### the analysis reads the pressure only for the rows and the column sums -/

theorem semOf_setPressure (P : Pressures) (n : Nat) (l : PLine) :
    semOf n (setPressure P l) = if l.isInstr then (setPressure P l).sem else noiseSem n := by
  simp [semOf, setPressure_isInstr]

theorem setPressure_sem (P : Pressures) (l : PLine) :
    (setPressure P l).sem = { l.sem with pressure := (setPressure P l).sem.pressure } := by
  unfold setPressure
  cases P l.num <;> rfl

theorem toIns_setPressure (P : Pressures) (n : Nat) (l : PLine) : toIns n (setPressure P l) = toIns n l := by
  simp only [toIns, semOf, setPressure_isInstr, setPressure_num]
  split
  · rw [setPressure_sem]
  · rfl

/-- `analyze` on lines whose pressures were replaced: the same graph, critical path and LCD -/
theorem analyze_setPressure (P : Pressures) (c : Cfg) (k : List PLine) :
    analyze c (k.map (setPressure P)) =
      { analyze c k with
        rows := (k.map (setPressure P)).map (rowOf c.nports)
        colSums := Ports.colSums Gen.tpSumSkipValue Gen.tpSumDigits ((k.map (setPressure P)).map (toPorts c.nports)) } := by
  have h : (k.map (setPressure P)).map (toIns c.nports) = k.map (toIns c.nports) := by
    simp [List.map_map, Function.comp_def, toIns_setPressure]
  simp only [analyze, analyzeCore, h]

theorem textOf_setPressure (P : Pressures) (k : List PLine) (n : Nat) :
    textOf (k.map (setPressure P)) n = textOf k n := by
  unfold textOf
  rw [List.find?_map]
  have : ((fun l : PLine => l.num == n) ∘ setPressure P) = fun l : PLine => l.num == n := by
    funext l; simp [setPressure_num]
  rw [this]
  cases k.find? (fun l => l.num == n) with
  | none => rfl
  | some l => simp [setPressure_text]

/-! ### the composition -/

/-- **`assemble` on lines with replaced pressures**: the same outcome kind; an analysis is the analysis
    of the same kernel with the pressures replaced -/
theorem assemble_withPressure (isa : Operand.Isa) (m : Model) (o : Opts) (lines : List Line) (P : Pressures) :
    assemble isa m o (lines.map (withPressure P)) =
      match assemble isa m o lines with
      | .ok r => .ok (resultOf m o (r.parsed.map (setPressure P)) (r.kernel.map (setPressure P))
                        (analyze (cfgOf isa m o) (r.kernel.map (setPressure P))))
      | .parseError n e => .parseError n e
      | .semError n e => .semError n e
      | .badIsa => .badIsa
      | .raised => .raised
      | .badLines => .badLines
      | .emptyKernel => .emptyKernel := by
  unfold assemble
  simp only [map_withPressure_pl]
  rw [select_map (setPressure P) (setPressure_sel P)]
  cases hs : select o.mode (lines.map (·.pl)) with
  | ok k =>
    simp only [mapOutcome, firstErr_withPressure]
    cases firstErr lines k with
    | some ne => rfl
    | none =>
      simp only [Pipeline.run]
      rw [select_map (setPressure P) (setPressure_sel P), hs]
      cases k with
      | nil => rfl
      | cons x xs => simp [mapOutcome, resultOf]
  | badIsa => rfl
  | raised => rfl
  | badLines => rfl
  | emptyKernel => rfl

end OsacaVerif.EndToEnd

/-! ### the pressure `assign_tp_lt` stores is the uniform split of `Compose.uopsOf` -/

namespace OsacaVerif.Compose
open OsacaVerif OsacaVerif.Text OsacaVerif.Operand OsacaVerif.Match OsacaVerif.Ports OsacaVerif.Spec
open OsacaVerif.Lemmas.Compose

theorem resolvedOr_ok (ports : List Txt) (y : Y) (us : List Uop) (h : resolveList ports y = .ok us) :
    resolvedOr ports y = us := by
  simp [resolvedOr, h]

theorem multOr_ok (tbl : Option (List (Y × Y))) (rt : Option Txt) (q : Rat) (h : multiplier tbl rt = .ok q) :
    multOr tbl rt = q := by
  simp [multOr, h]

theorem handleFound_uniform (m : MModel) (e : Entry) (i : Ins) (r : Compose.Result) (h : handleFound m e i = .ok r) :
    r.pressure = uniform m.ports.length (resolvedOr m.ports e.pp) := by
  unfold handleFound at h
  simp only [bind_ok] at h
  obtain ⟨v, hv, _, _, _, _, _, _, hr⟩ := h
  simp only [pure, Except.pure, Except.ok.injEq] at hr
  obtain ⟨us, hus, hu, _⟩ := averageY_ok m.ports e.pp v hv
  rw [← hr, resolvedOr_ok _ _ _ hus]
  exact hu

theorem compose_uniform (m : MModel) (e : Entry) (i : Ins) (ops' : List POperand) (r : Compose.Result)
    (h : compose m e i ops' = .ok r) :
    r.pressure = uniform m.ports.length (composeUops m e i ops') := by
  obtain ⟨p, rt, hn, hreg, _, _, _, ⟨eop, heop, hrt⟩, hld0, hld1, hst0, hst1, _, _, _, hc⟩ :=
    Props.C08.compose_spec m e i ops' r h
  have hp := hc.pressure
  simp only [Props.C08.observed] at hp
  rw [hp, hn]
  congr 1
  unfold composeUops
  simp only [heop, hrt, resolvedOr_ok _ _ _ hreg, Parts.uops, Parts.dataUops]
  congr 2
  · unfold loadUops
    cases hl : hasLd i with
    | false =>
      obtain ⟨a, _⟩ := hld0 hl
      simp [a]
    | true =>
      obtain ⟨_, mem, hm, hres, hmu⟩ := hld1 hl
      simp [hm, resolvedOr_ok _ _ _ hres, multOr_ok _ _ _ hmu]
  · unfold storeUops
    cases hs : hasSt i with
    | false =>
      obtain ⟨a, _⟩ := hst0 hs
      simp [a]
    | true =>
      obtain ⟨hwb, mem, hm, hres, hmu⟩ := hst1 hs
      rw [hwb] at hres
      simp [hm, resolvedOr_ok _ _ _ hres, multOr_ok _ _ _ hmu]

/-- **the stored pressure is the uniform split of the line's micro-ops** (own entry, composition with the
    multipliers, unknown, non-instruction) -/
theorem assignTpLt_uniform (m : MModel) (i : Ins) (r : Compose.Result) (h : assignTpLt m i = .ok r) :
    r.pressure = uniform m.ports.length (uopsOf m i) := by
  unfold assignTpLt at h
  unfold uopsOf
  cases hn : i.mnemonic with
  | none =>
    simp only [hn] at h ⊢
    cases h; simp [nonInstruction, zerosN, uniform_nil]
  | some name =>
    simp only [hn] at h ⊢
    cases he : lookupWithFallbacks m.isa m.db name i.operands with
    | some e =>
      simp only [he] at h ⊢
      exact handleFound_uniform m e i r h
    | none =>
      simp only [he] at h ⊢
      cases hls : (hasLd i || hasSt i) with
      | false =>
        simp only [hls, Bool.false_eq_true, if_false] at h ⊢
        cases h; simp [unknown, zerosN, uniform_nil]
      | true =>
        simp only [hls, if_true] at h ⊢
        cases he2 : lookupWithFallbacks m.isa m.db name (substituteMem i.operands) with
        | some e2 =>
          simp only [he2] at h ⊢
          exact compose_uniform m e2 i _ r h
        | none =>
          simp only [he2] at h ⊢
          cases h; simp [unknown, zerosN, uniform_nil]

end OsacaVerif.Compose

/-! ### kernel totals: the left fold of `get_throughput_sum` is `Props.C02.totals`; rounding moves a sum by at most half a cent -/

namespace OsacaVerif.EndToEnd
open OsacaVerif OsacaVerif.Ports OsacaVerif.Spec OsacaVerif.Props

theorem feasible_mono {ε ε' : Rat} {n : Nat} {us : List Uop} {v : List Rat} (h : Feasible ε n us v) (hle : ε ≤ ε') :
    Feasible ε' n us v where
  len := h.len
  nonneg := fun p hp => le_trans (by linarith) (h.nonneg p hp)
  support := h.support
  totalLo := by
    have := h.totalLo
    have hn : (0 : Rat) ≤ n := by exact_mod_cast Nat.zero_le n
    nlinarith
  totalHi := by
    have := h.totalHi
    have hn : (0 : Rat) ≤ n := by exact_mod_cast Nat.zero_le n
    nlinarith
  hall := by
    intro S hS hSn
    have := h.hall S hS hSn
    have hn : (0 : Rat) ≤ S.length := by exact_mod_cast Nat.zero_le S.length
    nlinarith

theorem getD_zeros (n p : Nat) : (zeros n).getD p 0 = 0 := by
  by_cases hp : p < n <;> simp [zeros, List.getD_eq_getElem?_getD, hp]

theorem totals_spec (n : Nat) (k : List C02.Instr) (h : ∀ i ∈ k, i.v.length = n) (p : Nat) :
    (C02.totals n k).length = n ∧ (C02.totals n k).getD p 0 = (k.map (·.v.getD p 0)).sum := by
  induction k with
  | nil => exact ⟨by simp [C02.totals, zeros], by rw [show C02.totals n [] = zeros n from rfl, getD_zeros]; rfl⟩
  | cons i k ih =>
    obtain ⟨i1, i2⟩ := ih (fun j hj => h j (List.mem_cons_of_mem _ hj))
    have hi := h i List.mem_cons_self
    have e : C02.totals n (i :: k) = addVec i.v (C02.totals n k) := rfl
    rw [e]
    refine ⟨by rw [C01.length_addVec _ _ (by rw [hi, i1]), hi], ?_⟩
    rw [C01.getD_addVec _ _ (by rw [hi, i1]), i2]
    simp

/-- **`get_throughput_sum` before rounding is `Props.C02.totals`** of the summed lines (those whose
    throughput differs from the skip value), whenever there is such a line -/
theorem colSumsExact_eq_totals (skip : Rat) (n : Nat) (L : List Ports.Line) (ins : List C02.Instr)
    (hl : ∀ l ∈ L, l.pressure.length = n) (hne : L.filter (·.tp != skip) ≠ [])
    (hv : ins.map (·.v) = (L.filter (·.tp != skip)).map (·.pressure)) :
    colSumsExact skip L = C02.totals n ins := by
  have hlen : ∀ i ∈ ins, i.v.length = n := by
    intro i hi
    have : i.v ∈ ins.map (·.v) := List.mem_map.mpr ⟨i, hi, rfl⟩
    rw [hv] at this
    obtain ⟨l, hl', e⟩ := List.mem_map.mp this
    rw [← e]; exact hl l (List.mem_filter.mp hl').1
  apply List.ext_getElem
  · rw [(C01.colSums_spec skip n L hl hne 0).1, (totals_spec n ins hlen 0).1]
  · intro p h1 h2
    have a := (C01.colSums_spec skip n L hl hne p).2
    have b := (totals_spec n ins hlen p).2
    rw [List.getD_eq_getElem?_getD, List.getElem?_eq_getElem h1, Option.getD_some] at a
    rw [List.getD_eq_getElem?_getD, List.getElem?_eq_getElem h2, Option.getD_some] at b
    rw [a, b]
    have : ins.map (·.v.getD p 0) = (ins.map (·.v)).map (·.getD p 0) := by simp [List.map_map, Function.comp_def]
    rw [this, hv]
    simp [List.map_map, Function.comp_def]

/-- Python `round(x, 2)` moves a value by at most half a cent -/
theorem round2_ge (x : Rat) : x - 1/200 ≤ roundHalfEven x 2 := by
  rw [roundHalfEven_two]
  have hf : (((x * 100).floor : Int) : Rat) ≤ x * 100 := Int.floor_le (x * 100)
  have hf2 : x * 100 < (((x * 100).floor : Int) : Rat) + 1 := Int.lt_floor_add_one (x * 100)
  have key : x * 100 - 1/2 ≤ (rnd (x * 100) : Rat) := by
    unfold rnd
    split
    · linarith
    · split
      · push_cast; linarith
      · split
        · linarith
        · push_cast; linarith
  rw [le_div_iff₀ (by norm_num : (0 : Rat) < 100)]
  linarith

theorem maxLoad_map_round_ge (v : List Rat) (p : Nat) (hp : p < v.length) :
    v.getD p 0 - 1/200 ≤ maxLoad (v.map (roundHalfEven · 2)) := by
  have h1 := round2_ge (v.getD p 0)
  have h2 := Duality.getD_le_maxLoad (v.map (roundHalfEven · 2)) p (by simpa using hp)
  have e : (v.map (roundHalfEven · 2)).getD p 0 = roundHalfEven (v.getD p 0) 2 := by
    simp [List.getD_eq_getElem?_getD, List.getElem?_eq_getElem hp]
  rw [e] at h2
  linarith

end OsacaVerif.EndToEnd
