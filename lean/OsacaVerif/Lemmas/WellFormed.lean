import OsacaVerif.Spec.WellFormed
import OsacaVerif.Lemmas.Feasible

namespace OsacaVerif.Spec
open OsacaVerif OsacaVerif.Text OsacaVerif.Ports

theorem mapE_ok {α β : Type} (f : α → Except Err β) (P : β → Prop) (l : List α)
    (h : ∀ x ∈ l, ∃ y, f x = .ok y ∧ P y) :
    ∃ ys, mapE f l = .ok ys ∧ ys.length = l.length ∧ ∀ y ∈ ys, P y := by
  induction l with
  | nil => exact ⟨[], rfl, rfl, by simp⟩
  | cons x xs ih =>
    obtain ⟨y, hy, hp⟩ := h x List.mem_cons_self
    obtain ⟨ys, hys, hl, hps⟩ := ih (fun x' hx' => h x' (List.mem_cons_of_mem _ hx'))
    refine ⟨y :: ys, by simp [mapE, hy, hys], by simp [hl], ?_⟩
    intro z hz
    rcases List.mem_cons.mp hz with rfl | hz
    · exact hp
    · exact hps z hz

theorem indexOf_of_contains (ports : List Txt) (t : Txt) (h : ports.contains t = true) :
    ∃ i, indexOf ports t = some i ∧ i < ports.length := by
  unfold indexOf
  have hm : t ∈ ports := by simpa using h
  have : ports.findIdx (· == t) < ports.length := by
    apply List.findIdx_lt_length_of_exists
    exact ⟨t, hm, by simp⟩
  exact ⟨_, by simp [this], this⟩

theorem resolvePort_ok (ports : List Txt) (t : Txt) (h : ports.contains t = true) :
    ∃ i, resolvePort ports (.str t) = .ok i ∧ i < ports.length := by
  obtain ⟨i, hi, hlt⟩ := indexOf_of_contains ports t h
  exact ⟨i, by simp [resolvePort, hi], hlt⟩

/-- a well-formed raw micro-op resolves, and the result is well-formed in the sense of `WFUops` -/
theorem resolveUop_ok (ports : List Txt) (y : Y) (h : wfUopY ports y = true) :
    ∃ u, resolveUop ports y = .ok u ∧ 0 ≤ u.cycles ∧ u.mult = 1 ∧ u.ports ≠ [] ∧
      ∀ p ∈ u.ports, p < ports.length := by
  match y, h with
  | .list [.num c, p], h =>
    simp only [wfUopY, Bool.and_eq_true, decide_eq_true_eq] at h
    obtain ⟨hc, hp⟩ := h
    match p, hp with
    | .str t, hp =>
      simp only [wfPortsY, Bool.and_eq_true, Bool.not_eq_true', List.all_eq_true] at hp
      obtain ⟨hne, hall⟩ := hp
      obtain ⟨idx, hidx, hlen, hlt⟩ := mapE_ok (resolvePort ports) (· < ports.length)
        (t.map fun c => Y.str [c]) (by
          intro x hx
          obtain ⟨c, hc', rfl⟩ := List.mem_map.mp hx
          exact resolvePort_ok ports [c] (hall c hc'))
      refine ⟨{ cycles := c, ports := idx }, by simp [resolveUop, portItems, hidx], hc, rfl, ?_, hlt⟩
      intro he
      have he' : idx = [] := he
      have : t.length = 0 := by rw [he'] at hlen; simpa using hlen.symm
      have : t = [] := List.length_eq_zero_iff.mp this
      simp [this] at hne
    | .list l, hp =>
      simp only [wfPortsY, Bool.and_eq_true, Bool.not_eq_true', List.all_eq_true] at hp
      obtain ⟨hne, hall⟩ := hp
      obtain ⟨idx, hidx, hlen, hlt⟩ := mapE_ok (resolvePort ports) (· < ports.length) l (by
          intro x hx
          have := hall x hx
          match x, this with
          | .str t, this => exact resolvePort_ok ports t this)
      refine ⟨{ cycles := c, ports := idx }, by simp [resolveUop, portItems, hidx], hc, rfl, ?_, hlt⟩
      intro he
      have he' : idx = [] := he
      have : l.length = 0 := by rw [he'] at hlen; simpa using hlen.symm
      have : l = [] := List.length_eq_zero_iff.mp this
      simp [this] at hne

theorem resolve_uops_ok (ports : List Txt) (l : List Y) (h : l.all (wfUopY ports) = true) :
    ∃ us, mapE (resolveUop ports) l = .ok us ∧ WFUops ports.length us := by
  obtain ⟨us, hus, _, hP⟩ := mapE_ok (resolveUop ports)
    (fun u => 0 ≤ u.cycles ∧ u.mult = 1 ∧ u.ports ≠ [] ∧ ∀ p ∈ u.ports, p < ports.length) l (by
      intro x hx
      exact resolveUop_ok ports x (List.all_eq_true.mp h x hx))
  refine ⟨us, hus, ?_⟩
  intro u hu
  obtain ⟨h1, h2, h3, h4⟩ := hP u hu
  exact ⟨h1, by rw [h2]; decide, h3, h4⟩

/-- **C15 core** (∀ port lists, ∀ raw YAML micro-op lists): a well-formed list can be costed —
    `average_port_pressure` does not raise, and what it returns is the exactly feasible uniform split. -/
theorem wf_costable (ports : List Txt) (l : List Y) (h : wfPPY ports (.list l) = true) :
    ∃ us, resolveList ports (.list l) = .ok us ∧ WFUops ports.length us ∧
      averageY ports (.list l) = .ok (uniform ports.length us) ∧
      Feasible 0 ports.length us (uniform ports.length us) := by
  obtain ⟨us, hus, hw⟩ := resolve_uops_ok ports l (by simpa [wfPPY] using h)
  refine ⟨us, by simpa [resolveList] using hus, hw, ?_, uniform_feasible _ us hw⟩
  have : resolveList ports (.list l) = .ok us := by simpa [resolveList] using hus
  simp only [averageY, this]
  rw [average_eq_uniform ports.length us (fun u hu => (hw u hu).2.2.2)]

/-- alternatives: every alternative of a well-formed dict is itself a well-formed list -/
theorem wf_alternatives (ports : List Txt) (kv : List (Y × Y)) (h : wfPPY ports (.map kv) = true) :
    ∀ e ∈ kv, ∃ l, e.2 = .list l ∧ wfPPY ports (.list l) = true := by
  intro e he
  simp only [wfPPY, Bool.and_eq_true, List.all_eq_true] at h
  have := (h.2 e he).2
  match h2 : e.2, this with
  | .list l, this => exact ⟨l, rfl, by simpa [wfPPY, wfUopListY] using this⟩

end OsacaVerif.Spec
