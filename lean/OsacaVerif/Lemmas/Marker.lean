import OsacaVerif.Model.Marker
import OsacaVerif.Lemmas.PyInt
/-
  Lemmas about the marker scan: quiet segments are skipped, a start / an end event fixes the indices,
  the slice of a five-part file is its body; `--lines` helper facts.
-/
namespace OsacaVerif.Marker
open OsacaVerif.Text OsacaVerif.PyInt

/-- every line of the segment triggers nothing, given the lines that follow the segment -/
def quietSeg (c : Cfg) : List Line → List Line → Bool
  | [], _ => true
  | l :: b, follow => (trigger c l (b ++ follow) == .none) && quietSeg c b follow

/-- no line of the segment triggers an end marker or an exception (start markers are allowed) -/
def noStopSeg (c : Cfg) : List Line → List Line → Bool
  | [], _ => true
  | l :: b, follow =>
    (match trigger c l (b ++ follow) with
     | .none => true
     | .start _ => true
     | _ => false) && noStopSeg c b follow

theorem quiet_noStop (c : Cfg) (seg follow : List Line) (h : quietSeg c seg follow = true) :
    noStopSeg c seg follow = true := by
  induction seg with
  | nil => rfl
  | cons l b ih =>
    simp only [quietSeg, Bool.and_eq_true, beq_iff_eq] at h
    simp [noStopSeg, h.1, ih h.2]

/-- a quiet segment is skipped by the scan (as long as the loop has not been left) -/
theorem scan_quiet_gen (c : Cfg) (seg follow : List Line) (h : quietSeg c seg follow = true)
    (i : Nat) (s e : Option Nat) (hse : (s.isSome && e.isSome) = false) :
    scan c i (seg ++ follow) s e = scan c (i + seg.length) follow s e := by
  induction seg generalizing i with
  | nil => simp
  | cons l b ih =>
    simp only [quietSeg, Bool.and_eq_true, beq_iff_eq] at h
    rw [List.cons_append, scan, h.1]
    simp only [hse, Bool.false_eq_true, if_false]
    rw [ih h.2 (i + 1)]
    congr 1
    simp only [List.length_cons]; omega

/-- a quiet segment is skipped by the scan -/
theorem scan_quiet (c : Cfg) (seg follow : List Line) (h : quietSeg c seg follow = true)
    (i : Nat) (s : Option Nat) :
    scan c i (seg ++ follow) s none = scan c (i + seg.length) follow s none :=
  scan_quiet_gen c seg follow h i s none (by simp)

/-- a segment without end markers is passed with the end index still unset -/
theorem scan_noStop (c : Cfg) (seg follow : List Line) (h : noStopSeg c seg follow = true)
    (i : Nat) (s : Option Nat) :
    ∃ s', scan c i (seg ++ follow) s none = scan c (i + seg.length) follow s' none := by
  induction seg generalizing i s with
  | nil => exact ⟨s, by simp⟩
  | cons l b ih =>
    simp only [noStopSeg, Bool.and_eq_true] at h
    rw [List.cons_append, scan]
    have hlen : i + (l :: b).length = i + 1 + b.length := by simp only [List.length_cons]; omega
    cases ht : trigger c l (b ++ follow) with
    | none =>
      simp only [Option.isSome_none, Bool.and_false, Bool.false_eq_true, if_false]
      obtain ⟨s', hs'⟩ := ih h.2 (i + 1) s
      exact ⟨s', by rw [hs', hlen]⟩
    | start k =>
      simp only [Option.isSome_none, Bool.false_eq_true, if_false]
      obtain ⟨s', hs'⟩ := ih h.2 (i + 1) (some (i + k))
      exact ⟨s', by rw [hs', hlen]⟩
    | stop k => rw [ht] at h; simp at h
    | raise => rw [ht] at h; simp at h

/-- `kernel[p+s : p+s+b]` of a five-part file is its body -/
theorem slice_body (pro sm body rest : List Line) :
    slice (pro ++ (sm ++ (body ++ rest)))
      (some (pro.length + sm.length), some (pro.length + sm.length + body.length)) = body := by
  unfold slice
  simp only [Option.getD_some]
  have h1 : pro ++ (sm ++ (body ++ rest)) = (pro ++ sm ++ body) ++ rest := by simp
  have h2 : pro.length + sm.length + body.length = (pro ++ sm ++ body).length := by simp; omega
  rw [h1, h2, List.take_left']
  · have h3 : pro.length + sm.length = (pro ++ sm).length := by simp
    rw [h3, List.drop_left']
    rfl
  · rfl

/-! ### `match_bytes` -/

/-- the lines `bl` are `.byte` lines with integer literals, each of them needed (the bytes collected
    before it are fewer than the nop's), and together they start with the nop bytes -/
def byteRun (nop : List Int) : List Line → List Int → Bool
  | [], acc => acc.take nop.length == nop
  | l :: rest, acc =>
    isByteDir l && decide (acc.length < nop.length) &&
    match allInts (dirParams l) with
    | some vs => byteRun nop rest (acc ++ vs)
    | none => false

theorem take_eq_not_lt {nop acc : List Int} (h : acc.take nop.length = nop) : ¬ acc.length < nop.length := by
  intro hlt
  have := congrArg List.length h
  simp only [List.length_take] at this
  omega

/-- a complete byte run is recognised whatever follows it -/
theorem matchBytesGo_run (nop : List Int) (bl follow : List Line) (acc : List Int) (k : Nat)
    (h : byteRun nop bl acc = true) :
    matchBytesGo nop (bl ++ follow) acc k = .hit (k + bl.length) := by
  induction bl generalizing acc k with
  | nil =>
    simp only [byteRun, beq_iff_eq] at h
    simp only [List.nil_append, List.length_nil, Nat.add_zero]
    cases follow with
    | nil => simp [matchBytesGo, h]
    | cons f fs =>
      rw [matchBytesGo]
      have := take_eq_not_lt h
      simp [this, h]
  | cons l rest ih =>
    simp only [byteRun, Bool.and_eq_true, decide_eq_true_eq] at h
    obtain ⟨⟨hb, hlt⟩, hm⟩ := h
    rw [List.cons_append, matchBytesGo]
    simp only [hb, hlt, decide_true, Bool.and_self, if_true]
    cases hp : allInts (dirParams l) with
    | none => rw [hp] at hm; simp at hm
    | some vs =>
      rw [hp] at hm
      simp only
      rw [ih (acc ++ vs) (k + 1) hm]
      congr 1
      simp only [List.length_cons]; omega

/-! ### `--lines` helpers -/

theorem rangeInt_nat (a b : Nat) :
    rangeInt (a : Int) ((b : Int) + 1) = (List.range' a (b + 1 - a)).map (fun (n : Nat) => (n : Int)) := by
  unfold rangeInt
  have h : ((b : Int) + 1 - (a : Int)).toNat = b + 1 - a := by omega
  rw [h, List.range'_eq_map_range, List.map_map]
  apply List.map_congr_left
  intro k _
  simp

theorem collect_somes (rs : List (List Int)) : collect (rs.map some) = some rs.flatten := by
  induction rs with
  | nil => rfl
  | cons r rest ih => simp [collect, ih]

end OsacaVerif.Marker
