import OsacaVerif.Lemmas.EdgeLocal
import OsacaVerif.Lemmas.Winding
/-
  Helper development for C14: the infinite instruction stream `k^ω` of a loop body, the dependency
  relation `streamDep` between stream positions (a function of the segment between them, periodic,
  and shifted by `r` under rotation by `r`), and dependency cycles with winding number 1 as
  ascending position lists (`IsStreamCycle`).
-/
namespace OsacaVerif.LCD
open OsacaVerif OsacaVerif.DG

/-- occurrence `t` of the stream `body^ω`, line number erased -/
def sAt (body : List Ins) (t : Nat) : Ins :=
  ((body.map eraseLine)[t % body.length]?).getD (eraseLine default)

/-- the stream segment strictly between positions `a` and `b` -/
def segAt (body : List Ins) (a b : Nat) : List Ins :=
  (List.range (b - a - 1)).map (fun d => sAt body (a + 1 + d))

/-- **the dependency relation of the infinite repetition**: weight of the dependency of stream
    occurrence `b` on occurrence `a` (`none`: no dependency) — by construction a function of the
    segment `a … b` only -/
def streamDep (isa : Isa) (fd : Bool) (par : Params) (body : List Ins) (a b : Nat) : Option Rat :=
  depW isa fd par (sAt body a) (segAt body a b) (sAt body b)

theorem sAt_congr (body body' : List Ins) (h : body'.map eraseLine = body.map eraseLine) (t : Nat) :
    sAt body' t = sAt body t := by
  have hl : body'.length = body.length := by simpa using congrArg List.length h
  unfold sAt
  rw [h, hl]

theorem sAt_add_length (body : List Ins) (t : Nat) : sAt body (t + body.length) = sAt body t := by
  unfold sAt
  rw [Nat.add_mod_right]

theorem segAt_add_length (body : List Ins) (a b : Nat) :
    segAt body (a + body.length) (b + body.length) = segAt body a b := by
  unfold segAt
  have e : b + body.length - (a + body.length) - 1 = b - a - 1 := by omega
  rw [e]
  apply List.map_congr_left
  intro d _
  have : a + body.length + 1 + d = (a + 1 + d) + body.length := by omega
  rw [this, sAt_add_length]

/-- the stream relation is periodic with the body length -/
theorem streamDep_periodic (isa : Isa) (fd : Bool) (par : Params) (body : List Ins) (a b : Nat) :
    streamDep isa fd par body (a + body.length) (b + body.length) = streamDep isa fd par body a b := by
  unfold streamDep
  rw [sAt_add_length, sAt_add_length, segAt_add_length]

theorem rot_mod (n r t : Nat) (hn : 0 < n) (hr : r ≤ n) :
    (t % n < n - r → (t + r) % n = r + t % n) ∧ (¬ t % n < n - r → (t + r) % n = t % n - (n - r)) := by
  have hmm : (t + r) % n = (t % n + r) % n := (Nat.mod_add_mod t n r).symm
  have hj : t % n < n := Nat.mod_lt _ hn
  rw [hmm]
  generalize t % n = j at *
  constructor
  · intro h
    rw [Nat.mod_eq_of_lt (by omega)]; omega
  · intro h
    rw [Nat.mod_eq_sub_mod (by omega), Nat.mod_eq_of_lt (by omega)]; omega

/-- rotating the body by `r` shifts the stream by `r` -/
theorem sAt_rotate (body : List Ins) (r : Nat) (hr : r ≤ body.length) (t : Nat) :
    sAt (body.drop r ++ body.take r) t = sAt body (t + r) := by
  unfold sAt
  have hlen : (body.drop r ++ body.take r).length = body.length := by
    simp; omega
  rw [hlen]
  by_cases hn : body.length = 0
  · have : body = [] := List.eq_nil_of_length_eq_zero hn
    subst this; simp
  · have hpos : 0 < body.length := Nat.pos_of_ne_zero hn
    obtain ⟨hm1, hm2⟩ := rot_mod body.length r t hpos hr
    congr 1
    rw [List.map_append, List.map_drop, List.map_take]
    by_cases hlt : t % body.length < body.length - r
    · rw [List.getElem?_append_left (by simp only [List.length_drop, List.length_map]; exact hlt),
        List.getElem?_drop, hm1 hlt]
    · rw [List.getElem?_append_right (by simp only [List.length_drop, List.length_map]; omega), List.getElem?_take]
      simp only [List.length_drop, List.length_map]
      rw [hm2 hlt, if_pos]
      have := Nat.mod_lt t hpos
      omega

theorem segAt_rotate (body : List Ins) (r : Nat) (hr : r ≤ body.length) (a b : Nat) :
    segAt (body.drop r ++ body.take r) a b = segAt body (a + r) (b + r) := by
  unfold segAt
  have e : b + r - (a + r) - 1 = b - a - 1 := by omega
  rw [e]
  apply List.map_congr_left
  intro d _
  rw [sAt_rotate body r hr]
  congr 1; omega

/-- **rotation shifts the dependency relation**: the relation of the rotated body at `(a, b)` is the
    relation of the body at `(a + r, b + r)` — the same stream, another starting point -/
theorem streamDep_rotate (isa : Isa) (fd : Bool) (par : Params) (body : List Ins) (r : Nat)
    (hr : r ≤ body.length) (a b : Nat) :
    streamDep isa fd par (body.drop r ++ body.take r) a b = streamDep isa fd par body (a + r) (b + r) := by
  unfold streamDep
  rw [sAt_rotate body r hr, sAt_rotate body r hr, segAt_rotate body r hr]

theorem streamDep_congr (isa : Isa) (fd : Bool) (par : Params) (body body' : List Ins)
    (h : body'.map eraseLine = body.map eraseLine) (a b : Nat) :
    streamDep isa fd par body' a b = streamDep isa fd par body a b := by
  unfold streamDep segAt
  simp only [sAt_congr body body' h]

/-! ### chains and cycles of stream positions -/

/-- consecutive positions ascend and are linked by `D` with the recorded weight; the last one is linked to `tgt` -/
def Chain (D : Nat → Nat → Option Rat) (tgt : Nat) : List (Nat × Rat) → Prop
  | [] => True
  | x :: rest => x.1 < nextV tgt rest ∧ D x.1 (nextV tgt rest) = some x.2 ∧ Chain D tgt rest

def decChain (D : Nat → Nat → Option Rat) (tgt : Nat) : (a : List (Nat × Rat)) → Decidable (Chain D tgt a)
  | [] => isTrue trivial
  | _ :: rest =>
    have := decChain D tgt rest
    inferInstanceAs (Decidable (_ ∧ _ ∧ _))

instance (D : Nat → Nat → Option Rat) (tgt : Nat) (a : List (Nat × Rat)) : Decidable (Chain D tgt a) :=
  decChain D tgt a

/-- a dependency cycle with winding number 1 in the stream: positions `a₀ < a₁ < … < aₘ₋₁`, each
    depending on the previous one, closed by `aₘ₋₁ → a₀ + n` (the same instruction one iteration later) -/
def IsStreamCycle (D : Nat → Nat → Option Rat) (n : Nat) : List (Nat × Rat) → Prop
  | [] => False
  | x :: rest => Chain D (x.1 + n) (x :: rest)

instance (D : Nat → Nat → Option Rat) (n : Nat) : (a : List (Nat × Rat)) → Decidable (IsStreamCycle D n a)
  | [] => isFalse (fun h => h)
  | x :: rest => inferInstanceAs (Decidable (Chain D (x.1 + n) (x :: rest)))

/-- shift all positions by `s` -/
def shiftPos (s : Nat) (a : List (Nat × Rat)) : List (Nat × Rat) := a.map (fun x => (x.1 + s, x.2))

theorem nextV_shift (s tgt : Nat) (a : List (Nat × Rat)) : nextV (tgt + s) (shiftPos s a) = nextV tgt a + s := by
  cases a <;> simp [nextV, shiftPos]

theorem chain_shift (D D' : Nat → Nat → Option Rat) (s : Nat) (h : ∀ x y, D' x y = D (x + s) (y + s))
    (tgt : Nat) (a : List (Nat × Rat)) : Chain D' tgt a ↔ Chain D (tgt + s) (shiftPos s a) := by
  induction a with
  | nil => simp [Chain, shiftPos]
  | cons x rest ih =>
    have hn := nextV_shift s tgt rest
    simp only [shiftPos, List.map_cons, Chain] at hn ⊢
    simp only [shiftPos] at ih
    rw [hn, ih, h]
    constructor
    · rintro ⟨h1, h2, h3⟩; exact ⟨by omega, h2, h3⟩
    · rintro ⟨h1, h2, h3⟩; exact ⟨by omega, h2, h3⟩

/-- shifting a cycle: if `D'` is `D` seen from `s` positions later -/
theorem cycle_shift (D D' : Nat → Nat → Option Rat) (s n : Nat) (h : ∀ x y, D' x y = D (x + s) (y + s))
    (a : List (Nat × Rat)) : IsStreamCycle D' n a ↔ IsStreamCycle D n (shiftPos s a) := by
  cases a with
  | nil => simp [IsStreamCycle, shiftPos]
  | cons x rest =>
    have := chain_shift D D' s h (x.1 + n) (x :: rest)
    simp only [IsStreamCycle, shiftPos, List.map_cons] at this ⊢
    rw [this]
    have e : x.1 + n + s = x.1 + s + n := by omega
    rw [e]

theorem chain_increasing (D : Nat → Nat → Option Rat) (tgt : Nat) (a : List (Nat × Rat)) (h : Chain D tgt a) :
    (verts a ++ [tgt]).Pairwise (· < ·) := by
  induction a with
  | nil => simp [verts]
  | cons x rest ih =>
    have ih := ih h.2.2
    have hlt := h.1
    have hh := nextV_eq_head tgt rest
    simp only [verts, List.map_cons, List.cons_append, List.pairwise_cons] at ih ⊢
    refine ⟨?_, ih⟩
    intro v hv
    cases hl : (List.map (fun x => x.1) rest ++ [tgt]) with
    | nil => simp at hl
    | cons a t =>
      simp only [verts] at hh
      rw [hl] at hh hv ih
      simp only [List.head?_cons, Option.some.injEq] at hh
      rcases List.mem_cons.mp hv with rfl | hv
      · omega
      · have := (List.pairwise_cons.mp ih).1 v hv
        omega

/-- the positions of a cycle ascend and stay within one period after its first position -/
theorem cycle_bounds (D : Nat → Nat → Option Rat) (n : Nat) (x : Nat × Rat) (rest : List (Nat × Rat))
    (h : IsStreamCycle D n (x :: rest)) : ∀ y ∈ x :: rest, x.1 ≤ y.1 ∧ y.1 < x.1 + n := by
  have hinc := chain_increasing D (x.1 + n) (x :: rest) h
  simp only [verts, List.map_cons, List.cons_append, List.pairwise_cons] at hinc
  intro y hy
  have hub : y.1 < x.1 + n := by
    rcases List.mem_cons.mp hy with rfl | hy
    · exact hinc.1 _ (by simp)
    · have := List.pairwise_append.mp hinc.2
      exact this.2.2 y.1 (List.mem_map.mpr ⟨y, hy, rfl⟩) _ (by simp)
  refine ⟨?_, hub⟩
  rcases List.mem_cons.mp hy with rfl | hy
  · exact Nat.le_refl _
  · exact Nat.le_of_lt (hinc.1 y.1 (by simp; left; exact ⟨y.2, hy⟩))

end OsacaVerif.LCD
