import OsacaVerif.Lemmas.A64Operand
/-
  From operands to lines: white-space invariance of the operand parsers, the end of a line, the
  operand slots (induction over the operand list), comments, the instruction grammar on a rendered
  line, and the classification of an instruction line.
-/
namespace OsacaVerif.ParseA64
open OsacaVerif.Text OsacaVerif.Spec.A64 OsacaVerif.Gen

/-! ### every operand parser starts by skipping white space -/
theorem lit_skip (l s : Txt) : lit true l (skipWs s) = lit true l s := by simp [lit, sk_true, skipWs_idem]
theorem clit_skip (l s : Txt) : clit true l (skipWs s) = clit true l s := by simp [clit, sk_true, skipWs_idem]
theorem char1_skip (p : Nat → Bool) (s : Txt) : char1 true p (skipWs s) = char1 true p s := by
  simp [char1, sk_true, skipWs_idem]
theorem word_skip (p : Nat → Bool) (s : Txt) : word true p (skipWs s) = word true p s := by
  simp [word, sk_true, skipWs_idem]
theorem clitOr_skip (ls : List Txt) (s : Txt) : clitOr true ls (skipWs s) = clitOr true ls s := by
  simp [clitOr, clit_skip]
theorem optLit_skip (l s : Txt) : optLit true l (skipWs s) = optLit true l s := by
  simp [optLit, lit_skip, sk_true, skipWs_idem]

theorem registerP_skip (s : Txt) : registerP (skipWs s) = registerP s := by
  simp only [registerP, registerCore, aliasP, vectorP, scalarP, predicateP, registerList, char1_skip, clit_skip,
    lit_skip, skipWs_idem]
theorem conditionP_skip (s : Txt) : conditionP (skipWs s) = conditionP s := by
  simp only [conditionP, clitOr_skip]
theorem identifier_skip (s : Txt) : identifier (skipWs s) = identifier s := by
  simp only [identifier, optP, relocation, skipWs_idem, sk_true]
theorem immediate_skip (s : Txt) : immediate (skipWs s) = immediate s := by
  simp only [immediate, optLit_skip]
theorem memoryP_skip (s : Txt) : memoryP (skipWs s) = memoryP s := by
  simp only [memoryP, lit_skip]
theorem arithP_skip (s : Txt) : arithP (skipWs s) = arithP s := by
  simp only [arithP, immediate_skip]
theorem prefetchP_skip (s : Txt) : prefetchP (skipWs s) = prefetchP s := by
  simp only [prefetchP, clitOr_skip]
theorem commentP_skip (s : Txt) : commentP (skipWs s) = commentP s := by
  simp only [commentP, lit_skip]

theorem operandRest_skip (s : Txt) : operandRest (skipWs s) = operandRest s := by
  simp only [operandRest, arithOp, registerP_skip, conditionP_skip, identifier_skip, immediate_skip, memoryP_skip,
    arithP_skip]
theorem operandFirst_skip (s : Txt) : operandFirst (skipWs s) = operandFirst s := by
  simp only [operandFirst, arithOp, registerP_skip, prefetchP_skip, identifier_skip, immediate_skip, memoryP_skip,
    arithP_skip]

/-- what follows the last operand: blanks, then nothing or a `//` comment -/
def IsTail (tail : Txt) : Prop := ∃ g, Blank g ∧ (tail = g ∨ ∃ c, tail = g ++ 47 :: 47 :: c)

theorem IsTail.skip {tail : Txt} (h : IsTail tail) : skipWs tail = [] ∨ ∃ c, skipWs tail = 47 :: 47 :: c := by
  obtain ⟨g, hg, h | ⟨c, h⟩⟩ := h
  · left; rw [h]; exact skipWs_blank g hg
  · right; exact ⟨c, by rw [h, skipWs_blank_append g _ hg, skipWs_cons 47 _ (by decide)]⟩

theorem IsTail.ofSkip {tail : Txt} (h : IsTail tail) : IsTail (skipWs tail) := by
  rcases h.skip with h | ⟨c, h⟩
  · exact ⟨[], blank_nil, Or.inl h⟩
  · exact ⟨[], blank_nil, Or.inr ⟨c, by simpa using h⟩⟩

theorem blank_head {g : Txt} (hg : Blank g) : ∀ c r, g = c :: r → isBlankC c = true := by
  intro c r h; subst h; exact hg.cons.1

theorem IsTail.follow {tail : Txt} (h : IsTail tail) : Follow tail := by
  obtain ⟨g, hg, ht⟩ := h
  refine ⟨?_, ?_, ?_, ?_⟩
  · intro c r hc
    rcases ht with ht | ⟨cm, ht⟩
    · left; exact blank_head hg c r (by rw [← ht, hc])
    · cases g with
      | nil => simp at ht; rw [ht] at hc; simp at hc; right; right; left; exact hc.1.symm
      | cons b g' => left; rw [ht] at hc; simp at hc; rw [← hc.1]; exact hg.cons.1
  · intro c r hc
    rcases (IsTail.skip ⟨g, hg, ht⟩) with h0 | ⟨cm, h0⟩
    · rw [h0] at hc; cases hc
    · rw [h0] at hc; simp at hc; right; left; exact hc.1.symm
  · intro r hl
    rcases (IsTail.skip ⟨g, hg, ht⟩) with h0 | ⟨cm, h0⟩ <;> simp [lit, sk_true, h0, dropPrefix] at hl
  · intro r hr
    rcases (IsTail.skip ⟨g, hg, ht⟩) with h0 | ⟨cm, h0⟩
    · rw [h0] at hr; cases hr
    · rw [h0] at hr; simp at hr; exact ⟨cm, hr.symm⟩

theorem immediate_none_head (g : Txt) (c : Nat) (t : Txt) (hg : Blank g) (hc : isWs c = false)
    (hd : isDigitC c = false) (h : c ≠ 35 ∧ c ≠ 45 ∧ c ≠ 58) (hf : isIdFirstC c = false) :
    immediate (g ++ c :: t) = none := by
  have h1 : optLit true A64.immSym (g ++ c :: t) = c :: t := by
    have : lit true A64.immSym (g ++ c :: t) = none := lit_head_ne g c 35 t [] hg hc h.1
    simp [optLit, this, sk_true, skipWs_blank_append g _ hg, skipWs_cons c _ hc]
  have hstopd : StopsAt isDigitC (c :: t) := by
    intro c' r h'; simp at h'; obtain ⟨rfl, _⟩ := h'; exact hd
  have hhex : hexNum (c :: t) = none := by
    simp only [hexNum, skipWs_cons c _ hc, hexNumNS]
    split
    · rename_i r h'; simp at h'; omega
    · have hc48 : c ≠ 48 := by intro h'; subst h'; simp [isDigitC] at hd
      have : dropPrefix (c :: t) A64.hexPrefix = none := dropPrefix_head_ne c 48 _ _ hc48
      simp [this]
  have hdec : decNum (c :: t) = none := by
    simp only [decNum, skipWs_cons c _ hc, decNumNS]
    split
    · rename_i r h'; simp at h'; omega
    · exact wordNS_none isDigitC _ hstopd
  have hm : mantissa (c :: t) = none := by
    simp only [mantissa, skipWs_cons c _ hc]
    split
    · rename_i r h'; simp at h'; omega
    · simp [mantissaNS, wordNS_none isDigitC _ hstopd]
  have hid : identifier (c :: t) = none := by
    have := identifier_none_head [] c t blank_nil hc hf h.2.2
    simpa using this
  simp [immediate, h1, hhex, hdec, floatP, doubleP, hm, hid]

theorem operandRest_nil : operandRest [] = none := by decide
theorem operandFirst_nil : operandFirst [] = none := by decide

theorem operandRest_slash (t : Txt) : operandRest (47 :: t) = none := by
  have hws : isWs 47 = false := by decide
  have h1 := registerP_none_nonalpha [] 47 t blank_nil hws (by decide) (by decide)
  have h2 := conditionP_none_nonalpha [] 47 t blank_nil hws (by decide)
  have h3 := immediate_none_head [] 47 t blank_nil hws (by decide) (by decide) (by decide)
  have h4 := memoryP_none_head [] 47 t blank_nil hws (by decide)
  have h5 := identifier_none_head [] 47 t blank_nil hws (by decide) (by decide)
  simp only [List.nil_append] at h1 h2 h3 h4 h5
  simp [operandRest, h1, h2, h3, h4, h5, arithOp, arithP]

theorem operandFirst_slash (t : Txt) : operandFirst (47 :: t) = none := by
  have hws : isWs 47 = false := by decide
  have h1 := registerP_none_nonalpha [] 47 t blank_nil hws (by decide) (by decide)
  have h2 := prefetchP_none_nonalpha [] 47 t blank_nil hws (by decide)
  have h3 := immediate_none_head [] 47 t blank_nil hws (by decide) (by decide) (by decide)
  have h4 := memoryP_none_head [] 47 t blank_nil hws (by decide)
  have h5 := identifier_none_head [] 47 t blank_nil hws (by decide) (by decide)
  simp only [List.nil_append] at h1 h2 h3 h4 h5
  simp [operandFirst, h1, h2, h3, h4, h5, arithOp, arithP]

theorem operandRest_tail (tail : Txt) (h : IsTail tail) : operandRest tail = none := by
  rw [← operandRest_skip]
  rcases h.skip with h0 | ⟨c, h0⟩ <;> rw [h0]
  · exact operandRest_nil
  · exact operandRest_slash _

theorem operandFirst_tail (tail : Txt) (h : IsTail tail) : operandFirst tail = none := by
  rw [← operandFirst_skip]
  rcases h.skip with h0 | ⟨c, h0⟩ <;> rw [h0]
  · exact operandFirst_nil
  · exact operandFirst_slash _

theorem optLit_comma_tail (tail : Txt) (h : IsTail tail) : optLit true [44] tail = skipWs tail := by
  have : lit true [44] tail = none := by
    rcases h.skip with h0 | ⟨c, h0⟩ <;> simp [lit, sk_true, h0, dropPrefix]
  simp [optLit, this, sk_true]

theorem restSlots_tail (n : Nat) (tail : Txt) (h : IsTail tail) :
    restSlots n tail = ([], if n = 0 then tail else skipWs tail) := by
  induction n generalizing tail with
  | zero => rfl
  | succ n ih =>
    have h1 := optLit_comma_tail tail h
    have h2 : operandRest (skipWs tail) = none := operandRest_tail _ h.ofSkip
    have ih' := ih (skipWs tail) h.ofSkip
    simp only [restSlots, h1, optP, h2, sk_true, skipWs_idem, opt2list, ih', List.nil_append]
    split <;> simp [skipWs_idem]

/-- what may follow an operand: anything `Follow`; for an operand that has to be the last one (a memory
    reference) only the end of the line -/
def After (last : Bool) (rest : Txt) : Prop := if last then IsTail rest else Follow rest

theorem After.follow {last : Bool} {rest : Txt} (h : After last rest) : Follow rest := by
  cases last with
  | true => exact IsTail.follow h
  | false => exact h

/-- the text `T` of one rendered operand (without the gap in front of it) is read as `raw`, in the first
    and in the later operand slots, whatever follows (as far as `After last` admits) -/
structure GoodOp (last fst : Bool) (T : Txt) (raw : RawOp) : Prop where
  rest : ∀ g rest, Blank g → After last rest →
    ∃ r', operandRest (g ++ (T ++ rest)) = some (raw, r') ∧ skipWs r' = skipWs rest
  /-- only for kinds that may stand in the first operand slot (`fst`) -/
  first : fst = true → ∀ g rest, Blank g → After last rest →
    ∃ r', operandFirst (g ++ (T ++ rest)) = some (raw, r') ∧ skipWs r' = skipWs rest
  /-- the operand is not mistaken for the shift of the operand in front of it -/
  noShift : ∀ g rest, Blank g → After last rest → shiftOp (g ++ (T ++ rest)) = none
  /-- it starts with a visible character other than `:` and `+` (the line is not read as a label) -/
  head : ∃ c t, T = c :: t ∧ isWs c = false ∧ c ≠ 58 ∧ c ≠ 43

theorem GoodOp.weaken {fst : Bool} {T : Txt} {raw : RawOp} (h : GoodOp false fst T raw) : GoodOp true fst T raw :=
  ⟨fun g rest hg ha => h.rest g rest hg (IsTail.follow ha),
   fun hf g rest hg ha => h.first hf g rest hg (IsTail.follow ha),
   fun g rest hg ha => h.noShift g rest hg (IsTail.follow ha), h.head⟩

theorem GoodOp.any {fst : Bool} {T : Txt} {raw : RawOp} (h : GoodOp false fst T raw) (last : Bool) :
    GoodOp last fst T raw := by
  cases last with
  | true => exact h.weaken
  | false => exact h

/-- what the first operand slot needs: the text is read as `raw` there (kinds that may only stand first,
    like a prefetch operation, have only this) -/
structure GoodFirst (last : Bool) (T : Txt) (raw : RawOp) : Prop where
  first : ∀ g rest, Blank g → After last rest →
    ∃ r', operandFirst (g ++ (T ++ rest)) = some (raw, r') ∧ skipWs r' = skipWs rest
  /-- it starts with a visible character other than `+`; a colon is the colon of a relocation (so that
      the line is not read as a label) -/
  head : ∃ c t, T = c :: t ∧ isWs c = false ∧ c ≠ 43 ∧ (c = 58 → ∃ d t', t = d :: t' ∧ isRelocC d = true)

theorem GoodOp.toFirst {last : Bool} {T : Txt} {raw : RawOp} (h : GoodOp last true T raw) : GoodFirst last T raw := by
  obtain ⟨c, t, hT, hws, h58, h43⟩ := h.head
  exact ⟨h.first rfl, ⟨c, t, hT, hws, h43, fun e => absurd e h58⟩⟩

theorem GoodFirst.weaken {T : Txt} {raw : RawOp} (h : GoodFirst false T raw) : GoodFirst true T raw :=
  ⟨fun g rest hg ha => h.first g rest hg (IsTail.follow ha), h.head⟩

/-- what a later operand slot needs (kinds that may not stand first, like an identifier written with a
    relocation, have only this) -/
structure GoodRest (last : Bool) (T : Txt) (raw : RawOp) : Prop where
  rest : ∀ g rest, Blank g → After last rest →
    ∃ r', operandRest (g ++ (T ++ rest)) = some (raw, r') ∧ skipWs r' = skipWs rest
  noShift : ∀ g rest, Blank g → After last rest → shiftOp (g ++ (T ++ rest)) = none

theorem GoodOp.toRest {last fst : Bool} {T : Txt} {raw : RawOp} (h : GoodOp last fst T raw) : GoodRest last T raw :=
  ⟨h.rest, h.noShift⟩

theorem GoodRest.weaken {T : Txt} {raw : RawOp} (h : GoodRest false T raw) : GoodRest true T raw :=
  ⟨fun g rest hg ha => h.rest g rest hg (IsTail.follow ha),
   fun g rest hg ha => h.noShift g rest hg (IsTail.follow ha)⟩

theorem GoodOp.notFirst {last fst : Bool} {T : Txt} {raw : RawOp} (h : GoodOp last fst T raw) :
    GoodOp last false T raw :=
  ⟨h.rest, fun hf => Bool.noConfusion hf, h.noShift, h.head⟩

/-- one later operand: gap, comma, gap, text -/
structure Slot where
  g1 : Txt
  g2 : Txt
  text : Txt
  raw : RawOp

/-- the later operands: blank gaps, every operand `GoodOp`; only the last one may be of a kind that has
    to be last -/
def SlotsOk : List Slot → Prop
  | [] => True
  | x :: xs => Blank x.g1 ∧ Blank x.g2 ∧ GoodRest xs.isEmpty x.text x.raw ∧ SlotsOk xs

def restText : List Slot → Txt → Txt
  | [], tail => tail
  | x :: xs, tail => x.g1 ++ 44 :: (x.g2 ++ (x.text ++ restText xs tail))

theorem follow_restText (xs : List Slot) (tail : Txt) (hx : SlotsOk xs) (ht : IsTail tail) :
    Follow (restText xs tail) := by
  induction xs with
  | nil => exact ht.follow
  | cons x xs ih =>
    have ⟨h1, h2, hgood, hrest⟩ := hx
    have hafter : After xs.isEmpty (restText xs tail) := by
      cases xs with
      | nil => exact ht
      | cons y ys => exact ih hrest
    have hsk : skipWs (restText (x :: xs) tail) = 44 :: (x.g2 ++ (x.text ++ restText xs tail)) := by
      simp only [restText]; rw [skipWs_blank_append _ _ h1, skipWs_cons 44 _ (by decide)]
    refine ⟨?_, ?_, ?_, ?_⟩
    · intro c r hc
      simp only [restText] at hc
      cases hg : x.g1 with
      | nil => rw [hg] at hc; simp at hc; right; left; exact hc.1.symm
      | cons b g' => rw [hg] at hc; simp at hc; left; rw [← hc.1]; rw [hg] at h1; exact h1.cons.1
    · intro c r hc
      rw [hsk] at hc; simp at hc; left; exact hc.1.symm
    · intro r hl
      simp only [lit, sk_true, hsk, dropPrefix] at hl
      simp at hl
      rw [← hl]
      exact hgood.noShift x.g2 _ h2 hafter
    · intro r hr
      rw [hsk] at hr; simp at hr

/-- what follows the operand in front of `xs` is admissible for it -/
theorem after_restText (xs : List Slot) (tail : Txt) (hx : SlotsOk xs) (ht : IsTail tail) :
    After xs.isEmpty (restText xs tail) := by
  cases xs with
  | nil => exact ht
  | cons x xs => exact follow_restText (x :: xs) tail hx ht

theorem optLit_congr (l r1 r2 : Txt) (h : skipWs r1 = skipWs r2) : optLit true l r1 = optLit true l r2 := by
  rw [← optLit_skip l r1, h, optLit_skip]

theorem restSlots_congr (n : Nat) (r1 r2 : Txt) (h : skipWs r1 = skipWs r2) :
    (restSlots n r1).1 = (restSlots n r2).1 ∧ skipWs (restSlots n r1).2 = skipWs (restSlots n r2).2 := by
  cases n with
  | zero => exact ⟨rfl, h⟩
  | succ n => simp only [restSlots, optLit_congr [44] r1 r2 h]; trivial

theorem optLit_comma_slot (x : Slot) (R : Txt) (h1 : Blank x.g1) :
    optLit true [44] (x.g1 ++ 44 :: (x.g2 ++ (x.text ++ R))) = x.g2 ++ (x.text ++ R) := by
  simp [optLit, lit, sk_true, skipWs_blank_append _ _ h1, skipWs_cons 44 _ (by decide : isWs 44 = false), dropPrefix]

/-- **the operand slots after the first** read the rendered operands one by one (∀ number of operands
    that fit into the slots, ∀ gaps) -/
theorem restSlots_ops (xs : List Slot) (tail : Txt) (n : Nat) (hn : xs.length ≤ n)
    (hx : SlotsOk xs) (ht : IsTail tail) :
    (restSlots n (restText xs tail)).1 = xs.map (·.raw) ∧
      skipWs (restSlots n (restText xs tail)).2 = skipWs tail := by
  induction xs generalizing n with
  | nil =>
    rw [show restText [] tail = tail from rfl, restSlots_tail n tail ht]
    refine ⟨rfl, ?_⟩
    split <;> simp [skipWs_idem]
  | cons x xs ih =>
    cases n with
    | zero => simp at hn
    | succ n =>
      have ⟨h1, h2, hgood, hrest⟩ := hx
      obtain ⟨r', hr', hsk⟩ := hgood.rest x.g2 (restText xs tail) h2 (after_restText xs tail hrest ht)
      have ih' := ih n (by simpa using hn) hrest
      have hc := restSlots_congr n r' (restText xs tail) hsk
      simp only [restText, restSlots, optLit_comma_slot x _ h1, optP, hr', opt2list, List.map_cons,
        List.singleton_append]
      exact ⟨by rw [hc.1, ih'.1], by rw [hc.2, ih'.2]⟩

/-- a comment word: non-empty, printable characters -/
def IsWord (w : Txt) : Prop := w ≠ [] ∧ ∀ c ∈ w, isPrintC c = true

theorem print_not_ws (c : Nat) (h : isPrintC c = true) : isWs c = false := by
  simp only [isPrintC, isWs] at *; simp at *; omega

def flush (cur : Txt) : List Txt := if cur.isEmpty then [] else [cur.reverse]

theorem commentWords_word (w s cur : Txt) (hw : ∀ c ∈ w, isPrintC c = true) :
    commentWords (w ++ s) cur = commentWords s (w.reverse ++ cur) := by
  induction w generalizing cur with
  | nil => rfl
  | cons c w ih =>
    have hc := hw c (by simp)
    simp only [List.cons_append, commentWords, print_not_ws c hc, hc, if_true, Bool.false_eq_true, if_false]
    rw [ih (c :: cur) (fun d hd => hw d (by simp [hd]))]
    simp

theorem commentWords_blank (g s cur : Txt) (hg : Blank g) (hne : cur ≠ [] → g ≠ []) :
    commentWords (g ++ s) cur = (flush cur ++ (commentWords s []).1, (commentWords s []).2) ∨
    (g = [] ∧ cur = []) := by
  cases g with
  | nil =>
    by_cases hc : cur = []
    · right; exact ⟨rfl, hc⟩
    · exact absurd rfl (hne hc)
  | cons b g' =>
    left
    have ⟨hb, hg'⟩ := hg.cons
    have hws := isWs_of_isBlankC b hb
    -- after the first blank the current word is flushed; the remaining blanks add nothing
    have hrest : ∀ (g2 : Txt), Blank g2 → commentWords (g2 ++ s) [] = commentWords s [] := by
      intro g2 hg2
      induction g2 with
      | nil => rfl
      | cons b2 g2 ih2 =>
        have ⟨hb2, hg2'⟩ := hg2.cons
        simp [commentWords, isWs_of_isBlankC b2 hb2, ih2 hg2']
    simp only [List.cons_append, commentWords, hws, if_true, hrest g' hg', flush]

/-- gaps and words of a rendered comment, and the trailing gap -/
def commentBody : List (Txt × Txt) → Txt → Txt
  | [], gEnd => gEnd
  | x :: xs, gEnd => x.1 ++ (x.2 ++ commentBody xs gEnd)

def FirstGapNe : List (Txt × Txt) → Prop
  | [] => True
  | y :: _ => y.1 ≠ []

def BodyOk : List (Txt × Txt) → Prop
  | [] => True
  | x :: xs => Blank x.1 ∧ IsWord x.2 ∧ FirstGapNe xs ∧ BodyOk xs

theorem commentWords_blank_end (g cur : Txt) (hg : Blank g) : commentWords g cur = (flush cur, []) := by
  induction g generalizing cur with
  | nil => simp [commentWords, flush]
  | cons b g ih =>
    have ⟨hb, hg'⟩ := hg.cons
    simp only [commentWords, isWs_of_isBlankC b hb, if_true, ih [] hg', flush]
    simp

theorem commentWords_body (xs : List (Txt × Txt)) (gEnd cur : Txt) (hx : BodyOk xs) (hgE : Blank gEnd)
    (hfirst : cur ≠ [] → FirstGapNe xs) :
    commentWords (commentBody xs gEnd) cur = (flush cur ++ xs.map (·.2), []) := by
  induction xs generalizing cur with
  | nil => simp [commentBody, commentWords_blank_end gEnd cur hgE]
  | cons x xs ih =>
    obtain ⟨hg, ⟨hwne, hwp⟩, hnext, hrest⟩ := hx
    have hword : commentWords (x.2 ++ commentBody xs gEnd) [] = ([x.2] ++ xs.map (·.2), []) := by
      rw [commentWords_word x.2 _ [] hwp, List.append_nil]
      have hrev : x.2.reverse ≠ [] := by simpa using hwne
      rw [ih x.2.reverse hrest (fun _ => hnext)]
      simp [flush, hwne]
    simp only [commentBody]
    rcases commentWords_blank x.1 (x.2 ++ commentBody xs gEnd) cur hg (fun h => hfirst h) with h | ⟨h1, h2⟩
    · rw [h, hword]; simp
    · rw [h1, h2, List.nil_append, hword]; simp [flush]

/-- **comment** (∀ words, ∀ gaps): `//` and the words in any layout are read back as the word list -/
theorem commentP_body (g : Txt) (xs : List (Txt × Txt)) (gEnd : Txt) (hg : Blank g) (hx : BodyOk xs)
    (hgE : Blank gEnd) :
    ∃ r, commentP (g ++ 47 :: 47 :: commentBody xs gEnd) = some (xs.map (·.2), r) ∧ skipWs r = [] := by
  have hl : lit true A64.commentSym (g ++ 47 :: 47 :: commentBody xs gEnd) = some (commentBody xs gEnd) := by
    simp [lit, sk_true, skipWs_blank_append g _ hg, skipWs_cons 47 _ (by decide : isWs 47 = false),
      A64.commentSym, dropPrefix]
  have hb := commentWords_body xs gEnd [] hx hgE (fun h => absurd rfl h)
  cases xs with
  | nil =>
    refine ⟨skipWs (commentBody [] gEnd), ?_, ?_⟩
    · simp only [commentP, hl, hb, flush]; simp
    · simp [commentBody, skipWs_blank gEnd hgE, skipWs]
  | cons x xs =>
    refine ⟨[], ?_, rfl⟩
    simp only [commentP, hl, hb, flush]; simp

/-- the end of a rendered line: a gap, then nothing or `//` with words -/
structure LineTail where
  g : Txt
  comment : Option (List (Txt × Txt) × Txt)

def LineTail.text (t : LineTail) : Txt :=
  match t.comment with
  | none => t.g
  | some (xs, gEnd) => t.g ++ 47 :: 47 :: commentBody xs gEnd

def LineTail.words (t : LineTail) : Option (List Txt) :=
  match t.comment with
  | none => none
  | some (xs, _) => some (xs.map (·.2))

def LineTail.Ok (t : LineTail) : Prop :=
  Blank t.g ∧ match t.comment with | none => True | some (xs, gEnd) => BodyOk xs ∧ Blank gEnd

theorem LineTail.isTail (t : LineTail) (h : t.Ok) : IsTail t.text := by
  refine ⟨t.g, h.1, ?_⟩
  unfold LineTail.text
  cases t.comment with
  | none => exact Or.inl rfl
  | some x => exact Or.inr ⟨_, rfl⟩

/-- comment and end of input after the operands -/
theorem comment_end (t : LineTail) (h : t.Ok) (r' : Txt) (hr : skipWs r' = skipWs t.text) :
    atEnd (optP true commentP r').2 = true ∧ (optP true commentP r').1 = t.words := by
  have hc : commentP r' = commentP t.text := by rw [← commentP_skip, hr, commentP_skip]
  unfold LineTail.text LineTail.words at *
  cases hcm : t.comment with
  | none =>
    rw [hcm] at hr hc
    simp only at hr hc
    have hnone : commentP t.g = none := by
      simp [commentP, lit, sk_true, skipWs_blank t.g h.1, A64.commentSym, dropPrefix]
    simp [optP, hc, hnone, atEnd, sk_true, hr, skipWs_blank t.g h.1, skipWs]
  | some x =>
    obtain ⟨xs, gEnd⟩ := x
    rw [hcm] at hr hc
    simp only at hr hc
    have hok := h.2
    rw [hcm] at hok
    obtain ⟨r, hcp, hre⟩ := commentP_body t.g xs gEnd h.1 hok.1 hok.2
    simp [optP, hc, hcp, atEnd, hre]

theorem optP_some {α : Type} (b : Bool) (p : Txt → Res α) (s : Txt) (a : α) (r : Txt) (h : p s = some (a, r)) :
    optP b p s = (some a, r) := by simp [optP, h]
theorem optP_none {α : Type} (b : Bool) (p : Txt → Res α) (s : Txt) (h : p s = none) :
    optP b p s = (none, sk b s) := by simp [optP, h]

theorem mnem_not_ws (c : Nat) (h : isMnemC c = true) : isWs c = false := by
  simp only [isMnemC, isAlnumC, isAlphaC, isDigitC, A64.mnemonicExtra, isWs] at *; simp at *; omega

theorem isTail_stops (p : Nat → Bool) (tail : Txt) (h : IsTail tail)
    (hp : p 32 = false ∧ p 9 = false ∧ p 44 = false ∧ p 47 = false ∧ p 93 = false) : StopsAt p tail :=
  h.follow.stops p tail hp

theorem operandSlots_pred : A64.operandSlots - 1 = 4 := by decide

/-- `instrP` step by step -/
theorem instrP_steps (s mn r0 : Txt) (o1 : Option RawOp) (r1 : Txt) (os : List RawOp) (r2 : Txt)
    (c : Option (List Txt)) (r3 : Txt)
    (h0 : word true isMnemC s = some (mn, r0))
    (h1 : optP true operandFirst r0 = (o1, r1))
    (h2 : restSlots 4 r1 = (os, r2))
    (h3 : optP true commentP r2 = (c, r3))
    (h4 : atEnd r3 = true) :
    instrP s = some ⟨mn, opt2list o1 ++ os, c⟩ := by
  unfold instrP
  rw [h0, operandSlots_pred]
  simp only [h1, h2, h3, h4, if_true]

/-- the text after the mnemonic: nothing, or a non-empty gap, the first operand and the later slots -/
def afterMnemonic (first : Option (Txt × Txt × RawOp)) (xs : List Slot) (tail : Txt) : Txt :=
  match first with
  | none => tail
  | some (g1, T1, _) => g1 ++ (T1 ++ restText xs tail)

def firstRaw (first : Option (Txt × Txt × RawOp)) : List RawOp :=
  match first with
  | none => []
  | some (_, _, raw1) => [raw1]

def FirstOk (first : Option (Txt × Txt × RawOp)) (xs : List Slot) : Prop :=
  match first with
  | none => xs = []
  | some (g1, T1, raw1) => Blank g1 ∧ g1 ≠ [] ∧ GoodFirst xs.isEmpty T1 raw1 ∧ SlotsOk xs

theorem prod_eta {α β : Type} (p : α × β) : p = (p.1, p.2) := by cases p; rfl

/-- **instruction grammar** on a rendered line (∀ mnemonic, ∀ operands that are `GoodOp`, ∀ gaps,
    ∀ comment): the mnemonic, the raw operands in order, the comment words -/
theorem instrP_line (g0 : Txt) (m : Nat) (ms : Txt) (first : Option (Txt × Txt × RawOp)) (xs : List Slot)
    (t : LineTail) (hg0 : Blank g0) (hm : ∀ c ∈ m :: ms, isMnemC c = true)
    (hfirst : FirstOk first xs) (hlen : xs.length ≤ 4) (ht : t.Ok) :
    instrP (g0 ++ (m :: ms ++ afterMnemonic first xs t.text)) =
      some ⟨m :: ms, firstRaw first ++ xs.map (·.raw), t.words⟩ := by
  have htail := t.isTail ht
  have hmws := mnem_not_ws m (hm m (by simp))
  have hstop : StopsAt isMnemC (afterMnemonic first xs t.text) := by
    cases first with
    | none => exact isTail_stops _ _ htail (by decide)
    | some f =>
      obtain ⟨g1, T1, raw1⟩ := f
      obtain ⟨hb, hne, _, _⟩ := hfirst
      intro c r hc
      simp only [afterMnemonic] at hc
      cases g1 with
      | nil => exact absurd rfl hne
      | cons b g' =>
        simp at hc; rw [← hc.1]
        have := hb.cons.1
        simp [isBlankC] at this
        rcases this with rfl | rfl <;> decide
  have hword : word true isMnemC (g0 ++ (m :: ms ++ afterMnemonic first xs t.text)) =
      some (m :: ms, afterMnemonic first xs t.text) := by
    simp only [word, sk_true, List.cons_append, skipWs_blank_append g0 _ hg0, skipWs_cons m _ hmws]
    exact wordNS_append isMnemC m ms _ hm hstop
  cases first with
  | none =>
    have hx0 : xs = [] := hfirst
    subst hx0
    have h1 : operandFirst t.text = none := operandFirst_tail _ htail
    have h2 : restSlots 4 (skipWs t.text) = ([], skipWs t.text) := by
      rw [restSlots_tail 4 _ htail.ofSkip]; simp [skipWs_idem]
    have hce := comment_end t ht (skipWs t.text) (by simp [skipWs_idem])
    have := instrP_steps _ _ _ none (skipWs t.text) [] (skipWs t.text)
      (optP true commentP (skipWs t.text)).1 (optP true commentP (skipWs t.text)).2 hword
      (by simp only [afterMnemonic]; rw [optP_none true operandFirst _ h1]; rfl) h2 (prod_eta _) hce.1
    rw [this, hce.2]; rfl
  | some f =>
    obtain ⟨g1, T1, raw1⟩ := f
    obtain ⟨hb, _, hgood, hxs⟩ := hfirst
    obtain ⟨r1, hr1, hsk1⟩ := hgood.first g1 (restText xs t.text) hb (after_restText xs t.text hxs htail)
    have hops := restSlots_ops xs t.text 4 hlen hxs htail
    have hc := restSlots_congr 4 r1 (restText xs t.text) hsk1
    have hce := comment_end t ht (restSlots 4 r1).2 (by rw [hc.2, hops.2])
    have := instrP_steps _ _ _ (some raw1) r1 (restSlots 4 r1).1 (restSlots 4 r1).2
      (optP true commentP (restSlots 4 r1).2).1 (optP true commentP (restSlots 4 r1).2).2 hword
      (by simp only [afterMnemonic]; exact optP_some true operandFirst _ raw1 r1 hr1) (prod_eta _) (prod_eta _) hce.1
    rw [this, hce.2, hc.1, hops.1]; rfl

theorem processOperands_map (l : List (RawOp × List Operand))
    (h : ∀ x ∈ l, processOperand x.1 = .ok x.2) :
    processOperands (l.map (·.1)) = .ok (l.map (·.2)).flatten := by
  induction l with
  | nil => rfl
  | cons x l ih =>
    have h1 := h x (by simp)
    have ih' := ih (fun y hy => h y (by simp [hy]))
    simp [processOperands, h1, ih']

theorem lit_after_none (first : Option (Txt × Txt × RawOp)) (xs : List Slot) (t : LineTail)
    (hfirst : FirstOk first xs) (ht : t.Ok) :
    lit true [43] (afterMnemonic first xs t.text) = none := by
  cases first with
  | none =>
    have := (t.isTail ht).skip
    simp only [afterMnemonic, lit, sk_true]
    rcases this with h | ⟨c, h⟩ <;> rw [h] <;> rfl
  | some f =>
    obtain ⟨g1, T1, raw1⟩ := f
    obtain ⟨hb, _, hgood, _⟩ := hfirst
    obtain ⟨c, tl, hT, hws, h43, _⟩ := hgood.head
    simp only [afterMnemonic, lit, sk_true, hT, List.cons_append, skipWs_blank_append g1 _ hb, skipWs_cons c _ hws]
    simp [dropPrefix, h43]

theorem relocC_facts (d : Nat) (h : isRelocC d = true) : isWs d = false ∧ d ≠ 47 := by
  simp only [isRelocC, isAlnumC, isAlphaC, isDigitC, A64.relocExtra] at h
  simp at h
  simp only [isWs]; simp; omega

/-- behind the mnemonic no label colon follows: either no colon at all, or the colon of a relocation,
    behind which the line goes on -/
theorem label_tail_none (first : Option (Txt × Txt × RawOp)) (xs : List Slot) (t : LineTail)
    (hfirst : FirstOk first xs) (ht : t.Ok) :
    (match lit true [58] (afterMnemonic first xs t.text) with
     | some r1 => atEnd (optP true commentP r1).2 = false
     | none => True) := by
  cases first with
  | none =>
    have := (t.isTail ht).skip
    simp only [afterMnemonic, lit, sk_true]
    rcases this with h | ⟨c, h⟩ <;> rw [h] <;> simp [dropPrefix]
  | some f =>
    obtain ⟨g1, T1, raw1⟩ := f
    obtain ⟨hb, _, hgood, _⟩ := hfirst
    obtain ⟨c, tl, hT, hws, _, hcolon⟩ := hgood.head
    simp only [afterMnemonic, lit, sk_true, hT, List.cons_append, skipWs_blank_append g1 _ hb, skipWs_cons c _ hws]
    by_cases hc : c = 58
    · obtain ⟨d, t', htl, hd⟩ := hcolon hc
      obtain ⟨hdws, hd47⟩ := relocC_facts d hd
      subst hc
      simp only [dropPrefix, beq_self_eq_true, if_true, htl, List.cons_append]
      have hcm : commentP (d :: (t' ++ restText xs t.text)) = none := by
        simp [commentP, lit, sk_true, skipWs_cons d _ hdws, A64.commentSym, dropPrefix, hd47]
      simp [optP, hcm, atEnd, sk_true, skipWs_idem, skipWs_cons d _ hdws]
    · simp [dropPrefix, hc]

theorem mnem_idRest (c : Nat) (h : isMnemC c = true) : isIdRestC c = true := by
  simp only [isMnemC, isIdRestC, A64.mnemonicExtra, A64.identRestExtra] at *
  simp at *; rcases h with h | h
  · left; exact h
  · right; right; exact h

/-- an instruction line is not read as a comment, marker, label or directive -/
theorem not_other_class (g0 : Txt) (m : Nat) (ms : Txt) (first : Option (Txt × Txt × RawOp)) (xs : List Slot)
    (t : LineTail) (hg0 : Blank g0) (hm : ∀ c ∈ m :: ms, isMnemC c = true) (hm46 : m ≠ 46)
    (hfirst : FirstOk first xs) (ht : t.Ok) :
    let line := g0 ++ (m :: ms ++ afterMnemonic first xs t.text)
    commentLine line = none ∧ llvmMarker line = none ∧ labelLine line = none ∧ directiveLine line = none := by
  intro line
  have hmm := hm m (by simp)
  have hmws := mnem_not_ws m hmm
  have hb : (48 ≤ m ∧ m ≤ 57) ∨ (65 ≤ m ∧ m ≤ 90) ∨ (97 ≤ m ∧ m ≤ 122) := by
    simp only [isMnemC, isAlnumC, isAlphaC, isDigitC, A64.mnemonicExtra] at hmm; simp at hmm; omega
  have hline : line = g0 ++ m :: (ms ++ afterMnemonic first xs t.text) := by simp [line]
  refine ⟨?_, ?_, ?_, ?_⟩
  · have : lit true A64.commentSym line = none := by
      rw [hline]; exact lit_head_ne g0 m 47 _ [47] hg0 hmws (by omega)
    simp [commentLine, commentP, this]
  · have : lit true [35] line = none := by
      rw [hline]; exact lit_head_ne g0 m 35 _ [] hg0 hmws (by omega)
    simp [llvmMarker, this]
  · by_cases hal : isAlphaC m = true
    · have htail := t.isTail ht
      -- the identifier is the mnemonic; no colon follows
      have hstop : StopsAt isIdRestC (afterMnemonic first xs t.text) := by
        cases first with
        | none => exact isTail_stops _ _ htail (by decide)
        | some f =>
          obtain ⟨g1, T1, raw1⟩ := f
          obtain ⟨hbl, hne, _, _⟩ := hfirst
          intro c r hc
          simp only [afterMnemonic] at hc
          cases g1 with
          | nil => exact absurd rfl hne
          | cons b g' =>
            simp at hc; rw [← hc.1]
            have := hbl.cons.1
            simp [isBlankC] at this
            rcases this with rfl | rfl <;> decide
      have hrel : relocation line = none := by
        rw [hline]
        simp only [relocation, skipWs_blank_append g0 _ hg0, skipWs_cons m _ hmws]
        split
        · rename_i r h; simp at h; omega
        · rfl
      have hname : identName (m :: (ms ++ afterMnemonic first xs t.text)) =
          some (m :: ms, afterMnemonic first xs t.text) := by
        simp [identName, skipWs_cons m _ hmws, alpha_idFirst m hal,
          spanP_append isIdRestC ms _ (fun c hc => mnem_idRest c (hm c (by simp [hc]))) hstop]
      have hoff : identOffset (afterMnemonic first xs t.text) = none := by
        simp [identOffset, lit_after_none first xs t hfirst ht]
      have hid : identifier line = some (⟨none, m :: ms, none⟩, skipWs (afterMnemonic first xs t.text)) := by
        simp only [identifier, optP_none true relocation _ hrel, sk_true]
        rw [hline, skipWs_blank_append g0 _ hg0, skipWs_cons m _ hmws, hname]
        simp [optP, hoff, sk_true]
      have hcol := label_tail_none first xs t hfirst ht
      simp only [labelLine, hid, lit_skip]
      cases hl : lit true [58] (afterMnemonic first xs t.text) with
      | none => rfl
      | some r1 =>
        rw [hl] at hcol
        simp only at hcol
        simp [hcol]
    · have hidf : isIdFirstC m = false := by
        simp only [isIdFirstC, A64.identFirstExtra]
        simp only [isAlphaC] at hal ⊢; simp at hal ⊢; omega
      have : identifier line = none := by
        rw [hline]; exact identifier_none_head g0 m _ hg0 hmws hidf (by omega)
      simp [labelLine, this]
  · have : lit true [46] line = none := by
      rw [hline]; exact lit_head_ne g0 m 46 _ [] hg0 hmws hm46
    simp [directiveLine, this]

end OsacaVerif.ParseA64
