import OsacaVerif.Lemmas.A64MemOp
/-
  Predicate registers `pN`, `pN/z`, `pN/m`, `pN.<shape>` (any case).
-/
namespace OsacaVerif.ParseA64
open OsacaVerif.Text OsacaVerif.Spec.A64 OsacaVerif.Gen

def predTailText : PredTail → Txt
  | .none => []
  | .pred c => [47, c]
  | .shape lanes s => shapeText lanes (some s)

theorem regText_pred (p n : Nat) (tail : PredTail) : regText (.pred p n tail) = p :: (showNat n ++ predTailText tail) := by
  cases tail <;> simp [regText, predTailText, shapeText, lanesText] <;> rename_i l _ <;> cases l <;> rfl

def PredTailOk : PredTail → Prop
  | .none => True
  | .pred c => isPredicationC c = true
  | .shape lanes s => LanesOk lanes ∧ isAlphaC s = true

/-- the `predicate` group as the grammar leaves it -/
def predTok (n : Nat) (tail : PredTail) : RegTok :=
  { pre := some A64.predPrefix, name := some (showNat n),
    pred := (match tail with | .pred c => some [c] | _ => none),
    lanes := (match tail with | .shape l _ => l | _ => none),
    shape := (match tail with | .shape _ s => some [s] | _ => none) }

theorem predication_alpha (c : Nat) (h : isPredicationC c = true) : isAlphaC c = true := by
  simp [isPredicationC, A64.predicationChars] at h
  apply alpha_of_lowerC_alpha
  rcases h with h | h <;> rw [h] <;> decide

theorem predicateP_text (g : Txt) (p n : Nat) (tail : PredTail) (rest : Txt) (hg : Blank g)
    (hp : lowerC p = 112) (ht : PredTailOk tail) (hf : Follow rest) :
    ∃ r', predicateP (g ++ (p :: (showNat n ++ (predTailText tail ++ rest)))) = some (predTok n tail, r') ∧
      skipWs r' = skipWs rest := by
  have hal : isAlphaC p = true := alpha_of_lowerC_alpha p (by rw [hp]; decide)
  have hpws := alpha_not_ws p hal
  obtain ⟨d, ds, hd, hdd⟩ := showNat_cons n
  have hclit : clit true A64.predPrefix (g ++ (p :: (showNat n ++ (predTailText tail ++ rest)))) =
      some (showNat n ++ (predTailText tail ++ rest)) := by
    simp [clit, sk_true, skipWs_blank_append g _ hg, skipWs_cons p _ hpws, A64.predPrefix, dropPrefixCI, hp]
  have hstop : StopsAt isDigitC (predTailText tail ++ rest) := by
    intro c r h
    cases tail with
    | none => simp [predTailText] at h; exact hf.stops isDigitC rest (by decide) c r h
    | pred c' => simp [predTailText] at h; rw [← h.1]; decide
    | shape l s => simp [predTailText, shapeText] at h; rw [← h.1]; decide
  have hname : word true isDigitC (showNat n ++ (predTailText tail ++ rest)) =
      some (showNat n, predTailText tail ++ rest) := by
    simp only [word, sk_true]
    rw [hd, List.cons_append, skipWs_cons d _ (digit_not_ws d hdd)]
    exact wordNS_append isDigitC d ds _ (by rw [← hd]; exact showNat_digits n) hstop
  cases tail with
  | none =>
    -- a following `//` comment is not a predication
    have hpt : predTail rest = none := by
      have h46 : laneShape true rest = none := laneShape_none _ (lit_none_of_follow rest hf 46 [] (by omega))
      simp only [predTail, h46, mapR_none]
      cases hs : skipWs rest with
      | nil => simp [lit, sk_true, hs, dropPrefix]
      | cons c r =>
        by_cases hc : c = 47
        · subst hc
          obtain ⟨r', hr'⟩ := hf.slash r hs
          subst hr'
          simp [lit, sk_true, hs, dropPrefix, char1, skipWs, isWs, charNS, isPredicationC, A64.predicationChars, lowerC]
        · simp [lit, sk_true, hs, dropPrefix, hc]
    refine ⟨skipWs rest, ?_, skipWs_idem rest⟩
    simp only [predTailText, List.nil_append] at hclit hname ⊢
    simp only [predicateP, hclit, hname, optP_none true predTail _ hpt, sk_true, predTok]
  | pred c =>
    have hc : isPredicationC c = true := ht
    have hcws := alpha_not_ws c (predication_alpha c hc)
    have hpt : predTail (predTailText (.pred c) ++ rest) = some ((some [c], none), rest) := by
      have h47 : lit true [47] (47 :: c :: rest) = some (c :: rest) := by
        simp [lit, sk_true, skipWs_cons 47 _ (by decide : isWs 47 = false), dropPrefix]
      have hch : char1 true isPredicationC (c :: rest) = some (c, rest) := by
        simp only [char1, sk_true, skipWs_cons c _ hcws, charNS, hc]; rfl
      simp only [predTail, predTailText, List.cons_append, List.nil_append, h47, hch, mapR_some, orElseR_some_left]
    refine ⟨rest, ?_, rfl⟩
    simp only [predicateP, hclit, hname, optP_some true predTail _ _ _ hpt, predTok]
  | shape l s =>
    obtain ⟨hl, hs⟩ := ht
    have hls := laneShape_some l s rest hl hs
    have hpt : predTail (predTailText (.shape l s) ++ rest) = some ((none, some (l, [s])), rest) := by
      have h47 : lit true [47] (predTailText (.shape l s) ++ rest) = none := by
        simp [predTailText, shapeText, lit, sk_true, skipWs, isWs, dropPrefix]
      simp only [predTail, h47, orElseR_none_left]
      simp only [predTailText, hls, mapR_some]
    refine ⟨rest, ?_, rfl⟩
    simp only [predicateP, hclit, hname, optP_some true predTail _ _ _ hpt, predTok]

theorem pred_prefix_cases (p : Nat) (hp : lowerC p = 112) : p = 112 ∨ p = 80 := by
  simp only [lowerC] at hp; split at hp <;> omega

/-- the identifier-like part of a predicate register text -/
def predWord (tail : PredTail) : Txt :=
  match tail with
  | .shape l s => shapeText l (some s)
  | _ => []

def predAfter (tail : PredTail) : Txt :=
  match tail with
  | .pred c => [47, c]
  | _ => []

theorem predTailText_split (tail : PredTail) : predTailText tail = predWord tail ++ predAfter tail := by
  cases tail <;> simp [predTailText, predWord, predAfter]

/-- **predicate register** in any operand slot -/
theorem goodOp_pred (p n : Nat) (tail : PredTail) (hp : lowerC p = 112) (ht : PredTailOk tail) :
    GoodOp false true (regText (.pred p n tail)) (.reg (predTok n tail)) := by
  have hal : isAlphaC p = true := alpha_of_lowerC_alpha p (by rw [hp]; decide)
  have hpws := alpha_not_ws p hal
  obtain ⟨d, ds, hd, hdd⟩ := showNat_cons n
  have hvec : isVectorPrefixC p = false := by simp [isVectorPrefixC, hp, A64.vectorPrefixes]
  have hsc : isScalarPrefixC p = false := by
    rcases pred_prefix_cases p hp with rfl | rfl <;> decide
  have hw : ∀ c ∈ showNat n ++ predWord tail, isIdRestC c = true := by
    intro c hc
    rcases List.mem_append.mp hc with h | h
    · exact digit_idRest c (showNat_digits n c h)
    · cases tail with
      | none => simp [predWord] at h
      | pred c' => simp [predWord] at h
      | shape l s => exact idRest_shapeText l (some s) ht.1 (fun s' hs' => by cases hs'; exact ht.2) c h
  have hcommon : ∀ g rest, Blank g → Follow rest →
      registerP (g ++ (regText (.pred p n tail) ++ rest)) = some (predTok n tail, skipWs rest) ∧
      (∃ r2, immediate (g ++ (regText (.pred p n tail) ++ rest)) =
          some (.ident ⟨none, p :: (showNat n ++ predWord tail), none⟩, r2) ∧
        identifier (g ++ (regText (.pred p n tail) ++ rest)) =
          some (⟨none, p :: (showNat n ++ predWord tail), none⟩, r2) ∧
        (skipWs rest).length ≤ r2.length ∧
        arithP (g ++ (regText (.pred p n tail) ++ rest)) = none) ∧
      conditionP (g ++ (regText (.pred p n tail) ++ rest)) = none ∧
      prefetchP (g ++ (regText (.pred p n tail) ++ rest)) = none ∧
      memoryP (g ++ (regText (.pred p n tail) ++ rest)) = none := by
    intro g rest hg hf
    have htext : regText (.pred p n tail) ++ rest = p :: (showNat n ++ (predTailText tail ++ rest)) := by
      rw [regText_pred]; simp [List.append_assoc]
    rw [htext]
    obtain ⟨r', hpp, hsk⟩ := predicateP_text g p n tail rest hg hp ht hf
    refine ⟨?_, ?_, ?_, ?_, ?_⟩
    · have hcore : registerCore (g ++ (p :: (showNat n ++ (predTailText tail ++ rest)))) = some (predTok n tail, r') := by
        unfold registerCore
        rw [hpp, vectorP_none_prefix g p _ hg hpws hvec]
        have hs : scalarP true (g ++ (p :: (showNat n ++ (predTailText tail ++ rest)))) = none := by
          simp [scalarP, char1, sk_true, skipWs_blank_append g _ hg, skipWs_cons p _ hpws, charNS, hsc]
        rw [hs, hd, List.cons_append]
        rw [aliasP_none_digit _ g p d _ hg hpws hdd aliasSp_names, aliasP_none_digit _ g p d _ hg hpws hdd aliasZr_names]
        rfl
      have hst : shiftTail r' = none := by rw [shiftTail_congr r' rest hsk]; exact shiftTail_none rest hf
      have htk : (predTok n tail).shiftOp = none ∧ (predTok n tail).shift = none := ⟨rfl, rfl⟩
      simp only [registerP, hcore, optP_none true shiftTail _ hst, sk_true, hsk]
      cases h : predTok n tail
      simp_all
    · rw [predTailText_split]
      have hstop : StopsAt isIdRestC (predAfter tail ++ rest) := by
        cases tail with
        | pred c => intro c' r h; simp [predAfter] at h; rw [← h.1]; decide
        | none => simpa [predAfter] using hf.stops isIdRestC rest (by decide)
        | shape l s => simpa [predAfter] using hf.stops isIdRestC rest (by decide)
      have hplus : lit true [43] (predAfter tail ++ rest) = none := by
        cases tail with
        | pred c => simp [predAfter, lit, sk_true, skipWs, isWs, dropPrefix]
        | none => simpa [predAfter] using lit_none_of_follow rest hf 43 [] (by omega)
        | shape l s => simpa [predAfter] using lit_none_of_follow rest hf 43 [] (by omega)
      have himm := immediate_word' g p (showNat n ++ predWord tail) (predAfter tail ++ rest) hg (alpha_idFirst p hal) hw hstop hplus
      have hid := identifier_word' g p (showNat n ++ predWord tail) (predAfter tail ++ rest) hg (alpha_idFirst p hal) hw hstop hplus
      simp only [List.append_assoc] at himm hid ⊢
      refine ⟨skipWs (predAfter tail ++ rest), himm, hid, ?_, ?_⟩
      · cases tail with
        | pred c =>
          have : skipWs (predAfter (.pred c) ++ rest) = 47 :: c :: rest := by simp [predAfter, skipWs, isWs]
          rw [this]; have := skipWs_length_le rest; simp; omega
        | none => simp [predAfter]
        | shape l s => simp [predAfter]
      · unfold arithP
        rw [himm]
        simp only
        cases tail with
        | pred c => simp [predAfter, lit, sk_true, skipWs, isWs, dropPrefix]
        | none =>
          simp only [predAfter, List.nil_append, lit_skip]
          cases hlc : lit true [44] rest with
          | none => rfl
          | some r1 => simp [hf.noShift r1 hlc]
        | shape l s =>
          simp only [predAfter, List.nil_append, lit_skip]
          cases hlc : lit true [44] rest with
          | none => rfl
          | some r1 => simp [hf.noShift r1 hlc]
    · rw [hd, List.cons_append]; exact conditionP_none_snd_digit g p d _ hg hpws hdd
    · rw [hd, List.cons_append]; exact prefetchP_none_snd_digit g p d _ hg hpws hdd
    · exact memoryP_none_head g p _ hg hpws (by simp only [isAlphaC] at hal; simp at hal; omega)
  refine ⟨?_, ?_, ?_, ?_⟩
  · intro g rest hg hf
    obtain ⟨hreg, ⟨r2, himm, _, hlen, har⟩, hcond, _, hmem⟩ := hcommon g rest hg hf
    refine ⟨skipWs rest, ?_, skipWs_idem rest⟩
    simp only [operandRest, hcond, hreg, himm, hmem, arithOp, har, mapR_none, mapR_some, wordEnd_none,
      orElseR_none_left, better_none_right]
    rw [better_some_ge _ _ _ _ hlen]; rfl
  · intro _ g rest hg hf
    obtain ⟨hreg, ⟨r2, himm, hid, hlen, har⟩, _, hprf, hmem⟩ := hcommon g rest hg hf
    refine ⟨skipWs rest, ?_, skipWs_idem rest⟩
    simp only [operandFirst, hprf, hreg, himm, hid, hmem, arithOp, har, mapR_none, mapR_some, wordEnd_none,
      orElseR_none_left, better_none_right]
    rw [better_some_ge _ _ _ _ hlen, better_some_ge _ _ _ _ hlen]
  · intro g rest hg _
    rw [regText_pred, List.cons_append, List.append_assoc, hd, List.cons_append]
    exact shiftOp_none_snd_digit g p d _ hg hpws hdd
  · refine ⟨p, showNat n ++ predTailText tail, regText_pred p n tail, hpws, ?_, ?_⟩ <;>
      (simp only [isAlphaC] at hal; simp at hal; omega)

theorem covered_pred (last fst : Bool) (p n : Nat) (tail : PredTail) (hp : lowerC p = 112) (ht : PredTailOk tail) :
    CoveredOp last fst (.reg (.pred p n tail)) := by
  refine ⟨regText (.pred p n tail), [], .reg (predTok n tail), rfl, ?_, ?_⟩
  · intro gs hgs
    have : gs = [] := hgs
    subst this
    have := (goodOp_pred p n tail hp ht).any last
    cases fst with
    | true => simpa [joinInner] using this.toFirst
    | false => simpa [joinInner] using this.toRest
  · have hsp := showNat_ne_sp n
    simp only [processOperand, predTok, hsp, processRegister, expectOp, expectReg]
    have h112 : lowerC 112 = 112 := by decide
    cases tail <;> simp [lower, lowerTxt1, A64.predPrefix, hp, h112]

end OsacaVerif.ParseA64
