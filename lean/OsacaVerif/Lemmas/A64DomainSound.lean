import OsacaVerif.Lemmas.A64ListCov
import OsacaVerif.Model.A64Domain
/-
  The executable domain test `Domain.*B` implies the well-formedness predicates of the lemmas.
-/
namespace OsacaVerif.ParseA64
open OsacaVerif.Text OsacaVerif.Spec.A64 OsacaVerif.Gen OsacaVerif.ParseA64.Domain

theorem lanesOkB_sound (l : Option Txt) (h : lanesOkB l = true) : LanesOk l := by
  intro x hx; subst hx
  simp only [lanesOkB, Bool.and_eq_true] at h
  exact ⟨by intro e; subst e; simp at h, fun c hc => List.all_eq_true.mp h.2 c hc⟩

theorem shapeOkB_sound (s : Option Nat) (h : shapeOkB s = true) : ShapeOk s := by
  intro x hx; subst hx; exact h

theorem elemOkB_sound (e : ElemA) (h : elemOkB e = true) : ElemOk e := by
  cases e with
  | scalar p n => exact .scalar p n h
  | vec p n lanes shape =>
    simp only [elemOkB, Bool.and_eq_true] at h
    exact .vec p n lanes shape h.1.1 (lanesOkB_sound _ h.1.2) (shapeOkB_sound _ h.2)

theorem predTailOkB_sound (t : PredTail) (h : predTailOkB t = true) : PredTailOk t := by
  cases t with
  | none => trivial
  | pred c => exact h
  | shape l s =>
    simp only [predTailOkB, Bool.and_eq_true] at h
    exact ⟨lanesOkB_sound _ h.1, h.2⟩

theorem digitsB_sound (t : Txt) (h : digitsB t = true) : Digits t := by
  simp only [digitsB, Bool.and_eq_true] at h
  exact ⟨by intro e; subst e; simp at h, fun c hc => List.all_eq_true.mp h.2 c hc⟩

theorem expOkB_sound (e : Option (Nat × Nat × Txt)) (h : expOkB e = true) : ExpOk e := by
  intro x hx; subst hx
  simp only [expOkB, Bool.and_eq_true, beq_iff_eq] at h
  exact ⟨h.1.1, h.1.2, digitsB_sound _ h.2⟩

theorem fOkB_sound (f : Option Nat) (h : fOkB f = true) : FOk f := by
  intro c hc; subst hc
  simpa [fOkB] using h

theorem ciPrefixB_eq (l w : Txt) : ciPrefixB l w = ciPrefix l w := by
  induction l generalizing w with
  | nil => rfl
  | cons a l ih =>
    cases w with
    | nil => rfl
    | cons c w => simp [ciPrefixB, ciPrefix, ih]

theorem nameShapeB_sound (name : Txt) (h : nameShapeB name = true) : NameShape name := by
  cases name with
  | nil => simp [nameShapeB] at h
  | cons c w =>
    simp only [nameShapeB, Bool.and_eq_true] at h
    exact ⟨c, w, rfl, h.1, fun d hd => List.all_eq_true.mp h.2 d hd⟩

theorem identNameOkB_sound (name : Txt) (h : identNameOkB name = true) : IdentNameOk name := by
  simp only [identNameOkB, Bool.and_eq_true, Bool.not_eq_true'] at h
  obtain ⟨⟨⟨⟨⟨h1, h2⟩, h3⟩, h4⟩, h5⟩, h6⟩ := h
  refine ⟨nameShapeB_sound name h1, h2, h3, h4, ?_, ?_⟩
  · exact h5
  · rw [List.all_eq_true] at h6 ⊢
    intro sw hsw; have := h6 sw hsw; rw [ciPrefixB_eq] at this; exact this

theorem hexDigitB_eq : hexDigitB = hexDigit := rfl

theorem offOkB_sound (o : Option Txt) (h : offOkB o = true) : OffOk o := by
  intro x hx; subst hx
  simp only [offOkB, Bool.or_eq_true, beq_iff_eq] at h
  rcases h with h | h
  · exact Or.inl ⟨_, h⟩
  · right
    match x, h with
    | 48 :: 120 :: hh, h =>
      simp only [Bool.or_eq_true, beq_iff_eq] at h
      rcases h with h | h
      · exact ⟨false, natOfDigits 16 hh, by rw [showHex, ← hexDigitB_eq, ← h]⟩
      · exact ⟨true, natOfDigits 16 hh, by rw [showHex, ← hexDigitB_eq, ← h]⟩

theorem relocOkB_sound (r : Option Txt) (h : relocOkB r = true) : RelocOk r := by
  intro x hx; subst hx
  simp only [relocOkB, Bool.and_eq_true] at h
  exact ⟨by intro e; subst e; simp at h, fun c hc => List.all_eq_true.mp h.2 c hc⟩

theorem identOkB_sound (i : IdentA) (h : identOkB i = true) : IdentOk i := by
  simp only [identOkB, Bool.and_eq_true, Bool.or_eq_true] at h
  obtain ⟨⟨⟨h1, h2⟩, h3⟩, h4⟩ := h
  refine ⟨nameShapeB_sound _ h1, relocOkB_sound _ h2, offOkB_sound _ h3, ?_⟩
  intro hh hr
  rcases h4 with (h4 | h4) | h4
  · rw [hh] at h4; cases h4
  · rw [hr] at h4; cases h4
  · exact identNameOkB_sound _ h4

theorem memRegOkB_sound (r : RegA) (h : memRegOkB r = true) : MemRegOk r := by
  cases r with
  | scalar p n => exact .scalar p n h
  | alias t => exact .alias t (by simpa [memRegOkB, aliasTextsB, aliasTexts] using h)
  | vec => simp [memRegOkB] at h
  | pred => simp [memRegOkB] at h

theorem midOkB_sound (m : MemMidA) (h : midOkB m = true) : MidOk m := by
  match m, h with
  | .none, _ => trivial
  | .off (.int _), _ => trivial
  | .off (.ident i), h => exact identOkB_sound i h
  | .idx r s, h =>
    simp only [midOkB, Bool.and_eq_true] at h
    refine ⟨memRegOkB_sound r h.1, ?_⟩
    intro x hx; subst hx
    simpa [scaleOpsB, scaleOps] using h.2

theorem memOkB_sound (m : MemA) (h : memOkB m = true) : MemOk m := by
  simp only [memOkB, Bool.and_eq_true, Bool.or_eq_true, Bool.not_eq_true'] at h
  refine ⟨memRegOkB_sound _ h.1.1, midOkB_sound _ h.1.2, ?_⟩
  intro hp
  rcases h.2 with h2 | h2
  · rw [hp] at h2; cases h2
  · cases hpo : m.post with
    | none => rfl
    | some x => rw [hpo] at h2; cases h2

end OsacaVerif.ParseA64
