import OsacaVerif.Lemmas.A64Ident
/-
  Identifiers written with a relocation `:lo12:name`, an offset `name+8` or `#`.
-/
namespace OsacaVerif.ParseA64
open OsacaVerif.Text OsacaVerif.Spec.A64 OsacaVerif.Gen

def relocText (r : Option Txt) : Txt :=
  match r with
  | some x => 58 :: (x ++ [58])
  | none => []

def offText (o : Option Txt) : Txt :=
  match o with
  | some x => 43 :: x
  | none => []

theorem identText_eq (i : IdentA) :
    identText i = optHash i.hash ++ (relocText i.reloc ++ (i.name ++ offText i.off)) := by
  cases hr : i.reloc <;> cases ho : i.off <;> simp [identText, relocText, offText, hr, ho, List.append_assoc]

def RelocOk (r : Option Txt) : Prop := ∀ x, r = some x → x ≠ [] ∧ ∀ c ∈ x, isRelocC c = true
def OffOk (o : Option Txt) : Prop :=
  ∀ x, o = some x → (∃ n, x = showNat n) ∨ (∃ up n, x = 48 :: 120 :: showHex up n)
def NameShape (name : Txt) : Prop := ∃ c w, name = c :: w ∧ isIdFirstC c = true ∧ ∀ d ∈ w, isIdRestC d = true

/-- the number alternatives of `immediate` fail on a text that does not start like a number -/
theorem numgroup_none_head (c : Nat) (t : Txt) (hc : isWs c = false) (hd : isDigitC c = false) (h45 : c ≠ 45) :
    (mapR ImmTok.num (hexNum (c :: t)) <^> mapR ImmTok.num (decNum (c :: t)) <^> floatP (c :: t) <^> doubleP (c :: t))
      = none := by
  have hstopd : StopsAt isDigitC (c :: t) := by
    intro c' r h'; simp at h'; obtain ⟨rfl, _⟩ := h'; exact hd
  have hhex : hexNum (c :: t) = none := by
    simp only [hexNum, skipWs_cons c _ hc, hexNumNS]
    split
    · rename_i r h'; simp at h'; omega
    · have hc48 : c ≠ 48 := by intro h'; subst h'; simp [isDigitC] at hd
      have : dropPrefix (c :: t) A64.hexPrefix = none := dropPrefix_head_ne c 48 _ _ hc48
      simp [this]
  have hdec : decNum (c :: t) = none := by
    simp only [decNum, skipWs_cons c _ hc, decNumNS]
    split
    · rename_i r h'; simp at h'; omega
    · exact wordNS_none isDigitC _ hstopd
  have hm : mantissa (c :: t) = none := by
    simp only [mantissa, skipWs_cons c _ hc]
    split
    · rename_i r h'; simp at h'; omega
    · simp [mantissaNS, wordNS_none isDigitC _ hstopd]
  simp [hhex, hdec, floatP, doubleP, hm]

theorem offset_num (x rest : Txt) (hx : (∃ n, x = showNat n) ∨ (∃ up n, x = 48 :: 120 :: showHex up n))
    (hs : HeadStop rest) : (hexNum (x ++ rest) </> decNum (x ++ rest)) = some (x, rest) := by
  rcases hx with ⟨n, rfl⟩ | ⟨up, n, rfl⟩
  · have h := immediate_dec_aux false n rest hs
    simp only [optNeg, Bool.false_eq_true, if_false, List.nil_append] at h
    -- the decimal reading is the only number reading; read it off the group
    obtain ⟨d, ds, hd, hdd⟩ := showNat_cons n
    have hall : ∀ c ∈ d :: ds, isDigitC c = true := by rw [← hd]; exact showNat_digits n
    have hwsd := digit_not_ws d hdd
    have hdb := digit_bounds d hdd
    have hhex : hexNum (showNat n ++ rest) = none := by
      rw [hd, List.cons_append]
      simp only [hexNum, skipWs_cons d _ hwsd, hexNumNS]
      split
      · rename_i r h'; simp at h'; omega
      · have := dropPrefix_hex_digits (d :: ds) rest hall (hs.stops _ _ (by decide))
        simp only [List.cons_append] at this
        simp [this]
    have hdec : decNum (showNat n ++ rest) = some (showNat n, rest) := by
      rw [hd, List.cons_append]
      simp only [decNum, skipWs_cons d _ hwsd, decNumNS]
      split
      · rename_i r h'; simp at h'; omega
      · exact wordNS_append isDigitC d ds rest hall (hs.stops _ _ (by decide))
    simp [hhex, hdec]
  · obtain ⟨d, ds, hd, hall⟩ := showHex_cons up n
    have hw : wordNS isHexC (showHex up n ++ rest) = some (showHex up n, rest) := by
      rw [hd, List.cons_append]; exact wordNS_append isHexC d ds rest hall (hs.stops _ _ (by decide))
    have hhex : hexNum (48 :: 120 :: showHex up n ++ rest) = some (48 :: 120 :: showHex up n, rest) := by
      simp only [List.cons_append, hexNum, skipWs_cons 48 _ (by decide : isWs 48 = false), hexNumNS]
      have : dropPrefix (48 :: 120 :: (showHex up n ++ rest)) A64.hexPrefix = some (showHex up n ++ rest) :=
        dropPrefix_append [48, 120] _
      rw [this]; simp only [hw]; simp [A64.hexPrefix]
    simp only [List.cons_append] at hhex ⊢
    simp [hhex]

/-- the identifier grammar on a written identifier (∀ relocation, name, offset) -/
theorem identifier_full (g : Txt) (r : Option Txt) (name : Txt) (o : Option Txt) (rest : Txt) (hg : Blank g)
    (hr : RelocOk r) (hn : NameShape name) (ho : OffOk o) (hf : Follow rest) :
    ∃ r', identifier (g ++ (relocText r ++ (name ++ (offText o ++ rest)))) =
        some (⟨optMap (fun x => 58 :: (x ++ [58])) r, name, o⟩, r') ∧ skipWs r' = skipWs rest ∧
      r'.length ≤ rest.length := by
  obtain ⟨c, w, rfl, hc, hw⟩ := hn
  obtain ⟨hws, h58, _, _, _, _, _, _⟩ := idFirst_facts c hc
  -- name and offset, once the relocation is read
  have hstop : StopsAt isIdRestC (offText o ++ rest) := by
    cases o with
    | none => simpa [offText] using hf.stops isIdRestC rest (by decide)
    | some x => intro c' r' h; simp [offText] at h; rw [← h.1]; decide
  have hname : identName (c :: w ++ (offText o ++ rest)) = some (c :: w, offText o ++ rest) := by
    simp [identName, skipWs_cons c _ hws, hc, spanP_append isIdRestC w _ hw hstop]
  have hoff : ∃ r', optP true identOffset (offText o ++ rest) = (o, r') ∧ skipWs r' = skipWs rest ∧
      r'.length ≤ rest.length := by
    cases o with
    | none =>
      have : identOffset rest = none := by simp [identOffset, lit_none_of_follow rest hf 43 [] (by omega)]
      exact ⟨skipWs rest, by simp [offText, optP_none true identOffset _ this, sk_true], skipWs_idem rest,
        skipWs_length_le rest⟩
    | some x =>
      have hl : lit true [43] (43 :: (x ++ rest)) = some (x ++ rest) := by
        simp [lit, sk_true, skipWs_cons 43 _ (by decide : isWs 43 = false), dropPrefix]
      have : identOffset (offText (some x) ++ rest) = some (x, rest) := by
        simp only [offText, List.cons_append, identOffset, hl, offset_num x rest (ho x rfl) hf.headStop]
      exact ⟨rest, by rw [optP_some true identOffset _ _ _ this], rfl, Nat.le_refl _⟩
  obtain ⟨r', hoff', hsk, hlen⟩ := hoff
  refine ⟨r', ?_, hsk, hlen⟩
  cases r with
  | none =>
    have hrel : relocation (g ++ (c :: w ++ (offText o ++ rest))) = none := by
      simp only [relocation, List.cons_append, skipWs_blank_append g _ hg, skipWs_cons c _ hws]
      split
      · rename_i r h; simp at h; omega
      · rfl
    simp only [relocText, List.nil_append, identifier, optP_none true relocation _ hrel, sk_true]
    rw [skipWs_blank_append g _ hg, List.cons_append, skipWs_cons c _ hws, ← List.cons_append, hname]
    simp only [hoff', optMap]
  | some x =>
    obtain ⟨hne, hall⟩ := hr x rfl
    match x, hne with
    | x0 :: xs, _ =>
      have hw58 : StopsAt isRelocC (58 :: (c :: w ++ (offText o ++ rest))) := by
        intro c' r h; simp at h; rw [← h.1]; decide
      have hword := wordNS_append isRelocC x0 xs _ hall hw58
      have hrel : relocation (g ++ (relocText (some (x0 :: xs)) ++ (c :: w ++ (offText o ++ rest)))) =
          some (58 :: (x0 :: xs ++ [58]), c :: w ++ (offText o ++ rest)) := by
        simp only [relocText, List.cons_append, List.append_assoc, List.nil_append, relocation,
          skipWs_blank_append g _ hg, skipWs_cons 58 _ (by decide : isWs 58 = false)]
        simp only [List.cons_append] at hword
        rw [hword]
        rfl
      simp only [identifier, optP_some true relocation _ _ _ hrel, hname, hoff', optMap]

/-! ### the identifier as an operand -/
structure IdentOk (i : IdentA) : Prop where
  name : NameShape i.name
  reloc : RelocOk i.reloc
  off : OffOk i.off
  /-- written without `#` and relocation, the name must not look like a register, alias, condition code,
      shift operator or prefetch type -/
  plain : i.hash = false → i.reloc = none → IdentNameOk i.name

def identTok (i : IdentA) : Ident := ⟨optMap (fun x => 58 :: (x ++ [58])) i.reloc, i.name, i.off⟩

/-- the text behind the optional `#` -/
def identBody (i : IdentA) : Txt := relocText i.reloc ++ (i.name ++ offText i.off)

theorem identBody_head (i : IdentA) (hn : NameShape i.name) :
    ∃ c t, identBody i = c :: t ∧ isWs c = false ∧ c ≠ 35 ∧ isDigitC c = false ∧ c ≠ 45 ∧ c ≠ 43 ∧ c ≠ 91 ∧ c ≠ 123 ∧
      (i.reloc = none → isIdFirstC c = true ∧ ∃ w, i.name = c :: w) ∧ (i.reloc ≠ none → c = 58) := by
  obtain ⟨c, w, hcw, hc, _⟩ := hn
  obtain ⟨hws, h58, h35, h45, h48, hnd, h91, h123⟩ := idFirst_facts c hc
  cases hr : i.reloc with
  | none =>
    refine ⟨c, w ++ offText i.off, by simp [identBody, relocText, hr, hcw], hws, h35, hnd, h45, ?_, h91, h123,
      ⟨fun _ => ⟨hc, w, hcw⟩, fun h => absurd rfl h⟩⟩
    simp only [isIdFirstC, isAlphaC, A64.identFirstExtra] at hc; simp at hc; omega
  | some x =>
    exact ⟨58, x ++ [58] ++ (i.name ++ offText i.off), by simp [identBody, relocText, hr, List.append_assoc],
      by decide, by decide, by decide, by decide, by decide, by decide, by decide,
      ⟨fun h => by simp at h, fun _ => rfl⟩⟩

/-- **identifier** (∀ relocation, name, offset, with or without `#`) as the grammar reads it -/
theorem immediate_identFull (g : Txt) (i : IdentA) (rest : Txt) (hg : Blank g) (hok : IdentOk i) (hf : Follow rest) :
    ∃ r', immediate (g ++ (identText i ++ rest)) = some (.ident (identTok i), r') ∧ skipWs r' = skipWs rest ∧
      r'.length ≤ rest.length := by
  obtain ⟨c, t, hct, hws, h35, hnd, h45, _, _, _, _, _⟩ := identBody_head i hok.name
  have htext : g ++ (identText i ++ rest) = g ++ (optHash i.hash ++ (c :: t ++ rest)) := by
    rw [identText_eq, ← hct]; simp [identBody, List.append_assoc]
  obtain ⟨r', hid, hsk, hlen⟩ := identifier_full [] i.reloc i.name i.off rest blank_nil hok.reloc hok.name hok.off hf
  have hX : c :: t ++ rest = relocText i.reloc ++ (i.name ++ (offText i.off ++ rest)) := by
    rw [← hct]; simp [identBody, List.append_assoc]
  refine ⟨r', ?_, hsk, hlen⟩
  rw [htext]
  simp only [immediate, List.cons_append, optLit_hash g i.hash c (t ++ rest) hg hws h35,
    numgroup_none_head c (t ++ rest) hws hnd h45, orElseR_none_left]
  have : c :: (t ++ rest) = relocText i.reloc ++ (i.name ++ (offText i.off ++ rest)) := by
    rw [← hX]; rfl
  rw [this]
  simp only [List.nil_append] at hid
  rw [hid]; rfl

theorem identText_head (i : IdentA) (hn : NameShape i.name) :
    ∃ c t, identText i = c :: t ∧ isWs c = false ∧ c ≠ 43 ∧ c ≠ 91 ∧ c ≠ 123 ∧
      ((i.hash = true ∨ i.reloc ≠ none) → isAlphaC c = false ∧ isIdFirstC c = false) ∧
      (i.hash = true → c = 35) := by
  obtain ⟨c, t, hct, hws, h35, hnd, h45, h43, h91, h123, hplain, hrel⟩ := identBody_head i hn
  have he : identText i = optHash i.hash ++ identBody i := by rw [identText_eq]; rfl
  cases hh : i.hash with
  | true =>
    exact ⟨35, identBody i, by simp [he, optHash, hh], by decide, by decide, by decide, by decide,
      fun _ => ⟨by decide, by decide⟩, fun _ => rfl⟩
  | false =>
    refine ⟨c, t, by simp [he, optHash, hh, hct], hws, h43, h91, h123, ?_, fun h => by cases h⟩
    intro h
    rcases h with h | h
    · cases h
    · have := hrel h; subst this; exact ⟨by decide, by decide⟩

/-- no register reading of a written identifier -/
theorem registerP_none_identFull (g : Txt) (i : IdentA) (rest : Txt) (hg : Blank g) (hok : IdentOk i)
    (hf : Follow rest) : registerP (g ++ (identText i ++ rest)) = none := by
  obtain ⟨c, t, hct, hws, h43, h91, h123, hspecial, _⟩ := identText_head i hok.name
  by_cases hsp : i.hash = true ∨ i.reloc ≠ none
  · obtain ⟨ha, _⟩ := hspecial hsp
    rw [hct, List.cons_append]; exact registerP_none_nonalpha g c _ hg hws ha h123
  · have hh : i.hash = false := by
      cases h : i.hash with
      | false => rfl
      | true => exact absurd (Or.inl h) hsp
    have hr : i.reloc = none := by
      cases h : i.reloc with
      | none => rfl
      | some x => exact absurd (Or.inr (by simp [h])) hsp
    have hnok := hok.plain hh hr
    obtain ⟨c', w, hname, hc', hw⟩ := hnok.shape
    have htext : identText i = c' :: w ++ offText i.off := by
      rw [identText_eq, hh, hr, hname]; simp [optHash, relocText]
    have hne : NameEnd (offText i.off ++ rest) := by
      cases i.off with
      | none => simpa [offText] using hf.nameEnd
      | some x => simpa [offText] using nameEnd_plus (x ++ rest)
    have hreg := registerP_none_ident g c' w (offText i.off ++ rest) hg hc' hw hne
      (by rw [← hname]; exact hnok.noReg) (by rw [← hname]; exact hnok.noAlias)
    rw [htext]; simpa [List.append_assoc] using hreg

/-- **identifier** in a later operand slot -/
theorem goodRest_identFull (i : IdentA) (hok : IdentOk i) : GoodRest false (identText i) (.imm (.ident (identTok i))) := by
  obtain ⟨c, t, hct, hws, h43, h91, h123, hspecial, _⟩ := identText_head i hok.name
  by_cases hsp : i.hash = true ∨ i.reloc ≠ none
  · -- starts with `#` or `:`: only the immediate alternative applies
    obtain ⟨ha, _⟩ := hspecial hsp
    refine ⟨?_, ?_⟩
    · intro g rest hg hf
      obtain ⟨r', himm, hsk, _⟩ := immediate_identFull g i rest hg hok hf
      have har := arithP_none_of_immediate _ rest _ _ himm hsk hf
      have hreg : registerP (g ++ (identText i ++ rest)) = none := by
        rw [hct, List.cons_append]; exact registerP_none_nonalpha g c _ hg hws ha h123
      have hcond : conditionP (g ++ (identText i ++ rest)) = none := by
        rw [hct, List.cons_append]; exact conditionP_none_nonalpha g c _ hg hws ha
      have hmem : memoryP (g ++ (identText i ++ rest)) = none := by
        rw [hct, List.cons_append]; exact memoryP_none_head g c _ hg hws h91
      exact ⟨r', by simp [operandRest, hcond, hreg, himm, hmem, arithOp, har], hsk⟩
    · intro g rest hg _
      rw [hct, List.cons_append]
      exact shiftOp_none_nonalpha g c _ hg hws ha
  · -- a plain name, possibly with an offset
    have hh : i.hash = false := by
      cases h : i.hash with
      | false => rfl
      | true => exact absurd (Or.inl h) hsp
    have hr : i.reloc = none := by
      cases h : i.reloc with
      | none => rfl
      | some x => exact absurd (Or.inr (by simp [h])) hsp
    have hnok := hok.plain hh hr
    obtain ⟨c', w, hname, hc', hw⟩ := hnok.shape
    have htext : identText i = c' :: w ++ offText i.off := by
      rw [identText_eq, hh, hr, hname]; simp [optHash, relocText]
    have hne : ∀ rest, Follow rest → NameEnd (offText i.off ++ rest) := by
      intro rest hf
      cases i.off with
      | none => simpa [offText] using hf.nameEnd
      | some x => simpa [offText] using nameEnd_plus (x ++ rest)
    obtain ⟨hws', _, _, _, _, _, h91', _⟩ := idFirst_facts c' hc'
    refine ⟨?_, ?_⟩
    · intro g rest hg hf
      have hf' : Follow rest := hf
      obtain ⟨r', himm, hsk, hlen⟩ := immediate_identFull g i rest hg hok hf'
      have har := arithP_none_of_immediate _ rest _ _ himm hsk hf'
      have hform : g ++ (identText i ++ rest) = g ++ c' :: (w ++ (offText i.off ++ rest)) := by
        rw [htext]; simp [List.append_assoc]
      rw [hform] at himm har ⊢
      have hreg := registerP_none_ident g c' w (offText i.off ++ rest) hg hc' hw (hne rest hf')
        (by rw [← hname]; exact hnok.noReg) (by rw [← hname]; exact hnok.noAlias)
      have hreg' : registerP (g ++ c' :: (w ++ (offText i.off ++ rest))) = none := by simpa using hreg
      have hmem := memoryP_none_head g c' (w ++ (offText i.off ++ rest)) hg hws' h91'
      refine ⟨r', ?_, hsk⟩
      rcases conditionP_ident g c' w (offText i.off ++ rest) hg hc' hw (hne rest hf').noAlpha
        (by rw [← hname]; exact hnok.noCond) with hcn | ⟨x, d, e, t', hwe, hcs⟩
      · simp [operandRest, hcn, hreg', himm, hmem, arithOp, har]
      · have he : isWordEndC e = true := idRest_wordEnd e (hw e (by rw [hwe]; simp))
        have hlt : r'.length < (e :: (t' ++ (offText i.off ++ rest))).length := by
          simp only [List.length_cons, List.length_append]; omega
        simp only [operandRest, hcs, hreg', himm, hmem, arithOp, har, mapR_none, mapR_some, wordEnd, he, if_true,
          orElseR_none_left, better_none_left, better_none_right]
        rw [better_some_lt _ _ _ _ hlt]; rfl
    · intro g rest hg hf
      have hf' : Follow rest := hf
      have hform : g ++ (identText i ++ rest) = g ++ (c' :: w ++ (offText i.off ++ rest)) := by
        rw [htext]; simp [List.append_assoc]
      rw [hform]
      exact shiftOp_none_name g c' w (offText i.off ++ rest) hg hc' hw (by rw [← hname]; exact hnok.noShift)
        (hne rest hf')

/-- without `#`, the immediate alternative is the identifier alternative -/
theorem immediate_nohash (g : Txt) (c : Nat) (t : Txt) (hg : Blank g) (hws : isWs c = false) (h35 : c ≠ 35)
    (hnd : isDigitC c = false) (h45 : c ≠ 45) :
    immediate (g ++ c :: t) = mapR ImmTok.ident (identifier (g ++ c :: t)) := by
  have hopt : optLit true A64.immSym (g ++ c :: t) = c :: t := by
    have := optLit_hash g false c t hg hws h35
    simpa [optHash] using this
  have hid : identifier (c :: t) = identifier (g ++ c :: t) := by
    rw [← identifier_skip (g ++ c :: t), skipWs_blank_append g _ hg, skipWs_cons c _ hws]
  simp only [immediate, hopt, numgroup_none_head c t hws hnd h45, orElseR_none_left, hid]

/-- **identifier** in the first operand slot -/
theorem goodFirst_identFull (i : IdentA) (hok : IdentOk i) :
    GoodFirst false (identText i) (.imm (.ident (identTok i))) := by
  obtain ⟨c, t, hct, hws, h43, h91, h123, hspecial, hhash⟩ := identText_head i hok.name
  cases hh : i.hash with
  | true =>
    have hc35 : c = 35 := hhash hh
    subst hc35
    refine ⟨?_, ⟨35, t, hct, by decide, by decide, fun e => by cases e⟩⟩
    intro g rest hg hf
    have hf' : Follow rest := hf
    obtain ⟨r', himm, hsk, _⟩ := immediate_identFull g i rest hg hok hf'
    have har := arithP_none_of_immediate _ rest _ _ himm hsk hf'
    have hreg : registerP (g ++ (identText i ++ rest)) = none := by
      rw [hct, List.cons_append]; exact registerP_none_nonalpha g 35 _ hg (by decide) (by decide) (by decide)
    have hprf : prefetchP (g ++ (identText i ++ rest)) = none := by
      rw [hct, List.cons_append]; exact prefetchP_none_nonalpha g 35 _ hg (by decide) (by decide)
    have hmem : memoryP (g ++ (identText i ++ rest)) = none := by
      rw [hct, List.cons_append]; exact memoryP_none_head g 35 _ hg (by decide) (by decide)
    have hid : identifier (g ++ (identText i ++ rest)) = none := by
      rw [hct, List.cons_append]; exact identifier_none_head g 35 _ hg (by decide) (by decide) (by decide)
    exact ⟨r', by simp [operandFirst, hprf, hreg, himm, hmem, arithOp, har, hid], hsk⟩
  | false =>
    -- the text is the body: relocation, name, offset
    obtain ⟨cb, tb, hcb, hbws, hb35, hbnd, hb45, hb43, hb91, hb123, hplain, hrel⟩ := identBody_head i hok.name
    have htext : identText i = cb :: tb := by
      rw [identText_eq, hh, ← hcb]; simp [optHash, identBody]
    have hhead : ∃ c t, identText i = c :: t ∧ isWs c = false ∧ c ≠ 43 ∧
        (c = 58 → ∃ d t', t = d :: t' ∧ isRelocC d = true) := by
      refine ⟨cb, tb, htext, hbws, hb43, ?_⟩
      intro hc58
      cases hr : i.reloc with
      | none =>
        obtain ⟨hidf, _⟩ := hplain hr
        subst hc58; simp [isIdFirstC, isAlphaC, A64.identFirstExtra] at hidf
      | some x =>
        obtain ⟨hne, hall⟩ := hok.reloc x hr
        cases x with
        | nil => exact absurd rfl hne
        | cons x0 xs =>
          have : identBody i = 58 :: (x0 :: xs ++ [58] ++ (i.name ++ offText i.off)) := by
            simp [identBody, relocText, hr, List.append_assoc]
          rw [this] at hcb
          simp at hcb
          exact ⟨x0, xs ++ [58] ++ (i.name ++ offText i.off), by rw [← hcb.2]; simp [List.append_assoc], hall x0 (by simp)⟩
    refine ⟨?_, hhead⟩
    intro g rest hg hf
    have hf' : Follow rest := hf
    obtain ⟨r2, hid, hsk2, _⟩ := identifier_full g i.reloc i.name i.off rest hg hok.reloc hok.name hok.off hf'
    have hform : g ++ (identText i ++ rest) = g ++ cb :: (tb ++ rest) := by rw [htext]; simp
    have hform2 : g ++ (relocText i.reloc ++ (i.name ++ (offText i.off ++ rest))) = g ++ cb :: (tb ++ rest) := by
      have : relocText i.reloc ++ (i.name ++ (offText i.off ++ rest)) = identBody i ++ rest := by
        simp [identBody, List.append_assoc]
      rw [this, hcb]; simp
    rw [hform2] at hid
    rw [hform]
    have himm : immediate (g ++ cb :: (tb ++ rest)) = some (.ident (identTok i), r2) := by
      rw [immediate_nohash g cb (tb ++ rest) hg hbws hb35 hbnd hb45, hid]; rfl
    have har := arithP_none_of_immediate _ rest _ _ himm hsk2 hf'
    have hreg : registerP (g ++ cb :: (tb ++ rest)) = none := by
      have := registerP_none_identFull g i rest hg hok hf'
      rw [hform] at this; exact this
    have hmem := memoryP_none_head g cb (tb ++ rest) hg hbws hb91
    have hprf : prefetchP (g ++ cb :: (tb ++ rest)) = none := by
      cases hr : i.reloc with
      | some x =>
        have hc58 := hrel (by simp [hr])
        subst hc58
        exact prefetchP_none_nonalpha g 58 _ hg hbws (by decide)
      | none =>
        have hnok := hok.plain hh hr
        obtain ⟨c', w, hname, hc', hw⟩ := hnok.shape
        have hne : NameEnd (offText i.off ++ rest) := by
          cases i.off with
          | none => simpa [offText] using hf'.nameEnd
          | some x => simpa [offText] using nameEnd_plus (x ++ rest)
        have := clitOr_none_words (A64.prfTypes.map lower) prfWords g (c' :: w) (offText i.off ++ rest) c' w rfl
          (idFirst_facts c' hc').1 hg prfTypes_words (by rw [← hname]; exact hnok.noPrf) hne.noAlpha
        have hf2 : g ++ (c' :: w ++ (offText i.off ++ rest)) = g ++ cb :: (tb ++ rest) := by
          rw [← hform, identText_eq, hh, hr, hname]; simp [optHash, relocText, List.append_assoc]
        rw [hf2] at this
        simp [prefetchP, this]
    refine ⟨r2, ?_, hsk2⟩
    simp only [operandFirst, hprf, hreg, himm, hid, hmem, arithOp, har, mapR_none, mapR_some, wordEnd_none,
      orElseR_none_left, better_none_left, better_none_right, identTok]
    rw [better_some_ge _ _ _ _ (Nat.le_refl _)]

theorem covered_identFull (last fst : Bool) (i : IdentA) (hok : IdentOk i) : CoveredOp last fst (.ident i) := by
  refine ⟨identText i, [], .imm (.ident (identTok i)), rfl, ?_, ?_⟩
  · intro gs hgs
    have : gs = [] := hgs
    subst this
    cases fst with
    | true =>
      have := goodFirst_identFull i hok
      cases last with
      | true => simpa [joinInner] using this.weaken
      | false => simpa [joinInner] using this
    | false =>
      have := goodRest_identFull i hok
      cases last with
      | true => simpa [joinInner] using this.weaken
      | false => simpa [joinInner] using this
  · simp [processOperand, processImmediate, expectOp, expectIdent, identTok]

end OsacaVerif.ParseA64
