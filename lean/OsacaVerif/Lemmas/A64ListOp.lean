import OsacaVerif.Lemmas.A64List
/-
  Register lists and ranges as operands: the `register_list` alternative, the other operand
  alternatives, `resolve_range_list`, and the connection to the rendered pieces.
-/
namespace OsacaVerif.ParseA64
open OsacaVerif.Text OsacaVerif.Spec.A64 OsacaVerif.Gen

/-- text of the optional list index `[k]` with its three gaps -/
def idxG (idx : Option Nat) (g1 g2 g3 : Txt) : Txt :=
  match idx with
  | some k => g1 ++ 91 :: (g2 ++ (showNat k ++ (g3 ++ [93])))
  | none => []

theorem indexP_gaps (k : Nat) (g1 g2 g3 rest : Txt) (h1 : Blank g1) (h2 : Blank g2) (h3 : Blank g3) :
    indexP true (idxG (some k) g1 g2 g3 ++ rest) = some (showNat k, rest) := by
  obtain ⟨d, ds, hd, hdd⟩ := showNat_cons k
  have hstop : StopsAt isDigitC (g3 ++ 93 :: rest) := by
    intro c r h
    cases g3 with
    | nil => simp at h; rw [← h.1]; decide
    | cons b g' =>
      simp at h; rw [← h.1]
      have := h3.cons.1; simp [isBlankC] at this; rcases this with rfl | rfl <;> decide
  have hw : word true isDigitC (g2 ++ (showNat k ++ (g3 ++ 93 :: rest))) = some (showNat k, g3 ++ 93 :: rest) := by
    simp only [word, sk_true, skipWs_blank_append g2 _ h2]
    rw [hd, List.cons_append, skipWs_cons d _ (digit_not_ws d hdd)]
    exact wordNS_append isDigitC d ds _ (by rw [← hd]; exact showNat_digits k) hstop
  have hl1 : lit true [91] (g1 ++ 91 :: (g2 ++ (showNat k ++ (g3 ++ 93 :: rest)))) =
      some (g2 ++ (showNat k ++ (g3 ++ 93 :: rest))) := by
    simp [lit, sk_true, skipWs_blank_append g1 _ h1, skipWs_cons 91 _ (by decide : isWs 91 = false), dropPrefix]
  have hl2 : lit true [93] (g3 ++ 93 :: rest) = some rest := by
    simp [lit, sk_true, skipWs_blank_append g3 _ h3, skipWs_cons 93 _ (by decide : isWs 93 = false), dropPrefix]
  have htext : idxG (some k) g1 g2 g3 ++ rest = g1 ++ 91 :: (g2 ++ (showNat k ++ (g3 ++ 93 :: rest))) := by
    simp [idxG, List.append_assoc]
  rw [htext]
  simp only [indexP, hl1, hw, hl2]

/-- the optional index behind the closing brace -/
theorem optIndex_gaps (idx : Option Nat) (g1 g2 g3 rest : Txt) (h1 : Blank g1) (h2 : Blank g2) (h3 : Blank g3)
    (hf : Follow rest) :
    ∃ r', optP true (indexP true) (idxG idx g1 g2 g3 ++ rest) = (optMap showNat idx, r') ∧
      skipWs r' = skipWs rest := by
  cases idx with
  | some k =>
    exact ⟨rest, by rw [optP_some true (indexP true) _ _ _ (indexP_gaps k g1 g2 g3 rest h1 h2 h3)]; rfl, rfl⟩
  | none =>
    have : indexP true rest = none := indexP_none _ (lit_none_of_follow rest hf 91 [] (by omega))
    exact ⟨skipWs rest, by simp [idxG, optP_none true (indexP true) _ this, sk_true, optMap], skipWs_idem rest⟩

theorem elemTok_index (e : ElemA) : (elemTok e).index = none := by
  cases e <;> rfl

theorem filterMap_index_nil (es : List ElemA) : (es.map elemTok).filterMap (·.index) = [] := by
  induction es with
  | nil => rfl
  | cons e es ih => simp [List.filterMap_cons, elemTok_index, ih]

theorem after_le_more (d : Nat) (xs : List More) (after : Txt) : after.length ≤ (moreText d xs after).length := by
  induction xs with
  | nil => simp [moreText]
  | cons x xs ih => simp only [moreText, List.length_append, List.length_cons]; omega

/-- the register token of a list / range -/
def listTok (isRange : Bool) (es : List ElemA) (idx : Option Nat) : RegTok :=
  { list := some (isRange, es.map elemTok), index := optMap showNat idx }

/-- `register_list` on rendered braces: `d` is the delimiter written (44 for a list, 45 for a range) -/
theorem registerList_text (d : Nat) (hd : d = 44 ∨ d = 45) (hlen : d = 45 → True) (g g0 : Txt) (e0 : ElemA)
    (xs : List More) (gE : Txt) (idx : Option Nat) (gi1 gi2 gi3 rest : Txt)
    (hg : Blank g) (hg0 : Blank g0) (he0 : ElemOk e0) (hx : ∀ x ∈ xs, x.Ok) (hgE : Blank gE)
    (hi1 : Blank gi1) (hi2 : Blank gi2) (hi3 : Blank gi3) (hf : Follow rest)
    (hrange : d = 45 → xs ≠ []) :
    ∃ r', registerList (g ++ 123 :: (g0 ++ (elemText e0 ++ moreText d xs (gE ++ 125 :: (idxG idx gi1 gi2 gi3 ++ rest))))) =
        some (listTok (d == 45) (e0 :: xs.map (·.e)) idx, r') ∧ skipWs r' = skipWs rest := by
  have hlb : lit true [123] (g ++ 123 :: (g0 ++ (elemText e0 ++ moreText d xs (gE ++ 125 :: (idxG idx gi1 gi2 gi3 ++ rest))))) =
      some (g0 ++ (elemText e0 ++ moreText d xs (gE ++ 125 :: (idxG idx gi1 gi2 gi3 ++ rest)))) := by
    simp [lit, sk_true, skipWs_blank_append g _ hg, skipWs_cons 123 _ (by decide : isWs 123 = false), dropPrefix]
  have ha : BraceAfter (gE ++ 125 :: (idxG idx gi1 gi2 gi3 ++ rest)) := ⟨gE, _, hgE, rfl⟩
  have hskA : skipWs (gE ++ 125 :: (idxG idx gi1 gi2 gi3 ++ rest)) = 125 :: (idxG idx gi1 gi2 gi3 ++ rest) := by
    rw [skipWs_blank_append gE _ hgE, skipWs_cons 125 _ (by decide)]
  obtain ⟨rI, hI, hskI⟩ := optIndex_gaps idx gi1 gi2 gi3 rest hi1 hi2 hi3 hf
  have hmapmap : (xs.map (fun x => elemTok x.e)) = (xs.map (·.e)).map elemTok := by simp [List.map_map]
  -- closing brace behind whichever position the element list ends at
  have hrb : ∀ r0, skipWs r0 = 125 :: (idxG idx gi1 gi2 gi3 ++ rest) →
      lit true [125] r0 = some (idxG idx gi1 gi2 gi3 ++ rest) := by
    intro r0 h; simp [lit, sk_true, h, dropPrefix]
  rcases hd with rfl | rfl
  · -- a list: comma-separated
    have hlist := delimList_text 44 (Or.inl rfl) g0 e0 xs _ hg0 he0 hx ha
    have hother := delimList_other 44 45 (Or.inl rfl) (Or.inr rfl) (by decide) g0 e0 xs _ hg0 he0 hx ha
    refine ⟨rI, ?_, hskI⟩
    simp only [registerList, hlb, hlist, hother, mapR_some]
    have hbetter : ∀ (r1 : Txt) (hr1 : r1 = if xs.isEmpty then skipWs (gE ++ 125 :: (idxG idx gi1 gi2 gi3 ++ rest))
          else gE ++ 125 :: (idxG idx gi1 gi2 gi3 ++ rest)),
        r1.length ≤ (skipWs (moreText 44 xs (gE ++ 125 :: (idxG idx gi1 gi2 gi3 ++ rest)))).length := by
      intro r1 hr1
      cases xs with
      | nil => simp [hr1, moreText]
      | cons x xs' =>
        have ⟨h1, _, _⟩ := hx x (by simp)
        simp only [hr1, List.isEmpty_cons, Bool.false_eq_true, if_false, moreText]
        rw [skipWs_blank_append _ _ h1, skipWs_cons 44 _ (by decide)]
        have hsub := after_le_more 44 xs' (gE ++ 125 :: (idxG idx gi1 gi2 gi3 ++ rest))
        simp only [List.length_cons, List.length_append] at hsub ⊢; omega
    rw [better_some_ge _ _ _ _ (hbetter _ rfl)]
    have hsk1 : skipWs (if xs.isEmpty then skipWs (gE ++ 125 :: (idxG idx gi1 gi2 gi3 ++ rest))
        else gE ++ 125 :: (idxG idx gi1 gi2 gi3 ++ rest)) = 125 :: (idxG idx gi1 gi2 gi3 ++ rest) := by
      split
      · rw [skipWs_idem, hskA]
      · exact hskA
    simp only [hrb _ hsk1, hI, hmapmap, filterMap_index_nil, List.getLast?_nil, listTok]
    cases idx <;> simp [optMap, elemTok_index]
  · -- a range: dash-separated
    have hrange' := hrange rfl
    have hlist := delimList_text 45 (Or.inr rfl) g0 e0 xs _ hg0 he0 hx ha
    have hother := delimList_other 45 44 (Or.inr rfl) (Or.inl rfl) (by decide) g0 e0 xs _ hg0 he0 hx ha
    refine ⟨rI, ?_, hskI⟩
    simp only [registerList, hlb, hlist, hother, mapR_some]
    have hne : xs.isEmpty = false := by cases xs <;> simp_all
    simp only [hne, Bool.false_eq_true, if_false]
    have hlt : (gE ++ 125 :: (idxG idx gi1 gi2 gi3 ++ rest)).length <
        (skipWs (moreText 45 xs (gE ++ 125 :: (idxG idx gi1 gi2 gi3 ++ rest)))).length := by
      cases xs with
      | nil => exact absurd rfl hrange'
      | cons x xs' =>
        have ⟨h1, _, _⟩ := hx x (by simp)
        simp only [moreText]
        rw [skipWs_blank_append _ _ h1, skipWs_cons 45 _ (by decide)]
        have hsub := after_le_more 45 xs' (gE ++ 125 :: (idxG idx gi1 gi2 gi3 ++ rest))
        simp only [List.length_append, List.length_cons] at hsub ⊢; omega
    rw [better_some_lt _ _ _ _ hlt]
    simp only [hrb _ hskA, hI, hmapmap, filterMap_index_nil, List.getLast?_nil, listTok]
    cases idx <;> simp [optMap, elemTok_index]

end OsacaVerif.ParseA64
