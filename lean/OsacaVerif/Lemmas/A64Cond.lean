import OsacaVerif.Lemmas.A64Kinds
import OsacaVerif.Lemmas.Text
/-
  Condition codes (`eq`, `NE`, `Lt`, …) in the later operand slots.
-/
namespace OsacaVerif.ParseA64
open OsacaVerif.Text OsacaVerif.Spec.A64 OsacaVerif.Gen

/-- a caseless literal of the same length as the text matches iff it is the lower-cased text -/
theorem dropPrefixCI_same_len (w l rest : Txt) (hlen : l.length = w.length) :
    dropPrefixCI (w ++ rest) l = if lower w = l then some rest else none := by
  induction w generalizing l with
  | nil =>
    cases l with
    | nil => cases rest <;> simp [dropPrefixCI, lower]
    | cons a l => simp at hlen
  | cons c w ih =>
    cases l with
    | nil => simp at hlen
    | cons a l =>
      simp only [List.cons_append, dropPrefixCI]
      by_cases hc : lowerC c = a
      · simp only [hc, if_true, beq_self_eq_true]
        rw [ih l (by simpa using hlen)]
        by_cases h : lower w = l
        · simp [lower, hc, h] at *; simp [h]
        · have : ¬ lower (c :: w) = a :: l := by simp [lower, hc]; exact h
          simp [h, this]
      · simp [hc, lower]

theorem better_same {α : Type} (x : α) (r : Txt) : (some (x, r) <^> some (x, r)) = some (x, r) := by
  simp [better]

/-- `^` over caseless literals when exactly the literal `l` matches -/
theorem clitOr_pointwise (ls : List Txt) (s l rest : Txt) (hmem : l ∈ ls)
    (hone : ∀ l' ∈ ls, (match clit true l' s with | some r => some (l', r) | none => none)
      = if l' = l then some (l, rest) else none) :
    clitOr true ls s = some (l, rest) := by
  unfold clitOr
  -- invariant of the fold: nothing yet, or the match
  have key : ∀ (ls' : List Txt) (acc : Res Txt), (∀ l' ∈ ls', l' ∈ ls) →
      (acc = none ∨ acc = some (l, rest)) →
      let out := ls'.foldl (fun acc l => acc <^> (match clit true l s with
        | some r => some (l, r) | none => none)) acc
      (out = none ∨ out = some (l, rest)) ∧ ((acc = some (l, rest) ∨ l ∈ ls') → out = some (l, rest)) := by
    intro ls'
    induction ls' with
    | nil =>
      intro acc _ hacc
      refine ⟨hacc, fun h => ?_⟩
      rcases h with h | h
      · exact h
      · cases h
    | cons a ls' ih =>
      intro acc hsub hacc
      simp only [List.foldl_cons]
      rw [hone a (hsub a (by simp))]
      have hacc' : (acc <^> (if a = l then some (l, rest) else none)) = none ∨
          (acc <^> (if a = l then some (l, rest) else none)) = some (l, rest) := by
        rcases hacc with h | h <;> by_cases ha : a = l <;> simp [h, ha, better_same]
      obtain ⟨h1, h2⟩ := ih _ (fun x hx => hsub x (by simp [hx])) hacc'
      refine ⟨h1, ?_⟩
      intro h
      apply h2
      rcases h with h | h
      · left; by_cases ha : a = l <;> simp [h, ha, better_same]
      · simp at h
        rcases h with h | h
        · left; rcases hacc with h' | h' <;> simp [h', h.symm, better_same]
        · right; exact h
  exact (key ls none (fun _ h => h) (Or.inl rfl)).2 (Or.inr hmem)

/-- `^` over caseless literals of one length: the one that equals the lower-cased text -/
theorem clitOr_match (ls : List Txt) (g w rest l : Txt) (c : Nat) (w' : Txt) (hw : w = c :: w')
    (hc : isWs c = false) (hg : Blank g) (hl : lower w = l) (hmem : l ∈ ls)
    (hlen : ∀ l' ∈ ls, l'.length = w.length) :
    clitOr true ls (g ++ (w ++ rest)) = some (l, rest) := by
  apply clitOr_pointwise ls _ l rest hmem
  intro l' hl'
  have : clit true l' (g ++ (w ++ rest)) = dropPrefixCI (w ++ rest) l' := by
    simp only [clit, sk_true, skipWs_blank_append g _ hg]
    rw [hw, List.cons_append, skipWs_cons c _ hc]
  rw [this, dropPrefixCI_same_len w l' rest (hlen l' hl'), hl]
  by_cases h : l = l'
  · subst h; simp
  · have h' : ¬ l' = l := fun e => h e.symm
    simp [h, h']

/-- what follows does not start with a letter -/
def NoAlphaHead (rest : Txt) : Prop := ∀ c r, rest = c :: r → isAlphaC c = false

theorem Follow.noAlphaHead {rest : Txt} (hf : Follow rest) : NoAlphaHead rest := by
  intro c r h
  rcases hf.head c r h with hb | rfl | rfl | rfl
  · simp [isBlankC] at hb; rcases hb with rfl | rfl <;> decide
  all_goals decide

theorem lowerC_ne_alpha (c a : Nat) (hc : isAlphaC c = false) (ha : isAlphaC a = true) : lowerC c ≠ a := by
  intro h
  have := (lowerC_nonalpha c hc).2
  rw [h, ha] at this; cases this

/-- a caseless literal longer than the text whose next character is a letter does not match when
    the text is not followed by a letter -/
theorem dropPrefixCI_none_nonalpha (w l rest : Txt) (hlen : w.length < l.length)
    (hnext : ∀ a, l[w.length]? = some a → isAlphaC a = true) (hf : NoAlphaHead rest) :
    dropPrefixCI (w ++ rest) l = none := by
  induction w generalizing l with
  | nil =>
    cases l with
    | nil => simp at hlen
    | cons a l =>
      have ha : isAlphaC a = true := hnext a (by simp)
      cases rest with
      | nil => rfl
      | cons c r =>
        have := lowerC_ne_alpha c a (hf c r rfl) ha
        simp [dropPrefixCI, this]
  | cons c w ih =>
    cases l with
    | nil => simp at hlen
    | cons a l =>
      simp only [List.cons_append, dropPrefixCI]
      split
      · exact ih l (by simpa using hlen) (fun b hb => hnext b (by simpa using hb))
      · rfl

theorem dropPrefixCI_none_follow (w l rest : Txt) (hlen : w.length < l.length)
    (hnext : ∀ a, l[w.length]? = some a → isAlphaC a = true) (hf : Follow rest) :
    dropPrefixCI (w ++ rest) l = none :=
  dropPrefixCI_none_nonalpha w l rest hlen hnext hf.noAlphaHead

theorem alpha_of_lowerC_alpha (c : Nat) (h : isAlphaC (lowerC c) = true) : isAlphaC c = true := by
  by_cases hc : 65 ≤ c ∧ c ≤ 90
  · simp only [isAlphaC]; simp; omega
  · have : lowerC c = c := by simp only [lowerC]; split <;> omega
    rw [this] at h; exact h

def condLits : List Txt := A64.conditions.map lower

theorem condLits_len : ∀ l ∈ condLits, l.length = 2 := by decide

/-- third character of every shift operator is a letter -/
theorem shiftOps_third : ∀ l ∈ A64.shiftOps, 2 < l.length ∧ ∀ a, l[2]? = some a → isAlphaC a = true := by decide

theorem wordEnd_follow {α : Type} (x : α) (rest : Txt) (hf : Follow rest) :
    wordEnd (some (x, rest)) = some (x, rest) := by
  cases rest with
  | nil => rfl
  | cons c r =>
    have : isWordEndC c = false := hf.stops isWordEndC _ (by decide) c r rfl
    simp [wordEnd, this]

/-- **condition code** in a later operand slot (∀ of the 17 codes, in any mixture of upper and lower
    case) -/
theorem goodOp_cond (c1 c2 : Nat) (hmem : lower [c1, c2] ∈ condLits) :
    GoodOp false false [c1, c2] (.cond (upper (lower [c1, c2]))) := by
  have hal : isAlphaC c1 = true := by
    have : ∀ l ∈ condLits, headAlpha l = true := by decide
    have := this _ hmem
    simp only [lower, List.map_cons, headAlpha] at this
    exact alpha_of_lowerC_alpha c1 this
  have hws := alpha_not_ws c1 hal
  refine ⟨?_, fun h => Bool.noConfusion h, ?_, ?_⟩
  · intro g rest hg hf
    have hf' : Follow rest := hf
    refine ⟨rest, ?_, rfl⟩
    have hm := clitOr_match condLits g [c1, c2] rest _ c1 [c2] rfl hws hg rfl hmem
      (fun l' hl' => by rw [condLits_len l' hl']; rfl)
    have hcp : conditionP (g ++ ([c1, c2] ++ rest)) = some (upper (lower [c1, c2]), rest) := by
      simp only [conditionP]
      show mapR upper (clitOr true condLits _) = _
      rw [hm]; rfl
    simp only [operandRest, hcp, mapR_some, wordEnd_follow _ rest hf', orElseR_some_left]
  · intro g rest hg hf
    have hf' : Follow rest := hf
    apply shiftOp_none_of_clitOr
    apply clitOr_none
    intro l hl
    obtain ⟨hlen, hthird⟩ := shiftOps_third l hl
    have : clit true l (g ++ ([c1, c2] ++ rest)) = dropPrefixCI ([c1, c2] ++ rest) l := by
      simp only [clit, sk_true, skipWs_blank_append g _ hg]
      rw [List.cons_append, skipWs_cons c1 _ hws]
    rw [this]
    exact dropPrefixCI_none_follow [c1, c2] l rest (by simpa using hlen) (by simpa using hthird) hf'
  · refine ⟨c1, [c2], rfl, hws, ?_, ?_⟩ <;> (simp only [isAlphaC] at hal; simp at hal; omega)

theorem covered_cond (last : Bool) (c : Txt) (hc : lower c ∈ condLits) : CoveredOp last false (.cond c) := by
  have hlen : c.length = 2 := by
    have := condLits_len _ hc
    simpa [lower] using this
  match c, hlen with
  | [c1, c2], _ =>
    refine ⟨[c1, c2], [], .cond (upper (lower [c1, c2])), rfl, ?_, ?_⟩
    · intro gs hgs
      have : gs = [] := hgs
      subst this
      simpa [joinInner] using ((goodOp_cond c1 c2 hc).any last).toRest
    · simp [processOperand, expectOp]

end OsacaVerif.ParseA64
