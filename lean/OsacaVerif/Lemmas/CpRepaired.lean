import OsacaVerif.Model.LCD
import OsacaVerif.Lemmas.Chain
import OsacaVerif.Lemmas.CritPath
import OsacaVerif.Lemmas.DGraph
/-
  Helper development for C04, repaired `get_critical_path` (`LCD.cpTable` / `LCD.cpStep` /
  `LCD.cpTotal`): the one-pass table of the code is, row by row, the table of the declarative dynamic
  programme `Spec.longestChain`; hence the reported total is the longest-chain value.
-/
namespace OsacaVerif.LCD
open OsacaVerif OsacaVerif.DG OsacaVerif.Spec

/-! ### the pieces of `cpStep` -/

/-- the candidates of `cpStep`: one per dependency edge into `line` whose source already has a row -/
def cpCands (es : List Edge) (acc : List CpRow) (line : Nat) : List (Rat × Nat) :=
  es.filterMap fun e =>
    if !e.src.load && !e.dst.load && e.dst.line == line then
      (acc.find? (·.line == e.src.line)).map fun r => (r.carried.1 + e.w, e.src.line)
    else none

/-- `carried` of `cpStep`: the better of the best longer chain and the own load stage -/
def carriedOf (ls : Rat) : Option (Rat × Nat) → Rat × Option Nat
  | some (v, p) => if ls < v then (v, some p) else (ls, none)
  | none => (ls, none)

/-- the row `cpStep` appends for instruction `i` -/
def newRow (es : List Edge) (acc : List CpRow) (i : Ins) : CpRow :=
  { line := i.line, longer := firstMax (cpCands es acc i.line),
    carried := carriedOf (loadEdgeOf es i.line) (firstMax (cpCands es acc i.line)) }

theorem cpStep_eq (es : List Edge) (acc : List CpRow) (i : Ins) :
    cpStep es acc i = acc ++ [newRow es acc i] := by
  unfold cpStep newRow cpCands
  simp only
  congr 2

theorem cpTable_snoc (pre : List Ins) (i : Ins) (es : List Edge) :
    cpTable (pre ++ [i]) es = cpTable pre es ++ [newRow es (cpTable pre es) i] := by
  simp [cpTable, List.foldl_append, cpStep_eq]

theorem cpTable_nil (es : List Edge) : cpTable [] es = [] := rfl

theorem cpTable_lines (k : List Ins) (es : List Edge) :
    (cpTable k es).map (·.line) = k.map (·.line) := by
  induction k using List.reverseRecOn with
  | nil => rfl
  | append_singleton pre i ih => rw [cpTable_snoc]; simp [ih, newRow]

/-- the table of a longer kernel extends the table of a prefix -/
theorem cpTable_append (pre post : List Ins) (es : List Edge) :
    ∃ tl, cpTable (pre ++ post) es = cpTable pre es ++ tl := by
  induction post using List.reverseRecOn with
  | nil => exact ⟨[], by simp⟩
  | append_singleton post i ih =>
    obtain ⟨tl, h⟩ := ih
    refine ⟨tl ++ [newRow es (cpTable (pre ++ post) es) i], ?_⟩
    rw [← List.append_assoc, cpTable_snoc, h, List.append_assoc]

/-- every row of the table is the row `cpStep` made from the table of the lines before it -/
theorem cpTable_split (pre : List Ins) (i : Ins) (post : List Ins) (es : List Edge) :
    ∃ tl, cpTable (pre ++ i :: post) es = cpTable pre es ++ newRow es (cpTable pre es) i :: tl := by
  obtain ⟨tl, h⟩ := cpTable_append (pre ++ [i]) post es
  refine ⟨tl, ?_⟩
  rw [show pre ++ i :: post = (pre ++ [i]) ++ post by simp, h, cpTable_snoc]
  simp

/-- a property of the rows is established row by row, each from the rows before it -/
theorem cpTable_forall (k : List Ins) (es : List Edge) (P : CpRow → Prop)
    (hstep : ∀ pre i post, k = pre ++ i :: post → (∀ r ∈ cpTable pre es, P r) →
      P (newRow es (cpTable pre es) i)) :
    ∀ r ∈ cpTable k es, P r := by
  suffices h : ∀ pre post, k = pre ++ post → ∀ r ∈ cpTable pre es, P r from h k [] (by simp)
  intro pre
  induction pre using List.reverseRecOn with
  | nil => intro post _ r hr; simp [cpTable] at hr
  | append_singleton pre i ih =>
    intro post hsplit r hr
    have hsplit' : k = pre ++ i :: post := by simpa using hsplit
    rw [cpTable_snoc, List.mem_append, List.mem_singleton] at hr
    rcases hr with hr | rfl
    · exact ih (i :: post) hsplit' r hr
    · exact hstep pre i post hsplit' (ih (i :: post) hsplit')

/-! ### `firstMax` against `maxR` -/

theorem firstMax_foldl_fst (cs : List (Rat × Nat)) (c : Rat × Nat) :
    (cs.foldl (fun (m : Rat × Nat) (x : Rat × Nat) => if m.1 < x.1 then x else m) c).1 =
      (cs.map (·.1)).foldl (fun (m : Rat) x => if m < x then x else m) c.1 := by
  induction cs generalizing c with
  | nil => rfl
  | cons x cs ih =>
    simp only [List.foldl_cons, List.map_cons]
    rw [ih]
    congr 1
    split <;> rfl

/-- the value of Python's `max(candidates, key=value)` is the maximum of the values -/
theorem firstMax_map_fst (l : List (Rat × Nat)) : (firstMax l).map (·.1) = maxR (l.map (·.1)) := by
  cases l with
  | nil => rfl
  | cons c cs => simp only [firstMax, maxR, Option.map_some, List.map_cons, firstMax_foldl_fst]

theorem firstMax_foldl_mem (cs : List (Rat × Nat)) (c : Rat × Nat) :
    cs.foldl (fun (m : Rat × Nat) (x : Rat × Nat) => if m.1 < x.1 then x else m) c ∈ c :: cs := by
  induction cs generalizing c with
  | nil => simp
  | cons x cs ih =>
    simp only [List.foldl_cons]
    have := ih (if c.1 < x.1 then x else c)
    rcases List.mem_cons.mp this with h | h
    · rw [h]; split <;> simp
    · exact List.mem_cons_of_mem _ (List.mem_cons_of_mem _ h)

theorem firstMax_mem (l : List (Rat × Nat)) (x : Rat × Nat) (h : firstMax l = some x) : x ∈ l := by
  cases l with
  | nil => simp [firstMax] at h
  | cons c cs =>
    simp only [firstMax, Option.some.injEq] at h
    rw [← h]; exact firstMax_foldl_mem cs c

/-! ### rows of the code's table = rows of the oracle's table -/

/-- what the oracle keeps of a row: line, value of `longer`, value of `carried` -/
def toSpec (r : CpRow) : Nat × Option Rat × Rat := (r.line, r.longer.map (·.1), r.carried.1)

theorem find_toSpec (T : List CpRow) (l : Nat) :
    (T.map toSpec).find? (·.1 == l) = (T.find? (·.line == l)).map toSpec := by
  induction T with
  | nil => rfl
  | cons r T ih =>
    simp only [List.map_cons, List.find?_cons]
    have : (toSpec r).1 = r.line := rfl
    rw [this]
    cases (r.line == l) with
    | true => rfl
    | false => exact ih

theorem cands_corr (es : List Edge) (T : List CpRow) (line : Nat) :
    (cpCands es T line).map (·.1) =
      (wedgesOf es).filterMap fun e =>
        if e.dst == line then ((T.map toSpec).find? (·.1 == e.src)).map (fun t => t.2.2 + e.w) else none := by
  unfold cpCands wedgesOf
  rw [List.map_filterMap, List.filterMap_filterMap]
  apply List.filterMap_congr
  intro e _
  cases h1 : e.src.load <;> cases h2 : e.dst.load <;>
    simp [find_toSpec, toSpec, Option.map_map, Function.comp_def]
  split
  · cases List.find? (fun x => x.line == e.src.line) T <;> rfl
  · simp

theorem carriedOf_fst (ls : Rat) (o : Option (Rat × Nat)) :
    (carriedOf ls o).1 = bOf (o.map (·.1)) ls := by
  cases o with
  | none => rfl
  | some x =>
    obtain ⟨v, p⟩ := x
    simp only [carriedOf, bOf, Option.map_some]
    by_cases h1 : ls < v
    · have h2 : ¬ v < ls := not_lt.mpr (le_of_lt h1)
      simp [h1, h2]
    · by_cases h2 : v < ls
      · simp [h1, h2]
      · have : v = ls := le_antisymm (not_lt.mp h1) (not_lt.mp h2)
        simp [this]

/-- the code's load stage (weight of the edge from the load node) is the oracle's load stage
    (`lat − latWoLoad` for an instruction with a separate load node) on every line of the kernel -/
def LoadStagesAgree (k : List Ins) (es : List Edge) : Prop :=
  ∀ i ∈ k, loadEdgeOf es i.line = loadStageOf i

instance (k : List Ins) (es : List Edge) : Decidable (LoadStagesAgree k es) := by
  unfold LoadStagesAgree; infer_instance

/-- all edge weights are non-negative -/
def NonnegWeights (es : List Edge) : Prop := ∀ e ∈ es, 0 ≤ e.w

instance (es : List Edge) : Decidable (NonnegWeights es) := by unfold NonnegWeights; infer_instance

/-- **the two tables are the same table**: `carried.1 = b`, `longer.map (·.1) = ext`, row by row -/
theorem cpTable_eq_table (k : List Ins) (es : List Edge) (hls : LoadStagesAgree k es) :
    (cpTable k es).map toSpec = table (infosOf k) (wedgesOf es) := by
  induction k using List.reverseRecOn with
  | nil => rfl
  | append_singleton pre i ih =>
    have hpre : LoadStagesAgree pre es := fun j hj => hls j (List.mem_append_left _ hj)
    have hi : loadEdgeOf es i.line = loadStageOf i := hls i (by simp)
    have hinf : infosOf (pre ++ [i]) = infosOf pre ++ [⟨i.line, i.lat, loadStageOf i⟩] := by
      simp [infosOf]
    rw [cpTable_snoc, hinf, table_snoc, List.map_append, ih hpre]
    simp only [List.map_cons, List.map_nil, stepT]
    congr 2
    have hext : extOf (wedgesOf es) (table (infosOf pre) (wedgesOf es)) i.line =
        (firstMax (cpCands es (cpTable pre es) i.line)).map (·.1) := by
      rw [firstMax_map_fst, cands_corr, ih hpre]; rfl
    simp only [toSpec, newRow, hext, carriedOf_fst, hi]

/-! ### non-negativity of the table values -/

theorem loadEdgeOf_nonneg (es : List Edge) (hw : NonnegWeights es) (l : Nat) : 0 ≤ loadEdgeOf es l := by
  unfold loadEdgeOf
  cases h : es.find? (fun e => e.src == ⟨l, true⟩ && e.dst == ⟨l, false⟩) with
  | none => exact le_refl _
  | some e => exact hw e (List.mem_of_find?_eq_some h)

theorem carriedOf_ge (ls : Rat) (o : Option (Rat × Nat)) : ls ≤ (carriedOf ls o).1 := by
  rw [carriedOf_fst]; exact bOf_ge_stage _ _

/-- with non-negative edge weights every value of the table is non-negative -/
theorem cpTable_nonneg (k : List Ins) (es : List Edge) (hw : NonnegWeights es) :
    ∀ r ∈ cpTable k es, 0 ≤ r.carried.1 ∧ ∀ x, r.longer = some x → 0 ≤ x.1 := by
  apply cpTable_forall
  intro pre i post _ hT
  refine ⟨le_trans (loadEdgeOf_nonneg es hw i.line) (carriedOf_ge _ _), ?_⟩
  intro x hx
  have hmem := firstMax_mem _ _ hx
  simp only [cpCands, List.mem_filterMap] at hmem
  obtain ⟨e, he, hval⟩ := hmem
  split at hval
  · simp only [Option.map_eq_some_iff] at hval
    obtain ⟨r, hr, rfl⟩ := hval
    have := (hT r (List.mem_of_find?_eq_some hr)).1
    have := hw e he
    simp only
    linarith
  · cases hval

/-! ### the reported total is the oracle's value -/

theorem cpTotal_eq_maxOr0 (k : List Ins) (es : List Edge) :
    cpTotal k es = maxOr0 (k.map (chainLengthAt k (cpTable k es))) := by
  unfold cpTotal maxOr0 maxR
  simp only
  cases k.map (chainLengthAt k (cpTable k es)) <;> rfl

/-- `chain_length` of a line is the oracle's `endValue` of that line, when `longer` is non-negative -/
theorem chainLengthAt_eq_endValue (k : List Ins) (T : List CpRow)
    (hnn : ∀ r ∈ T, ∀ x, r.longer = some x → 0 ≤ x.1) (i : Ins) (st : Rat) :
    chainLengthAt k T i = endValue (T.map toSpec) ⟨i.line, i.lat, st⟩ := by
  unfold chainLengthAt endValue
  simp only [find_toSpec]
  cases h : T.find? (·.line == i.line) with
  | none => simp
  | some r =>
    have hr := hnn r (List.mem_of_find?_eq_some h)
    simp only [Option.bind_some, Option.map_some, toSpec]
    cases hl : r.longer with
    | none => simp
    | some x =>
      obtain ⟨v, p⟩ := x
      have hv : 0 ≤ v := hr _ hl
      simp only [Option.map_some]
      split
      · rfl
      · rename_i hlt
        have : v = 0 := by linarith [not_lt.mp hlt]
        rw [this]; ring

/-- **`cpTotal_eq_longestChain`, graph-generic form**: for ANY kernel and edge list with non-negative
    weights whose load-node edges carry the instructions' load stages, the total reported by the
    repaired `get_critical_path` is the value of the declarative longest-chain programme -/
theorem cpTotal_eq_longestChain_of (k : List Ins) (es : List Edge) (hw : NonnegWeights es)
    (hls : LoadStagesAgree k es) :
    cpTotal k es = longestChain (infosOf k) (wedgesOf es) := by
  rw [cpTotal_eq_maxOr0, longestChain_eq, ← cpTable_eq_table k es hls]
  congr 1
  unfold infosOf
  rw [List.map_map]
  apply List.map_congr_left
  intro i _
  exact chainLengthAt_eq_endValue k _ (fun r hr => (cpTable_nonneg k es hw r hr).2) i _

/-! ### the graph `create` builds satisfies the hypotheses -/

/-- `latency_wo_load` is known for every instruction with a separate load node (the code computes
    `latency − latency_wo_load` for the load edge; the oracle's load stage is 0 when it is unknown) -/
def LoadsKnown (k : List Ins) : Prop := ∀ i ∈ k, (i.hasLd && !i.isLd) = true → i.latWoLoad.isSome = true

instance (k : List Ins) : Decidable (LoadsKnown k) := by unfold LoadsKnown; infer_instance

/-- non-negative latencies (`latency`, and `latency_wo_load` where known) -/
def NonnegLats (k : List Ins) : Prop := ∀ i ∈ k, 0 ≤ i.lat ∧ 0 ≤ i.latWoLoad.getD 0

instance (k : List Ins) : Decidable (NonnegLats k) := by unfold NonnegLats; infer_instance

/-- non-negative machine-model parameters (store-to-load forwarding, index write-back latency) -/
def NonnegParams (par : Params) : Prop := 0 ≤ par.stlf ∧ 0 ≤ par.pIdx

instance (par : Params) : Decidable (NonnegParams par) := by unfold NonnegParams; infer_instance

/-- the edge `create_DG` adds from the load node of `p` -/
def loadEdgeE (p : Ins) : Edge :=
  { src := ⟨p.line, true⟩, dst := ⟨p.line, false⟩, w := p.lat - (p.latWoLoad.getD 0) }

theorem loadEdge_eq (p : Ins) : loadEdge p = if p.hasLd && !p.isLd then [loadEdgeE p] else [] := rfl

/-- in a well-formed kernel the line number determines the instruction -/
theorem wf_line_inj {k : List Ins} (hk : WFKernel k) {a b : Ins} (ha : a ∈ k) (hb : b ∈ k)
    (hl : a.line = b.line) : a = b := by
  induction k with
  | nil => simp at ha
  | cons p rest ih =>
    rcases List.mem_cons.mp ha with ha' | ha' <;> rcases List.mem_cons.mp hb with hb' | hb'
    · rw [ha', hb']
    · subst ha'; have := hk.head_lt b hb'; omega
    · subst hb'; have := hk.head_lt a ha'; omega
    · exact ih hk.tail ha' hb'

/-- an emission leaving a load node is the load edge of an instruction that has a load node -/
theorem emissions_load_src (isa : Isa) (fd : Bool) (par : Params) (k : List Ins) (e : Edge)
    (he : e ∈ emissions isa fd par k) (hl : e.src.load = true) :
    ∃ p ∈ k, (p.hasLd && !p.isLd) = true ∧ e = loadEdgeE p := by
  induction k with
  | nil => simp [emissions] at he
  | cons p rest ih =>
    rw [emissions_cons] at he
    simp only [List.mem_append, List.mem_map] at he
    rcases he with (he | ⟨x, _, rfl⟩) | he
    · rw [loadEdge_eq] at he
      split at he
      · rename_i h
        simp only [List.mem_singleton] at he
        exact ⟨p, by simp, h, he⟩
      · simp at he
    · simp [depEdge] at hl
    · obtain ⟨q, hq, h1, h2⟩ := ih he
      exact ⟨q, List.mem_cons_of_mem _ hq, h1, h2⟩

theorem loadEdge_mem_emissions (isa : Isa) (fd : Bool) (par : Params) (k : List Ins) (p : Ins)
    (hp : p ∈ k) (h : (p.hasLd && !p.isLd) = true) : loadEdgeE p ∈ emissions isa fd par k := by
  induction k with
  | nil => simp at hp
  | cons q rest ih =>
    rw [emissions_cons]
    rcases List.mem_cons.mp hp with rfl | hp
    · simp [loadEdge_eq, h]
    · exact List.mem_append_right _ (ih hp)

theorem create_mem_emissions (isa : Isa) (fd : Bool) (par : Params) (k : List Ins) (e : Edge)
    (he : e ∈ create isa fd par k) : e ∈ emissions isa fd par k := by
  obtain ⟨pre, post, h, _⟩ := (mem_dedupLast _ e).mp he
  rw [h]; simp

/-- **the load-node edge of `create` carries the oracle's load stage**, for kernels with increasing
    lines in which `latency_wo_load` is known wherever there is a load node -/
theorem create_loadStagesAgree (isa : Isa) (fd : Bool) (par : Params) (k : List Ins) (hk : WFKernel k)
    (hkn : LoadsKnown k) : LoadStagesAgree k (create isa fd par k) := by
  intro i hi
  unfold loadEdgeOf
  cases hfind : (create isa fd par k).find? (fun e => e.src == ⟨i.line, true⟩ && e.dst == ⟨i.line, false⟩) with
  | none =>
    have hno : (i.hasLd && !i.isLd) = false := by
      by_contra hc
      have hc' : (i.hasLd && !i.isLd) = true := by simpa using hc
      have hmem := loadEdge_mem_emissions isa fd par k i hi hc'
      have : pairOf (loadEdgeE i) ∈ (create isa fd par k).map pairOf :=
        (dedupLast_pairs_iff _ _).mpr (List.mem_map.mpr ⟨_, hmem, rfl⟩)
      obtain ⟨f, hf, hp⟩ := List.mem_map.mp this
      simp only [pairOf, loadEdgeE, Prod.mk.injEq] at hp
      have := List.find?_eq_none.mp hfind f hf
      simp [hp.1, hp.2] at this
    simp [loadStageOf, hno]
  | some e =>
    have hem := create_mem_emissions isa fd par k e (List.mem_of_find?_eq_some hfind)
    have hpe := List.find?_some hfind
    simp only [Bool.and_eq_true, beq_iff_eq] at hpe
    obtain ⟨p, hp, hflag, rfl⟩ := emissions_load_src isa fd par k e hem (by rw [hpe.1])
    have hline : p.line = i.line := by
      have := congrArg Node.line hpe.1
      simpa [loadEdgeE] using this
    have hpi : p = i := wf_line_inj hk hp hi hline
    subst hpi
    have hsome := hkn p hi hflag
    cases hl : p.latWoLoad with
    | none => simp [hl] at hsome
    | some l => simp [loadStageOf, loadEdgeE, hflag, hl]

theorem edgeWeight_nonneg (par : Params) (hpar : NonnegParams par) (p : Ins)
    (hp : 0 ≤ p.lat ∧ 0 ≤ p.latWoLoad.getD 0) (tag : Tag) : 0 ≤ edgeWeight par p tag := by
  have hbase : 0 ≤ (match p.latWoLoad with | some l => l | none => p.lat) := by
    cases hl : p.latWoLoad with
    | none => exact hp.1
    | some l => have := hp.2; rw [hl] at this; simpa using this
  unfold edgeWeight
  cases tag with
  | plain => exact hbase
  | storeLoad => exact add_nonneg hbase hpar.1
  | pIndexed => exact hpar.2

/-- **the graph of `create` has non-negative weights**, for non-negative latencies, model parameters
    and load stages -/
theorem create_nonnegWeights (isa : Isa) (fd : Bool) (par : Params) (k : List Ins)
    (hst : NonnegStages k) (hlat : NonnegLats k) (hpar : NonnegParams par) :
    NonnegWeights (create isa fd par k) := by
  intro e he
  have hem := create_mem_emissions isa fd par k e he
  clear he
  induction k with
  | nil => simp [emissions] at hem
  | cons p rest ih =>
    rw [emissions_cons] at hem
    simp only [List.mem_append, List.mem_map] at hem
    rcases hem with (he | ⟨x, _, rfl⟩) | he
    · rw [loadEdge_eq] at he
      split at he
      · rename_i h
        simp only [List.mem_singleton] at he
        subst he
        have h1 := hst p (by simp)
        have h2 := (hlat p (by simp)).1
        simp only [loadStageOf, h, if_true] at h1
        simp only [loadEdgeE]
        cases hl : p.latWoLoad with
        | none => simpa using h2
        | some l => rw [hl] at h1; simpa using h1
      · simp at he
    · exact edgeWeight_nonneg par hpar p (hlat p (by simp)) x.2
    · exact ih (fun j hj => hst j (List.mem_cons_of_mem _ hj))
        (fun j hj => hlat j (List.mem_cons_of_mem _ hj)) he

end OsacaVerif.LCD
