import OsacaVerif.Model.LCD
import OsacaVerif.Model.CpMark
import OsacaVerif.Lemmas.Chain
import OsacaVerif.Lemmas.CritPath
import OsacaVerif.Lemmas.DGraph
/-
  Helper development for C04, repaired `get_critical_path` (`LCD.cpTable` / `LCD.cpStep` /
  `LCD.cpTotal`): the one-pass table of the code is, row by row, the table of the declarative dynamic
  programme `Spec.longestChain`; hence the reported total is the longest-chain value.
-/
namespace OsacaVerif.LCD
open OsacaVerif OsacaVerif.DG OsacaVerif.Spec

/-! ### the pieces of `cpStep` -/

/-- the candidates of `cpStep`: one per dependency edge into `line` whose source already has a row -/
def cpCands (es : List Edge) (acc : List CpRow) (line : Nat) : List (Rat × Nat) :=
  es.filterMap fun e =>
    if !e.src.load && !e.dst.load && e.dst.line == line then
      (acc.find? (·.line == e.src.line)).map fun r => (r.carried.1 + e.w, e.src.line)
    else none

/-- `carried` of `cpStep`: the better of the best longer chain and the own load stage -/
def carriedOf (ls : Rat) : Option (Rat × Nat) → Rat × Option Nat
  | some (v, p) => if ls < v then (v, some p) else (ls, none)
  | none => (ls, none)

/-- the row `cpStep` appends for instruction `i` -/
def newRow (es : List Edge) (acc : List CpRow) (i : Ins) : CpRow :=
  { line := i.line, longer := firstMax (cpCands es acc i.line),
    carried := carriedOf (loadEdgeOf es i.line) (firstMax (cpCands es acc i.line)) }

theorem cpStep_eq (es : List Edge) (acc : List CpRow) (i : Ins) :
    cpStep es acc i = acc ++ [newRow es acc i] := by
  unfold cpStep newRow cpCands
  simp only
  congr 2

theorem cpTable_snoc (pre : List Ins) (i : Ins) (es : List Edge) :
    cpTable (pre ++ [i]) es = cpTable pre es ++ [newRow es (cpTable pre es) i] := by
  simp [cpTable, List.foldl_append, cpStep_eq]

theorem cpTable_nil (es : List Edge) : cpTable [] es = [] := rfl

theorem cpTable_lines (k : List Ins) (es : List Edge) :
    (cpTable k es).map (·.line) = k.map (·.line) := by
  induction k using List.reverseRecOn with
  | nil => rfl
  | append_singleton pre i ih => rw [cpTable_snoc]; simp [ih, newRow]

/-- the table of a longer kernel extends the table of a prefix -/
theorem cpTable_append (pre post : List Ins) (es : List Edge) :
    ∃ tl, cpTable (pre ++ post) es = cpTable pre es ++ tl := by
  induction post using List.reverseRecOn with
  | nil => exact ⟨[], by simp⟩
  | append_singleton post i ih =>
    obtain ⟨tl, h⟩ := ih
    refine ⟨tl ++ [newRow es (cpTable (pre ++ post) es) i], ?_⟩
    rw [← List.append_assoc, cpTable_snoc, h, List.append_assoc]

/-- every row of the table is the row `cpStep` made from the table of the lines before it -/
theorem cpTable_split (pre : List Ins) (i : Ins) (post : List Ins) (es : List Edge) :
    ∃ tl, cpTable (pre ++ i :: post) es = cpTable pre es ++ newRow es (cpTable pre es) i :: tl := by
  obtain ⟨tl, h⟩ := cpTable_append (pre ++ [i]) post es
  refine ⟨tl, ?_⟩
  rw [show pre ++ i :: post = (pre ++ [i]) ++ post by simp, h, cpTable_snoc]
  simp

/-- a property of the rows is established row by row, each from the rows before it -/
theorem cpTable_forall (k : List Ins) (es : List Edge) (P : CpRow → Prop)
    (hstep : ∀ pre i post, k = pre ++ i :: post → (∀ r ∈ cpTable pre es, P r) →
      P (newRow es (cpTable pre es) i)) :
    ∀ r ∈ cpTable k es, P r := by
  suffices h : ∀ pre post, k = pre ++ post → ∀ r ∈ cpTable pre es, P r from h k [] (by simp)
  intro pre
  induction pre using List.reverseRecOn with
  | nil => intro post _ r hr; simp [cpTable] at hr
  | append_singleton pre i ih =>
    intro post hsplit r hr
    have hsplit' : k = pre ++ i :: post := by simpa using hsplit
    rw [cpTable_snoc, List.mem_append, List.mem_singleton] at hr
    rcases hr with hr | rfl
    · exact ih (i :: post) hsplit' r hr
    · exact hstep pre i post hsplit' (ih (i :: post) hsplit')

/-! ### `firstMax` against `maxR` -/

theorem firstMax_foldl_fst (cs : List (Rat × Nat)) (c : Rat × Nat) :
    (cs.foldl (fun (m : Rat × Nat) (x : Rat × Nat) => if m.1 < x.1 then x else m) c).1 =
      (cs.map (·.1)).foldl (fun (m : Rat) x => if m < x then x else m) c.1 := by
  induction cs generalizing c with
  | nil => rfl
  | cons x cs ih =>
    simp only [List.foldl_cons, List.map_cons]
    rw [ih]
    congr 1
    split <;> rfl

/-- the value of Python's `max(candidates, key=value)` is the maximum of the values -/
theorem firstMax_map_fst (l : List (Rat × Nat)) : (firstMax l).map (·.1) = maxR (l.map (·.1)) := by
  cases l with
  | nil => rfl
  | cons c cs => simp only [firstMax, maxR, Option.map_some, List.map_cons, firstMax_foldl_fst]

theorem firstMax_foldl_mem (cs : List (Rat × Nat)) (c : Rat × Nat) :
    cs.foldl (fun (m : Rat × Nat) (x : Rat × Nat) => if m.1 < x.1 then x else m) c ∈ c :: cs := by
  induction cs generalizing c with
  | nil => simp
  | cons x cs ih =>
    simp only [List.foldl_cons]
    have := ih (if c.1 < x.1 then x else c)
    rcases List.mem_cons.mp this with h | h
    · rw [h]; split <;> simp
    · exact List.mem_cons_of_mem _ (List.mem_cons_of_mem _ h)

theorem firstMax_mem (l : List (Rat × Nat)) (x : Rat × Nat) (h : firstMax l = some x) : x ∈ l := by
  cases l with
  | nil => simp [firstMax] at h
  | cons c cs =>
    simp only [firstMax, Option.some.injEq] at h
    rw [← h]; exact firstMax_foldl_mem cs c

/-! ### rows of the code's table = rows of the oracle's table -/

/-- what the oracle keeps of a row: line, value of `longer`, value of `carried` -/
def toSpec (r : CpRow) : Nat × Option Rat × Rat := (r.line, r.longer.map (·.1), r.carried.1)

theorem find_toSpec (T : List CpRow) (l : Nat) :
    (T.map toSpec).find? (·.1 == l) = (T.find? (·.line == l)).map toSpec := by
  induction T with
  | nil => rfl
  | cons r T ih =>
    simp only [List.map_cons, List.find?_cons]
    have : (toSpec r).1 = r.line := rfl
    rw [this]
    cases (r.line == l) with
    | true => rfl
    | false => exact ih

theorem cands_corr (es : List Edge) (T : List CpRow) (line : Nat) :
    (cpCands es T line).map (·.1) =
      (wedgesOf es).filterMap fun e =>
        if e.dst == line then ((T.map toSpec).find? (·.1 == e.src)).map (fun t => t.2.2 + e.w) else none := by
  unfold cpCands wedgesOf
  rw [List.map_filterMap, List.filterMap_filterMap]
  apply List.filterMap_congr
  intro e _
  cases h1 : e.src.load <;> cases h2 : e.dst.load <;>
    simp [toSpec, Option.map_map, Function.comp_def]
  split
  · cases List.find? (fun x => x.line == e.src.line) T <;> rfl
  · simp

theorem carriedOf_fst (ls : Rat) (o : Option (Rat × Nat)) :
    (carriedOf ls o).1 = bOf (o.map (·.1)) ls := by
  cases o with
  | none => rfl
  | some x =>
    obtain ⟨v, p⟩ := x
    simp only [carriedOf, bOf, Option.map_some]
    by_cases h1 : ls < v
    · have h2 : ¬ v < ls := not_lt.mpr (le_of_lt h1)
      simp [h1, h2]
    · by_cases h2 : v < ls
      · simp [h1, h2]
      · have : v = ls := le_antisymm (not_lt.mp h1) (not_lt.mp h2)
        simp [this]

/-- the code's load stage (weight of the edge from the load node) is the oracle's load stage
    (`lat − latWoLoad` for an instruction with a separate load node) on every line of the kernel -/
def LoadStagesAgree (k : List Ins) (es : List Edge) : Prop :=
  ∀ i ∈ k, loadEdgeOf es i.line = loadStageOf i

instance (k : List Ins) (es : List Edge) : Decidable (LoadStagesAgree k es) := by
  unfold LoadStagesAgree; infer_instance

/-- all edge weights are non-negative -/
def NonnegWeights (es : List Edge) : Prop := ∀ e ∈ es, 0 ≤ e.w

instance (es : List Edge) : Decidable (NonnegWeights es) := by unfold NonnegWeights; infer_instance

/-- **the two tables are the same table**: `carried.1 = b`, `longer.map (·.1) = ext`, row by row -/
theorem cpTable_eq_table (k : List Ins) (es : List Edge) (hls : LoadStagesAgree k es) :
    (cpTable k es).map toSpec = table (infosOf k) (wedgesOf es) := by
  induction k using List.reverseRecOn with
  | nil => rfl
  | append_singleton pre i ih =>
    have hpre : LoadStagesAgree pre es := fun j hj => hls j (List.mem_append_left _ hj)
    have hi : loadEdgeOf es i.line = loadStageOf i := hls i (by simp)
    have hinf : infosOf (pre ++ [i]) = infosOf pre ++ [⟨i.line, i.lat, loadStageOf i⟩] := by
      simp [infosOf]
    rw [cpTable_snoc, hinf, table_snoc, List.map_append, ih hpre]
    simp only [List.map_cons, List.map_nil, stepT]
    congr 2
    have hext : extOf (wedgesOf es) (table (infosOf pre) (wedgesOf es)) i.line =
        (firstMax (cpCands es (cpTable pre es) i.line)).map (·.1) := by
      rw [firstMax_map_fst, cands_corr, ih hpre]; rfl
    simp only [toSpec, newRow, hext, carriedOf_fst, hi]

/-! ### non-negativity of the table values -/

theorem loadEdgeOf_nonneg (es : List Edge) (hw : NonnegWeights es) (l : Nat) : 0 ≤ loadEdgeOf es l := by
  unfold loadEdgeOf
  cases h : es.find? (fun e => e.src == ⟨l, true⟩ && e.dst == ⟨l, false⟩) with
  | none => exact le_refl _
  | some e => exact hw e (List.mem_of_find?_eq_some h)

theorem carriedOf_ge (ls : Rat) (o : Option (Rat × Nat)) : ls ≤ (carriedOf ls o).1 := by
  rw [carriedOf_fst]; exact bOf_ge_stage _ _

/-- with non-negative edge weights every value of the table is non-negative -/
theorem cpTable_nonneg (k : List Ins) (es : List Edge) (hw : NonnegWeights es) :
    ∀ r ∈ cpTable k es, 0 ≤ r.carried.1 ∧ ∀ x, r.longer = some x → 0 ≤ x.1 := by
  apply cpTable_forall
  intro pre i post _ hT
  refine ⟨le_trans (loadEdgeOf_nonneg es hw i.line) (carriedOf_ge _ _), ?_⟩
  intro x hx
  have hmem := firstMax_mem _ _ hx
  simp only [cpCands, List.mem_filterMap] at hmem
  obtain ⟨e, he, hval⟩ := hmem
  split at hval
  · simp only [Option.map_eq_some_iff] at hval
    obtain ⟨r, hr, rfl⟩ := hval
    have := (hT r (List.mem_of_find?_eq_some hr)).1
    have := hw e he
    simp only
    linarith
  · cases hval

/-! ### the reported total is the oracle's value -/

theorem cpTotal_eq_maxOr0 (k : List Ins) (es : List Edge) :
    cpTotal k es = maxOr0 (k.map (chainLengthAt k (cpTable k es))) := by
  unfold cpTotal maxOr0 maxR
  simp only
  cases k.map (chainLengthAt k (cpTable k es)) <;> rfl

/-- `chain_length` of a line is the oracle's `endValue` of that line, when `longer` is non-negative -/
theorem chainLengthAt_eq_endValue (k : List Ins) (T : List CpRow)
    (hnn : ∀ r ∈ T, ∀ x, r.longer = some x → 0 ≤ x.1) (i : Ins) (st : Rat) :
    chainLengthAt k T i = endValue (T.map toSpec) ⟨i.line, i.lat, st⟩ := by
  unfold chainLengthAt endValue
  simp only [find_toSpec]
  cases h : T.find? (·.line == i.line) with
  | none => simp
  | some r =>
    have hr := hnn r (List.mem_of_find?_eq_some h)
    simp only [Option.bind_some, Option.map_some, toSpec]
    cases hl : r.longer with
    | none => simp
    | some x =>
      obtain ⟨v, p⟩ := x
      have hv : 0 ≤ v := hr _ hl
      simp only [Option.map_some]
      split
      · rfl
      · rename_i hlt
        have : v = 0 := by linarith [not_lt.mp hlt]
        rw [this]; ring

/-- **`cpTotal_eq_longestChain`, graph-generic form**: for ANY kernel and edge list with non-negative
    weights whose load-node edges carry the instructions' load stages, the total reported by the
    repaired `get_critical_path` is the value of the declarative longest-chain programme -/
theorem cpTotal_eq_longestChain_of (k : List Ins) (es : List Edge) (hw : NonnegWeights es)
    (hls : LoadStagesAgree k es) :
    cpTotal k es = longestChain (infosOf k) (wedgesOf es) := by
  rw [cpTotal_eq_maxOr0, longestChain_eq, ← cpTable_eq_table k es hls]
  congr 1
  unfold infosOf
  rw [List.map_map]
  apply List.map_congr_left
  intro i _
  exact chainLengthAt_eq_endValue k _ (fun r hr => (cpTable_nonneg k es hw r hr).2) i _

/-! ### the graph `create` builds satisfies the hypotheses -/

/-- `latency_wo_load` is known for every instruction with a separate load node (the code computes
    `latency − latency_wo_load` for the load edge; the oracle's load stage is 0 when it is unknown) -/
def LoadsKnown (k : List Ins) : Prop := ∀ i ∈ k, (i.hasLd && !i.isLd) = true → i.latWoLoad.isSome = true

instance (k : List Ins) : Decidable (LoadsKnown k) := by unfold LoadsKnown; infer_instance

/-- non-negative latencies (`latency`, and `latency_wo_load` where known) -/
def NonnegLats (k : List Ins) : Prop := ∀ i ∈ k, 0 ≤ i.lat ∧ 0 ≤ i.latWoLoad.getD 0

instance (k : List Ins) : Decidable (NonnegLats k) := by unfold NonnegLats; infer_instance

/-- non-negative machine-model parameters (store-to-load forwarding, index write-back latency) -/
def NonnegParams (par : Params) : Prop := 0 ≤ par.stlf ∧ 0 ≤ par.pIdx

instance (par : Params) : Decidable (NonnegParams par) := by unfold NonnegParams; infer_instance

/-- the edge `create_DG` adds from the load node of `p` -/
def loadEdgeE (p : Ins) : Edge :=
  { src := ⟨p.line, true⟩, dst := ⟨p.line, false⟩, w := p.lat - (p.latWoLoad.getD 0) }

theorem loadEdge_eq (p : Ins) : loadEdge p = if p.hasLd && !p.isLd then [loadEdgeE p] else [] := rfl

/-- in a well-formed kernel the line number determines the instruction -/
theorem wf_line_inj {k : List Ins} (hk : WFKernel k) {a b : Ins} (ha : a ∈ k) (hb : b ∈ k)
    (hl : a.line = b.line) : a = b := by
  induction k with
  | nil => simp at ha
  | cons p rest ih =>
    rcases List.mem_cons.mp ha with ha' | ha' <;> rcases List.mem_cons.mp hb with hb' | hb'
    · rw [ha', hb']
    · subst ha'; have := hk.head_lt b hb'; omega
    · subst hb'; have := hk.head_lt a ha'; omega
    · exact ih hk.tail ha' hb'

/-- an emission leaving a load node is the load edge of an instruction that has a load node -/
theorem emissions_load_src (isa : Isa) (fd : Bool) (par : Params) (k : List Ins) (e : Edge)
    (he : e ∈ emissions isa fd par k) (hl : e.src.load = true) :
    ∃ p ∈ k, (p.hasLd && !p.isLd) = true ∧ e = loadEdgeE p := by
  induction k with
  | nil => simp [emissions] at he
  | cons p rest ih =>
    rw [emissions_cons] at he
    simp only [List.mem_append, List.mem_map] at he
    rcases he with (he | ⟨x, _, rfl⟩) | he
    · rw [loadEdge_eq] at he
      split at he
      · rename_i h
        simp only [List.mem_singleton] at he
        exact ⟨p, by simp, h, he⟩
      · simp at he
    · simp [depEdge] at hl
    · obtain ⟨q, hq, h1, h2⟩ := ih he
      exact ⟨q, List.mem_cons_of_mem _ hq, h1, h2⟩

theorem loadEdge_mem_emissions (isa : Isa) (fd : Bool) (par : Params) (k : List Ins) (p : Ins)
    (hp : p ∈ k) (h : (p.hasLd && !p.isLd) = true) : loadEdgeE p ∈ emissions isa fd par k := by
  induction k with
  | nil => simp at hp
  | cons q rest ih =>
    rw [emissions_cons]
    rcases List.mem_cons.mp hp with rfl | hp
    · simp [loadEdge_eq, h]
    · exact List.mem_append_right _ (ih hp)

theorem create_mem_emissions (isa : Isa) (fd : Bool) (par : Params) (k : List Ins) (e : Edge)
    (he : e ∈ create isa fd par k) : e ∈ emissions isa fd par k := by
  obtain ⟨pre, post, h, _⟩ := (mem_dedupLast _ e).mp he
  rw [h]; simp

/-- **the load-node edge of `create` carries the oracle's load stage**, for kernels with increasing
    lines in which `latency_wo_load` is known wherever there is a load node -/
theorem create_loadStagesAgree (isa : Isa) (fd : Bool) (par : Params) (k : List Ins) (hk : WFKernel k)
    (hkn : LoadsKnown k) : LoadStagesAgree k (create isa fd par k) := by
  intro i hi
  unfold loadEdgeOf
  cases hfind : (create isa fd par k).find? (fun e => e.src == ⟨i.line, true⟩ && e.dst == ⟨i.line, false⟩) with
  | none =>
    have hno : (i.hasLd && !i.isLd) = false := by
      by_contra hc
      have hc' : (i.hasLd && !i.isLd) = true := by simpa using hc
      have hmem := loadEdge_mem_emissions isa fd par k i hi hc'
      have : pairOf (loadEdgeE i) ∈ (create isa fd par k).map pairOf :=
        (dedupLast_pairs_iff _ _).mpr (List.mem_map.mpr ⟨_, hmem, rfl⟩)
      obtain ⟨f, hf, hp⟩ := List.mem_map.mp this
      simp only [pairOf, loadEdgeE, Prod.mk.injEq] at hp
      have := List.find?_eq_none.mp hfind f hf
      simp [hp.1, hp.2] at this
    simp [loadStageOf, hno]
  | some e =>
    have hem := create_mem_emissions isa fd par k e (List.mem_of_find?_eq_some hfind)
    have hpe := List.find?_some hfind
    simp only [Bool.and_eq_true, beq_iff_eq] at hpe
    obtain ⟨p, hp, hflag, rfl⟩ := emissions_load_src isa fd par k e hem (by rw [hpe.1])
    have hline : p.line = i.line := by
      have := congrArg Node.line hpe.1
      simpa [loadEdgeE] using this
    have hpi : p = i := wf_line_inj hk hp hi hline
    subst hpi
    have hsome := hkn p hi hflag
    cases hl : p.latWoLoad with
    | none => simp [hl] at hsome
    | some l => simp [loadStageOf, loadEdgeE, hflag, hl]

theorem edgeWeight_nonneg (par : Params) (hpar : NonnegParams par) (p : Ins)
    (hp : 0 ≤ p.lat ∧ 0 ≤ p.latWoLoad.getD 0) (tag : Tag) : 0 ≤ edgeWeight par p tag := by
  have hbase : 0 ≤ (match p.latWoLoad with | some l => l | none => p.lat) := by
    cases hl : p.latWoLoad with
    | none => exact hp.1
    | some l => have := hp.2; rw [hl] at this; simpa using this
  unfold edgeWeight
  cases tag with
  | plain => exact hbase
  | storeLoad => exact add_nonneg hbase hpar.1
  | pIndexed => exact hpar.2

/-- **the graph of `create` has non-negative weights**, for non-negative latencies, model parameters
    and load stages -/
theorem create_nonnegWeights (isa : Isa) (fd : Bool) (par : Params) (k : List Ins)
    (hst : NonnegStages k) (hlat : NonnegLats k) (hpar : NonnegParams par) :
    NonnegWeights (create isa fd par k) := by
  intro e he
  have hem := create_mem_emissions isa fd par k e he
  clear he
  induction k with
  | nil => simp [emissions] at hem
  | cons p rest ih =>
    rw [emissions_cons] at hem
    simp only [List.mem_append, List.mem_map] at hem
    rcases hem with (he | ⟨x, _, rfl⟩) | he
    · rw [loadEdge_eq] at he
      split at he
      · rename_i h
        simp only [List.mem_singleton] at he
        subst he
        have h1 := hst p (by simp)
        have h2 := (hlat p (by simp)).1
        simp only [loadStageOf, h, if_true] at h1
        simp only [loadEdgeE]
        cases hl : p.latWoLoad with
        | none => simpa using h2
        | some l => rw [hl] at h1; simpa using h1
      · simp at he
    · exact edgeWeight_nonneg par hpar p (hlat p (by simp)) x.2
    · exact ih (fun j hj => hst j (List.mem_cons_of_mem _ hj))
        (fun j hj => hlat j (List.mem_cons_of_mem _ hj)) he

/-! ### the marking (`Model/CpMark.lean`): rows and their predecessor pointers -/

theorem node_eq {n : Node} {l : Nat} {b : Bool} (h1 : n.line = l) (h2 : n.load = b) : n = ⟨l, b⟩ := by
  cases n; simp_all

/-- `carried` is determined by `longer` and the load stage, in every row -/
theorem cpTable_carried (k : List Ins) (es : List Edge) :
    ∀ r ∈ cpTable k es, r.carried = carriedOf (loadEdgeOf es r.line) r.longer := by
  apply cpTable_forall
  intro pre i post _ _
  rfl

/-- **the `longer` entry of a row comes from a dependency edge**: its predecessor `p` is linked to the
    row's line by an edge of `es` between instruction nodes, `p` has a row, and the value is that
    row's `carried` plus the edge weight -/
theorem cpTable_longer (k : List Ins) (es : List Edge) :
    ∀ r ∈ cpTable k es, ∀ v p, r.longer = some (v, p) →
      ∃ e ∈ es, e.src = ⟨p, false⟩ ∧ e.dst = ⟨r.line, false⟩ ∧
        ∃ rp, (cpTable k es).find? (·.line == p) = some rp ∧ v = rp.carried.1 + e.w := by
  apply cpTable_forall
  intro pre i post hsplit _ v p hl
  have hmem := firstMax_mem _ _ hl
  simp only [cpCands, List.mem_filterMap] at hmem
  obtain ⟨e, he, hval⟩ := hmem
  split at hval
  · rename_i hc
    simp only [Bool.and_eq_true, Bool.not_eq_true', beq_iff_eq] at hc
    simp only [Option.map_eq_some_iff, Prod.mk.injEq] at hval
    obtain ⟨rp, hrp, hv, hp⟩ := hval
    refine ⟨e, he, node_eq hp hc.1.1, node_eq hc.2 hc.1.2, rp, ?_, hv.symm⟩
    obtain ⟨tl, htl⟩ := cpTable_split pre i post es
    rw [hsplit, htl, List.find?_append, ← hp, hrp]
    rfl
  · cases hval

theorem carriedOf_snd_some (ls : Rat) (o : Option (Rat × Nat)) (p : Nat)
    (h : (carriedOf ls o).2 = some p) : ∃ v, o = some (v, p) ∧ (carriedOf ls o).1 = v := by
  cases o with
  | none => simp [carriedOf] at h
  | some x =>
    obtain ⟨v, q⟩ := x
    simp only [carriedOf] at h ⊢
    split at h
    · rename_i hlt
      simp only [Option.some.injEq] at h
      subst h
      exact ⟨v, rfl, by simp [hlt]⟩
    · cases h

theorem carriedOf_snd_none (ls : Rat) (o : Option (Rat × Nat))
    (h : (carriedOf ls o).2 = none) : (carriedOf ls o).1 = ls := by
  cases o with
  | none => rfl
  | some x =>
    obtain ⟨v, q⟩ := x
    simp only [carriedOf] at h ⊢
    split at h
    · cases h
    · rename_i hlt; simp [hlt]

theorem cpPredOf_some (T : List CpRow) (p p' : Nat) (h : cpPredOf T p = some p') :
    ∃ rp ∈ T, rp.line = p ∧ T.find? (·.line == p) = some rp ∧ rp.carried.2 = some p' := by
  unfold cpPredOf at h
  cases hf : T.find? (·.line == p) with
  | none => simp [hf] at h
  | some rp =>
    rw [hf] at h
    exact ⟨rp, List.mem_of_find?_eq_some hf, by simpa using List.find?_some hf, rfl, h⟩

/-- the predecessor pointer of `carried` is the predecessor of `longer`, hence linked by an edge -/
theorem cpPredOf_edge (k : List Ins) (es : List Edge) (p p' : Nat)
    (h : cpPredOf (cpTable k es) p = some p') :
    ∃ e ∈ es, e.src = ⟨p', false⟩ ∧ e.dst = ⟨p, false⟩ ∧
      ∃ rp rp', (cpTable k es).find? (·.line == p) = some rp ∧
        (cpTable k es).find? (·.line == p') = some rp' ∧ rp.carried.1 = rp'.carried.1 + e.w := by
  obtain ⟨rp, hrp, hline, hfind, hc⟩ := cpPredOf_some _ p p' h
  rw [cpTable_carried k es rp hrp] at hc
  obtain ⟨v, hl, hv⟩ := carriedOf_snd_some _ _ _ hc
  obtain ⟨e, he, hs, hd, rp', hfind', hval⟩ := cpTable_longer k es rp hrp v p' hl
  refine ⟨e, he, hs, by rw [hd, hline], rp, rp', hfind, hfind', ?_⟩
  rw [cpTable_carried k es rp hrp, hv, hval]

/-! ### the walk back -/

theorem cpBack_none (T : List CpRow) (fuel : Nat) (acc : List Nat) : cpBack T fuel none acc = acc := by
  cases fuel <;> rfl

/-- an invariant of the loop holds of its result (whether or not the fuel suffices) -/
theorem cpBack_inv_weak (T : List CpRow) (Inv : Option Nat → List Nat → Prop)
    (hstep : ∀ p acc, Inv (some p) acc → Inv (cpPredOf T p) (p :: acc)) :
    ∀ fuel q acc, Inv q acc → ∃ q', Inv q' (cpBack T fuel q acc) := by
  intro fuel
  induction fuel with
  | zero => intro q acc h; exact ⟨q, h⟩
  | succ fuel ih =>
    intro q acc h
    cases q with
    | none => exact ⟨none, h⟩
    | some p => exact ih _ _ (hstep p acc h)

/-- with a measure that decreases along the pointers and is below the fuel, the loop ends at `None` -/
theorem cpBack_inv (T : List CpRow) (Inv : Option Nat → List Nat → Prop) (μ : Nat → Nat)
    (hstep : ∀ p acc, Inv (some p) acc → Inv (cpPredOf T p) (p :: acc))
    (hμ : ∀ p p', cpPredOf T p = some p' → μ p' < μ p) :
    ∀ fuel q acc, Inv q acc → (∀ p, q = some p → μ p < fuel) → Inv none (cpBack T fuel q acc) := by
  intro fuel
  induction fuel with
  | zero =>
    intro q acc h hq
    cases q with
    | none => exact h
    | some p => exact absurd (hq p rfl) (Nat.not_lt_zero _)
  | succ fuel ih =>
    intro q acc h hq
    cases q with
    | none => exact h
    | some p =>
      refine ih _ _ (hstep p acc h) ?_
      intro p' hp'
      have := hμ p p' hp'
      have := hq p rfl
      omega

/-! ### `cpLast` attains the maximum -/

theorem argmax_foldl {α : Type} (f : α → Rat) (is : List α) (i : α) :
    f (is.foldl (fun (m : α) (x : α) => if f m < f x then x else m) i) =
      (is.map f).foldl (fun (m : Rat) x => if m < x then x else m) (f i) ∧
    is.foldl (fun (m : α) (x : α) => if f m < f x then x else m) i ∈ i :: is := by
  induction is generalizing i with
  | nil => simp
  | cons x is ih =>
    simp only [List.foldl_cons, List.map_cons]
    obtain ⟨h1, h2⟩ := ih (if f i < f x then x else i)
    refine ⟨?_, ?_⟩
    · rw [h1]; congr 1; split <;> rfl
    · rcases List.mem_cons.mp h2 with h | h
      · rw [h]; split <;> simp
      · exact List.mem_cons_of_mem _ (List.mem_cons_of_mem _ h)

theorem cpLast_none (k : List Ins) (T : List CpRow) (h : cpLast k T = none) : k = [] := by
  cases k with
  | nil => rfl
  | cons i is => simp [cpLast] at h

/-- the chosen last line is a line of the kernel and its `chain_length` is the reported total -/
theorem cpLast_spec (k : List Ins) (es : List Edge) (i : Ins) (h : cpLast k (cpTable k es) = some i) :
    i ∈ k ∧ cpTotal k es = chainLengthAt k (cpTable k es) i := by
  cases hk : k with
  | nil => rw [hk] at h; simp [cpLast] at h
  | cons j js =>
    rw [← hk]
    have h' : cpLast (j :: js) (cpTable k es) = some i := by rw [← hk]; exact h
    simp only [cpLast, Option.some.injEq] at h'
    obtain ⟨h1, h2⟩ := argmax_foldl (chainLengthAt (j :: js) (cpTable k es)) js j
    rw [h'] at h1 h2
    refine ⟨by rw [hk]; exact h2, ?_⟩
    unfold cpTotal
    simp only [hk, List.map_cons]
    rw [← hk] at h1 ⊢
    exact h1.symm

/-! ### the marked lines form a chain -/

/-- the instruction node of a line -/
def instrNode (l : Nat) : Node := ⟨l, false⟩

/-- **`cp_lines_form_chain`, core**: consecutive lines of `cpPath` are linked by an edge of `es`
    between their instruction nodes (any kernel, any edge list) -/
theorem cpPath_isPath (k : List Ins) (es : List Edge) :
    isPath es ((cpPath k es).map instrNode) = true := by
  unfold cpPath
  simp only
  cases hlast : cpLast k (cpTable k es) with
  | none => rfl
  | some i =>
    simp only
    let Inv : Option Nat → List Nat → Prop := fun q acc =>
      isPath es (acc.map instrNode) = true ∧
      ∀ p, q = some p → ∃ a rest, acc = a :: rest ∧ ∃ e ∈ es, e.src = ⟨p, false⟩ ∧ e.dst = ⟨a, false⟩
    have hstep : ∀ p acc, Inv (some p) acc → Inv (cpPredOf (cpTable k es) p) (p :: acc) := by
      intro p acc ⟨hp, hq⟩
      obtain ⟨a, rest, rfl, e, he, hs, hd⟩ := hq p rfl
      refine ⟨?_, ?_⟩
      · simp only [List.map_cons, isPath, Bool.and_eq_true, List.any_eq_true, beq_iff_eq]
        exact ⟨⟨e, he, hs, hd⟩, by simpa using hp⟩
      · intro p' hp'
        obtain ⟨e', he', hs', hd', _⟩ := cpPredOf_edge k es p p' hp'
        exact ⟨p, a :: rest, rfl, e', he', hs', hd'⟩
    have hinit : Inv (((cpTable k es).find? (·.line == i.line)).bind (fun r => r.longer.map (·.2)))
        [i.line] := by
      refine ⟨rfl, ?_⟩
      intro p hp
      cases hf : (cpTable k es).find? (·.line == i.line) with
      | none => simp [hf] at hp
      | some r =>
        rw [hf] at hp
        simp only [Option.bind_some, Option.map_eq_some_iff] at hp
        obtain ⟨⟨v, p'⟩, hl, hpp⟩ := hp
        simp only at hpp
        subst hpp
        have hrl : r.line = i.line := by simpa using List.find?_some hf
        obtain ⟨e, he, hs, hd, _⟩ := cpTable_longer k es r (List.mem_of_find?_eq_some hf) v p' hl
        exact ⟨i.line, [], rfl, e, he, hs, by rw [hd, hrl]⟩
    obtain ⟨q', h, _⟩ := cpBack_inv_weak (cpTable k es) Inv hstep k.length _ _ hinit
    exact h

/-- every marked line is a line of the kernel -/
theorem cpPath_lines (k : List Ins) (es : List Edge) : ∀ l ∈ cpPath k es, l ∈ k.map (·.line) := by
  unfold cpPath
  simp only
  cases hlast : cpLast k (cpTable k es) with
  | none => simp
  | some i =>
    simp only
    let Inv : Option Nat → List Nat → Prop := fun q acc =>
      (∀ l ∈ acc, l ∈ k.map (·.line)) ∧ ∀ p, q = some p → p ∈ k.map (·.line)
    have hrow : ∀ p r, (cpTable k es).find? (·.line == p) = some r → p ∈ k.map (·.line) := by
      intro p r hf
      rw [← cpTable_lines k es]
      exact List.mem_map.mpr ⟨r, List.mem_of_find?_eq_some hf, by simpa using List.find?_some hf⟩
    have hstep : ∀ p acc, Inv (some p) acc → Inv (cpPredOf (cpTable k es) p) (p :: acc) := by
      intro p acc ⟨hacc, hq⟩
      refine ⟨?_, ?_⟩
      · intro l hl
        rcases List.mem_cons.mp hl with rfl | hl
        · exact hq _ rfl
        · exact hacc l hl
      · intro p' hp'
        obtain ⟨_, _, _, _, _, rp', _, hf', _⟩ := cpPredOf_edge k es p p' hp'
        exact hrow p' rp' hf'
    have hi := (cpLast_spec k es i hlast).1
    have hinit : Inv (((cpTable k es).find? (·.line == i.line)).bind (fun r => r.longer.map (·.2)))
        [i.line] := by
      refine ⟨by simpa using ⟨i, hi, rfl⟩, ?_⟩
      intro p hp
      cases hf : (cpTable k es).find? (·.line == i.line) with
      | none => simp [hf] at hp
      | some r =>
        rw [hf] at hp
        simp only [Option.bind_some, Option.map_eq_some_iff] at hp
        obtain ⟨⟨v, p'⟩, hl, hpp⟩ := hp
        simp only at hpp
        subst hpp
        obtain ⟨_, _, _, _, rp, hf', _⟩ := cpTable_longer k es r (List.mem_of_find?_eq_some hf) v p' hl
        exact hrow p' rp hf'
    obtain ⟨q', h, _⟩ := cpBack_inv_weak (cpTable k es) Inv hstep k.length _ _ hinit
    exact h

/-- over a forward graph the marked lines are strictly ascending -/
theorem cpPath_sorted (k : List Ins) (es : List Edge) (hfw : ForwardEdges es) :
    (cpPath k es).Pairwise (· < ·) := by
  have hp := cpPath_isPath k es
  cases hc : cpPath k es with
  | nil => simp
  | cons a rest =>
    rw [hc] at hp
    have := (instr_path_sorted es hfw (instrNode a) (rest.map instrNode) (by simpa using hp) rfl).2
    simpa [List.map_map, Function.comp_def, instrNode] using this

/-! ### the per-line CP latencies add up to the total -/

theorem nodup_map_inj {α β : Type} (f : α → β) (l : List α) (h : (l.map f).Nodup) {a b : α}
    (ha : a ∈ l) (hb : b ∈ l) (hf : f a = f b) : a = b := by
  induction l with
  | nil => simp at ha
  | cons c l ih =>
    simp only [List.map_cons, List.nodup_cons] at h
    rcases List.mem_cons.mp ha with ha' | ha' <;> rcases List.mem_cons.mp hb with hb' | hb'
    · rw [ha', hb']
    · subst ha'; exact absurd (List.mem_map.mpr ⟨b, hb', hf.symm⟩) h.1
    · subst hb'; exact absurd (List.mem_map.mpr ⟨a, ha', hf⟩) h.1
    · exact ih h.2 ha' hb'

/-- each (source, target) pair occurs once in the edge list (as in a networkx graph) -/
def UniquePairs (es : List Edge) : Prop := (es.map pairOf).Nodup

instance (es : List Edge) : Decidable (UniquePairs es) := by unfold UniquePairs; infer_instance

/-- with unique pairs, the latency looked up for a pair is the weight of THE edge of that pair -/
theorem cpEdgeW_eq (es : List Edge) (hu : UniquePairs es) (e : Edge) (he : e ∈ es) (a b : Nat)
    (hs : e.src = ⟨a, false⟩) (hd : e.dst = ⟨b, false⟩) : cpEdgeW es a b = e.w := by
  unfold cpEdgeW
  cases hf : es.find? (fun e => e.src == ⟨a, false⟩ && e.dst == ⟨b, false⟩) with
  | none =>
    have := List.find?_eq_none.mp hf e he
    simp [hs, hd] at this
  | some e' =>
    have hp := List.find?_some hf
    simp only [Bool.and_eq_true, beq_iff_eq] at hp
    have : e' = e := nodup_map_inj pairOf es hu (List.mem_of_find?_eq_some hf) he
      (by simp [pairOf, hp.1, hp.2, hs, hd])
    rw [this]

/-- sum of the edge latencies along a list of lines -/
def edgeSum (es : List Edge) : List Nat → Rat
  | a :: b :: rest => cpEdgeW es a b + edgeSum es (b :: rest)
  | _ => 0

theorem cpMarksFrom_sum (k : List Ins) (es : List Edge) (path : List Nat) (l : Nat)
    (h : path.getLast? = some l) :
    ((cpMarksFrom k es path).map (·.2)).sum = edgeSum es path + cpLatOf k l := by
  induction path with
  | nil => simp at h
  | cons a rest ih =>
    cases rest with
    | nil =>
      simp only [List.getLast?_singleton, Option.some.injEq] at h
      subst h
      simp [cpMarksFrom, edgeSum]
    | cons b rest =>
      rw [List.getLast?_cons_cons] at h
      simp only [cpMarksFrom, edgeSum, List.map_cons, List.sum_cons, ih h]
      ring

theorem cpMarksFrom_lines (k : List Ins) (es : List Edge) (path : List Nat) :
    (cpMarksFrom k es path).map (·.1) = path := by
  induction path with
  | nil => rfl
  | cons a rest ih =>
    cases rest with
    | nil => rfl
    | cons b rest => simp only [cpMarksFrom, List.map_cons, ih]

/-- the marked lines are the lines of the path -/
theorem cpMarks_lines (k : List Ins) (es : List Edge) : (cpMarks k es).map (·.1) = cpPath k es := by
  unfold cpMarks
  split
  · rename_i a b rest h
    rw [h]
    simp only [List.map_cons, List.cons.injEq, true_and]
    have := cpMarksFrom_lines k es (b :: rest)
    simpa using this
  · exact cpMarksFrom_lines k es _

/-- in a kernel with distinct lines the predecessor of a row lies before the row -/
theorem cpTable_longer_lt (k : List Ins) (es : List Edge) (hnd : (k.map (·.line)).Nodup) :
    ∀ r ∈ cpTable k es, ∀ v p, r.longer = some (v, p) →
      (k.map (·.line)).idxOf p < (k.map (·.line)).idxOf r.line := by
  apply cpTable_forall
  intro pre i post hsplit _ v p hl
  have hmem := firstMax_mem _ _ hl
  simp only [cpCands, List.mem_filterMap] at hmem
  obtain ⟨e, he, hval⟩ := hmem
  split at hval
  · simp only [Option.map_eq_some_iff, Prod.mk.injEq] at hval
    obtain ⟨rp, hrp, _, hp⟩ := hval
    have hpin : p ∈ pre.map (·.line) := by
      rw [← cpTable_lines pre es, ← hp]
      exact List.mem_map.mpr ⟨rp, List.mem_of_find?_eq_some hrp, by simpa using List.find?_some hrp⟩
    rw [hsplit] at hnd ⊢
    simp only [List.map_append, List.map_cons] at hnd ⊢
    have hnotin : i.line ∉ pre.map (·.line) := by
      intro hin
      exact (List.nodup_append.mp hnd).2.2 _ hin i.line (by simp) rfl
    have h1 : (pre.map (·.line)).idxOf p < (pre.map (·.line)).length :=
      List.idxOf_lt_length_iff.mpr hpin
    show List.idxOf p _ < List.idxOf i.line _
    rw [List.idxOf_append, if_pos hpin, List.idxOf_append, if_neg hnotin, List.idxOf_cons_self]
    omega
  · cases hval

theorem cpPredOf_lt (k : List Ins) (es : List Edge) (hnd : (k.map (·.line)).Nodup) (p p' : Nat)
    (h : cpPredOf (cpTable k es) p = some p') :
    (k.map (·.line)).idxOf p' < (k.map (·.line)).idxOf p := by
  obtain ⟨rp, hrp, hline, _, hc⟩ := cpPredOf_some _ p p' h
  rw [cpTable_carried k es rp hrp] at hc
  obtain ⟨v, hl, _⟩ := carriedOf_snd_some _ _ _ hc
  rw [← hline]
  exact cpTable_longer_lt k es hnd rp hrp v p' hl

/-- `carried` value of the row of a line -/
def rowC (T : List CpRow) (p : Nat) : Rat :=
  match T.find? (·.line == p) with | some r => r.carried.1 | none => 0

/-- **`cp_lines_sum`, core**: the `latency_cp` values of the marked lines add up to the reported total
    (kernels with distinct lines, edge lists with unique pairs) -/
theorem cpMarks_sum (k : List Ins) (es : List Edge) (hnd : (k.map (·.line)).Nodup)
    (hu : UniquePairs es) : ((cpMarks k es).map (·.2)).sum = cpTotal k es := by
  cases hlast : cpLast k (cpTable k es) with
  | none =>
    have hk := cpLast_none k _ hlast
    subst hk
    rfl
  | some i =>
    obtain ⟨hi, htot⟩ := cpLast_spec k es i hlast
    have hlat : cpLatOf k i.line = i.lat := by
      unfold cpLatOf
      rw [find?_of_nodup_key (·.line) k hnd i hi]
    have hpath : cpPath k es = cpBack (cpTable k es) k.length
        (((cpTable k es).find? (·.line == i.line)).bind (fun r => r.longer.map (·.2))) [i.line] := by
      unfold cpPath
      simp only [hlast]
    rw [htot]
    unfold chainLengthAt
    cases hq : ((cpTable k es).find? (·.line == i.line)).bind (·.longer) with
    | none =>
      have hq' : ((cpTable k es).find? (·.line == i.line)).bind (fun r => r.longer.map (·.2)) = none := by
        cases hf : (cpTable k es).find? (·.line == i.line) with
        | none => rfl
        | some r => rw [hf] at hq; simp only [Option.bind_some] at hq ⊢; rw [hq]; rfl
      rw [hq', cpBack_none] at hpath
      simp [cpMarks, hpath, cpMarksFrom, hlat]
    | some x =>
      obtain ⟨v0, p0⟩ := x
      simp only
      obtain ⟨r, hfr, hlr⟩ : ∃ r, (cpTable k es).find? (·.line == i.line) = some r ∧
          r.longer = some (v0, p0) := by
        cases hf : (cpTable k es).find? (·.line == i.line) with
        | none => rw [hf] at hq; cases hq
        | some r => rw [hf] at hq; exact ⟨r, rfl, hq⟩
      have hrl : r.line = i.line := by simpa using List.find?_some hfr
      have hq' : ((cpTable k es).find? (·.line == i.line)).bind (fun r => r.longer.map (·.2)) = some p0 := by
        rw [hfr]; simp [hlr]
      rw [hq'] at hpath
      -- the invariant of the walk
      let Inv : Option Nat → List Nat → Prop := fun q acc =>
        ∃ a rest, acc = a :: rest ∧ acc.getLast? = some i.line ∧ (q = none → 2 ≤ acc.length) ∧
          (∀ p, q = some p → ∃ rp, (cpTable k es).find? (·.line == p) = some rp) ∧
          (match q with
            | some p => rowC (cpTable k es) p + cpEdgeW es p a
            | none => loadEdgeOf es a) + edgeSum es acc = v0
      have hstep : ∀ p acc, Inv (some p) acc → Inv (cpPredOf (cpTable k es) p) (p :: acc) := by
        intro p acc ⟨a, rest, hacc, hlastl, _, hrow, hval⟩
        subst hacc
        obtain ⟨rp, hfp⟩ := hrow p rfl
        refine ⟨p, a :: rest, rfl, (by rw [List.getLast?_cons_cons]; exact hlastl),
          (fun _ => by simp), ?_, ?_⟩
        · intro p' hp'
          obtain ⟨_, _, _, _, _, rp', _, hf', _⟩ := cpPredOf_edge k es p p' hp'
          exact ⟨rp', hf'⟩
        · simp only at hval
          rw [← hval]
          have hrc : rowC (cpTable k es) p = rp.carried.1 := by simp [rowC, hfp]
          cases hpred : cpPredOf (cpTable k es) p with
          | none =>
            simp only [edgeSum]
            have hrpm := List.mem_of_find?_eq_some hfp
            have hrpl : rp.line = p := by simpa using List.find?_some hfp
            have hc2 : rp.carried.2 = none := by
              simpa [cpPredOf, hfp] using hpred
            have hc := cpTable_carried k es rp hrpm
            rw [hc] at hc2
            have := carriedOf_snd_none _ _ hc2
            rw [← hc, hrpl] at this
            rw [hrc, this]
            ring
          | some p' =>
            obtain ⟨e, he, hs, hd, rp1, rp', hf1, hf', hv⟩ := cpPredOf_edge k es p p' hpred
            have : rp1 = rp := by rw [hfp] at hf1; exact (Option.some.inj hf1).symm
            subst this
            have hrc' : rowC (cpTable k es) p' = rp'.carried.1 := by simp [rowC, hf']
            simp only [edgeSum]
            rw [hrc, hrc', hv, cpEdgeW_eq es hu e he p' p hs hd]
            ring
      have hinit : Inv (some p0) [i.line] := by
        obtain ⟨e, he, hs, hd, rp, hfp, hv⟩ :=
          cpTable_longer k es r (List.mem_of_find?_eq_some hfr) v0 p0 hlr
        refine ⟨i.line, [], rfl, rfl, (fun h => by cases h), ?_, ?_⟩
        · intro p hp
          simp only [Option.some.injEq] at hp
          subst hp
          exact ⟨rp, hfp⟩
        · simp only [edgeSum, rowC, hfp]
          rw [cpEdgeW_eq es hu e he p0 i.line hs (by rw [hd, hrl]), hv]
          ring
      have hfuel : ∀ p, some p0 = some p → (k.map (·.line)).idxOf p < k.length := by
        intro p hp
        simp only [Option.some.injEq] at hp
        subst hp
        have h1 := cpTable_longer_lt k es hnd r (List.mem_of_find?_eq_some hfr) v0 p0 hlr
        have h2 : (k.map (·.line)).idxOf r.line < (k.map (·.line)).length :=
          List.idxOf_lt_length_iff.mpr (by rw [hrl]; exact List.mem_map.mpr ⟨i, hi, rfl⟩)
        simp only [List.length_map] at h2
        omega
      obtain ⟨a, rest, hres, hlastl, hlen, _, hval⟩ :=
        cpBack_inv (cpTable k es) Inv (fun p => (k.map (·.line)).idxOf p) hstep
          (cpPredOf_lt k es hnd) k.length (some p0) [i.line] hinit hfuel
      rw [← hpath] at hres hlastl hlen
      simp only at hval
      rw [← hpath] at hval
      have h2 := hlen rfl
      rw [hres] at h2 hlastl hval
      cases rest with
      | nil => simp at h2
      | cons b rest =>
        have hm : cpMarks k es =
            (a, loadEdgeOf es a + cpEdgeW es a b) :: cpMarksFrom k es (b :: rest) := by
          unfold cpMarks; rw [hres]
        rw [List.getLast?_cons_cons] at hlastl
        rw [hm, List.map_cons, List.sum_cons, cpMarksFrom_sum k es (b :: rest) i.line hlastl, hlat,
          ← hval]
        simp only [edgeSum]
        ring

/-! ### the marked lines, read as a chain of the property -/

/-- `cpMarks` as a function of the path -/
def marksOf (k : List Ins) (es : List Edge) (path : List Nat) : List (Nat × Rat) :=
  match path with
  | a :: b :: rest => (a, loadEdgeOf es a + cpEdgeW es a b) :: cpMarksFrom k es (b :: rest)
  | p => cpMarksFrom k es p

theorem cpMarks_eq (k : List Ins) (es : List Edge) : cpMarks k es = marksOf k es (cpPath k es) := by
  unfold cpMarks marksOf
  split <;> simp_all

theorem instrPart_instr (path : List Nat) : instrPart (path.map instrNode) = path.map instrNode := by
  match path with
  | [] => rfl
  | [a] => rfl
  | a :: b :: rest => simp [instrPart, instrNode]

theorem pathW_instr (es : List Edge) (path : List Nat) :
    pathW (edgeW es) (path.map instrNode) = edgeSum es path := by
  induction path with
  | nil => rfl
  | cons a rest ih =>
    cases rest with
    | nil => rfl
    | cons b rest =>
      simp only [List.map_cons, pathW, edgeSum] at ih ⊢
      rw [ih]; rfl

theorem lastLine_instr (path : List Nat) (l : Nat) (h : path.getLast? = some l) :
    lastLine (path.map instrNode) = l := by
  induction path with
  | nil => simp at h
  | cons a rest ih =>
    cases rest with
    | nil => simpa [lastLine, instrNode] using h
    | cons b rest =>
      rw [List.getLast?_cons_cons] at h
      simpa [lastLine] using ih h

theorem latOfK_eq_cpLatOf (k : List Ins) (l : Nat) : latOfK k l = cpLatOf k l := by
  unfold latOfK cpLatOf
  cases k.find? (·.line == l) <;> rfl

/-- the `latency_cp` values of a path of kernel lines add up to the length (as the property defines
    it) of the dependency chain through these lines -/
theorem marksOf_sum_eq_len (k : List Ins) (es : List Edge) (hnd : (k.map (·.line)).Nodup)
    (hls : LoadStagesAgree k es) (path : List Nat) (hne : path ≠ [])
    (hin : ∀ l ∈ path, l ∈ k.map (·.line)) :
    ((marksOf k es path).map (·.2)).sum = (chainOf es (path.map instrNode)).len (infosOf k) := by
  obtain ⟨l, hl⟩ : ∃ l, path.getLast? = some l := by
    cases h : path.getLast? with
    | none => exact absurd (List.getLast?_eq_none_iff.mp h) hne
    | some l => exact ⟨l, rfl⟩
  rw [chainOf_len k es _ (by simpa using hne), instrPart_instr, pathW_instr, lastLine_instr path l hl]
  match path, hl, hin with
  | [a], hl, _ =>
    simp only [List.getLast?_singleton, Option.some.injEq] at hl
    subst hl
    simp [marksOf, cpMarksFrom, edgesOf, edgeSum, latOfK_eq_cpLatOf]
  | a :: b :: rest, hl, hin =>
    rw [List.getLast?_cons_cons] at hl
    have hst : stageOf (infosOf k) a = loadEdgeOf es a := by
      obtain ⟨i, hi, hia⟩ := List.mem_map.mp (hin a (by simp))
      have hinfo : (⟨i.line, i.lat, loadStageOf i⟩ : LatInfo) ∈ infosOf k := List.mem_map.mpr ⟨i, hi, rfl⟩
      have := stageOf_eq (infosOf k) (by rw [infosOf_lines]; exact hnd) _ hinfo
      simp only at this
      rw [← hia, this, hls i hi]
    simp only [marksOf, List.map_cons, List.sum_cons, cpMarksFrom_sum k es (b :: rest) l hl, edgesOf,
      headLine, edgeSum, hst, instrNode]
    simp only [reduceCtorEq, if_false]
    rw [latOfK_eq_cpLatOf]
    ring

theorem cpBack_ne_nil (T : List CpRow) : ∀ fuel q acc, acc ≠ [] → cpBack T fuel q acc ≠ [] := by
  intro fuel
  induction fuel with
  | zero => intro q acc h; exact h
  | succ n ih =>
    intro q acc h
    cases q with
    | none => exact h
    | some p => exact ih _ _ (by simp)

/-- a non-empty kernel has a non-empty critical path -/
theorem cpPath_ne_nil (k : List Ins) (es : List Edge) (hne : k ≠ []) : cpPath k es ≠ [] := by
  unfold cpPath
  simp only
  cases hl : cpLast k (cpTable k es) with
  | none => exact absurd (cpLast_none k _ hl) hne
  | some j => exact cpBack_ne_nil _ _ _ _ (by simp)

end OsacaVerif.LCD
