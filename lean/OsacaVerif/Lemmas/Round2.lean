import OsacaVerif.Lemmas.Ports
import Mathlib.Data.Rat.Floor
import Mathlib.Tactic.Linarith
import Mathlib.Tactic.NormNum
import Mathlib.Tactic.Ring
/-
  Python `round(x, 2)` (model `Ports.roundHalfEven · 2`) and the 0.01 step of the balancer:
  rounding commutes with adding 1/100 except at exact ties; it is monotone under the step always.
-/
namespace OsacaVerif.Ports
open OsacaVerif

/-- the integer the rounding picks for the scaled value `y = 100·x` -/
def rnd (y : Rat) : Int :=
  if y - y.floor < 1/2 then y.floor
  else if y - y.floor > 1/2 then y.floor + 1
  else (if y.floor % 2 == 0 then y.floor else y.floor + 1)

theorem roundHalfEven_two (x : Rat) : roundHalfEven x 2 = (rnd (x * 100) : Rat) / 100 := by
  have e : (((10 ^ 2 : Nat) : Nat) : Rat) = 100 := by norm_num
  simp only [roundHalfEven, rnd, e]

/-- `x` is not an exact rounding tie at two digits: the fractional part of `100·x` is not ½ -/
def NoTie (x : Rat) : Prop := x * 100 - ((x * 100).floor : Rat) ≠ 1/2

instance (x : Rat) : Decidable (NoTie x) := by unfold NoTie; infer_instance

theorem floor_add_one' (y : Rat) : (y + 1).floor = y.floor + 1 := Int.floor_add_one y

theorem frac_add_one' (y : Rat) : (y + 1) - ((y + 1).floor : Rat) = y - (y.floor : Rat) := by
  rw [floor_add_one']; push_cast; ring

/-- away from ties the rounding commutes with a unit step of the scaled value -/
theorem rnd_add_one (y : Rat) (h : y - (y.floor : Rat) ≠ 1/2) : rnd (y + 1) = rnd y + 1 := by
  unfold rnd
  rw [frac_add_one', floor_add_one']
  by_cases h1 : y - (y.floor : Rat) < 1/2
  · simp only [if_pos h1]
  · have h2 : y - (y.floor : Rat) > 1/2 := lt_of_le_of_ne (not_lt.mp h1) (Ne.symm h)
    simp only [if_neg h1, if_pos h2]

/-- in general (ties included) a unit step of the scaled value moves the rounding by 0, 1 or 2 -/
theorem rnd_add_one_cases (y : Rat) :
    rnd (y + 1) = rnd y ∨ rnd (y + 1) = rnd y + 1 ∨ rnd (y + 1) = rnd y + 2 := by
  by_cases h : y - (y.floor : Rat) = 1/2
  · unfold rnd
    rw [frac_add_one', floor_add_one']
    have h1 : ¬ y - (y.floor : Rat) < 1/2 := by rw [h]; exact lt_irrefl _
    have h2 : ¬ y - (y.floor : Rat) > 1/2 := by rw [h]; exact lt_irrefl _
    simp only [h1, h2, if_false]
    rcases Int.emod_two_eq_zero_or_one y.floor with he | he
    · have he' : (y.floor + 1) % 2 = 1 := by omega
      right; right
      simp [he, he']; ring
    · have he' : (y.floor + 1) % 2 = 0 := by omega
      left
      simp [he, he']
  · exact Or.inr (Or.inl (rnd_add_one y h))

theorem rnd_le_add_one (y : Rat) : rnd y ≤ rnd (y + 1) := by
  rcases rnd_add_one_cases y with h | h | h <;> omega

/-- **key lemma**: for a non-tie `x`, `round(x + 0.01, 2) = round(x, 2) + 0.01` exactly -/
theorem round2_add_inc (x : Rat) (h : NoTie x) :
    roundHalfEven (x + 1/100) 2 = roundHalfEven x 2 + 1/100 := by
  rw [roundHalfEven_two, roundHalfEven_two]
  have e : (x + 1/100) * 100 = x * 100 + 1 := by ring
  rw [e, rnd_add_one _ h]
  push_cast; ring

theorem noTie_sub_inc (x : Rat) (h : NoTie x) : NoTie (x - 1/100) := by
  unfold NoTie at *
  have e : x * 100 = (x - 1/100) * 100 + 1 := by ring
  rw [e, frac_add_one'] at h
  exact h

/-- for a non-tie `x`, `round(x − 0.01, 2) = round(x, 2) − 0.01` exactly -/
theorem round2_sub_inc (x : Rat) (h : NoTie x) :
    roundHalfEven (x - 1/100) 2 = roundHalfEven x 2 - 1/100 := by
  have := round2_add_inc (x - 1/100) (noTie_sub_inc x h)
  rw [sub_add_cancel] at this
  linarith

/-- taking 0.01 away never raises the rounded value (ties included) -/
theorem round2_sub_inc_le (x : Rat) : roundHalfEven (x - 1/100) 2 ≤ roundHalfEven x 2 := by
  rw [roundHalfEven_two, roundHalfEven_two]
  have e : x * 100 = (x - 1/100) * 100 + 1 := by ring
  have h := rnd_le_add_one ((x - 1/100) * 100)
  rw [← e] at h
  have : ((rnd ((x - 1/100) * 100) : Int) : Rat) ≤ ((rnd (x * 100) : Int) : Rat) := by
    exact_mod_cast h
  linarith

/-- rounded values are multiples of 0.01: a strict inequality leaves room for one step -/
theorem round2_lt_step (a b : Rat) (h : roundHalfEven b 2 < roundHalfEven a 2) :
    roundHalfEven b 2 + 1/100 ≤ roundHalfEven a 2 := by
  rw [roundHalfEven_two, roundHalfEven_two] at *
  have h' : ((rnd (b * 100) : Int) : Rat) < ((rnd (a * 100) : Int) : Rat) := by linarith
  have h'' : rnd (b * 100) + 1 ≤ rnd (a * 100) := by exact_mod_cast h'
  have : ((rnd (b * 100) + 1 : Int) : Rat) ≤ ((rnd (a * 100) : Int) : Rat) := by exact_mod_cast h''
  push_cast at this
  linarith

/-! ### maximum of a list by `foldl max` -/

theorem foldl_max_le_iff (l : List Rat) (m B : Rat) :
    l.foldl max m ≤ B ↔ m ≤ B ∧ ∀ x ∈ l, x ≤ B := by
  induction l generalizing m with
  | nil => simp
  | cons a l ih =>
    simp only [List.foldl_cons, ih, max_le_iff, List.mem_cons, forall_eq_or_imp]
    tauto

theorem le_foldl_max (l : List Rat) (m : Rat) : m ≤ l.foldl max m ∧ ∀ x ∈ l, x ≤ l.foldl max m :=
  (foldl_max_le_iff l m _).mp le_rfl

end OsacaVerif.Ports
