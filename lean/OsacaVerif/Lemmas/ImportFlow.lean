import OsacaVerif.Model.Import
/-
  List-level facts about the importer's control flow (C20): the insertion-ordered dict,
  the ibench loop, the asmbench block loop, insertion into the machine model.  Core Lean only.
-/
set_option linter.unusedSimpArgs false
namespace OsacaVerif.Import
open OsacaVerif.Text OsacaVerif.ImportText OsacaVerif.Gen.Import

/-! ### the insertion-ordered dict -/

def keys (acc : Acc) : List Txt := acc.map (·.1)

@[simp] theorem lookup_upsert_self (k : Txt) (e : Entry) (acc : Acc) : lookup k (upsert k e acc) = some e := by
  induction acc with
  | nil => simp [upsert, lookup]
  | cons x r ih =>
    obtain ⟨k', e'⟩ := x
    by_cases h : k' = k <;> simp [upsert, lookup, h, ih]

theorem lookup_upsert_ne (k k' : Txt) (e : Entry) (acc : Acc) (h : k' ≠ k) :
    lookup k' (upsert k e acc) = lookup k' acc := by
  induction acc with
  | nil => simp [upsert, lookup, Ne.symm h]
  | cons x r ih =>
    obtain ⟨k2, e2⟩ := x
    by_cases h2 : k2 = k
    · subst h2; simp [upsert, lookup, Ne.symm h]
    · by_cases h3 : k2 = k'
      · subst h3; simp [upsert, lookup, h2]
      · simp [upsert, lookup, h2, h3, ih]

theorem lookup_isSome_iff (k : Txt) (acc : Acc) : (lookup k acc).isSome = true ↔ k ∈ keys acc := by
  induction acc with
  | nil => simp [lookup, keys]
  | cons x r ih =>
    obtain ⟨k', e'⟩ := x
    by_cases h : k' = k
    · simp [lookup, keys, h]
    · simp only [lookup, h, if_false, ih, keys, List.map_cons, List.mem_cons]
      constructor
      · intro hm; exact Or.inr hm
      · rintro (hm | hm)
        · exact absurd hm.symm h
        · exact hm

theorem keys_upsert (k : Txt) (e : Entry) (acc : Acc) :
    keys (upsert k e acc) = if k ∈ keys acc then keys acc else keys acc ++ [k] := by
  induction acc with
  | nil => simp [upsert, keys]
  | cons x r ih =>
    obtain ⟨k', e'⟩ := x
    by_cases h : k' = k
    · subst h; simp [upsert, keys]
    · have ih' : List.map (fun x => x.1) (upsert k e r) = if k ∈ List.map (fun x => x.1) r then List.map (fun x => x.1) r else List.map (fun x => x.1) r ++ [k] := ih
      simp only [upsert, h, if_false, keys, List.map_cons, List.mem_cons, ih']
      have h' : ¬ k = k' := fun c => h c.symm
      by_cases hm : k ∈ List.map (fun x => x.1) r <;> simp [hm, h']

theorem nodup_keys_upsert (k : Txt) (e : Entry) (acc : Acc) (h : (keys acc).Nodup) :
    (keys (upsert k e acc)).Nodup := by
  rw [keys_upsert]
  split
  · exact h
  · rename_i hm
    rw [List.nodup_append]
    refine ⟨h, by simp, ?_⟩
    intro a ha b hb
    simp only [List.mem_singleton] at hb
    subst hb
    intro hab; subst hab; exact hm ha

theorem mem_iff_lookup (acc : Acc) (h : (keys acc).Nodup) (k : Txt) (e : Entry) :
    (k, e) ∈ acc ↔ lookup k acc = some e := by
  induction acc with
  | nil => simp [lookup]
  | cons x r ih =>
    obtain ⟨k', e'⟩ := x
    simp only [keys, List.map_cons, List.nodup_cons] at h
    have ih' := ih h.2
    by_cases hk : k' = k
    · subst hk
      simp only [lookup, if_true, List.mem_cons, Prod.mk.injEq, true_and, Option.some.injEq]
      constructor
      · rintro (he | hm)
        · exact he.symm
        · exact absurd (List.mem_map_of_mem (f := fun x => x.1) hm) h.1
      · intro he; exact Or.inl he.symm
    · simp only [lookup, hk, if_false, List.mem_cons, Prod.mk.injEq, ← ih']
      constructor
      · rintro (⟨hc, _⟩ | hm)
        · exact absurd hc.symm hk
        · exact hm
      · intro hm; exact Or.inr hm


/-! ### the ibench loop -/

def keyL (l : ILine) : Txt := keyOf l.instr
/-- the validated measurement of a line (`none` also when the number does not parse) -/
def valTp (l : ILine) : Option Rat := l.meas.toOption.bind validateTp
def valLt (l : ILine) : Option Rat := l.meas.toOption.bind validateLt
/-- `l` is a throughput (latency) line of the form with key `k` -/
def relTP (k : Txt) (l : ILine) : Bool := !l.skip && decide (keyL l = k) && isTP l
def relLT (k : Txt) (l : ILine) : Bool := !l.skip && decide (keyL l = k) && isLT l

/-- value after the lines `ls`: that of the LAST relevant line, else the initial one -/
def afterG (p : ILine → Bool) (v : ILine → Option Rat) (init : Option Rat) (ls : List ILine) : Option Rat :=
  match (ls.filter p).getLast? with
  | none => init
  | some l => v l

theorem afterG_nil (p v init) : afterG p v init [] = init := rfl

theorem afterG_cons (p : ILine → Bool) (v init) (l : ILine) (ls : List ILine) :
    afterG p v init (l :: ls) = afterG p v (if p l then v l else init) ls := by
  unfold afterG
  by_cases h : p l = true
  · simp only [List.filter_cons, h, if_true, List.getLast?_cons]
    cases (ls.filter p).getLast? <;> simp
  · simp only [List.filter_cons, h, if_false]
    simp

theorem newEntry_fresh (isa : Isa) (n : Txt) (e : Entry) (h : newEntry isa n = .ok e) :
    e.tp = none ∧ e.lt = none := by
  unfold newEntry at h
  simp only [] at h
  split at h
  · cases h
  · cases hd : decodeAll isa (splitOn ibUnder ‹Txt›) with
    | err x => rw [hd] at h; cases h
    | ok ds => rw [hd] at h; simp only [Res.map] at h; injection h with h; subst h; exact ⟨rfl, rfl⟩

/-- what one successful loop iteration does -/
theorem step_ok (isa : Isa) (acc a : Acc) (l : ILine) (h : step isa acc l = .ok a) :
    (l.skip = true ∧ a = acc) ∨
    (l.skip = false ∧ ∃ e e' : Entry,
      (lookup (keyL l) acc = some e ∨ (lookup (keyL l) acc = none ∧ newEntry isa l.instr = .ok e)) ∧
      a = upsert (keyL l) e' acc ∧ e'.mnemonic = e.mnemonic ∧ e'.operands = e.operands ∧
      e'.tp = (if isTP l then valTp l else e.tp) ∧ e'.lt = (if isLT l then valLt l else e.lt)) := by
  unfold step at h
  by_cases hs : l.skip = true
  · left; simp only [hs, if_true] at h; injection h with h; exact ⟨hs, h.symm⟩
  · right
    have hs' : l.skip = false := by simpa using hs
    refine ⟨hs', ?_⟩
    simp only [hs', Bool.false_eq_true, if_false] at h
    -- the entry the iteration starts from
    have key : ∃ e, ((lookup (keyL l) acc = some e ∨ (lookup (keyL l) acc = none ∧ newEntry isa l.instr = .ok e)) ∧
        (Res.bind (.ok e) fun e =>
          (Res.map (fun e' => upsert (keyOf l.instr) e' acc)
            (if isTP l = true then Res.map (fun m => { e with tp := validateTp m }) l.meas
             else if isLT l = true then Res.map (fun m => { e with lt := validateLt m }) l.meas
             else Res.ok e))) = Res.ok a) := by
      cases hl : lookup (keyOf l.instr) acc with
      | some e =>
        rw [hl] at h
        exact ⟨e, Or.inl hl, h⟩
      | none =>
        rw [hl] at h
        cases hn : newEntry isa l.instr with
        | err x => rw [hn] at h; simp [Res.bind] at h
        | ok e => rw [hn] at h; exact ⟨e, Or.inr ⟨hl, rfl⟩, h⟩
    obtain ⟨e, hsrc, h⟩ := key
    simp only [Res.bind] at h
    by_cases htp : isTP l = true
    · simp only [htp, if_true] at h
      cases hm : l.meas with
      | err x => rw [hm] at h; simp [Res.map] at h
      | ok m =>
        rw [hm] at h; simp only [Res.map] at h; injection h with h
        have hlt : isLT l = false := by simp [isLT, htp]
        refine ⟨e, { e with tp := validateTp m }, hsrc, h.symm, rfl, rfl, ?_, ?_⟩
        · simp [htp, valTp, hm, Res.toOption]
        · simp [hlt]
    · have htp' : isTP l = false := by simpa using htp
      simp only [htp', Bool.false_eq_true, if_false] at h
      by_cases hlt : isLT l = true
      · simp only [hlt, if_true] at h
        cases hm : l.meas with
        | err x => rw [hm] at h; simp [Res.map] at h
        | ok m =>
          rw [hm] at h; simp only [Res.map] at h; injection h with h
          refine ⟨e, { e with lt := validateLt m }, hsrc, h.symm, rfl, rfl, ?_, ?_⟩
          · simp [htp']
          · simp [hlt, valLt, hm, Res.toOption]
      · have hlt' : isLT l = false := by simpa using hlt
        simp only [hlt', Bool.false_eq_true, if_false, Res.map] at h
        injection h with h
        exact ⟨e, e, hsrc, h.symm, rfl, rfl, by simp [htp'], by simp [hlt']⟩


theorem relTP_of_skip (k : Txt) (l : ILine) (h : l.skip = true) : relTP k l = false := by simp [relTP, h]
theorem relLT_of_skip (k : Txt) (l : ILine) (h : l.skip = true) : relLT k l = false := by simp [relLT, h]
theorem relTP_of_ne (k : Txt) (l : ILine) (h : keyL l ≠ k) : relTP k l = false := by simp [relTP, h]
theorem relLT_of_ne (k : Txt) (l : ILine) (h : keyL l ≠ k) : relLT k l = false := by simp [relLT, h]
theorem relTP_self (l : ILine) (h : l.skip = false) : relTP (keyL l) l = isTP l := by simp [relTP, h]
theorem relLT_self (l : ILine) (h : l.skip = false) : relLT (keyL l) l = isLT l := by simp [relLT, h]

/-- the static part and the two measurements of the entry stored under `k`, before/after -/
def Evolves (isa : Isa) (k : Txt) (ls : List ILine) (acc acc' : Acc) : Prop :=
  (∀ e, lookup k acc = some e → ∃ e', lookup k acc' = some e' ∧ e'.mnemonic = e.mnemonic ∧
      e'.operands = e.operands ∧ e'.tp = afterG (relTP k) valTp e.tp ls ∧ e'.lt = afterG (relLT k) valLt e.lt ls) ∧
  (lookup k acc = none →
    (lookup k acc' = none ∧ ∀ l ∈ ls, l.skip = true ∨ keyL l ≠ k) ∨
    (∃ e', lookup k acc' = some e' ∧ e'.tp = afterG (relTP k) valTp none ls ∧
      e'.lt = afterG (relLT k) valLt none ls ∧
      ∃ l ∈ ls, l.skip = false ∧ keyL l = k ∧ ∃ e0, newEntry isa l.instr = .ok e0 ∧
        e'.mnemonic = e0.mnemonic ∧ e'.operands = e0.operands))

/-- **loop invariant of `_get_ibench_output`**, for every key, every accumulator, every sequence -/
theorem run_evolves (isa : Isa) (ls : List ILine) :
    ∀ acc acc', run isa ls acc = .ok acc' → ∀ k, Evolves isa k ls acc acc' := by
  induction ls with
  | nil =>
    intro acc acc' h k
    simp only [run] at h; injection h with h; subst h
    refine ⟨fun e he => ⟨e, he, rfl, rfl, rfl, rfl⟩, fun hn => Or.inl ⟨hn, by simp⟩⟩
  | cons l ls ih =>
    intro acc acc' h k
    simp only [run] at h
    cases hst : step isa acc l with
    | err x => rw [hst] at h; cases h
    | ok a =>
      rw [hst] at h
      have IH := ih a acc' h k
      -- a line that does not concern `k` leaves the entry of `k` alone
      have pass : lookup k a = lookup k acc → relTP k l = false → relLT k l = false →
          (l.skip = true ∨ keyL l ≠ k) → Evolves isa k (l :: ls) acc acc' := by
        intro hl h1 h2 hirr
        refine ⟨?_, ?_⟩
        · intro e he
          obtain ⟨e', a1, a2, a3, a4, a5⟩ := IH.1 e (hl ▸ he)
          refine ⟨e', a1, a2, a3, ?_, ?_⟩
          · rw [afterG_cons, h1]; simpa using a4
          · rw [afterG_cons, h2]; simpa using a5
        · intro hn
          rcases IH.2 (hl ▸ hn) with ⟨b1, b2⟩ | ⟨e', b1, b2, b3, l', hl', b4⟩
          · left; refine ⟨b1, ?_⟩
            intro x hx
            rcases List.mem_cons.mp hx with rfl | hx
            · exact hirr
            · exact b2 x hx
          · right
            refine ⟨e', b1, ?_, ?_, l', List.mem_cons_of_mem _ hl', b4⟩
            · rw [afterG_cons, h1]; simpa using b2
            · rw [afterG_cons, h2]; simpa using b3
      rcases step_ok isa acc a l hst with ⟨hs, ha⟩ | ⟨hs, e, e', hsrc, ha, hm, ho, htp, hlt⟩
      · subst ha
        exact pass rfl (relTP_of_skip k l hs) (relLT_of_skip k l hs) (Or.inl hs)
      · by_cases hk : keyL l = k
        · subst hk
          have hla : lookup (keyL l) a = some e' := by rw [ha]; exact lookup_upsert_self _ _ _
          obtain ⟨e'', c1, c2, c3, c4, c5⟩ := IH.1 e' hla
          have t4 : e''.tp = afterG (relTP (keyL l)) valTp e.tp (l :: ls) := by
            rw [afterG_cons, relTP_self l hs, c4, htp]
          have t5 : e''.lt = afterG (relLT (keyL l)) valLt e.lt (l :: ls) := by
            rw [afterG_cons, relLT_self l hs, c5, hlt]
          rcases hsrc with hsome | ⟨hnone, hnew⟩
          · refine ⟨?_, ?_⟩
            · intro e1 he1
              rw [hsome] at he1; injection he1 with he1; subst he1
              exact ⟨e'', c1, c2.trans hm, c3.trans ho, t4, t5⟩
            · intro hn; rw [hsome] at hn; cases hn
          · refine ⟨?_, ?_⟩
            · intro e1 he1; rw [hnone] at he1; cases he1
            · intro _
              right
              obtain ⟨f1, f2⟩ := newEntry_fresh isa _ e hnew
              refine ⟨e'', c1, ?_, ?_, l, List.mem_cons_self, hs, rfl, e, hnew, c2.trans hm, c3.trans ho⟩
              · rw [t4, f1]
              · rw [t5, f2]
        · have hl : lookup k a = lookup k acc := by
            rw [ha]; exact lookup_upsert_ne _ _ _ _ (fun c => hk c.symm)
          exact pass hl (relTP_of_ne k l hk) (relLT_of_ne k l hk) (Or.inr hk)

/-- keys stay pairwise distinct -/
theorem run_nodup (isa : Isa) (ls : List ILine) :
    ∀ acc acc', run isa ls acc = .ok acc' → (keys acc).Nodup → (keys acc').Nodup := by
  induction ls with
  | nil => intro acc acc' h hn; simp only [run] at h; injection h with h; subst h; exact hn
  | cons l ls ih =>
    intro acc acc' h hn
    simp only [run] at h
    cases hst : step isa acc l with
    | err x => rw [hst] at h; cases h
    | ok a =>
      rw [hst] at h
      refine ih a acc' h ?_
      rcases step_ok isa acc a l hst with ⟨_, ha⟩ | ⟨_, e, e', _, ha, _⟩
      · subst ha; exact hn
      · rw [ha]; exact nodup_keys_upsert _ _ _ hn


/-! ### the asmbench block loop -/

/-- a block the loop accepts: full length, blank last line -/
def GoodShape (b : List Txt) : Prop := b.length = abStep ∧ strip (b.getD abBlank []) = []
/-- what makes the loop stop: end of file, a short block, or a non-blank fourth line -/
def BadStart (rest : List Txt) : Prop := rest.length ≤ abBlank ∨ strip (rest.getD abBlank []) ≠ []

/-- the entries of a list of blocks, in order, later blocks of the same name overwriting -/
def foldBlocks (isa : Isa) : List (List Txt) → Acc → Res Acc
  | [], acc => .ok acc
  | b :: bs, acc =>
    match blockEntry isa b with
    | .err e => .err e
    | .ok (k, e) => foldBlocks isa bs (upsert k e acc)

theorem asmGo_stop (isa : Isa) (fuel : Nat) (rest : List Txt) (acc : Acc) (hb : BadStart rest) :
    asmGo isa fuel rest acc = .ok acc := by
  cases fuel with
  | zero => rfl
  | succ f =>
    unfold asmGo
    by_cases he : rest.isEmpty = true
    · simp [he]
    · simp only [he, Bool.false_eq_true, if_false]
      rcases hb with hb | hb
      · simp [hb, abGuard]
      · by_cases hl : rest.length ≤ abBlank
        · simp [hl, abGuard]
        · simp only [hl, if_false]
          have : (strip (rest.getD abBlank [])).isEmpty = false := by
            cases hs : strip (rest.getD abBlank []) with
            | nil => exact absurd hs hb
            | cons _ _ => rfl
          simp only [this, Bool.not_false, if_true]

theorem asmGo_blocks (isa : Isa) (bs : List (List Txt)) :
    ∀ (rest : List Txt) (acc : Acc) (fuel : Nat), (bs.flatten ++ rest).length ≤ fuel →
      (∀ b ∈ bs, GoodShape b) → BadStart rest →
      asmGo isa fuel (bs.flatten ++ rest) acc = foldBlocks isa bs acc := by
  induction bs with
  | nil =>
    intro rest acc fuel _ _ hb
    simpa [foldBlocks] using asmGo_stop isa fuel rest acc hb
  | cons b bs ih =>
    intro rest acc fuel hf hg hb
    obtain ⟨hlen, hblank⟩ := hg b List.mem_cons_self
    have hlen4 : b.length = 4 := hlen
    simp only [List.flatten_cons, List.append_assoc] at hf ⊢
    cases fuel with
    | zero => simp [hlen4] at hf
    | succ f =>
      unfold asmGo
      have hne : (b ++ (bs.flatten ++ rest)).isEmpty = false := by
        cases b with
        | nil => simp at hlen4
        | cons _ _ => rfl
      have hlong : ¬ (b ++ (bs.flatten ++ rest)).length ≤ abBlank := by
        simp only [List.length_append, hlen4, abBlank]; omega
      have hget : (b ++ (bs.flatten ++ rest)).getD abBlank [] = b.getD abBlank [] := by
        simp only [List.getD_eq_getElem?_getD]
        rw [List.getElem?_append_left (by simp [hlen4, abBlank])]
      have htake : (b ++ (bs.flatten ++ rest)).take abStep = b := List.take_left' hlen
      have hdrop : (b ++ (bs.flatten ++ rest)).drop abStep = bs.flatten ++ rest := List.drop_left' hlen
      simp only [hne, Bool.false_eq_true, if_false, hlong, hget, hblank, List.isEmpty_nil, Bool.not_true,
        htake, hdrop, foldBlocks]
      cases hbe : blockEntry isa b with
      | err x => rfl
      | ok ke =>
        obtain ⟨k, e⟩ := ke
        simp only []
        refine ih rest (upsert k e acc) f ?_ (fun b' hb' => hg b' (List.mem_cons_of_mem _ hb')) hb
        simp only [List.length_append, hlen4] at hf ⊢
        omega

/-! ### insertion into the machine model -/

theorem matchArity_eq (isa : Isa) (a b : Nat) (h : matchArity isa a b = true) : a = b := by
  simp only [matchArity, Bool.and_eq_true, beq_iff_eq] at h; exact h.1

theorem matchArity_a64 (a b : Nat) (hb : b ≠ 0) : matchArity .a64 a b = false := by
  unfold matchArity
  by_cases h : a = b
  · subst h; simp [hb]
  · simp [h]

theorem findAdded_none (isa : Isa) (K : Txt) (ar : Nat) (l : List (Txt × Entry))
    (h : ∀ y ∈ l, ¬ (y.1 = K ∧ matchArity isa y.2.operands.length ar = true)) (j : Nat) :
    findAdded isa K ar l j = none := by
  induction l generalizing j with
  | nil => rfl
  | cons y r ih =>
    obtain ⟨k, e⟩ := y
    unfold findAdded
    have h1 := h (k, e) List.mem_cons_self
    simp only [] at h1
    rw [if_neg h1]
    exact ih (fun y hy => h y (List.mem_cons_of_mem _ hy)) (j + 1)

/-- a look-up that finds nothing, in terms of names and operand counts only -/
theorem lookupIdx_miss (isa : Isa) (st : MState) (name : Txt) (ar : Nat)
    (h1 : ∀ x ∈ st.existing, ¬ (x.1 = upper name ∧ matchArity isa x.2 ar = true))
    (h2 : ∀ y ∈ st.added, ¬ (y.1 = upper name ∧ matchArity isa y.2.operands.length ar = true)) :
    lookupIdx isa st name ar = .miss := by
  unfold lookupIdx
  have : (st.existing.any fun x => decide (x.1 = upper name ∧ matchArity isa x.2 ar = true)) = false := by
    rw [List.any_eq_false]
    intro x hx; simpa using h1 x hx
  simp only [this, Bool.false_eq_true, if_false, findAdded_none isa (upper name) ar st.added h2 0]

theorem insert_miss (isa : Isa) (st : MState) (e : Entry)
    (h : lookupIdx isa st e.mnemonic e.operands.length = .miss) :
    insert isa st e = { st with added := st.added ++ [(e.mnemonic, e)] } := by
  unfold insert; rw [h]

/-- a form of the target model with the same (upper-cased) mnemonic and operand count swallows the
    imported form on x86: the state `dump` reads is unchanged (defect D11, for every state) -/
theorem insert_x86_existing_invisible (st : MState) (e : Entry)
    (h : ∃ x ∈ st.existing, x.1 = upper e.mnemonic ∧ x.2 = e.operands.length) :
    insert .x86 st e = st := by
  obtain ⟨x, hx, h1, h2⟩ := h
  unfold insert lookupIdx
  have : (st.existing.any fun x => decide (x.1 = upper e.mnemonic ∧ matchArity .x86 x.2 e.operands.length = true)) = true := by
    rw [List.any_eq_true]
    exact ⟨x, hx, by simp [h1, h2, matchArity]⟩
  rw [if_pos this]


/-- the (index key, operand count) pair `K, a` would be found by the look-up of `e` -/
def Collide (K : Txt) (a : Nat) (e : Entry) : Prop := K = upper e.mnemonic ∧ a = e.operands.length

theorem insertAll_cons (isa : Isa) (st : MState) (e : Entry) (es : List Entry) :
    insertAll isa st (e :: es) = insertAll isa (insert isa st e) es := rfl

/-- without collisions every entry is appended, in order, whatever the ISA -/
theorem insertAll_no_collision (isa : Isa) (es : List Entry) :
    ∀ st : MState,
      (∀ e ∈ es, ∀ x ∈ st.existing, ¬ Collide x.1 x.2 e) →
      (∀ e ∈ es, ∀ y ∈ st.added, ¬ Collide y.1 y.2.operands.length e) →
      es.Pairwise (fun e1 e2 => ¬ Collide e1.mnemonic e1.operands.length e2) →
      (insertAll isa st es).existing = st.existing ∧
      (insertAll isa st es).added = st.added ++ es.map (fun e => (e.mnemonic, e)) := by
  induction es with
  | nil => intro st _ _ _; simp [insertAll]
  | cons e es ih =>
    intro st h1 h2 h3
    rw [insertAll_cons]
    have hmiss : lookupIdx isa st e.mnemonic e.operands.length = .miss := by
      apply lookupIdx_miss
      · intro x hx ⟨c1, c2⟩
        exact h1 e List.mem_cons_self x hx ⟨c1, matchArity_eq isa _ _ c2⟩
      · intro y hy ⟨c1, c2⟩
        exact h2 e List.mem_cons_self y hy ⟨c1, matchArity_eq isa _ _ c2⟩
    rw [insert_miss isa st e hmiss]
    rw [List.pairwise_cons] at h3
    have := ih { st with added := st.added ++ [(e.mnemonic, e)] }
      (fun e' he' x hx => h1 e' (List.mem_cons_of_mem _ he') x hx)
      (by
        intro e' he' y hy
        rcases List.mem_append.mp hy with hy | hy
        · exact h2 e' (List.mem_cons_of_mem _ he') y hy
        · simp only [List.mem_singleton] at hy; subst hy
          exact h3.1 e' he')
      h3.2
    refine ⟨this.1, ?_⟩
    rw [this.2]; simp

/-- AArch64: DB-format operands never match, so every imported form is appended -/
theorem insertAll_a64 (es : List Entry) :
    ∀ st : MState, (∀ e ∈ es, e.operands ≠ []) →
      (insertAll .a64 st es).existing = st.existing ∧
      (insertAll .a64 st es).added = st.added ++ es.map (fun e => (e.mnemonic, e)) := by
  induction es with
  | nil => intro st _; simp [insertAll]
  | cons e es ih =>
    intro st h
    rw [insertAll_cons]
    have hne : e.operands.length ≠ 0 := by
      have := h e List.mem_cons_self
      cases ho : e.operands with
      | nil => exact absurd ho this
      | cons _ _ => simp
    have hmiss : lookupIdx .a64 st e.mnemonic e.operands.length = .miss := by
      apply lookupIdx_miss
      · intro x _ ⟨_, c2⟩; rw [matchArity_a64 _ _ hne] at c2; cases c2
      · intro y _ ⟨_, c2⟩; rw [matchArity_a64 _ _ hne] at c2; cases c2
    rw [insert_miss .a64 st e hmiss]
    have := ih { st with added := st.added ++ [(e.mnemonic, e)] } (fun e' he' => h e' (List.mem_cons_of_mem _ he'))
    refine ⟨this.1, ?_⟩
    rw [this.2]; simp

/-! ### every parsed entry has at least one operand -/

theorem splitOn_ne_nil (sep : Nat) (t : Txt) : splitOn sep t ≠ [] := by
  induction t with
  | nil => simp [splitOn]
  | cons c cs ih =>
    unfold splitOn
    split
    · simp
    · split
      · simp
      · simp

theorem decodeAll_length (isa : Isa) (cs : List Txt) (ds : List Dict) (h : decodeAll isa cs = .ok ds) :
    ds.length = cs.length := by
  induction cs generalizing ds with
  | nil => simp only [decodeAll] at h; injection h with h; subst h; rfl
  | cons c cs ih =>
    simp only [decodeAll] at h
    split at h
    · cases h
    · split at h
      · injection h with h; subst h; simp [ih _ ‹_›]
      · cases h

theorem newEntry_operands_ne (isa : Isa) (n : Txt) (e : Entry) (h : newEntry isa n = .ok e) :
    e.operands ≠ [] := by
  unfold newEntry at h
  simp only [] at h
  split at h
  · cases h
  · rename_i ops _
    cases hd : decodeAll isa (splitOn ibUnder ops) with
    | err x => rw [hd] at h; cases h
    | ok ds =>
      rw [hd] at h; simp only [Res.map] at h; injection h with h; subst h
      have hl := decodeAll_length isa _ ds hd
      have hn := splitOn_ne_nil ibUnder ops
      intro hc
      simp only [] at hc
      rw [hc] at hl
      cases hs : splitOn ibUnder ops with
      | nil => exact hn hs
      | cons _ _ => rw [hs] at hl; simp at hl

theorem mem_upsert (k : Txt) (e : Entry) (acc : Acc) (p : Txt × Entry) (h : p ∈ upsert k e acc) :
    p = (k, e) ∨ p ∈ acc := by
  induction acc with
  | nil => simp [upsert] at h; exact Or.inl h
  | cons x r ih =>
    obtain ⟨k', e'⟩ := x
    unfold upsert at h
    split at h
    · rcases List.mem_cons.mp h with h | h
      · exact Or.inl h
      · exact Or.inr (List.mem_cons_of_mem _ h)
    · rcases List.mem_cons.mp h with h | h
      · exact Or.inr (h ▸ List.mem_cons_self)
      · rcases ih h with h | h
        · exact Or.inl h
        · exact Or.inr (List.mem_cons_of_mem _ h)

theorem mem_of_lookup (k : Txt) (e : Entry) (acc : Acc) (h : lookup k acc = some e) : (k, e) ∈ acc := by
  induction acc with
  | nil => simp [lookup] at h
  | cons x r ih =>
    obtain ⟨k', e'⟩ := x
    unfold lookup at h
    split at h
    · rename_i hk; injection h with h; subst h; subst hk; exact List.mem_cons_self
    · exact List.mem_cons_of_mem _ (ih h)

theorem run_operands_ne (isa : Isa) (ls : List ILine) :
    ∀ acc acc', run isa ls acc = .ok acc' → (∀ p ∈ acc, p.2.operands ≠ []) → ∀ p ∈ acc', p.2.operands ≠ [] := by
  induction ls with
  | nil => intro acc acc' h hn; simp only [run] at h; injection h with h; subst h; exact hn
  | cons l ls ih =>
    intro acc acc' h hn
    simp only [run] at h
    cases hst : step isa acc l with
    | err x => rw [hst] at h; cases h
    | ok a =>
      rw [hst] at h
      refine ih a acc' h ?_
      rcases step_ok isa acc a l hst with ⟨_, ha⟩ | ⟨_, e, e', hsrc, ha, _, ho, _⟩
      · subst ha; exact hn
      · intro p hp
        rw [ha] at hp
        rcases mem_upsert _ _ _ _ hp with hp | hp
        · subst hp
          simp only []
          rw [ho]
          rcases hsrc with hs | ⟨_, hnew⟩
          · exact hn _ (mem_of_lookup _ _ _ hs)
          · exact newEntry_operands_ne isa _ e hnew
        · exact hn p hp

theorem blockEntry_operands_ne (isa : Isa) (blk : List Txt) (k : Txt) (e : Entry)
    (h : blockEntry isa blk = .ok (k, e)) : e.operands ≠ [] := by
  unfold blockEntry at h
  simp only [] at h
  cases hn : newEntry isa (strip (blk.getD abName [])) with
  | err x => rw [hn] at h; cases h
  | ok e0 =>
    rw [hn] at h
    simp only [Res.bind] at h
    cases ht : measurement abTok (blk.getD abTp []) with
    | err x => rw [ht] at h; cases h
    | ok t =>
      rw [ht] at h
      simp only [] at h
      cases hl : measurement abTok (blk.getD abLat []) with
      | err x => rw [hl] at h; cases h
      | ok l =>
        rw [hl] at h
        simp only [Res.map] at h
        injection h with h
        injection h with h1 h2
        subst h2
        exact newEntry_operands_ne isa _ e0 hn

theorem asmGo_operands_ne (isa : Isa) (fuel : Nat) :
    ∀ lines acc acc', asmGo isa fuel lines acc = .ok acc' → (∀ p ∈ acc, p.2.operands ≠ []) →
      ∀ p ∈ acc', p.2.operands ≠ [] := by
  induction fuel with
  | zero => intro lines acc acc' h hn; simp only [asmGo] at h; injection h with h; subst h; exact hn
  | succ f ih =>
    intro lines acc acc' h hn
    unfold asmGo at h
    split at h
    · injection h with h; subst h; exact hn
    · split at h
      · split at h
        · injection h with h; subst h; exact hn
        · cases h
      · split at h
        · injection h with h; subst h; exact hn
        · split at h
          · cases h
          · rename_i k e hbe
            refine ih _ _ acc' h ?_
            intro p hp
            rcases mem_upsert _ _ _ _ hp with hp | hp
            · subst hp; exact blockEntry_operands_ne isa _ k e hbe
            · exact hn p hp

end OsacaVerif.Import
