import OsacaVerif.Lemmas.A64Shimm
/-
  Floating-point immediates `#1.5`, `-0.25e-3`, `#2.0f`, `1.0E+2F`.
-/
namespace OsacaVerif.ParseA64
open OsacaVerif.Text OsacaVerif.Spec.A64 OsacaVerif.Gen

/-- a non-empty string of decimal digits -/
def Digits (t : Txt) : Prop := t ≠ [] ∧ ∀ c ∈ t, isDigitC c = true

theorem Digits.cons {t : Txt} (h : Digits t) : ∃ d ds, t = d :: ds ∧ ∀ c ∈ d :: ds, isDigitC c = true := by
  obtain ⟨hne, hall⟩ := h
  cases t with
  | nil => exact absurd rfl hne
  | cons d ds => exact ⟨d, ds, rfl, hall⟩

theorem mantissaNS_text (ip fp R : Txt) (hip : Digits ip) (hfp : Digits fp) (hR : StopsAt isDigitC R) :
    mantissaNS (ip ++ 46 :: (fp ++ R)) = some (ip ++ 46 :: fp, R) := by
  obtain ⟨a, as, rfl, ha⟩ := hip.cons
  obtain ⟨b, bs, rfl, hb⟩ := hfp.cons
  have h46 : StopsAt isDigitC (46 :: (b :: bs ++ R)) := by intro c r h; simp at h; rw [← h.1]; decide
  have h1 := wordNS_append isDigitC a as _ ha h46
  have h2 := wordNS_append isDigitC b bs R hb hR
  simp only [List.cons_append] at h1 h2 ⊢
  simp only [mantissaNS, h1, h2, mapR_some]
  rfl

theorem mantissa_text (neg : Bool) (ip fp R : Txt) (hip : Digits ip) (hfp : Digits fp) (hR : StopsAt isDigitC R) :
    mantissa (optNeg neg ++ (ip ++ 46 :: (fp ++ R))) = some (optNeg neg ++ (ip ++ 46 :: fp), R) := by
  obtain ⟨a, as, hipe, ha⟩ := hip.cons
  have haws := digit_not_ws a (ha a (by simp))
  have hab := digit_bounds a (ha a (by simp))
  cases neg with
  | true =>
    simp only [optNeg, if_true, List.cons_append, List.nil_append, mantissa, skipWs_cons 45 _ (by decide : isWs 45 = false),
      mantissaNS_text ip fp R hip hfp hR, mapR_some]
  | false =>
    simp only [optNeg, Bool.false_eq_true, if_false, List.nil_append, mantissa]
    rw [hipe, List.cons_append, skipWs_cons a _ haws]
    split
    · rename_i r h; simp at h; omega
    · rw [← List.cons_append, ← hipe]; exact mantissaNS_text ip fp R hip hfp hR

/-- exponent part as written: letter, sign, digits -/
def expText (e : Option (Nat × Nat × Txt)) : Txt :=
  match e with
  | some x => x.1 :: x.2.1 :: x.2.2
  | none => []

def ExpOk (e : Option (Nat × Nat × Txt)) : Prop :=
  ∀ x, e = some x → lowerC x.1 = 101 ∧ isSignC x.2.1 = true ∧ Digits x.2.2

def expTok (e : Option (Nat × Nat × Txt)) : Option (Txt × Txt) :=
  match e with
  | some x => some ([x.2.1], x.2.2)
  | none => none

theorem exponent_text (x : Nat × Nat × Txt) (R : Txt) (he : lowerC x.1 = 101) (hs : isSignC x.2.1 = true)
    (hd : Digits x.2.2) (hR : StopsAt isDigitC R) :
    exponent (x.1 :: x.2.1 :: (x.2.2 ++ R)) = some (([x.2.1], x.2.2), R) := by
  obtain ⟨d, ds, hde, hdall⟩ := hd.cons
  have hews : isWs x.1 = false := alpha_not_ws x.1 (alpha_of_lowerC_alpha x.1 (by rw [he]; decide))
  have hsws : isWs x.2.1 = false := by
    simp only [isSignC, isWs] at *; simp at *; omega
  have hdws := digit_not_ws d (hdall d (by simp))
  have hcl : clit true [101] (x.1 :: x.2.1 :: (x.2.2 ++ R)) = some (x.2.1 :: (x.2.2 ++ R)) := by
    simp [clit, sk_true, skipWs_cons x.1 _ hews, dropPrefixCI, he]
  have hsg : word true isSignC (x.2.1 :: (x.2.2 ++ R)) = some ([x.2.1], x.2.2 ++ R) := by
    simp only [word, sk_true, skipWs_cons x.2.1 _ hsws]
    have hstop : StopsAt isSignC (x.2.2 ++ R) := by
      intro c r h
      rw [hde] at h; simp at h; rw [← h.1]
      have := digit_bounds d (hdall d (by simp))
      simp only [isSignC]; simp; omega
    have := wordNS_append isSignC x.2.1 [] _ (by simpa using hs) hstop
    simpa using this
  have hdg : word true isDigitC (x.2.2 ++ R) = some (x.2.2, R) := by
    simp only [word, sk_true]
    rw [hde, List.cons_append, skipWs_cons d _ hdws]
    exact wordNS_append isDigitC d ds R hdall hR
  simp only [exponent, hcl, hsg, hdg, mapR_some]

theorem exponent_none (R : Txt) (h : clit true [101] R = none) : exponent R = none := by
  simp [exponent, h]

theorem clit_none_follow (l : Txt) (a : Nat) (rest : Txt) (hf : Follow rest) (ha : a ≠ 44 ∧ a ≠ 47 ∧ a ≠ 93) :
    clit true (a :: l) rest = none := by
  simp only [clit, sk_true]
  cases hs : skipWs rest with
  | nil => rfl
  | cons c r =>
    have : lowerC c ≠ a := by
      rcases hf.next c r hs with rfl | rfl | rfl <;> simp [lowerC] <;> omega
    simp [dropPrefixCI, this]

/-- suffix letter `f`/`F` as written -/
def fText (f : Option Nat) : Txt :=
  match f with
  | some c => [c]
  | none => []

def FOk (f : Option Nat) : Prop := ∀ c, f = some c → lowerC c = 102

/-- the part of the text behind `#` -/
def fltBody (neg : Bool) (ip fp : Txt) (e : Option (Nat × Nat × Txt)) (f : Option Nat) : Txt :=
  optNeg neg ++ (ip ++ 46 :: (fp ++ (expText e ++ fText f)))

def fltTok (neg : Bool) (ip fp : Txt) (e : Option (Nat × Nat × Txt)) (f : Option Nat) : ImmTok :=
  .flt f.isNone (optNeg neg ++ (ip ++ 46 :: fp)) (expTok e)

/-- exponent (if written) and what is left in front of the optional `f` -/
theorem optP_exponent (e : Option (Nat × Nat × Txt)) (he : ExpOk e) (F : Txt)
    (hF : StopsAt isDigitC F) (hFe : clit true [101] F = none) :
    ∃ r, optP true exponent (expText e ++ F) = (expTok e, r) ∧ skipWs r = skipWs F ∧
      (r = F ∨ r = skipWs F) := by
  cases e with
  | none =>
    refine ⟨skipWs F, ?_, skipWs_idem F, Or.inr rfl⟩
    simp [expText, expTok, optP_none true exponent _ (exponent_none F hFe), sk_true]
  | some x =>
    obtain ⟨h1, h2, h3⟩ := he x rfl
    refine ⟨F, ?_, rfl, Or.inl rfl⟩
    have := exponent_text x F h1 h2 h3 hF
    simp only [expText, expTok, List.cons_append, List.append_assoc]
    rw [optP_some true exponent _ _ _ this]

structure FltOk (ip fp : Txt) (e : Option (Nat × Nat × Txt)) (f : Option Nat) : Prop where
  ip : Digits ip
  fp : Digits fp
  e : ExpOk e
  f : FOk f

theorem lowerC_101_alpha (c : Nat) (h : lowerC c = 101 ∨ lowerC c = 102) : isAlphaC c = true ∧ isDigitC c = false := by
  have hal : isAlphaC c = true := alpha_of_lowerC_alpha c (by rcases h with h | h <;> rw [h] <;> decide)
  exact ⟨hal, alpha_not_digit c hal⟩

/-- **floating-point immediate** as the grammar reads it -/
theorem immediate_flt (g : Txt) (hash neg : Bool) (ip fp : Txt) (e : Option (Nat × Nat × Txt)) (f : Option Nat)
    (rest : Txt) (hg : Blank g) (hok : FltOk ip fp e f) (hf : Follow rest) :
    ∃ r', immediate (g ++ (optHash hash ++ (fltBody neg ip fp e f ++ rest))) = some (fltTok neg ip fp e f, r') ∧
      skipWs r' = skipWs rest := by
  obtain ⟨a, as, hipe, ha⟩ := hok.ip.cons
  have hab := digit_bounds a (ha a (by simp))
  have haws := digit_not_ws a (ha a (by simp))
  -- F: the optional `f` and the rest; R: exponent, `f`, rest
  have hFstop : StopsAt isDigitC (fText f ++ rest) := by
    cases f with
    | none => simpa [fText] using hf.stops isDigitC rest (by decide)
    | some c =>
      intro c' r h; simp [fText] at h; rw [← h.1]
      exact (lowerC_101_alpha c (Or.inr (hok.f c rfl))).2
  have hFe : clit true [101] (fText f ++ rest) = none := by
    cases f with
    | none => simpa [fText] using clit_none_follow [] 101 rest hf (by omega)
    | some c =>
      have hcws := alpha_not_ws c (lowerC_101_alpha c (Or.inr (hok.f c rfl))).1
      have : lowerC c ≠ 101 := by rw [hok.f c rfl]; omega
      simp [fText, clit, sk_true, skipWs_cons c _ hcws, dropPrefixCI, this]
  have hRstop : StopsAt isDigitC (expText e ++ (fText f ++ rest)) := by
    cases e with
    | none => simpa [expText] using hFstop
    | some x =>
      intro c' r h; simp [expText] at h; rw [← h.1]
      exact (lowerC_101_alpha x.1 (Or.inl (hok.e x rfl).1)).2
  obtain ⟨rE, hexp, hskE, hrE⟩ := optP_exponent e hok.e (fText f ++ rest) hFstop hFe
  have hX : fltBody neg ip fp e f ++ rest = optNeg neg ++ (ip ++ 46 :: (fp ++ (expText e ++ (fText f ++ rest)))) := by
    simp [fltBody, List.append_assoc]
  rw [hX]
  have hmant := mantissa_text neg ip fp _ hok.ip hok.fp hRstop
  -- first character of the body
  have hhead : ∃ c t, optNeg neg ++ (ip ++ 46 :: (fp ++ (expText e ++ (fText f ++ rest)))) = c :: t ∧ isWs c = false ∧ c ≠ 35 := by
    cases neg with
    | true => exact ⟨45, ip ++ 46 :: (fp ++ (expText e ++ (fText f ++ rest))), by simp [optNeg], by decide, by decide⟩
    | false => exact ⟨a, as ++ 46 :: (fp ++ (expText e ++ (fText f ++ rest))), by simp [optNeg, hipe], haws, by omega⟩
  obtain ⟨c0, t0, hc0, hc0ws, hc035⟩ := hhead
  have hopt : optLit true A64.immSym (g ++ (optHash hash ++ (optNeg neg ++ (ip ++ 46 :: (fp ++ (expText e ++ (fText f ++ rest))))))) =
      optNeg neg ++ (ip ++ 46 :: (fp ++ (expText e ++ (fText f ++ rest)))) := by
    rw [hc0]; exact optLit_hash g hash c0 t0 hg hc0ws hc035
  have hs46 : StopsAt (fun c => c == 48 || c == 120) (46 :: (fp ++ (expText e ++ (fText f ++ rest)))) := by
    intro c r h; simp at h; rw [← h.1]; decide
  have hd46 : StopsAt isDigitC (46 :: (fp ++ (expText e ++ (fText f ++ rest)))) := by
    intro c r h; simp at h; rw [← h.1]; decide
  have hipall : ∀ c ∈ ip, isDigitC c = true := hok.ip.2
  have hhex : hexNum (optNeg neg ++ (ip ++ 46 :: (fp ++ (expText e ++ (fText f ++ rest))))) = none := by
    have hdp := dropPrefix_hex_digits ip _ hipall hs46
    cases neg with
    | true =>
      simp only [optNeg, if_true, List.cons_append, List.nil_append, hexNum, skipWs_cons 45 _ (by decide : isWs 45 = false),
        hexNumNS, hdp]
    | false =>
      simp only [optNeg, Bool.false_eq_true, if_false, List.nil_append, hexNum]
      rw [hipe, List.cons_append] at hdp ⊢
      simp only [skipWs_cons a _ haws, hexNumNS]
      split
      · rename_i r h; simp at h; omega
      · simp [hdp]
  have hdec : decNum (optNeg neg ++ (ip ++ 46 :: (fp ++ (expText e ++ (fText f ++ rest))))) =
      some (optNeg neg ++ ip, 46 :: (fp ++ (expText e ++ (fText f ++ rest)))) := by
    have hw := wordNS_append isDigitC a as _ ha hd46
    cases neg with
    | true =>
      simp only [optNeg, if_true, List.cons_append, List.nil_append, decNum, skipWs_cons 45 _ (by decide : isWs 45 = false),
        decNumNS]
      rw [hipe, List.cons_append, hw]; rfl
    | false =>
      simp only [optNeg, Bool.false_eq_true, if_false, List.nil_append, decNum]
      rw [hipe, List.cons_append]
      simp only [skipWs_cons a _ haws, decNumNS]
      split
      · rename_i r h; simp at h; omega
      · exact hw
  have hdouble : doubleP (optNeg neg ++ (ip ++ 46 :: (fp ++ (expText e ++ (fText f ++ rest))))) =
      some (.flt true (optNeg neg ++ (ip ++ 46 :: fp)) (expTok e), rE) := by
    simp only [doubleP, hmant, hexp]
  have hlenE : rE.length ≤ (fText f ++ rest).length := by
    rcases hrE with h | h <;> rw [h]
    · exact Nat.le_refl _
    · exact skipWs_length_le _
  have hdeclen : (fText f ++ rest).length < (46 :: (fp ++ (expText e ++ (fText f ++ rest)))).length := by
    simp; omega
  cases f with
  | none =>
    have hfl : floatP (optNeg neg ++ (ip ++ 46 :: (fp ++ (expText e ++ (fText none ++ rest))))) = none := by
      have : clit true [102] rE = none := by
        rw [← clit_skip, hskE, clit_skip]
        simpa [fText] using clit_none_follow [] 102 rest hf (by omega)
      simp only [floatP, hmant, hexp, this]
    refine ⟨rE, ?_, by simpa [fText] using hskE⟩
    simp only [immediate, hopt, hhex, hdec, hfl, hdouble, mapR_none, mapR_some, better_none_left, better_none_right]
    rw [better_some_lt _ _ _ _ (Nat.lt_of_le_of_lt hlenE hdeclen)]
    simp [fltTok]
  | some c =>
    have hcal := (lowerC_101_alpha c (Or.inr (hok.f c rfl))).1
    have hcws := alpha_not_ws c hcal
    have hrEeq : rE = c :: rest := by
      rcases hrE with h | h
      · simpa [fText] using h
      · rw [h]; simp [fText, skipWs_cons c _ hcws]
    have hfl : floatP (optNeg neg ++ (ip ++ 46 :: (fp ++ (expText e ++ (fText (some c) ++ rest))))) =
        some (.flt false (optNeg neg ++ (ip ++ 46 :: fp)) (expTok e), rest) := by
      have : clit true [102] rE = some rest := by
        rw [hrEeq]; simp [clit, sk_true, skipWs_cons c _ hcws, dropPrefixCI, hok.f c rfl]
      simp only [floatP, hmant, hexp, this]
    refine ⟨rest, ?_, rfl⟩
    have h1 : rest.length < (46 :: (fp ++ (expText e ++ (fText (some c) ++ rest)))).length := by
      simp [fText]; omega
    have h2 : rest.length ≤ rE.length := by rw [hrEeq]; simp
    simp only [immediate, hopt, hhex, hdec, hfl, hdouble, mapR_none, mapR_some, better_none_left]
    rw [better_some_lt _ _ _ _ h1, better_some_ge _ _ _ _ h2]
    simp [fltTok]

def fltText (hash neg : Bool) (ip fp : Txt) (e : Option (Nat × Nat × Txt)) (f : Option Nat) : Txt :=
  optHash hash ++ fltBody neg ip fp e f

theorem fltText_head (hash neg : Bool) (ip fp : Txt) (e : Option (Nat × Nat × Txt)) (f : Option Nat)
    (hip : Digits ip) :
    ∃ c t, fltText hash neg ip fp e f = c :: t ∧ isWs c = false ∧ isAlphaC c = false ∧
      c ≠ 58 ∧ c ≠ 43 ∧ c ≠ 123 ∧ c ≠ 91 ∧ isIdFirstC c = false := by
  obtain ⟨a, as, hipe, ha⟩ := hip.cons
  have hab := digit_bounds a (ha a (by simp))
  cases hash with
  | true =>
    exact ⟨35, fltBody neg ip fp e f, by simp [fltText, optHash], by decide, by decide, by decide, by decide,
      by decide, by decide, by decide⟩
  | false =>
    cases neg with
    | true =>
      exact ⟨45, ip ++ 46 :: (fp ++ (expText e ++ fText f)), by simp [fltText, optHash, fltBody, optNeg],
        by decide, by decide, by decide, by decide, by decide, by decide, by decide⟩
    | false =>
      refine ⟨a, as ++ 46 :: (fp ++ (expText e ++ fText f)), by simp [fltText, optHash, fltBody, optNeg, hipe],
        digit_not_ws a (ha a (by simp)), ?_, by omega, by omega, by omega, by omega, ?_⟩
      · simp only [isAlphaC]; simp; omega
      · simp only [isIdFirstC, isAlphaC, A64.identFirstExtra]; simp; omega

/-- **floating-point immediate** in any operand slot -/
theorem goodOp_flt (hash neg : Bool) (ip fp : Txt) (e : Option (Nat × Nat × Txt)) (f : Option Nat)
    (hok : FltOk ip fp e f) :
    GoodOp false true (fltText hash neg ip fp e f) (.imm (fltTok neg ip fp e f)) := by
  obtain ⟨c, t, hct, hws, ha, h58, h43, h123, h91, hidf⟩ := fltText_head hash neg ip fp e f hok.ip
  have hform : ∀ g rest : Txt, g ++ (fltText hash neg ip fp e f ++ rest) =
      g ++ (optHash hash ++ (fltBody neg ip fp e f ++ rest)) := by
    intro g rest; simp [fltText, List.append_assoc]
  refine ⟨?_, ?_, ?_, ?_⟩
  · intro g rest hg hf
    obtain ⟨r', himm, hsk⟩ := immediate_flt g hash neg ip fp e f rest hg hok hf
    rw [← hform] at himm
    have har := arithP_none_of_immediate _ rest _ _ himm hsk hf
    have hreg : registerP (g ++ (fltText hash neg ip fp e f ++ rest)) = none := by
      rw [hct, List.cons_append]; exact registerP_none_nonalpha g c _ hg hws ha h123
    have hcond : conditionP (g ++ (fltText hash neg ip fp e f ++ rest)) = none := by
      rw [hct, List.cons_append]; exact conditionP_none_nonalpha g c _ hg hws ha
    have hmem : memoryP (g ++ (fltText hash neg ip fp e f ++ rest)) = none := by
      rw [hct, List.cons_append]; exact memoryP_none_head g c _ hg hws h91
    refine ⟨r', ?_, hsk⟩
    simp [operandRest, hcond, hreg, himm, hmem, arithOp, har]
  · intro _ g rest hg hf
    obtain ⟨r', himm, hsk⟩ := immediate_flt g hash neg ip fp e f rest hg hok hf
    rw [← hform] at himm
    have har := arithP_none_of_immediate _ rest _ _ himm hsk hf
    have hreg : registerP (g ++ (fltText hash neg ip fp e f ++ rest)) = none := by
      rw [hct, List.cons_append]; exact registerP_none_nonalpha g c _ hg hws ha h123
    have hprf : prefetchP (g ++ (fltText hash neg ip fp e f ++ rest)) = none := by
      rw [hct, List.cons_append]; exact prefetchP_none_nonalpha g c _ hg hws ha
    have hmem : memoryP (g ++ (fltText hash neg ip fp e f ++ rest)) = none := by
      rw [hct, List.cons_append]; exact memoryP_none_head g c _ hg hws h91
    have hid : identifier (g ++ (fltText hash neg ip fp e f ++ rest)) = none := by
      rw [hct, List.cons_append]; exact identifier_none_head g c _ hg hws hidf h58
    refine ⟨r', ?_, hsk⟩
    simp [operandFirst, hprf, hreg, himm, hmem, arithOp, har, hid]
  · intro g rest hg _
    rw [hct, List.cons_append]
    exact shiftOp_none_nonalpha g c _ hg hws ha
  · exact ⟨c, t, hct, hws, h58, h43⟩

theorem covered_flt (last fst : Bool) (hash neg : Bool) (ip fp : Txt) (e : Option (Nat × Nat × Txt)) (f : Option Nat)
    (hok : FltOk ip fp e f) : CoveredOp last fst (.flt hash neg ip fp e f) := by
  refine ⟨fltText hash neg ip fp e f, [], .imm (fltTok neg ip fp e f), ?_, ?_, ?_⟩
  · cases e <;> cases f <;> simp [opPieces, fltText, fltBody, expText, fText, List.append_assoc]
  · intro gs hgs
    have : gs = [] := hgs
    subst this
    have := (goodOp_flt hash neg ip fp e f hok).any last
    cases fst with
    | true => simpa [joinInner] using this.toFirst
    | false => simpa [joinInner] using this.toRest
  · cases e <;> cases f <;> simp [processOperand, processImmediate, fltTok, expectOp, expTok, optMap, List.append_assoc]

end OsacaVerif.ParseA64
