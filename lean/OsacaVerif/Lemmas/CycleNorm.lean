import OsacaVerif.Lemmas.Rotation
/-
  Helper development for C05 (collision-freeness of the dictionary key): the sorted normal form of a
  winding-1 stream cycle is again a stream cycle (the rotation that starts at its smallest member),
  and a cycle is determined by its position list (the weights are values of the relation).
-/
namespace OsacaVerif.LCD
open OsacaVerif OsacaVerif.DG

theorem nextV_append (tgt : Nat) (u v : List (Nat × Rat)) : nextV tgt (u ++ v) = nextV (nextV tgt v) u := by
  cases u <;> simp [nextV]

theorem chain_append (D : Nat → Nat → Option Rat) (tgt : Nat) (u v : List (Nat × Rat)) :
    Chain D tgt (u ++ v) ↔ Chain D (nextV tgt v) u ∧ Chain D tgt v := by
  induction u with
  | nil => simp [Chain]
  | cons x u ih =>
    simp only [List.cons_append, Chain, nextV_append, ih]
    constructor
    · rintro ⟨h1, h2, h3, h4⟩; exact ⟨⟨h1, h2, h3⟩, h4⟩
    · rintro ⟨⟨h1, h2, h3⟩, h4⟩; exact ⟨h1, h2, h3, h4⟩

/-- a chain is determined by its positions: the weights are the values of the relation -/
theorem chain_determined (D : Nat → Nat → Option Rat) (tgt : Nat) (b b' : List (Nat × Rat))
    (h : Chain D tgt b) (h' : Chain D tgt b') (hv : verts b = verts b') : b = b' := by
  induction b generalizing b' with
  | nil => cases b' with
    | nil => rfl
    | cons y r' => simp [verts] at hv
  | cons x r ih =>
    cases b' with
    | nil => simp [verts] at hv
    | cons x' r' =>
      simp only [verts, List.map_cons, List.cons.injEq] at hv
      have hr : r = r' := ih r' h.2.2 h'.2.2 hv.2
      subst hr
      have h1 := h.2.1
      have h2 := h'.2.1
      rw [← hv.1, h1] at h2
      simp only [Option.some.injEq] at h2
      rw [Prod.ext hv.1 h2]

theorem map_inj_on {α β : Type} (f : α → β) (l1 l2 : List α)
    (hinj : ∀ x ∈ l1, ∀ y ∈ l2, f x = f y → x = y) (h : l1.map f = l2.map f) : l1 = l2 := by
  induction l1 generalizing l2 with
  | nil => cases l2 with
    | nil => rfl
    | cons y r => simp at h
  | cons x r ih =>
    cases l2 with
    | nil => simp at h
    | cons y r' =>
      simp only [List.map_cons, List.cons.injEq] at h
      rw [hinj x List.mem_cons_self y List.mem_cons_self h.1,
        ih r' (fun a ha b hb => hinj a (List.mem_cons_of_mem _ ha) b (List.mem_cons_of_mem _ hb)) h.2]

/-- **cycle_normal**: for a winding-1 cycle of an `n`-periodic relation that starts inside the first
    iteration, its normal form (positions modulo `n`, sorted) is itself such a cycle — the rotation
    that starts at the smallest member — and all its positions are below `n`, strictly ascending. -/
theorem cycle_normal (D : Nat → Nat → Option Rat) (n : Nat) (hper : ∀ x y, D (x + n) (y + n) = D x y)
    (a : List (Nat × Rat)) (hc : IsStreamCycle D n a) (hst : StartsBelow n a) :
    IsStreamCycle D n (normPath n a) ∧ (∀ y ∈ normPath n a, y.1 < n) ∧
    (verts (normPath n a)).Pairwise (· < ·) ∧ (normPath n a).Perm (a.map (back n)) := by
  cases a with
  | nil => exact absurd hc (fun h => h)
  | cons x rest =>
    have hx : x.1 < n := hst
    have hch : Chain D (x.1 + n) (x :: rest) := hc
    have hinc := chain_increasing D (x.1 + n) (x :: rest) hch
    obtain ⟨hsplit, hnorm, hlines⟩ := winding_norm n x.1 (x :: rest) hinc (by simp [verts])
    have hb := cycle_bounds D n x rest hc
    have hbelow : ∀ y ∈ normPath n (x :: rest), y.1 < n := by
      intro y hy
      rw [hnorm] at hy
      rcases List.mem_append.mp hy with hy | hy
      · obtain ⟨z, hz, rfl⟩ := List.mem_map.mp hy
        have h1 := List.mem_filter.mp hz
        have hge : n ≤ z.1 := by simpa using h1.2
        have := (hb z h1.1).2
        simp only [back, backLine, ge_iff_le, hge, if_true]
        omega
      · simpa [firstCopy] using (List.mem_filter.mp hy).2
    refine ⟨?_, hbelow, hlines, sortPairs_perm' _⟩
    -- the first-copy part starts with `x`
    have h1 : firstCopy n (x :: rest) = x :: firstCopy n rest := by
      simp [firstCopy, hx]
    rw [hsplit, chain_append] at hch
    obtain ⟨hc1, hc2⟩ := hch
    rw [hnorm]
    cases hs : secondCopy n (x :: rest) with
    | nil =>
      rw [hs] at hc1
      simp only [List.map_nil, List.nil_append]
      rw [h1] at hc1 ⊢
      exact hc1
    | cons y a2 =>
      rw [hs] at hc1 hc2
      have hy : n ≤ y.1 := by
        have : y ∈ secondCopy n (x :: rest) := by rw [hs]; exact List.mem_cons_self
        simpa using (List.mem_filter.mp this).2
      have hge : ∀ z ∈ y :: a2, n ≤ z.1 := by
        intro z hz
        have : z ∈ secondCopy n (x :: rest) := by rw [hs]; exact hz
        simpa using (List.mem_filter.mp this).2
      have hback : shiftPos n ((y :: a2).map (back n)) = y :: a2 := by
        unfold shiftPos
        rw [List.map_map]
        conv => rhs; rw [← List.map_id (y :: a2)]
        apply List.map_congr_left
        intro z hz
        have := hge z hz
        simp only [Function.comp_apply, id, back, backLine, ge_iff_le, this, if_true]
        exact Prod.ext (by simp only; omega) rfl
      -- target of the rotated cycle: its head plus n is `y`
      show IsStreamCycle D n (back n y :: (a2.map (back n) ++ firstCopy n (x :: rest)))
      show Chain D ((back n y).1 + n) (back n y :: (a2.map (back n) ++ firstCopy n (x :: rest)))
      have htgt : (back n y).1 + n = y.1 := by
        simp only [back, backLine, ge_iff_le, hy, if_true]; omega
      rw [htgt]
      have : back n y :: (a2.map (back n) ++ firstCopy n (x :: rest)) =
          (y :: a2).map (back n) ++ firstCopy n (x :: rest) := by simp
      rw [this, chain_append]
      refine ⟨?_, by simpa [nextV] using hc1⟩
      rw [h1]
      simp only [nextV]
      rw [chain_shift D D n (fun a b => (hper a b).symm) x.1 ((y :: a2).map (back n)), hback]
      exact hc2

end OsacaVerif.LCD
