import OsacaVerif.Model.Text
namespace OsacaVerif.Text

@[simp] theorem upperC_upperC (c : Nat) : upperC (upperC c) = upperC c := by
  unfold upperC; grind
@[simp] theorem lowerC_upperC (c : Nat) : lowerC (upperC c) = lowerC c := by
  unfold upperC lowerC; grind
@[simp] theorem upperC_lowerC (c : Nat) : upperC (lowerC c) = upperC c := by
  unfold upperC lowerC; grind
@[simp] theorem lowerC_lowerC (c : Nat) : lowerC (lowerC c) = lowerC c := by
  unfold lowerC; grind
@[simp] theorem isDigitC_upperC (c : Nat) : isDigitC (upperC c) = isDigitC c := by
  unfold upperC isDigitC; grind
@[simp] theorem isDigitC_lowerC (c : Nat) : isDigitC (lowerC c) = isDigitC c := by
  unfold lowerC isDigitC; grind

@[simp] theorem upper_upper (t : Txt) : upper (upper t) = upper t := by
  simp [upper, List.map_map, Function.comp_def]
@[simp] theorem lower_upper (t : Txt) : lower (upper t) = lower t := by
  simp [upper, lower, List.map_map, Function.comp_def]
@[simp] theorem upper_lower (t : Txt) : upper (lower t) = upper t := by
  simp [upper, lower, List.map_map, Function.comp_def]
@[simp] theorem lower_lower (t : Txt) : lower (lower t) = lower t := by
  simp [lower, List.map_map, Function.comp_def]

theorem rstripDigits_map (f : Nat → Nat) (hf : ∀ c, isDigitC (f c) = isDigitC c) (t : Txt) :
    rstripDigits (t.map f) = (rstripDigits t).map f := by
  induction t with
  | nil => rfl
  | cons c cs ih =>
    simp only [List.map_cons, rstripDigits, ih]
    cases h : rstripDigits cs with
    | nil => simp [hf]; split <;> simp
    | cons x xs => simp

@[simp] theorem rstripDigits_upper (t : Txt) : rstripDigits (upper t) = upper (rstripDigits t) :=
  rstripDigits_map upperC isDigitC_upperC t

@[simp] theorem anyDigit_upper (t : Txt) : anyDigit (upper t) = anyDigit t := by
  simp [anyDigit, upper, List.any_map, Function.comp_def]

end OsacaVerif.Text
