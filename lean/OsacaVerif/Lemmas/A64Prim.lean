import OsacaVerif.Model.ParseA64
import OsacaVerif.Spec.RenderA64
import OsacaVerif.Lemmas.A64Num
import OsacaVerif.Lemmas.A64Int
/-
  Behaviour of the primitive parsers of `Model/ParseA64.lean` on texts of the shape
  `gap ++ token ++ rest` (right-nested appends): white-space skipping, `Word`, literals, `better`.
-/
namespace OsacaVerif.ParseA64
open OsacaVerif.Text OsacaVerif.Spec.A64 OsacaVerif.Gen

/-- a gap of the layout: blanks and tabs only -/
def Blank (g : Txt) : Prop := g.all isBlankC = true

theorem isWs_of_isBlankC (c : Nat) (h : isBlankC c = true) : isWs c = true := by
  simp only [isBlankC, isWs] at *; simp at *; omega

@[simp] theorem blank_nil : Blank [] := by simp [Blank]

theorem Blank.cons {c : Nat} {g : Txt} (h : Blank (c :: g)) : isBlankC c = true ∧ Blank g := by
  simpa [Blank] using h

/-! ### skipWs -/
theorem skipWs_blank_append (g s : Txt) (h : Blank g) : skipWs (g ++ s) = skipWs s := by
  induction g with
  | nil => rfl
  | cons c g ih =>
    have ⟨hc, hg⟩ := h.cons
    simp [skipWs, isWs_of_isBlankC c hc, ih hg]

theorem skipWs_cons (c : Nat) (s : Txt) (h : isWs c = false) : skipWs (c :: s) = c :: s := by
  simp [skipWs, h]

theorem skipWs_idem (s : Txt) : skipWs (skipWs s) = skipWs s := by
  induction s with
  | nil => rfl
  | cons c s ih =>
    by_cases h : isWs c = true
    · simp [skipWs, h, ih]
    · simp [skipWs, h]

theorem skipWs_blank (g : Txt) (h : Blank g) : skipWs g = [] := by
  have := skipWs_blank_append g [] h
  simpa [skipWs] using this

theorem sk_true (s : Txt) : sk true s = skipWs s := rfl
theorem sk_false (s : Txt) : sk false s = s := rfl

/-- the head of `skipWs s` is never white space -/
theorem skipWs_head (s : Txt) : ∀ c r, skipWs s = c :: r → isWs c = false := by
  induction s with
  | nil => intro c r h; simp [skipWs] at h
  | cons d s ih =>
    intro c r h
    by_cases hd : isWs d = true
    · simp [skipWs, hd] at h; exact ih c r h
    · simp [skipWs, hd] at h; obtain ⟨h1, _⟩ := h; subst h1; simpa using hd

/-! ### spanP / Word -/
/-- `rest` does not continue a word of class `p` -/
def StopsAt (p : Nat → Bool) (rest : Txt) : Prop := ∀ c r, rest = c :: r → p c = false

theorem stopsAt_nil (p : Nat → Bool) : StopsAt p [] := by intro c r h; cases h

theorem spanP_append (p : Nat → Bool) (w rest : Txt) (hw : ∀ c ∈ w, p c = true) (hr : StopsAt p rest) :
    spanP p (w ++ rest) = (w, rest) := by
  induction w with
  | nil =>
    cases rest with
    | nil => rfl
    | cons c r => simp [spanP, hr c r rfl]
  | cons c w ih =>
    have hc : p c = true := hw c (by simp)
    have := ih (fun d hd => hw d (by simp [hd]))
    simp [spanP, hc, this]

theorem wordNS_append (p : Nat → Bool) (c : Nat) (w rest : Txt) (hw : ∀ d ∈ c :: w, p d = true)
    (hr : StopsAt p rest) : wordNS p (c :: (w ++ rest)) = some (c :: w, rest) := by
  have := spanP_append p (c :: w) rest hw hr
  simp only [List.cons_append] at this
  simp [wordNS, this]

theorem wordNS_none (p : Nat → Bool) (s : Txt) (h : StopsAt p s) : wordNS p s = none := by
  cases s with
  | nil => simp [wordNS, spanP]
  | cons c r => simp [wordNS, spanP, h c r rfl]

/-! ### literals -/
theorem dropPrefix_append (l s : Txt) : dropPrefix (l ++ s) l = some s := by
  induction l with
  | nil => cases s <;> rfl
  | cons c l ih => simp [dropPrefix, ih]

theorem dropPrefix_head_ne (c a : Nat) (s l : Txt) (h : c ≠ a) : dropPrefix (c :: s) (a :: l) = none := by
  simp [dropPrefix, h]

theorem dropPrefix_nil_cons (a : Nat) (l : Txt) : dropPrefix [] (a :: l) = none := rfl

theorem dropPrefixCI_head_ne (c a : Nat) (s l : Txt) (h : lowerC c ≠ a) :
    dropPrefixCI (c :: s) (a :: l) = none := by
  simp [dropPrefixCI, h]

theorem dropPrefixCI_append (w l s : Txt) (h : lower w = l) : dropPrefixCI (w ++ s) l = some s := by
  subst h
  induction w with
  | nil => cases s <;> rfl
  | cons c w ih => simp [dropPrefixCI, lower, ih] ; exact ih

/-! ### `better` (the `^` of pyparsing) -/
@[simp] theorem better_none_left {α : Type} (b : Res α) : (none <^> b) = b := by
  cases b <;> rfl
@[simp] theorem better_none_right {α : Type} (a : Res α) : (a <^> none) = a := by
  cases a <;> rfl
theorem better_some_ge {α : Type} (x y : α) (r1 r2 : Txt) (h : r1.length ≤ r2.length) :
    (some (x, r1) <^> some (y, r2)) = some (x, r1) := by
  simp [better]; omega
theorem better_some_lt {α : Type} (x y : α) (r1 r2 : Txt) (h : r2.length < r1.length) :
    (some (x, r1) <^> some (y, r2)) = some (y, r2) := by
  simp [better, h]

@[simp] theorem orElseR_none_left {α : Type} (b : Res α) : (none </> b) = b := rfl
@[simp] theorem orElseR_some_left {α : Type} (x : α × Txt) (b : Res α) : (some x </> b) = some x := rfl

@[simp] theorem mapR_none {α β : Type} (f : α → β) : mapR f (none : Res α) = none := rfl
@[simp] theorem mapR_some {α β : Type} (f : α → β) (x : α) (r : Txt) : mapR f (some (x, r)) = some (f x, r) := rfl

@[simp] theorem wordEnd_none {α : Type} : wordEnd (none : Res α) = none := rfl

/-- the grammar has the word end behind the shift operator (regenerated constant) -/
theorem shiftWordEnd_on : A64.shiftWordEnd = true := by decide

/-- the shift operator of `register` / `arith_immediate`: one of the keywords, as a complete word -/
theorem shiftOp_eq (s : Txt) : shiftOp s = wordEnd (clitOr true A64.shiftOps s) := by
  simp [shiftOp, shiftWordEnd_on]

theorem shiftOp_none_of_clitOr (s : Txt) (h : clitOr true A64.shiftOps s = none) : shiftOp s = none := by
  rw [shiftOp_eq, h]; rfl

/-- a keyword that is followed by a word character is not a shift operator -/
theorem wordEnd_wordChar {α : Type} (x : α) (c : Nat) (r : Txt) (h : isWordEndC c = true) :
    wordEnd (some (x, c :: r)) = none := by
  simp [wordEnd, h]

/-- a keyword that is not followed by a word character stays -/
theorem wordEnd_stop {α : Type} (x : α) (rest : Txt) (h : ∀ c r, rest = c :: r → isWordEndC c = false) :
    wordEnd (some (x, rest)) = some (x, rest) := by
  cases rest with
  | nil => rfl
  | cons c r => simp [wordEnd, h c r rfl]

/-! ### character classes, `Follow`, alternatives over literal lists -/
theorem scalarPrefix_alpha (c : Nat) (h : isScalarPrefixC c = true) : isAlphaC c = true := by
  simp [isScalarPrefixC, A64.scalarPrefixes] at h
  rcases h with rfl | rfl | rfl | rfl | rfl | rfl | rfl | rfl | rfl | rfl | rfl | rfl | rfl | rfl <;> decide

theorem alpha_not_ws (c : Nat) (h : isAlphaC c = true) : isWs c = false := by
  simp only [isAlphaC, isWs] at *; simp at *; omega

theorem digit_not_ws (c : Nat) (h : isDigitC c = true) : isWs c = false := by
  simp only [isDigitC, isWs] at *; simp at *; omega

theorem showNat_cons (n : Nat) : ∃ d ds, showNat n = d :: ds ∧ isDigitC d = true := by
  cases h : showNat n with
  | nil => exact absurd h (showNat_ne_nil n)
  | cons d ds => exact ⟨d, ds, rfl, showNat_digits n d (by rw [h]; simp)⟩

theorem scalarP_text (g : Txt) (p n : Nat) (rest : Txt) (hg : Blank g) (hp : isScalarPrefixC p = true)
    (hr : StopsAt isDigitC rest) :
    scalarP true (g ++ p :: (showNat n ++ rest)) =
      some ({ pre := some [p], name := some (showNat n) }, rest) := by
  obtain ⟨d, ds, hd, hdd⟩ := showNat_cons n
  have hws := alpha_not_ws p (scalarPrefix_alpha p hp)
  simp only [scalarP, char1, sk_true, skipWs_blank_append g _ hg, skipWs_cons p _ hws, charNS, hp, if_true,
    word]
  rw [hd, List.cons_append, skipWs_cons d _ (digit_not_ws d hdd)]
  rw [wordNS_append isDigitC d ds rest (by rw [← hd]; exact showNat_digits n) hr]

theorem digit_bounds (d : Nat) (h : isDigitC d = true) : 48 ≤ d ∧ d ≤ 57 := by
  simpa [isDigitC] using h

/-- what follows an operand in a rendered instruction line -/
structure Follow (rest : Txt) : Prop where
  head : ∀ c r, rest = c :: r → isBlankC c = true ∨ c = 44 ∨ c = 47 ∨ c = 93
  next : ∀ c r, skipWs rest = c :: r → c = 44 ∨ c = 47 ∨ c = 93
  noShift : ∀ r, lit true [44] rest = some r → shiftOp r = none
  /-- a slash begins a `//` comment -/
  slash : ∀ r, skipWs rest = 47 :: r → ∃ r', r = 47 :: r'

/-- only the first character matters: a blank, a comma, a slash or a closing bracket (or nothing) -/
structure HeadStop (rest : Txt) : Prop where
  head : ∀ c r, rest = c :: r → isBlankC c = true ∨ c = 44 ∨ c = 47 ∨ c = 93

theorem HeadStop.stops (p : Nat → Bool) (rest : Txt) (h : HeadStop rest)
    (hp : p 32 = false ∧ p 9 = false ∧ p 44 = false ∧ p 47 = false ∧ p 93 = false) : StopsAt p rest := by
  intro c r hc
  rcases h.head c r hc with hb | rfl | rfl | rfl
  · simp [isBlankC] at hb; rcases hb with rfl | rfl <;> simp [hp]
  · exact hp.2.2.1
  · exact hp.2.2.2.1
  · exact hp.2.2.2.2

theorem Follow.headStop {rest : Txt} (h : Follow rest) : HeadStop rest := ⟨h.head⟩

theorem Follow.stops (p : Nat → Bool) (rest : Txt) (h : Follow rest)
    (hp : p 32 = false ∧ p 9 = false ∧ p 44 = false ∧ p 47 = false ∧ p 93 = false) : StopsAt p rest := by
  intro c r hc
  rcases h.head c r hc with hb | rfl | rfl | rfl
  · simp [isBlankC] at hb; rcases hb with rfl | rfl <;> simp [hp]
  · exact hp.2.2.1
  · exact hp.2.2.2.1
  · exact hp.2.2.2.2

theorem clitOr_none (b : Bool) (ls : List Txt) (s : Txt) (h : ∀ l ∈ ls, clit b l s = none) :
    clitOr b ls s = none := by
  unfold clitOr
  induction ls with
  | nil => rfl
  | cons l ls ih =>
    simp only [List.foldl_cons, h l (by simp), better_none_left]
    exact ih (fun l' hl' => h l' (by simp [hl']))

def twoNonDigits (n : Txt) : Bool :=
  match n with
  | [a, b] => !isDigitC a && !isDigitC b
  | _ => false

theorem twoNonDigits_spec (n : Txt) (h : twoNonDigits n = true) :
    ∃ a b, n = [a, b] ∧ isDigitC a = false ∧ isDigitC b = false := by
  match n, h with
  | [a, b], h => exact ⟨a, b, rfl, by simpa [twoNonDigits] using h⟩

theorem aliasP_none_digit (names : List Txt) (g : Txt) (c d : Nat) (t : Txt) (hg : Blank g)
    (hc : isWs c = false) (hd : isDigitC d = true)
    (hn' : names.all twoNonDigits = true) :
    aliasP names (g ++ c :: d :: t) = none := by
  have hn : ∀ n ∈ names, ∃ a b, n = [a, b] ∧ isDigitC a = false ∧ isDigitC b = false := by
    intro n hm; exact twoNonDigits_spec n (List.all_eq_true.mp hn' n hm)
  have h1 : names.any (fun n => startsWith (d :: t) n) = false := by
    rw [List.any_eq_false]
    intro n hn'
    obtain ⟨a, b, rfl, ha, _⟩ := hn n hn'
    have : d ≠ a := by intro h; subst h; simp [hd] at ha
    simp [startsWith, this]
  have h2 : names.any (fun n => startsWith (c :: d :: t) n) = false := by
    rw [List.any_eq_false]
    intro n hn'
    obtain ⟨a, b, rfl, _, hb⟩ := hn n hn'
    have : d ≠ b := by intro h; subst h; simp [hd] at hb
    simp [startsWith, this]
  simp only [aliasP, skipWs_blank_append g _ hg, skipWs_cons c _ hc, h1, h2]
  simp

theorem aliasSp_names : A64.aliasSp.all twoNonDigits = true := by decide
theorem aliasZr_names : A64.aliasZr.all twoNonDigits = true := by decide

end OsacaVerif.ParseA64
