import OsacaVerif.Model.LCD
import OsacaVerif.Lemmas.Chain
import OsacaVerif.Lemmas.DGraph
/-
  Helper development for C04: what `get_critical_path` (model `LCD.cpReport`) reports for a path of
  the dependency graph, and the chain of the property that this path stands for.
-/
namespace OsacaVerif.LCD
open OsacaVerif OsacaVerif.DG OsacaVerif.Spec

/-! ### the pieces of `cpReport` -/

/-- latency of the instruction with a given line (0 if there is none) — `latOf` of `cpReport` -/
def latOfK (k : List Ins) (l : Nat) : Rat :=
  match k.find? (·.line == l) with | some i => i.lat | none => 0

/-- weight of the edge between two nodes (0 if there is none) — `edgeW` of `cpReport` -/
def edgeW (es : List Edge) (a b : Node) : Rat :=
  match es.find? (fun e => e.src == a && e.dst == b) with | some e => e.w | none => 0

theorem cpReport_eq (k : List Ins) (es : List Edge) (p : List Node) :
    cpReport k es p = k.filterMap fun i =>
      ((cpReport.assign (latOfK k) (edgeW es) [] p).find? (·.1 == i.line)).map fun e => (i.line, e.2) := rfl

/-- the `latency_cp` assignments along a path without overwriting -/
def entries (lat : Nat → Rat) (w : Node → Node → Rat) : List Node → List (Nat × Rat)
  | a :: b :: rest => (a.line, w a b) :: entries lat w (b :: rest)
  | [a] => [(a.line, lat a.line)]
  | [] => []

/-- sum of the edge weights along a path -/
def pathW (w : Node → Node → Rat) : List Node → Rat
  | a :: b :: rest => w a b + pathW w (b :: rest)
  | _ => 0

/-- line of the last node of a path -/
def lastLine : List Node → Nat
  | [] => 0
  | [a] => a.line
  | _ :: b :: rest => lastLine (b :: rest)

theorem entries_keys (lat : Nat → Rat) (w : Node → Node → Rat) (p : List Node) :
    (entries lat w p).map (·.1) = p.map (·.line) := by
  induction p with
  | nil => rfl
  | cons a rest ih =>
    cases rest with
    | nil => rfl
    | cons b rest => simp only [entries, List.map_cons, ih]

theorem entries_sum (lat : Nat → Rat) (w : Node → Node → Rat) (p : List Node) (hp : p ≠ []) :
    ((entries lat w p).map (·.2)).sum = pathW w p + lat (lastLine p) := by
  induction p with
  | nil => exact absurd rfl hp
  | cons a rest ih =>
    cases rest with
    | nil => simp [entries, pathW, lastLine]
    | cons b rest =>
      simp only [entries, List.map_cons, List.sum_cons, pathW, lastLine, ih (by simp)]
      ring

/-- **no overwriting on paths with distinct lines**: the assignment loop removes the entries of the
    path's lines from the accumulator and appends one entry per node -/
theorem assign_nodup (lat : Nat → Rat) (w : Node → Node → Rat) (p : List Node)
    (hnd : (p.map (·.line)).Nodup) (acc : List (Nat × Rat)) :
    cpReport.assign lat w acc p =
      acc.filter (fun e => decide (e.1 ∉ p.map (·.line))) ++ entries lat w p := by
  induction p generalizing acc with
  | nil => simp [cpReport.assign, entries]
  | cons a rest ih =>
    cases rest with
    | nil =>
      simp only [cpReport.assign, entries, List.map_cons, List.map_nil, List.mem_singleton]
      congr 1
      apply List.filter_congr
      intro e _
      by_cases hea : e.1 = a.line <;> simp [hea]
    | cons b rest =>
      have hnd' : ((b :: rest).map (·.line)).Nodup := by
        simp only [List.map_cons, List.nodup_cons] at hnd ⊢
        exact hnd.2
      have ha : a.line ∉ (b :: rest).map (·.line) := by
        simp only [List.map_cons, List.nodup_cons] at hnd
        simpa using hnd.1
      rw [show cpReport.assign lat w acc (a :: b :: rest) =
        cpReport.assign lat w ((acc.filter (·.1 != a.line)) ++ [(a.line, w a b)]) (b :: rest) from rfl]
      rw [ih hnd', List.filter_append, List.filter_filter]
      have h1 : List.filter (fun e => decide (e.1 ∉ (b :: rest).map (·.line))) [(a.line, w a b)] =
          [(a.line, w a b)] := by
        simp only [List.filter_cons, List.filter_nil]
        rw [if_pos (by simpa using ha)]
      rw [h1]
      simp only [entries, List.append_assoc, List.singleton_append]
      congr 1
      apply List.filter_congr
      intro e _
      by_cases hea : e.1 = a.line <;> simp [hea]

/-! ### the report keeps every assigned value once -/

theorem sum_map_add {α : Type} (l : List α) (f g : α → Rat) :
    (l.map fun x => f x + g x).sum = (l.map f).sum + (l.map g).sum := by
  induction l with
  | nil => simp
  | cons a l ih => simp only [List.map_cons, List.sum_cons, ih]; ring

theorem sum_ite_of_nodup (l : List Nat) (hnd : l.Nodup) (a : Nat) (ha : a ∈ l) (v : Rat) :
    (l.map fun x => if a = x then v else 0).sum = v := by
  induction l with
  | nil => simp at ha
  | cons b l ih =>
    simp only [List.nodup_cons] at hnd
    simp only [List.map_cons, List.sum_cons]
    rcases List.mem_cons.mp ha with rfl | ha
    · have hz : (l.map fun x => if a = x then v else 0).sum = 0 := by
        apply List.sum_eq_zero
        intro x hx
        obtain ⟨y, hy, rfl⟩ := List.mem_map.mp hx
        rw [if_neg (fun (h : a = y) => hnd.1 (h ▸ hy))]
      simp [hz]
    · have : a ≠ b := fun h => hnd.1 (h ▸ ha)
      rw [if_neg this, ih hnd.2 ha]; ring

/-- value looked up in an association list, 0 if absent -/
def lookupD (cp : List (Nat × Rat)) (l : Nat) : Rat := ((cp.find? (·.1 == l)).map (·.2)).getD 0

theorem report_sum_lookup (k : List Ins) (cp : List (Nat × Rat)) :
    ((k.filterMap fun i => (cp.find? (·.1 == i.line)).map fun e => (i.line, e.2)).map (·.2)).sum =
      (k.map fun i => lookupD cp i.line).sum := by
  induction k with
  | nil => simp
  | cons i k ih =>
    simp only [List.filterMap_cons, List.map_cons, List.sum_cons, lookupD]
    cases h : cp.find? (·.1 == i.line) with
    | none => simp [ih, lookupD]
    | some e => simp [ih, lookupD]

theorem lookup_sum (ls : List Nat) (hls : ls.Nodup) (cp : List (Nat × Rat)) (hcp : (cp.map (·.1)).Nodup)
    (hsub : ∀ e ∈ cp, e.1 ∈ ls) : (ls.map fun l => lookupD cp l).sum = (cp.map (·.2)).sum := by
  induction cp with
  | nil =>
    simp only [List.map_nil, List.sum_nil]
    apply List.sum_eq_zero
    intro x hx
    obtain ⟨y, _, rfl⟩ := List.mem_map.mp hx
    simp [lookupD]
  | cons e cp ih =>
    simp only [List.map_cons, List.nodup_cons] at hcp
    have hrest : lookupD cp e.1 = 0 := by
      unfold lookupD
      have : cp.find? (·.1 == e.1) = none := by
        rw [List.find?_eq_none]
        intro x hx hk
        exact hcp.1 (List.mem_map.mpr ⟨x, hx, by simpa using hk⟩)
      simp [this]
    have hfun : (fun l => lookupD (e :: cp) l) = fun l => (if e.1 = l then e.2 else 0) + lookupD cp l := by
      funext l
      by_cases h : e.1 = l
      · subst h; simp [lookupD] at hrest ⊢; simp [hrest]
      · have : (e.1 == l) = false := by simpa using h
        simp [lookupD, this, h]
    rw [hfun, sum_map_add, sum_ite_of_nodup ls hls e.1 (hsub e List.mem_cons_self) e.2,
      ih hcp.2 (fun x hx => hsub x (List.mem_cons_of_mem _ hx))]
    simp

/-- the total of the report is the sum of the assigned values, when the assigned lines are distinct
    lines of the kernel -/
theorem report_total (k : List Ins) (hk : (k.map (·.line)).Nodup) (cp : List (Nat × Rat))
    (hcp : (cp.map (·.1)).Nodup) (hsub : ∀ e ∈ cp, e.1 ∈ k.map (·.line)) :
    ((k.filterMap fun i => (cp.find? (·.1 == i.line)).map fun e => (i.line, e.2)).map (·.2)).sum =
      (cp.map (·.2)).sum := by
  rw [report_sum_lookup]
  have := lookup_sum (k.map (·.line)) hk cp hcp hsub
  rw [List.map_map] at this
  exact this

/-! ### genuine paths of a forward graph -/

/-- consecutive nodes are linked by an edge of `es` -/
def isPath (es : List Edge) : List Node → Bool
  | a :: b :: rest => es.any (fun e => e.src == a && e.dst == b) && isPath es (b :: rest)
  | _ => true

/-- the shape `edges_forward` establishes for `create`: targets are instruction nodes; an instruction
    node points to a larger line, a load node to its own line -/
def ForwardEdges (es : List Edge) : Prop :=
  ∀ e ∈ es, e.dst.load = false ∧
    ((e.src.load = false ∧ e.src.line < e.dst.line) ∨ (e.src.load = true ∧ e.src.line = e.dst.line))

instance (es : List Edge) : Decidable (ForwardEdges es) := by unfold ForwardEdges; infer_instance

/-- the path without its leading load node -/
def instrPart : List Node → List Node
  | a :: b :: rest => if a.load then b :: rest else a :: b :: rest
  | p => p

theorem isPath_tail (es : List Edge) (a : Node) (rest : List Node) (h : isPath es (a :: rest) = true) :
    isPath es rest = true := by
  cases rest with
  | nil => rfl
  | cons b rest => simp only [isPath, Bool.and_eq_true] at h; exact h.2

theorem edge_of_isPath (es : List Edge) (a b : Node) (rest : List Node)
    (h : isPath es (a :: b :: rest) = true) : ∃ e ∈ es, e.src = a ∧ e.dst = b := by
  simp only [isPath, Bool.and_eq_true, List.any_eq_true, beq_iff_eq] at h
  exact h.1

/-- a path that starts at an instruction node consists of instruction nodes with increasing lines -/
theorem instr_path_sorted (es : List Edge) (hfw : ForwardEdges es) (a : Node) (rest : List Node)
    (hp : isPath es (a :: rest) = true) (ha : a.load = false) :
    (∀ n ∈ a :: rest, n.load = false) ∧ ((a :: rest).map (·.line)).Pairwise (· < ·) := by
  induction rest generalizing a with
  | nil => simp [ha]
  | cons b rest ih =>
    obtain ⟨e, he, hs, hd⟩ := edge_of_isPath es a b rest hp
    obtain ⟨hdl, hdir⟩ := hfw e he
    rw [hs, hd] at hdir
    rw [hd] at hdl
    have hlt : a.line < b.line := by
      rcases hdir with h | h
      · exact h.2
      · rw [ha] at h; cases h.1
    obtain ⟨hall, hsorted⟩ := ih b (isPath_tail es a _ hp) hdl
    refine ⟨?_, ?_⟩
    · intro n hn
      rcases List.mem_cons.mp hn with rfl | hn
      · exact ha
      · exact hall n hn
    · simp only [List.map_cons, List.pairwise_cons] at hsorted ⊢
      refine ⟨?_, hsorted⟩
      intro x hx
      rcases List.mem_cons.mp hx with rfl | hx
      · exact hlt
      · exact Nat.lt_trans hlt (hsorted.1 x hx)

/-- the instruction part of a genuine path is a genuine path with increasing lines -/
theorem instrPart_sorted (es : List Edge) (hfw : ForwardEdges es) (p : List Node)
    (hp : isPath es p = true) :
    isPath es (instrPart p) = true ∧ ((instrPart p).map (·.line)).Pairwise (· < ·) := by
  match p, hp with
  | [], _ => simp [instrPart, isPath]
  | [a], _ => simp [instrPart, isPath]
  | a :: b :: rest, hp =>
    by_cases ha : a.load = true
    · simp only [instrPart, ha, if_true]
      obtain ⟨e, he, hs, hd⟩ := edge_of_isPath es a b rest hp
      have hb : b.load = false := by rw [← hd]; exact (hfw e he).1
      have htail := isPath_tail es a _ hp
      exact ⟨htail, (instr_path_sorted es hfw b rest htail hb).2⟩
    · have ha' : a.load = false := by simpa using ha
      simp only [instrPart, ha', Bool.false_eq_true, if_false]
      exact ⟨hp, (instr_path_sorted es hfw a _ hp ha').2⟩

theorem instrPart_subset (p : List Node) : ∀ n ∈ instrPart p, n ∈ p := by
  match p with
  | [] => simp [instrPart]
  | [a] => simp [instrPart]
  | a :: b :: rest =>
    intro n hn
    simp only [instrPart] at hn
    split at hn
    · exact List.mem_cons_of_mem _ hn
    · exact hn

theorem instrPart_ne_nil (p : List Node) (hp : p ≠ []) : instrPart p ≠ [] := by
  match p, hp with
  | [a], _ => simp [instrPart]
  | a :: b :: rest, _ => simp only [instrPart]; split <;> simp

/-- **what the assignment loop leaves behind**: one value per node of the instruction part — the
    value assigned for the leading load node is overwritten by the next assignment -/
theorem assign_eq_entries (lat : Nat → Rat) (es : List Edge) (hfw : ForwardEdges es) (p : List Node)
    (hp : isPath es p = true) :
    cpReport.assign lat (edgeW es) [] p = entries lat (edgeW es) (instrPart p) := by
  have hs := (instrPart_sorted es hfw p hp).2
  match p, hp, hs with
  | [], _, _ => rfl
  | [a], _, _ => rfl
  | a :: b :: rest, hp, hs =>
    by_cases ha : a.load = true
    · simp only [instrPart, ha, if_true] at hs ⊢
      obtain ⟨e, he, hsrc, hdst⟩ := edge_of_isPath es a b rest hp
      have hline : a.line = b.line := by
        rcases (hfw e he).2 with h | h
        · rw [hsrc, ha] at h; cases h.1
        · rw [hsrc, hdst] at h; exact h.2
      rw [show cpReport.assign lat (edgeW es) [] (a :: b :: rest) =
        cpReport.assign lat (edgeW es) (([] : List (Nat × Rat)).filter (·.1 != a.line) ++
          [(a.line, edgeW es a b)]) (b :: rest) from rfl]
      rw [assign_nodup lat (edgeW es) (b :: rest) (nodup_of_sorted _ hs)]
      simp [hline]
    · have ha' : a.load = false := by simpa using ha
      simp only [instrPart, ha', Bool.false_eq_true, if_false] at hs ⊢
      rw [assign_nodup lat (edgeW es) _ (nodup_of_sorted _ hs)]
      simp

/-- **the reported total of a genuine path**: the edge weights along its instruction part plus the
    latency of its last instruction — the weight of a leading load edge is lost -/
theorem cpReport_total (k : List Ins) (hk : (k.map (·.line)).Nodup) (es : List Edge)
    (hfw : ForwardEdges es) (p : List Node) (hne : p ≠ []) (hp : isPath es p = true)
    (hin : ∀ n ∈ p, n.line ∈ k.map (·.line)) :
    ((cpReport k es p).map (·.2)).sum =
      pathW (edgeW es) (instrPart p) + latOfK k (lastLine (instrPart p)) := by
  rw [cpReport_eq, assign_eq_entries (latOfK k) es hfw p hp]
  have hs := (instrPart_sorted es hfw p hp).2
  rw [report_total k hk _ (by rw [entries_keys]; exact nodup_of_sorted _ hs) ?_]
  · exact entries_sum _ _ _ (instrPart_ne_nil p hne)
  · intro e he
    have : e.1 ∈ (entries (latOfK k) (edgeW es) (instrPart p)).map (·.1) := List.mem_map.mpr ⟨e, he, rfl⟩
    rw [entries_keys] at this
    obtain ⟨n, hn, hnl⟩ := List.mem_map.mp this
    rw [← hnl]
    exact hin n (instrPart_subset p n hn)

/-! ### the chain a path stands for -/

/-- load stage of an instruction as the oracle of C04 uses it: `lat − latWoLoad` if the instruction
    has a separate load node (and `latWoLoad` is known), else 0 -/
def loadStageOf (i : Ins) : Rat :=
  if i.hasLd && !i.isLd then (match i.latWoLoad with | some l => i.lat - l | none => 0) else 0

/-- instruction table of the oracle -/
def infosOf (k : List Ins) : List LatInfo := k.map fun i => ⟨i.line, i.lat, loadStageOf i⟩

/-- edge list of the oracle: the edges between instruction nodes -/
def wedgesOf (es : List Edge) : List WEdge :=
  es.filterMap fun e => if !e.src.load && !e.dst.load then some ⟨e.src.line, e.dst.line, e.w⟩ else none

/-- all load stages are non-negative (`latWoLoad ≤ lat`) -/
def NonnegStages (k : List Ins) : Prop := ∀ i ∈ k, 0 ≤ loadStageOf i

instance (k : List Ins) : Decidable (NonnegStages k) := by unfold NonnegStages; infer_instance

theorem infosOf_lines (k : List Ins) : (infosOf k).map (·.line) = k.map (·.line) := by
  simp [infosOf, List.map_map, Function.comp_def]

theorem latOf_infosOf (k : List Ins) (l : Nat) : latOf (infosOf k) l = latOfK k l := by
  unfold latOf latOfK infosOf
  induction k with
  | nil => rfl
  | cons i k ih =>
    simp only [List.map_cons, List.find?_cons]
    cases h : (i.line == l) with
    | true => rfl
    | false => exact ih

theorem stageOf_infosOf_nonneg (k : List Ins) (hst : NonnegStages k) (l : Nat) :
    0 ≤ stageOf (infosOf k) l := by
  unfold stageOf infosOf
  induction k with
  | nil => simp
  | cons i k ih =>
    simp only [List.map_cons, List.find?_cons]
    cases h : (i.line == l) with
    | true => exact hst i List.mem_cons_self
    | false => exact ih (fun j hj => hst j (List.mem_cons_of_mem _ hj))

/-- the weighted edges along a path of instruction nodes -/
def edgesOf (es : List Edge) : List Node → List WEdge
  | a :: b :: rest => ⟨a.line, b.line, edgeW es a b⟩ :: edgesOf es (b :: rest)
  | _ => []

def headLine : List Node → Nat
  | [] => 0
  | a :: _ => a.line

/-- the dependency chain a path stands for: its instructions, linked by the path's edges -/
def chainOf (es : List Edge) (p : List Node) : Chain :=
  ⟨headLine (instrPart p), edgesOf es (instrPart p)⟩

theorem edgesOf_sum (es : List Edge) (q : List Node) :
    ((edgesOf es q).map (·.w)).sum = pathW (edgeW es) q := by
  induction q with
  | nil => rfl
  | cons a rest ih =>
    cases rest with
    | nil => rfl
    | cons b rest => simp only [edgesOf, List.map_cons, List.sum_cons, pathW, ih]

theorem edgesOf_end (es : List Edge) (q : List Node) (hq : q ≠ []) :
    endOf (headLine q) (edgesOf es q) = lastLine q := by
  induction q with
  | nil => exact absurd rfl hq
  | cons a rest ih =>
    cases rest with
    | nil => rfl
    | cons b rest =>
      simp only [edgesOf, endOf, lastLine]
      exact ih (by simp)

theorem edgesOf_linked (es : List Edge) (q : List Node) : linked (headLine q) (edgesOf es q) = true := by
  induction q with
  | nil => rfl
  | cons a rest ih =>
    cases rest with
    | nil => rfl
    | cons b rest =>
      simp only [edgesOf, linked, headLine, beq_self_eq_true, Bool.true_and]
      exact ih

theorem edgesOf_mem (es : List Edge) (q : List Node) (hq : isPath es q = true)
    (hload : ∀ n ∈ q, n.load = false) :
    ∀ e ∈ edgesOf es q, e ∈ wedgesOf es ∧ ∃ n ∈ q, n.line = e.dst := by
  induction q with
  | nil => simp [edgesOf]
  | cons a rest ih =>
    cases rest with
    | nil => simp [edgesOf]
    | cons b rest =>
      intro e he
      simp only [edgesOf, List.mem_cons] at he
      rcases he with rfl | he
      · refine ⟨?_, b, by simp, rfl⟩
        obtain ⟨f, hf, hs, hd⟩ := edge_of_isPath es a b rest hq
        have hfind : ∃ g, es.find? (fun e => e.src == a && e.dst == b) = some g := by
          cases h : es.find? (fun e => e.src == a && e.dst == b) with
          | some g => exact ⟨g, rfl⟩
          | none =>
            rw [List.find?_eq_none] at h
            exact absurd (by simp [hs, hd]) (h f hf)
        obtain ⟨g, hg⟩ := hfind
        have hgm := List.mem_of_find?_eq_some hg
        have hgp := List.find?_some hg
        simp only [Bool.and_eq_true, beq_iff_eq] at hgp
        simp only [wedgesOf, List.mem_filterMap]
        refine ⟨g, hgm, ?_⟩
        have h1 : g.src.load = false := by rw [hgp.1]; exact hload a (by simp)
        have h2 : g.dst.load = false := by rw [hgp.2]; exact hload b (by simp)
        rw [hgp.1] at h1; rw [hgp.2] at h2
        simp [h1, h2, hgp.1, hgp.2, edgeW, hg]
      · obtain ⟨h1, n, hn, hnl⟩ := ih (isPath_tail es a _ hq)
          (fun n hn => hload n (List.mem_cons_of_mem _ hn)) e he
        exact ⟨h1, n, List.mem_cons_of_mem _ hn, hnl⟩

/-- the instruction part of a genuine path with ≥ 2 nodes consists of instruction nodes -/
theorem instrPart_load (es : List Edge) (hfw : ForwardEdges es) (p : List Node) (hp : isPath es p = true)
    (h2 : (edgesOf es (instrPart p)) ≠ []) : ∀ n ∈ instrPart p, n.load = false := by
  match p, hp with
  | [], _ => simp [instrPart]
  | [a], _ => simp [instrPart, edgesOf] at h2
  | a :: b :: rest, hp =>
    by_cases ha : a.load = true
    · simp only [instrPart, ha, if_true]
      obtain ⟨e, he, hs, hd⟩ := edge_of_isPath es a b rest hp
      have hb : b.load = false := by rw [← hd]; exact (hfw e he).1
      exact (instr_path_sorted es hfw b rest (isPath_tail es a _ hp) hb).1
    · have ha' : a.load = false := by simpa using ha
      simp only [instrPart, ha', Bool.false_eq_true, if_false]
      exact (instr_path_sorted es hfw a _ hp ha').1

/-- the chain of a genuine path is a genuine chain of the oracle's graph -/
theorem chainOf_valid (k : List Ins) (es : List Edge) (hfw : ForwardEdges es) (p : List Node)
    (hne : p ≠ []) (hp : isPath es p = true) (hin : ∀ n ∈ p, n.line ∈ k.map (·.line)) :
    (chainOf es p).Valid (infosOf k) (wedgesOf es) := by
  have hq := instrPart_sorted es hfw p hp
  have hmemInfos : ∀ l, l ∈ k.map (·.line) → ∃ i ∈ infosOf k, i.line = l := by
    intro l hl
    rw [← infosOf_lines] at hl
    obtain ⟨i, hi, hil⟩ := List.mem_map.mp hl
    exact ⟨i, hi, hil⟩
  refine ⟨?_, ?_, edgesOf_linked es _⟩
  · have hne' := instrPart_ne_nil p hne
    cases hq' : instrPart p with
    | nil => exact absurd hq' hne'
    | cons a rest =>
      apply hmemInfos
      simp only [chainOf, hq', headLine]
      exact hin a (instrPart_subset p a (by rw [hq']; simp))
  · intro e he
    simp only [chainOf] at he
    have hload := instrPart_load es hfw p hp (List.ne_nil_of_mem he)
    obtain ⟨h1, n, hn, hnl⟩ := edgesOf_mem es _ hq.1 hload e he
    exact ⟨h1, hmemInfos _ (hnl ▸ hin n (instrPart_subset p n hn))⟩

/-- length of the chain of a path, spelled out -/
theorem chainOf_len (k : List Ins) (es : List Edge) (p : List Node) (hne : p ≠ []) :
    (chainOf es p).len (infosOf k) =
      (if edgesOf es (instrPart p) = [] then 0
        else stageOf (infosOf k) (headLine (instrPart p))) +
      pathW (edgeW es) (instrPart p) + latOfK k (lastLine (instrPart p)) := by
  have hne' := instrPart_ne_nil p hne
  by_cases h : edgesOf es (instrPart p) = []
  · rw [if_pos h]
    have hpw : pathW (edgeW es) (instrPart p) = 0 := by rw [← edgesOf_sum, h]; rfl
    have hend := edgesOf_end es _ hne'
    rw [h] at hend
    simp only [endOf] at hend
    simp only [Chain.len, chainOf, h, hpw, latOf_infosOf, hend]
    ring
  · rw [if_neg h, Chain.len_of_ne _ _ h]
    simp only [Chain.pv, chainOf, edgesOf_sum, edgesOf_end es _ hne', latOf_infosOf]

end OsacaVerif.LCD
