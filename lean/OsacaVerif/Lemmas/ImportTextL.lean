import OsacaVerif.Model.Import
/-
  Text-level facts of the ibench line format (C20): `NAME-TP` / `NAME-LT` dispatch and the key
  `MNEMONIC-OPERANDS` of a line.  Core Lean only.
-/
set_option linter.unusedSimpArgs false
namespace OsacaVerif.Import
open OsacaVerif.Text OsacaVerif.ImportText OsacaVerif.Gen.Import

/-- `rstrip` leaves a text alone whose tail `b` it leaves alone (and which is not empty) -/
theorem rstrip_append (a b : Txt) (hb : b ≠ []) (h : rstrip b = b) : rstrip (a ++ b) = a ++ b := by
  induction a with
  | nil => simpa using h
  | cons x a ih =>
    simp only [List.cons_append, rstrip, ih]
    cases hab : a ++ b with
    | nil => simp at hab; exact absurd hab.2 hb
    | cons _ _ => rfl

theorem endsWith_append (a b : Txt) : endsWith (a ++ b) b = true := by
  unfold endsWith
  rw [List.isSuffixOf_iff_suffix]
  exact List.suffix_append a b

theorem not_endsWith_of_length (a b c : Txt) (hl : b.length = c.length) (hne : b ≠ c) :
    endsWith (a ++ b) c = false := by
  unfold endsWith
  cases h : c.isSuffixOf (a ++ b) with
  | false => rfl
  | true =>
    rw [List.isSuffixOf_iff_suffix] at h
    have h2 : b <:+ a ++ b := List.suffix_append a b
    have : c = b := by
      have := List.suffix_of_suffix_length_le h h2 (by omega)
      exact this.eq_of_length hl.symm
    exact absurd this.symm hne

/-- **dispatch of the repaired code**: a name ending in `-TP` is a throughput line … -/
theorem hasTag_tp (k : Txt) : hasTag ibTpTag (k ++ ibTpTag) = true := by
  have hr : rstrip (k ++ ibTpTag) = k ++ ibTpTag := rstrip_append k ibTpTag (by decide) (by decide)
  simp only [hasTag, ibDispatchRstrip, ibDispatchSuffix, if_true, hr]
  exact endsWith_append k ibTpTag

/-- … whatever the mnemonic contains, a name ending in `-LT` is not a throughput line … -/
theorem hasTag_tp_on_lt (k : Txt) : hasTag ibTpTag (k ++ ibLtTag) = false := by
  have hr : rstrip (k ++ ibLtTag) = k ++ ibLtTag := rstrip_append k ibLtTag (by decide) (by decide)
  simp only [hasTag, ibDispatchRstrip, ibDispatchSuffix, if_true, hr]
  exact not_endsWith_of_length k ibLtTag ibTpTag (by decide) (by decide)

/-- … and is a latency line -/
theorem hasTag_lt (k : Txt) : hasTag ibLtTag (k ++ ibLtTag) = true := by
  have hr : rstrip (k ++ ibLtTag) = k ++ ibLtTag := rstrip_append k ibLtTag (by decide) (by decide)
  simp only [hasTag, ibDispatchRstrip, ibDispatchSuffix, if_true, hr]
  exact endsWith_append k ibLtTag

/-! ### fields and the key -/

theorem splitOn_no_sep (sep : Nat) (a : Txt) (h : sep ∉ a) : splitOn sep a = [a] := by
  induction a with
  | nil => rfl
  | cons c cs ih =>
    have hc : c ≠ sep := fun e => h (e ▸ List.mem_cons_self)
    have hcs : sep ∉ cs := fun m => h (List.mem_cons_of_mem _ m)
    simp [splitOn, hc, ih hcs]

theorem splitOn_append (sep : Nat) (a b : Txt) (h : sep ∉ a) :
    splitOn sep (a ++ sep :: b) = a :: splitOn sep b := by
  induction a with
  | nil => simp [splitOn]
  | cons c cs ih =>
    have hc : c ≠ sep := fun e => h (e ▸ List.mem_cons_self)
    have hcs : sep ∉ cs := fun m => h (List.mem_cons_of_mem _ m)
    simp [splitOn, hc, ih hcs]

/-- the key of `MNEMONIC-OPERANDS-<anything>` is `MNEMONIC-OPERANDS` -/
theorem keyOf_form (mn ops tail : Txt) (h1 : 45 ∉ mn) (h2 : 45 ∉ ops) :
    keyOf (mn ++ 45 :: (ops ++ 45 :: tail)) = mn ++ 45 :: ops := by
  unfold keyOf
  simp only [ibDash, ibKeyFields]
  rw [splitOn_append 45 mn _ h1, splitOn_append 45 ops _ h2]
  simp [join]

/-- the instruction name is the text before the first colon -/
theorem viewLine_instr (name rest : Txt) (h : 58 ∉ name) :
    (viewLine (name ++ 58 :: rest)).instr = name := by
  unfold viewLine
  simp only [ibColon]
  rw [splitOn_append 58 name _ h]
  rfl

end OsacaVerif.Import
