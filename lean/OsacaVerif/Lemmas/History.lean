import OsacaVerif.Model.History
/-
  Helper lemmas for C18: a safe configuration never writes to the Db; consequences for
  `semantics`, `analyse`, `runHistory`, `inspect`, `runProc`.
-/
namespace OsacaVerif.History

theorem safe_cases {cfg : Cfg} (h : cfg.safe = true) : cfg.rmwInPlace = false ∨ cfg.loadByRef = false := by
  unfold Cfg.safe at h
  cases h1 : cfg.rmwInPlace <;> cases h2 : cfg.loadByRef <;> simp_all

/-- with `loadByRef = false` every load value is owned -/
theorem loadVal_own {cfg : Cfg} (h : cfg.loadByRef = false) (db : Db) (m : Mem) :
    ∃ u, loadVal cfg db m = .own u := by
  cases m <;> simp [loadVal, h]

theorem composeRmw_db {cfg : Cfg} (h : cfg.safe = true) (db : Db) (m : Mem) (s : Uops) :
    (composeRmw cfg db (loadVal cfg db m) s).1 = db := by
  rcases safe_cases h with h1 | h2
  · unfold composeRmw
    simp only [h1]
    by_cases hf : cfg.rmwLoadFirst <;> simp [hf, extendFresh]
  · obtain ⟨u, hu⟩ := loadVal_own h2 db m
    rw [hu]
    unfold composeRmw
    by_cases hi : cfg.rmwInPlace
    · simp [hi, extendInPlace]
    · by_cases hf : cfg.rmwLoadFirst <;> simp [hi, hf, extendFresh]

theorem stepIns_db {cfg : Cfg} (h : cfg.safe = true) (db : Db) (i : Ins) : (stepIns cfg db i).1 = db := by
  cases i <;> simp [stepIns, composeRmw_db h]

theorem step_db {cfg : Cfg} (h : cfg.safe = true) (st : Db × List Row) (l : Line) :
    (step cfg st l).1 = st.1 := by
  simp [step, stepIns_db h]

theorem foldl_step_db {cfg : Cfg} (h : cfg.safe = true) (k : Kernel) (st : Db × List Row) :
    (k.foldl (step cfg) st).1 = st.1 := by
  induction k generalizing st with
  | nil => rfl
  | cons l ls ih => simp [List.foldl, ih, step_db h]

theorem semantics_db {cfg : Cfg} (h : cfg.safe = true) (db : Db) (k : Kernel) :
    (semantics cfg db k).1 = db := by
  simp [semantics, foldl_step_db h]

end OsacaVerif.History
