import OsacaVerif.Lemmas.PipelineRen
import OsacaVerif.Lemmas.CpRepaired
/-
  Helper development for the pipeline theorems, part 4: the critical path (table, total, chosen
  last line, walk back, marks) commutes with an order-preserving renaming.
-/
namespace OsacaVerif.Pipeline
open OsacaVerif OsacaVerif.DG OsacaVerif.LCD

def renCand (f : Nat → Nat) (c : Rat × Nat) : Rat × Nat := (c.1, f c.2)

def renCpRow (f : Nat → Nat) (r : CpRow) : CpRow :=
  { line := f r.line, longer := r.longer.map (renCand f), carried := (r.carried.1, r.carried.2.map f) }

theorem find?_map' {α β : Type} (g : α → β) (p : β → Bool) (l : List α) :
    (l.map g).find? p = (l.find? (fun x => p (g x))).map g := by
  induction l with
  | nil => rfl
  | cons x xs ih =>
    simp only [List.map_cons, List.find?_cons]
    cases p (g x) with
    | true => rfl
    | false => exact ih

theorem loadEdgeOf_ren {f : Nat → Nat} (hf : Incr f) (es : List Edge) (l : Nat) :
    loadEdgeOf (es.map (renEdge f)) (f l) = loadEdgeOf es l := by
  unfold loadEdgeOf
  rw [find?_map']
  have : (fun x => (renEdge f x).src == ⟨f l, true⟩ && (renEdge f x).dst == ⟨f l, false⟩) =
      (fun e : Edge => e.src == ⟨l, true⟩ && e.dst == ⟨l, false⟩) := by
    funext e
    show (renNode f e.src == renNode f ⟨l, true⟩ && renNode f e.dst == renNode f ⟨l, false⟩) = _
    rw [renNode_beq hf, renNode_beq hf]
  rw [this]
  cases es.find? (fun e : Edge => e.src == ⟨l, true⟩ && e.dst == ⟨l, false⟩) <;> rfl

theorem firstMax_ren (f : Nat → Nat) (cs : List (Rat × Nat)) :
    LCD.firstMax (cs.map (renCand f)) = (LCD.firstMax cs).map (renCand f) := by
  cases cs with
  | nil => rfl
  | cons c cs =>
    simp only [List.map_cons, LCD.firstMax, Option.map_some, Option.some.injEq]
    induction cs generalizing c with
    | nil => rfl
    | cons y ys ih =>
      simp only [List.map_cons, List.foldl_cons]
      have h1 : (renCand f c).1 = c.1 := rfl
      have h2 : (renCand f y).1 = y.1 := rfl
      rw [h1, h2]
      split
      · exact ih y
      · exact ih c

theorem find_row_ren {f : Nat → Nat} (hf : Incr f) (acc : List CpRow) (l : Nat) :
    (acc.map (renCpRow f)).find? (fun r => r.line == f l) = (acc.find? (fun r => r.line == l)).map (renCpRow f) := by
  rw [find?_map']
  have : (fun x => (renCpRow f x).line == f l) = (fun r : CpRow => r.line == l) := by
    funext r
    show (f r.line == f l) = _
    rw [hf.beq]
  rw [this]

theorem cpStep_ren {f : Nat → Nat} (hf : Incr f) (es : List Edge) (acc : List CpRow) (i : Ins) :
    cpStep (es.map (renEdge f)) (acc.map (renCpRow f)) (renIns f i) = (cpStep es acc i).map (renCpRow f) := by
  unfold cpStep
  have hl : (renIns f i).line = f i.line := rfl
  simp only [hl, loadEdgeOf_ren hf]
  have hc : (es.map (renEdge f)).filterMap (fun e =>
        if (!e.src.load && !e.dst.load && e.dst.line == f i.line) = true then
          ((acc.map (renCpRow f)).find? (fun r => r.line == e.src.line)).map fun r => (r.carried.1 + e.w, e.src.line)
        else none) =
      (es.filterMap (fun e =>
        if (!e.src.load && !e.dst.load && e.dst.line == i.line) = true then
          (acc.find? (fun r => r.line == e.src.line)).map fun r => (r.carried.1 + e.w, e.src.line)
        else none)).map (renCand f) := by
    rw [List.filterMap_map, List.map_filterMap]
    apply filterMap_congr_mem
    intro e _
    simp only [Function.comp_apply]
    have h1 : (!(renEdge f e).src.load && !(renEdge f e).dst.load && (renEdge f e).dst.line == f i.line) =
        (!e.src.load && !e.dst.load && e.dst.line == i.line) := by
      show (!e.src.load && !e.dst.load && f e.dst.line == f i.line) = _
      rw [hf.beq]
    rw [h1]
    split
    · have h2 : (renEdge f e).src.line = f e.src.line := rfl
      have h3 : (renEdge f e).w = e.w := rfl
      rw [h2, h3, find_row_ren hf]
      cases acc.find? (fun r => r.line == e.src.line) <;> rfl
    · rfl
  rw [hc, firstMax_ren]
  rw [List.map_append]
  congr 1
  simp only [List.map_cons, List.map_nil, List.cons.injEq, and_true]
  cases hfm : LCD.firstMax (es.filterMap (fun e =>
        if (!e.src.load && !e.dst.load && e.dst.line == i.line) = true then
          (acc.find? (fun r => r.line == e.src.line)).map fun r => (r.carried.1 + e.w, e.src.line)
        else none)) with
  | none => rfl
  | some vp =>
    obtain ⟨v, p⟩ := vp
    simp only [Option.map_some, renCand, renCpRow]
    split <;> rfl

theorem cpTable_ren {f : Nat → Nat} (hf : Incr f) (k : List Ins) (es : List Edge) :
    cpTable (k.map (renIns f)) (es.map (renEdge f)) = (cpTable k es).map (renCpRow f) := by
  unfold cpTable
  suffices h : ∀ acc : List CpRow, (k.map (renIns f)).foldl (cpStep (es.map (renEdge f))) (acc.map (renCpRow f)) =
      (k.foldl (cpStep es) acc).map (renCpRow f) by simpa using h []
  induction k with
  | nil => intro acc; rfl
  | cons i k ih =>
    intro acc
    simp only [List.map_cons, List.foldl_cons]
    rw [cpStep_ren hf, ih]

theorem chainLengthAt_ren {f : Nat → Nat} (hf : Incr f) (k k' : List Ins) (T : List CpRow) (i : Ins) :
    chainLengthAt k' (T.map (renCpRow f)) (renIns f i) = chainLengthAt k T i := by
  unfold chainLengthAt
  have hl : (renIns f i).line = f i.line := rfl
  have hlat : (renIns f i).lat = i.lat := rfl
  rw [hl, hlat, find_row_ren hf]
  cases T.find? (fun r => r.line == i.line) with
  | none => rfl
  | some r =>
    simp only [Option.map_some, Option.bind_some, renCpRow]
    cases r.longer <;> rfl

theorem cpTotal_ren {f : Nat → Nat} (hf : Incr f) (k : List Ins) (es : List Edge) :
    cpTotal (k.map (renIns f)) (es.map (renEdge f)) = cpTotal k es := by
  unfold cpTotal
  simp only [cpTable_ren hf, List.map_map]
  have : (chainLengthAt (k.map (renIns f)) ((cpTable k es).map (renCpRow f)) ∘ renIns f) =
      chainLengthAt k (cpTable k es) := by
    funext i; exact chainLengthAt_ren hf k _ _ i
  rw [this]

theorem cpLast_ren {f : Nat → Nat} (hf : Incr f) (k : List Ins) (T : List CpRow) :
    cpLast (k.map (renIns f)) (T.map (renCpRow f)) = (cpLast k T).map (renIns f) := by
  cases k with
  | nil => rfl
  | cons i is =>
    simp only [List.map_cons, cpLast, Option.map_some, Option.some.injEq]
    generalize hk' : (renIns f i :: is.map (renIns f)) = k'
    generalize hk : (i :: is) = k0
    clear hk' hk
    induction is generalizing i with
    | nil => rfl
    | cons y ys ih =>
      simp only [List.map_cons, List.foldl_cons]
      rw [chainLengthAt_ren hf k0 k' T i, chainLengthAt_ren hf k0 k' T y]
      split
      · exact ih y
      · exact ih i

theorem cpPredOf_ren {f : Nat → Nat} (hf : Incr f) (T : List CpRow) (p : Nat) :
    cpPredOf (T.map (renCpRow f)) (f p) = (cpPredOf T p).map f := by
  unfold cpPredOf
  rw [find_row_ren hf]
  cases T.find? (fun r => r.line == p) <;> rfl

theorem cpBack_ren {f : Nat → Nat} (hf : Incr f) (T : List CpRow) (fuel : Nat) (o : Option Nat) (acc : List Nat) :
    cpBack (T.map (renCpRow f)) fuel (o.map f) (acc.map f) = (cpBack T fuel o acc).map f := by
  induction fuel generalizing o acc with
  | zero => rfl
  | succ n ih =>
    cases o with
    | none => rfl
    | some p =>
      simp only [Option.map_some, cpBack]
      rw [cpPredOf_ren hf]
      have := ih (cpPredOf T p) (p :: acc)
      simpa using this

theorem cpPath_ren {f : Nat → Nat} (hf : Incr f) (k : List Ins) (es : List Edge) :
    cpPath (k.map (renIns f)) (es.map (renEdge f)) = (cpPath k es).map f := by
  unfold cpPath
  simp only [cpTable_ren hf, cpLast_ren hf, List.length_map]
  cases cpLast k (cpTable k es) with
  | none => rfl
  | some i =>
    simp only [Option.map_some]
    have hl : (renIns f i).line = f i.line := rfl
    rw [hl, find_row_ren hf]
    have := cpBack_ren hf (cpTable k es) k.length
      (((cpTable k es).find? (fun r => r.line == i.line)).bind (fun r => r.longer.map (·.2))) [i.line]
    simp only [List.map_cons, List.map_nil] at this
    rw [← this]
    congr 1
    cases (cpTable k es).find? (fun r => r.line == i.line) with
    | none => rfl
    | some r =>
      simp only [Option.map_some, Option.bind_some, renCpRow]
      cases r.longer <;> rfl

theorem cpEdgeW_ren {f : Nat → Nat} (hf : Incr f) (es : List Edge) (a b : Nat) :
    cpEdgeW (es.map (renEdge f)) (f a) (f b) = cpEdgeW es a b := by
  unfold cpEdgeW
  rw [find?_map']
  have : (fun x => (renEdge f x).src == ⟨f a, false⟩ && (renEdge f x).dst == ⟨f b, false⟩) =
      (fun e : Edge => e.src == ⟨a, false⟩ && e.dst == ⟨b, false⟩) := by
    funext e
    show (renNode f e.src == renNode f ⟨a, false⟩ && renNode f e.dst == renNode f ⟨b, false⟩) = _
    rw [renNode_beq hf, renNode_beq hf]
  rw [this]
  cases es.find? (fun e : Edge => e.src == ⟨a, false⟩ && e.dst == ⟨b, false⟩) <;> rfl

theorem cpLatOf_ren {f : Nat → Nat} (hf : Incr f) (k : List Ins) (l : Nat) :
    cpLatOf (k.map (renIns f)) (f l) = cpLatOf k l := by
  unfold cpLatOf
  rw [find?_map']
  have : (fun x => (renIns f x).line == f l) = (fun i : Ins => i.line == l) := by
    funext i
    show (f i.line == f l) = _
    rw [hf.beq]
  rw [this]
  cases k.find? (fun i : Ins => i.line == l) <;> rfl

theorem cpMarksFrom_ren {f : Nat → Nat} (hf : Incr f) (k : List Ins) (es : List Edge) (path : List Nat) :
    cpMarksFrom (k.map (renIns f)) (es.map (renEdge f)) (path.map f) = (cpMarksFrom k es path).map (renPair f) := by
  induction path with
  | nil => rfl
  | cons a rest ih =>
    cases rest with
    | nil => simp only [List.map_cons, List.map_nil, cpMarksFrom, cpLatOf_ren hf, renPair]
    | cons b rest =>
      simp only [List.map_cons, cpMarksFrom, cpEdgeW_ren hf, renPair] at ih ⊢
      rw [ih]

/-- **the critical path commutes with an order-preserving renaming** -/
theorem cpMarks_ren {f : Nat → Nat} (hf : Incr f) (k : List Ins) (es : List Edge) :
    cpMarks (k.map (renIns f)) (es.map (renEdge f)) = (cpMarks k es).map (renPair f) := by
  unfold cpMarks
  rw [cpPath_ren hf]
  cases h : cpPath k es with
  | nil => rfl
  | cons a rest =>
    cases rest with
    | nil => exact cpMarksFrom_ren hf k es [a]
    | cons b rest =>
      simp only [List.map_cons]
      rw [loadEdgeOf_ren hf, cpEdgeW_ren hf]
      have := cpMarksFrom_ren hf k es (b :: rest)
      simp only [List.map_cons] at this
      rw [this]
      rfl

end OsacaVerif.Pipeline
