import OsacaVerif.Model.PyInt
/-
  Facts about the Python text helpers: decimal rendering round-trips through `int`, `split` undoes
  `join`, `strip` leaves digit strings alone.
-/
namespace OsacaVerif.PyInt
open OsacaVerif.Text

def IsDig (c : Nat) : Prop := 48 ≤ c ∧ c ≤ 57

theorem digitVal_dig {c : Nat} (h : IsDig c) : digitVal 10 c = some (c - 48) := by
  unfold IsDig at h
  unfold digitVal
  have h1 : (48 ≤ c ∧ c ≤ 57) := h
  simp only [h1, and_self, if_true]
  have : c - 48 < 10 := by omega
  simp [this]

theorem dig_ne_underscore {c : Nat} (h : IsDig c) : c ≠ 95 := by unfold IsDig at h; omega

/-- value of a digit string read from the left -/
def decVal (acc : Nat) (ds : Txt) : Nat := ds.foldl (fun a c => a * 10 + (c - 48)) acc

theorem digitsU_cons_dig (acc : Nat) (prev : Bool) (c : Nat) (cs : Txt) (h : IsDig c) :
    digitsU 10 acc prev (c :: cs) = digitsU 10 (acc * 10 + (c - 48)) true cs := by
  rw [digitsU]
  simp [dig_ne_underscore h, digitVal_dig h]

theorem digitsU_all_dig (ds : Txt) (h : ∀ c ∈ ds, IsDig c) (acc : Nat) :
    digitsU 10 acc true ds = some (decVal acc ds) := by
  induction ds generalizing acc with
  | nil => simp [digitsU, decVal]
  | cons c cs ih =>
    rw [digitsU_cons_dig acc true c cs (h c (by simp))]
    rw [ih (fun x hx => h x (by simp [hx]))]
    simp [decVal]

theorem digitsU_dig_ne_nil (ds : Txt) (h : ∀ c ∈ ds, IsDig c) (hne : ds ≠ []) (prev : Bool) :
    digitsU 10 0 prev ds = some (decVal 0 ds) := by
  cases ds with
  | nil => exact absurd rfl hne
  | cons c cs =>
    rw [digitsU_cons_dig 0 prev c cs (h c (by simp))]
    rw [digitsU_all_dig cs (fun x hx => h x (by simp [hx]))]
    simp [decVal]

theorem natDigits_ne_nil (n : Nat) : natDigits n ≠ [] := by
  rw [natDigits]; split <;> simp

theorem natDigits_dig (n : Nat) : ∀ c ∈ natDigits n, IsDig c := by
  induction n using Nat.strongRecOn with
  | _ n ih =>
    rw [natDigits]
    split
    · intro c hc
      simp at hc
      unfold IsDig; omega
    · intro c hc
      simp only [List.mem_append, List.mem_singleton] at hc
      cases hc with
      | inl h => exact ih (n / 10) (by omega) c h
      | inr h => unfold IsDig; omega

theorem decVal_natDigits (n : Nat) : decVal 0 (natDigits n) = n := by
  induction n using Nat.strongRecOn with
  | _ n ih =>
    rw [natDigits]
    split
    · simp [decVal]
    · have := ih (n / 10) (by omega)
      simp only [decVal, List.foldl_append, List.foldl_cons, List.foldl_nil] at this ⊢
      rw [this]; omega

theorem isIntSpaceC_dig {c : Nat} (h : IsDig c) : isIntSpaceC c = false := by
  unfold IsDig at h; unfold isIntSpaceC
  simp; omega

theorem stripWith_none (p : Nat → Bool) (t : Txt) (h : ∀ c ∈ t, p c = false) : stripWith p t = t := by
  have h1 : t.dropWhile p = t := by
    cases t with
    | nil => rfl
    | cons c cs => simp [h c (by simp)]
  unfold stripWith
  rw [h1]
  cases hr : t.reverse with
  | nil =>
    have : t = [] := by simpa using hr
    simp [this]
  | cons c cs =>
    have hc : c ∈ t := by
      have : c ∈ t.reverse := by rw [hr]; simp
      simpa using this
    simp only [List.dropWhile_cons, h c hc]
    rw [← hr]; simp

theorem signed_dig (body : Txt → Option Nat) (c : Nat) (cs : Txt) (h : IsDig c) :
    signed body (c :: cs) = (body (c :: cs)).map (fun n => (n : Int)) := by
  unfold IsDig at h
  unfold signed
  split
  · rename_i heq; simp at heq; omega
  · rename_i heq; simp at heq; omega
  · rfl

/-- **`int(str(n)) = n`** for every natural number -/
theorem pyInt10_natDigits (n : Nat) : pyInt10 (natDigits n) = some (n : Int) := by
  unfold pyInt10
  rw [stripWith_none _ _ (fun c hc => isIntSpaceC_dig (natDigits_dig n c hc))]
  cases hd : natDigits n with
  | nil => exact absurd hd (natDigits_ne_nil n)
  | cons c cs =>
    have hall : ∀ x ∈ c :: cs, IsDig x := by rw [← hd]; exact natDigits_dig n
    rw [signed_dig _ c cs (hall c (by simp))]
    rw [digitsU_dig_ne_nil (c :: cs) hall (by simp) false]
    rw [← hd, decVal_natDigits]
    rfl

/-! ### split / join -/

theorem splitOn_ne_nil (sep : Nat) (t : Txt) : splitOn sep t ≠ [] := by
  induction t with
  | nil => simp [splitOn]
  | cons c cs ih =>
    rw [splitOn]
    split
    · simp
    · split <;> simp

theorem splitOn_no_sep (sep : Nat) (t : Txt) (h : sep ∉ t) : splitOn sep t = [t] := by
  induction t with
  | nil => simp [splitOn]
  | cons c cs ih =>
    have hc : c ≠ sep := by intro e; apply h; simp [e]
    have hcs : sep ∉ cs := by intro e; apply h; simp [e]
    rw [splitOn, if_neg hc, ih hcs]

theorem splitOn_append_sep (sep : Nat) (a b : Txt) (h : sep ∉ a) :
    splitOn sep (a ++ sep :: b) = a :: splitOn sep b := by
  induction a with
  | nil => simp [splitOn]
  | cons c cs ih =>
    have hc : c ≠ sep := by intro e; apply h; simp [e]
    have hcs : sep ∉ cs := by intro e; apply h; simp [e]
    rw [List.cons_append, splitOn, if_neg hc, ih hcs]

theorem splitOn_joinWith (sep : Nat) (ps : List Txt) (hne : ps ≠ []) (h : ∀ p ∈ ps, sep ∉ p) :
    splitOn sep (joinWith sep ps) = ps := by
  induction ps with
  | nil => exact absurd rfl hne
  | cons p rest ih =>
    cases rest with
    | nil => simp [joinWith, splitOn_no_sep sep p (h p (by simp))]
    | cons q rest' =>
      rw [joinWith, splitOn_append_sep sep p _ (h p (by simp))]
      rw [ih (by simp) (fun x hx => h x (by simp [hx]))]

theorem map_joinWith (f : Nat → Nat) (sep : Nat) (ps : List Txt) :
    (joinWith sep ps).map f = joinWith (f sep) (ps.map (fun p => p.map f)) := by
  induction ps with
  | nil => rfl
  | cons p rest ih =>
    cases rest with
    | nil => simp [joinWith]
    | cons q rest' =>
      simp only [joinWith, List.map_append, List.map_cons] at ih ⊢
      rw [ih]

end OsacaVerif.PyInt
