import OsacaVerif.Lemmas.EndToEnd
import OsacaVerif.Lemmas.Compose
import OsacaVerif.Lemmas.Ports
import OsacaVerif.Props.C08
import OsacaVerif.Props.C01
import OsacaVerif.Lemmas.ReportTable
/-
  End to end, part 3: the record the pipeline hands to the report model is well-formed (`Report.WF`)
  — pressure vectors and used-port masks have one entry per port, texts contain no line feed, the
  column sums are empty or have one entry per port.
-/
namespace OsacaVerif.EndToEnd
open OsacaVerif OsacaVerif.Text OsacaVerif.ParseX86 OsacaVerif.Pipeline OsacaVerif.Compose OsacaVerif.Ports
open OsacaVerif.Lemmas.Compose

theorem handleFound_len (m : MModel) (e : Operand.Entry) (i : Ins) (r : Compose.Result)
    (h : handleFound m e i = .ok r) : r.pressure.length = m.ports.length := by
  unfold handleFound at h
  simp only [bind_ok] at h
  obtain ⟨v, hv, _, _, _, _, _, _, hr⟩ := h
  simp only [pure, Except.pure, Except.ok.injEq] at hr
  obtain ⟨us, _, hu, _⟩ := averageY_ok m.ports e.pp v hv
  rw [← hr]
  simp only
  rw [hu]
  exact length_uniform _ _

theorem compose_len (m : MModel) (e : Operand.Entry) (i : Ins) (ops' : List Operand.POperand) (r : Compose.Result)
    (h : compose m e i ops' = .ok r) : r.pressure.length = m.ports.length := by
  obtain ⟨p, _, hn, _, _, _, _, _, _, _, _, _, _, _, _, hc⟩ := Props.C08.compose_spec m e i ops' r h
  have := hc.pressure
  simp only [Props.C08.observed] at this
  rw [this, length_uniform, hn]

/-- `assign_tp_lt` leaves one pressure value per port of the model -/
theorem assignTpLt_len (m : MModel) (i : Ins) (r : Compose.Result) (h : assignTpLt m i = .ok r) :
    r.pressure.length = m.ports.length := by
  unfold assignTpLt at h
  split at h
  · cases h; simp [nonInstruction, zerosN, zeros]
  · split at h
    · exact handleFound_len m _ i r h
    · split at h
      · simp only at h
        split at h
        · exact compose_len m _ i _ r h
        · cases h; simp [unknown, zerosN, zeros]
      · cases h; simp [unknown, zerosN, zeros]

theorem usedMask_len (ports : List Txt) (u : Option (List Y)) : (Glue.usedMask ports u).length = ports.length := by
  simp [Glue.usedMask]

theorem semOfStages_lens (isa : Operand.Isa) (m : Model) (f : Glue.Form) (s : Pipeline.Sem)
    (h : semOfStages m (stagesOf isa m f) = .ok s) :
    s.pressure.length = m.mm.ports.length ∧ s.used.length = m.mm.ports.length := by
  unfold semOfStages at h
  cases ht : (stagesOf isa m f).tplt with
  | error e => simp [ht] at h
  | ok t =>
    simp only [ht] at h
    cases hc : (stagesOf isa m f).changes with
    | error e => simp [hc] at h
    | ok ch =>
      cases hcp : (stagesOf isa m f).changesPost with
      | error e => simp [hc, hcp] at h
      | ok chp =>
        simp only [hc, hcp, Except.ok.injEq] at h
        rw [← h]
        exact ⟨assignTpLt_len m.mm _ t (by simpa [stagesOf] using ht), usedMask_len _ _⟩

/-- a line of the file that carries no exception: one pressure value and one mask bit per port -/
theorem lineOfText_lens (isa : Operand.Isa) (m : Model) (n : Nat) (t : Txt) (h : (lineOfText isa m n t).err = none) :
    (semOf m.mm.ports.length (lineOfText isa m n t).pl).pressure.length = m.mm.ports.length ∧
    (semOf m.mm.ports.length (lineOfText isa m n t).pl).used.length = m.mm.ports.length := by
  have hnoise : (noiseSem m.mm.ports.length).pressure.length = m.mm.ports.length ∧
      (noiseSem m.mm.ports.length).used.length = m.mm.ports.length := by simp [noiseSem, zeros]
  unfold lineOfText at h ⊢
  cases hp : parseLineOf isa t with
  | err e => simp only [semOf, PLine.isInstr]; exact hnoise
  | ok f =>
    simp only [hp, lineOf] at h ⊢
    cases hs : semOfStages m (stagesOf isa m f) with
    | error e => simp [hs] at h
    | ok s =>
      simp only [semOf]
      split
      · exact semOfStages_lens isa m f s hs
      · exact hnoise

theorem numbered_mem_text (s i : Nat) (ls : List Txt) : ∀ p ∈ numbered s i ls, p.2 ∈ ls := by
  induction ls generalizing i with
  | nil => intro p hp; cases hp
  | cons l ls ih =>
    intro p hp
    simp only [numbered] at hp
    split at hp
    · exact List.mem_cons_of_mem _ (ih (i + 1) p hp)
    · rcases List.mem_cons.mp hp with h | h
      · subst h; simp
      · exact List.mem_cons_of_mem _ (ih (i + 1) p h)

theorem colSums_len (skip : Rat) (digits n : Nat) (k : List Ports.Line) (hl : ∀ l ∈ k, l.pressure.length = n) :
    Ports.colSums skip digits k = [] ∨ (Ports.colSums skip digits k).length = n := by
  unfold Ports.colSums
  by_cases hne : (k.filter (·.tp != skip)) = []
  · left; simp [Ports.colSumsExact, hne]
  · right
    rw [List.length_map]
    exact (Props.C01.colSums_spec skip n k hl hne 0).1

end OsacaVerif.EndToEnd
