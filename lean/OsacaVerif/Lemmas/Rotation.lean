import OsacaVerif.Lemmas.LcdChar
/-
  Helper development for C14: transporting dependency cycles between two bodies whose stream
  relations differ by a shift (a rotation of the loop body), re-anchoring the cycle inside the first
  iteration with the periodicity of the relation.
-/
namespace OsacaVerif.LCD
open OsacaVerif OsacaVerif.DG

/-- **cycle_transport**: if `D'` is `D` seen from `s ≤ n` positions later and `D` is `n`-periodic, then
    every `D'`-cycle starting inside the first iteration yields a `D`-cycle starting inside the
    first iteration with the same latencies, whose members (positions modulo `n`) are the old members
    shifted by `s` modulo `n`. -/
theorem cycle_transport (D D' : Nat → Nat → Option Rat) (n s : Nat) (hs : s ≤ n)
    (hD : ∀ x y, D' x y = D (x + s) (y + s)) (hper : ∀ x y, D (x + n) (y + n) = D x y)
    (a' : List (Nat × Rat)) (hc : IsStreamCycle D' n a') (hst : StartsBelow n a') :
    ∃ a, IsStreamCycle D n a ∧ StartsBelow n a ∧
      a.map (fun x => (x.1 % n, x.2)) = a'.map (fun x => ((x.1 + s) % n, x.2)) := by
  have hb := (cycle_shift D D' s n hD a').mp hc
  cases a' with
  | nil => exact absurd hc (fun h => h)
  | cons x rest =>
    have hx : x.1 < n := hst
    by_cases hlt : x.1 + s < n
    · refine ⟨shiftPos s (x :: rest), hb, hlt, ?_⟩
      simp [shiftPos, List.map_map, Function.comp_def]
    · have hbounds := cycle_bounds D n (x.1 + s, x.2) (shiftPos s rest) hb
      have hge : ∀ y ∈ shiftPos s (x :: rest), n ≤ y.1 := by
        intro y hy
        have := (hbounds y hy).1
        simp only at this
        omega
      have hback : shiftPos n ((shiftPos s (x :: rest)).map (fun y => (y.1 - n, y.2))) = shiftPos s (x :: rest) := by
        unfold shiftPos at hge ⊢
        rw [List.map_map]
        conv => rhs; rw [← List.map_id (List.map (fun x => (x.1 + s, x.2)) (x :: rest))]
        apply List.map_congr_left
        intro y hy
        have := hge y hy
        simp only [Function.comp_apply, id]
        exact Prod.ext (by simp only; omega) rfl
      refine ⟨(shiftPos s (x :: rest)).map (fun y => (y.1 - n, y.2)), ?_, ?_, ?_⟩
      · rw [cycle_shift D D n n (fun x y => (hper x y).symm), hback]
        exact hb
      · show x.1 + s - n < n
        omega
      · rw [List.map_map]
        have : (shiftPos s (x :: rest)).map ((fun x => (x.1 % n, x.2)) ∘ fun y => (y.1 - n, y.2)) =
            (shiftPos s (x :: rest)).map (fun x => (x.1 % n, x.2)) := by
          apply List.map_congr_left
          intro y hy
          have := hge y hy
          simp only [Function.comp_apply]
          rw [← Nat.mod_eq_sub_mod this]
        rw [this]
        simp [shiftPos, List.map_map, Function.comp_def]

end OsacaVerif.LCD
