import OsacaVerif.Lemmas.Ports
import Mathlib.Algebra.BigOperators.Ring.List
import Mathlib.Algebra.Order.BigOperators.Group.List

namespace OsacaVerif.Spec
open OsacaVerif OsacaVerif.Ports

theorem sum_indicator (S : List Nat) (hS : S.Nodup) (q : Nat) :
    (S.map fun p => if q = p then (1 : Rat) else 0).sum = if q ∈ S then 1 else 0 := by
  induction S with
  | nil => simp
  | cons a S ih =>
    have hS' := (List.nodup_cons.mp hS)
    simp only [List.map_cons, List.sum_cons, ih hS'.2, List.mem_cons]
    by_cases h1 : q = a
    · subst h1; simp [hS'.1]
    · simp [h1]

theorem sum_count (S : List Nat) (hS : S.Nodup) (ports : List Nat) :
    (S.map fun p => (ports.count p : Rat)).sum = ((ports.filter (· ∈ S)).length : Rat) := by
  induction ports with
  | nil => simp
  | cons q qs ih =>
    have : ∀ p, ((q :: qs).count p : Rat) = (qs.count p : Rat) + (if q = p then 1 else 0) := by
      intro p
      by_cases h : q = p
      · subst h; simp
      · have : ¬ (q == p) = true := by simpa using h
        simp [List.count_cons, h, this]
    simp only [this, List.sum_map_add, ih, sum_indicator S hS q]
    by_cases hq : q ∈ S <;> simp [List.filter_cons, hq]

theorem sum_share (u : Uop) (S : List Nat) (hS : S.Nodup) :
    (S.map (share u ·)).sum =
      ((u.ports.filter (· ∈ S)).length : Rat) * (u.mult * (u.cycles / u.ports.length)) := by
  simp only [share]
  rw [List.sum_map_mul_right, sum_count S hS]

theorem share_nonneg (u : Uop) (p : Nat) (h1 : 0 ≤ u.cycles) (h2 : 0 ≤ u.mult) : 0 ≤ share u p := by
  unfold share
  apply mul_nonneg (by positivity)
  apply mul_nonneg h2
  apply div_nonneg h1 (by positivity)

theorem sum_share_confined (u : Uop) (S : List Nat) (hS : S.Nodup) (hne : u.ports ≠ [])
    (hsub : ∀ p ∈ u.ports, p ∈ S) : (S.map (share u ·)).sum = u.amount := by
  rw [sum_share u S hS]
  have : u.ports.filter (· ∈ S) = u.ports := by
    apply List.filter_eq_self.mpr; intro p hp; simpa using hsub p hp
  rw [this]
  have hl : (u.ports.length : Rat) ≠ 0 := by
    have : u.ports.length ≠ 0 := by simpa [List.length_eq_zero_iff] using hne
    exact_mod_cast this
  unfold Uop.amount
  field_simp

theorem sum_share_nonneg (u : Uop) (S : List Nat) (h1 : 0 ≤ u.cycles) (h2 : 0 ≤ u.mult) :
    0 ≤ (S.map (share u ·)).sum := by
  apply List.sum_nonneg
  intro x hx
  obtain ⟨p, _, rfl⟩ := List.mem_map.mp hx
  exact share_nonneg u p h1 h2

/-- sum exchange: Σ_{p∈S} Σ_u share u p = Σ_u Σ_{p∈S} share u p -/
theorem sumOn_uniform (n : Nat) (us : List Uop) (S : List Nat) (hS : ∀ p ∈ S, p < n) :
    sumOn (uniform n us) S = (us.map fun u => (S.map (share u ·)).sum).sum := by
  induction S with
  | nil => simp [sumOn]
  | cons p S ih =>
    have hp : p < n := hS p List.mem_cons_self
    have ih' := ih (by intro q hq; exact hS q (List.mem_cons_of_mem _ hq))
    simp only [sumOn, List.map_cons, List.sum_cons] at *
    rw [ih', getD_uniform n us p hp, ← List.sum_map_add]

theorem confined_le (n : Nat) (us : List Uop) (hw : WFUops n us) (S : List Nat) (hS : S.Nodup) :
    confined us S ≤ (us.map fun u => (S.map (share u ·)).sum).sum := by
  induction us with
  | nil => simp [confined]
  | cons u us ih =>
    have hu := hw u List.mem_cons_self
    have ih' := ih (by intro u' hu'; exact hw u' (List.mem_cons_of_mem _ hu'))
    simp only [confined, List.map_cons, List.sum_cons] at *
    by_cases hc : u.ports.all (· ∈ S) = true
    · have hsub : ∀ p ∈ u.ports, p ∈ S := by simpa using hc
      rw [List.filter_cons_of_pos (by simpa using hc), List.map_cons, List.sum_cons,
        sum_share_confined u S hS hu.2.2.1 hsub]
      linarith
    · rw [List.filter_cons_of_neg (by simpa using hc)]
      have := sum_share_nonneg u S hu.1 hu.2.1
      linarith

theorem sum_eq_sumOn_range (v : List Rat) : v.sum = sumOn v (List.range v.length) := by
  unfold sumOn
  induction v with
  | nil => simp
  | cons a v ih =>
    rw [List.length_cons, List.range_succ_eq_map, List.map_cons, List.sum_cons, List.map_map]
    simp [ih, Function.comp_def]

theorem total_uniform (n : Nat) (us : List Uop) (hw : WFUops n us) :
    (uniform n us).sum = totalAmount us := by
  rw [sum_eq_sumOn_range, length_uniform, sumOn_uniform n us _ (by intro p hp; simpa using hp)]
  unfold totalAmount
  congr 1
  apply List.map_congr_left
  intro u hu
  have h := hw u hu
  exact sum_share_confined u (List.range n) List.nodup_range h.2.2.1
    (by intro p hp; simpa using h.2.2.2 p hp)

/-- **C01, uniform scheduling** (∀ port counts, ∀ micro-op lists): the uniform 1/N split is an
    exactly feasible fractional assignment — non-negative, supported on admissible ports,
    total = Σ multiplier·cycles, and every port set carries at least its confined cycles. -/
theorem uniform_feasible (n : Nat) (us : List Uop) (hw : WFUops n us) :
    Feasible 0 n us (uniform n us) where
  len := length_uniform n us
  nonneg := by
    intro p hp
    rw [getD_uniform n us p hp]
    simp only [neg_zero]
    apply List.sum_nonneg
    intro x hx
    obtain ⟨u, hu, rfl⟩ := List.mem_map.mp hx
    exact share_nonneg u p (hw u hu).1 (hw u hu).2.1
  support := by
    intro p hp hno
    rw [getD_uniform n us p hp]
    apply List.sum_eq_zero
    intro x hx
    obtain ⟨u, hu, rfl⟩ := List.mem_map.mp hx
    simp [share, List.count_eq_zero_of_not_mem (hno u hu)]
  totalLo := by rw [total_uniform n us hw]; simp
  totalHi := by rw [total_uniform n us hw]; simp
  hall := by
    intro S hS hSn
    rw [sumOn_uniform n us S hSn]
    have := confined_le n us hw S hS
    simpa using this

end OsacaVerif.Spec
