import OsacaVerif.Spec.Deps
import Mathlib.Algebra.Order.Field.Rat
import Mathlib.Tactic.Linarith
import Mathlib.Tactic.Ring
import Mathlib.Data.List.Induction
import Mathlib.Algebra.BigOperators.Group.List.Basic
/-
  Helper development for C04: dependency chains over an explicit weighted edge list, their length as
  the property defines it, and the proof that the dynamic programme `Spec.longestChain` computes the
  maximum chain length.
-/
namespace OsacaVerif.Spec
open OsacaVerif

deriving instance DecidableEq for WEdge

/-! ### maximum of a list -/

theorem foldl_max_init (vs : List Rat) (v : Rat) :
    v ≤ vs.foldl (fun (m : Rat) x => if m < x then x else m) v := by
  induction vs generalizing v with
  | nil => simp
  | cons a vs ih =>
    simp only [List.foldl_cons]
    refine le_trans ?_ (ih _)
    split <;> linarith

theorem foldl_max_ge (vs : List Rat) (v : Rat) :
    ∀ x ∈ vs, x ≤ vs.foldl (fun (m : Rat) x => if m < x then x else m) v := by
  induction vs generalizing v with
  | nil => simp
  | cons a vs ih =>
    intro x hx
    simp only [List.foldl_cons]
    rcases List.mem_cons.mp hx with rfl | hx
    · refine le_trans ?_ (foldl_max_init vs _)
      split <;> linarith
    · exact ih _ x hx

theorem foldl_max_mem (vs : List Rat) (v : Rat) :
    vs.foldl (fun (m : Rat) x => if m < x then x else m) v = v ∨
    vs.foldl (fun (m : Rat) x => if m < x then x else m) v ∈ vs := by
  induction vs generalizing v with
  | nil => simp
  | cons a vs ih =>
    simp only [List.foldl_cons]
    rcases ih (if v < a then a else v) with h | h
    · rw [h]
      split
      · exact Or.inr List.mem_cons_self
      · exact Or.inl rfl
    · exact Or.inr (List.mem_cons_of_mem _ h)

theorem maxR_eq_none (l : List Rat) : maxR l = none ↔ l = [] := by
  cases l <;> simp [maxR]

theorem maxR_some_mem (l : List Rat) (m : Rat) (h : maxR l = some m) : m ∈ l := by
  cases l with
  | nil => simp [maxR] at h
  | cons v vs =>
    simp only [maxR, Option.some.injEq] at h
    subst h
    rcases foldl_max_mem vs v with h | h
    · rw [h]; exact List.mem_cons_self
    · exact List.mem_cons_of_mem _ h

theorem maxR_of_mem (l : List Rat) (x : Rat) (hx : x ∈ l) : ∃ m, maxR l = some m ∧ x ≤ m := by
  cases l with
  | nil => simp at hx
  | cons v vs =>
    refine ⟨_, rfl, ?_⟩
    rcases List.mem_cons.mp hx with rfl | hx
    · exact foldl_max_init vs _
    · exact foldl_max_ge vs v x hx

/-! ### lists with distinct keys -/

theorem find?_of_nodup_key {α : Type} (key : α → Nat) (l : List α) (h : (l.map key).Nodup) (a : α)
    (ha : a ∈ l) : l.find? (fun x => key x == key a) = some a := by
  induction l with
  | nil => simp at ha
  | cons b l ih =>
    simp only [List.map_cons, List.nodup_cons] at h
    rcases List.mem_cons.mp ha with rfl | ha
    · simp
    · have hne : key b ≠ key a := fun hk => h.1 (hk ▸ List.mem_map.mpr ⟨a, ha, rfl⟩)
      have : (key b == key a) = false := by simpa using hne
      rw [List.find?_cons, this]
      exact ih h.2 ha

/-! ### the table of the dynamic programme -/

abbrev Table := List (Nat × Option Rat × Rat)

/-- best `loadStage i₁ + Σ w` over chains with ≥ 2 members ending at `line`, from the table so far -/
def extOf (es : List WEdge) (acc : Table) (line : Nat) : Option Rat :=
  maxR (es.filterMap fun e =>
    if e.dst == line then (acc.find? (·.1 == e.src)).map (fun t => t.2.2 + e.w) else none)

/-- best value a chain continuing from a node starts with -/
def bOf (ext : Option Rat) (stage : Rat) : Rat :=
  match ext with
  | some x => if x < stage then stage else x
  | none => stage

def stepT (es : List WEdge) (acc : Table) (i : LatInfo) : Table :=
  acc ++ [(i.line, extOf es acc i.line, bOf (extOf es acc i.line) i.loadStage)]

def table (infos : List LatInfo) (es : List WEdge) : Table := infos.foldl (stepT es) []

theorem longestChain_eq (infos : List LatInfo) (es : List WEdge) :
    longestChain infos es = maxOr0 (infos.map fun i => endValue (table infos es) i) := rfl

theorem table_snoc (pre : List LatInfo) (i : LatInfo) (es : List WEdge) :
    table (pre ++ [i]) es = stepT es (table pre es) i := by
  simp [table, List.foldl_append]

theorem table_keys (infos : List LatInfo) (es : List WEdge) :
    (table infos es).map (·.1) = infos.map (·.line) := by
  induction infos using List.reverseRecOn with
  | nil => rfl
  | append_singleton pre i ih => rw [table_snoc]; simp [stepT, ih]

/-- a property of table entries is established entry by entry, each from the entries before it -/
theorem table_forall (infos : List LatInfo) (es : List WEdge) (P : Nat × Option Rat × Rat → Prop)
    (hstep : ∀ pre i post, infos = pre ++ i :: post → (∀ t ∈ table pre es, P t) →
      P (i.line, extOf es (table pre es) i.line, bOf (extOf es (table pre es) i.line) i.loadStage)) :
    ∀ t ∈ table infos es, P t := by
  suffices h : ∀ pre post, infos = pre ++ post → ∀ t ∈ table pre es, P t from h infos [] (by simp)
  intro pre
  induction pre using List.reverseRecOn with
  | nil => intro post _ t ht; simp [table] at ht
  | append_singleton pre i ih =>
    intro post hsplit t ht
    have hsplit' : infos = pre ++ i :: post := by simpa using hsplit
    rw [table_snoc, stepT, List.mem_append, List.mem_singleton] at ht
    rcases ht with ht | rfl
    · exact ih (i :: post) hsplit' t ht
    · exact hstep pre i post hsplit' (ih (i :: post) hsplit')

theorem bOf_ge_stage (ext : Option Rat) (stage : Rat) : stage ≤ bOf ext stage := by
  unfold bOf
  cases ext with
  | none => exact le_refl _
  | some x => simp only; split <;> linarith

theorem bOf_ge_ext (x stage : Rat) : x ≤ bOf (some x) stage := by
  unfold bOf
  simp only; split <;> linarith

/-! ### chains -/

/-- a dependency chain: a start line and the edges followed from there -/
structure Chain where
  start : Nat
  edges : List WEdge
  deriving Repr, DecidableEq

/-- consecutive edges are linked: each starts where the previous one ended -/
def linked : Nat → List WEdge → Bool
  | _, [] => true
  | s, e :: es => e.src == s && linked e.dst es

/-- the last line of a chain -/
def endOf : Nat → List WEdge → Nat
  | s, [] => s
  | _, e :: es => endOf e.dst es

theorem linked_snoc (s : Nat) (es : List WEdge) (e : WEdge) :
    linked s (es ++ [e]) = true ↔ linked s es = true ∧ e.src = endOf s es := by
  induction es generalizing s with
  | nil => simp [linked, endOf]
  | cons a es ih => simp [linked, endOf, ih, and_assoc]

theorem endOf_snoc (s : Nat) (es : List WEdge) (e : WEdge) : endOf s (es ++ [e]) = e.dst := by
  induction es generalizing s with
  | nil => simp [endOf]
  | cons a es ih => simp [endOf, ih]

def latOf (infos : List LatInfo) (l : Nat) : Rat :=
  match infos.find? (·.line == l) with | some i => i.lat | none => 0

def stageOf (infos : List LatInfo) (l : Nat) : Rat :=
  match infos.find? (·.line == l) with | some i => i.loadStage | none => 0

/-- a genuine chain of the graph: it starts at an instruction, follows edges of the edge list, and
    stays within the instructions -/
def Chain.Valid (infos : List LatInfo) (es : List WEdge) (c : Chain) : Prop :=
  (∃ i ∈ infos, i.line = c.start) ∧ (∀ e ∈ c.edges, e ∈ es ∧ ∃ i ∈ infos, i.line = e.dst) ∧
  linked c.start c.edges = true

instance (infos : List LatInfo) (es : List WEdge) (c : Chain) : Decidable (c.Valid infos es) := by
  unfold Chain.Valid; infer_instance

/-- `loadStage i₁ + Σ w`: what a chain contributes before the latency of its last member -/
def Chain.pv (infos : List LatInfo) (c : Chain) : Rat :=
  stageOf infos c.start + (c.edges.map (·.w)).sum

/-- **chain length as the property defines it**: `chainLen [i] = lat i`,
    `chainLen (i₁ … iₙ) = loadStage i₁ + Σ w(iₖ, iₖ₊₁) + lat iₙ` -/
def Chain.len (infos : List LatInfo) (c : Chain) : Rat :=
  match c.edges with
  | [] => latOf infos c.start
  | _ :: _ => c.pv infos + latOf infos (endOf c.start c.edges)

theorem Chain.len_of_ne (infos : List LatInfo) (c : Chain) (h : c.edges ≠ []) :
    c.len infos = c.pv infos + latOf infos (endOf c.start c.edges) := by
  unfold Chain.len
  cases hc : c.edges with
  | nil => exact absurd hc h
  | cons a as => rfl

theorem Chain.end_mem (infos : List LatInfo) (es : List WEdge) (c : Chain) (h : c.Valid infos es) :
    ∃ i ∈ infos, i.line = endOf c.start c.edges := by
  obtain ⟨hs, he, _⟩ := h
  rcases List.eq_nil_or_concat c.edges with hnil | ⟨es', e, hc⟩
  · rw [hnil]; exact hs
  · rw [hc, List.concat_eq_append, endOf_snoc]
    exact (he e (by rw [hc]; simp)).2

theorem latOf_eq (infos : List LatInfo) (hnd : (infos.map (·.line)).Nodup) (i : LatInfo) (hi : i ∈ infos) :
    latOf infos i.line = i.lat := by
  unfold latOf
  rw [find?_of_nodup_key (·.line) infos hnd i hi]

theorem stageOf_eq (infos : List LatInfo) (hnd : (infos.map (·.line)).Nodup) (i : LatInfo) (hi : i ∈ infos) :
    stageOf infos i.line = i.loadStage := by
  unfold stageOf
  rw [find?_of_nodup_key (·.line) infos hnd i hi]

/-! ### forward edge lists -/

/-- every edge between two instructions points forward in the order of `infos` -/
def FwdIn (infos : List LatInfo) (es : List WEdge) : Prop :=
  ∀ e ∈ es, e.src ∈ infos.map (·.line) → e.dst ∈ infos.map (·.line) →
    (infos.map (·.line)).idxOf e.src < (infos.map (·.line)).idxOf e.dst

instance (infos : List LatInfo) (es : List WEdge) : Decidable (FwdIn infos es) := by
  unfold FwdIn; infer_instance

/-- forward edges: the source of an edge into `i` occurs before `i` -/
theorem FwdIn.split {infos : List LatInfo} {es : List WEdge} (h : FwdIn infos es)
    (hnd : (infos.map (·.line)).Nodup) {pre post : List LatInfo} {i : LatInfo}
    (hsplit : infos = pre ++ i :: post) {e : WEdge} (he : e ∈ es) (hd : e.dst = i.line)
    (hs : e.src ∈ infos.map (·.line)) : e.src ∈ pre.map (·.line) := by
  have hlt := h e he hs (by rw [hd, hsplit]; simp)
  rw [hsplit] at hlt hnd
  simp only [List.map_append, List.map_cons] at hlt hnd
  have hnotin : i.line ∉ pre.map (·.line) := by
    intro hin
    have := (List.nodup_append.mp hnd).2.2 _ hin i.line (by simp)
    exact this rfl
  by_contra hsrc
  rw [List.idxOf_append, if_neg hsrc, hd, List.idxOf_append, if_neg hnotin, List.idxOf_cons_self] at hlt
  simp only [List.length_map] at hlt
  omega

theorem idxOf_lt_of_sorted (l : List Nat) (hs : l.Pairwise (· < ·)) (a b : Nat) (ha : a ∈ l) (hb : b ∈ l)
    (hab : a < b) : l.idxOf a < l.idxOf b := by
  by_contra hcon
  have hia := List.idxOf_lt_length_iff.mpr ha
  have hib := List.idxOf_lt_length_iff.mpr hb
  have hga := List.getElem_idxOf hia
  have hgb := List.getElem_idxOf hib
  rcases Nat.lt_or_ge (l.idxOf b) (l.idxOf a) with hlt | hge
  · have := List.pairwise_iff_getElem.mp hs _ _ hib hia hlt
    rw [hga, hgb] at this
    omega
  · have heq : l.idxOf a = l.idxOf b := by omega
    have : a = b := by
      rw [← hga, ← hgb]
      congr 1
    omega

/-- the situation of OSACA: lines strictly increasing and every edge goes to a larger line -/
theorem fwdIn_of_sorted (infos : List LatInfo) (es : List WEdge)
    (hs : (infos.map (·.line)).Pairwise (· < ·)) (he : ∀ e ∈ es, e.src < e.dst) : FwdIn infos es :=
  fun e hin ha hb => idxOf_lt_of_sorted _ hs _ _ ha hb (he e hin)

theorem nodup_of_sorted (l : List Nat) (hs : l.Pairwise (· < ·)) : l.Nodup :=
  hs.imp (fun h => Nat.ne_of_lt h)

/-! ### the invariant: every table entry is sound and complete -/

/-- soundness of a table entry: its values are the `pv` of genuine chains ending at its line -/
def EntrySound (infos : List LatInfo) (es : List WEdge) (t : Nat × Option Rat × Rat) : Prop :=
  (∀ x, t.2.1 = some x → ∃ c : Chain, c.Valid infos es ∧ c.edges ≠ [] ∧
      endOf c.start c.edges = t.1 ∧ c.pv infos = x) ∧
  (∃ c : Chain, c.Valid infos es ∧ endOf c.start c.edges = t.1 ∧ c.pv infos = t.2.2)

/-- completeness of a table entry: it dominates the `pv` of every genuine chain ending at its line -/
def EntryComplete (infos : List LatInfo) (es : List WEdge) (t : Nat × Option Rat × Rat) : Prop :=
  ∀ c : Chain, c.Valid infos es → endOf c.start c.edges = t.1 →
    c.pv infos ≤ t.2.2 ∧ (c.edges ≠ [] → ∃ x, t.2.1 = some x ∧ c.pv infos ≤ x)

theorem single_valid (infos : List LatInfo) (es : List WEdge) (i : LatInfo) (hi : i ∈ infos) :
    (Chain.mk i.line []).Valid infos es :=
  ⟨⟨i, hi, rfl⟩, by simp, rfl⟩

theorem table_sound (infos : List LatInfo) (es : List WEdge) (hnd : (infos.map (·.line)).Nodup) :
    ∀ t ∈ table infos es, EntrySound infos es t := by
  apply table_forall
  intro pre i post hsplit hT
  have hi : i ∈ infos := by rw [hsplit]; simp
  have hsingle : (Chain.mk i.line []).pv infos = i.loadStage := by
    simp [Chain.pv, stageOf_eq infos hnd i hi]
  -- the chain behind an `ext` value
  have hext : ∀ x, extOf es (table pre es) i.line = some x → ∃ c : Chain, c.Valid infos es ∧
      c.edges ≠ [] ∧ endOf c.start c.edges = i.line ∧ c.pv infos = x := by
    intro x hx
    have hmem := maxR_some_mem _ _ hx
    simp only [List.mem_filterMap] at hmem
    obtain ⟨e, he, hval⟩ := hmem
    by_cases hd : e.dst = i.line
    · simp only [hd, beq_self_eq_true, if_true, Option.map_eq_some_iff] at hval
      obtain ⟨t, hfind, hx'⟩ := hval
      have ht := List.mem_of_find?_eq_some hfind
      have hkey : t.1 = e.src := by simpa using List.find?_some hfind
      obtain ⟨_, c', hv', hend', hpv'⟩ := hT t ht
      refine ⟨⟨c'.start, c'.edges ++ [e]⟩, ⟨hv'.1, ?_, ?_⟩, by simp, ?_, ?_⟩
      · intro f hf
        rcases List.mem_append.mp hf with hf | hf
        · exact hv'.2.1 f hf
        · simp only [List.mem_singleton] at hf
          subst hf
          exact ⟨he, i, hi, hd.symm⟩
      · exact (linked_snoc _ _ _).mpr ⟨hv'.2.2, by rw [hend', hkey]⟩
      · simp only [endOf_snoc, hd]
      · simp only [Chain.pv, List.map_append, List.sum_append, List.map_cons, List.map_nil,
          List.sum_cons, List.sum_nil] at hpv' ⊢
        rw [← hx', ← hpv']
        ring
    · have : (e.dst == i.line) = false := by simpa using hd
      simp [this] at hval
  refine ⟨hext, ?_⟩
  cases hx : extOf es (table pre es) i.line with
  | none => exact ⟨⟨i.line, []⟩, single_valid infos es i hi, rfl, by simpa [bOf] using hsingle⟩
  | some x =>
    simp only [bOf]
    split
    · exact ⟨⟨i.line, []⟩, single_valid infos es i hi, rfl, hsingle⟩
    · obtain ⟨c, hv, _, hend, hpv⟩ := hext x hx
      exact ⟨c, hv, hend, hpv⟩

theorem table_complete (infos : List LatInfo) (es : List WEdge) (hnd : (infos.map (·.line)).Nodup)
    (hfwd : FwdIn infos es) : ∀ t ∈ table infos es, EntryComplete infos es t := by
  apply table_forall
  intro pre i post hsplit hT c hv hend
  simp only at hend ⊢
  have hi : i ∈ infos := by rw [hsplit]; simp
  have hkeys := table_keys pre es
  have hndT : ((table pre es).map (·.1)).Nodup := by
    rw [hkeys]
    have : (pre.map (·.line)).Sublist (infos.map (·.line)) := by
      rw [hsplit]; exact (List.sublist_append_left _ _).map _
    exact hnd.sublist this
  rcases List.eq_nil_or_concat c.edges with hnil | ⟨es', e, hc⟩
  · -- the chain is the single instruction
    rw [hnil] at hend
    simp only [endOf] at hend
    have hpv : c.pv infos = i.loadStage := by
      simp [Chain.pv, hnil, hend, stageOf_eq infos hnd i hi]
    refine ⟨by rw [hpv]; exact bOf_ge_stage _ _, fun h => absurd hnil h⟩
  · rw [List.concat_eq_append] at hc
    obtain ⟨hs, hedges, hlink⟩ := hv
    rw [hc] at hedges hlink hend
    rw [endOf_snoc] at hend
    obtain ⟨hlink', hsrc⟩ := (linked_snoc _ _ _).mp hlink
    have hv' : (Chain.mk c.start es').Valid infos es :=
      ⟨hs, fun f hf => hedges f (List.mem_append_left _ hf), hlink'⟩
    have he := (hedges e (by simp)).1
    obtain ⟨j, hj, hjl⟩ := Chain.end_mem infos es _ hv'
    have hsrcIn : e.src ∈ infos.map (·.line) := by
      rw [hsrc]; exact List.mem_map.mpr ⟨j, hj, hjl⟩
    have hpre := hfwd.split hnd hsplit he hend hsrcIn
    rw [← hkeys] at hpre
    obtain ⟨t, ht, htk⟩ := List.mem_map.mp hpre
    have hfind : (table pre es).find? (·.1 == e.src) = some t := by
      have := find?_of_nodup_key (·.1) (table pre es) hndT t ht
      rw [← htk]; exact this
    have hle := (hT t ht (Chain.mk c.start es') hv' (by simp only; rw [← hsrc, htk])).1
    have hmem : t.2.2 + e.w ∈ es.filterMap fun e =>
        if e.dst == i.line then ((table pre es).find? (·.1 == e.src)).map (fun t => t.2.2 + e.w)
        else none := by
      simp only [List.mem_filterMap]
      exact ⟨e, he, by simp [hend, hfind]⟩
    obtain ⟨m, hm, hmle⟩ := maxR_of_mem _ _ hmem
    have hpv : c.pv infos = (Chain.mk c.start es').pv infos + e.w := by
      simp only [Chain.pv, hc, List.map_append, List.sum_append, List.map_cons, List.map_nil,
        List.sum_cons, List.sum_nil]
      ring
    have hext : extOf es (table pre es) i.line = some m := hm
    rw [hext]
    have hb := bOf_ge_ext m i.loadStage
    refine ⟨by linarith, fun _ => ⟨m, rfl, by linarith⟩⟩

/-! ### the dynamic programme computes the maximum -/

theorem entry_of_info (infos : List LatInfo) (es : List WEdge) (hnd : (infos.map (·.line)).Nodup)
    (j : LatInfo) (hj : j ∈ infos) :
    ∃ t ∈ table infos es, t.1 = j.line ∧ (table infos es).find? (·.1 == j.line) = some t := by
  have hk := table_keys infos es
  have hin : j.line ∈ (table infos es).map (·.1) := by rw [hk]; exact List.mem_map.mpr ⟨j, hj, rfl⟩
  obtain ⟨t, ht, htk⟩ := List.mem_map.mp hin
  refine ⟨t, ht, htk, ?_⟩
  have := find?_of_nodup_key (·.1) (table infos es) (by rw [hk]; exact hnd) t ht
  rw [← htk]; exact this

theorem maxOr0_ge (l : List Rat) (x : Rat) (hx : x ∈ l) : x ≤ maxOr0 l := by
  obtain ⟨m, hm, hle⟩ := maxR_of_mem l x hx
  simp [maxOr0, hm, hle]

/-- **the DP dominates every genuine chain** -/
theorem longestChain_ge (infos : List LatInfo) (es : List WEdge) (hnd : (infos.map (·.line)).Nodup)
    (hfwd : FwdIn infos es) (c : Chain) (hv : c.Valid infos es) :
    c.len infos ≤ longestChain infos es := by
  obtain ⟨j, hj, hjl⟩ := Chain.end_mem infos es c hv
  obtain ⟨t, ht, htk, hfind⟩ := entry_of_info infos es hnd j hj
  have hcomp := table_complete infos es hnd hfwd t ht c hv (by rw [htk, hjl])
  have hlat : latOf infos (endOf c.start c.edges) = j.lat := by rw [← hjl]; exact latOf_eq infos hnd j hj
  rw [longestChain_eq]
  refine le_trans ?_ (maxOr0_ge _ (endValue (table infos es) j) (List.mem_map.mpr ⟨j, hj, rfl⟩))
  unfold endValue
  rw [hfind]
  obtain ⟨l, ext, b⟩ := t
  by_cases hnil : c.edges = []
  · have hlen : c.len infos = j.lat := by
      unfold Chain.len
      rw [hnil] at hlat ⊢
      exact hlat
    rw [hlen]
    cases ext with
    | none => exact le_refl _
    | some x => simp only; split <;> linarith
  · obtain ⟨x, hx, hle⟩ := hcomp.2 hnil
    simp only at hx
    subst hx
    rw [Chain.len_of_ne infos c hnil, hlat]
    simp only
    split <;> linarith

/-- **the DP value is the length of a genuine chain** (needs no forwardness) -/
theorem longestChain_attained (infos : List LatInfo) (es : List WEdge)
    (hnd : (infos.map (·.line)).Nodup) (hne : infos ≠ []) :
    ∃ c : Chain, c.Valid infos es ∧ c.len infos = longestChain infos es := by
  rw [longestChain_eq]
  have hne' : infos.map (fun i => endValue (table infos es) i) ≠ [] := by simpa using hne
  cases hm : maxR (infos.map fun i => endValue (table infos es) i) with
  | none => exact absurd ((maxR_eq_none _).mp hm) hne'
  | some m =>
    have hmem := maxR_some_mem _ _ hm
    obtain ⟨j, hj, hval⟩ := List.mem_map.mp hmem
    simp only [maxOr0, hm, Option.getD_some]
    obtain ⟨t, ht, htk, hfind⟩ := entry_of_info infos es hnd j hj
    have hsound := table_sound infos es hnd t ht
    have hsingle : ∃ c : Chain, c.Valid infos es ∧ c.len infos = j.lat :=
      ⟨⟨j.line, []⟩, single_valid infos es j hj, by simp [Chain.len, latOf_eq infos hnd j hj]⟩
    unfold endValue at hval
    rw [hfind] at hval
    obtain ⟨l, ext, b⟩ := t
    cases ext with
    | none => simp only at hval; rw [← hval]; exact hsingle
    | some x =>
      simp only at hval
      split at hval
      · obtain ⟨c, hv, hnn, hend, hpv⟩ := hsound.1 x rfl
        refine ⟨c, hv, ?_⟩
        rw [Chain.len_of_ne infos c hnn, hpv, hend, ← hval]
        simp only at htk
        rw [htk, latOf_eq infos hnd j hj]
      · rw [← hval]; exact hsingle

theorem longestChain_nil (es : List WEdge) : longestChain [] es = 0 := by
  simp [longestChain_eq, maxOr0, maxR]

end OsacaVerif.Spec
