import OsacaVerif.Lemmas.PipelineRen
import OsacaVerif.Props.C05
/-
  Helper development for the pipeline theorems, part 2: the loop-carried-dependency search with
  the offset and the fuel as explicit parameters; it commutes with order-preserving renamings,
  and neither the offset (any number above every line) nor the fuel (any number above
  `2·|kernel|`) matters.
-/
namespace OsacaVerif.Pipeline
open OsacaVerif OsacaVerif.DG OsacaVerif.LCD

/-- `LCD.lcd` with the offset of the second copy and the search depth as parameters -/
def lcdWith (isa : Isa) (fd : Bool) (par : Params) (off fuel : Nat) (k : List Ins) : List Entry :=
  post off (k.flatMap fun i => pathsFrom (create isa fd par (double off k)) (i.line + off) fuel i.line [i.line])

theorem lcd_eq_lcdWith (isa : Isa) (fd : Bool) (par : Params) (floor : Nat) (k : List Ins) :
    lcd isa fd par floor k = lcdWith isa fd par (offsetOf floor k) (2 * k.length + 1) k := rfl

/-- transport along a renaming `F` of the doubled graph that restricts to `f` on both copies -/
theorem lcdWith_transport {f F : Nat → Nat} (hf : Incr f) (hF : Incr F) (isa : Isa) (fd : Bool) (par : Params)
    (off off' fuel : Nat) (k : List Ins)
    (h1 : ∀ i ∈ k, F i.line = f i.line) (h2 : ∀ i ∈ k, F (i.line + off) = f i.line + off')
    (hback : ∀ s, backLine off' (F s) = f (backLine off s)) :
    lcdWith isa fd par off' fuel (k.map (renIns f)) = (lcdWith isa fd par off fuel k).map (renEntry f) := by
  unfold lcdWith
  have hd : double off' (k.map (renIns f)) = (double off k).map (renIns F) := by
    unfold double
    simp only [List.map_append, List.map_map]
    congr 1
    · apply List.map_congr_left
      intro i hi
      simp only [Function.comp_apply, renIns, h1 i hi]
    · apply List.map_congr_left
      intro i hi
      simp only [Function.comp_apply, renIns, h2 i hi]
  rw [hd, create_ren hF, ← post_ren hf off off' hback, List.flatMap_map, List.map_flatMap]
  congr 1
  apply flatMap_congr_mem
  intro i hi
  have := pathsFrom_ren hF (create isa fd par (double off k)) (i.line + off) fuel i.line [i.line]
  simp only [List.map_cons, List.map_nil, h1 i hi, h2 i hi] at this
  exact this

theorem renEntry_id (e : Entry) : renEntry (fun x => x) e = e := by
  cases e; simp [renEntry]

theorem map_renIns_id (k : List Ins) : k.map (renIns (fun x => x)) = k := by
  have : renIns (fun x => x) = id := by funext i; rfl
  rw [this, List.map_id]

/-- the result does not depend on the offset, as long as it exceeds every line number -/
theorem lcdWith_offset_le (isa : Isa) (fd : Bool) (par : Params) (off off' fuel : Nat) (k : List Ins)
    (hk : ∀ i ∈ k, i.line < off) (hle : off ≤ off') :
    lcdWith isa fd par off' fuel k = lcdWith isa fd par off fuel k := by
  have hF : Incr (fun x => if x < off then x else x + (off' - off)) := by
    intro a b hab
    simp only
    split <;> split <;> omega
  have := lcdWith_transport (f := fun x => x) Incr.id hF isa fd par off off' fuel k
    (by intro i hi; show (if i.line < off then i.line else i.line + (off' - off)) = i.line; rw [if_pos (hk i hi)])
    (by intro i hi; show (if i.line + off < off then i.line + off else i.line + off + (off' - off)) = i.line + off'
        rw [if_neg (by omega)]; omega)
    (by intro s; simp only [backLine]; split <;> split <;> split <;> omega)
  rw [map_renIns_id] at this
  rw [this]
  have : renEntry (fun x => x) = id := by funext e; exact renEntry_id e
  rw [this, List.map_id]

theorem lcdWith_offset (isa : Isa) (fd : Bool) (par : Params) (off off' fuel : Nat) (k : List Ins)
    (hk : ∀ i ∈ k, i.line < off) (hk' : ∀ i ∈ k, i.line < off') :
    lcdWith isa fd par off' fuel k = lcdWith isa fd par off fuel k := by
  rcases Nat.le_total off off' with h | h
  · exact lcdWith_offset_le isa fd par off off' fuel k hk h
  · exact (lcdWith_offset_le isa fd par off' off fuel k hk' h).symm

/-- renaming: the offset `f off` makes the renaming of the doubled graph order-preserving -/
theorem lcdWith_ren {f : Nat → Nat} (hf : Incr f) (isa : Isa) (fd : Bool) (par : Params) (off fuel : Nat)
    (k : List Ins) (hk : ∀ i ∈ k, i.line < off) :
    lcdWith isa fd par (f off) fuel (k.map (renIns f)) = (lcdWith isa fd par off fuel k).map (renEntry f) := by
  have hF : Incr (fun x => if x < off then f x else f (x - off) + f off) := by
    intro a b hab
    simp only
    split <;> split
    · exact hf a b hab
    · have := hf a off (by omega); omega
    · omega
    · have := hf (a - off) (b - off) (by omega); omega
  apply lcdWith_transport hf hF isa fd par off (f off) fuel k
  · intro i hi; show (if i.line < off then f i.line else f (i.line - off) + f off) = f i.line; rw [if_pos (hk i hi)]
  · intro i hi; show (if i.line + off < off then f (i.line + off) else f (i.line + off - off) + f off) = f i.line + f off
    rw [if_neg (by omega), Nat.add_sub_cancel]
  · intro s
    simp only [backLine]
    by_cases hs : s < off
    · have := hf s off hs
      rw [if_pos hs, if_neg (by omega), if_neg (by omega)]
    · rw [if_neg hs, if_pos (by omega), if_pos (by omega)]; simp

theorem offsetOf_ok (floor : Nat) (k : List Ins) : ∀ i ∈ k, i.line < offsetOf floor k :=
  Props.C05.offset_ok floor k

/-- **the loop-carried dependencies commute with an order-preserving renaming** (although the
    offset `max(floor, max line + 1)` is computed from the numbers) -/
theorem lcd_ren {f : Nat → Nat} (hf : Incr f) (isa : Isa) (fd : Bool) (par : Params) (floor : Nat) (k : List Ins) :
    lcd isa fd par floor (k.map (renIns f)) = (lcd isa fd par floor k).map (renEntry f) := by
  rw [lcd_eq_lcdWith, lcd_eq_lcdWith, List.length_map,
    ← lcdWith_ren hf isa fd par (offsetOf floor k) _ k (offsetOf_ok floor k)]
  apply lcdWith_offset
  · intro i hi
    obtain ⟨j, hj, rfl⟩ := List.mem_map.mp hi
    exact hf _ _ (offsetOf_ok floor k j hj)
  · exact offsetOf_ok floor _

end OsacaVerif.Pipeline
